/-
  helper lemmas for Props/C15cleanup.lean: the skeleton clean-up (`create_lattice` after its first loop) keeps the three
  dictionaries consistent "modulo deleted vertex keys".

  Definitions used by the statements:
    `Mesh.restrict m dead`   the mesh seen through the vertices dict after `del self.vertices[k]` for `k ∈ dead`
    `Mesh.liveKey`, `Mesh.refsLive`, `Mesh.dicts`   Boolean clause groups relative to a list of deleted keys
    `St.liveMesh`, `St.refsLive`, `St.Inv`, `St.Inv0`, `St.pinFree`   the invariant of the clean-up state
  Prop-level forms: `InvP`, `Inv0P`, `RefsLiveP`, `LiveK`, `InvS`, `Inv0S`, `PinOK`, `T3P`.
-/
import ForsysModel.Proofs.C09join
import ForsysModel.Proofs.C15

namespace Forsys
namespace Mesh

/-! ### the mesh seen through the vertices dict: vertex objects whose key was deleted are dropped -/

/-- the vertices dict after `del self.vertices[k]` for every `k ∈ dead` (the objects live on in `m`) -/
def restrict (m : Mesh) (dead : List Id) : Mesh :=
  { m with vertices := m.vertices.filter fun p => !dead.contains p.1 }

/-- no mesh edge joins a vertex to itself (`SmallEdge.__post_init__`: `assert self.v1.id != self.v2.id`) -/
def noLoops (m : Mesh) : Bool := m.edges.all fun p => p.2.v1 != p.2.v2

def NoLoopsP (m : Mesh) : Prop := ∀ q ∈ m.edges, q.2.v1 ≠ q.2.v2

theorem noLoops_iff (m : Mesh) : m.noLoops = true ↔ NoLoopsP m := by
  simp [noLoops, NoLoopsP]

@[simp] theorem restrict_edges (m : Mesh) (d : List Id) : (m.restrict d).edges = m.edges := rfl
@[simp] theorem restrict_cells (m : Mesh) (d : List Id) : (m.restrict d).cells = m.cells := rfl

theorem mem_restrict {m : Mesh} {d : List Id} {p : Id × Vertex} :
    p ∈ (m.restrict d).vertices ↔ p ∈ m.vertices ∧ p.1 ∉ d := by
  simp [restrict]

/-- `k` is a key of the vertices dict -/
def LiveK (m : Mesh) (d : List Id) (k : Id) : Prop := k ∈ m.vertices.map (·.1) ∧ k ∉ d

theorem restrict_keys (m : Mesh) (d : List Id) (k : Id) :
    k ∈ (m.restrict d).vertices.map (·.1) ↔ LiveK m d k := by
  simp only [List.mem_map, mem_restrict, LiveK]
  constructor
  · rintro ⟨p, ⟨h1, h2⟩, rfl⟩; exact ⟨⟨p, h1, rfl⟩, h2⟩
  · rintro ⟨⟨p, h1, rfl⟩, h2⟩; exact ⟨p, ⟨h1, h2⟩, rfl⟩

/-- every mesh edge and every cell refers to keys of the vertices dict only -/
def RefsLiveP (m : Mesh) (d : List Id) : Prop :=
  (∀ q ∈ m.edges, LiveK m d q.2.v1 ∧ LiveK m d q.2.v2) ∧ (∀ q ∈ m.cells, ∀ v ∈ q.2.verts, LiveK m d v)

/-- the invariant of the clean-up, Prop level -/
structure InvP (m : Mesh) (d : List Id) : Prop where
  K : KeysP m
  E : OwnEdgesP (m.restrict d)
  C : OwnCellsP (m.restrict d)
  R : RefsLiveP m d
  N : CellsNodupP m

theorem restrict_keysP {m : Mesh} (d : List Id) (h : KeysP m) : KeysP (m.restrict d) := by
  obtain ⟨h1, h2, h3, h4, h5, h6⟩ := h
  refine ⟨fun p hp => h1 p (mem_restrict.mp hp).1, h2, h3, ?_, h5, h6⟩
  simp only [restrict]
  exact (List.filter_sublist.map _).nodup h4

end Mesh

namespace Skel
open Mesh

def St.liveMesh (st : St) : Mesh := st.mesh.restrict st.dead

/-- every mesh edge and every cell refers to keys of the vertices dict only -/
def St.refsLive (st : St) : Bool :=
  st.mesh.edges.all (fun p => st.live p.2.v1 && st.live p.2.v2) && st.mesh.cells.all (fun p => p.2.verts.all st.live)

/-- the invariant of the clean-up: the three dictionaries are consistent "modulo deleted vertex keys" -/
def St.Inv (st : St) : Bool :=
  st.mesh.keysOk && st.liveMesh.ownEdgesOk && st.liveMesh.ownCellsOk && st.refsLive && st.mesh.cellsNodup &&
    st.zombie.isNone

theorem live_iff (st : St) (k : Id) : st.live k = true ↔ LiveK st.mesh st.dead k := by
  simp only [St.live, Bool.and_eq_true, Mesh.vertex?, alGet?_isSome_iff, LiveK]
  simp

theorem refsLive_iff (st : St) : st.refsLive = true ↔ RefsLiveP st.mesh st.dead := by
  simp only [St.refsLive, RefsLiveP, Bool.and_eq_true, List.all_eq_true, live_iff]

theorem inv_iff (st : St) : st.Inv = true ↔ InvP st.mesh st.dead ∧ st.zombie = none := by
  simp only [St.Inv, Bool.and_eq_true, keysOk_iff, ownEdgesOk_iff, ownCellsOk_iff, refsLive_iff, cellsNodup_iff,
    St.liveMesh, Option.isNone_iff_eq_none]
  constructor
  · rintro ⟨⟨⟨⟨⟨a, b⟩, c⟩, d⟩, e⟩, g⟩; exact ⟨⟨a, b, c, d, e⟩, g⟩
  · rintro ⟨⟨a, b, c, d, e⟩, g⟩; exact ⟨⟨⟨⟨⟨a, b⟩, c⟩, d⟩, e⟩, g⟩

/-! ### `finalMesh` -/

theorem finalMesh_vertices (st : St) : (finalMesh st).vertices = st.liveMesh.vertices := rfl

theorem alGet?_finalMesh_edges (st : St) (k : Id) :
    alGet? k (finalMesh st).edges =
      (alGet? k st.mesh.edges).map fun e => { e with same := st.live e.v1 && st.live e.v2 } :=
  alGet?_map_snd k st.mesh.edges fun _ e => { e with same := st.live e.v1 && st.live e.v2 }

theorem alGet?_finalMesh_cells (st : St) (k : Id) :
    alGet? k (finalMesh st).cells =
      (alGet? k st.mesh.cells).map fun c => { c with same := c.verts.all st.live } :=
  alGet?_map_snd k st.mesh.cells fun _ c => { c with same := c.verts.all st.live }

theorem finalMesh_keysP (st : St) : KeysP (finalMesh st) ↔ KeysP st.liveMesh := by
  simp only [KeysP, finalMesh, St.liveMesh, restrict, St.liveVertices, List.map_map, List.mem_map,
    forall_exists_index, and_imp, forall_apply_eq_imp_iff₂, Function.comp_def]

theorem finalMesh_edges_forall (st : St) (P : Id × SEdge → Prop) : (∀ q ∈ (finalMesh st).edges, P q) ↔
    ∀ q ∈ st.mesh.edges, P (q.1, { q.2 with same := st.live q.2.v1 && st.live q.2.v2 }) := by
  simp only [finalMesh]; exact List.forall_mem_map

theorem finalMesh_cells_forall (st : St) (P : Id × Cell → Prop) : (∀ q ∈ (finalMesh st).cells, P q) ↔
    ∀ q ∈ st.mesh.cells, P (q.1, { q.2 with same := q.2.verts.all st.live }) := by
  simp only [finalMesh]; exact List.forall_mem_map

theorem finalMesh_ownEdgesP (st : St) : OwnEdgesP (finalMesh st) ↔ OwnEdgesP st.liveMesh := by
  unfold OwnEdgesP
  simp only [finalMesh_vertices, alGet?_finalMesh_edges, finalMesh_edges_forall]
  apply forall_congr'; intro p; apply imp_congr_right; intro hp
  apply and_congr
  · apply forall_congr'; intro e; apply imp_congr_right; intro he
    simp only [St.liveMesh, restrict_edges]
    cases alGet? e st.mesh.edges <;> simp
  · exact Iff.rfl

theorem finalMesh_ownCellsP (st : St) : OwnCellsP (finalMesh st) ↔ OwnCellsP st.liveMesh := by
  unfold OwnCellsP
  simp only [finalMesh_vertices, alGet?_finalMesh_cells, finalMesh_cells_forall]
  apply forall_congr'; intro p; apply imp_congr_right; intro hp
  apply and_congr
  · apply forall_congr'; intro e; apply imp_congr_right; intro he
    simp only [St.liveMesh, restrict_cells]
    cases alGet? e st.mesh.cells <;> simp
  · exact Iff.rfl

theorem finalMesh_refsP (st : St) : RefsP (finalMesh st) ↔ RefsLiveP st.mesh st.dead := by
  unfold RefsP RefsLiveP
  simp only [finalMesh_vertices, St.liveMesh, restrict_keys, finalMesh_edges_forall, finalMesh_cells_forall,
    Bool.and_eq_true, List.all_eq_true, live_iff]
  constructor
  · rintro ⟨h1, h2⟩; exact ⟨fun q hq => (h1 q hq).2, fun q hq => (h2 q hq).2⟩
  · rintro ⟨h1, h2⟩; exact ⟨fun q hq => ⟨h1 q hq, h1 q hq⟩, fun q hq => ⟨h2 q hq, h2 q hq⟩⟩

theorem finalMesh_cellsNodupP (st : St) : CellsNodupP (finalMesh st) ↔ CellsNodupP st.mesh := by
  simp only [CellsNodupP, finalMesh_cells_forall]

theorem finalMesh_joinedP (st : St) (a b : Id) : JoinedP (finalMesh st) a b ↔ JoinedP st.mesh a b := by
  simp [JoinedP, finalMesh]

theorem finalMesh_cyclesJoinedP (st : St) : CyclesJoinedP (finalMesh st) ↔ CyclesJoinedP st.mesh := by
  simp only [CyclesJoinedP, finalMesh_joinedP, finalMesh_cells_forall]

theorem finalMesh_consistent_iff' (st : St) : (finalMesh st).Consistent = true ↔
    (st.liveMesh.keysOk && st.liveMesh.ownEdgesOk && st.liveMesh.ownCellsOk && st.refsLive &&
      st.mesh.cellsNodup && st.mesh.cyclesJoined) = true := by
  rw [consistent_iff, finalMesh_keysP, finalMesh_ownEdgesP, finalMesh_ownCellsP, finalMesh_refsP,
    finalMesh_cellsNodupP, finalMesh_cyclesJoinedP]
  simp only [Bool.and_eq_true, keysOk_iff, ownEdgesOk_iff, ownCellsOk_iff, refsLive_iff, cellsNodup_iff,
    cyclesJoined_iff, and_assoc]

end Skel

end Forsys

namespace Forsys
namespace Mesh

theorem restrict_nil (m : Mesh) : m.restrict [] = m := by
  simp [restrict]

theorem mkCell_edges' (m : Mesh) (k : Id) (verts : List Id) : (m.mkCell k verts).edges = m.edges := by
  simp only [mkCell]
  exact foldl_inv (fun x => x.edges = m.edges) (fun m v => m.updVertex v (addCellTo · k)) verts (fun _ _ _ h => h) m rfl

theorem ofLists_edges_forall (P : SEdge → Prop) (vs : List (Id × Rat × Rat)) (es : List (Id × Id × Id))
    (cs : List (Id × List Id)) (h : ∀ e ∈ es, P { id := e.1, v1 := e.2.1, v2 := e.2.2 }) :
    ∀ q ∈ (ofLists vs es cs).edges, P q.2 := by
  unfold ofLists
  apply foldl_inv (fun x => ∀ q ∈ x.edges, P q.2) (fun m p => m.mkCell p.1 p.2) cs (fun m a _ hm => by rw [mkCell_edges']; exact hm)
  apply foldl_inv (fun x => ∀ q ∈ x.edges, P q.2) (fun m p => m.mkEdge p.1 p.2.1 p.2.2) es
  · intro m a ha hm q hq
    rw [mkEdge_edges] at hq
    rcases List.mem_append.mp hq with hq | hq
    · exact hm q (List.mem_filter.mp hq).1
    · simp only [List.mem_singleton] at hq; subst hq; exact h a ha
  · apply foldl_inv (fun x => ∀ q ∈ x.edges, P q.2) (fun m p => m.mkVertex p.1 p.2.1 p.2.2) vs (fun m a _ hm => hm)
    intro q hq; simp [empty] at hq

theorem ofLists_noLoops (vs : List (Id × Rat × Rat)) (es : List (Id × Id × Id)) (cs : List (Id × List Id))
    (h : WFInput vs es cs) : (ofLists vs es cs).noLoops = true :=
  (noLoops_iff _).mpr (ofLists_edges_forall (fun e => e.v1 ≠ e.v2) vs es cs fun e he => (h.eends e he).1)

theorem invP_of_consP {m : Mesh} (h : ConsP m) : InvP m [] := by
  obtain ⟨k, e, c, r, n, _⟩ := h
  refine ⟨k, by rwa [restrict_nil], by rwa [restrict_nil], ?_, n⟩
  exact ⟨fun q hq => ⟨⟨(r.1 q hq).2.1, by simp⟩, ⟨(r.1 q hq).2.2, by simp⟩⟩,
    fun q hq v hv => ⟨(r.2 q hq).2 v hv, by simp⟩⟩

end Mesh
namespace Skel
open Mesh

theorem inv_of_consistent' (m : Mesh) (pin : Option Id) (b : Bool) (h : m.Consistent = true) :
    St.Inv { mesh := m, dead := [], pinned := pin, zombie := none, idReused := b } = true :=
  (inv_iff _).mpr ⟨invP_of_consP ((consistent_iff m).mp h), rfl⟩

theorem rawMesh_noLoops' (cs : List (List Px)) (h : GoodContours cs) : (rawMesh cs).noLoops = true :=
  ofLists_noLoops _ _ _ ((rawOf_inv cs).wf h)

end Skel
end Forsys

namespace Forsys
namespace Mesh

/-! ### `restrict` commutes with the vertex updates -/

theorem restrict_updVertex (m : Mesh) (d : List Id) (k : Id) (f : Vertex → Vertex) :
    (m.updVertex k f).restrict d = (m.restrict d).updVertex k f := by
  simp only [restrict, updVertex, List.filter_map, Mesh.mk.injEq, and_true]
  congr 1
  apply List.filter_congr
  rintro ⟨k', v⟩ _
  by_cases h : k' = k <;> simp [h]

theorem restrict_delEdge (m : Mesh) (d : List Id) (k : Id) : (m.delEdge k).restrict d = (m.restrict d).delEdge k := by
  cases he : m.edge? k with
  | none =>
    have he' : (m.restrict d).edge? k = none := he
    rw [delEdge_none _ _ he, delEdge_none _ _ he']
  | some e =>
    have he' : (m.restrict d).edge? k = some e := he
    simp only [delEdge, he, he']
    have h2 : ((m.updVertex e.v1 fun v => { v with ownEdges := v.ownEdges.erase k }).updVertex e.v2
        fun v => { v with ownEdges := v.ownEdges.erase k }).restrict d =
        ((m.restrict d).updVertex e.v1 fun v => { v with ownEdges := v.ownEdges.erase k }).updVertex e.v2
        fun v => { v with ownEdges := v.ownEdges.erase k } := by
      rw [restrict_updVertex, restrict_updVertex]
    rw [← h2]
    rfl

theorem restrict_foldl_updVertex (d : List Id) (g : Id → Vertex → Vertex) (l : List Id) (m : Mesh) :
    (l.foldl (fun m v => m.updVertex v (g v)) m).restrict d = l.foldl (fun m v => m.updVertex v (g v)) (m.restrict d) := by
  induction l generalizing m with
  | nil => rfl
  | cons a l ih => simp only [List.foldl_cons]; rw [ih, restrict_updVertex]

theorem restrict_delCell (m : Mesh) (d : List Id) (k : Id) : (m.delCell k).restrict d = (m.restrict d).delCell k := by
  cases he : m.cell? k with
  | none =>
    have he' : (m.restrict d).cell? k = none := he
    rw [delCell_none _ _ he, delCell_none _ _ he']
  | some c =>
    have he' : (m.restrict d).cell? k = some c := he
    simp only [delCell, he, he']
    rw [← restrict_foldl_updVertex d (fun _ vx => { vx with ownCells := vx.ownCells.erase k })]
    rfl

/-- the invariant without the "no dangling reference" clause -/
structure Inv0P (m : Mesh) (dE dC : List Id) : Prop where
  K : KeysP m
  E : OwnEdgesP (m.restrict dE)
  C : OwnCellsP (m.restrict dC)
  N : CellsNodupP m

theorem InvP.inv0 {m : Mesh} {d : List Id} (h : InvP m d) : Inv0P m d d := ⟨h.K, h.E, h.C, h.N⟩
theorem Inv0P.inv {m : Mesh} {d : List Id} (h : Inv0P m d d) (r : RefsLiveP m d) : InvP m d :=
  ⟨h.K, h.E, h.C, r, h.N⟩

/-! ### `del self.edges[k]` -/

theorem delEdge_inv0P {m : Mesh} {dE dC : List Id} (h : Inv0P m dE dC) (k : Id) : Inv0P (m.delEdge k) dE dC := by
  have hk := restrict_keysP dE h.K
  refine ⟨delEdge_keysP m k h.K, ?_, ?_, ?_⟩
  · rw [restrict_delEdge]; exact delEdge_ownEdgesP _ k hk.1 hk.2.1 h.E
  · rw [restrict_delEdge]
    refine OwnCellsP_of_sim (m.restrict dC) _ (delEdge_cells _ k) ?_ h.C
    intro p' hp'
    obtain ⟨p, hp, _, e2, e3, _⟩ := delEdge_sim _ k p' hp'
    exact ⟨p, hp, e2, e3⟩
  · intro q hq; rw [delEdge_cells] at hq; exact h.N q hq

theorem liveK_congr {m m' : Mesh} {d : List Id} (h : m'.vertices.map (·.1) = m.vertices.map (·.1)) (k : Id) :
    LiveK m' d k ↔ LiveK m d k := by
  simp only [LiveK, h]

theorem delEdge_refsLiveP {m : Mesh} {d : List Id} (h : RefsLiveP m d) (k : Id) : RefsLiveP (m.delEdge k) d := by
  have hk := liveK_congr (d := d) (delEdge_vkeys m k)
  refine ⟨?_, ?_⟩
  · intro q hq; rw [delEdge_edges] at hq
    rw [hk, hk]; exact h.1 q (List.mem_filter.mp hq).1
  · intro q hq v hv; rw [delEdge_cells] at hq
    rw [hk]; exact h.2 q hq v hv

theorem delEdge_invP {m : Mesh} {d : List Id} (h : InvP m d) (k : Id) : InvP (m.delEdge k) d :=
  (delEdge_inv0P h.inv0 k).inv (delEdge_refsLiveP h.R k)

/-- `del self.edges[k]` while another reference keeps the edge object alive: only the dict changes -/
def dropEdge (m : Mesh) (k : Id) : Mesh := { m with edges := m.edges.filter fun p => p.1 != k }

theorem dropEdge_keysP {m : Mesh} (h : KeysP m) (k : Id) : KeysP (m.dropEdge k) := by
  obtain ⟨k1, k2, k3, k4, k5, k6⟩ := h
  exact ⟨k1, fun q hq => k2 q (List.mem_filter.mp hq).1, k3, k4, k5.sublist (List.filter_sublist.map _), k6⟩

theorem dropEdge_refsLiveP {m : Mesh} {d : List Id} (h : RefsLiveP m d) (k : Id) : RefsLiveP (m.dropEdge k) d :=
  ⟨fun q hq => h.1 q (List.mem_filter.mp hq).1, h.2⟩

/-- `SmallEdge.__del__` of an edge object that is no longer in the dict -/
def unregister (m : Mesh) (e : SEdge) : Mesh :=
  (m.updVertex e.v1 fun v => { v with ownEdges := v.ownEdges.erase e.id }).updVertex e.v2
    fun v => { v with ownEdges := v.ownEdges.erase e.id }

theorem unregister_dropEdge {m : Mesh} (hK : KeysP m) {k : Id} {e : SEdge} (he : m.edge? k = some e) :
    (m.dropEdge k).unregister e = m.delEdge k := by
  have : k = e.id := hK.2.1 _ (alGet?_some_mem he)
  subst this
  simp only [delEdge, he, unregister, dropEdge]
  rfl

end Mesh

namespace Skel
open Mesh

/-- the invariant without the "no dangling reference" clause, on a state -/
def Inv0S (st : St) : Prop := Inv0P st.mesh st.dead st.dead ∧ st.zombie = none
def InvS (st : St) : Prop := InvP st.mesh st.dead ∧ st.zombie = none

theorem InvS.inv0 {st : St} (h : InvS st) : Inv0S st := ⟨h.1.inv0, h.2⟩

theorem St_delEdge_cases {st st' : St} {k : Id} (h : st.delEdge k = .ok st') :
    ∃ e, st.mesh.edge? k = some e ∧
      ((st.pinned = some k ∧ st' = { st with mesh := st.mesh.dropEdge k, zombie := some e }) ∨
       (st.pinned ≠ some k ∧ st' = { st with mesh := st.mesh.delEdge k })) := by
  unfold St.delEdge at h
  split at h
  · cases h
  · rename_i e he
    refine ⟨e, he, ?_⟩
    split at h
    · rename_i hp; cases h; exact Or.inl ⟨hp, rfl⟩
    · rename_i hp; cases h; exact Or.inr ⟨hp, rfl⟩

theorem St_delEdge_unpinned {st st' : St} {k : Id} (h : st.delEdge k = .ok st') (hp : st.pinned ≠ some k) :
    st' = { st with mesh := st.mesh.delEdge k } := by
  obtain ⟨e, _, h1 | h1⟩ := St_delEdge_cases h
  · exact absurd h1.1 hp
  · exact h1.2

theorem St_delEdge_inv0 {st st' : St} {k : Id} (h : st.delEdge k = .ok st') (hp : st.pinned ≠ some k)
    (hi : Inv0S st) : Inv0S st' ∧ st'.dead = st.dead ∧ st'.pinned = st.pinned := by
  rw [St_delEdge_unpinned h hp]
  exact ⟨⟨delEdge_inv0P hi.1 k, hi.2⟩, rfl, rfl⟩

theorem St_delEdge_refs {st st' : St} {k : Id} (h : st.delEdge k = .ok st')
    (hi : RefsLiveP st.mesh st.dead) : RefsLiveP st'.mesh st'.dead := by
  obtain ⟨e, _, h1 | h1⟩ := St_delEdge_cases h
  · rw [h1.2]; exact dropEdge_refsLiveP hi k
  · rw [h1.2]; exact delEdge_refsLiveP hi k

theorem St_delEdge_dead_pinned {st st' : St} {k : Id} (h : st.delEdge k = .ok st') :
    st'.dead = st.dead ∧ st'.pinned = st.pinned ∧ st'.idReused = st.idReused := by
  obtain ⟨e, _, h1 | h1⟩ := St_delEdge_cases h <;> rw [h1.2] <;> exact ⟨rfl, rfl, rfl⟩

theorem release_pinned (st : St) : st.release.pinned = none := by
  unfold St.release; split <;> rfl
theorem release_dead (st : St) : st.release.dead = st.dead := by
  unfold St.release; split <;> rfl
theorem release_idReused (st : St) : st.release.idReused = st.idReused := by
  unfold St.release; split <;> rfl
theorem release_zombie (st : St) : st.release.zombie = none := by
  unfold St.release; split <;> simp_all

theorem release_of_zombie_none {st : St} (h : st.zombie = none) : st.release = { st with pinned := none } := by
  simp [St.release, h]

theorem release_inv0 {st : St} (hi : Inv0S st) : Inv0S st.release ∧ st.release.dead = st.dead ∧
    st.release.pinned = none := by
  rw [release_of_zombie_none hi.2]; exact ⟨hi, rfl, rfl⟩

theorem release_mesh {st : St} (hi : st.zombie = none) : st.release.mesh = st.mesh := by
  rw [release_of_zombie_none hi]

/-- `__del__` of the zombie repairs what the pinned deletion left behind -/
theorem release_after_pinned {st st' : St} {k : Id} (h : st.delEdge k = .ok st') (hp : st.pinned = some k)
    (hK : KeysP st.mesh) :
    st'.release = { st with mesh := st.mesh.delEdge k, zombie := none, pinned := none } := by
  obtain ⟨e, he, h1 | h1⟩ := St_delEdge_cases h
  · rw [h1.2]
    simp only [St.release]
    rw [← unregister_dropEdge hK he]
    rfl
  · exact absurd hp h1.1

/-! ### `for e in v.ownEdges: del self.edges[e]` -/

theorem liveDel_inv0 {fuel : Nat} {st st' : St} {v : Id} {i : Nat} {rb : Bool}
    (h : liveDel fuel st v i rb = .ok st') (hp : rb = true ∨ st.pinned = none) (hi : Inv0S st) :
    Inv0S st' ∧ st'.dead = st.dead := by
  induction fuel generalizing st i rb with
  | zero => simp only [liveDel] at h; cases h; exact ⟨hi, rfl⟩
  | succ n ih =>
    simp only [liveDel] at h
    split at h
    · cases h; exact ⟨hi, rfl⟩
    · rename_i x hx
      split at h
      · cases h
      · rename_i st1 h1
        have key : Inv0S st1 ∧ st1.dead = st.dead ∧ st1.pinned = none := by
          cases rb with
          | true =>
            simp only [if_true] at h1
            obtain ⟨r1, r2, r3⟩ := release_inv0 hi
            obtain ⟨a, b, c⟩ := St_delEdge_inv0 h1 (by rw [r3]; simp) r1
            exact ⟨a, b.trans r2, c.trans r3⟩
          | false =>
            have hpn : st.pinned = none := by simpa using hp
            simp only [Bool.false_eq_true, if_false] at h1
            obtain ⟨a, b, c⟩ := St_delEdge_inv0 h1 (by rw [hpn]; simp) hi
            exact ⟨a, b, c.trans hpn⟩
        obtain ⟨a, b⟩ := ih h (Or.inr key.2.2) key.1
        exact ⟨a, b.trans key.2.1⟩

theorem liveDel_pinned {fuel : Nat} {st st' : St} {v : Id} {i : Nat} {rb : Bool}
    (h : liveDel fuel st v i rb = .ok st') :
    (st.pinned = none → st'.pinned = none) ∧
    (rb = true → fuel ≠ 0 → (st.mesh.ownEdges v)[i]? ≠ none → st'.pinned = none) ∧
    st'.idReused = st.idReused := by
  induction fuel generalizing st i rb with
  | zero => simp only [liveDel] at h; cases h; exact ⟨id, fun _ h => absurd rfl h, rfl⟩
  | succ n ih =>
    simp only [liveDel] at h
    split at h
    · rename_i hx; cases h; exact ⟨id, fun _ _ h => absurd hx h, rfl⟩
    · rename_i x hx
      split at h
      · cases h
      · rename_i st1 h1
        obtain ⟨_, d2, d3⟩ := St_delEdge_dead_pinned h1
        obtain ⟨i1, _, i3⟩ := ih h
        refine ⟨?_, ?_, ?_⟩
        · intro hpn
          apply i1; rw [d2]
          cases rb
          · exact hpn
          · exact release_pinned st
        · intro hrb _ _
          apply i1; rw [d2]; subst hrb
          exact release_pinned st
        · rw [i3, d3]
          cases rb
          · rfl
          · exact release_idReused st

theorem updVertex_vkeys (m : Mesh) (k : Id) (f : Vertex → Vertex) :
    (m.updVertex k f).vertices.map (·.1) = m.vertices.map (·.1) := by
  rw [updVertex_vertices, List.map_map]; rfl

theorem updVertex_refsLiveP {m : Mesh} {d : List Id} (h : RefsLiveP m d) (k : Id) (f : Vertex → Vertex) :
    RefsLiveP (m.updVertex k f) d := by
  have hk := liveK_congr (d := d) (updVertex_vkeys m k f)
  exact ⟨fun q hq => by rw [hk, hk]; exact h.1 q hq, fun q hq v hv => by rw [hk]; exact h.2 q hq v hv⟩

theorem release_refs {st : St} (hi : RefsLiveP st.mesh st.dead) : RefsLiveP st.release.mesh st.release.dead := by
  unfold St.release
  split
  · exact hi
  · exact updVertex_refsLiveP (updVertex_refsLiveP hi _ _) _ _

theorem liveDel_refs {fuel : Nat} {st st' : St} {v : Id} {i : Nat} {rb : Bool}
    (h : liveDel fuel st v i rb = .ok st') (hi : RefsLiveP st.mesh st.dead) :
    RefsLiveP st'.mesh st'.dead := by
  induction fuel generalizing st i rb with
  | zero => simp only [liveDel] at h; cases h; exact hi
  | succ n ih =>
    simp only [liveDel] at h
    split at h
    · cases h; exact hi
    · split at h
      · cases h
      · rename_i st1 h1
        apply ih h
        apply St_delEdge_refs h1
        cases rb
        · exact hi
        · exact release_refs hi

end Skel
end Forsys

namespace Forsys
namespace Mesh

/-! ### deleting a vertex key: fewer obligations -/

theorem restrict_vertices_mono {m : Mesh} {d d' : List Id} (hsub : ∀ k ∈ d, k ∈ d') {p : Id × Vertex}
    (hp : p ∈ (m.restrict d').vertices) : p ∈ (m.restrict d).vertices := by
  rw [mem_restrict] at hp ⊢
  exact ⟨hp.1, fun h => hp.2 (hsub _ h)⟩

theorem inv0P_mono {m : Mesh} {dE dC dE' dC' : List Id} (h : Inv0P m dE dC) (hE : ∀ k ∈ dE, k ∈ dE')
    (hC : ∀ k ∈ dC, k ∈ dC') : Inv0P m dE' dC' :=
  ⟨h.K, fun p hp => h.E p (restrict_vertices_mono hE hp), fun p hp => h.C p (restrict_vertices_mono hC hp),
    h.N⟩

theorem restrict_congr {m : Mesh} {d d' : List Id} (h : ∀ k, k ∈ d ↔ k ∈ d') : m.restrict d = m.restrict d' := by
  simp only [restrict, Mesh.mk.injEq, and_true]
  apply List.filter_congr
  intro p _
  by_cases hp : p.1 ∈ d
  · simp [hp, (h _).mp hp]
  · have : p.1 ∉ d' := fun hh => hp ((h _).mpr hh)
    simp [hp, this]

/-! ### `Cell.replace_vertex` -/

end Mesh
namespace Skel
open Mesh

/-- the new vertex cycle of `Cell.replace_vertex(vold, vnew)` -/
def newVerts (vold vnew : Id) (L : List Id) : List Id :=
  if L.contains vnew then L.erase vold else replaceFirst vold vnew L

theorem mem_replaceFirst {vold vnew : Id} {L : List Id} {x : Id} (h : x ∈ replaceFirst vold vnew L) :
    x ∈ L ∨ x = vnew := by
  induction L with
  | nil => simp [replaceFirst] at h
  | cons a l ih =>
    simp only [replaceFirst] at h
    split at h
    · rcases List.mem_cons.mp h with h | h
      · exact Or.inr h
      · exact Or.inl (List.mem_cons_of_mem _ h)
    · rcases List.mem_cons.mp h with h | h
      · exact Or.inl (h ▸ List.mem_cons_self ..)
      · rcases ih h with h | h
        · exact Or.inl (List.mem_cons_of_mem _ h)
        · exact Or.inr h

theorem mem_replaceFirst_of_ne {vold vnew : Id} {L : List Id} {x : Id} (h : x ∈ L) (hx : x ≠ vold) :
    x ∈ replaceFirst vold vnew L := by
  induction L with
  | nil => simp at h
  | cons a l ih =>
    simp only [replaceFirst]
    split
    · rename_i ha
      rcases List.mem_cons.mp h with h | h
      · exact absurd (h.trans ha) hx
      · exact List.mem_cons_of_mem _ h
    · rcases List.mem_cons.mp h with h | h
      · exact h ▸ List.mem_cons_self ..
      · exact List.mem_cons_of_mem _ (ih h)

theorem new_mem_replaceFirst {vold vnew : Id} {L : List Id} (h : vold ∈ L) : vnew ∈ replaceFirst vold vnew L := by
  induction L with
  | nil => simp at h
  | cons a l ih =>
    simp only [replaceFirst]
    split
    · exact List.mem_cons_self ..
    · rename_i ha
      rcases List.mem_cons.mp h with h | h
      · exact absurd h.symm ha
      · exact List.mem_cons_of_mem _ (ih h)

theorem old_not_mem_replaceFirst {vold vnew : Id} {L : List Id} (hn : L.Nodup) (hne : vold ≠ vnew) :
    vold ∉ replaceFirst vold vnew L := by
  induction L with
  | nil => simp [replaceFirst]
  | cons a l ih =>
    simp only [List.nodup_cons] at hn
    simp only [replaceFirst]
    split
    · rename_i ha
      subst ha
      simp only [List.mem_cons, not_or]
      exact ⟨hne, hn.1⟩
    · rename_i ha
      simp only [List.mem_cons, not_or]
      exact ⟨fun h => ha h.symm, ih hn.2⟩

theorem replaceFirst_nodup {vold vnew : Id} {L : List Id} (hn : L.Nodup) (hnew : vnew ∉ L) :
    (replaceFirst vold vnew L).Nodup := by
  induction L with
  | nil => simp [replaceFirst]
  | cons a l ih =>
    simp only [List.nodup_cons] at hn
    simp only [List.mem_cons, not_or] at hnew
    simp only [replaceFirst]
    split
    · exact List.nodup_cons.mpr ⟨hnew.2, hn.2⟩
    · refine List.nodup_cons.mpr ⟨?_, ih hn.2 hnew.2⟩
      intro h
      rcases mem_replaceFirst h with h | h
      · exact hn.1 h
      · exact hnew.1 h.symm

theorem newVerts_nodup {vold vnew : Id} {L : List Id} (hn : L.Nodup) : (newVerts vold vnew L).Nodup := by
  unfold newVerts
  split
  · exact hn.erase _
  · rename_i h
    exact replaceFirst_nodup hn (by simpa using h)

theorem old_not_mem_newVerts {vold vnew : Id} {L : List Id} (hn : L.Nodup) (hold : vold ∈ L) :
    vold ∉ newVerts vold vnew L := by
  unfold newVerts
  split
  · exact fun h => (List.Nodup.mem_erase_iff hn).mp h |>.1 rfl
  · rename_i h
    have hne : vold ≠ vnew := fun hh => h (by simpa [hh] using hold)
    exact old_not_mem_replaceFirst hn hne

theorem mem_newVerts {vold vnew : Id} {L : List Id} {x : Id} (h : x ∈ newVerts vold vnew L) : x ∈ L ∨ x = vnew := by
  unfold newVerts at h
  split at h
  · exact Or.inl (List.mem_of_mem_erase h)
  · exact mem_replaceFirst h

theorem mem_newVerts_of_ne {vold vnew : Id} {L : List Id} {x : Id} (h : x ∈ L) (hx : x ≠ vold) :
    x ∈ newVerts vold vnew L := by
  unfold newVerts
  split
  · exact (List.mem_erase_of_ne hx).mpr h
  · exact mem_replaceFirst_of_ne h hx

theorem new_mem_newVerts {vold vnew : Id} {L : List Id} (hold : vold ∈ L) (hne : vnew ≠ vold) :
    vnew ∈ newVerts vold vnew L := by
  unfold newVerts
  split
  · rename_i h
    exact (List.mem_erase_of_ne hne).mpr (by simpa using h)
  · exact new_mem_replaceFirst hold

/-- closed form of a successful `Cell.replace_vertex` -/
theorem cellReplace_spec {m m' : Mesh} {cid vold vnew : Id} (h : cellReplace m cid vold vnew = .ok m')
    (hK : (m.cells.map (·.1)).Nodup) :
    ∃ c, alGet? cid m.cells = some c ∧ vold ∈ c.verts ∧
      m'.cells = (m.cells.map fun p => (p.1, if p.1 = cid then { p.2 with verts := newVerts vold vnew p.2.verts } else p.2)) ∧
      m'.edges = m.edges ∧
      m'.vertices = m.vertices.map fun p => (p.1, if p.1 = vnew ∧ vnew ∉ c.verts then addCellTo p.2 cid else p.2) := by
  unfold cellReplace at h
  split at h
  · cases h
  · rename_i c hc
    have hc' : alGet? cid m.cells = some c := hc
    have hpc : ∀ p ∈ m.cells, p.1 = cid → p.2 = c := by
      intro p hp hh
      have := alGet?_of_mem hK (show (p.1, p.2) ∈ m.cells from hp)
      rw [hh, hc'] at this
      exact (Option.some.inj this).symm
    split at h
    · cases h
    · rename_i hold
      have hold' : vold ∈ c.verts := by simpa using hold
      refine ⟨c, hc', hold', ?_⟩
      split at h
      · rename_i hnew
        have hnew' : vnew ∈ c.verts := by simpa using hnew
        cases h
        refine ⟨?_, rfl, ?_⟩
        · rw [updCell_cells']
          apply List.map_congr_left
          intro p hp
          by_cases hh : p.1 = cid
          · simp only [hh, if_true, newVerts, hpc p hp hh, hnew]
          · simp [hh]
        · simp only [updCell_vertices, hnew', not_true, and_false, if_false]
          exact (List.map_id' _).symm
      · rename_i hnew
        have hnew' : vnew ∉ c.verts := by simpa using hnew
        cases h
        refine ⟨?_, rfl, ?_⟩
        · simp only [updVertex_cells]
          rw [updCell_cells']
          apply List.map_congr_left
          intro p hp
          by_cases hh : p.1 = cid
          · simp only [hh, if_true, newVerts, hpc p hp hh, hnew, Bool.false_eq_true, if_false]
          · simp [hh]
        · rw [updVertex_vertices]
          simp only [updCell_vertices, hnew', not_false_eq_true, and_true]

end Skel
end Forsys

namespace Forsys
namespace Skel
open Mesh

theorem cellReplace_inv0P {m m' : Mesh} {cid vold vnew : Id} {DE D : List Id}
    (h : cellReplace m cid vold vnew = .ok m') (hi : Inv0P m DE D) (hD : vold ∈ D) : Inv0P m' DE D := by
  obtain ⟨c, hc, hold, hcells, hedges, hverts⟩ := cellReplace_spec h hi.K.2.2.2.2.2
  have hcm : (cid, c) ∈ m.cells := alGet?_some_mem hc
  have hcn : c.verts.Nodup := hi.N _ hcm
  have hcid : cid = c.id := hi.K.2.2.1 _ hcm
  have hpc : ∀ p ∈ m.cells, p.1 = cid → p.2 = c := by
    intro p hp hh
    have := alGet?_of_mem hi.K.2.2.2.2.2 (show (p.1, p.2) ∈ m.cells from hp)
    rw [hh, hc] at this
    exact (Option.some.inj this).symm
  have hget : ∀ k, alGet? k m'.cells = (alGet? k m.cells).map
      (fun cl => if k = cid then { cl with verts := newVerts vold vnew cl.verts } else cl) := by
    intro k; rw [hcells]
    exact alGet?_map_snd k m.cells (fun k cl => if k = cid then { cl with verts := newVerts vold vnew cl.verts } else cl)
  refine ⟨?_, ?_, ?_, ?_⟩
  · -- keys
    obtain ⟨k1, k2, k3, k4, k5, k6⟩ := hi.K
    refine ⟨?_, by rw [hedges]; exact k2, ?_, ?_, by rw [hedges]; exact k5, ?_⟩
    · intro p' hp'
      rw [hverts] at hp'
      obtain ⟨p, hp, rfl⟩ := List.mem_map.mp hp'
      simp only
      split
      · rw [addCellTo_id]; exact k1 p hp
      · exact k1 p hp
    · intro q' hq'
      rw [hcells] at hq'
      obtain ⟨q, hq, rfl⟩ := List.mem_map.mp hq'
      simp only
      split
      · exact k3 q hq
      · exact k3 q hq
    · rw [hverts, List.map_map]; exact k4
    · rw [hcells, List.map_map]; exact k6
  · -- own edges: untouched
    refine OwnEdgesP_of_sim (m.restrict DE) _ hedges ?_ hi.E
    intro p' hp'
    obtain ⟨hp', hpD⟩ := mem_restrict.mp hp'
    rw [hverts] at hp'
    obtain ⟨p, hp, rfl⟩ := List.mem_map.mp hp'
    refine ⟨p, mem_restrict.mpr ⟨hp, hpD⟩, ?_⟩
    simp only
    split
    · exact ⟨addCellTo_id _ _, addCellTo_ownEdges _ _⟩
    · exact ⟨rfl, rfl⟩
  · -- own cells
    intro p' hp'
    obtain ⟨hp', hpD⟩ := mem_restrict.mp hp'
    rw [hverts] at hp'
    obtain ⟨p, hp, rfl⟩ := List.mem_map.mp hp'
    have hpid : p.1 = p.2.id := hi.K.1 p hp
    have hpne : p.2.id ≠ vold := fun hh => hpD (by rw [show p.1 = vold from hpid.trans hh]; exact hD)
    obtain ⟨c1, c2, c3⟩ := hi.C p (mem_restrict.mpr ⟨hp, hpD⟩)
    -- facts shared by both branches
    have old1 : ∀ x ∈ p.2.ownCells, ∃ cl, alGet? x m'.cells = some cl ∧ p.2.id ∈ cl.verts := by
      intro x hx
      obtain ⟨cl, hcl, hmem⟩ := c1 x hx
      rw [restrict_cells] at hcl
      rw [hget, hcl]
      by_cases hxc : x = cid
      · exact ⟨_, rfl, by simp only [hxc, if_true]; exact mem_newVerts_of_ne hmem hpne⟩
      · exact ⟨_, rfl, by simp only [hxc, if_false]; exact hmem⟩
    simp only [restrict_cells]
    by_cases hbr : p.1 = vnew ∧ vnew ∉ c.verts
    · rw [if_pos hbr]
      have hnotin : cid ∉ p.2.ownCells := by
        intro hin
        obtain ⟨cl, hcl, hmem⟩ := c1 cid hin
        rw [restrict_cells, hc] at hcl
        cases hcl
        exact hbr.2 (by rw [← hbr.1, hpid]; exact hmem)
      rw [addCellTo_id, addCellTo_ownCells_of_not_mem _ _ hnotin]
      refine ⟨?_, ?_, ?_⟩
      · intro x hx
        rcases List.mem_append.mp hx with hx | hx
        · exact old1 x hx
        · simp only [List.mem_singleton] at hx
          subst hx
          rw [hget, hc]
          refine ⟨_, rfl, ?_⟩
          simp only [if_true]
          rw [← hpid, hbr.1]
          exact new_mem_newVerts hold (by rw [← hbr.1, hpid]; exact hpne)
      · intro q' hq' hmem
        rw [hcells] at hq'
        obtain ⟨q, hq, rfl⟩ := List.mem_map.mp hq'
        simp only at hmem ⊢
        by_cases hqc : q.1 = cid
        · rw [if_pos hqc] at hmem ⊢
          simp only [List.mem_append, List.mem_singleton]
          exact Or.inr ((hi.K.2.2.1 q hq).symm.trans hqc)
        · rw [if_neg hqc] at hmem ⊢
          exact List.mem_append_left _ (c2 q hq hmem)
      · rw [List.nodup_append]
        refine ⟨c3, by simp, ?_⟩
        intro a ha b hb
        simp only [List.mem_singleton] at hb
        subst hb
        exact fun hh => hnotin (hh ▸ ha)
    · rw [if_neg hbr]
      refine ⟨old1, ?_, c3⟩
      intro q' hq' hmem
      rw [hcells] at hq'
      obtain ⟨q, hq, rfl⟩ := List.mem_map.mp hq'
      simp only at hmem ⊢
      by_cases hqc : q.1 = cid
      · rw [if_pos hqc] at hmem ⊢
        simp only at hmem ⊢
        have hqe := hpc q hq hqc
        rcases mem_newVerts hmem with hm | hm
        · exact c2 q hq hm
        · -- p is vnew and vnew was in the cell already
          have h1 : p.1 = vnew := hpid.trans hm
          have h2 : vnew ∈ c.verts := by
            by_contra hcon; exact hbr ⟨h1, hcon⟩
          exact c2 q hq (by rw [hqe, hm]; exact h2)
      · rw [if_neg hqc] at hmem ⊢
        exact c2 q hq hmem
  · -- cells nodup
    intro q' hq'
    rw [hcells] at hq'
    obtain ⟨q, hq, rfl⟩ := List.mem_map.mp hq'
    simp only
    split
    · exact newVerts_nodup (hi.N q hq)
    · exact hi.N q hq

theorem cellReplace_vkeys {m m' : Mesh} {cid vold vnew : Id} (h : cellReplace m cid vold vnew = .ok m')
    (hK : (m.cells.map (·.1)).Nodup) : m'.vertices.map (·.1) = m.vertices.map (·.1) ∧ m'.edges = m.edges := by
  obtain ⟨c, _, _, _, hedges, hverts⟩ := cellReplace_spec h hK
  exact ⟨by rw [hverts, List.map_map]; rfl, hedges⟩

/-- what a successful `replace_vertex` does to the cells: the cell `cid` loses `vold` and gains at most `vnew`,
    the others are untouched -/
theorem cellReplace_cells {m m' : Mesh} {cid vold vnew : Id} (h : cellReplace m cid vold vnew = .ok m')
    (hK : (m.cells.map (·.1)).Nodup) (hN : CellsNodupP m) :
    ∀ q' ∈ m'.cells, (q'.1 ≠ cid ∧ q' ∈ m.cells) ∨
      (q'.1 = cid ∧ vold ∉ q'.2.verts ∧ ∃ q ∈ m.cells, q.1 = cid ∧ ∀ x ∈ q'.2.verts, x ∈ q.2.verts ∨ x = vnew) := by
  obtain ⟨c, hc, hold, hcells, _, _⟩ := cellReplace_spec h hK
  have hcm : (cid, c) ∈ m.cells := alGet?_some_mem hc
  intro q' hq'
  rw [hcells] at hq'
  obtain ⟨q, hq, rfl⟩ := List.mem_map.mp hq'
  by_cases hqc : q.1 = cid
  · right
    have hqe : q.2 = c := by
      have := alGet?_of_mem hK (show (q.1, q.2) ∈ m.cells from hq)
      rw [hqc, hc] at this
      exact (Option.some.inj this).symm
    simp only [hqc, if_true, true_and]
    refine ⟨old_not_mem_newVerts (hN q hq) (hqe ▸ hold), q, hq, hqc, fun x hx => mem_newVerts hx⟩
  · left
    simp only [hqc, if_false]
    exact ⟨hqc, hq⟩

theorem cellReplace_refs {m m' : Mesh} {cid vold vnew : Id} {D : List Id}
    (h : cellReplace m cid vold vnew = .ok m') (hK : (m.cells.map (·.1)).Nodup) (hN : CellsNodupP m)
    (hr : RefsLiveP m D) (hnew : LiveK m D vnew) : RefsLiveP m' D := by
  obtain ⟨hk, he⟩ := cellReplace_vkeys h hK
  have hl := liveK_congr (d := D) hk
  refine ⟨fun q hq => by rw [hl, hl]; rw [he] at hq; exact hr.1 q hq, ?_⟩
  intro q' hq' v hv
  rw [hl]
  rcases cellReplace_cells h hK hN q' hq' with ⟨_, hq⟩ | ⟨_, _, q, hq, _, hsub⟩
  · exact hr.2 q' hq v hv
  · rcases hsub v hv with hx | hx
    · exact hr.2 q hq v hx
    · exact hx ▸ hnew

/-- `for cell_id in its_cells: self.cells[cell_id].replace_vertex(vold, vnew)` -/
theorem foldE_cellReplace {vold vnew : Id} {DE D : List Id} {cs : List Id} {m m' : Mesh}
    (h : foldE (fun m c => cellReplace m c vold vnew) m cs = .ok m') (hi : Inv0P m DE D) (hD : vold ∈ D) :
    Inv0P m' DE D ∧ m'.vertices.map (·.1) = m.vertices.map (·.1) ∧ m'.edges = m.edges ∧
    (∀ D', RefsLiveP m D' → (cs ≠ [] → LiveK m D' vnew) → RefsLiveP m' D') ∧
    (∀ q' ∈ m'.cells, vold ∈ q'.2.verts → q' ∈ m.cells ∧ q'.1 ∉ cs) ∧
    (∀ v, m'.ownEdges v = m.ownEdges v) := by
  induction cs generalizing m with
  | nil =>
    simp only [foldE] at h; cases h
    exact ⟨hi, rfl, rfl, fun _ hr _ => hr, fun q hq _ => ⟨hq, by simp⟩, fun _ => rfl⟩
  | cons c cs ih =>
    simp only [foldE] at h
    split at h
    · cases h
    · rename_i m1 h1
      have hK := hi.K.2.2.2.2.2
      have i1 := cellReplace_inv0P h1 hi hD
      obtain ⟨k1, e1⟩ := cellReplace_vkeys h1 hK
      obtain ⟨j1, j2, j3, j4, j5, j6⟩ := ih h i1
      refine ⟨j1, j2.trans k1, j3.trans e1, ?_, ?_, ?_⟩
      · intro D' hr hl
        have hl' := hl (by simp)
        exact j4 D' (cellReplace_refs h1 hK hi.N hr hl') (fun _ => (liveK_congr k1 _).mpr hl')
      · intro q' hq' hv
        obtain ⟨a1, a2⟩ := j5 q' hq' hv
        rcases cellReplace_cells h1 hK hi.N q' a1 with ⟨b1, b2⟩ | ⟨_, b2, _⟩
        · exact ⟨b2, by simp only [List.mem_cons, not_or]; exact ⟨b1, a2⟩⟩
        · exact absurd hv b2
      · intro v
        rw [j6]
        obtain ⟨c0, _, _, _, _, hverts⟩ := cellReplace_spec h1 hK
        simp only [Mesh.ownEdges, Mesh.vertex?, hverts]
        rw [alGet?_map_snd v m.vertices (fun k p => if k = vnew ∧ vnew ∉ c0.verts then addCellTo p c else p)]
        cases alGet? v m.vertices with
        | none => rfl
        | some x =>
          simp only [Option.map_some]
          split
          · simp [addCellTo_ownEdges]
          · rfl

end Skel
end Forsys

namespace Forsys
namespace Skel
open Mesh

theorem getV_ok {st : St} {k : Id} {v : Vertex} (h : st.getV k = .ok v) :
    k ∉ st.dead ∧ alGet? k st.mesh.vertices = some v := by
  unfold St.getV at h
  split at h
  · cases h
  · rename_i hd
    split at h
    · rename_i v' hv; cases h; exact ⟨by simpa using hd, hv⟩
    · cases h

theorem getV_live {st : St} {k : Id} {v : Vertex} (h : st.getV k = .ok v) :
    (k, v) ∈ (st.mesh.restrict st.dead).vertices ∧ LiveK st.mesh st.dead k := by
  obtain ⟨h1, h2⟩ := getV_ok h
  have := alGet?_some_mem h2
  exact ⟨mem_restrict.mpr ⟨this, h1⟩, ⟨List.mem_map.mpr ⟨_, this, rfl⟩, h1⟩⟩

/-- the shape of a successful step of the inner-triangle loop -/
theorem triStep_cases {bigs : List (List Id)} {sv sv' : St × List (Id × Id)} {k : Id × Id}
    (h : triStep bigs sv k = .ok sv') :
    sv' = sv ∨ ∃ vdel vx tid m1 st2, sv.1.getV vdel = .ok vx ∧
      foldE (fun m c => cellReplace m c vdel tid) sv.1.mesh vx.ownCells = .ok m1 ∧
      (vx.ownCells ≠ [] → ∃ kk t, sv.1.getV kk = .ok t ∧ tid = t.id) ∧
      foldE (fun st x => st.delEdge x) { sv.1 with mesh := m1 } (m1.ownEdges vdel) = .ok st2 ∧
      sv' = ({ st2 with dead := st2.dead ++ [vdel] }, sv.2 ++ [k]) := by
  unfold triStep at h
  simp only at h
  split at h
  · cases h; exact Or.inl rfl
  split at h
  · split at h
    · cases h; exact Or.inl rfl
    rename_i vdel _
    split at h
    · cases h; exact Or.inl rfl
    split at h
    · cases h
    rename_i _ vx hvx
    split at h
    · cases h
    rename_i m1 hc
    split at h
    · cases h
    rename_i st2 hl
    cases h
    right
    split at hc
    · rename_i hnil
      cases hc
      exact ⟨vdel, vx, 0, _, st2, hvx, by rw [hnil]; rfl, fun hh => absurd hnil hh, hl, rfl⟩
    · cases hc
    · rename_i t ht _
      exact ⟨vdel, vx, t.id, _, st2, hvx, hc, fun _ => ⟨_, t, ht, rfl⟩, hl, rfl⟩
  · cases h

theorem St_delEdge_zombie {st st' : St} {k : Id} (h : st.delEdge k = .ok st') (hz : st.zombie ≠ none) :
    st'.zombie ≠ none := by
  obtain ⟨e, _, h1 | h1⟩ := St_delEdge_cases h <;> rw [h1.2]
  · simp
  · exact hz

theorem foldE_delEdge_zombie {l : List Id} {st st' : St} (h : foldE (fun st x => st.delEdge x) st l = .ok st')
    (hz : st.zombie ≠ none) : st'.zombie ≠ none :=
  foldE_inv (fun x : St => x.zombie ≠ none) (fun _ _ _ hb hP => St_delEdge_zombie hb hP) h hz

/-- `for edge_id in its_edges: del self.edges[edge_id]` when no deletion hits the pinned edge -/
theorem foldE_delEdge {l : List Id} {st st' : St} (h : foldE (fun st x => st.delEdge x) st l = .ok st')
    (hz : st'.zombie = none) :
    (∀ DE DC, Inv0P st.mesh DE DC → Inv0P st'.mesh DE DC) ∧ (∀ D, RefsLiveP st.mesh D → RefsLiveP st'.mesh D) ∧
    st'.dead = st.dead ∧ st'.pinned = st.pinned ∧ st'.idReused = st.idReused ∧ st'.mesh.cells = st.mesh.cells ∧
    st'.mesh.vertices.map (·.1) = st.mesh.vertices.map (·.1) ∧
    (∀ q ∈ st'.mesh.edges, q ∈ st.mesh.edges ∧ q.1 ∉ l) ∧
    st'.mesh.edges = st.mesh.edges.filter (fun p => !l.contains p.1) := by
  induction l generalizing st with
  | nil =>
    simp only [foldE] at h; cases h
    exact ⟨fun _ _ => id, fun _ => id, rfl, rfl, rfl, rfl, rfl, fun q hq => ⟨hq, by simp⟩, by simp⟩
  | cons a l ih =>
    simp only [foldE] at h
    split at h
    · cases h
    · rename_i st1 h1
      obtain ⟨j1, j2, j3, j4, j5, j6, j7, j8, j9⟩ := ih h
      obtain ⟨e, he, c | c⟩ := St_delEdge_cases h1
      · exfalso
        exact foldE_delEdge_zombie h (by rw [c.2]; simp) hz
      · have hst1 := c.2
        refine ⟨?_, ?_, ?_, ?_, ?_, ?_, ?_, ?_, ?_⟩
        · intro DE DC hi; apply j1; rw [hst1]; exact delEdge_inv0P hi a
        · intro D hr; apply j2; rw [hst1]; exact delEdge_refsLiveP hr a
        · rw [j3, hst1]
        · rw [j4, hst1]
        · rw [j5, hst1]
        · rw [j6, hst1]; exact delEdge_cells _ _
        · rw [j7, hst1]; exact delEdge_vkeys _ _
        · intro q hq
          obtain ⟨b1, b2⟩ := j8 q hq
          rw [hst1] at b1
          simp only at b1
          rw [delEdge_edges] at b1
          obtain ⟨b3, b4⟩ := List.mem_filter.mp b1
          exact ⟨b3, by simp only [List.mem_cons, not_or]; exact ⟨by simpa using b4, b2⟩⟩
        · rw [j9, hst1]
          simp only
          rw [delEdge_edges, List.filter_filter]
          apply List.filter_congr
          intro p _
          simp only [List.contains_cons, Bool.not_or, bne, Bool.and_comm]

/-- a successful step of the inner-triangle loop that does not delete the pinned mesh edge keeps the invariant -/
theorem triStep_inv {bigs : List (List Id)} {sv sv' : St × List (Id × Id)} {k : Id × Id}
    (h : triStep bigs sv k = .ok sv') (hz : sv'.1.zombie = none) (hi : InvS sv.1) : InvS sv'.1 := by
  rcases triStep_cases h with rfl | ⟨vdel, vx, tid, m1, st2, hvx, hc, htid, hl, rfl⟩
  · exact hi
  obtain ⟨hI, hZ⟩ := hi
  obtain ⟨hvmem, hvlive⟩ := getV_live hvx
  set st := sv.1 with hst
  have hsub : ∀ k ∈ st.dead, k ∈ st.dead ++ [vdel] := fun k hk => List.mem_append_left _ hk
  have hvD : vdel ∈ st.dead ++ [vdel] := by simp
  -- the cells
  obtain ⟨c1, c2, c3, c4, c5, c6⟩ := foldE_cellReplace hc (inv0P_mono hI.inv0 hsub hsub) hvD
  have hvid : vdel = vx.id := hI.K.1 _ (mem_restrict.mp hvmem).1
  have hnoCell : ∀ q ∈ m1.cells, vdel ∉ q.2.verts := by
    intro q hq hv
    obtain ⟨a1, a2⟩ := c5 q hq hv
    apply a2
    rw [hI.K.2.2.1 q a1]
    exact (hI.C _ hvmem).2.1 q a1 (by rw [← hvid]; exact hv)
  have hR1 : RefsLiveP m1 st.dead := by
    apply c4 st.dead hI.R
    intro hne
    obtain ⟨kk, t, ht, rfl⟩ := htid hne
    obtain ⟨tm, tl⟩ := getV_live ht
    rw [← hI.K.1 _ (mem_restrict.mp tm).1]
    exact tl
  -- the edges
  obtain ⟨d1, d2, d3, d4, d5, d6, d7, d8, _⟩ := foldE_delEdge hl hz
  have hI2 : Inv0P st2.mesh (st.dead ++ [vdel]) (st.dead ++ [vdel]) := d1 _ _ c1
  have hR2 : RefsLiveP st2.mesh st.dead := d2 _ hR1
  refine ⟨?_, hz⟩
  simp only
  rw [d3]
  refine Inv0P.inv hI2 ?_
  · have hk2 : st2.mesh.vertices.map (·.1) = st.mesh.vertices.map (·.1) := d7.trans c2
    have hlive : ∀ x, LiveK st2.mesh st.dead x → x ≠ vdel → LiveK st2.mesh (st.dead ++ [vdel]) x := by
      intro x hx hne
      exact ⟨hx.1, by simp only [List.mem_append, List.mem_singleton, not_or]; exact ⟨hx.2, hne⟩⟩
    refine ⟨?_, ?_⟩
    · intro q hq
      obtain ⟨q1, q2⟩ := d8 q hq
      simp only at q1
      rw [c3] at q1
      have hne : q.2.v1 ≠ vdel ∧ q.2.v2 ≠ vdel := by
        by_contra hcon
        apply q2
        rw [c6, hI.K.2.1 q q1]
        have : q.2.v1 = vx.id ∨ q.2.v2 = vx.id := by
          rw [← hvid]
          by_contra hh
          simp only [not_or] at hh
          exact hcon hh
        have := (hI.E _ hvmem).2.1 q q1 this
        simp only [Mesh.ownEdges, Mesh.vertex?, (getV_ok hvx).2]
        exact this
      exact ⟨hlive _ (hR2.1 q hq).1 hne.1, hlive _ (hR2.1 q hq).2 hne.2⟩
    · intro q hq v hv
      refine hlive _ (hR2.2 q hq v hv) ?_
      rintro rfl
      rw [d6] at hq
      exact hnoCell q hq hv

theorem triStep_zombie {bigs : List (List Id)} {sv sv' : St × List (Id × Id)} {k : Id × Id}
    (h : triStep bigs sv k = .ok sv') (hz : sv.1.zombie ≠ none) : sv'.1.zombie ≠ none := by
  rcases triStep_cases h with rfl | ⟨vdel, vx, tid, m1, st2, _, _, _, hl, rfl⟩
  · exact hz
  · have : st2.zombie ≠ none := foldE_delEdge_zombie hl hz
    exact this

theorem foldE_triStep_inv {bigs : List (List Id)} {l : List (Id × Id)} {sv sv' : St × List (Id × Id)}
    (h : foldE (triStep bigs) sv l = .ok sv') (hz : sv'.1.zombie = none) (hi : InvS sv.1) : InvS sv'.1 := by
  induction l generalizing sv with
  | nil => simp only [foldE] at h; cases h; exact hi
  | cons a l ih =>
    simp only [foldE] at h
    split at h
    · cases h
    · rename_i sv1 h1
      have hz1 : sv1.1.zombie = none := by
        by_contra hcon
        exact foldE_inv (fun x : St × List (Id × Id) => x.1.zombie ≠ none)
          (fun _ _ _ hb hP => triStep_zombie hb hP) h hcon hz
      exact ih h (triStep_inv h1 hz1 hi)

theorem triangles_inv {st st' : St} {bigs : List (List Id)} (h : triangles st bigs = .ok st')
    (hz : st'.zombie = none) (hi : InvS st) : InvS st' := by
  unfold triangles at h
  split at h
  · cases h
  · rename_i sv hf
    cases h
    exact foldE_triStep_inv hf hz hi

end Skel
end Forsys

namespace Forsys
namespace Mesh

/-! ### `del self.cells[k]` -/

theorem delCell_inv0P {m : Mesh} {dE dC : List Id} (h : Inv0P m dE dC) (k : Id) : Inv0P (m.delCell k) dE dC := by
  cases hc : m.cell? k with
  | none => rw [delCell_none _ _ hc]; exact h
  | some c =>
    have hcm : (k, c) ∈ m.cells := alGet?_some_mem hc
    have hnd : c.verts.Nodup := h.N _ hcm
    have hkC := restrict_keysP dC h.K
    refine ⟨delCell_keysP m k h.K h.N, ?_, ?_, ?_⟩
    · refine OwnEdgesP_of_sim (m.restrict dE) _ (delCell_edges m k c hc hnd) ?_ h.E
      intro p' hp'
      obtain ⟨hp', hpD⟩ := mem_restrict.mp hp'
      rw [delCell_vertices m k c hc hnd] at hp'
      obtain ⟨p, hp, rfl⟩ := List.mem_map.mp hp'
      refine ⟨p, mem_restrict.mpr ⟨hp, hpD⟩, ?_⟩
      simp only
      split <;> exact ⟨rfl, rfl⟩
    · rw [restrict_delCell]
      exact delCell_ownCellsP _ k hkC.1 hkC.2.2.1 h.C h.N
    · intro q hq
      rw [delCell_cells m k c hc hnd] at hq
      exact h.N q (List.mem_filter.mp hq).1

theorem delCell_refsLiveP {m : Mesh} {d : List Id} (hN : CellsNodupP m) (h : RefsLiveP m d) (k : Id) :
    RefsLiveP (m.delCell k) d := by
  cases hc : m.cell? k with
  | none => rw [delCell_none _ _ hc]; exact h
  | some c =>
    have hcm : (k, c) ∈ m.cells := alGet?_some_mem hc
    have hnd : c.verts.Nodup := hN _ hcm
    have hk : (m.delCell k).vertices.map (·.1) = m.vertices.map (·.1) := by
      rw [delCell_vertices m k c hc hnd, List.map_map]; rfl
    have hl := liveK_congr (d := d) hk
    refine ⟨?_, ?_⟩
    · intro q hq; rw [delCell_edges m k c hc hnd] at hq; rw [hl, hl]; exact h.1 q hq
    · intro q hq v hv; rw [delCell_cells m k c hc hnd] at hq; rw [hl]
      exact h.2 q (List.mem_filter.mp hq).1 v hv

theorem foldl_delCell_inv0P {m : Mesh} {dE dC : List Id} (iso : List Id) (h : Inv0P m dE dC) :
    Inv0P (iso.foldl (fun m c => m.delCell c) m) dE dC :=
  foldl_inv (fun x => Inv0P x dE dC) (fun m c => m.delCell c) iso (fun _ a _ hm => delCell_inv0P hm a) m h

end Mesh
namespace Skel
open Mesh

/-! ### the isolated-cell loop -/

/-- the loop over the vertices of an isolated cell -/
def isoInner (st : St) (first : Bool) (verts : List Id) : Except Err (St × Bool) :=
  foldE (fun (a : St × Bool) v =>
        let n := (a.1.mesh.ownEdges v).length
        match liveDel (n + 1) a.1 v 0 a.2 with
        | .error e => .error e
        | .ok st' =>
          let st'' := if st'.dead.contains v then st' else { st' with dead := st'.dead ++ [v] }
          .ok (st'', a.2 && n == 0)) (st, first) verts

theorem isolatedStep_cases {acc acc' : St × Bool × List Id} {c : Id × Cell} (h : isolatedStep acc c = .ok acc') :
    acc' = acc ∨ ∃ a, isoInner acc.1 acc.2.1 c.2.verts = .ok a ∧ acc' = (a.1, a.2, acc.2.2 ++ [c.1]) := by
  unfold isolatedStep at h
  simp only at h
  split at h
  · split at h
    · cases h
    · rename_i a ha
      cases h
      exact Or.inr ⟨a, ha, rfl⟩
  · cases h; exact Or.inl rfl

/-- what the loop keeps: the invariant without the reference clause; the pinned mesh edge is released before the
    first deletion -/
def IsoInv (st : St) (first : Bool) : Prop := Inv0S st ∧ (first = true ∨ st.pinned = none)

theorem isoInner_inv {verts : List Id} {st : St} {first : Bool} {a : St × Bool}
    (h : isoInner st first verts = .ok a) (hi : IsoInv st first) :
    IsoInv a.1 a.2 ∧ a.1.idReused = st.idReused ∧ (∀ k ∈ st.dead, k ∈ a.1.dead) := by
  unfold isoInner at h
  have key := foldE_inv (fun x : St × Bool => IsoInv x.1 x.2 ∧ x.1.idReused = st.idReused ∧ (∀ k ∈ st.dead, k ∈ x.1.dead))
    (f := fun (a : St × Bool) v =>
        let n := (a.1.mesh.ownEdges v).length
        match liveDel (n + 1) a.1 v 0 a.2 with
        | .error e => .error e
        | .ok st' =>
          let st'' := if st'.dead.contains v then st' else { st' with dead := st'.dead ++ [v] }
          .ok (st'', a.2 && n == 0)) ?_ h ⟨hi, rfl, fun _ hk => hk⟩
  · exact key
  · intro b v b' hb ⟨⟨hI, hP⟩, hid, hdead⟩
    simp only at hb
    split at hb
    · cases hb
    · rename_i st' hl
      cases hb
      obtain ⟨i1, i2⟩ := liveDel_inv0 hl hP hI
      obtain ⟨p1, p2, p3⟩ := liveDel_pinned hl
      have hsub : ∀ k ∈ st'.dead, k ∈ (if st'.dead.contains v then st' else { st' with dead := st'.dead ++ [v] }).dead := by
        intro k hk; split
        · exact hk
        · exact List.mem_append_left _ hk
      refine ⟨⟨⟨?_, ?_⟩, ?_⟩, ?_, ?_⟩
      · have : (if st'.dead.contains v then st' else { st' with dead := st'.dead ++ [v] }).mesh = st'.mesh := by
          split <;> rfl
        rw [this]
        exact inv0P_mono i1.1 hsub hsub
      · have : (if st'.dead.contains v then st' else { st' with dead := st'.dead ++ [v] }).zombie = st'.zombie := by
          split <;> rfl
        rw [this]; exact i1.2
      · have hpin : (if st'.dead.contains v then st' else { st' with dead := st'.dead ++ [v] }).pinned = st'.pinned := by
          split <;> rfl
        simp only [hpin]
        rcases hP with hP | hP
        · by_cases hn : (b.1.mesh.ownEdges v).length = 0
          · left; simp [hP, hn]
          · right
            apply p2 hP (by omega)
            intro hnone
            apply hn
            cases hl' : b.1.mesh.ownEdges v with
            | nil => rfl
            | cons x xs => rw [hl'] at hnone; simp at hnone
        · right; exact p1 hP
      · have : (if st'.dead.contains v then st' else { st' with dead := st'.dead ++ [v] }).idReused = st'.idReused := by
          split <;> rfl
        rw [this, p3, hid]
      · intro k hk
        exact hsub k (i2 ▸ hdead k hk)

theorem isolatedStep_inv {acc acc' : St × Bool × List Id} {c : Id × Cell} (h : isolatedStep acc c = .ok acc')
    (hi : IsoInv acc.1 acc.2.1) :
    IsoInv acc'.1 acc'.2.1 ∧ acc'.1.idReused = acc.1.idReused ∧ (∀ k ∈ acc.1.dead, k ∈ acc'.1.dead) := by
  rcases isolatedStep_cases h with rfl | ⟨a, ha, rfl⟩
  · exact ⟨hi, rfl, fun _ hk => hk⟩
  · exact isoInner_inv ha hi

theorem isolatedStep_len {acc acc' : St × Bool × List Id} {c : Id × Cell} (h : isolatedStep acc c = .ok acc') :
    acc.2.2.length ≤ acc'.2.2.length ∧ (acc'.2.2.length = acc.2.2.length → acc' = acc) := by
  rcases isolatedStep_cases h with rfl | ⟨a, ha, rfl⟩
  · exact ⟨le_refl _, fun _ => rfl⟩
  · simp

theorem foldE_isolatedStep_inv {l : List (Id × Cell)} {acc acc' : St × Bool × List Id}
    (h : foldE isolatedStep acc l = .ok acc') (hi : IsoInv acc.1 acc.2.1) :
    IsoInv acc'.1 acc'.2.1 ∧ acc'.1.idReused = acc.1.idReused :=
  foldE_inv (fun x : St × Bool × List Id => IsoInv x.1 x.2.1 ∧ x.1.idReused = acc.1.idReused)
    (fun _ _ _ hb hP => ⟨(isolatedStep_inv hb hP.1).1, (isolatedStep_inv hb hP.1).2.1.trans hP.2⟩) h ⟨hi, rfl⟩

/-- no cell removed: the loop did nothing -/
theorem foldE_isolatedStep_nil {l : List (Id × Cell)} {acc acc' : St × Bool × List Id}
    (h : foldE isolatedStep acc l = .ok acc') (hn : acc'.2.2.length = acc.2.2.length) : acc' = acc := by
  induction l generalizing acc with
  | nil => simp only [foldE] at h; cases h; rfl
  | cons a l ih =>
    simp only [foldE] at h
    split at h
    · cases h
    · rename_i acc1 h1
      obtain ⟨l1, l2⟩ := isolatedStep_len h1
      have l3 : acc1.2.2.length ≤ acc'.2.2.length :=
        foldE_inv (fun x : St × Bool × List Id => acc1.2.2.length ≤ x.2.2.length)
          (fun _ _ _ hb hP => le_trans hP (isolatedStep_len hb).1) h (le_refl _)
      have e1 : acc1 = acc := l2 (by omega)
      subst e1
      exact ih h hn

end Skel
end Forsys

namespace Forsys
namespace Skel
open Mesh

/-! ### `SmallEdge.replace_vertex` -/

def otherEnd (vold : Id) (e : SEdge) : Id := if e.v1 = vold then e.v2 else e.v1

/-- the mesh edge ends at `vold` with exactly one of its ends -/
def OneEnd (vold : Id) (e : SEdge) : Prop := (e.v1 = vold ∧ e.v2 ≠ vold) ∨ (e.v1 ≠ vold ∧ e.v2 = vold)

theorem ends_old {vold : Id} {e : SEdge} (h : OneEnd vold e) (x : Id) :
    (e.v1 = x ∨ e.v2 = x) ↔ (x = vold ∨ x = otherEnd vold e) := by
  unfold otherEnd
  rcases h with ⟨h1, h2⟩ | ⟨h1, h2⟩
  · rw [if_pos h1]; subst h1; constructor <;> rintro (h | h) <;> simp [h]
  · rw [if_neg h1]; subst h2; constructor <;> rintro (h | h) <;> simp [h]

theorem ends_new {vold vnew : Id} {e : SEdge} (h : OneEnd vold e) (x : Id) :
    ((sub vold vnew e).v1 = x ∨ (sub vold vnew e).v2 = x) ↔ (x = vnew ∨ x = otherEnd vold e) := by
  unfold otherEnd sub
  rcases h with ⟨h1, h2⟩ | ⟨h1, h2⟩
  · simp only [h1, beq_self_eq_true, if_true]; constructor <;> rintro (h | h) <;> simp [h]
  · have : (e.v1 == vold) = false := by simpa using h1
    simp only [this, Bool.false_eq_true, if_false, if_neg h1]; constructor <;> rintro (h | h) <;> simp [h]

theorem other_ne {vold : Id} {e : SEdge} (h : OneEnd vold e) : otherEnd vold e ≠ vold := by
  unfold otherEnd
  rcases h with ⟨h1, h2⟩ | ⟨h1, h2⟩
  · rw [if_pos h1]; exact h2
  · rw [if_neg h1]; exact h1

theorem edgeReplace_ok {m m' : Mesh} {eid vold vnew : Id} (h : edgeReplace m eid vold vnew = .ok m') :
    ∃ e, alGet? eid m.edges = some e ∧ m' = m.edgeReplaceVertex eid vold vnew := by
  unfold edgeReplace at h
  split at h
  · cases h
  · rename_i e he
    simp only at h
    split at h <;> split at h <;> first | (cases h; exact ⟨e, he, rfl⟩) | cases h

/-- `edge.replace_vertex(vold, vnew)` on a mesh edge that ends at `vold` once keeps keys, clause (1), clause (2) -/
theorem edgeRV_inv0P {m : Mesh} {eid vold vnew : Id} {e : SEdge} {DE DC : List Id}
    (he : alGet? eid m.edges = some e) (hone : OneEnd vold e) (hne : vold ≠ vnew) (hi : Inv0P m DE DC) :
    Inv0P (m.edgeReplaceVertex eid vold vnew) DE DC := by
  have hedges := edgeRV_edges m eid vold vnew hi.K.2.2.2.2.1
  have hverts := edgeRV_vertices m eid vold vnew e he ((ends_old hone vold).mpr (Or.inl rfl))
  have hcells := edgeRV_cells m eid vold vnew
  generalize m.edgeReplaceVertex eid vold vnew = M' at hedges hverts hcells ⊢
  have hem : (eid, e) ∈ m.edges := alGet?_some_mem he
  have heid : eid = e.id := hi.K.2.1 _ hem
  have hpe : ∀ q ∈ m.edges, q.1 = eid → q.2 = e := by
    intro q hq hh
    have := alGet?_of_mem hi.K.2.2.2.2.1 (show (q.1, q.2) ∈ m.edges from hq)
    rw [hh, he] at this
    exact (Option.some.inj this).symm
  have hget : ∀ k, alGet? k M'.edges =
      (alGet? k m.edges).map (fun ed => if k = eid then sub vold vnew ed else ed) := by
    intro k; rw [hedges]
    exact alGet?_map_snd k m.edges (fun k ed => if k = eid then sub vold vnew ed else ed)
  refine ⟨?_, ?_, ?_, ?_⟩
  · obtain ⟨k1, k2, k3, k4, k5, k6⟩ := hi.K
    refine ⟨?_, ?_, by rw [hcells]; exact k3, ?_, ?_, by rw [hcells]; exact k6⟩
    · intro p' hp'
      rw [hverts] at hp'
      obtain ⟨p, hp, rfl⟩ := List.mem_map.mp hp'
      simp only
      split
      · rw [addEdgeTo_id]; split <;> exact k1 p hp
      · split <;> exact k1 p hp
    · intro q' hq'
      rw [hedges] at hq'
      obtain ⟨q, hq, rfl⟩ := List.mem_map.mp hq'
      simp only
      split
      · rw [sub_id]; exact k2 q hq
      · exact k2 q hq
    · rw [hverts, List.map_map]; exact k4
    · rw [hedges, List.map_map]; exact k5
  · -- clause (1)
    intro p' hp'
    obtain ⟨hp', hpD⟩ := mem_restrict.mp hp'
    rw [hverts] at hp'
    obtain ⟨p, hp, rfl⟩ := List.mem_map.mp hp'
    have hpid : p.1 = p.2.id := hi.K.1 p hp
    obtain ⟨c1, c2, c3⟩ := hi.E p (mem_restrict.mpr ⟨hp, hpD⟩)
    simp only [restrict_edges] at c1 c2 ⊢
    -- an unchanged listed edge
    have keep : ∀ x ∈ p.2.ownEdges, x ≠ eid → ∃ ed, alGet? x M'.edges = some ed ∧
        (ed.v1 = p.2.id ∨ ed.v2 = p.2.id) := by
      intro x hx hxe
      obtain ⟨ed, hed, hends⟩ := c1 x hx
      exact ⟨ed, by rw [hget, hed]; simp [hxe], hends⟩
    have hnew : alGet? eid M'.edges = some (sub vold vnew e) := by
      rw [hget, he]; simp
    -- an edge of the new dict
    have back : ∀ q' ∈ M'.edges,
        (q'.1 = eid ∧ q'.2 = sub vold vnew e) ∨ (q'.1 ≠ eid ∧ q' ∈ m.edges) := by
      intro q' hq'
      rw [hedges] at hq'
      obtain ⟨q, hq, rfl⟩ := List.mem_map.mp hq'
      by_cases hqe : q.1 = eid
      · left; simp only [hqe, if_true, true_and]; rw [hpe q hq hqe]
      · right; simp only [hqe, if_false]; exact ⟨hqe, hq⟩
    by_cases h1 : p.1 = vnew
    · have h2 : p.1 ≠ vold := fun hh => hne (hh.symm.trans h1)
      have hv' : (if p.1 = vnew then addEdgeTo (if p.1 = vold then eraseE eid p.2 else p.2) eid
          else if p.1 = vold then eraseE eid p.2 else p.2) = addEdgeTo p.2 eid := by rw [if_pos h1, if_neg h2]
      rw [hv', addEdgeTo_id]
      refine ⟨?_, ?_, ?_⟩
      · intro x hx
        by_cases hxe : x = eid
        · subst hxe
          exact ⟨_, hnew, (ends_new hone _).mpr (Or.inl (hpid.symm.trans h1))⟩
        · apply keep x _ hxe
          unfold addEdgeTo at hx
          split at hx
          · exact hx
          · rcases List.mem_append.mp hx with hx | hx
            · exact hx
            · exact absurd (List.mem_singleton.mp hx) hxe
      · intro q' hq' hends
        have hmono : ∀ y ∈ p.2.ownEdges, y ∈ (addEdgeTo p.2 eid).ownEdges := by
          intro y hy; unfold addEdgeTo; split
          · exact hy
          · exact List.mem_append_left _ hy
        rcases back q' hq' with ⟨b1, b2⟩ | ⟨b1, b2⟩
        · rw [b2, sub_id, ← heid]
          unfold addEdgeTo; split
          · rename_i hc; simpa using hc
          · simp
        · exact hmono _ (c2 q' b2 hends)
      · unfold addEdgeTo; split
        · exact c3
        · rename_i hc
          rw [List.nodup_append]
          refine ⟨c3, by simp, ?_⟩
          intro a ha b hb
          simp only [List.mem_singleton] at hb
          subst hb
          exact fun hh => hc (by simpa using hh ▸ ha)
    · by_cases h2 : p.1 = vold
      · have hv' : (if p.1 = vnew then addEdgeTo (if p.1 = vold then eraseE eid p.2 else p.2) eid
            else if p.1 = vold then eraseE eid p.2 else p.2) = eraseE eid p.2 := by rw [if_neg h1, if_pos h2]
        rw [hv']
        simp only [eraseE]
        refine ⟨?_, ?_, c3.erase _⟩
        · intro x hx
          have := (List.Nodup.mem_erase_iff c3).mp hx
          exact keep x this.2 this.1
        · intro q' hq' hends
          rcases back q' hq' with ⟨b1, b2⟩ | ⟨b1, b2⟩
          · exfalso
            rw [b2] at hends
            rcases (ends_new hone _).mp hends with hh | hh
            · exact hne (h2.symm.trans (hpid.trans hh))
            · exact other_ne hone (hh.symm.trans (hpid.symm.trans h2))
          · apply (List.Nodup.mem_erase_iff c3).mpr
            refine ⟨?_, c2 q' b2 hends⟩
            rw [← hi.K.2.1 q' b2]; exact b1
      · have hv' : (if p.1 = vnew then addEdgeTo (if p.1 = vold then eraseE eid p.2 else p.2) eid
            else if p.1 = vold then eraseE eid p.2 else p.2) = p.2 := by rw [if_neg h1, if_neg h2]
        rw [hv']
        refine ⟨?_, ?_, c3⟩
        · intro x hx
          by_cases hxe : x = eid
          · subst hxe
            refine ⟨_, hnew, (ends_new hone _).mpr (Or.inr ?_)⟩
            obtain ⟨ed, hed, hends⟩ := c1 x hx
            rw [he] at hed; cases hed
            rcases (ends_old hone _).mp hends with hh | hh
            · exact absurd (hpid.trans hh) h2
            · exact hh
          · exact keep x hx hxe
        · intro q' hq' hends
          rcases back q' hq' with ⟨b1, b2⟩ | ⟨b1, b2⟩
          · rw [b2] at hends ⊢
            rw [sub_id]
            rcases (ends_new hone _).mp hends with hh | hh
            · exact absurd (hpid.trans hh) h1
            · exact c2 (eid, e) hem ((ends_old hone _).mpr (Or.inr hh))
          · exact c2 q' b2 hends
  · -- clause (2): untouched
    refine OwnCellsP_of_sim (m.restrict DC) _ hcells ?_ hi.C
    intro p' hp'
    obtain ⟨hp', hpD⟩ := mem_restrict.mp hp'
    rw [hverts] at hp'
    obtain ⟨p, hp, rfl⟩ := List.mem_map.mp hp'
    refine ⟨p, mem_restrict.mpr ⟨hp, hpD⟩, ?_⟩
    simp only
    split
    · rw [addEdgeTo_id, addEdgeTo_ownCells]; split <;> exact ⟨rfl, rfl⟩
    · split <;> exact ⟨rfl, rfl⟩
  · intro q hq; rw [hcells] at hq; exact hi.N q hq

theorem edgeRV_refs {m : Mesh} {eid vold vnew : Id} {e : SEdge} {D : List Id} (hK : KeysP m)
    (he : alGet? eid m.edges = some e) (hone : OneEnd vold e) (hr : RefsLiveP m D) (hnew : LiveK m D vnew) :
    RefsLiveP (m.edgeReplaceVertex eid vold vnew) D := by
  have hedges := edgeRV_edges m eid vold vnew hK.2.2.2.2.1
  have hverts := edgeRV_vertices m eid vold vnew e he ((ends_old hone vold).mpr (Or.inl rfl))
  have hcells := edgeRV_cells m eid vold vnew
  generalize m.edgeReplaceVertex eid vold vnew = M' at hedges hverts hcells ⊢
  have hk : M'.vertices.map (·.1) = m.vertices.map (·.1) := by rw [hverts, List.map_map]; rfl
  have hl := liveK_congr (d := D) hk
  have hem : (eid, e) ∈ m.edges := alGet?_some_mem he
  refine ⟨?_, ?_⟩
  · intro q' hq'
    rw [hedges] at hq'
    obtain ⟨q, hq, rfl⟩ := List.mem_map.mp hq'
    rw [hl, hl]
    simp only
    split
    · rename_i hqe
      have hqe' : q.2 = e := by
        have := alGet?_of_mem hK.2.2.2.2.1 (show (q.1, q.2) ∈ m.edges from hq)
        rw [hqe, he] at this
        exact (Option.some.inj this).symm
      rw [hqe']
      have hoth : LiveK m D (otherEnd vold e) := by
        unfold otherEnd; split
        · exact (hr.1 _ hem).2
        · exact (hr.1 _ hem).1
      have key : ∀ x, ((sub vold vnew e).v1 = x ∨ (sub vold vnew e).v2 = x) → LiveK m D x := by
        intro x hx
        rcases (ends_new hone x).mp hx with hh | hh
        · exact hh ▸ hnew
        · exact hh ▸ hoth
      exact ⟨key _ (Or.inl rfl), key _ (Or.inr rfl)⟩
    · exact hr.1 q hq
  · intro q hq v hv
    rw [hcells] at hq
    rw [hl]; exact hr.2 q hq v hv

/-- what the loop `for ii in range(len(edge_to_replace))` needs of the listed mesh edges -/
def HR (A : List Id) (v : Id) (m : Mesh) (l : List Id) : Prop :=
  l.Nodup ∧ ∀ x ∈ l, ∃ e, alGet? x m.edges = some e ∧ OneEnd v e ∧ otherEnd v e ∉ A

theorem foldE_edgeReplace {A : List Id} {v newId : Id} {l : List Id} {m m' : Mesh}
    (h : foldE (fun m k => edgeReplace m k v newId) m l = .ok m') (hne : v ≠ newId) (hK : KeysP m)
    (hH : HR A v m l) :
    KeysP m' ∧ (∀ DE DC, Inv0P m DE DC → Inv0P m' DE DC) ∧
    (∀ D, RefsLiveP m D → LiveK m D newId → RefsLiveP m' D) ∧
    m'.cells = m.cells ∧ m'.vertices.map (·.1) = m.vertices.map (·.1) ∧
    (∀ q' ∈ m'.edges, (q'.1 ∈ l ∧ q'.2.v1 ≠ v ∧ q'.2.v2 ≠ v) ∨ (q'.1 ∉ l ∧ q' ∈ m.edges)) ∧
    (∀ q' ∈ m'.edges, q' ∈ m.edges ∨ q'.2.v1 = newId ∨ q'.2.v2 = newId) := by
  induction l generalizing m with
  | nil =>
    simp only [foldE] at h; cases h
    exact ⟨hK, fun _ _ => id, fun _ hr _ => hr, rfl, rfl, fun q hq => Or.inr ⟨by simp, hq⟩, fun q hq => Or.inl hq⟩
  | cons k l ih =>
    simp only [foldE] at h
    split at h
    · cases h
    · rename_i m1 h1
      obtain ⟨e0, he0, rfl⟩ := edgeReplace_ok h1
      obtain ⟨hnd, hall⟩ := hH
      simp only [List.nodup_cons] at hnd
      obtain ⟨e, he, hone, hoa⟩ := hall k (List.mem_cons_self ..)
      have hedges := edgeRV_edges m k v newId hK.2.2.2.2.1
      have hverts := edgeRV_vertices m k v newId e he ((ends_old hone v).mpr (Or.inl rfl))
      have hcells := edgeRV_cells m k v newId
      have hpe : ∀ q ∈ m.edges, q.1 = k → q.2 = e := by
        intro q hq hh
        have := alGet?_of_mem hK.2.2.2.2.1 (show (q.1, q.2) ∈ m.edges from hq)
        rw [hh, he] at this
        exact (Option.some.inj this).symm
      have back : ∀ q' ∈ (m.edgeReplaceVertex k v newId).edges,
          (q'.1 = k ∧ q'.2 = sub v newId e) ∨ (q'.1 ≠ k ∧ q' ∈ m.edges) := by
        intro q' hq'
        rw [hedges] at hq'
        obtain ⟨q, hq, rfl⟩ := List.mem_map.mp hq'
        by_cases hqe : q.1 = k
        · left; simp only [hqe, if_true, true_and]; rw [hpe q hq hqe]
        · right; simp only [hqe, if_false]; exact ⟨hqe, hq⟩
      -- keys of the intermediate mesh
      have hK1 : KeysP (m.edgeReplaceVertex k v newId) := by
        obtain ⟨k1, k2, k3, k4, k5, k6⟩ := hK
        refine ⟨?_, ?_, by rw [hcells]; exact k3, ?_, ?_, by rw [hcells]; exact k6⟩
        · intro p' hp'
          rw [hverts] at hp'
          obtain ⟨p, hp, rfl⟩ := List.mem_map.mp hp'
          simp only
          split
          · rw [addEdgeTo_id]; split <;> exact k1 p hp
          · split <;> exact k1 p hp
        · intro q' hq'
          rcases back q' hq' with ⟨b1, b2⟩ | ⟨b1, b2⟩
          · rw [b1, b2, sub_id]; exact k2 _ (alGet?_some_mem he)
          · exact k2 q' b2
        · rw [hverts, List.map_map]; exact k4
        · rw [hedges, List.map_map]; exact k5
      have hH1 : HR A v (m.edgeReplaceVertex k v newId) l := by
        refine ⟨hnd.2, ?_⟩
        intro x hx
        obtain ⟨ex, hex, r⟩ := hall x (List.mem_cons_of_mem _ hx)
        refine ⟨ex, ?_, r⟩
        rw [hedges, alGet?_map_snd x m.edges (fun kk ed => if kk = k then sub v newId ed else ed), hex]
        have : x ≠ k := fun hh => hnd.1 (hh ▸ hx)
        simp [this]
      obtain ⟨j0, j1, j2, j4, j5, j6, j7⟩ := ih h hK1 hH1
      refine ⟨j0, ?_, ?_, ?_, ?_, ?_, ?_⟩
      · intro DE DC hi
        exact j1 DE DC (edgeRV_inv0P he hone hne hi)
      · intro D hr hl
        apply j2 D (edgeRV_refs hK he hone hr hl)
        have hk : (m.edgeReplaceVertex k v newId).vertices.map (·.1) = m.vertices.map (·.1) := by
          rw [hverts, List.map_map]; rfl
        exact (liveK_congr hk _).mpr hl
      · rw [j4, hcells]
      · rw [j5, hverts, List.map_map]; rfl
      · intro q' hq'
        rcases j6 q' hq' with ⟨a1, a2⟩ | ⟨a1, a2⟩
        · exact Or.inl ⟨List.mem_cons_of_mem _ a1, a2⟩
        · rcases back q' a2 with ⟨b1, b2⟩ | ⟨b1, b2⟩
          · left
            refine ⟨b1 ▸ List.mem_cons_self .., ?_⟩
            rw [b2]
            constructor
            · intro hh
              rcases (ends_new hone v).mp (Or.inl hh) with h' | h'
              · exact hne h'
              · exact other_ne hone h'.symm
            · intro hh
              rcases (ends_new hone v).mp (Or.inr hh) with h' | h'
              · exact hne h'
              · exact other_ne hone h'.symm
          · right
            exact ⟨by simp only [List.mem_cons, not_or]; exact ⟨b1, a1⟩, b2⟩
      · intro q' hq'
        rcases j7 q' hq' with a1 | a1
        · rcases back q' a1 with ⟨b1, b2⟩ | ⟨b1, b2⟩
          · right
            rw [b2]
            exact (ends_new hone newId).mpr (Or.inl rfl)
          · exact Or.inl b2
        · exact Or.inr a1

end Skel
end Forsys

namespace Forsys
namespace Skel
open Mesh

/-! ### the body of `for v in artifact` -/

theorem alGet?_filter_keys {β : Type} (k : Id) (f : Id → Bool) (l : List (Id × β)) :
    alGet? k (l.filter fun p => f p.1) = if f k then alGet? k l else none := by
  induction l with
  | nil => simp [alGet?]
  | cons p r ih =>
    obtain ⟨k', v'⟩ := p
    simp only [List.filter_cons]
    by_cases h1 : f k' = true
    · simp only [h1, if_true, alGet?, ih]
      by_cases h2 : k = k'
      · subst h2; simp [h1]
      · simp [h2]
    · have h1' : f k' = false := by simpa using h1
      simp only [h1', Bool.false_eq_true, if_false, alGet?]
      rw [ih]
      by_cases h2 : k = k'
      · subst h2; simp [h1']
      · simp [h2]

/-- "both ends in the artefact" -/
def goodE (st : St) (A : List Id) (x : Id) : Bool :=
  match st.mesh.edge? x with
  | some e => A.contains e.v1 && A.contains e.v2
  | none => false

def classify (st : St) (A : List Id) (acc : List Id × List Id) (eid : Id) : Except Err (List Id × List Id) :=
  match st.mesh.edge? eid with
  | none => .error .keyError
  | some e => if A.contains e.v1 && A.contains e.v2 then .ok (acc.1 ++ [eid], acc.2)
              else .ok (acc.1, acc.2 ++ [eid])

theorem classify_spec {st : St} {A : List Id} {l : List Id} {acc r : List Id × List Id}
    (h : foldE (classify st A) acc l = .ok r) :
    (∀ x ∈ l, ∃ e, st.mesh.edge? x = some e) ∧ r.1 = acc.1 ++ l.filter (goodE st A) ∧
      r.2 = acc.2 ++ l.filter (fun x => !goodE st A x) := by
  induction l generalizing acc with
  | nil => simp only [foldE] at h; cases h; simp
  | cons a l ih =>
    simp only [foldE] at h
    split at h
    · cases h
    · rename_i acc1 h1
      unfold classify at h1
      split at h1
      · cases h1
      · rename_i e he
        obtain ⟨i1, i2, i3⟩ := ih h
        split at h1
        · rename_i hg
          cases h1
          have hga : goodE st A a = true := by simp only [goodE, he]; exact hg
          refine ⟨?_, ?_, ?_⟩
          · intro x hx
            rcases List.mem_cons.mp hx with rfl | hx
            · exact ⟨e, he⟩
            · exact i1 x hx
          · rw [i2]; simp [hga]
          · rw [i3]; simp [hga]
        · rename_i hg
          cases h1
          have hga : goodE st A a = false := by simp only [goodE, he]; simpa using hg
          refine ⟨?_, ?_, ?_⟩
          · intro x hx
            rcases List.mem_cons.mp hx with rfl | hx
            · exact ⟨e, he⟩
            · exact i1 x hx
          · rw [i2]; simp [hga]
          · rw [i3]; simp [hga]

theorem t3Vertex_cases {A : List Id} {newId : Id} {st st' : St} {v : Id} (h : t3Vertex A newId st v = .ok st') :
    ∃ vx st1 m2 m3, st.getV v = .ok vx ∧ (∀ x ∈ vx.ownEdges, ∃ e, st.mesh.edge? x = some e) ∧
      foldE (fun st k => st.delEdge k) st (vx.ownEdges.filter (goodE st A)) = .ok st1 ∧
      foldE (fun m k => edgeReplace m k v newId) st1.mesh (vx.ownEdges.filter fun x => !goodE st A x) = .ok m2 ∧
      foldE (fun m c => cellReplace m c v newId) m2 (m2.ownCells v) = .ok m3 ∧
      st' = { st1 with mesh := m3 } := by
  unfold t3Vertex at h
  split at h
  · cases h
  rename_i vx hvx
  split at h
  · cases h
  rename_i r p hcl
  have hcl' : foldE (classify st A) ([], []) vx.ownEdges = .ok (r, p) := hcl
  obtain ⟨c1, c2, c3⟩ := classify_spec hcl'
  simp only [List.nil_append] at c2 c3
  subst c2; subst c3
  split at h
  · cases h
  rename_i st1 h1
  split at h
  · cases h
  rename_i m2 h2
  split at h
  · cases h
  rename_i m3 h3
  cases h
  exact ⟨vx, st1, m2, m3, hvx, c1, h1, h2, h3, rfl⟩

theorem liveK_anti {m : Mesh} {D D' : List Id} {k : Id} (h : LiveK m D k) (hsub : ∀ x ∈ D', x ∈ D) : LiveK m D' k :=
  ⟨h.1, fun hh => h.2 (hsub _ hh)⟩

theorem refsLiveP_anti {m : Mesh} {D D' : List Id} (h : RefsLiveP m D) (hsub : ∀ x ∈ D', x ∈ D) : RefsLiveP m D' :=
  ⟨fun q hq => ⟨liveK_anti (h.1 q hq).1 hsub, liveK_anti (h.1 q hq).2 hsub⟩,
    fun q hq v hv => liveK_anti (h.2 q hq v hv) hsub⟩

/-- the state of `do_t3_transition` between two artefact vertices: the vertices `P` already moved to the new vertex
    are referenced by nobody, only their `ownCells` are stale -/
structure T3P (A : List Id) (newId : Id) (m : Mesh) (d P : List Id) : Prop where
  I : Inv0P m d (d ++ P)
  R : RefsLiveP m (d ++ P)
  newLive : LiveK m (d ++ P) newId
  newNot : newId ∉ A

theorem t3Vertex_inv {A : List Id} {newId : Id} {st st' : St} {v : Id} {P : List Id}
    (h : t3Vertex A newId st v = .ok st') (hz' : st'.zombie = none) (hv : v ∈ A)
    (hT : T3P A newId st.mesh st.dead P) :
    T3P A newId st'.mesh st.dead (P ++ [v]) ∧ st'.dead = st.dead ∧ st'.idReused = st.idReused ∧
      st'.pinned = st.pinned ∧ st'.mesh.vertices.map (·.1) = st.mesh.vertices.map (·.1) ∧
      (∀ q' ∈ st'.mesh.edges, q' ∈ st.mesh.edges ∨ q'.2.v1 = newId ∨ q'.2.v2 = newId) := by
  obtain ⟨vx, st1, m2, m3, hvx, hex, h1, h2, h3, rfl⟩ := t3Vertex_cases h
  have hz1 : st1.zombie = none := hz'
  obtain ⟨hvmem, hvlive⟩ := getV_live hvx
  have hvid : v = vx.id := hT.I.K.1 _ (mem_restrict.mp hvmem).1
  obtain ⟨e1, e2, e3⟩ := hT.I.E _ hvmem
  simp only [restrict_edges] at e1 e2
  have hvne : v ≠ newId := fun hh => hT.newNot (hh ▸ hv)
  have up : ∀ (M : Mesh) x, LiveK M (st.dead ++ P) x → x ≠ v → LiveK M (st.dead ++ (P ++ [v])) x := by
    intro M x hx hne
    refine ⟨hx.1, ?_⟩
    rw [← List.append_assoc]
    simp only [List.mem_append, List.mem_singleton, not_or]
    exact ⟨by simpa using hx.2, hne⟩
  by_cases hvP : v ∈ P
  · -- `v` was handled before: nothing refers to it any more
    have hvD : v ∈ st.dead ++ P := List.mem_append_right _ hvP
    have hno : vx.ownEdges = [] := by
      cases hl : vx.ownEdges with
      | nil => rfl
      | cons x xs =>
        exfalso
        obtain ⟨ed, hed, hends⟩ := e1 x (hl ▸ List.mem_cons_self ..)
        have := hT.R.1 _ (alGet?_some_mem hed)
        rcases hends with hh | hh
        · exact this.1.2 (by rw [hh, ← hvid]; exact hvD)
        · exact this.2.2 (by rw [hh, ← hvid]; exact hvD)
    rw [hno] at h1 h2
    simp only [List.filter_nil, foldE] at h1 h2
    cases h1; cases h2
    have hoc : st.mesh.ownCells v = vx.ownCells := by
      simp [Mesh.ownCells, Mesh.vertex?, (getV_ok hvx).2]
    rw [hoc] at h3
    have hm3 : m3 = st.mesh := by
      cases hc : vx.ownCells with
      | nil => rw [hc] at h3; simp only [foldE] at h3; cases h3; rfl
      | cons c cs =>
        exfalso
        rw [hc] at h3
        simp only [foldE] at h3
        split at h3
        · cases h3
        · rename_i m' hm'
          obtain ⟨cl, hcl, hold, _⟩ := cellReplace_spec hm' hT.I.K.2.2.2.2.2
          exact (hT.R.2 _ (alGet?_some_mem hcl) v hold).2 hvD
    subst hm3
    have hsub : ∀ x ∈ st.dead ++ (P ++ [v]), x ∈ st.dead ++ P := by
      intro x hx
      simp only [List.mem_append, List.mem_singleton] at hx ⊢
      rcases hx with hx | hx | hx
      · exact Or.inl hx
      · exact Or.inr hx
      · exact Or.inr (hx ▸ hvP)
    refine ⟨⟨?_, refsLiveP_anti hT.R hsub, liveK_anti hT.newLive hsub, hT.newNot⟩, rfl, rfl, rfl, rfl, fun q hq => Or.inl hq⟩
    exact inv0P_mono hT.I (fun _ hk => hk) (fun k hk => by
      simp only [List.mem_append, List.mem_singleton] at hk ⊢
      rcases hk with hk | hk
      · exact Or.inl hk
      · exact Or.inr (Or.inl hk))
  · have hvD : v ∉ st.dead ++ P := by
      simp only [List.mem_append, not_or]; exact ⟨hvlive.2, hvP⟩
    -- the mesh edges inside the artefact
    obtain ⟨b1, b2, b3, b4, b5, b6, b7, b8, b9⟩ := foldE_delEdge h1 hz1
    have I1 : Inv0P st1.mesh st.dead (st.dead ++ P) := b1 _ _ hT.I
    have R1 : RefsLiveP st1.mesh (st.dead ++ P) := b2 _ hT.R
    have newLive1 : LiveK st1.mesh (st.dead ++ P) newId := (liveK_congr b7 _).mpr hT.newLive
    -- the mesh edges leaving the artefact
    have hHR : HR A v st1.mesh (vx.ownEdges.filter fun x => !goodE st A x) := by
      refine ⟨e3.filter _, ?_⟩
      intro x hx
      obtain ⟨hxl, hxg⟩ := List.mem_filter.mp hx
      obtain ⟨ed, hed, hends⟩ := e1 x hxl
      have hedm := alGet?_some_mem hed
      have hgf : ¬ (ed.v1 ∈ A ∧ ed.v2 ∈ A) := by
        have : goodE st A x = false := by simpa using hxg
        simp only [goodE, Mesh.edge?, hed] at this
        simpa using this
      have hone : OneEnd v ed := by
        rw [← hvid] at hends
        rcases hends with hh | hh
        · exact Or.inl ⟨hh, fun h2 => hgf ⟨hh ▸ hv, h2 ▸ hv⟩⟩
        · exact Or.inr ⟨fun h2 => hgf ⟨h2 ▸ hv, hh ▸ hv⟩, hh⟩
      have hnotA : otherEnd v ed ∉ A := by
        unfold otherEnd
        rcases hone with ⟨a1, a2⟩ | ⟨a1, a2⟩
        · rw [if_pos a1]; exact fun hh => hgf ⟨a1 ▸ hv, hh⟩
        · rw [if_neg a1]; exact fun hh => hgf ⟨hh, a2 ▸ hv⟩
      refine ⟨ed, ?_, hone, hnotA⟩
      rw [b9, alGet?_filter_keys x (fun k => !(vx.ownEdges.filter (goodE st A)).contains k)]
      have : x ∉ vx.ownEdges.filter (goodE st A) := by
        intro hm
        have := (List.mem_filter.mp hm).2
        simp [this] at hxg
      simp [this, hed]
    obtain ⟨c0, c1, c2, c4, c5, c6, c7⟩ := foldE_edgeReplace h2 hvne I1.K hHR
    have I2 : Inv0P m2 st.dead (st.dead ++ P) := c1 _ _ I1
    have R2 : RefsLiveP m2 (st.dead ++ P) := c2 _ R1 newLive1
    have newLive2 : LiveK m2 (st.dead ++ P) newId := (liveK_congr c5 _).mpr newLive1
    have hnoE : ∀ q ∈ m2.edges, q.2.v1 ≠ v ∧ q.2.v2 ≠ v := by
      intro q hq
      rcases c6 q hq with ⟨_, a2⟩ | ⟨a1, a2⟩
      · exact a2
      · obtain ⟨q1, q2⟩ := b8 q a2
        by_contra hcon
        have hends : q.2.v1 = vx.id ∨ q.2.v2 = vx.id := by
          rw [← hvid]; by_contra hh; simp only [not_or] at hh; exact hcon hh
        have hlisted := e2 q q1 hends
        rw [← hT.I.K.2.1 q q1] at hlisted
        by_cases hg : goodE st A q.1 = true
        · exact q2 (List.mem_filter.mpr ⟨hlisted, hg⟩)
        · exact a1 (List.mem_filter.mpr ⟨hlisted, by simpa using hg⟩)
    -- the cells
    have hvk : v ∈ m2.vertices.map (·.1) := by rw [c5, b7]; exact hvlive.1
    obtain ⟨vx2, hvx2⟩ : ∃ vx2, alGet? v m2.vertices = some vx2 :=
      Option.isSome_iff_exists.mp ((alGet?_isSome_iff _ _).mpr hvk)
    have hoc : m2.ownCells v = vx2.ownCells := by simp [Mesh.ownCells, Mesh.vertex?, hvx2]
    have hvmem2 : (v, vx2) ∈ (m2.restrict (st.dead ++ P)).vertices :=
      mem_restrict.mpr ⟨alGet?_some_mem hvx2, hvD⟩
    have hvid2 : v = vx2.id := I2.K.1 _ (alGet?_some_mem hvx2)
    rw [hoc] at h3
    have hsubC : ∀ k ∈ st.dead ++ P, k ∈ st.dead ++ P ++ [v] := fun k hk => List.mem_append_left _ hk
    obtain ⟨f1, f2, f3, f4, f5, _⟩ := foldE_cellReplace h3 (inv0P_mono I2 (fun _ hk => hk) hsubC) (by simp)
    have hnoC : ∀ q ∈ m3.cells, v ∉ q.2.verts := by
      intro q hq hv'
      obtain ⟨a1, a2⟩ := f5 q hq hv'
      apply a2
      rw [I2.K.2.2.1 q a1]
      exact (I2.C _ hvmem2).2.1 q a1 (by rw [← hvid2]; exact hv')
    have R3 : RefsLiveP m3 (st.dead ++ P) := f4 _ R2 (fun _ => newLive2)
    refine ⟨⟨?_, ?_, ?_, hT.newNot⟩, b3, b5, b4, (f2.trans c5).trans b7, ?_⟩
    · rw [← List.append_assoc]; exact f1
    · refine ⟨fun q hq => ?_, fun q hq x hx => ?_⟩
      · have h3' := R3.1 q hq
        have hq2 : q ∈ m2.edges := f3 ▸ hq
        have hn := hnoE q hq2
        exact ⟨up _ _ h3'.1 hn.1, up _ _ h3'.2 hn.2⟩
      · exact up _ _ (R3.2 q hq x hx) (fun hh => hnoC q hq (hh ▸ hx))
    · exact up _ _ ((liveK_congr f2 _).mpr newLive2) (Ne.symm hvne)
    · intro q' hq'
      have hq2 : q' ∈ m2.edges := f3 ▸ hq'
      rcases c7 q' hq2 with a1 | a1
      · exact Or.inl (b8 q' a1).1
      · exact Or.inr a1

/-- the pinned mesh edge does not have both ends in the artefact (negation of finding D16's predicate) -/
def PinOK (A : List Id) (st : St) : Prop :=
  ∀ q ∈ st.mesh.edges, st.pinned = some q.1 → ¬ (q.2.v1 ∈ A ∧ q.2.v2 ∈ A)

theorem foldE_delEdge_unpinned {l : List Id} {st st' : St} (h : foldE (fun st x => st.delEdge x) st l = .ok st')
    (hp : ∀ x ∈ l, st.pinned ≠ some x) (hz : st.zombie = none) : st'.zombie = none := by
  induction l generalizing st with
  | nil => simp only [foldE] at h; cases h; exact hz
  | cons a l ih =>
    simp only [foldE] at h
    split at h
    · cases h
    · rename_i st1 h1
      have := St_delEdge_unpinned h1 (hp a (List.mem_cons_self ..))
      apply ih h
      · intro x hx; rw [this]; exact hp x (List.mem_cons_of_mem _ hx)
      · rw [this]; exact hz

theorem t3Vertex_zombie_none {A : List Id} {newId : Id} {st st' : St} {v : Id}
    (h : t3Vertex A newId st v = .ok st') (hz : st.zombie = none) (hp : PinOK A st) : st'.zombie = none := by
  obtain ⟨vx, st1, m2, m3, hvx, hex, h1, _, _, rfl⟩ := t3Vertex_cases h
  have : st1.zombie = none := by
    apply foldE_delEdge_unpinned h1 _ hz
    intro x hx hpin
    obtain ⟨_, hg⟩ := List.mem_filter.mp hx
    obtain ⟨e, he⟩ := hex x (List.mem_filter.mp hx).1
    simp only [goodE, he, Bool.and_eq_true, List.contains_eq_mem, decide_eq_true_eq] at hg
    exact hp (x, e) (alGet?_some_mem he) hpin hg
  exact this

end Skel
end Forsys

namespace Forsys
namespace Skel
open Mesh

/-! ### `do_t3_transition` -/

theorem le_foldl_max (r : List Id) (k : Id) : k ≤ r.foldl max k ∧ ∀ x ∈ r, x ≤ r.foldl max k := by
  induction r generalizing k with
  | nil => simp
  | cons a r ih =>
    simp only [List.foldl_cons]
    obtain ⟨i1, i2⟩ := ih (max k a)
    refine ⟨Int.le_trans (Int.le_max_left k a) i1, ?_⟩
    intro x hx
    rcases List.mem_cons.mp hx with rfl | hx
    · exact Int.le_trans (Int.le_max_right k x) i1
    · exact i2 x hx

theorem newVid_aux1 (k M : Int) (h1 : k ≤ M) (h2 : M + 1 = k) : False := by omega
theorem newVid_aux2 (M : Int) (h2 : M + 1 ≤ M) : False := by omega

/-- `get_new_vid` returns an id that is not a key of the vertices dict -/
theorem newVid_not_live (st : St) : ¬ LiveK st.mesh st.dead (newVid st) := by
  intro h
  have hm : newVid st ∈ st.liveVertices.map (·.1) := (restrict_keys st.mesh st.dead _).mpr h
  unfold newVid at hm
  split at hm
  · rename_i hnil; rw [hnil] at hm; simp at hm
  · rename_i k r hkr
    rw [hkr] at hm
    obtain ⟨i1, i2⟩ := le_foldl_max r k
    rcases List.mem_cons.mp hm with hh | hh
    · exact newVid_aux1 k _ i1 hh
    · exact newVid_aux2 _ (i2 _ hh)

theorem t3_start {m : Mesh} {d : List Id} (hI : InvP m d) {newId : Id} (hn : ¬ LiveK m d newId) (x y : Rat)
    {A : List Id} (hA : newId ∉ A) : T3P A newId (m.mkVertex newId x y) (d.filter (· != newId)) [] := by
  have hnoE : ∀ q ∈ m.edges, q.2.v1 ≠ newId ∧ q.2.v2 ≠ newId := fun q hq =>
    ⟨fun hh => hn (hh ▸ (hI.R.1 q hq).1), fun hh => hn (hh ▸ (hI.R.1 q hq).2)⟩
  have hnoC : ∀ q ∈ m.cells, newId ∉ q.2.verts := fun q hq hh => hn (hI.R.2 q hq _ hh)
  have hd' : ∀ k, k ≠ newId → (k ∈ d.filter (· != newId) ↔ k ∈ d) := by
    intro k hk; simp [List.mem_filter, hk]
  have hnd' : newId ∉ d.filter (· != newId) := by simp [List.mem_filter]
  have hmemV : ∀ p, p ∈ (m.mkVertex newId x y).vertices ↔
      (p ∈ m.vertices ∧ p.1 ≠ newId) ∨ p = (newId, { id := newId, x := x, y := y, ownEdges := [], ownCells := [] }) := by
    intro p; simp [mkVertex, List.mem_filter]
  have hmem : ∀ D, (∀ k, k ≠ newId → (k ∈ D ↔ k ∈ d)) → newId ∉ D →
      ∀ p, p ∈ ((m.mkVertex newId x y).restrict D).vertices ↔
      p ∈ (m.restrict d).vertices ∨ p = (newId, { id := newId, x := x, y := y, ownEdges := [], ownCells := [] }) := by
    intro D hD hnD p
    rw [mem_restrict, mem_restrict, hmemV]
    constructor
    · rintro ⟨⟨h1, h2⟩ | h1, h3⟩
      · exact Or.inl ⟨h1, fun hh => h3 ((hD _ h2).mpr hh)⟩
      · exact Or.inr h1
    · rintro (⟨h1, h2⟩ | h1)
      · have hne : p.1 ≠ newId := fun hh => hn ⟨List.mem_map.mpr ⟨p, h1, hh⟩, hh ▸ h2⟩
        exact ⟨Or.inl ⟨h1, hne⟩, fun hh => h2 ((hD _ hne).mp hh)⟩
      · subst h1; exact ⟨Or.inr rfl, hnD⟩
  have hlive : ∀ D, (∀ k, k ≠ newId → (k ∈ D ↔ k ∈ d)) → ∀ k, LiveK m d k → LiveK (m.mkVertex newId x y) D k := by
    intro D hD k hk
    have hne : k ≠ newId := fun hh => hn (hh ▸ hk)
    obtain ⟨p, hp, rfl⟩ := List.mem_map.mp hk.1
    exact ⟨List.mem_map.mpr ⟨p, (hmemV p).mpr (Or.inl ⟨hp, hne⟩), rfl⟩, fun hh => hk.2 ((hD _ hne).mp hh)⟩
  have hD0 : ∀ k, k ≠ newId → (k ∈ d.filter (· != newId) ++ [] ↔ k ∈ d) := by
    intro k hk; rw [List.append_nil]; exact hd' k hk
  refine ⟨⟨?_, ?_, ?_, hI.N⟩, ?_, ?_, hA⟩
  · -- keys
    obtain ⟨k1, k2, k3, k4, k5, k6⟩ := hI.K
    refine ⟨?_, k2, k3, ?_, k5, k6⟩
    · intro p hp
      rcases (hmemV p).mp hp with ⟨h1, _⟩ | h1
      · exact k1 p h1
      · subst h1; rfl
    · simp only [mkVertex, List.map_append, List.map_cons, List.map_nil]
      rw [List.nodup_append]
      refine ⟨(List.filter_sublist.map _).nodup k4, by simp, ?_⟩
      intro a ha b hb
      simp only [List.mem_singleton] at hb
      subst hb
      obtain ⟨p, hp, rfl⟩ := List.mem_map.mp ha
      simpa using (List.mem_filter.mp hp).2
  · intro p hp
    rcases (hmem _ hd' hnd' p).mp hp with h1 | h1
    · exact hI.E p h1
    · subst h1
      refine ⟨by simp, ?_, by simp⟩
      intro q hq hends
      exfalso
      rcases hends with hh | hh
      · exact (hnoE q hq).1 hh
      · exact (hnoE q hq).2 hh
  · intro p hp
    rcases (hmem _ hD0 (by simp) p).mp hp with h1 | h1
    · exact hI.C p h1
    · subst h1
      refine ⟨by simp, ?_, by simp⟩
      intro q hq hh
      exact absurd hh (hnoC q hq)
  · exact ⟨fun q hq => ⟨hlive _ hD0 _ (hI.R.1 q hq).1, hlive _ hD0 _ (hI.R.1 q hq).2⟩,
      fun q hq v hv => hlive _ hD0 _ (hI.R.2 q hq v hv)⟩
  · refine ⟨List.mem_map.mpr ⟨_, (hmemV _).mpr (Or.inr rfl), rfl⟩, by simp⟩

theorem t3Vertex_zombie {A : List Id} {newId : Id} {st st' : St} {v : Id} (h : t3Vertex A newId st v = .ok st')
    (hz : st.zombie ≠ none) : st'.zombie ≠ none := by
  obtain ⟨vx, st1, m2, m3, _, _, h1, _, _, rfl⟩ := t3Vertex_cases h
  have : st1.zombie ≠ none := foldE_delEdge_zombie h1 hz
  exact this

theorem foldE_t3Vertex_inv {A : List Id} {newId : Id} {l : List Id} {st st' : St} {P : List Id}
    (h : foldE (t3Vertex A newId) st l = .ok st') (hz : st'.zombie = none) (hl : ∀ v ∈ l, v ∈ A)
    (hT : T3P A newId st.mesh st.dead P) :
    T3P A newId st'.mesh st.dead (P ++ l) ∧ st'.dead = st.dead ∧ st'.idReused = st.idReused ∧
      st'.pinned = st.pinned ∧ st'.mesh.vertices.map (·.1) = st.mesh.vertices.map (·.1) ∧
      (∀ q' ∈ st'.mesh.edges, q' ∈ st.mesh.edges ∨ q'.2.v1 = newId ∨ q'.2.v2 = newId) := by
  induction l generalizing st P with
  | nil =>
    simp only [foldE] at h; cases h; rw [List.append_nil]
    exact ⟨hT, rfl, rfl, rfl, rfl, fun q hq => Or.inl hq⟩
  | cons a l ih =>
    simp only [foldE] at h
    split at h
    · cases h
    · rename_i st1 h1
      have hz1 : st1.zombie = none := by
        by_contra hcon
        exact foldE_inv (fun x : St => x.zombie ≠ none) (fun _ _ _ hb hP => t3Vertex_zombie hb hP) h hcon hz
      obtain ⟨t1, t2, t3, t4, t5, t6⟩ := t3Vertex_inv h1 hz1 (hl a (List.mem_cons_self ..)) hT
      have := ih h (fun v hv => hl v (List.mem_cons_of_mem _ hv)) (t2 ▸ t1)
      rw [t2] at this
      obtain ⟨u1, u2, u3, u4, u5, u6⟩ := this
      refine ⟨?_, u2, u3.trans t3, u4.trans t4, u5.trans t5, ?_⟩
      · rw [show P ++ a :: l = P ++ [a] ++ l by simp]
        exact u1
      · intro q' hq'
        rcases u6 q' hq' with a1 | a1
        · exact t6 q' a1
        · exact Or.inr a1

/-- the loop `for jj in range(len(artifact)): if len(ownEdges) == 0: del self.vertices[artifact[jj]]` -/
def markStep (st : St) (v : Id) : Except Err St :=
  match st.getV v with
  | .error e => .error e
  | .ok vx => if vx.ownEdges.isEmpty then .ok { st with dead := st.dead ++ [v] } else .ok st

theorem markStep_inv {A : List Id} {newId : Id} {d : List Id} {l : List Id} {s s' : St}
    (h : foldE markStep s l = .ok s') (hl : ∀ v ∈ l, v ∈ A) (hT : T3P A newId s.mesh d A)
    (hd1 : ∀ k ∈ d, k ∈ s.dead) (hd2 : ∀ k ∈ s.dead, k ∈ d ++ A) :
    s'.mesh = s.mesh ∧ s'.zombie = s.zombie ∧ s'.pinned = s.pinned ∧ s'.idReused = s.idReused ∧
    (∀ k ∈ s.dead, k ∈ s'.dead) ∧ (∀ v ∈ l, v ∈ s'.dead) ∧ (∀ k ∈ s'.dead, k ∈ d ++ A) := by
  induction l generalizing s with
  | nil => simp only [foldE] at h; cases h; exact ⟨rfl, rfl, rfl, rfl, fun _ hk => hk, by simp, hd2⟩
  | cons a l ih =>
    simp only [foldE] at h
    split at h
    · cases h
    · rename_i s1 h1
      have haA : a ∈ A := hl a (List.mem_cons_self ..)
      unfold markStep at h1
      split at h1
      · cases h1
      · rename_i vx hvx
        obtain ⟨hvmem, _⟩ := getV_live hvx
        have hvmem' : (a, vx) ∈ (s.mesh.restrict d).vertices := restrict_vertices_mono hd1 hvmem
        have hvid : a = vx.id := hT.I.K.1 _ (mem_restrict.mp hvmem).1
        have hno : vx.ownEdges = [] := by
          cases hl' : vx.ownEdges with
          | nil => rfl
          | cons x xs =>
            exfalso
            obtain ⟨ed, hed, hends⟩ := (hT.I.E _ hvmem').1 x (hl' ▸ List.mem_cons_self ..)
            have := hT.R.1 _ (alGet?_some_mem hed)
            rcases hends with hh | hh
            · exact this.1.2 (by rw [hh, ← hvid]; exact List.mem_append_right _ haA)
            · exact this.2.2 (by rw [hh, ← hvid]; exact List.mem_append_right _ haA)
        simp only [hno, List.isEmpty_nil, if_true] at h1
        cases h1
        obtain ⟨j1, j2, j3, j4, j5, j6, j7⟩ := ih h (fun v hv => hl v (List.mem_cons_of_mem _ hv)) hT
          (fun k hk => List.mem_append_left _ (hd1 k hk))
          (fun k hk => by
            rcases List.mem_append.mp hk with hk | hk
            · exact hd2 k hk
            · simp only [List.mem_singleton] at hk; subst hk; exact List.mem_append_right _ haA)
        refine ⟨j1, j2, j3, j4, fun k hk => j5 k (List.mem_append_left _ hk), ?_, j7⟩
        intro v hv
        rcases List.mem_cons.mp hv with rfl | hv
        · exact j5 _ (by simp)
        · exact j6 v hv

theorem getV_of_coords {st : St} {l : List Id} {acc r : List Rat × List Rat}
    (h : foldE (fun (acc : List Rat × List Rat) v =>
      match st.getV v with
      | .error e => .error e
      | .ok vx => .ok (acc.1 ++ [vx.x], acc.2 ++ [vx.y])) acc l = .ok r) : ∀ v ∈ l, ∃ vx, st.getV v = .ok vx := by
  induction l generalizing acc with
  | nil => simp
  | cons a l ih =>
    simp only [foldE] at h
    split at h
    · cases h
    · rename_i acc1 h1
      intro v hv
      rcases List.mem_cons.mp hv with rfl | hv
      · split at h1
        · cases h1
        · rename_i vx hvx; exact ⟨vx, hvx⟩
      · exact ih h v hv

/-- a successful `do_t3_transition` that does not delete the pinned mesh edge keeps the invariant -/
theorem t3_inv {st st' : St} {A : List Id} (h : t3 st A = .ok st') (hz : st'.zombie = none) (hi : InvS st) :
    InvS st' := by
  unfold t3 at h
  split at h
  · cases h
  rename_i xs ys hco
  simp only at h
  split at h
  · cases h
  rename_i stb hb
  have hlive := getV_of_coords hco
  have hnew := newVid_not_live st
  have hA : newVid st ∉ A := by
    intro hh
    obtain ⟨vx, hvx⟩ := hlive _ hh
    exact hnew (getV_live hvx).2
  have hT0 := t3_start hi.1 hnew (mean xs) (mean ys) hA
  have h' : foldE markStep stb A = .ok st' := h
  -- the zombie flag of the intermediate state
  have hzb : stb.zombie = none := by
    by_contra hcon
    have : st'.zombie ≠ none := by
      refine foldE_inv (fun x : St => x.zombie ≠ none) ?_ h' hcon
      intro b a b' hb' hP
      unfold markStep at hb'
      split at hb'
      · cases hb'
      · split at hb' <;> (cases hb'; exact hP)
    exact this hz
  obtain ⟨t1, t2, t3, t4, _, _⟩ := foldE_t3Vertex_inv hb hzb (fun _ hv => hv) hT0
  simp only [List.nil_append] at t1
  have t2' : stb.dead = st.dead.filter (· != newVid st) := t2
  obtain ⟨j1, j2, j3, j4, j5, j6, j7⟩ := markStep_inv h' (fun _ hv => hv) t1 (fun k hk => t2' ▸ hk)
    (fun k hk => List.mem_append_left _ (t2' ▸ hk))
  refine ⟨?_, hz⟩
  rw [j1]
  have hE : ∀ k ∈ st.dead.filter (· != newVid st), k ∈ st'.dead := fun k hk => j5 k (t2' ▸ hk)
  have hC : ∀ k ∈ st.dead.filter (· != newVid st) ++ A, k ∈ st'.dead := by
    intro k hk
    rcases List.mem_append.mp hk with hk | hk
    · exact hE k hk
    · exact j6 k hk
  exact (inv0P_mono t1.I hE hC).inv (refsLiveP_anti t1.R j7)

theorem t3_zombie {st st' : St} {A : List Id} (h : t3 st A = .ok st') (hz : st.zombie ≠ none) :
    st'.zombie ≠ none := by
  unfold t3 at h
  split at h
  · cases h
  simp only at h
  split at h
  · cases h
  rename_i stb hb
  have h' : foldE markStep stb A = .ok st' := h
  have hzb : stb.zombie ≠ none :=
    foldE_inv (fun x : St => x.zombie ≠ none) (fun _ _ _ hb hP => t3Vertex_zombie hb hP) hb hz
  refine foldE_inv (fun x : St => x.zombie ≠ none) ?_ h' hzb
  intro b a b' hb' hP
  unfold markStep at hb'
  split at hb'
  · cases hb'
  · split at hb' <;> (cases hb'; exact hP)

theorem foldE_t3_inv {groups : List (List Id)} {st st' : St} (h : foldE t3 st groups = .ok st')
    (hz : st'.zombie = none) (hi : InvS st) : InvS st' := by
  induction groups generalizing st with
  | nil => simp only [foldE] at h; cases h; exact hi
  | cons a l ih =>
    simp only [foldE] at h
    split at h
    · cases h
    · rename_i st1 h1
      have hz1 : st1.zombie = none := by
        by_contra hcon
        exact foldE_inv (fun x : St => x.zombie ≠ none) (fun _ _ _ hb hP => t3_zombie hb hP) h hcon hz
      exact ih h (t3_inv h1 hz1 hi)

theorem foldE_t3Vertex_pin {A : List Id} {newId : Id} {l : List Id} {st st' : St} {P : List Id}
    (h : foldE (t3Vertex A newId) st l = .ok st') (hz : st.zombie = none) (hp : PinOK A st) (hl : ∀ v ∈ l, v ∈ A)
    (hT : T3P A newId st.mesh st.dead P) : st'.zombie = none := by
  induction l generalizing st P with
  | nil => simp only [foldE] at h; cases h; exact hz
  | cons a l ih =>
    simp only [foldE] at h
    split at h
    · cases h
    · rename_i st1 h1
      have hz1 := t3Vertex_zombie_none h1 hz hp
      obtain ⟨t1, t2, _, t4, _, t6⟩ := t3Vertex_inv h1 hz1 (hl a (List.mem_cons_self ..)) hT
      refine ih h hz1 ?_ (fun v hv => hl v (List.mem_cons_of_mem _ hv)) (t2 ▸ t1)
      intro q hq hpin
      rcases t6 q hq with a1 | a1 | a1
      · exact hp q a1 (t4 ▸ hpin)
      · exact fun hh => hT.newNot (a1 ▸ hh.1)
      · exact fun hh => hT.newNot (a1 ▸ hh.2)

/-- `do_t3_transition` on an artefact that does not contain both ends of the pinned mesh edge -/
theorem t3_pin {st st' : St} {A : List Id} (h : t3 st A = .ok st') (hi : InvS st) (hp : PinOK A st) :
    InvS st' ∧ st'.pinned = st.pinned ∧
    (∀ q' ∈ st'.mesh.edges, q' ∈ st.mesh.edges ∨ q'.2.v1 = newVid st ∨ q'.2.v2 = newVid st) ∧
    (∀ k ∈ st.mesh.vertices.map (·.1), k ∈ st'.mesh.vertices.map (·.1)) ∧
    st'.idReused = (st.idReused || (st.mesh.vertex? (newVid st)).isSome) := by
  have h0 := h
  unfold t3 at h
  split at h
  · cases h
  rename_i xs ys hco
  simp only at h
  split at h
  · cases h
  rename_i stb hb
  have hlive := getV_of_coords hco
  have hnew := newVid_not_live st
  have hA : newVid st ∉ A := by
    intro hh
    obtain ⟨vx, hvx⟩ := hlive _ hh
    exact hnew (getV_live hvx).2
  have hT0 := t3_start hi.1 hnew (mean xs) (mean ys) hA
  have h' : foldE markStep stb A = .ok st' := h
  have hzb : stb.zombie = none := foldE_t3Vertex_pin hb hi.2 hp (fun _ hv => hv) hT0
  obtain ⟨t1, t2, t3, t4, t5, t6⟩ := foldE_t3Vertex_inv hb hzb (fun _ hv => hv) hT0
  simp only [List.nil_append] at t1
  have t2' : stb.dead = st.dead.filter (· != newVid st) := t2
  obtain ⟨j1, j2, j3, j4, _, _, _⟩ := markStep_inv h' (fun _ hv => hv) t1 (fun k hk => t2' ▸ hk)
    (fun k hk => List.mem_append_left _ (t2' ▸ hk))
  have hz' : st'.zombie = none := j2.trans hzb
  refine ⟨t3_inv h0 hz' hi, j3.trans t4, ?_, ?_, j4.trans t3⟩
  · rw [j1]; exact t6
  · intro k hk
    rw [j1, t5]
    simp only [mkVertex, List.map_append, List.map_cons, List.map_nil, List.mem_append, List.mem_singleton]
    by_cases hkn : k = newVid st
    · exact Or.inr hkn
    · left
      obtain ⟨p, hp', rfl⟩ := List.mem_map.mp hk
      exact List.mem_map.mpr ⟨p, List.mem_filter.mpr ⟨hp', by simpa using hkn⟩, rfl⟩

theorem t3_idReused {st st' : St} {A : List Id} (h : t3 st A = .ok st') (hr : st.idReused = true) :
    st'.idReused = true := by
  unfold t3 at h
  split at h
  · cases h
  simp only at h
  split at h
  · cases h
  rename_i stb hb
  have h' : foldE markStep stb A = .ok st' := h
  have h1 : stb.idReused = true := by
    refine foldE_inv (fun x : St => x.idReused = true) ?_ hb (by simp [hr])
    intro b a b' hb' hP
    obtain ⟨vx, st1, m2, m3, _, _, h1, _, _, rfl⟩ := t3Vertex_cases hb'
    have : st1.idReused = b.idReused :=
      foldE_inv (fun x : St => x.idReused = b.idReused)
        (fun _ _ _ hb hP => (St_delEdge_dead_pinned hb).2.2.trans hP) h1 rfl
    exact this.trans hP
  refine foldE_inv (fun x : St => x.idReused = true) ?_ h' h1
  intro b a b' hb' hP
  unfold markStep at hb'
  split at hb'
  · cases hb'
  · split at hb' <;> (cases hb'; exact hP)

/-- `for artifact in artifacts: self.do_t3_transition(artifact)` when finding D16's predicate is false and no
    vertex id is used twice -/
theorem foldE_t3_pin {groups : List (List Id)} {st st' : St} (h : foldE t3 st groups = .ok st')
    (hi : InvS st) (hp : ∀ g ∈ groups, PinOK g st)
    (hk : ∀ g ∈ groups, ∀ x ∈ g, x ∈ st.mesh.vertices.map (·.1)) (hr : st'.idReused = false) : InvS st' := by
  induction groups generalizing st with
  | nil => simp only [foldE] at h; cases h; exact hi
  | cons a l ih =>
    simp only [foldE] at h
    split at h
    · cases h
    · rename_i st1 h1
      obtain ⟨p1, p2, p3, p4, p5⟩ := t3_pin h1 hi (hp a (List.mem_cons_self ..))
      have hr1 : st1.idReused = false := by
        by_contra hcon
        have : st'.idReused = true :=
          foldE_inv (fun x : St => x.idReused = true) (fun _ _ _ hb hP => t3_idReused hb hP) h (by simpa using hcon)
        rw [hr] at this; cases this
      have hfresh : newVid st ∉ st.mesh.vertices.map (·.1) := by
        rw [p5] at hr1
        simp only [Bool.or_eq_false_iff] at hr1
        intro hh
        have := (alGet?_isSome_iff (newVid st) st.mesh.vertices).mpr hh
        simp only [Mesh.vertex?] at hr1
        rw [this] at hr1
        exact absurd hr1.2 (by simp)
      apply ih h p1
      · intro g hg q hq hpin
        have hgn : newVid st ∉ g := fun hh => hfresh (hk g (List.mem_cons_of_mem _ hg) _ hh)
        rcases p3 q hq with a1 | a1 | a1
        · exact hp g (List.mem_cons_of_mem _ hg) q a1 (p2 ▸ hpin)
        · exact fun hh => hgn (a1 ▸ hh.1)
        · exact fun hh => hgn (a1 ▸ hh.2)
      · intro g hg x hx
        exact p4 x (hk g (List.mem_cons_of_mem _ hg) x hx)

end Skel
end Forsys

namespace Forsys
namespace Skel
open Mesh

/-! ### the artefact groups are made of keys of the vertices dict -/

theorem mem_insertSorted {a x : Id} {l : List Id} : x ∈ insertSorted a l ↔ x = a ∨ x ∈ l := by
  induction l with
  | nil => simp [insertSorted]
  | cons b l ih =>
    simp only [insertSorted]
    split
    · simp
    · simp only [List.mem_cons, ih]
      constructor
      · rintro (h | h | h)
        · exact Or.inr (Or.inl h)
        · exact Or.inl h
        · exact Or.inr (Or.inr h)
      · rintro (h | h | h)
        · exact Or.inr (Or.inl h)
        · exact Or.inl h
        · exact Or.inr (Or.inr h)

theorem mem_sortIds {x : Id} {l : List Id} : x ∈ sortIds l ↔ x ∈ l := by
  induction l with
  | nil => simp [sortIds]
  | cons a l ih =>
    have : sortIds (a :: l) = insertSorted a (sortIds l) := rfl
    rw [this, mem_insertSorted, ih]; simp

theorem getArtifacts_keys {st : St} (hK : KeysP st.mesh) (external : List Id) :
    ∀ x ∈ getArtifacts st external, x ∈ st.mesh.vertices.map (·.1) := by
  intro x hx
  unfold getArtifacts at hx
  simp only at hx
  rw [List.mem_eraseDups, mem_sortIds] at hx
  have hx := (List.mem_filter.mp hx).1
  obtain ⟨p, hp, rfl⟩ := List.mem_map.mp hx
  have hp1 := (List.mem_filter.mp hp).1
  have hp2 : p ∈ st.mesh.vertices := (List.mem_filter.mp hp1).1
  exact List.mem_map.mpr ⟨p, hp2, hK.1 p hp2⟩

theorem addVerticesToCurrent_sub {st : St} {all cur cur' : List Id}
    (h : addVerticesToCurrent st all cur = .ok cur') : ∀ x ∈ cur', x ∈ cur ∨ x ∈ all := by
  unfold addVerticesToCurrent at h
  split at h
  · cases h
  rename_i v0 _
  split at h
  · cases h
  rename_i vx _
  refine foldE_inv (fun c : List Id => ∀ x ∈ c, x ∈ cur ∨ x ∈ all) ?_ h (fun x hx => Or.inl hx)
  intro b a b' hb hP
  simp only at hb
  split at hb
  · cases hb
  · rename_i e _
    split at hb
    · cases hb
    · repeat' (split at hb)
      all_goals first
        | (cases hb; exact hP)
        | (rename_i hc; cases hb; intro x hx
           rcases List.mem_append.mp hx with hx | hx
           · exact hP x hx
           · simp only [List.mem_singleton] at hx
             subst hx
             simp only [Bool.and_eq_true, List.contains_eq_mem, decide_eq_true_eq] at hc
             exact Or.inr hc.1)

theorem groupArtifacts_sub {fuel : Nat} {st : St} {all : List Id} {gs : List (List Id)}
    (h : groupArtifacts fuel st all = .ok gs) : ∀ g ∈ gs, ∀ x ∈ g, x ∈ all := by
  induction fuel generalizing all gs with
  | zero => simp only [groupArtifacts] at h; cases h; simp
  | succ n ih =>
    cases all with
    | nil => simp only [groupArtifacts] at h; cases h; simp
    | cons a rest =>
      simp only [groupArtifacts] at h
      split at h
      · cases h
      · rename_i cur hcur
        split at h
        · cases h
        · rename_i gs' hgs
          cases h
          intro g hg x hx
          rcases List.mem_cons.mp hg with rfl | hg
          · rcases addVerticesToCurrent_sub hcur x hx with h1 | h1
            · simp only [List.mem_singleton] at h1; subst h1; exact List.mem_cons_self ..
            · exact h1
          · exact (List.mem_filter.mp (ih hgs g hg x hx)).1

/-- the second component of `cleanup` is false: the pinned mesh edge was not deleted by the inner-triangle loop
    and does not have both ends in one artefact group -/
theorem pinOK_of_d16 {st : St} {groups : List (List Id)} (hK : KeysP st.mesh) (h : d16Pred st groups = false) :
    st.zombie = none ∧ ∀ g ∈ groups, PinOK g st := by
  unfold d16Pred at h
  simp only [Bool.or_eq_false_iff] at h
  refine ⟨by simpa using h.1, ?_⟩
  intro g hg q hq hpin
  have he : st.mesh.edge? q.1 = some q.2 := alGet?_of_mem hK.2.2.2.2.1 hq
  have h2 := h.2
  rw [hpin] at h2
  simp only [Option.bind_some, he, List.any_eq_false, Bool.and_eq_true, List.contains_eq_mem,
    decide_eq_true_eq] at h2
  exact h2 g hg

/-! ### `create_lattice` after the first loop -/

/-- the state handed to the inner-triangle loop -/
def st0 (m0 : Mesh) : St :=
  { mesh := m0, dead := [], pinned := (m0.edges.getLast?.map (·.1)), zombie := none, idReused := false }

/-- the stages of a successful `cleanup` -/
theorem cleanup_stages {m0 : Mesh} {l : Lattice} {flag : Bool} (h : cleanup m0 = (.ok l, flag)) :
    ∃ st1 groups st2 st3 b iso, triangles (st0 m0) m0.bigEdgesList = .ok st1 ∧
      groupArtifacts ((getArtifacts st1 (externalEdges m0)).length + 1) st1 (getArtifacts st1 (externalEdges m0))
        = .ok groups ∧
      flag = d16Pred st1 groups ∧ foldE t3 st1 groups = .ok st2 ∧
      foldE isolatedStep (st2, true, []) st2.mesh.cells = .ok (st3, b, iso) ∧
      l.mesh = finalMesh { st3.release with mesh := iso.foldl (fun m c => m.delCell c) st3.release.mesh } ∧
      l.isolated = iso ∧ l.idReused = st3.release.idReused ∧ l.triangleDeleted = st1.dead ∧ l.artifacts = groups := by
  unfold cleanup at h
  simp only at h
  split at h
  · cases h
  rename_i st1 h1
  split at h
  · cases h
  rename_i groups hg
  split at h
  · cases h
  rename_i st2 h2
  split at h
  · cases h
  rename_i st3 b iso h3
  cases h
  exact ⟨st1, groups, st2, st3, b, iso, h1, hg, rfl, h2, h3, rfl, rfl, rfl, rfl, rfl⟩

theorem isolatedStep_idReused {acc acc' : St × Bool × List Id} {c : Id × Cell} (h : isolatedStep acc c = .ok acc') :
    acc'.1.idReused = acc.1.idReused := by
  rcases isolatedStep_cases h with rfl | ⟨a, ha, rfl⟩
  · rfl
  · unfold isoInner at ha
    refine foldE_inv (fun x : St × Bool => x.1.idReused = acc.1.idReused) ?_ ha rfl
    intro b v b' hb hP
    simp only at hb
    split at hb
    · cases hb
    · rename_i st' hl
      cases hb
      simp only
      rw [← hP, ← (liveDel_pinned hl).2.2]
      split <;> rfl

/-- everything `finalMesh` needs but the cycle clause, from the invariant without the reference clause -/
theorem finalMesh_of_inv0 {st : St} (h : Inv0P st.mesh st.dead st.dead) :
    (finalMesh st).keysOk = true ∧ (finalMesh st).ownEdgesOk = true ∧ (finalMesh st).ownCellsOk = true ∧
      (finalMesh st).cellsNodup = true := by
  rw [keysOk_iff, ownEdgesOk_iff, ownCellsOk_iff, cellsNodup_iff, finalMesh_keysP, finalMesh_ownEdgesP,
    finalMesh_ownCellsP, finalMesh_cellsNodupP]
  exact ⟨restrict_keysP _ h.K, h.E, h.C, h.N⟩

theorem finalMesh_refs {st : St} (h : RefsLiveP st.mesh st.dead) : (finalMesh st).refsOk = true := by
  rw [refsOk_iff, finalMesh_refsP]; exact h

/-- `create_lattice` after the first loop, when finding D16's predicate is false and no vertex id is used twice:
    the dictionaries returned are consistent, up to the cycle clause and — when cells were removed as isolated — up to
    the reference clause -/
theorem cleanup_dicts' {m0 : Mesh} {l : Lattice} (h : cleanup m0 = (.ok l, false)) (hc : m0.Consistent = true)
    (hr : l.idReused = false) :
    l.mesh.keysOk = true ∧ l.mesh.ownEdgesOk = true ∧ l.mesh.ownCellsOk = true ∧ l.mesh.cellsNodup = true ∧
      (l.isolated = [] → l.mesh.refsOk = true) := by
  obtain ⟨st1, groups, st2, st3, b, iso, h1, hg, hflag, h2, h3, hm, hiso, hid, _, _⟩ := cleanup_stages h
  have hi0 : InvS (st0 m0) := (inv_iff _).mp (inv_of_consistent' m0 _ false hc)
  -- the pinned mesh edge survives the inner-triangle loop
  have hK1pre : st1.zombie = none := by
    have := hflag.symm
    unfold d16Pred at this
    simp only [Bool.or_eq_false_iff] at this
    simpa using this.1
  have hi1 : InvS st1 := triangles_inv h1 hK1pre hi0
  obtain ⟨_, hpin⟩ := pinOK_of_d16 hi1.1.K hflag.symm
  have hkeys : ∀ g ∈ groups, ∀ x ∈ g, x ∈ st1.mesh.vertices.map (·.1) := fun g hg' x hx =>
    getArtifacts_keys hi1.1.K _ x (groupArtifacts_sub hg g hg' x hx)
  -- `idReused` of the result is that of the state after the T3 transitions
  have hiso3 := foldE_isolatedStep_inv (acc := (st2, true, [])) h3
  have hr2 : st2.idReused = false := by
    have e1 : st3.idReused = st2.idReused :=
      foldE_inv (fun x : St × Bool × List Id => x.1.idReused = st2.idReused)
        (fun _ _ _ hb hP => (isolatedStep_idReused hb).trans hP) h3 rfl
    rw [← e1, ← release_idReused, ← hid]; exact hr
  have hi2 : InvS st2 := foldE_t3_pin h2 hi1 hpin hkeys hr2
  obtain ⟨⟨hI3, _⟩, _⟩ := hiso3 ⟨hi2.inv0, Or.inl rfl⟩
  obtain ⟨hI4, hd4, _⟩ := release_inv0 hI3
  have hI5 : Inv0P (iso.foldl (fun m c => m.delCell c) st3.release.mesh) st3.release.dead st3.release.dead :=
    foldl_delCell_inv0P iso hI4.1
  rw [hm]
  obtain ⟨a1, a2, a3, a4⟩ := finalMesh_of_inv0
    (st := { st3.release with mesh := iso.foldl (fun m c => m.delCell c) st3.release.mesh }) hI5
  refine ⟨a1, a2, a3, a4, ?_⟩
  intro hnil
  rw [hiso] at hnil
  subst hnil
  have := foldE_isolatedStep_nil h3 rfl
  cases this
  apply finalMesh_refs
  simp only [List.foldl_nil]
  rw [release_mesh hi2.2, release_dead]
  exact hi2.1.R

end Skel
end Forsys

namespace Forsys
namespace Mesh

/-! ### Boolean forms used in the statements of Props/C15cleanup.lean -/

/-- `k` is a key of the vertices dict (`dead`: the keys deleted so far) -/
def liveKey (m : Mesh) (dead : List Id) (k : Id) : Bool := (m.vertex? k).isSome && !dead.contains k

/-- every mesh edge and every cell refers to keys of the vertices dict only -/
def refsLive (m : Mesh) (dead : List Id) : Bool :=
  m.edges.all (fun p => m.liveKey dead p.2.v1 && m.liveKey dead p.2.v2) &&
    m.cells.all (fun p => p.2.verts.all (m.liveKey dead))

/-- keys, clause (1) on the vertices whose key is not in `dE`, clause (2) on those not in `dC`, clause (4) -/
def dicts (m : Mesh) (dE dC : List Id) : Bool :=
  m.keysOk && (m.restrict dE).ownEdgesOk && (m.restrict dC).ownCellsOk && m.cellsNodup

theorem liveKey_iff (m : Mesh) (d : List Id) (k : Id) : m.liveKey d k = true ↔ LiveK m d k := by
  simp only [liveKey, Bool.and_eq_true, Mesh.vertex?, alGet?_isSome_iff, LiveK]
  simp

theorem refsLive_iff' (m : Mesh) (d : List Id) : m.refsLive d = true ↔ RefsLiveP m d := by
  simp only [refsLive, RefsLiveP, Bool.and_eq_true, List.all_eq_true, liveKey_iff]

theorem dicts_iff (m : Mesh) (dE dC : List Id) : m.dicts dE dC = true ↔ Inv0P m dE dC := by
  simp only [dicts, Bool.and_eq_true, keysOk_iff, ownEdgesOk_iff, ownCellsOk_iff, cellsNodup_iff]
  constructor
  · rintro ⟨⟨⟨a, b⟩, c⟩, d⟩; exact ⟨a, b, c, d⟩
  · rintro ⟨a, b, c, d⟩; exact ⟨⟨⟨a, b⟩, c⟩, d⟩

end Mesh
namespace Skel
open Mesh

/-- the invariant without the reference clause -/
def St.Inv0 (st : St) : Bool := st.mesh.dicts st.dead st.dead && st.zombie.isNone

theorem inv0_iff (st : St) : st.Inv0 = true ↔ Inv0S st := by
  simp only [St.Inv0, Bool.and_eq_true, dicts_iff, Option.isNone_iff_eq_none, Inv0S]

theorem invS_iff (st : St) : st.Inv = true ↔ InvS st := inv_iff st

theorem refsLive_eq (st : St) : st.refsLive = st.mesh.refsLive st.dead := rfl

theorem inv_split (st : St) : st.Inv = true ↔ st.Inv0 = true ∧ st.refsLive = true := by
  rw [inv_iff, inv0_iff, refsLive_iff]
  constructor
  · rintro ⟨h, z⟩; exact ⟨⟨h.inv0, z⟩, h.R⟩
  · rintro ⟨⟨h, z⟩, r⟩; exact ⟨h.inv r, z⟩

/-- the pinned mesh edge does not have both ends in `A` (for one artefact group: the negation of `d16Pred`) -/
def St.pinFree (st : St) (A : List Id) : Bool :=
  match st.pinned.bind st.mesh.edge? with
  | some pe => !(A.contains pe.v1 && A.contains pe.v2)
  | none => true

theorem pinOK_of_pinFree {st : St} {A : List Id} (hK : KeysP st.mesh) (h : st.pinFree A = true) : PinOK A st := by
  intro q hq hpin
  have he : st.mesh.edge? q.1 = some q.2 := alGet?_of_mem hK.2.2.2.2.1 hq
  unfold St.pinFree at h
  rw [hpin] at h
  simp only [Option.bind_some, he, Bool.not_eq_true', Bool.and_eq_false_iff, List.contains_eq_mem,
    decide_eq_false_iff_not] at h
  rintro ⟨h1, h2⟩
  rcases h with h | h
  · exact h h1
  · exact h h2

/-! ### the remaining elementary facts -/

/-- deleting the pinned mesh edge breaks clause (1): its ends still list it -/
theorem delEdge_pinned_breaks {st st' : St} {k : Id} (h : st.delEdge k = .ok st') (hp : st.pinned = some k)
    (hi : InvS st) : ¬ OwnEdgesP (st'.mesh.restrict st'.dead) := by
  obtain ⟨e, he, h1 | h1⟩ := St_delEdge_cases h
  · intro hE
    rw [h1.2] at hE
    have hem : (k, e) ∈ st.mesh.edges := alGet?_some_mem he
    have hk : k = e.id := hi.1.K.2.1 _ hem
    obtain ⟨hl, _⟩ := hi.1.R.1 _ hem
    obtain ⟨p, hp', hpk⟩ := List.mem_map.mp ((restrict_keys st.mesh st.dead _).mpr hl)
    have hpid : p.1 = p.2.id := hi.1.K.1 p (mem_restrict.mp hp').1
    have hlisted : e.id ∈ p.2.ownEdges := (hi.1.E p hp').2.1 (k, e) hem (Or.inl (by rw [← hpid]; exact hpk.symm))
    obtain ⟨ed, hed, _⟩ := (hE p hp').1 e.id hlisted
    simp only [restrict_edges, dropEdge] at hed
    rw [← hk, alGet?_filter_self] at hed
    cases hed
  · exact absurd hp h1.1

theorem delEdge_pinned_rest {st st' : St} {k : Id} (h : st.delEdge k = .ok st') (hp : st.pinned = some k)
    (hi : InvS st) : KeysP st'.mesh ∧ OwnCellsP (st'.mesh.restrict st'.dead) ∧ RefsLiveP st'.mesh st'.dead ∧
      CellsNodupP st'.mesh ∧ st'.zombie ≠ none := by
  obtain ⟨e, he, h1 | h1⟩ := St_delEdge_cases h
  · rw [h1.2]
    exact ⟨dropEdge_keysP hi.1.K k, hi.1.C, dropEdge_refsLiveP hi.1.R k, hi.1.N, by simp⟩
  · exact absurd hp h1.1

theorem release_restores {st st' : St} {k : Id} (h : st.delEdge k = .ok st') (hp : st.pinned = some k)
    (hi : InvS st) : InvS st'.release ∧ st'.release.mesh = st.mesh.delEdge k := by
  rw [release_after_pinned h hp hi.1.K]
  exact ⟨⟨delEdge_invP hi.1 k, rfl⟩, rfl⟩

theorem St_delEdge_inv {st st' : St} {k : Id} (h : st.delEdge k = .ok st') (hp : st.pinned ≠ some k)
    (hi : InvS st) : InvS st' := by
  rw [St_delEdge_unpinned h hp]
  exact ⟨delEdge_invP hi.1 k, hi.2⟩

theorem edgeReplace_moves {m m' : Mesh} {eid vold vnew : Id} {e : SEdge} (hK : KeysP m)
    (h : edgeReplace m eid vold vnew = .ok m') (he : alGet? eid m.edges = some e) (hone : OneEnd vold e)
    (hne : vold ≠ vnew) :
    ∃ e', alGet? eid m'.edges = some e' ∧ (e'.v1 = vnew ∨ e'.v2 = vnew) ∧ e'.v1 ≠ vold ∧ e'.v2 ≠ vold := by
  obtain ⟨_, _, rfl⟩ := edgeReplace_ok h
  rw [edgeRV_edges m eid vold vnew hK.2.2.2.2.1,
    alGet?_map_snd eid m.edges (fun k ed => if k = eid then sub vold vnew ed else ed), he]
  refine ⟨_, by simp, (ends_new hone vnew).mpr (Or.inl rfl), ?_, ?_⟩
  · intro hh
    rcases (ends_new hone vold).mp (Or.inl hh) with h' | h'
    · exact hne h'
    · exact other_ne hone h'.symm
  · intro hh
    rcases (ends_new hone vold).mp (Or.inr hh) with h' | h'
    · exact hne h'
    · exact other_ne hone h'.symm

theorem oneEnd_of_xor {vold : Id} {e : SEdge} (h : ((e.v1 == vold) != (e.v2 == vold)) = true) : OneEnd vold e := by
  unfold OneEnd
  by_cases h1 : e.v1 = vold <;> by_cases h2 : e.v2 = vold <;> simp_all

/-! ### `finalMesh` on a state that satisfies the invariant -/

theorem finalMesh_consistent' (st : St) (h : st.Inv = true) (hj : st.mesh.cyclesJoined = true) :
    (finalMesh st).Consistent = true := by
  obtain ⟨hi, _⟩ := (inv_iff st).mp h
  rw [consistent_iff, finalMesh_keysP, finalMesh_ownEdgesP, finalMesh_ownCellsP, finalMesh_refsP,
    finalMesh_cellsNodupP, finalMesh_cyclesJoinedP]
  exact ⟨restrict_keysP _ hi.K, hi.E, hi.C, hi.R, hi.N, (cyclesJoined_iff _).mp hj⟩

/-! ### the sub-case without triangle, artefact and isolated cell -/

/-- a step of the inner-triangle loop either leaves the state alone or deletes a vertex key -/
theorem triStep_dead {bigs : List (List Id)} {sv sv' : St × List (Id × Id)} {k : Id × Id}
    (h : triStep bigs sv k = .ok sv') :
    sv.1.dead.length ≤ sv'.1.dead.length ∧ (sv'.1.dead.length = sv.1.dead.length → sv'.1 = sv.1) := by
  rcases triStep_cases h with rfl | ⟨vdel, vx, tid, m1, st2, _, _, _, hl, rfl⟩
  · exact ⟨le_refl _, fun _ => rfl⟩
  · have : st2.dead = sv.1.dead :=
      foldE_inv (fun x : St => x.dead = sv.1.dead) (fun _ _ _ hb hP => (St_delEdge_dead_pinned hb).1.trans hP) hl rfl
    simp only [List.length_append, List.length_cons, List.length_nil, this]
    exact ⟨by omega, fun hh => by omega⟩

theorem triangles_nothing {st st' : St} {bigs : List (List Id)} (h : triangles st bigs = .ok st')
    (hd : st'.dead.length = st.dead.length) : st' = st := by
  unfold triangles at h
  split at h
  · cases h
  · rename_i sv hf
    cases h
    have key : ∀ (l : List (Id × Id)) (a b : St × List (Id × Id)), foldE (triStep bigs) a l = .ok b →
        b.1.dead.length = a.1.dead.length → b.1 = a.1 := by
      intro l
      induction l with
      | nil => intro a b hab _; simp only [foldE] at hab; cases hab; rfl
      | cons x l ih =>
        intro a b hab hlen
        simp only [foldE] at hab
        split at hab
        · cases hab
        · rename_i a1 h1
          have m1 := (triStep_dead h1).1
          have m2 : a1.1.dead.length ≤ b.1.dead.length :=
            foldE_inv (fun y : St × List (Id × Id) => a1.1.dead.length ≤ y.1.dead.length)
              (fun _ _ _ hb hP => le_trans hP (triStep_dead hb).1) hab (le_refl _)
          have e1 : a1.1 = a.1 := (triStep_dead h1).2 (by omega)
          rw [← e1]
          exact ih a1 b hab (by rw [e1]; exact hlen)
    exact key _ _ _ hf hd

/-- the clean-up had nothing to do: no vertex removed by the inner-triangle loop, no artefact group, no isolated cell -/
theorem cleanup_identity' {m0 : Mesh} {l : Lattice} (h : (cleanup m0).1 = .ok l) (hc : m0.Consistent = true)
    (ht : l.triangleDeleted = []) (ha : l.artifacts = []) (hiso : l.isolated = []) :
    l.mesh = finalMesh (st0 m0) ∧ l.mesh.Consistent = true := by
  have h' : cleanup m0 = (.ok l, (cleanup m0).2) := Prod.ext h rfl
  obtain ⟨st1, groups, st2, st3, b, iso, h1, hg, _, h2, h3, hm, hi, _, htd, hart⟩ := cleanup_stages h'
  have e1 : st1 = st0 m0 := triangles_nothing h1 (by rw [← htd, ht]; rfl)
  subst e1
  rw [ha] at hart
  subst hart
  simp only [foldE] at h2
  cases h2
  rw [hiso] at hi
  subst hi
  have := foldE_isolatedStep_nil h3 rfl
  cases this
  have hz : (st0 m0).zombie = none := rfl
  have e2 : ({ (st0 m0).release with mesh := ([] : List Id).foldl (fun m c => m.delCell c) (st0 m0).release.mesh } : St)
      = { st0 m0 with pinned := none } := by
    rw [release_of_zombie_none hz]; rfl
  rw [e2] at hm
  have e3 : finalMesh { st0 m0 with pinned := none } = finalMesh (st0 m0) := rfl
  rw [e3] at hm
  refine ⟨hm, ?_⟩
  rw [hm]
  exact finalMesh_consistent' _ (inv_of_consistent' m0 _ false hc)
    (by simp only [Mesh.Consistent, Bool.and_eq_true] at hc; exact hc.2)

/-- in particular when there is no pair of interfaces with the same ends and no artefact vertex -/
theorem cleanup_identity_of_empty {m0 : Mesh} {l : Lattice} (h : (cleanup m0).1 = .ok l)
    (ht : dupKeys (firstLast m0.bigEdgesList) = []) (ha : getArtifacts (st0 m0) (externalEdges m0) = []) :
    l.triangleDeleted = [] ∧ l.artifacts = [] := by
  have h' : cleanup m0 = (.ok l, (cleanup m0).2) := Prod.ext h rfl
  obtain ⟨st1, groups, st2, st3, b, iso, h1, hg, _, _, _, _, _, _, htd, hart⟩ := cleanup_stages h'
  have e1 : st1 = st0 m0 := by
    unfold triangles at h1
    rw [ht] at h1
    simp only [foldE] at h1
    cases h1; rfl
  subst e1
  rw [ha] at hg
  simp only [groupArtifacts] at hg
  cases hg
  exact ⟨htd, hart⟩

end Skel
end Forsys
