/- helper definitions and lemmas for Props/C01tissue.lean -/
import ForsysModel.Props.C01matrix
import ForsysModel.Props.C03matrix
import Mathlib.Tactic.FieldSimp
import Mathlib.Tactic.LinearCombination
import Mathlib.Tactic.Positivity
namespace Forsys
namespace FMInput

/-! ### vocabulary -/

/-- vertex ids of the interface in column `c` (`big_edges_to_use[c]`) -/
abbrev colIds (inp : FMInput) (c : Nat) : List Id := inp.build.used.getD c []

/-- its points, in the same order -/
abbrev colPts (inp : FMInput) (c : Nat) : List Pt := (inp.colIds c).map inp.mesh.pt

/-- its fitted circle centre (the entry of `inp.centers` that `tangentAt` reads) -/
abbrev colCentre (inp : FMInput) (c : Nat) : Pt :=
  inp.centers.getD ((inp.usedIdx inp.earr).getD c 0) default

/-- interface `c` is an exact arc or a straight two-point segment, as far as its two ends are concerned:
    it has at least two points;
    two points `p, q`: the segment has the rational length `ℓ c` (`ℓ c > 0`, `(ℓ c)² = |p − q|²`; hence `p ≠ q`);
    otherwise: both end points lie on the circle of radius `ρ c > 0` about the fitted centre -/
def ArcCol (inp : FMInput) (ρ ℓ : Nat → Rat) (c : Nat) : Prop :=
  2 ≤ (inp.colIds c).length ∧
  if (inp.colIds c).length = 2 then
    0 < ℓ c ∧ (ℓ c) ^ 2 = distSq ((inp.colPts c).headD default) ((inp.colPts c).getLastD default)
  else
    0 < ρ c ∧ (ρ c) ^ 2 = distSq ((inp.colPts c).headD default) (inp.colCentre c) ∧
      (ρ c) ^ 2 = distSq ((inp.colPts c).getLastD default) (inp.colCentre c)

instance (inp : FMInput) (ρ ℓ : Nat → Rat) (c : Nat) : Decidable (ArcCol inp ρ ℓ c) := by
  unfold ArcCol; infer_instance

/-- every used interface (every unknown) is an exact arc of radius `ρ c` about its fitted centre, or a straight
    two-point segment of length `ℓ c` -/
def ArcTissue (inp : FMInput) (ρ ℓ : Nat → Rat) : Prop :=
  ∀ c, c < inp.build.used.length → ArcCol inp ρ ℓ c

instance (inp : FMInput) (ρ ℓ : Nat → Rat) : Decidable (ArcTissue inp ρ ℓ) := by
  unfold ArcTissue; infer_instance

/-- the sign-agreement hypotheses of `tangentVec_eq_dot_partial`: every non-zero component of the true tangent at `p`
    (circle about `ctr`, oriented along the chord `ch`) has the sign the code forces on it (that of the chord component,
    zero counting as positive) -/
def SignOK (p ctr : Pt) (ch : Vec) : Prop :=
  ((tangentVecDot p ctr ch).x = 0 ∨ ratSign (tangentVecDot p ctr ch).x = forcedSign ch.x) ∧
  ((tangentVecDot p ctr ch).y = 0 ∨ ratSign (tangentVecDot p ctr ch).y = forcedSign ch.y)

instance (p ctr : Pt) (ch : Vec) : Decidable (SignOK p ctr ch) := by
  unfold SignOK; infer_instance

/-- "finding D2 does not strike": at every kept junction and every curved (≠ 2 points) interface ending there, the
    coded per-component sign rule agrees with the true tangent -/
def SignsAgree (inp : FMInput) : Prop :=
  ∀ r ∈ inp.build.rows, r.2.1 = true → ∀ c, c < inp.build.used.length →
    endsAt (inp.colIds c) r.1 = true → (inp.colIds c).length ≠ 2 →
      ∀ x ∈ chordAt (inp.colIds c) (inp.colPts c) r.1, SignOK x.1 (inp.colCentre c) x.2

instance (inp : FMInput) : Decidable (SignsAgree inp) := by
  unfold SignsAgree; infer_instance

/-- the norm of the vector placed for interface `c` (at either end): the segment length for two-point interfaces, the
    radius otherwise -/
def arcLen (inp : FMInput) (ρ ℓ : Nat → Rat) : Id → Nat → Rat :=
  fun _ c => if (inp.colIds c).length = 2 then ℓ c else ρ c

/-- the true unit direction of interface `c` at its end `v`: with `p` the end point and `ch` the chord to the
    neighbouring point of the interface (`chordAt`), `(1/ℓ) • ch` for a two-point interface (`ch = q − p`) and
    `(1/ρ) • tangentVecDot p centre ch` — the tangent of the circle at `p`, oriented along `ch` — otherwise -/
def arcDir (inp : FMInput) (ρ ℓ : Nat → Rat) : Id → Nat → Vec :=
  fun v c => match chordAt (inp.colIds c) (inp.colPts c) v with
    | some (p, ch) =>
      if (inp.colIds c).length = 2 then Vec.smul (1 / ℓ c) ch
      else Vec.smul (1 / ρ c) (tangentVecDot p (inp.colCentre c) ch)
    | none => ⟨0, 0⟩

/-! ### the end of an interface -/

/-- at an end `v` of an interface with at least two points `chordAt` finds the end point — the first or the last
    point — and a chord; for a two-point interface the chord joins the two points -/
theorem chordAt_of_endsAt (ids : List Id) (f : Id → Pt) (v : Id) (h2 : 2 ≤ ids.length)
    (he : endsAt ids v = true) :
    ∃ p ch, chordAt ids (ids.map f) v = some (p, ch) ∧
      (p = (ids.map f).headD default ∨ p = (ids.map f).getLastD default) ∧
      (ids.length = 2 → ch.normSq = distSq ((ids.map f).headD default) ((ids.map f).getLastD default)) := by
  obtain ⟨i0, i1, ir, hi⟩ := exists_two ids h2
  obtain ⟨j0, j1, jr, hj⟩ := exists_two ids.reverse (by simpa using h2)
  have hp : ids.map f = f i0 :: f i1 :: ir.map f := by rw [hi]; rfl
  have hq : (ids.map f).reverse = f j0 :: f j1 :: jr.map f := by rw [← List.map_reverse, hj]; rfl
  have hlast : (ids.map f).getLastD default = f j0 := by
    rw [List.getLastD_eq_getLast?, List.getLast?_eq_head?_reverse, hq]; rfl
  have hhead : (ids.map f).headD default = f i0 := by rw [hp]; rfl
  have hlen2 : ids.length = 2 → j0 = i1 ∧ j1 = i0 := by
    intro h
    rw [hi] at h hj
    have : ir = [] := List.length_eq_zero_iff.mp (by simpa using h)
    subst this
    simp only [List.reverse_cons, List.reverse_nil, List.nil_append, List.cons_append, List.cons.injEq] at hj
    exact ⟨hj.1.symm, hj.2.1.symm⟩
  rw [chordAt_eq v hi hp hj hq, hhead, hlast]
  by_cases ha : i0 = v
  · rw [if_pos ha]
    refine ⟨_, _, rfl, Or.inl rfl, ?_⟩
    intro h
    obtain ⟨h1, _⟩ := hlen2 h
    subst h1
    simp only [Vec.normSq, Vec.sub, distSq]; ring
  · have hb : j0 = v := by
      unfold endsAt at he
      simp only [Bool.or_eq_true, beq_iff_eq] at he
      rcases he with he | he
      · rw [hi] at he; simp only [List.head?_cons, Option.some.injEq] at he; exact absurd he ha
      · rw [List.getLast?_eq_head?_reverse, hj] at he; simpa using he
    rw [if_neg ha, if_pos hb]
    refine ⟨_, _, rfl, Or.inr rfl, ?_⟩
    intro h
    obtain ⟨h1, h2'⟩ := hlen2 h
    subst h1 h2'
    simp only [Vec.normSq, Vec.sub, distSq]

/-- everything `assembled_balance` needs at one end of one interface -/
theorem arc_end (inp : FMInput) (ρ ℓ : Nat → Rat) (c : Nat) (v : Id)
    (hcol : ArcCol inp ρ ℓ c) (he : endsAt (inp.colIds c) v = true)
    (hs : (inp.colIds c).length ≠ 2 →
      ∀ x ∈ chordAt (inp.colIds c) (inp.colPts c) v, SignOK x.1 (inp.colCentre c) x.2) :
    0 < arcLen inp ρ ℓ v c ∧
    (inp.tangentAt c v).map Vec.normSq = some ((arcLen inp ρ ℓ v c) ^ 2) ∧
    inp.tangentAt c v = some (Vec.smul (arcLen inp ρ ℓ v c) (arcDir inp ρ ℓ v c)) ∧
    (arcDir inp ρ ℓ v c).normSq = 1 := by
  obtain ⟨h2, hdata⟩ := hcol
  obtain ⟨p, ch, hch, hp, hn⟩ := chordAt_of_endsAt (inp.colIds c) inp.mesh.pt v h2 he
  by_cases hl : (inp.colIds c).length = 2
  · rw [if_pos hl] at hdata
    obtain ⟨hpos, hsq⟩ := hdata
    have hne : ℓ c ≠ 0 := ne_of_gt hpos
    have ht : inp.tangentAt c v = some ch := by
      unfold tangentAt vectorFromVertex
      rw [hch]
      simp only [Option.map_some, if_pos hl]
    have hlen : arcLen inp ρ ℓ v c = ℓ c := by simp only [arcLen, if_pos hl]
    have hdir : arcDir inp ρ ℓ v c = Vec.smul (1 / ℓ c) ch := by simp only [arcDir, hch, if_pos hl]
    rw [hlen, hdir, ht]
    refine ⟨hpos, ?_, ?_, ?_⟩
    · rw [Option.map_some, hn hl, hsq]
    · simp only [Vec.smul, Option.some.injEq]
      field_simp
    · have := hn hl
      rw [← hsq] at this
      simp only [Vec.normSq, Vec.smul] at this ⊢
      field_simp
      linear_combination this
  · rw [if_neg hl] at hdata
    obtain ⟨hpos, hsq1, hsq2⟩ := hdata
    have hne : ρ c ≠ 0 := ne_of_gt hpos
    have hρ : (ρ c) ^ 2 = distSq p (inp.colCentre c) := by
      rcases hp with rfl | rfl
      · exact hsq1
      · exact hsq2
    have hso := hs hl (p, ch) hch
    obtain ⟨h1, h2', h3⟩ := tangentAt_arc inp c v p ch (ρ c) hch hl ⟨hpos, hρ⟩ hso.1 hso.2
    have hlen : arcLen inp ρ ℓ v c = ρ c := by simp only [arcLen, if_neg hl]
    have hdir : arcDir inp ρ ℓ v c = Vec.smul (1 / ρ c) (tangentVecDot p (inp.colCentre c) ch) := by
      simp only [arcDir, hch, if_neg hl]
    rw [hlen, hdir]
    refine ⟨hpos, h2', h3, ?_⟩
    have := tangentVecDot_normSq p (inp.colCentre c) ch
    rw [← hρ] at this
    simp only [Vec.normSq, Vec.smul] at this ⊢
    field_simp
    linear_combination this

/-! ### a chord of a circle is not radial -/

/-- two distinct points `p`, `q` of a circle about `c` that are not antipodal: the chord `q − p` is not parallel to
    the radius at `p` (so the tangent at `p` has a non-zero projection on it) -/
theorem chord_not_radial (p q c : Pt) (hq : distSq q c = distSq p c) (hne : q ≠ p)
    (hanti : q ≠ ⟨2 * c.x - p.x, 2 * c.y - p.y⟩) :
    Vec.dot (Vec.perp (Vec.sub p c)) (Vec.sub q p) ≠ 0 := by
  intro h
  simp only [Vec.dot, Vec.perp, Vec.sub] at h
  simp only [distSq] at hq
  -- S * |d + 2r|² = (2 r·d + S)² + 4 (perp r · d)²  with r = p − c, d = q − p, S = |d|²
  have key : ((q.x - p.x) ^ 2 + (q.y - p.y) ^ 2) *
      ((q.x - (2 * c.x - p.x)) ^ 2 + (q.y - (2 * c.y - p.y)) ^ 2) = 0 := by
    have e1 : 2 * ((p.x - c.x) * (q.x - p.x) + (p.y - c.y) * (q.y - p.y))
        + ((q.x - p.x) ^ 2 + (q.y - p.y) ^ 2) = 0 := by linear_combination hq
    have id1 : ((q.x - p.x) ^ 2 + (q.y - p.y) ^ 2) *
        ((q.x - (2 * c.x - p.x)) ^ 2 + (q.y - (2 * c.y - p.y)) ^ 2)
        = (2 * ((p.x - c.x) * (q.x - p.x) + (p.y - c.y) * (q.y - p.y))
            + ((q.x - p.x) ^ 2 + (q.y - p.y) ^ 2)) ^ 2
          + 4 * (-(p.y - c.y) * (q.x - p.x) + (p.x - c.x) * (q.y - p.y)) ^ 2 := by ring
    rw [id1, e1, h]; ring
  rcases mul_eq_zero.mp key with h0 | h0
  · apply hne
    have hx : q.x - p.x = 0 := by nlinarith [sq_nonneg (q.x - p.x), sq_nonneg (q.y - p.y)]
    have hy : q.y - p.y = 0 := by nlinarith [sq_nonneg (q.x - p.x), sq_nonneg (q.y - p.y)]
    exact Pt.ext' (by linarith) (by linarith)
  · apply hanti
    have hx : q.x - (2 * c.x - p.x) = 0 := by
      nlinarith [sq_nonneg (q.x - (2 * c.x - p.x)), sq_nonneg (q.y - (2 * c.y - p.y))]
    have hy : q.y - (2 * c.y - p.y) = 0 := by
      nlinarith [sq_nonneg (q.x - (2 * c.x - p.x)), sq_nonneg (q.y - (2 * c.y - p.y))]
    exact Pt.ext' (by linarith) (by linarith)

/-! ### the direction is the tangent of the circle -/

/-- at an end of an arc (≠ 2 points) of an `ArcCol` column: the end point `p` is on the circle, and `arcDir` is
    perpendicular to the radius at `p`, has non-negative projection on the first chord `ch` — strictly positive when
    the neighbouring point `q` (`ch = q − p`) is another, non-antipodal point of the circle — and is the only unit
    vector perpendicular to the radius with positive projection on the chord -/
theorem arcDir_tangent (inp : FMInput) (ρ ℓ : Nat → Rat) (c : Nat) (v : Id)
    (hcol : ArcCol inp ρ ℓ c) (he : endsAt (inp.colIds c) v = true) (h3 : (inp.colIds c).length ≠ 2) :
    ∃ p ch, chordAt (inp.colIds c) (inp.colPts c) v = some (p, ch) ∧
      (p = (inp.colPts c).headD default ∨ p = (inp.colPts c).getLastD default) ∧
      (ρ c) ^ 2 = distSq p (inp.colCentre c) ∧
      Vec.dot (arcDir inp ρ ℓ v c) (Vec.sub p (inp.colCentre c)) = 0 ∧
      0 ≤ Vec.dot (arcDir inp ρ ℓ v c) ch ∧
      (∀ q : Pt, ch = Vec.sub q p → distSq q (inp.colCentre c) = distSq p (inp.colCentre c) → q ≠ p →
        q ≠ ⟨2 * (inp.colCentre c).x - p.x, 2 * (inp.colCentre c).y - p.y⟩ →
        0 < Vec.dot (arcDir inp ρ ℓ v c) ch) ∧
      (∀ w : Vec, Vec.dot w (Vec.sub p (inp.colCentre c)) = 0 → w.normSq = 1 → 0 < Vec.dot w ch →
        w = arcDir inp ρ ℓ v c) := by
  obtain ⟨h2, hdata⟩ := hcol
  obtain ⟨p, ch, hch, hp, _⟩ := chordAt_of_endsAt (inp.colIds c) inp.mesh.pt v h2 he
  rw [if_neg h3] at hdata
  obtain ⟨hpos, hsq1, hsq2⟩ := hdata
  have hne : ρ c ≠ 0 := ne_of_gt hpos
  have hρ : (ρ c) ^ 2 = distSq p (inp.colCentre c) := by
    rcases hp with rfl | rfl
    · exact hsq1
    · exact hsq2
  have hdir : arcDir inp ρ ℓ v c = Vec.smul (1 / ρ c) (tangentVecDot p (inp.colCentre c) ch) := by
    simp only [arcDir, hch, if_neg h3]
  have hinv : 0 < 1 / ρ c := by positivity
  have hdot : ∀ u : Vec, Vec.dot (arcDir inp ρ ℓ v c) u
      = (1 / ρ c) * Vec.dot (tangentVecDot p (inp.colCentre c) ch) u := by
    intro u; rw [hdir]; simp only [Vec.dot, Vec.smul]; ring
  refine ⟨p, ch, hch, hp, hρ, ?_, ?_, ?_, ?_⟩
  · rw [hdot, tangentVecDot_perp]; ring
  · rw [hdot]; exact mul_nonneg (le_of_lt hinv) (tangentVecDot_along _ _ _)
  · intro q hq hon hqp hanti
    rw [hdot]
    apply mul_pos hinv
    apply tangentVecDot_along_strict
    rw [hq]
    exact chord_not_radial p q (inp.colCentre c) hon hqp hanti
  · intro w hw1 hw2 hw3
    have hpc : p ≠ inp.colCentre c := by
      intro e
      rw [← e] at hρ
      simp only [distSq] at hρ
      have : (ρ c) ^ 2 = 0 := by rw [hρ]; ring
      exact hne (pow_eq_zero_iff (two_ne_zero) |>.mp this)
    have hu := tangentVecDot_unique p (inp.colCentre c) ch (Vec.smul (ρ c) w) hpc
      (by simp only [Vec.dot, Vec.smul] at hw1 ⊢; linear_combination (ρ c) * hw1)
      (by rw [← hρ]; simp only [Vec.normSq, Vec.smul] at hw2 ⊢; linear_combination (ρ c) ^ 2 * hw2)
      (by have := mul_pos hpos hw3
          simp only [Vec.dot, Vec.smul] at this ⊢; linarith)
    rw [hdir, ← hu]
    simp only [Vec.smul]
    cases w
    simp only [Vec.mk.injEq]
    constructor <;> field_simp

end FMInput
end Forsys
