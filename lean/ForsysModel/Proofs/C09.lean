/- helper lemmas for Props/C09.lean -/
import ForsysModel.Model.Construct
namespace Forsys

/-! ### eraseDups -/

theorem eraseDups_length_le_aux (n : Nat) : ∀ l : List Id, l.length ≤ n → l.eraseDups.length ≤ l.length := by
  induction n with
  | zero => intro l hl; cases l <;> simp_all
  | succ n ih =>
    intro l hl
    cases l with
    | nil => simp
    | cons a t =>
      rw [List.eraseDups_cons]
      simp only [List.length_cons] at *
      have h1 : (t.filter fun b => !b == a).length ≤ t.length := List.length_filter_le _ _
      have := ih (t.filter fun b => !b == a) (by omega)
      omega

theorem eraseDups_length_le (l : List Id) : l.eraseDups.length ≤ l.length :=
  eraseDups_length_le_aux l.length l (Nat.le_refl _)

theorem eraseDups_length_iff_aux (n : Nat) :
    ∀ l : List Id, l.length ≤ n → (l.eraseDups.length = l.length ↔ l.Nodup) := by
  induction n with
  | zero => intro l hl; cases l <;> simp_all
  | succ n ih =>
    intro l hl
    cases l with
    | nil => simp
    | cons a t =>
      rw [List.eraseDups_cons]
      simp only [List.length_cons, List.nodup_cons] at *
      have h1 : (t.filter fun b => !b == a).length ≤ t.length := List.length_filter_le _ _
      have h2 := eraseDups_length_le (t.filter fun b => !b == a)
      constructor
      · intro he
        have h3 : (t.filter fun b => !b == a).length = t.length := by omega
        have h4 : t.filter (fun b => !b == a) = t :=
          List.filter_eq_self.mpr (List.length_filter_eq_length_iff.mp h3)
        rw [h4] at he
        refine ⟨?_, (ih t (by omega)).mp (by omega)⟩
        intro hmem
        have := List.filter_eq_self.mp h4 a hmem
        simp at this
      · intro ⟨hna, hnd⟩
        have h4 : t.filter (fun b => !b == a) = t := by
          apply List.filter_eq_self.mpr
          intro b hb
          have : b ≠ a := fun hba => hna (hba ▸ hb)
          simpa using this
        rw [h4]
        have := (ih t (by omega)).mpr hnd
        omega

theorem eraseDups_length_iff (l : List Id) : l.eraseDups.length = l.length ↔ l.Nodup :=
  eraseDups_length_iff_aux l.length l (Nat.le_refl _)

theorem eraseDups_beq_iff (l : List Id) : (l.eraseDups.length == l.length) = true ↔ l.Nodup := by
  rw [beq_iff_eq]; exact eraseDups_length_iff l

/-! ### association lists -/

theorem keysNodup_iff {β : Type} (l : List (Id × β)) :
    Mesh.keysNodup l = true ↔ (l.map (·.1)).Nodup := by
  induction l with
  | nil => simp [Mesh.keysNodup]
  | cons p r ih =>
    obtain ⟨k, v⟩ := p
    simp only [Mesh.keysNodup, Bool.and_eq_true, ih, List.map_cons, List.nodup_cons]
    simp only [Bool.not_eq_eq_eq_not, Bool.not_true, List.any_eq_false, beq_iff_eq, List.mem_map,
      not_exists, not_and]

theorem alGet?_some_mem {β : Type} {k : Id} {l : List (Id × β)} {v : β}
    (h : alGet? k l = some v) : (k, v) ∈ l := by
  induction l with
  | nil => simp [alGet?] at h
  | cons p r ih =>
    obtain ⟨k', v'⟩ := p
    simp only [alGet?] at h
    split at h
    · simp_all
    · simp [ih h]

theorem alGet?_of_mem {β : Type} {k : Id} {l : List (Id × β)} {v : β}
    (hnd : (l.map (·.1)).Nodup) (h : (k, v) ∈ l) : alGet? k l = some v := by
  induction l with
  | nil => simp at h
  | cons p r ih =>
    obtain ⟨k', v'⟩ := p
    simp only [List.map_cons, List.nodup_cons] at hnd
    simp only [alGet?]
    rcases List.mem_cons.mp h with h' | h'
    · simp only [Prod.mk.injEq] at h'; simp [h'.1, h'.2]
    · have : k ≠ k' := by
        intro hk; subst hk
        exact hnd.1 (List.mem_map.mpr ⟨(k, v), h', rfl⟩)
      simp [this, ih hnd.2 h']

theorem alGet?_isSome_iff {β : Type} (k : Id) (l : List (Id × β)) :
    (alGet? k l).isSome = true ↔ k ∈ l.map (·.1) := by
  induction l with
  | nil => simp [alGet?]
  | cons p r ih =>
    obtain ⟨k', v'⟩ := p
    simp only [alGet?, List.map_cons, List.mem_cons]
    split
    · simp_all
    · simp_all

theorem alGet?_eq_none_iff {β : Type} (k : Id) (l : List (Id × β)) :
    alGet? k l = none ↔ k ∉ l.map (·.1) := by
  rw [← alGet?_isSome_iff]; cases alGet? k l <;> simp

theorem alGet?_append {β : Type} (k : Id) (l l' : List (Id × β)) :
    alGet? k (l ++ l') = (alGet? k l).or (alGet? k l') := by
  induction l with
  | nil => simp [alGet?]
  | cons p r ih =>
    obtain ⟨k', v'⟩ := p
    simp only [List.cons_append, alGet?]
    split <;> simp_all

theorem alGet?_filter_ne {β : Type} (k k0 : Id) (l : List (Id × β)) :
    alGet? k (l.filter fun p => p.1 != k0) = if k = k0 then none else alGet? k l := by
  induction l with
  | nil => simp [alGet?]
  | cons p r ih =>
    obtain ⟨k', v'⟩ := p
    simp only [List.filter_cons]
    by_cases h1 : k' = k0
    · subst h1
      simp only [bne_self_eq_false, Bool.false_eq_true, ↓reduceIte, ih, alGet?]
      split <;> simp_all
    · have : (k' != k0) = true := by simpa using h1
      simp only [this, ↓reduceIte, alGet?, ih]
      split <;> split <;> simp_all

namespace Mesh

/-! ### Prop-level forms of the clauses -/

def KeysP (m : Mesh) : Prop :=
  (∀ p ∈ m.vertices, p.1 = p.2.id) ∧ (∀ p ∈ m.edges, p.1 = p.2.id) ∧ (∀ p ∈ m.cells, p.1 = p.2.id) ∧
  (m.vertices.map (·.1)).Nodup ∧ (m.edges.map (·.1)).Nodup ∧ (m.cells.map (·.1)).Nodup

theorem keysOk_iff (m : Mesh) : m.keysOk = true ↔ KeysP m := by
  simp only [keysOk, KeysP, Bool.and_eq_true, List.all_eq_true, beq_iff_eq, keysNodup_iff]
  constructor
  · rintro ⟨⟨⟨⟨⟨a, b⟩, c⟩, d⟩, e⟩, f⟩; exact ⟨a, b, c, d, e, f⟩
  · rintro ⟨a, b, c, d, e, f⟩; exact ⟨⟨⟨⟨⟨a, b⟩, c⟩, d⟩, e⟩, f⟩

def OwnEdgesP (m : Mesh) : Prop :=
  ∀ p ∈ m.vertices,
    (∀ e ∈ p.2.ownEdges, ∃ ed, alGet? e m.edges = some ed ∧ (ed.v1 = p.2.id ∨ ed.v2 = p.2.id)) ∧
    (∀ q ∈ m.edges, (q.2.v1 = p.2.id ∨ q.2.v2 = p.2.id) → q.2.id ∈ p.2.ownEdges) ∧
    p.2.ownEdges.Nodup

theorem ownEdgesOk_iff (m : Mesh) : m.ownEdgesOk = true ↔ OwnEdgesP m := by
  simp only [ownEdgesOk, OwnEdgesP, List.all_eq_true, Bool.and_eq_true, eraseDups_beq_iff, edge?]
  constructor
  · intro h p hp
    obtain ⟨⟨h1, h2⟩, h3⟩ := h p hp
    refine ⟨?_, ?_, h3⟩
    · intro e he
      have := h1 e he
      split at this
      · rename_i ed hed
        exact ⟨ed, hed, by simpa [edgeEndsAt] using this⟩
      · simp at this
    · intro q hq hends
      have := h2 q hq
      simp only [edgeEndsAt, Bool.or_eq_true, Bool.not_eq_eq_eq_not, Bool.not_true,
        List.contains_eq_mem, decide_eq_true_eq] at this
      rcases this with h | h
      · rcases hends with h' | h' <;> simp [h'] at h
      · exact h
  · intro h p hp
    obtain ⟨h1, h2, h3⟩ := h p hp
    refine ⟨⟨?_, ?_⟩, h3⟩
    · intro e he
      obtain ⟨ed, hed, hends⟩ := h1 e he
      simp [hed, edgeEndsAt, hends]
    · intro q hq
      by_cases hends : q.2.v1 = p.2.id ∨ q.2.v2 = p.2.id
      · simp [h2 q hq hends]
      · simp only [not_or] at hends
        simp [edgeEndsAt, hends.1, hends.2]

def OwnCellsP (m : Mesh) : Prop :=
  ∀ p ∈ m.vertices,
    (∀ c ∈ p.2.ownCells, ∃ cl, alGet? c m.cells = some cl ∧ p.2.id ∈ cl.verts) ∧
    (∀ q ∈ m.cells, p.2.id ∈ q.2.verts → q.2.id ∈ p.2.ownCells) ∧
    p.2.ownCells.Nodup

theorem ownCellsOk_iff (m : Mesh) : m.ownCellsOk = true ↔ OwnCellsP m := by
  simp only [ownCellsOk, OwnCellsP, List.all_eq_true, Bool.and_eq_true, eraseDups_beq_iff, cell?]
  constructor
  · intro h p hp
    obtain ⟨⟨h1, h2⟩, h3⟩ := h p hp
    refine ⟨?_, ?_, h3⟩
    · intro e he
      have := h1 e he
      split at this
      · rename_i ed hed
        exact ⟨ed, hed, by simpa using this⟩
      · simp at this
    · intro q hq hends
      have := h2 q hq
      simpa [hends] using this
  · intro h p hp
    obtain ⟨h1, h2, h3⟩ := h p hp
    refine ⟨⟨?_, ?_⟩, h3⟩
    · intro e he
      obtain ⟨ed, hed, hends⟩ := h1 e he
      simp [hed, hends]
    · intro q hq
      by_cases hends : p.2.id ∈ q.2.verts
      · simp [hends, h2 q hq hends]
      · simp [hends]

def RefsP (m : Mesh) : Prop :=
  (∀ q ∈ m.edges, q.2.same = true ∧ q.2.v1 ∈ m.vertices.map (·.1) ∧ q.2.v2 ∈ m.vertices.map (·.1)) ∧
  (∀ q ∈ m.cells, q.2.same = true ∧ ∀ v ∈ q.2.verts, v ∈ m.vertices.map (·.1))

theorem refsOk_iff (m : Mesh) : m.refsOk = true ↔ RefsP m := by
  simp only [refsOk, RefsP, List.all_eq_true, Bool.and_eq_true, vertex?, alGet?_isSome_iff, and_assoc]

def CellsNodupP (m : Mesh) : Prop := ∀ q ∈ m.cells, q.2.verts.Nodup

theorem cellsNodup_iff (m : Mesh) : m.cellsNodup = true ↔ CellsNodupP m := by
  simp only [cellsNodup, CellsNodupP, List.all_eq_true, eraseDups_beq_iff]

def JoinedP (m : Mesh) (a b : Id) : Prop :=
  ∃ q ∈ m.edges, (q.2.v1 = a ∧ q.2.v2 = b) ∨ (q.2.v1 = b ∧ q.2.v2 = a)

theorem joined_iff (m : Mesh) (a b : Id) : m.joined a b = true ↔ JoinedP m a b := by
  simp only [joined, JoinedP, List.any_eq_true, Bool.or_eq_true, Bool.and_eq_true, beq_iff_eq]

def CyclesJoinedP (m : Mesh) : Prop :=
  ∀ q ∈ m.cells, ∀ ab ∈ cyclicPairs q.2.verts, JoinedP m ab.1 ab.2

theorem cyclesJoined_iff (m : Mesh) : m.cyclesJoined = true ↔ CyclesJoinedP m := by
  simp only [cyclesJoined, CyclesJoinedP, List.all_eq_true, joined_iff]

theorem consistent_iff (m : Mesh) : m.Consistent = true ↔
    KeysP m ∧ OwnEdgesP m ∧ OwnCellsP m ∧ RefsP m ∧ CellsNodupP m ∧ CyclesJoinedP m := by
  simp only [Consistent, Bool.and_eq_true, keysOk_iff, ownEdgesOk_iff, ownCellsOk_iff, refsOk_iff,
    cellsNodup_iff, cyclesJoined_iff, and_assoc]

/-! ### structural lemmas -/

theorem filter_ne_of_not_mem_keys {β : Type} (l : List (Id × β)) (k : Id) (h : k ∉ l.map (·.1)) :
    l.filter (fun p => p.1 != k) = l := by
  apply List.filter_eq_self.mpr
  intro p hp
  have : p.1 ≠ k := fun hk => h (hk ▸ List.mem_map.mpr ⟨p, hp, rfl⟩)
  simpa using this

@[simp] theorem updVertex_edges (m : Mesh) (k : Id) (f : Vertex → Vertex) : (m.updVertex k f).edges = m.edges := rfl
@[simp] theorem updVertex_cells (m : Mesh) (k : Id) (f : Vertex → Vertex) : (m.updVertex k f).cells = m.cells := rfl
theorem updVertex_vertices (m : Mesh) (k : Id) (f : Vertex → Vertex) :
    (m.updVertex k f).vertices = m.vertices.map fun p => (p.1, if p.1 = k then f p.2 else p.2) := by
  simp only [updVertex]
  apply List.map_congr_left
  rintro ⟨k', v⟩ _
  by_cases h : k' = k <;> simp [h]

theorem foldl_updVertex (g : Vertex → Vertex) (vs : List Id) (hnd : vs.Nodup) (m : Mesh) :
    vs.foldl (fun m v => m.updVertex v g) m =
      { m with vertices := m.vertices.map fun p => (p.1, if p.1 ∈ vs then g p.2 else p.2) } := by
  induction vs generalizing m with
  | nil => simp
  | cons v vs ih =>
    simp only [List.nodup_cons] at hnd
    simp only [List.foldl_cons, ih hnd.2, updVertex_vertices, List.map_map, updVertex_edges, updVertex_cells]
    congr 1
    apply List.map_congr_left
    rintro ⟨k', x⟩ _
    by_cases h1 : k' = v
    · subst h1; simp [hnd.1]
    · simp [h1]

theorem addEdgeTo_idem (v : Vertex) (k : Id) : addEdgeTo (addEdgeTo v k) k = addEdgeTo v k := by
  unfold addEdgeTo
  by_cases h : k ∈ v.ownEdges
  · simp [h]
  · simp [h]

theorem mkEdge_vertices (m : Mesh) (k a b : Id) :
    (m.mkEdge k a b).vertices =
      m.vertices.map fun p => (p.1, if p.1 = a ∨ p.1 = b then addEdgeTo p.2 k else p.2) := by
  simp only [mkEdge, updVertex_vertices, List.map_map]
  apply List.map_congr_left
  rintro ⟨k', x⟩ _
  by_cases h1 : k' = a <;> by_cases h2 : k' = b
  · subst h1; subst h2; simp [addEdgeTo_idem]
  · subst h1; have : ¬ k' = b := h2
    simp [this]
  · subst h2; have : ¬ k' = a := h1
    simp [this]
  · simp [h1, h2]

theorem mkEdge_edges (m : Mesh) (k a b : Id) :
    (m.mkEdge k a b).edges = (m.edges.filter fun p => p.1 != k) ++ [(k, { id := k, v1 := a, v2 := b })] := rfl

@[simp] theorem mkEdge_cells (m : Mesh) (k a b : Id) : (m.mkEdge k a b).cells = m.cells := rfl

theorem mkEdge_vkeys (m : Mesh) (k a b : Id) :
    (m.mkEdge k a b).vertices.map (·.1) = m.vertices.map (·.1) := by
  simp [mkEdge_vertices, List.map_map, Function.comp_def]

/-! ### mkEdge -/

def ConsP (m : Mesh) : Prop :=
  KeysP m ∧ OwnEdgesP m ∧ OwnCellsP m ∧ RefsP m ∧ CellsNodupP m ∧ CyclesJoinedP m

theorem OwnEdgesP_of_sim (m m' : Mesh) (he : m'.edges = m.edges)
    (hv : ∀ p' ∈ m'.vertices, ∃ p ∈ m.vertices, p'.2.id = p.2.id ∧ p'.2.ownEdges = p.2.ownEdges)
    (h : OwnEdgesP m) : OwnEdgesP m' := by
  intro p' hp'
  obtain ⟨p, hp, h1, h2⟩ := hv p' hp'
  rw [he, h1, h2]
  exact h p hp

theorem OwnCellsP_of_sim (m m' : Mesh) (he : m'.cells = m.cells)
    (hv : ∀ p' ∈ m'.vertices, ∃ p ∈ m.vertices, p'.2.id = p.2.id ∧ p'.2.ownCells = p.2.ownCells)
    (h : OwnCellsP m) : OwnCellsP m' := by
  intro p' hp'
  obtain ⟨p, hp, h1, h2⟩ := hv p' hp'
  rw [he, h1, h2]
  exact h p hp

theorem addEdgeTo_id (v : Vertex) (k : Id) : (addEdgeTo v k).id = v.id := by
  unfold addEdgeTo; split <;> rfl
theorem addEdgeTo_ownCells (v : Vertex) (k : Id) : (addEdgeTo v k).ownCells = v.ownCells := by
  unfold addEdgeTo; split <;> rfl
theorem addEdgeTo_ownEdges_of_not_mem (v : Vertex) (k : Id) (h : k ∉ v.ownEdges) :
    (addEdgeTo v k).ownEdges = v.ownEdges ++ [k] := by
  unfold addEdgeTo; simp [h]

theorem JoinedP_symm {m : Mesh} {a b : Id} (h : JoinedP m a b) : JoinedP m b a := by
  obtain ⟨q, hq, h⟩ := h
  exact ⟨q, hq, h.symm⟩

/-- own edges reference edge keys -/
theorem OwnEdgesP.mem_keys {m : Mesh} (h : OwnEdgesP m) {p : Id × Vertex} (hp : p ∈ m.vertices)
    {e : Id} (he : e ∈ p.2.ownEdges) : e ∈ m.edges.map (·.1) := by
  obtain ⟨ed, hed, _⟩ := (h p hp).1 e he
  exact List.mem_map.mpr ⟨(e, ed), alGet?_some_mem hed, rfl⟩

theorem mkEdge_ownEdgesP (m : Mesh) (k a b : Id) (hv : ∀ p ∈ m.vertices, p.1 = p.2.id)
    (h : OwnEdgesP m) (hk : k ∉ m.edges.map (·.1)) :
    OwnEdgesP (m.mkEdge k a b) := by
  intro p' hp'
  rw [mkEdge_vertices] at hp'
  obtain ⟨p, hp, rfl⟩ := List.mem_map.mp hp'
  have hkp : k ∉ p.2.ownEdges := fun hh => hk (h.mem_keys hp hh)
  obtain ⟨h1, h2, h3⟩ := h p hp
  have hid := hv p hp
  rw [mkEdge_edges, filter_ne_of_not_mem_keys _ _ hk]
  by_cases hab : p.1 = a ∨ p.1 = b
  · simp only [hab, ↓reduceIte, addEdgeTo_id, addEdgeTo_ownEdges_of_not_mem _ _ hkp]
    refine ⟨?_, ?_, ?_⟩
    · intro e he
      rcases List.mem_append.mp he with he | he
      · obtain ⟨ed, hed, hends⟩ := h1 e he
        exact ⟨ed, by simp [alGet?_append, hed], hends⟩
      · simp only [List.mem_singleton] at he
        subst he
        refine ⟨{ id := e, v1 := a, v2 := b }, ?_, ?_⟩
        · simp [alGet?_append, (alGet?_eq_none_iff _ _).mpr hk, alGet?]
        · simp only; rw [← hid]; rcases hab with h | h <;> simp [h]
    · intro q hq hends
      rcases List.mem_append.mp hq with hq | hq
      · exact List.mem_append_left _ (h2 q hq hends)
      · simp only [List.mem_singleton] at hq
        subst hq; simp
    · rw [List.nodup_append]
      refine ⟨h3, by simp, ?_⟩
      intro x hx y hy
      simp only [List.mem_singleton] at hy
      subst hy
      intro hxy; subst hxy; exact hkp hx
  · simp only [hab, ↓reduceIte]
    refine ⟨?_, ?_, h3⟩
    · intro e he
      obtain ⟨ed, hed, hends⟩ := h1 e he
      exact ⟨ed, by simp [alGet?_append, hed], hends⟩
    · intro q hq hends
      rcases List.mem_append.mp hq with hq | hq
      · exact h2 q hq hends
      · simp only [List.mem_singleton] at hq
        subst hq
        simp only [not_or] at hab
        simp only at hends
        rw [← hid] at hends
        rcases hends with h | h
        · exact absurd h.symm hab.1
        · exact absurd h.symm hab.2

theorem mkEdge_consP (m : Mesh) (k a b : Id) (h : ConsP m) (hk : k ∉ m.edges.map (·.1))
    (ha : a ∈ m.vertices.map (·.1)) (hb : b ∈ m.vertices.map (·.1)) :
    ConsP (m.mkEdge k a b) := by
  obtain ⟨hK, hE, hC, hR, hN, hJ⟩ := h
  have hedges : (m.mkEdge k a b).edges = m.edges ++ [(k, { id := k, v1 := a, v2 := b })] := by
    rw [mkEdge_edges, filter_ne_of_not_mem_keys _ _ hk]
  have hsim : ∀ p' ∈ (m.mkEdge k a b).vertices, ∃ p ∈ m.vertices, p'.1 = p.1 ∧ p'.2.id = p.2.id ∧
      p'.2.ownCells = p.2.ownCells := by
    intro p' hp'
    rw [mkEdge_vertices] at hp'
    obtain ⟨p, hp, rfl⟩ := List.mem_map.mp hp'
    refine ⟨p, hp, rfl, ?_, ?_⟩ <;> (simp only; split <;> simp [addEdgeTo_id, addEdgeTo_ownCells])
  refine ⟨?_, mkEdge_ownEdgesP m k a b hK.1 hE hk, ?_, ?_, ?_, ?_⟩
  · obtain ⟨k1, k2, k3, k4, k5, k6⟩ := hK
    refine ⟨?_, ?_, k3, ?_, ?_, k6⟩
    · intro p' hp'
      obtain ⟨p, hp, e1, e2, _⟩ := hsim p' hp'
      rw [e1, e2]; exact k1 p hp
    · intro q hq
      rw [hedges] at hq
      rcases List.mem_append.mp hq with hq | hq
      · exact k2 q hq
      · simp only [List.mem_singleton] at hq; subst hq; rfl
    · rw [mkEdge_vkeys]; exact k4
    · rw [hedges, List.map_append, List.nodup_append]
      refine ⟨k5, by simp, ?_⟩
      intro x hx y hy
      simp only [List.map_cons, List.map_nil, List.mem_singleton] at hy
      subst hy
      intro hxy; subst hxy; exact hk hx
  · refine OwnCellsP_of_sim m (m.mkEdge k a b) rfl ?_ hC
    intro p' hp'
    obtain ⟨p, hp, _, e2, e3⟩ := hsim p' hp'
    exact ⟨p, hp, e2, e3⟩
  · refine ⟨?_, ?_⟩
    · intro q hq
      rw [hedges] at hq
      rw [mkEdge_vkeys]
      rcases List.mem_append.mp hq with hq | hq
      · exact hR.1 q hq
      · simp only [List.mem_singleton] at hq; subst hq; exact ⟨rfl, ha, hb⟩
    · intro q hq
      rw [mkEdge_vkeys]
      exact hR.2 q hq
  · exact hN
  · intro q hq ab hab
    obtain ⟨e, he, hh⟩ := hJ q hq ab hab
    exact ⟨e, by rw [hedges]; exact List.mem_append_left _ he, hh⟩

/-! ### mkVertex, mkCell -/

theorem mkVertex_consP (m : Mesh) (k : Id) (x y : Rat) (h : ConsP m) (hk : k ∉ m.vertices.map (·.1)) :
    ConsP (m.mkVertex k x y) ∧
    (m.mkVertex k x y).vertices.map (·.1) = m.vertices.map (·.1) ++ [k] ∧
    (m.mkVertex k x y).edges = m.edges ∧ (m.mkVertex k x y).cells = m.cells := by
  obtain ⟨hK, hE, hC, hR, hN, hJ⟩ := h
  have hverts : (m.mkVertex k x y).vertices =
      m.vertices ++ [(k, { id := k, x := x, y := y, ownEdges := [], ownCells := [] })] := by
    simp only [mkVertex, filter_ne_of_not_mem_keys _ _ hk]
  have hedges : (m.mkVertex k x y).edges = m.edges := rfl
  have hcells : (m.mkVertex k x y).cells = m.cells := rfl
  have hvk : (m.mkVertex k x y).vertices.map (·.1) = m.vertices.map (·.1) ++ [k] := by
    rw [hverts]; simp
  refine ⟨⟨?_, ?_, ?_, ?_, hN, ?_⟩, hvk, hedges, hcells⟩
  · obtain ⟨k1, k2, k3, k4, k5, k6⟩ := hK
    refine ⟨?_, k2, k3, ?_, k5, k6⟩
    · intro p hp
      rw [hverts] at hp
      rcases List.mem_append.mp hp with hp | hp
      · exact k1 p hp
      · simp only [List.mem_singleton] at hp; subst hp; rfl
    · rw [hvk, List.nodup_append]
      refine ⟨k4, by simp, ?_⟩
      intro a ha b hb
      simp only [List.mem_singleton] at hb
      subst hb
      intro hab; subst hab; exact hk ha
  · intro p hp
    rw [hverts] at hp
    rw [hedges]
    rcases List.mem_append.mp hp with hp | hp
    · exact hE p hp
    · simp only [List.mem_singleton] at hp; subst hp
      refine ⟨by simp, ?_, by simp⟩
      intro q hq hends
      exfalso
      obtain ⟨_, r1, r2⟩ := hR.1 q hq
      simp only at hends
      rcases hends with h | h
      · exact hk (h ▸ r1)
      · exact hk (h ▸ r2)
  · intro p hp
    rw [hverts] at hp
    rw [hcells]
    rcases List.mem_append.mp hp with hp | hp
    · exact hC p hp
    · simp only [List.mem_singleton] at hp; subst hp
      refine ⟨by simp, ?_, by simp⟩
      intro q hq hin
      exfalso
      exact hk ((hR.2 q hq).2 _ hin)
  · refine ⟨?_, ?_⟩
    · intro q hq
      obtain ⟨r0, r1, r2⟩ := hR.1 q hq
      rw [hvk]
      exact ⟨r0, List.mem_append_left _ r1, List.mem_append_left _ r2⟩
    · intro q hq
      obtain ⟨r0, r1⟩ := hR.2 q hq
      rw [hvk]
      exact ⟨r0, fun v hv => List.mem_append_left _ (r1 v hv)⟩
  · exact hJ

theorem addCellTo_id (v : Vertex) (k : Id) : (addCellTo v k).id = v.id := by
  unfold addCellTo; split <;> rfl
theorem addCellTo_ownEdges (v : Vertex) (k : Id) : (addCellTo v k).ownEdges = v.ownEdges := by
  unfold addCellTo; split <;> rfl
theorem addCellTo_ownCells_of_not_mem (v : Vertex) (k : Id) (h : k ∉ v.ownCells) :
    (addCellTo v k).ownCells = v.ownCells ++ [k] := by
  unfold addCellTo; simp [h]

theorem mkCell_vertices (m : Mesh) (k : Id) (verts : List Id) (hnd : verts.Nodup) :
    (m.mkCell k verts).vertices =
      m.vertices.map fun p => (p.1, if p.1 ∈ verts then addCellTo p.2 k else p.2) := by
  simp only [mkCell]
  rw [foldl_updVertex (fun x => addCellTo x k) verts hnd m]

theorem mkCell_edges (m : Mesh) (k : Id) (verts : List Id) (hnd : verts.Nodup) :
    (m.mkCell k verts).edges = m.edges := by
  simp only [mkCell]
  rw [foldl_updVertex (fun x => addCellTo x k) verts hnd m]

theorem mkCell_cells (m : Mesh) (k : Id) (verts : List Id) (hnd : verts.Nodup) :
    (m.mkCell k verts).cells =
      (m.cells.filter fun p => p.1 != k) ++ [(k, { id := k, verts := verts })] := by
  simp only [mkCell]
  rw [foldl_updVertex (fun x => addCellTo x k) verts hnd m]

theorem mkCell_vkeys (m : Mesh) (k : Id) (verts : List Id) (hnd : verts.Nodup) :
    (m.mkCell k verts).vertices.map (·.1) = m.vertices.map (·.1) := by
  simp [mkCell_vertices _ _ _ hnd, List.map_map, Function.comp_def]

theorem OwnCellsP.mem_keys {m : Mesh} (h : OwnCellsP m) {p : Id × Vertex} (hp : p ∈ m.vertices)
    {e : Id} (he : e ∈ p.2.ownCells) : e ∈ m.cells.map (·.1) := by
  obtain ⟨ed, hed, _⟩ := (h p hp).1 e he
  exact List.mem_map.mpr ⟨(e, ed), alGet?_some_mem hed, rfl⟩

theorem mkCell_ownCellsP (m : Mesh) (k : Id) (verts : List Id) (hnd : verts.Nodup)
    (hv : ∀ p ∈ m.vertices, p.1 = p.2.id)
    (h : OwnCellsP m) (hk : k ∉ m.cells.map (·.1)) :
    OwnCellsP (m.mkCell k verts) := by
  intro p' hp'
  rw [mkCell_vertices _ _ _ hnd] at hp'
  obtain ⟨p, hp, rfl⟩ := List.mem_map.mp hp'
  have hkp : k ∉ p.2.ownCells := fun hh => hk (h.mem_keys hp hh)
  obtain ⟨h1, h2, h3⟩ := h p hp
  have hid := hv p hp
  rw [mkCell_cells _ _ _ hnd, filter_ne_of_not_mem_keys _ _ hk]
  by_cases hab : p.1 ∈ verts
  · simp only [hab, ↓reduceIte, addCellTo_id, addCellTo_ownCells_of_not_mem _ _ hkp]
    refine ⟨?_, ?_, ?_⟩
    · intro e he
      rcases List.mem_append.mp he with he | he
      · obtain ⟨ed, hed, hends⟩ := h1 e he
        exact ⟨ed, by simp [alGet?_append, hed], hends⟩
      · simp only [List.mem_singleton] at he
        subst he
        refine ⟨{ id := e, verts := verts }, ?_, ?_⟩
        · simp [alGet?_append, (alGet?_eq_none_iff _ _).mpr hk, alGet?]
        · simp only; rw [← hid]; exact hab
    · intro q hq hends
      rcases List.mem_append.mp hq with hq | hq
      · exact List.mem_append_left _ (h2 q hq hends)
      · simp only [List.mem_singleton] at hq
        subst hq; simp
    · rw [List.nodup_append]
      refine ⟨h3, by simp, ?_⟩
      intro x hx y hy
      simp only [List.mem_singleton] at hy
      subst hy
      intro hxy; subst hxy; exact hkp hx
  · simp only [hab, ↓reduceIte]
    refine ⟨?_, ?_, h3⟩
    · intro e he
      obtain ⟨ed, hed, hends⟩ := h1 e he
      exact ⟨ed, by simp [alGet?_append, hed], hends⟩
    · intro q hq hends
      rcases List.mem_append.mp hq with hq | hq
      · exact h2 q hq hends
      · simp only [List.mem_singleton] at hq
        subst hq
        simp only at hends
        rw [← hid] at hends
        exact absurd hends hab

theorem mkCell_consP (m : Mesh) (k : Id) (verts : List Id) (h : ConsP m) (hk : k ∉ m.cells.map (·.1))
    (hnd : verts.Nodup) (hsub : ∀ v ∈ verts, v ∈ m.vertices.map (·.1))
    (hj : ∀ ab ∈ cyclicPairs verts, JoinedP m ab.1 ab.2) :
    ConsP (m.mkCell k verts) := by
  obtain ⟨hK, hE, hC, hR, hN, hJ⟩ := h
  have hcells : (m.mkCell k verts).cells = m.cells ++ [(k, { id := k, verts := verts })] := by
    rw [mkCell_cells _ _ _ hnd, filter_ne_of_not_mem_keys _ _ hk]
  have hedges := mkCell_edges m k verts hnd
  have hvk := mkCell_vkeys m k verts hnd
  have hsim : ∀ p' ∈ (m.mkCell k verts).vertices, ∃ p ∈ m.vertices, p'.1 = p.1 ∧ p'.2.id = p.2.id ∧
      p'.2.ownEdges = p.2.ownEdges := by
    intro p' hp'
    rw [mkCell_vertices _ _ _ hnd] at hp'
    obtain ⟨p, hp, rfl⟩ := List.mem_map.mp hp'
    refine ⟨p, hp, rfl, ?_, ?_⟩ <;> (simp only; split <;> simp [addCellTo_id, addCellTo_ownEdges])
  refine ⟨?_, ?_, mkCell_ownCellsP m k verts hnd hK.1 hC hk, ?_, ?_, ?_⟩
  · obtain ⟨k1, k2, k3, k4, k5, k6⟩ := hK
    refine ⟨?_, by rw [hedges]; exact k2, ?_, by rw [hvk]; exact k4, by rw [hedges]; exact k5, ?_⟩
    · intro p' hp'
      obtain ⟨p, hp, e1, e2, _⟩ := hsim p' hp'
      rw [e1, e2]; exact k1 p hp
    · intro q hq
      rw [hcells] at hq
      rcases List.mem_append.mp hq with hq | hq
      · exact k3 q hq
      · simp only [List.mem_singleton] at hq; subst hq; rfl
    · rw [hcells, List.map_append, List.nodup_append]
      refine ⟨k6, by simp, ?_⟩
      intro x hx y hy
      simp only [List.map_cons, List.map_nil, List.mem_singleton] at hy
      subst hy
      intro hxy; subst hxy; exact hk hx
  · refine OwnEdgesP_of_sim m (m.mkCell k verts) hedges ?_ hE
    intro p' hp'
    obtain ⟨p, hp, _, e2, e3⟩ := hsim p' hp'
    exact ⟨p, hp, e2, e3⟩
  · refine ⟨?_, ?_⟩
    · intro q hq
      rw [hedges] at hq
      rw [hvk]
      exact hR.1 q hq
    · intro q hq
      rw [hcells] at hq
      rw [hvk]
      rcases List.mem_append.mp hq with hq | hq
      · exact hR.2 q hq
      · simp only [List.mem_singleton] at hq; subst hq; exact ⟨rfl, hsub⟩
  · intro q hq
    rw [hcells] at hq
    rcases List.mem_append.mp hq with hq | hq
    · exact hN q hq
    · simp only [List.mem_singleton] at hq; subst hq; exact hnd
  · intro q hq ab hab
    rw [hcells] at hq
    have : JoinedP m ab.1 ab.2 := by
      rcases List.mem_append.mp hq with hq | hq
      · exact hJ q hq ab hab
      · simp only [List.mem_singleton] at hq; subst hq; exact hj ab hab
    obtain ⟨e, he, hh⟩ := this
    exact ⟨e, by rw [hedges]; exact he, hh⟩

/-! ### the parser pattern -/

theorem empty_consP : ConsP empty := by
  refine ⟨⟨?_, ?_, ?_, ?_, ?_, ?_⟩, ?_, ?_, ⟨?_, ?_⟩, ?_, ?_⟩ <;> simp [empty, OwnEdgesP, OwnCellsP, CellsNodupP, CyclesJoinedP]

theorem foldl_mkVertex_consP (vs : List (Id × Rat × Rat)) (m : Mesh) (h : ConsP m)
    (hnd : (vs.map (·.1)).Nodup) (hdis : ∀ k ∈ vs.map (·.1), k ∉ m.vertices.map (·.1)) :
    let m' := vs.foldl (fun m p => m.mkVertex p.1 p.2.1 p.2.2) m
    ConsP m' ∧ m'.vertices.map (·.1) = m.vertices.map (·.1) ++ vs.map (·.1) ∧
      m'.edges = m.edges ∧ m'.cells = m.cells := by
  induction vs generalizing m with
  | nil => simp [h]
  | cons p vs ih =>
    simp only [List.map_cons, List.nodup_cons, List.mem_cons, forall_eq_or_imp] at hnd hdis
    obtain ⟨c1, c2, c3, c4⟩ := mkVertex_consP m p.1 p.2.1 p.2.2 h hdis.1
    have := ih (m.mkVertex p.1 p.2.1 p.2.2) c1 hnd.2 (by
      intro k hk
      rw [c2]
      simp only [List.mem_append, List.mem_singleton, not_or]
      exact ⟨hdis.2 k hk, fun hkp => hnd.1 (hkp ▸ hk)⟩)
    simp only [List.foldl_cons, List.map_cons]
    obtain ⟨d1, d2, d3, d4⟩ := this
    refine ⟨d1, ?_, by rw [d3, c3], by rw [d4, c4]⟩
    rw [d2, c2]; simp

theorem mkEdge_joinedP_mono (m : Mesh) (k a b : Id) (hk : k ∉ m.edges.map (·.1)) {x y : Id}
    (h : JoinedP m x y) : JoinedP (m.mkEdge k a b) x y := by
  obtain ⟨e, he, hh⟩ := h
  refine ⟨e, ?_, hh⟩
  rw [mkEdge_edges, filter_ne_of_not_mem_keys _ _ hk]
  exact List.mem_append_left _ he

theorem mkEdge_joinedP_new (m : Mesh) (k a b : Id) : JoinedP (m.mkEdge k a b) a b := by
  refine ⟨(k, { id := k, v1 := a, v2 := b }), ?_, Or.inl ⟨rfl, rfl⟩⟩
  rw [mkEdge_edges]
  exact List.mem_append_right _ (by simp)

theorem mkEdge_ekeys (m : Mesh) (k a b : Id) (hk : k ∉ m.edges.map (·.1)) :
    (m.mkEdge k a b).edges.map (·.1) = m.edges.map (·.1) ++ [k] := by
  rw [mkEdge_edges, filter_ne_of_not_mem_keys _ _ hk]; simp

theorem foldl_mkEdge_consP (es : List (Id × Id × Id)) (m : Mesh) (h : ConsP m)
    (hnd : (es.map (·.1)).Nodup) (hdis : ∀ k ∈ es.map (·.1), k ∉ m.edges.map (·.1))
    (hends : ∀ e ∈ es, e.2.1 ∈ m.vertices.map (·.1) ∧ e.2.2 ∈ m.vertices.map (·.1)) :
    let m' := es.foldl (fun m p => m.mkEdge p.1 p.2.1 p.2.2) m
    ConsP m' ∧ m'.vertices.map (·.1) = m.vertices.map (·.1) ∧
      m'.edges.map (·.1) = m.edges.map (·.1) ++ es.map (·.1) ∧ m'.cells = m.cells ∧
      (∀ x y, JoinedP m x y → JoinedP m' x y) ∧ (∀ e ∈ es, JoinedP m' e.2.1 e.2.2) := by
  induction es generalizing m with
  | nil => simp [h]
  | cons p es ih =>
    simp only [List.map_cons, List.nodup_cons, List.mem_cons, forall_eq_or_imp] at hnd hdis hends
    have c1 := mkEdge_consP m p.1 p.2.1 p.2.2 h hdis.1 hends.1.1 hends.1.2
    have c2 := mkEdge_vkeys m p.1 p.2.1 p.2.2
    have c3 := mkEdge_ekeys m p.1 p.2.1 p.2.2 hdis.1
    have := ih (m.mkEdge p.1 p.2.1 p.2.2) c1 hnd.2 (by
      intro k hk
      rw [c3]
      simp only [List.mem_append, List.mem_singleton, not_or]
      exact ⟨hdis.2 k hk, fun hkp => hnd.1 (hkp ▸ hk)⟩) (by rw [c2]; exact hends.2)
    simp only [List.foldl_cons, List.map_cons]
    obtain ⟨d1, d2, d3, d4, d5, d6⟩ := this
    refine ⟨d1, by rw [d2, c2], by rw [d3, c3]; simp, by rw [d4]; rfl, ?_, ?_⟩
    · intro x y hxy
      exact d5 x y (mkEdge_joinedP_mono m _ _ _ hdis.1 hxy)
    · intro e he
      rcases List.mem_cons.mp he with he | he
      · subst he; exact d5 _ _ (mkEdge_joinedP_new m _ _ _)
      · exact d6 e he

theorem foldl_mkCell_consP (cs : List (Id × List Id)) (m : Mesh) (h : ConsP m)
    (hnd : (cs.map (·.1)).Nodup) (hdis : ∀ k ∈ cs.map (·.1), k ∉ m.cells.map (·.1))
    (hc : ∀ c ∈ cs, c.2.Nodup ∧ (∀ v ∈ c.2, v ∈ m.vertices.map (·.1)) ∧
      ∀ ab ∈ cyclicPairs c.2, JoinedP m ab.1 ab.2) :
    ConsP (cs.foldl (fun m p => m.mkCell p.1 p.2) m) := by
  induction cs generalizing m with
  | nil => simpa using h
  | cons p cs ih =>
    simp only [List.map_cons, List.nodup_cons, List.mem_cons, forall_eq_or_imp] at hnd hdis hc
    obtain ⟨⟨n1, n2, n3⟩, hc'⟩ := hc
    have c1 := mkCell_consP m p.1 p.2 h hdis.1 n1 n2 n3
    have c2 := mkCell_vkeys m p.1 p.2 n1
    have c3 := mkCell_edges m p.1 p.2 n1
    have c4 : (m.mkCell p.1 p.2).cells.map (·.1) = m.cells.map (·.1) ++ [p.1] := by
      rw [mkCell_cells _ _ _ n1, filter_ne_of_not_mem_keys _ _ hdis.1]; simp
    simp only [List.foldl_cons]
    apply ih (m.mkCell p.1 p.2) c1 hnd.2
    · intro k hk
      rw [c4]
      simp only [List.mem_append, List.mem_singleton, not_or]
      exact ⟨hdis.2 k hk, fun hkp => hnd.1 (hkp ▸ hk)⟩
    · intro c hcm
      obtain ⟨e1, e2, e3⟩ := hc' c hcm
      refine ⟨e1, by rw [c2]; exact e2, ?_⟩
      intro ab hab
      obtain ⟨e, he, hh⟩ := e3 ab hab
      exact ⟨e, by rw [c3]; exact he, hh⟩

theorem ofLists_consP (vs : List (Id × Rat × Rat)) (es : List (Id × Id × Id)) (cs : List (Id × List Id))
    (vkeys : (vs.map (·.1)).Nodup) (ekeys : (es.map (·.1)).Nodup) (ckeys : (cs.map (·.1)).Nodup)
    (eends : ∀ e ∈ es, e.2.1 ∈ vs.map (·.1) ∧ e.2.2 ∈ vs.map (·.1))
    (cverts : ∀ c ∈ cs, c.2.Nodup ∧ ∀ v ∈ c.2, v ∈ vs.map (·.1))
    (cjoined : ∀ c ∈ cs, ∀ ab ∈ cyclicPairs c.2,
      ∃ e ∈ es, (e.2.1 = ab.1 ∧ e.2.2 = ab.2) ∨ (e.2.1 = ab.2 ∧ e.2.2 = ab.1)) :
    ConsP (ofLists vs es cs) := by
  unfold ofLists
  obtain ⟨a1, a2, a3, a4⟩ := foldl_mkVertex_consP vs empty empty_consP vkeys (by simp [empty])
  rw [show empty.vertices = [] from rfl, List.map_nil, List.nil_append] at a2
  rw [show empty.edges = [] from rfl] at a3
  rw [show empty.cells = [] from rfl] at a4
  obtain ⟨b1, b2, b3, b4, b5, b6⟩ := foldl_mkEdge_consP es _ a1 ekeys (by simp [a3])
    (by rw [a2]; exact eends)
  apply foldl_mkCell_consP cs _ b1 ckeys (by simp [b4, a4])
  intro c hc
  refine ⟨(cverts c hc).1, by rw [b2, a2]; exact (cverts c hc).2, ?_⟩
  intro ab hab
  obtain ⟨e, he, hh⟩ := cjoined c hc ab hab
  have := b6 e he
  rcases hh with ⟨h1, h2⟩ | ⟨h1, h2⟩
  · rw [h1, h2] at this; exact this
  · rw [h1, h2] at this; exact JoinedP_symm this

/-! ### delEdge -/

def eraseE (k : Id) (v : Vertex) : Vertex := { v with ownEdges := v.ownEdges.erase k }

theorem delEdge_none (m : Mesh) (k : Id) (h : m.edge? k = none) : m.delEdge k = m := by
  simp [delEdge, h]

theorem delEdge_vertices (m : Mesh) (k : Id) (e : SEdge) (h : m.edge? k = some e) :
    (m.delEdge k).vertices = m.vertices.map fun p =>
      (p.1, if p.1 = e.v2 then eraseE k (if p.1 = e.v1 then eraseE k p.2 else p.2)
            else (if p.1 = e.v1 then eraseE k p.2 else p.2)) := by
  simp only [delEdge, h, updVertex_vertices, List.map_map]
  apply List.map_congr_left
  rintro ⟨k', x⟩ _
  simp only [Function.comp, eraseE]

theorem delEdge_edges (m : Mesh) (k : Id) :
    (m.delEdge k).edges = m.edges.filter fun p => p.1 != k := by
  cases h : m.edge? k with
  | none =>
    rw [delEdge_none _ _ h, filter_ne_of_not_mem_keys]
    exact (alGet?_eq_none_iff _ _).mp h
  | some e => simp [delEdge, h]

theorem delEdge_cells (m : Mesh) (k : Id) : (m.delEdge k).cells = m.cells := by
  cases h : m.edge? k with
  | none => rw [delEdge_none _ _ h]
  | some e => simp [delEdge, h]

theorem delEdge_vkeys (m : Mesh) (k : Id) : (m.delEdge k).vertices.map (·.1) = m.vertices.map (·.1) := by
  cases h : m.edge? k with
  | none => rw [delEdge_none _ _ h]
  | some e => simp [delEdge_vertices _ _ _ h, List.map_map, Function.comp_def]

theorem delEdge_sim (m : Mesh) (k : Id) : ∀ p' ∈ (m.delEdge k).vertices, ∃ p ∈ m.vertices,
    p'.1 = p.1 ∧ p'.2.id = p.2.id ∧ p'.2.ownCells = p.2.ownCells ∧
      ∀ x ∈ p'.2.ownEdges, x ∈ p.2.ownEdges := by
  intro p' hp'
  cases h : m.edge? k with
  | none => rw [delEdge_none _ _ h] at hp'; exact ⟨p', hp', rfl, rfl, rfl, fun _ hx => hx⟩
  | some e =>
    rw [delEdge_vertices _ _ _ h] at hp'
    obtain ⟨p, hp, rfl⟩ := List.mem_map.mp hp'
    refine ⟨p, hp, rfl, ?_, ?_, ?_⟩
    · split <;> split <;> rfl
    · split <;> split <;> rfl
    · intro x
      split <;> split <;> simp only [eraseE] <;> intro hx
      · exact List.mem_of_mem_erase (List.mem_of_mem_erase hx)
      · exact List.mem_of_mem_erase hx
      · exact List.mem_of_mem_erase hx
      · exact hx

theorem delEdge_ownEdgesP (m : Mesh) (k : Id) (hv : ∀ p ∈ m.vertices, p.1 = p.2.id)
    (hek : ∀ q ∈ m.edges, q.1 = q.2.id) (h : OwnEdgesP m) : OwnEdgesP (m.delEdge k) := by
  cases he : m.edge? k with
  | none => rw [delEdge_none _ _ he]; exact h
  | some e =>
    intro p' hp'
    rw [delEdge_vertices _ _ _ he] at hp'
    obtain ⟨p, hp, rfl⟩ := List.mem_map.mp hp'
    obtain ⟨h1, h2, h3⟩ := h p hp
    have hid := hv p hp
    rw [delEdge_edges]
    have key : ∀ v : Vertex, v.id = p.2.id →
        (v.ownEdges = p.2.ownEdges.erase k ∨ (v.ownEdges = p.2.ownEdges ∧ k ∉ p.2.ownEdges)) →
        (∀ e ∈ v.ownEdges, ∃ ed, alGet? e (m.edges.filter fun p => p.1 != k) = some ed ∧
            (ed.v1 = v.id ∨ ed.v2 = v.id)) ∧
          (∀ q ∈ m.edges.filter (fun p => p.1 != k),
            (q.2.v1 = v.id ∨ q.2.v2 = v.id) → q.2.id ∈ v.ownEdges) ∧ v.ownEdges.Nodup := by
      intro v hvid hvo
      rw [hvid]
      refine ⟨?_, ?_, ?_⟩
      · intro x hx
        have hx' : x ∈ p.2.ownEdges ∧ x ≠ k := by
          rcases hvo with ho | ⟨ho, hk⟩
          · rw [ho] at hx
            exact ⟨List.mem_of_mem_erase hx, fun hxk => by
              subst hxk; exact (List.Nodup.mem_erase_iff h3).mp hx |>.1 rfl⟩
          · rw [ho] at hx
            exact ⟨hx, fun hxk => hk (hxk ▸ hx)⟩
        obtain ⟨ed, hed, hends⟩ := h1 x hx'.1
        exact ⟨ed, by rw [alGet?_filter_ne]; simp [hx'.2, hed], hends⟩
      · intro q hq hends
        simp only [List.mem_filter, bne_iff_ne, ne_eq] at hq
        have hmem := h2 q hq.1 hends
        have hne : q.2.id ≠ k := by rw [← hek q hq.1]; exact hq.2
        rcases hvo with ho | ⟨ho, _⟩
        · rw [ho]; exact (List.mem_erase_of_ne hne).mpr hmem
        · rw [ho]; exact hmem
      · rcases hvo with ho | ⟨ho, _⟩
        · rw [ho]; exact h3.erase _
        · rw [ho]; exact h3
    have hnot : p.1 ≠ e.v1 → p.1 ≠ e.v2 → k ∉ p.2.ownEdges := by
      intro n1 n2 hk
      obtain ⟨ed, hed, hends⟩ := h1 k hk
      have : ed = e := by
        have : some ed = some e := by rw [← hed]; exact he
        exact Option.some.inj this
      subst this
      rw [← hid] at hends
      rcases hends with h | h
      · exact n1 h.symm
      · exact n2 h.symm
    have herase2 : (p.2.ownEdges.erase k).erase k = p.2.ownEdges.erase k :=
      List.erase_of_not_mem (fun hh => ((List.Nodup.mem_erase_iff h3).mp hh).1 rfl)
    by_cases c1 : p.1 = e.v1 <;> by_cases c2 : p.1 = e.v2
    · rw [if_pos c2, if_pos c1]
      exact key _ rfl (Or.inl herase2)
    · rw [if_neg c2, if_pos c1]
      exact key _ rfl (Or.inl rfl)
    · rw [if_pos c2, if_neg c1]
      exact key _ rfl (Or.inl rfl)
    · rw [if_neg c2, if_neg c1]
      exact key _ rfl (Or.inr ⟨rfl, hnot c1 c2⟩)

theorem delEdge_keysP (m : Mesh) (k : Id) (h : KeysP m) : KeysP (m.delEdge k) := by
  obtain ⟨k1, k2, k3, k4, k5, k6⟩ := h
  refine ⟨?_, ?_, by rw [delEdge_cells]; exact k3, by rw [delEdge_vkeys]; exact k4, ?_,
    by rw [delEdge_cells]; exact k6⟩
  · intro p' hp'
    obtain ⟨p, hp, e1, e2, _⟩ := delEdge_sim m k p' hp'
    rw [e1, e2]; exact k1 p hp
  · intro q hq
    rw [delEdge_edges] at hq
    exact k2 q (List.mem_filter.mp hq).1
  · rw [delEdge_edges]
    exact k5.sublist (List.filter_sublist.map _)

/-! ### delCell -/

def eraseC (k : Id) (v : Vertex) : Vertex := { v with ownCells := v.ownCells.erase k }

theorem delCell_none (m : Mesh) (k : Id) (h : m.cell? k = none) : m.delCell k = m := by
  simp [delCell, h]

theorem delCell_vertices (m : Mesh) (k : Id) (c : Cell) (h : m.cell? k = some c) (hnd : c.verts.Nodup) :
    (m.delCell k).vertices = m.vertices.map fun p =>
      (p.1, if p.1 ∈ c.verts then eraseC k p.2 else p.2) := by
  simp only [delCell, h]
  rw [foldl_updVertex (fun vx => { vx with ownCells := vx.ownCells.erase k }) c.verts hnd m]
  rfl

theorem delCell_cells (m : Mesh) (k : Id) (c : Cell) (h : m.cell? k = some c) (hnd : c.verts.Nodup) :
    (m.delCell k).cells = m.cells.filter fun p => p.1 != k := by
  simp only [delCell, h]
  rw [foldl_updVertex (fun vx => { vx with ownCells := vx.ownCells.erase k }) c.verts hnd m]

theorem delCell_edges (m : Mesh) (k : Id) (c : Cell) (h : m.cell? k = some c) (hnd : c.verts.Nodup) :
    (m.delCell k).edges = m.edges := by
  simp only [delCell, h]
  rw [foldl_updVertex (fun vx => { vx with ownCells := vx.ownCells.erase k }) c.verts hnd m]

theorem delCell_ownCellsP (m : Mesh) (k : Id) (hv : ∀ p ∈ m.vertices, p.1 = p.2.id)
    (hck : ∀ q ∈ m.cells, q.1 = q.2.id) (h : OwnCellsP m) (hN : CellsNodupP m) :
    OwnCellsP (m.delCell k) := by
  cases he : m.cell? k with
  | none => rw [delCell_none _ _ he]; exact h
  | some c =>
    have hnd : c.verts.Nodup := hN (k, c) (alGet?_some_mem he)
    intro p' hp'
    rw [delCell_vertices _ _ _ he hnd] at hp'
    obtain ⟨p, hp, rfl⟩ := List.mem_map.mp hp'
    obtain ⟨h1, h2, h3⟩ := h p hp
    have hid := hv p hp
    rw [delCell_cells _ _ _ he hnd]
    have key : ∀ v : Vertex, v.id = p.2.id →
        (v.ownCells = p.2.ownCells.erase k ∨ (v.ownCells = p.2.ownCells ∧ k ∉ p.2.ownCells)) →
        (∀ e ∈ v.ownCells, ∃ cl, alGet? e (m.cells.filter fun p => p.1 != k) = some cl ∧
            v.id ∈ cl.verts) ∧
          (∀ q ∈ m.cells.filter (fun p => p.1 != k),
            v.id ∈ q.2.verts → q.2.id ∈ v.ownCells) ∧ v.ownCells.Nodup := by
      intro v hvid hvo
      rw [hvid]
      refine ⟨?_, ?_, ?_⟩
      · intro x hx
        have hx' : x ∈ p.2.ownCells ∧ x ≠ k := by
          rcases hvo with ho | ⟨ho, hk⟩
          · rw [ho] at hx
            exact ⟨List.mem_of_mem_erase hx, fun hxk => by
              subst hxk; exact (List.Nodup.mem_erase_iff h3).mp hx |>.1 rfl⟩
          · rw [ho] at hx
            exact ⟨hx, fun hxk => hk (hxk ▸ hx)⟩
        obtain ⟨ed, hed, hends⟩ := h1 x hx'.1
        exact ⟨ed, by rw [alGet?_filter_ne]; simp [hx'.2, hed], hends⟩
      · intro q hq hends
        simp only [List.mem_filter, bne_iff_ne, ne_eq] at hq
        have hmem := h2 q hq.1 hends
        have hne : q.2.id ≠ k := by rw [← hck q hq.1]; exact hq.2
        rcases hvo with ho | ⟨ho, _⟩
        · rw [ho]; exact (List.mem_erase_of_ne hne).mpr hmem
        · rw [ho]; exact hmem
      · rcases hvo with ho | ⟨ho, _⟩
        · rw [ho]; exact h3.erase _
        · rw [ho]; exact h3
    have hnot : p.1 ∉ c.verts → k ∉ p.2.ownCells := by
      intro n1 hk
      obtain ⟨ed, hed, hends⟩ := h1 k hk
      have : ed = c := by
        have : some ed = some c := by rw [← hed]; exact he
        exact Option.some.inj this
      subst this
      rw [← hid] at hends
      exact n1 hends
    by_cases c1 : p.1 ∈ c.verts
    · rw [if_pos c1]
      exact key _ rfl (Or.inl rfl)
    · rw [if_neg c1]
      exact key _ rfl (Or.inr ⟨rfl, hnot c1⟩)

theorem delCell_keysP (m : Mesh) (k : Id) (h : KeysP m) (hN : CellsNodupP m) : KeysP (m.delCell k) := by
  cases he : m.cell? k with
  | none => rw [delCell_none _ _ he]; exact h
  | some c =>
    have hnd : c.verts.Nodup := hN (k, c) (alGet?_some_mem he)
    obtain ⟨k1, k2, k3, k4, k5, k6⟩ := h
    refine ⟨?_, by rw [delCell_edges _ _ _ he hnd]; exact k2, ?_, ?_,
      by rw [delCell_edges _ _ _ he hnd]; exact k5, ?_⟩
    · intro p' hp'
      rw [delCell_vertices _ _ _ he hnd] at hp'
      obtain ⟨p, hp, rfl⟩ := List.mem_map.mp hp'
      have := k1 p hp
      split <;> simpa [eraseC] using this
    · intro q hq
      rw [delCell_cells _ _ _ he hnd] at hq
      exact k3 q (List.mem_filter.mp hq).1
    · rw [delCell_vertices _ _ _ he hnd]
      simpa [List.map_map, Function.comp_def] using k4
    · rw [delCell_cells _ _ _ he hnd]
      exact k6.sublist (List.filter_sublist.map _)

/-! ### generateMesh: the edge rebuild -/

theorem foldl_inv {α : Type} (P : Mesh → Prop) (f : Mesh → α → Mesh)
    (l : List α) (hf : ∀ m, ∀ a ∈ l, P m → P (f m a)) (m : Mesh) (h : P m) : P (l.foldl f m) := by
  induction l generalizing m with
  | nil => exact h
  | cons a l ih =>
    simp only [List.foldl_cons]
    exact ih (fun m b hb => hf m b (List.mem_cons_of_mem _ hb)) _ (hf m a (List.mem_cons_self ..) h)

def gm1 (m : Mesh) (removed : List (Id × Vertex)) : Mesh :=
  removed.foldl (fun m p =>
      p.2.ownCells.foldl (fun m c => m.updCell c fun cl => { cl with verts := cl.verts.erase p.1 }) m) m

def gm2 (m1 : Mesh) : Mesh := m1.edges.foldl (fun m p => m.delEdge p.1) m1

def gm4 (m2 : Mesh) (used : List Id) (segs : List (Id × Id)) : Mesh :=
  (List.zip (List.range segs.length) segs).foldl
      (fun m p => m.mkEdge (p.1 : Int) p.2.1 p.2.2)
      { vertices := m2.vertices.filter fun p => used.contains p.1, edges := [], cells := m2.cells }

theorem gm1_ve (m : Mesh) (removed : List (Id × Vertex)) :
    (gm1 m removed).vertices = m.vertices ∧ (gm1 m removed).edges = m.edges := by
  unfold gm1
  apply foldl_inv (fun m' => m'.vertices = m.vertices ∧ m'.edges = m.edges)
  · intro m' p _ h
    apply foldl_inv (fun m'' => m''.vertices = m.vertices ∧ m''.edges = m.edges)
    · intro m'' c _ h'
      exact h'
    · exact h
  · exact ⟨rfl, rfl⟩

theorem foldl_delEdge_edges (l : List (Id × SEdge)) (m : Mesh) :
    ∀ q ∈ (l.foldl (fun m p => m.delEdge p.1) m).edges, q ∈ m.edges ∧ q.1 ∉ l.map (·.1) := by
  induction l generalizing m with
  | nil => intro q hq; exact ⟨hq, by simp⟩
  | cons a l ih =>
    intro q hq
    simp only [List.foldl_cons] at hq
    obtain ⟨h1, h2⟩ := ih _ q hq
    rw [delEdge_edges] at h1
    simp only [List.mem_filter, bne_iff_ne, ne_eq] at h1
    refine ⟨h1.1, ?_⟩
    simp only [List.map_cons, List.mem_cons, not_or]
    exact ⟨h1.2, h2⟩

theorem gm2_spec (m : Mesh) (hv : ∀ p ∈ m.vertices, p.1 = p.2.id)
    (hek : ∀ q ∈ m.edges, q.1 = q.2.id) (hE : OwnEdgesP m) :
    ∀ p ∈ (gm2 m).vertices, p.1 = p.2.id ∧ p.2.ownEdges = [] := by
  have hinv : (∀ p ∈ (gm2 m).vertices, p.1 = p.2.id) ∧ (∀ q ∈ (gm2 m).edges, q.1 = q.2.id) ∧
      OwnEdgesP (gm2 m) := by
    unfold gm2
    apply foldl_inv (fun m' => (∀ p ∈ m'.vertices, p.1 = p.2.id) ∧ (∀ q ∈ m'.edges, q.1 = q.2.id) ∧
      OwnEdgesP m')
    · intro m' a _ ⟨h1, h2, h3⟩
      refine ⟨?_, ?_, delEdge_ownEdgesP m' a.1 h1 h2 h3⟩
      · intro p' hp'
        obtain ⟨p, hp, e1, e2, _⟩ := delEdge_sim m' a.1 p' hp'
        rw [e1, e2]; exact h1 p hp
      · intro q hq
        rw [delEdge_edges] at hq
        exact h2 q (List.mem_filter.mp hq).1
    · exact ⟨hv, hek, hE⟩
  have hnil : (gm2 m).edges = [] := by
    apply List.eq_nil_iff_forall_not_mem.mpr
    intro q hq
    obtain ⟨h1, h2⟩ := foldl_delEdge_edges m.edges m q hq
    exact h2 (List.mem_map.mpr ⟨q, h1, rfl⟩)
  intro p hp
  refine ⟨hinv.1 p hp, ?_⟩
  apply List.eq_nil_iff_forall_not_mem.mpr
  intro e he
  obtain ⟨ed, hed, _⟩ := (hinv.2.2 p hp).1 e he
  rw [hnil] at hed
  simp [alGet?] at hed

theorem foldl_mkEdge_nat_ownEdgesP (l : List (Nat × Id × Id)) (m : Mesh)
    (hv : ∀ p ∈ m.vertices, p.1 = p.2.id) (hE : OwnEdgesP m)
    (hnd : (l.map (·.1)).Nodup) (hdis : ∀ i : Nat, i ∈ l.map (·.1) → (i : Int) ∉ m.edges.map (·.1)) :
    OwnEdgesP (l.foldl (fun m p => m.mkEdge (p.1 : Int) p.2.1 p.2.2) m) := by
  induction l generalizing m with
  | nil => exact hE
  | cons a l ih =>
    simp only [List.map_cons, List.nodup_cons, List.mem_cons, forall_eq_or_imp] at hnd hdis
    simp only [List.foldl_cons]
    apply ih
    · intro p' hp'
      rw [mkEdge_vertices] at hp'
      obtain ⟨p, hp, rfl⟩ := List.mem_map.mp hp'
      simp only
      split
      · rw [addEdgeTo_id]; exact hv p hp
      · exact hv p hp
    · exact mkEdge_ownEdgesP m _ _ _ hv hE hdis.1
    · exact hnd.2
    · intro i hi
      rw [mkEdge_ekeys _ _ _ _ hdis.1]
      simp only [List.mem_append, List.mem_singleton, not_or]
      refine ⟨hdis.2 i hi, ?_⟩
      intro hia
      have : i = a.1 := by omega
      exact hnd.1 (this ▸ hi)

theorem gm4_ownEdgesP (m2 : Mesh) (used : List Id) (segs : List (Id × Id))
    (h : ∀ p ∈ m2.vertices, p.1 = p.2.id ∧ p.2.ownEdges = []) :
    OwnEdgesP (gm4 m2 used segs) := by
  unfold gm4
  apply foldl_mkEdge_nat_ownEdgesP
  · intro p hp
    exact (h p (List.mem_filter.mp hp).1).1
  · intro p hp
    have := (h p (List.mem_filter.mp hp).1).2
    simp only at hp ⊢
    rw [this]
    simp
  · rw [List.map_fst_zip (by simp)]
    exact List.nodup_range
  · simp

theorem gm_ownEdgesP (m : Mesh) (removed : List (Id × Vertex)) (used : List Id) (segs : List (Id × Id))
    (f : List (Id × Cell) → List (Id × Cell)) (hK : KeysP m) (hE : OwnEdgesP m) :
    OwnEdgesP { gm4 (gm2 (gm1 m removed)) used segs with
      cells := f (gm4 (gm2 (gm1 m removed)) used segs).cells } := by
  refine OwnEdgesP_of_sim (gm4 (gm2 (gm1 m removed)) used segs) _ rfl
    (fun p' hp' => ⟨p', hp', rfl, rfl⟩) ?_
  apply gm4_ownEdgesP
  obtain ⟨e1, e2⟩ := gm1_ve m removed
  apply gm2_spec
  · rw [e1]; exact hK.1
  · rw [e2]; exact hK.2.1
  · exact OwnEdgesP_of_sim m _ e2 (fun p' hp' => ⟨p', e1 ▸ hp', rfl, rfl⟩) hE

theorem generateMesh_ownEdgesP (m : Mesh) (ne : Nat) (hK : KeysP m) (hE : OwnEdgesP m) :
    OwnEdgesP (m.generateMesh ne false).mesh := by
  exact gm_ownEdgesP m _ _ _ (fun c => c.filter fun p => !p.2.verts.isEmpty) hK hE

/-! ### orphanRemoval -/

theorem mem_cyclicPairs {α : Type} {l : List α} {ab : α × α} (h : ab ∈ cyclicPairs l) :
    ab.1 ∈ l ∧ ab.2 ∈ l := by
  cases l with
  | nil => simp [cyclicPairs] at h
  | cons a t =>
    simp only [cyclicPairs] at h
    obtain ⟨x, y⟩ := ab
    have := List.of_mem_zip h
    refine ⟨this.1, ?_⟩
    have h2 := this.2
    simp only [List.mem_append, List.mem_singleton] at h2
    rcases h2 with h2 | h2
    · exact List.mem_cons_of_mem _ h2
    · simp [h2]

theorem mem_filter_keys {β : Type} (l : List (Id × β)) (i k : Id) :
    k ∈ (l.filter fun p => p.1 != i).map (·.1) ↔ k ∈ l.map (·.1) ∧ k ≠ i := by
  simp only [List.mem_map, List.mem_filter, bne_iff_ne, ne_eq]
  constructor
  · rintro ⟨p, ⟨hp, hne⟩, rfl⟩; exact ⟨⟨p, hp, rfl⟩, hne⟩
  · rintro ⟨⟨p, hp, rfl⟩, hne⟩; exact ⟨p, ⟨hp, hne⟩, rfl⟩

def delEdges (m : Mesh) (es : List Id) : Mesh := es.foldl (fun m e => m.delEdge e) m

theorem delEdges_cells (m : Mesh) (es : List Id) : (delEdges m es).cells = m.cells := by
  unfold delEdges
  apply foldl_inv (fun m' => m'.cells = m.cells)
  · intro m' e _ h; rw [delEdge_cells]; exact h
  · rfl

theorem delEdges_vkeys (m : Mesh) (es : List Id) :
    (delEdges m es).vertices.map (·.1) = m.vertices.map (·.1) := by
  unfold delEdges
  apply foldl_inv (fun m' => m'.vertices.map (·.1) = m.vertices.map (·.1))
  · intro m' e _ h; rw [delEdge_vkeys]; exact h
  · rfl

theorem delEdges_edges (m : Mesh) (es : List Id) (q : Id × SEdge) :
    q ∈ (delEdges m es).edges ↔ q ∈ m.edges ∧ q.1 ∉ es := by
  unfold delEdges
  induction es generalizing m with
  | nil => simp
  | cons e es ih =>
    simp only [List.foldl_cons, ih, delEdge_edges, List.mem_filter, bne_iff_ne, ne_eq, List.mem_cons,
      not_or, and_assoc]

theorem delEdges_sim (m : Mesh) (es : List Id) : ∀ p' ∈ (delEdges m es).vertices, ∃ p ∈ m.vertices,
    p'.1 = p.1 ∧ p'.2.id = p.2.id ∧ p'.2.ownCells = p.2.ownCells := by
  unfold delEdges
  apply foldl_inv (fun m' => ∀ p' ∈ m'.vertices, ∃ p ∈ m.vertices,
    p'.1 = p.1 ∧ p'.2.id = p.2.id ∧ p'.2.ownCells = p.2.ownCells)
  · intro m' e _ h p'' hp''
    obtain ⟨p', hp', a1, a2, a3, _⟩ := delEdge_sim m' e p'' hp''
    obtain ⟨p, hp, b1, b2, b3⟩ := h p' hp'
    exact ⟨p, hp, a1.trans b1, a2.trans b2, a3.trans b3⟩
  · intro p hp; exact ⟨p, hp, rfl, rfl, rfl⟩

theorem delEdges_keys_own (m : Mesh) (es : List Id) (hK : KeysP m) (hE : OwnEdgesP m) :
    KeysP (delEdges m es) ∧ OwnEdgesP (delEdges m es) := by
  unfold delEdges
  apply foldl_inv (fun m' => KeysP m' ∧ OwnEdgesP m')
  · intro m' e _ ⟨h1, h2⟩
    exact ⟨delEdge_keysP m' e h1, delEdge_ownEdgesP m' e h1.1 h1.2.1 h2⟩
  · exact ⟨hK, hE⟩

def orphanStep (m : Mesh) (i : Id) : Mesh :=
  let m := (m.ownEdges i).foldl (fun m e => m.delEdge e) m
  { m with vertices := m.vertices.filter fun p => p.1 != i }

theorem orphanStep_consP (m : Mesh) (i : Id) (h : ConsP m)
    (hi : ∀ p ∈ m.vertices, p.1 = i → p.2.ownCells = []) :
    ConsP (orphanStep m i) ∧ (∀ p' ∈ (orphanStep m i).vertices, ∃ p ∈ m.vertices,
      p'.1 = p.1 ∧ p'.2.ownCells = p.2.ownCells) := by
  obtain ⟨hK, hE, hC, hR, hN, hJ⟩ := h
  have hvert : ∀ k ∈ m.vertices.map (·.1), ∃ v, (k, v) ∈ m.vertices ∧ v.id = k ∧ m.ownEdges k = v.ownEdges := by
    intro k hk
    obtain ⟨p, hp, rfl⟩ := List.mem_map.mp hk
    refine ⟨p.2, hp, (hK.1 p hp).symm, ?_⟩
    have : alGet? p.1 m.vertices = some p.2 := alGet?_of_mem hK.2.2.2.1 hp
    simp [ownEdges, vertex?, this]
  have K1 : ∀ q ∈ m.edges, (q.2.v1 = i ∨ q.2.v2 = i) → i ∈ m.vertices.map (·.1) → q.1 ∈ m.ownEdges i := by
    intro q hq hends hiv
    obtain ⟨v, hv, hvid, hown⟩ := hvert i hiv
    rw [hown, hK.2.1 q hq]
    exact (hE (i, v) hv).2.1 q hq (by simpa [hvid] using hends)
  have K2 : ∀ q ∈ m.edges, q.1 ∈ m.ownEdges i → (q.2.v1 = i ∨ q.2.v2 = i) := by
    intro q hq hmem
    by_cases hiv : i ∈ m.vertices.map (·.1)
    · obtain ⟨v, hv, hvid, hown⟩ := hvert i hiv
      rw [hown] at hmem
      obtain ⟨ed, hed, hends⟩ := (hE (i, v) hv).1 q.1 hmem
      have : alGet? q.1 m.edges = some q.2 := alGet?_of_mem hK.2.2.2.2.1 hq
      rw [this] at hed
      have := Option.some.inj hed
      subst this
      simpa [hvid] using hends
    · have : alGet? i m.vertices = none := (alGet?_eq_none_iff _ _).mpr hiv
      simp [ownEdges, vertex?, this] at hmem
  have K3 : ∀ c ∈ m.cells, i ∉ c.2.verts := by
    intro c hc hin
    have hiv := (hR.2 c hc).2 i hin
    obtain ⟨v, hv, hvid, _⟩ := hvert i hiv
    have := (hC (i, v) hv).2.1 c hc (by simpa [hvid] using hin)
    rw [hi (i, v) hv rfl] at this
    simp at this
  have hm2 : orphanStep m i = { delEdges m (m.ownEdges i) with
      vertices := (delEdges m (m.ownEdges i)).vertices.filter fun p => p.1 != i } := rfl
  obtain ⟨hK2, hE2⟩ := delEdges_keys_own m (m.ownEdges i) hK hE
  have hcells := delEdges_cells m (m.ownEdges i)
  have hvk := delEdges_vkeys m (m.ownEdges i)
  have hsim := delEdges_sim m (m.ownEdges i)
  have hC2 : OwnCellsP (delEdges m (m.ownEdges i)) :=
    OwnCellsP_of_sim m _ hcells (fun p' hp' => by
      obtain ⟨p, hp, _, a, b⟩ := hsim p' hp'; exact ⟨p, hp, a, b⟩) hC
  rw [hm2]
  refine ⟨⟨?_, ?_, ?_, ?_, ?_, ?_⟩, ?_⟩
  · obtain ⟨k1, k2, k3, k4, k5, k6⟩ := hK2
    refine ⟨?_, k2, k3, ?_, k5, k6⟩
    · intro p hp; exact k1 p (List.mem_filter.mp hp).1
    · exact k4.sublist (List.filter_sublist.map _)
  · exact OwnEdgesP_of_sim (delEdges m (m.ownEdges i)) _ rfl (fun p' hp' => ⟨p', (List.mem_filter.mp hp').1, rfl, rfl⟩) hE2
  · exact OwnCellsP_of_sim (delEdges m (m.ownEdges i)) _ rfl (fun p' hp' => ⟨p', (List.mem_filter.mp hp').1, rfl, rfl⟩) hC2
  · refine ⟨?_, ?_⟩
    · intro q hq
      simp only at hq
      rw [delEdges_edges] at hq
      obtain ⟨r0, r1, r2⟩ := hR.1 q hq.1
      simp only [mem_filter_keys, hvk]
      refine ⟨r0, ⟨r1, ?_⟩, ⟨r2, ?_⟩⟩
      · intro h1; exact hq.2 (K1 q hq.1 (Or.inl h1) (h1 ▸ r1))
      · intro h2; exact hq.2 (K1 q hq.1 (Or.inr h2) (h2 ▸ r2))
    · intro c hc
      simp only at hc
      rw [hcells] at hc
      obtain ⟨r0, r1⟩ := hR.2 c hc
      refine ⟨r0, ?_⟩
      intro v hv
      simp only [mem_filter_keys, hvk]
      exact ⟨r1 v hv, fun hvi => K3 c hc (hvi ▸ hv)⟩
  · intro c hc
    simp only at hc
    rw [hcells] at hc
    exact hN c hc
  · intro c hc ab hab
    simp only at hc
    rw [hcells] at hc
    obtain ⟨q, hq, hh⟩ := hJ c hc ab hab
    refine ⟨q, ?_, hh⟩
    simp only
    rw [delEdges_edges]
    refine ⟨hq, ?_⟩
    intro hmem
    have hends := K2 q hq hmem
    obtain ⟨m1, m2⟩ := mem_cyclicPairs hab
    have : ab.1 = i ∨ ab.2 = i := by
      rcases hh with ⟨a, b⟩ | ⟨a, b⟩ <;> rcases hends with e | e
      · left; rw [← a, e]
      · right; rw [← b, e]
      · right; rw [← a, e]
      · left; rw [← b, e]
    rcases this with e | e
    · exact K3 c hc (e ▸ m1)
    · exact K3 c hc (e ▸ m2)
  · intro p' hp'
    simp only at hp'
    obtain ⟨p, hp, a, _, b⟩ := hsim p' (List.mem_filter.mp hp').1
    exact ⟨p, hp, a, b⟩

theorem orphanRemoval_consP (m : Mesh) (h : ConsP m) : ConsP m.orphanRemoval := by
  have heq : m.orphanRemoval =
      ((m.vertices.filter fun p => p.2.ownCells.isEmpty).map (·.1)).foldl orphanStep m := rfl
  rw [heq]
  have hinit : ∀ p ∈ m.vertices, p.1 ∈ (m.vertices.filter fun p => p.2.ownCells.isEmpty).map (·.1) →
      p.2.ownCells = [] := by
    intro p hp hmem
    obtain ⟨p0, hp0, hk⟩ := List.mem_map.mp hmem
    obtain ⟨hp0m, hemp⟩ := List.mem_filter.mp hp0
    have e1 : alGet? p.1 m.vertices = some p.2 := alGet?_of_mem h.1.2.2.2.1 hp
    have e2 : alGet? p0.1 m.vertices = some p0.2 := alGet?_of_mem h.1.2.2.2.1 hp0m
    rw [hk, e1] at e2
    have := Option.some.inj e2
    rw [this]
    simpa using hemp
  refine (foldl_inv (fun m' => ConsP m' ∧ ∀ p ∈ m'.vertices,
      p.1 ∈ (m.vertices.filter fun p => p.2.ownCells.isEmpty).map (·.1) → p.2.ownCells = [])
    orphanStep _ ?_ m ⟨h, hinit⟩).1
  intro m' i hi ⟨c1, c2⟩
  obtain ⟨d1, d2⟩ := orphanStep_consP m' i c1 (fun p hp hpi => c2 p hp (hpi ▸ hi))
  refine ⟨d1, ?_⟩
  intro p' hp' hmem
  obtain ⟨p, hp, a, b⟩ := d2 p' hp'
  rw [b]
  exact c2 p hp (a ▸ hmem)

end Mesh

end Forsys
