/- helper lemmas for Props/C09.lean -/
import ForsysModel.Model.Construct
namespace Forsys

/-! ### eraseDups -/

theorem eraseDups_length_le_aux (n : Nat) : ∀ l : List Id, l.length ≤ n → l.eraseDups.length ≤ l.length := by
  induction n with
  | zero => intro l hl; cases l <;> simp_all
  | succ n ih =>
    intro l hl
    cases l with
    | nil => simp
    | cons a t =>
      rw [List.eraseDups_cons]
      simp only [List.length_cons] at *
      have h1 : (t.filter fun b => !b == a).length ≤ t.length := List.length_filter_le _ _
      have := ih (t.filter fun b => !b == a) (by omega)
      omega

theorem eraseDups_length_le (l : List Id) : l.eraseDups.length ≤ l.length :=
  eraseDups_length_le_aux l.length l (Nat.le_refl _)

theorem eraseDups_length_iff_aux (n : Nat) :
    ∀ l : List Id, l.length ≤ n → (l.eraseDups.length = l.length ↔ l.Nodup) := by
  induction n with
  | zero => intro l hl; cases l <;> simp_all
  | succ n ih =>
    intro l hl
    cases l with
    | nil => simp
    | cons a t =>
      rw [List.eraseDups_cons]
      simp only [List.length_cons, List.nodup_cons] at *
      have h1 : (t.filter fun b => !b == a).length ≤ t.length := List.length_filter_le _ _
      have h2 := eraseDups_length_le (t.filter fun b => !b == a)
      constructor
      · intro he
        have h3 : (t.filter fun b => !b == a).length = t.length := by omega
        have h4 : t.filter (fun b => !b == a) = t :=
          List.filter_eq_self.mpr (List.length_filter_eq_length_iff.mp h3)
        rw [h4] at he
        refine ⟨?_, (ih t (by omega)).mp (by omega)⟩
        intro hmem
        have := List.filter_eq_self.mp h4 a hmem
        simp at this
      · intro ⟨hna, hnd⟩
        have h4 : t.filter (fun b => !b == a) = t := by
          apply List.filter_eq_self.mpr
          intro b hb
          have : b ≠ a := fun hba => hna (hba ▸ hb)
          simpa using this
        rw [h4]
        have := (ih t (by omega)).mpr hnd
        omega

theorem eraseDups_length_iff (l : List Id) : l.eraseDups.length = l.length ↔ l.Nodup :=
  eraseDups_length_iff_aux l.length l (Nat.le_refl _)

theorem eraseDups_beq_iff (l : List Id) : (l.eraseDups.length == l.length) = true ↔ l.Nodup := by
  rw [beq_iff_eq]; exact eraseDups_length_iff l

/-! ### association lists -/

theorem keysNodup_iff {β : Type} (l : List (Id × β)) :
    Mesh.keysNodup l = true ↔ (l.map (·.1)).Nodup := by
  induction l with
  | nil => simp [Mesh.keysNodup]
  | cons p r ih =>
    obtain ⟨k, v⟩ := p
    simp only [Mesh.keysNodup, Bool.and_eq_true, ih, List.map_cons, List.nodup_cons]
    simp only [Bool.not_eq_eq_eq_not, Bool.not_true, List.any_eq_false, beq_iff_eq, List.mem_map,
      not_exists, not_and]

theorem alGet?_some_mem {β : Type} {k : Id} {l : List (Id × β)} {v : β}
    (h : alGet? k l = some v) : (k, v) ∈ l := by
  induction l with
  | nil => simp [alGet?] at h
  | cons p r ih =>
    obtain ⟨k', v'⟩ := p
    simp only [alGet?] at h
    split at h
    · simp_all
    · simp [ih h]

theorem alGet?_of_mem {β : Type} {k : Id} {l : List (Id × β)} {v : β}
    (hnd : (l.map (·.1)).Nodup) (h : (k, v) ∈ l) : alGet? k l = some v := by
  induction l with
  | nil => simp at h
  | cons p r ih =>
    obtain ⟨k', v'⟩ := p
    simp only [List.map_cons, List.nodup_cons] at hnd
    simp only [alGet?]
    rcases List.mem_cons.mp h with h' | h'
    · simp only [Prod.mk.injEq] at h'; simp [h'.1, h'.2]
    · have : k ≠ k' := by
        intro hk; subst hk
        exact hnd.1 (List.mem_map.mpr ⟨(k, v), h', rfl⟩)
      simp [this, ih hnd.2 h']

theorem alGet?_isSome_iff {β : Type} (k : Id) (l : List (Id × β)) :
    (alGet? k l).isSome = true ↔ k ∈ l.map (·.1) := by
  induction l with
  | nil => simp [alGet?]
  | cons p r ih =>
    obtain ⟨k', v'⟩ := p
    simp only [alGet?, List.map_cons, List.mem_cons]
    split
    · simp_all
    · simp_all

theorem alGet?_eq_none_iff {β : Type} (k : Id) (l : List (Id × β)) :
    alGet? k l = none ↔ k ∉ l.map (·.1) := by
  rw [← alGet?_isSome_iff]; cases alGet? k l <;> simp

theorem alGet?_append {β : Type} (k : Id) (l l' : List (Id × β)) :
    alGet? k (l ++ l') = (alGet? k l).or (alGet? k l') := by
  induction l with
  | nil => simp [alGet?]
  | cons p r ih =>
    obtain ⟨k', v'⟩ := p
    simp only [List.cons_append, alGet?]
    split <;> simp_all

theorem alGet?_filter_ne {β : Type} (k k0 : Id) (l : List (Id × β)) :
    alGet? k (l.filter fun p => p.1 != k0) = if k = k0 then none else alGet? k l := by
  induction l with
  | nil => simp [alGet?]
  | cons p r ih =>
    obtain ⟨k', v'⟩ := p
    simp only [List.filter_cons]
    by_cases h1 : k' = k0
    · subst h1
      simp only [bne_self_eq_false, Bool.false_eq_true, ↓reduceIte, ih, alGet?]
      split <;> simp_all
    · have : (k' != k0) = true := by simpa using h1
      simp only [this, ↓reduceIte, alGet?, ih]
      split <;> split <;> simp_all

namespace Mesh

/-! ### Prop-level forms of the clauses -/

def KeysP (m : Mesh) : Prop :=
  (∀ p ∈ m.vertices, p.1 = p.2.id) ∧ (∀ p ∈ m.edges, p.1 = p.2.id) ∧ (∀ p ∈ m.cells, p.1 = p.2.id) ∧
  (m.vertices.map (·.1)).Nodup ∧ (m.edges.map (·.1)).Nodup ∧ (m.cells.map (·.1)).Nodup

theorem keysOk_iff (m : Mesh) : m.keysOk = true ↔ KeysP m := by
  simp only [keysOk, KeysP, Bool.and_eq_true, List.all_eq_true, beq_iff_eq, keysNodup_iff]
  constructor
  · rintro ⟨⟨⟨⟨⟨a, b⟩, c⟩, d⟩, e⟩, f⟩; exact ⟨a, b, c, d, e, f⟩
  · rintro ⟨a, b, c, d, e, f⟩; exact ⟨⟨⟨⟨⟨a, b⟩, c⟩, d⟩, e⟩, f⟩

def OwnEdgesP (m : Mesh) : Prop :=
  ∀ p ∈ m.vertices,
    (∀ e ∈ p.2.ownEdges, ∃ ed, alGet? e m.edges = some ed ∧ (ed.v1 = p.2.id ∨ ed.v2 = p.2.id)) ∧
    (∀ q ∈ m.edges, (q.2.v1 = p.2.id ∨ q.2.v2 = p.2.id) → q.2.id ∈ p.2.ownEdges) ∧
    p.2.ownEdges.Nodup

theorem ownEdgesOk_iff (m : Mesh) : m.ownEdgesOk = true ↔ OwnEdgesP m := by
  simp only [ownEdgesOk, OwnEdgesP, List.all_eq_true, Bool.and_eq_true, eraseDups_beq_iff, edge?]
  constructor
  · intro h p hp
    obtain ⟨⟨h1, h2⟩, h3⟩ := h p hp
    refine ⟨?_, ?_, h3⟩
    · intro e he
      have := h1 e he
      split at this
      · rename_i ed hed
        exact ⟨ed, hed, by simpa [edgeEndsAt] using this⟩
      · simp at this
    · intro q hq hends
      have := h2 q hq
      simp only [edgeEndsAt, Bool.or_eq_true, Bool.not_eq_eq_eq_not, Bool.not_true,
        List.contains_eq_mem, decide_eq_true_eq] at this
      rcases this with h | h
      · rcases hends with h' | h' <;> simp [h'] at h
      · exact h
  · intro h p hp
    obtain ⟨h1, h2, h3⟩ := h p hp
    refine ⟨⟨?_, ?_⟩, h3⟩
    · intro e he
      obtain ⟨ed, hed, hends⟩ := h1 e he
      simp [hed, edgeEndsAt, hends]
    · intro q hq
      by_cases hends : q.2.v1 = p.2.id ∨ q.2.v2 = p.2.id
      · simp [h2 q hq hends]
      · simp only [not_or] at hends
        simp [edgeEndsAt, hends.1, hends.2]

def OwnCellsP (m : Mesh) : Prop :=
  ∀ p ∈ m.vertices,
    (∀ c ∈ p.2.ownCells, ∃ cl, alGet? c m.cells = some cl ∧ p.2.id ∈ cl.verts) ∧
    (∀ q ∈ m.cells, p.2.id ∈ q.2.verts → q.2.id ∈ p.2.ownCells) ∧
    p.2.ownCells.Nodup

theorem ownCellsOk_iff (m : Mesh) : m.ownCellsOk = true ↔ OwnCellsP m := by
  simp only [ownCellsOk, OwnCellsP, List.all_eq_true, Bool.and_eq_true, eraseDups_beq_iff, cell?]
  constructor
  · intro h p hp
    obtain ⟨⟨h1, h2⟩, h3⟩ := h p hp
    refine ⟨?_, ?_, h3⟩
    · intro e he
      have := h1 e he
      split at this
      · rename_i ed hed
        exact ⟨ed, hed, by simpa using this⟩
      · simp at this
    · intro q hq hends
      have := h2 q hq
      simpa [hends] using this
  · intro h p hp
    obtain ⟨h1, h2, h3⟩ := h p hp
    refine ⟨⟨?_, ?_⟩, h3⟩
    · intro e he
      obtain ⟨ed, hed, hends⟩ := h1 e he
      simp [hed, hends]
    · intro q hq
      by_cases hends : p.2.id ∈ q.2.verts
      · simp [hends, h2 q hq hends]
      · simp [hends]

def RefsP (m : Mesh) : Prop :=
  (∀ q ∈ m.edges, q.2.same = true ∧ q.2.v1 ∈ m.vertices.map (·.1) ∧ q.2.v2 ∈ m.vertices.map (·.1)) ∧
  (∀ q ∈ m.cells, q.2.same = true ∧ ∀ v ∈ q.2.verts, v ∈ m.vertices.map (·.1))

theorem refsOk_iff (m : Mesh) : m.refsOk = true ↔ RefsP m := by
  simp only [refsOk, RefsP, List.all_eq_true, Bool.and_eq_true, vertex?, alGet?_isSome_iff, and_assoc]

def CellsNodupP (m : Mesh) : Prop := ∀ q ∈ m.cells, q.2.verts.Nodup

theorem cellsNodup_iff (m : Mesh) : m.cellsNodup = true ↔ CellsNodupP m := by
  simp only [cellsNodup, CellsNodupP, List.all_eq_true, eraseDups_beq_iff]

def JoinedP (m : Mesh) (a b : Id) : Prop :=
  ∃ q ∈ m.edges, (q.2.v1 = a ∧ q.2.v2 = b) ∨ (q.2.v1 = b ∧ q.2.v2 = a)

theorem joined_iff (m : Mesh) (a b : Id) : m.joined a b = true ↔ JoinedP m a b := by
  simp only [joined, JoinedP, List.any_eq_true, Bool.or_eq_true, Bool.and_eq_true, beq_iff_eq]

def CyclesJoinedP (m : Mesh) : Prop :=
  ∀ q ∈ m.cells, ∀ ab ∈ cyclicPairs q.2.verts, JoinedP m ab.1 ab.2

theorem cyclesJoined_iff (m : Mesh) : m.cyclesJoined = true ↔ CyclesJoinedP m := by
  simp only [cyclesJoined, CyclesJoinedP, List.all_eq_true, joined_iff]

theorem consistent_iff (m : Mesh) : m.Consistent = true ↔
    KeysP m ∧ OwnEdgesP m ∧ OwnCellsP m ∧ RefsP m ∧ CellsNodupP m ∧ CyclesJoinedP m := by
  simp only [Consistent, Bool.and_eq_true, keysOk_iff, ownEdgesOk_iff, ownCellsOk_iff, refsOk_iff,
    cellsNodup_iff, cyclesJoined_iff, and_assoc]

/-! ### structural lemmas -/

theorem filter_ne_of_not_mem_keys {β : Type} (l : List (Id × β)) (k : Id) (h : k ∉ l.map (·.1)) :
    l.filter (fun p => p.1 != k) = l := by
  apply List.filter_eq_self.mpr
  intro p hp
  have : p.1 ≠ k := fun hk => h (hk ▸ List.mem_map.mpr ⟨p, hp, rfl⟩)
  simpa using this

@[simp] theorem updVertex_edges (m : Mesh) (k : Id) (f : Vertex → Vertex) : (m.updVertex k f).edges = m.edges := rfl
@[simp] theorem updVertex_cells (m : Mesh) (k : Id) (f : Vertex → Vertex) : (m.updVertex k f).cells = m.cells := rfl
theorem updVertex_vertices (m : Mesh) (k : Id) (f : Vertex → Vertex) :
    (m.updVertex k f).vertices = m.vertices.map fun p => (p.1, if p.1 = k then f p.2 else p.2) := by
  simp only [updVertex]
  apply List.map_congr_left
  rintro ⟨k', v⟩ _
  by_cases h : k' = k <;> simp [h]

theorem foldl_updVertex (g : Vertex → Vertex) (vs : List Id) (hnd : vs.Nodup) (m : Mesh) :
    vs.foldl (fun m v => m.updVertex v g) m =
      { m with vertices := m.vertices.map fun p => (p.1, if p.1 ∈ vs then g p.2 else p.2) } := by
  induction vs generalizing m with
  | nil => simp
  | cons v vs ih =>
    simp only [List.nodup_cons] at hnd
    simp only [List.foldl_cons, ih hnd.2, updVertex_vertices, List.map_map, updVertex_edges, updVertex_cells]
    congr 1
    apply List.map_congr_left
    rintro ⟨k', x⟩ _
    by_cases h1 : k' = v
    · subst h1; simp [hnd.1]
    · simp [h1]

theorem addEdgeTo_idem (v : Vertex) (k : Id) : addEdgeTo (addEdgeTo v k) k = addEdgeTo v k := by
  unfold addEdgeTo
  by_cases h : k ∈ v.ownEdges
  · simp [h]
  · simp [h]

theorem mkEdge_vertices (m : Mesh) (k a b : Id) :
    (m.mkEdge k a b).vertices =
      m.vertices.map fun p => (p.1, if p.1 = a ∨ p.1 = b then addEdgeTo p.2 k else p.2) := by
  simp only [mkEdge, updVertex_vertices, List.map_map]
  apply List.map_congr_left
  rintro ⟨k', x⟩ _
  by_cases h1 : k' = a <;> by_cases h2 : k' = b
  · subst h1; subst h2; simp [addEdgeTo_idem]
  · subst h1; have : ¬ k' = b := h2
    simp [this]
  · subst h2; have : ¬ k' = a := h1
    simp [this]
  · simp [h1, h2]

theorem mkEdge_edges (m : Mesh) (k a b : Id) :
    (m.mkEdge k a b).edges = (m.edges.filter fun p => p.1 != k) ++ [(k, { id := k, v1 := a, v2 := b })] := rfl

@[simp] theorem mkEdge_cells (m : Mesh) (k a b : Id) : (m.mkEdge k a b).cells = m.cells := rfl

theorem mkEdge_vkeys (m : Mesh) (k a b : Id) :
    (m.mkEdge k a b).vertices.map (·.1) = m.vertices.map (·.1) := by
  simp [mkEdge_vertices, List.map_map, Function.comp_def]

end Mesh

end Forsys
