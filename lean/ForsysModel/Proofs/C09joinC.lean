/- list lemmas on cyclic pairs for Props/C09join.lean -/
import ForsysModel.Proofs.C09joinB
import Mathlib.Data.List.Rotate
namespace Forsys
namespace Mesh

theorem cyclicPairs_eq_zip_rotate {α : Type} (l : List α) : cyclicPairs l = List.zip l (l.rotate 1) := by
  cases l with
  | nil => simp [cyclicPairs]
  | cons a t => simp [cyclicPairs]

theorem cyclicPairs_rotate {α : Type} (l : List α) (n : Nat) :
    cyclicPairs (l.rotate n) = (cyclicPairs l).rotate n := by
  rw [cyclicPairs_eq_zip_rotate, cyclicPairs_eq_zip_rotate, List.rotate_rotate, Nat.add_comm, ← List.rotate_rotate]
  unfold List.zip
  rw [List.zipWith_rotate_distrib]
  simp

theorem mem_cyclicPairs_rotate {α : Type} (l : List α) (n : Nat) (p : α × α) :
    p ∈ cyclicPairs (l.rotate n) ↔ p ∈ cyclicPairs l := by
  rw [cyclicPairs_rotate, List.mem_rotate]

theorem cyclicPairs_map {α β : Type} (f : α → β) (l : List α) :
    cyclicPairs (l.map f) = (cyclicPairs l).map fun p => (f p.1, f p.2) := by
  cases l with
  | nil => simp [cyclicPairs]
  | cons a t =>
    simp only [cyclicPairs, List.map_cons]
    rw [show List.map f t ++ [f a] = List.map f (t ++ [a]) by simp, ← List.map_cons, List.zip_map]
    rfl

theorem zip_tail_snoc {α : Type} (l : List α) (z : α) (h : l ≠ []) :
    List.zip l (l.tail ++ [z]) = List.zip l l.tail ++ [(l.getLast h, z)] := by
  induction l with
  | nil => exact absurd rfl h
  | cons x t ih =>
    cases t with
    | nil => simp
    | cons y t' =>
      have := ih (by simp)
      simp only [List.tail_cons] at this ⊢
      rw [List.zip_cons_cons, List.cons_append, List.zip_cons_cons, this]
      simp

theorem rot_erase (l : List Id) (b : Id) (hnd : l.Nodup) (hb : b ∈ l) :
    ∃ n k R, l.rotate n = b :: R ∧ (l.erase b).rotate k = R := by
  obtain ⟨s, t, rfl⟩ := List.append_of_mem hb
  refine ⟨s.length, s.length, t ++ s, by rw [List.rotate_append_length_eq]; simp, ?_⟩
  have hbs : b ∉ s := by
    intro h
    have := List.nodup_append.mp hnd
    exact this.2.2 b h b (by simp) rfl
  rw [List.erase_append_right _ hbs]
  simp [List.rotate_append_length_eq]

theorem map_erase_of (f : Id → Id) (b : Id) (l : List Id) (h : ∀ x ∈ l, f x = b ↔ x = b) :
    (l.map f).erase b = (l.erase b).map f := by
  induction l with
  | nil => simp
  | cons x t ih =>
    have hx := h x (List.mem_cons_self ..)
    have ih' := ih (fun y hy => h y (List.mem_cons_of_mem _ hy))
    simp only [List.map_cons, List.erase_cons]
    by_cases hxb : x = b
    · have : f x = b := hx.mpr hxb
      subst hxb
      simp [this]
    · have : f x ≠ b := fun hh => hxb (hx.mp hh)
      simp [hxb, this, ih']

theorem tau_of_ne (a b new v : Id) (h1 : v ≠ a) (h2 : v ≠ b) : tau a b new v = v := by
  simp [tau, h1, h2]

theorem cyclicPairs_nvs (a b new : Id) (L : List Id) (hnd : L.Nodup) (hab : a ≠ b) (hnL : new ∉ L)
    (hadj : a ∈ L → b ∈ L → 3 ≤ L.length ∧ ((a, b) ∈ cyclicPairs L ∨ (b, a) ∈ cyclicPairs L)) :
    ∀ xy ∈ cyclicPairs (nvs a b new L), ∃ xy0 ∈ cyclicPairs L,
      tau a b new xy0.1 = xy.1 ∧ tau a b new xy0.2 = xy.2 ∧
      ¬(xy0.1 = a ∧ xy0.2 = b) ∧ ¬(xy0.1 = b ∧ xy0.2 = a) := by
  intro xy hxy
  unfold nvs at hxy
  by_cases ha : a ∈ L
  · by_cases hb : b ∈ L
    · -- both: the hard case
      simp only [ha, hb, ↓reduceIte] at hxy
      have hnb : new ≠ b := fun h => hnL (h ▸ hb)
      have hσ : ∀ x ∈ L, ((fun v => if v = a then new else v) x = b ↔ x = b) := by
        intro x _
        by_cases hxa : x = a
        · simp only [hxa, ↓reduceIte]
          constructor
          · intro h; exact absurd h hnb
          · intro h; exact absurd h hab
        · simp [hxa]
      rw [map_erase_of _ b L hσ, cyclicPairs_map] at hxy
      obtain ⟨p1, hp1, rfl⟩ := List.mem_map.mp hxy
      obtain ⟨n, k, R, hR1, hR2⟩ := rot_erase L b hnd hb
      have hp1R : p1 ∈ cyclicPairs R := by
        rw [← hR2]; exact (mem_cyclicPairs_rotate _ k p1).mpr hp1
      have hbR : (b :: R).Nodup := by rw [← hR1]; exact List.nodup_rotate.mpr hnd
      have hlen : (b :: R).length = L.length := by rw [← hR1, List.length_rotate]
      obtain ⟨hlen3, hadj'⟩ := hadj ha hb
      have hCPL : ∀ p, p ∈ cyclicPairs (b :: R) ↔ p ∈ cyclicPairs L := by
        intro p; rw [← hR1]; exact mem_cyclicPairs_rotate L n p
      simp only [List.nodup_cons] at hbR
      obtain ⟨hbR, hRnd⟩ := hbR
      cases R with
      | nil => simp at hlen; omega
      | cons r0 R' =>
        have hR'ne : R' ≠ [] := by
          intro h; subst h; simp at hlen; omega
        have hcp1 : cyclicPairs (r0 :: R') = List.zip (r0 :: R') R' ++ [((r0 :: R').getLast (by simp), r0)] := by
          have := zip_tail_snoc (r0 :: R') r0 (by simp)
          simpa [cyclicPairs] using this
        have hcp2 : cyclicPairs (b :: r0 :: R') =
            (b, r0) :: (List.zip (r0 :: R') R' ++ [((r0 :: R').getLast (by simp), b)]) := by
          have := zip_tail_snoc (r0 :: R') b (by simp)
          simp only [List.tail_cons] at this
          simp only [cyclicPairs, List.cons_append, List.zip_cons_cons, this]
        have hlast_mem : (r0 :: R').getLast (by simp) ∈ R' := by
          rw [List.getLast_cons hR'ne]; exact List.getLast_mem hR'ne
        have hr0_ne_last : r0 ≠ (r0 :: R').getLast (by simp) := by
          intro h
          have := (List.nodup_cons.mp hRnd).1
          exact this (h ▸ hlast_mem)
        have hlast_ne_b : (r0 :: R').getLast (by simp) ≠ b := by
          intro h; exact hbR (h ▸ List.mem_cons_of_mem _ hlast_mem)
        have hr0_ne_b : r0 ≠ b := fun h => hbR (h ▸ List.mem_cons_self ..)
        rw [hcp1] at hp1R
        rcases List.mem_append.mp hp1R with hz | hz
        · -- an inner pair of R
          have hmem := List.of_mem_zip hz
          have h1b : p1.1 ≠ b := fun h => hbR (h ▸ hmem.1)
          have h2b : p1.2 ≠ b := fun h => hbR (h ▸ List.mem_cons_of_mem _ hmem.2)
          refine ⟨p1, (hCPL p1).mp ?_, ?_, ?_, ?_, ?_⟩
          · rw [hcp2]; exact List.mem_cons_of_mem _ (List.mem_append_left _ hz)
          · simp only [tau]; by_cases h : p1.1 = a <;> simp [h, h1b]
          · simp only [tau]; by_cases h : p1.2 = a <;> simp [h, h2b]
          · exact fun h => h2b h.2
          · exact fun h => h1b h.1
        · simp only [List.mem_singleton] at hz
          subst hz
          simp only
          rcases hadj' with hh | hh
          · -- (a, b) consecutive: a is the last vertex of R
            rw [← hCPL, hcp2] at hh
            have haL : a = (r0 :: R').getLast (by simp) := by
              rcases List.mem_cons.mp hh with h | h
              · simp only [Prod.mk.injEq] at h; exact absurd h.1 hab
              · rcases List.mem_append.mp h with h | h
                · exact absurd (List.mem_cons_of_mem _ (List.of_mem_zip h).2) hbR
                · simp only [List.mem_singleton, Prod.mk.injEq] at h; exact h.1
            refine ⟨(b, r0), (hCPL _).mp (by rw [hcp2]; exact List.mem_cons_self ..), ?_, ?_, ?_, ?_⟩
            · simp [tau, ← haL]
            · have : r0 ≠ a := haL ▸ hr0_ne_last
              simp [tau, this, hr0_ne_b]
            · exact fun h => hab h.1.symm
            · exact fun h => hr0_ne_last (haL ▸ h.2)
          · -- (b, a) consecutive: a is the first vertex of R
            rw [← hCPL, hcp2] at hh
            have haL : a = r0 := by
              rcases List.mem_cons.mp hh with h | h
              · simp only [Prod.mk.injEq] at h; exact h.2
              · rcases List.mem_append.mp h with h | h
                · exact absurd (List.of_mem_zip h).1 hbR
                · simp only [List.mem_singleton, Prod.mk.injEq] at h; exact absurd h.2 hab
            refine ⟨((r0 :: R').getLast (by simp), b), (hCPL _).mp ?_, ?_, ?_, ?_, ?_⟩
            · rw [hcp2]; exact List.mem_cons_of_mem _ (List.mem_append_right _ (by simp))
            · have : (r0 :: R').getLast (by simp) ≠ a := fun h => hr0_ne_last (haL.symm.trans h.symm)
              simp [tau, this, hlast_ne_b]
            · simp [tau, ← haL]
            · exact fun h => hr0_ne_last (haL.symm.trans h.1.symm)
            · exact fun h => hlast_ne_b h.1
    · -- only a
      simp only [ha, hb, ↓reduceIte] at hxy
      rw [cyclicPairs_map] at hxy
      obtain ⟨p1, hp1, rfl⟩ := List.mem_map.mp hxy
      obtain ⟨m1, m2⟩ := mem_cyclicPairs hp1
      have h1b : p1.1 ≠ b := fun h => hb (h ▸ m1)
      have h2b : p1.2 ≠ b := fun h => hb (h ▸ m2)
      refine ⟨p1, hp1, ?_, ?_, fun h => h2b h.2, fun h => h1b h.1⟩
      · simp only [tau]; by_cases h : p1.1 = a <;> simp [h, h1b]
      · simp only [tau]; by_cases h : p1.2 = a <;> simp [h, h2b]
  · by_cases hb : b ∈ L
    · simp only [ha, hb, ↓reduceIte] at hxy
      rw [cyclicPairs_map] at hxy
      obtain ⟨p1, hp1, rfl⟩ := List.mem_map.mp hxy
      obtain ⟨m1, m2⟩ := mem_cyclicPairs hp1
      have h1a : p1.1 ≠ a := fun h => ha (h ▸ m1)
      have h2a : p1.2 ≠ a := fun h => ha (h ▸ m2)
      refine ⟨p1, hp1, ?_, ?_, fun h => h1a h.1, fun h => h2a h.2⟩
      · simp only [tau]; by_cases h : p1.1 = b <;> simp [h, h1a]
      · simp only [tau]; by_cases h : p1.2 = b <;> simp [h, h2a]
    · simp only [ha, hb, ↓reduceIte] at hxy
      obtain ⟨m1, m2⟩ := mem_cyclicPairs hxy
      have h1a : xy.1 ≠ a := fun h => ha (h ▸ m1)
      have h2a : xy.2 ≠ a := fun h => ha (h ▸ m2)
      have h1b : xy.1 ≠ b := fun h => hb (h ▸ m1)
      have h2b : xy.2 ≠ b := fun h => hb (h ▸ m2)
      exact ⟨xy, hxy, tau_of_ne _ _ _ _ h1a h1b, tau_of_ne _ _ _ _ h2a h2b, fun h => h1a h.1, fun h => h1b h.1⟩

theorem mem_map_sigma_iff (a new v : Id) (L : List Id) :
    v ∈ (L.map fun x => if x = a then new else x) ↔ (v = new ∧ a ∈ L) ∨ (v ≠ a ∧ v ∈ L) := by
  simp only [List.mem_map]
  constructor
  · rintro ⟨x, hx, h⟩
    by_cases hxa : x = a
    · simp only [hxa, ↓reduceIte] at h
      exact Or.inl ⟨h.symm, hxa ▸ hx⟩
    · simp only [hxa, ↓reduceIte] at h
      exact Or.inr ⟨h ▸ hxa, h ▸ hx⟩
  · rintro (⟨h1, h2⟩ | ⟨h1, h2⟩)
    · exact ⟨a, h2, by simp [h1]⟩
    · exact ⟨v, h2, by simp [h1]⟩

theorem map_sigma_nodup (a new : Id) (L : List Id) (hnd : L.Nodup) (hn : new ∉ L) :
    (L.map fun x => if x = a then new else x).Nodup := by
  apply List.Nodup.map_on _ hnd
  intro x hx y hy h
  by_cases hxa : x = a <;> by_cases hya : y = a
  · rw [hxa, hya]
  · simp only [hxa, hya, ↓reduceIte] at h; exact absurd (h ▸ hy) hn
  · simp only [hxa, hya, ↓reduceIte] at h; exact absurd (h ▸ hx) hn
  · simpa [hxa, hya] using h

theorem nvs_nodup (a b new : Id) (L : List Id) (hnd : L.Nodup) (hn : new ∉ L) : (nvs a b new L).Nodup := by
  unfold nvs
  split
  · split
    · exact (map_sigma_nodup a new L hnd hn).erase _
    · exact map_sigma_nodup a new L hnd hn
  · split
    · exact map_sigma_nodup b new L hnd hn
    · exact hnd

theorem nvs_mem (a b new v : Id) (L : List Id) (hnd : L.Nodup) (hn : new ∉ L) (hnb : new ≠ b) :
    v ∈ nvs a b new L ↔ (v ≠ a ∧ v ≠ b ∧ v ∈ L) ∨ (v = new ∧ (a ∈ L ∨ b ∈ L)) := by
  unfold nvs
  by_cases ha : a ∈ L <;> by_cases hb : b ∈ L <;> simp only [ha, hb, ↓reduceIte]
  · rw [List.Nodup.mem_erase_iff (map_sigma_nodup a new L hnd hn), mem_map_sigma_iff a new v L]
    constructor
    · rintro ⟨h1, h | h⟩
      · exact Or.inr ⟨h.1, Or.inl trivial⟩
      · exact Or.inl ⟨h.1, h1, h.2⟩
    · rintro (h | h)
      · exact ⟨h.2.1, Or.inr ⟨h.1, h.2.2⟩⟩
      · exact ⟨h.1 ▸ hnb, Or.inl ⟨h.1, ha⟩⟩
  · rw [mem_map_sigma_iff a new v L]
    constructor
    · rintro (h | h)
      · exact Or.inr ⟨h.1, Or.inl trivial⟩
      · exact Or.inl ⟨h.1, fun hvb => hb (hvb ▸ h.2), h.2⟩
    · rintro (h | h)
      · exact Or.inr ⟨h.1, h.2.2⟩
      · exact Or.inl ⟨h.1, ha⟩
  · rw [mem_map_sigma_iff b new v L]
    constructor
    · rintro (h | h)
      · exact Or.inr ⟨h.1, Or.inr trivial⟩
      · exact Or.inl ⟨fun hva => ha (hva ▸ h.2), h.1, h.2⟩
    · rintro (h | h)
      · exact Or.inr ⟨h.2.1, h.2.2⟩
      · exact Or.inl ⟨h.1, hb⟩
  · constructor
    · intro h
      exact Or.inl ⟨fun hva => ha (hva ▸ h), fun hvb => hb (hvb ▸ h), h⟩
    · rintro (h | h)
      · exact h.2.2
      · rcases h.2 with h | h <;> exact absurd h (by simp)

end Mesh
end Forsys
