/- helper lemmas for Props/C08tissue.lean (tissue-level statements about `Mesh.bigEdgesList`) -/
import ForsysModel.Props.C08
import Mathlib.Data.List.Induction
import Mathlib.Data.List.Infix
import Mathlib.Data.List.Nodup
import Mathlib.Data.List.Perm.Subperm
namespace Forsys
variable {α : Type}

section dedup
variable [DecidableEq α]

theorem dedup_concat (ps : List (List α)) (e : List α) :
    dedup (ps ++ [e]) = if e.reverse ∈ dedup ps ∨ e ∈ dedup ps then dedup ps else dedup ps ++ [e] := by
  rw [dedup_eq, dedup_eq, List.foldl_append]
  simp [dedupStep]

theorem dedup_seen_iff (ps : List (List α)) (e : List α) :
    (e.reverse ∈ dedup ps ∨ e ∈ dedup ps) ↔ (e.reverse ∈ ps ∨ e ∈ ps) := by
  constructor
  · rintro (h | h)
    · exact Or.inl (dedup_sub ps _ h)
    · exact Or.inr (dedup_sub ps _ h)
  · rintro (h | h)
    · rcases dedup_complete ps _ h with h' | h'
      · exact Or.inl h'
      · right; simpa using h'
    · rcases dedup_complete ps _ h with h' | h'
      · exact Or.inr h'
      · exact Or.inl h'

/-- what the de-duplication loop keeps: exactly the candidates at whose position neither the candidate nor its
    reversal has been seen before (the first occurrence, in the direction of that first occurrence) -/
theorem dedup_mem_iff' (ps : List (List α)) (p : List α) :
    p ∈ dedup ps ↔ ∃ i, ∃ h : i < ps.length, ps[i] = p ∧ p ∉ ps.take i ∧ p.reverse ∉ ps.take i := by
  induction ps using List.reverseRecOn with
  | nil => simp [dedup]
  | append_singleton ps e ih =>
    rw [dedup_concat]
    by_cases hs : e.reverse ∈ dedup ps ∨ e ∈ dedup ps
    · rw [if_pos hs, ih]
      have hs' := (dedup_seen_iff ps e).1 hs
      constructor
      · rintro ⟨i, h, h1, h2, h3⟩
        refine ⟨i, by simp; omega, ?_, ?_, ?_⟩
        · rw [List.getElem_append_left h]; exact h1
        · rw [List.take_append_of_le_length (by omega)]; exact h2
        · rw [List.take_append_of_le_length (by omega)]; exact h3
      · rintro ⟨i, h, h1, h2, h3⟩
        have hi : i < ps.length ∨ i = ps.length := by simp at h; omega
        rcases hi with hi | hi
        · refine ⟨i, hi, ?_, ?_, ?_⟩
          · rw [List.getElem_append_left hi] at h1; exact h1
          · rw [List.take_append_of_le_length (by omega)] at h2; exact h2
          · rw [List.take_append_of_le_length (by omega)] at h3; exact h3
        · subst hi
          simp at h1 h2 h3
          subst h1
          rcases hs' with hs' | hs'
          · exact absurd hs' h3
          · exact absurd hs' h2
    · rw [if_neg hs]
      have hs' : ¬ (e.reverse ∈ ps ∨ e ∈ ps) := fun h => hs ((dedup_seen_iff ps e).2 h)
      rw [List.mem_append, ih]
      constructor
      · rintro (⟨i, h, h1, h2, h3⟩ | h)
        · refine ⟨i, by simp; omega, ?_, ?_, ?_⟩
          · rw [List.getElem_append_left h]; exact h1
          · rw [List.take_append_of_le_length (by omega)]; exact h2
          · rw [List.take_append_of_le_length (by omega)]; exact h3
        · simp at h
          subst h
          refine ⟨ps.length, by simp, by simp, ?_, ?_⟩
          · simp; exact fun h => hs' (Or.inr h)
          · simp; exact fun h => hs' (Or.inl h)
      · rintro ⟨i, h, h1, h2, h3⟩
        have hi : i < ps.length ∨ i = ps.length := by simp at h; omega
        rcases hi with hi | hi
        · left
          refine ⟨i, hi, ?_, ?_, ?_⟩
          · rw [List.getElem_append_left hi] at h1; exact h1
          · rw [List.take_append_of_le_length (by omega)] at h2; exact h2
          · rw [List.take_append_of_le_length (by omega)] at h3; exact h3
        · subst hi
          right
          simp at h1
          simp [h1]

end dedup

/-- a consecutive pair of a path, as an infix -/
theorem infix_of_mem_zip_tail (p : List α) (a b : α) (h : (a, b) ∈ List.zip p p.tail) : [a, b] <:+: p := by
  induction p with
  | nil => simp at h
  | cons x t ih =>
    cases t with
    | nil => simp at h
    | cons y t' =>
      simp only [List.tail_cons, List.zip_cons_cons, List.mem_cons, Prod.mk.injEq] at h
      rcases h with ⟨rfl, rfl⟩ | h
      · exact ⟨[], t', by simp⟩
      · have := ih (by simpa using h)
        exact this.trans (List.suffix_cons x _).isInfix

theorem mem_zip_tail_of_infix (p : List α) (a b : α) (h : [a, b] <:+: p) : (a, b) ∈ List.zip p p.tail := by
  obtain ⟨s, t, rfl⟩ := h
  induction s with
  | nil => simp
  | cons x s ih =>
    cases s with
    | nil => simp
    | cons y s' =>
      simp only [List.cons_append, List.tail_cons, List.zip_cons_cons, List.mem_cons]
      right
      simpa using ih

theorem cyclicPairs_map_fst (l : List α) : (cyclicPairs l).map Prod.fst = l := by
  cases l with
  | nil => rfl
  | cons a t =>
    unfold cyclicPairs
    rw [List.map_fst_zip]
    simp

/-- the cyclic consecutive pairs of a cycle without repeated vertex are pairwise different -/
theorem cyclicPairs_nodup (l : List α) (h : l.Nodup) : (cyclicPairs l).Nodup := by
  apply List.Nodup.of_map Prod.fst
  rw [cyclicPairs_map_fst]; exact h

namespace Mesh

/-- every candidate interface of the tissue, cell by cell in dictionary order (the list `earr` of
    `create_edges_new` before its final de-duplication loop) -/
def allPaths (m : Mesh) : List (List Id) :=
  (m.cells.map fun (_, c) => cellPaths m.isJunction c.verts).flatten

theorem bigEdgesList_eq_dedup_allPaths (m : Mesh) : m.bigEdgesList = dedup m.allPaths := rfl

theorem mem_allPaths (m : Mesh) (p : List Id) :
    p ∈ m.allPaths ↔ ∃ c ∈ m.cells, p ∈ cellPaths m.isJunction c.2.verts := by
  unfold allPaths
  simp only [List.mem_flatten, List.mem_map]
  constructor
  · rintro ⟨l, ⟨c, hc, rfl⟩, hp⟩; exact ⟨c, hc, hp⟩
  · rintro ⟨c, hc, hp⟩; exact ⟨_, ⟨c, hc, rfl⟩, hp⟩

/-- in a consistent mesh a cell listed by a vertex is a key of the cell dictionary and has the vertex on its cycle -/
theorem mem_verts_of_mem_ownCells (m : Mesh) (h : m.Consistent = true) (v c : Id) (hc : c ∈ m.ownCells v) :
    ∃ cl, m.cell? c = some cl ∧ v ∈ cl.verts := by
  obtain ⟨hk, _, hoc, _, _, _⟩ := (consistent_iff m).1 h
  unfold ownCells vertex? at hc
  cases hv : alGet? v m.vertices with
  | none => simp [hv] at hc
  | some vx =>
    simp [hv] at hc
    have hp := alGet?_some_mem hv
    have hid : v = vx.id := hk.1 (v, vx) hp
    obtain ⟨cl, hcl, hmem⟩ := (hoc (v, vx) hp).1 c hc
    exact ⟨cl, hcl, by simpa [← hid] using hmem⟩

end Mesh

/-! ### junction-to-junction paths with a deterministic continuation are determined by one of their edges -/

/-- non-junction vertices followed by one closing junction -/
def EndsAtJ (isJ : α → Bool) : List α → Prop
  | [] => False
  | [j] => isJ j = true
  | c :: d :: t => isJ c = false ∧ EndsAtJ isJ (d :: t)

theorem EndsAtJ_concat (isJ : α → Bool) (mid : List α) (b : α) (hb : isJ b = true)
    (hmid : ∀ c ∈ mid, isJ c = false) : EndsAtJ isJ (mid ++ [b]) := by
  induction mid with
  | nil => simpa [EndsAtJ] using hb
  | cons c t ih =>
    cases t with
    | nil => simp [EndsAtJ, hb, hmid]
    | cons d t' =>
      simp only [List.cons_append, EndsAtJ]
      exact ⟨hmid c (by simp), by simpa using ih (fun x hx => hmid x (by simp [hx]))⟩

theorem EndsAtJ_suffix (isJ : α → Bool) (l l' : List α) (h : EndsAtJ isJ l) (hs : l' <:+ l) (hne : l' ≠ []) :
    EndsAtJ isJ l' := by
  induction l with
  | nil => simp [EndsAtJ] at h
  | cons c t ih =>
    rcases List.suffix_cons_iff.1 hs with rfl | hs'
    · exact h
    · cases t with
      | nil => simp at hs'; exact absurd hs' hne
      | cons d t' => exact ih h.2 hs'

structure GoodPath (isJ : α → Bool) (Adj : α → α → Prop) (p : List α) : Prop where
  shape : ∃ a mid b, p = a :: (mid ++ [b]) ∧ isJ a = true ∧ isJ b = true ∧ ∀ c ∈ mid, isJ c = false
  chain : ∀ x y, [x, y] <:+: p → Adj x y
  nb : ∀ x v y, [x, v, y] <:+: p → x ≠ y

theorem GoodPath.reverse {isJ : α → Bool} {Adj : α → α → Prop} (hsym : ∀ x y, Adj x y → Adj y x) {p : List α}
    (h : GoodPath isJ Adj p) : GoodPath isJ Adj p.reverse := by
  obtain ⟨a, mid, b, rfl, ha, hb, hmid⟩ := h.shape
  refine ⟨⟨b, mid.reverse, a, by simp, hb, ha, by simpa using hmid⟩, ?_, ?_⟩
  · intro x y hxy
    have := List.reverse_infix.2 hxy
    simp only [List.reverse_reverse] at this
    exact hsym _ _ (h.chain y x (by simpa using this))
  · intro x v y hxy
    have := List.reverse_infix.2 hxy
    simp only [List.reverse_reverse] at this
    exact fun e => h.nb y v x (by simpa using this) e.symm

theorem GoodPath.tailEnds {isJ : α → Bool} {Adj : α → α → Prop} {p : List α} (h : GoodPath isJ Adj p)
    (s t : List α) (a b : α) (hp : p = s ++ a :: b :: t) : EndsAtJ isJ (b :: t) := by
  obtain ⟨a0, mid, b0, hp0, _, hb, hmid⟩ := h.shape
  have hE := EndsAtJ_concat isJ mid b0 hb hmid
  apply EndsAtJ_suffix isJ _ _ hE _ (by simp)
  rw [hp] at hp0
  cases s with
  | nil =>
    simp at hp0
    rw [← hp0.2]
  | cons s0 s' =>
    simp at hp0
    rw [← hp0.2]
    exact ⟨s' ++ [a], by simp⟩

theorem fwd_unique (isJ : α → Bool) (Adj : α → α → Prop)
    (det : ∀ v x y z, isJ v = false → Adj x v → Adj v y → Adj v z → x ≠ y → x ≠ z → y = z) :
    ∀ (t1 t2 : List α) (a b : α), EndsAtJ isJ (b :: t1) → EndsAtJ isJ (b :: t2) →
      (∀ x y, [x, y] <:+: a :: b :: t1 → Adj x y) → (∀ x y, [x, y] <:+: a :: b :: t2 → Adj x y) →
      (∀ x v y, [x, v, y] <:+: a :: b :: t1 → x ≠ y) → (∀ x v y, [x, v, y] <:+: a :: b :: t2 → x ≠ y) →
      t1 = t2 := by
  intro t1
  induction t1 with
  | nil =>
    intro t2 a b h1 h2 _ _ _ _
    cases t2 with
    | nil => rfl
    | cons y2 t2' =>
      simp [EndsAtJ] at h1 h2
      rw [h1] at h2; simp at h2
  | cons y1 t1' ih =>
    intro t2 a b h1 h2 c1 c2 n1 n2
    cases t2 with
    | nil =>
      simp [EndsAtJ] at h1 h2
      rw [h2] at h1; simp at h1
    | cons y2 t2' =>
      have hb : isJ b = false := h1.1
      have hy : y1 = y2 := by
        apply det b a y1 y2 hb
        · exact c1 a b ⟨[], y1 :: t1', by simp⟩
        · exact c1 b y1 ⟨[a], t1', by simp⟩
        · exact c2 b y2 ⟨[a], t2', by simp⟩
        · exact n1 a b y1 ⟨[], t1', by simp⟩
        · exact n2 a b y2 ⟨[], t2', by simp⟩
      subst hy
      congr 1
      apply ih t2' b y1 h1.2 h2.2
      · exact fun x y h => c1 x y (h.trans (List.suffix_cons a _).isInfix)
      · exact fun x y h => c2 x y (h.trans (List.suffix_cons a _).isInfix)
      · exact fun x v y h => n1 x v y (h.trans (List.suffix_cons a _).isInfix)
      · exact fun x v y h => n2 x v y (h.trans (List.suffix_cons a _).isInfix)

theorem GoodPath.fwd {isJ : α → Bool} {Adj : α → α → Prop}
    (det : ∀ v x y z, isJ v = false → Adj x v → Adj v y → Adj v z → x ≠ y → x ≠ z → y = z)
    {p q : List α} (hp : GoodPath isJ Adj p) (hq : GoodPath isJ Adj q) (s1 t1 s2 t2 : List α) (a b : α)
    (h1 : p = s1 ++ a :: b :: t1) (h2 : q = s2 ++ a :: b :: t2) : t1 = t2 := by
  apply fwd_unique isJ Adj det t1 t2 a b (hp.tailEnds s1 t1 a b h1) (hq.tailEnds s2 t2 a b h2)
  · exact fun x y h => hp.chain x y (h1 ▸ h.trans (List.suffix_append s1 _).isInfix)
  · exact fun x y h => hq.chain x y (h2 ▸ h.trans (List.suffix_append s2 _).isInfix)
  · exact fun x v y h => hp.nb x v y (h1 ▸ h.trans (List.suffix_append s1 _).isInfix)
  · exact fun x v y h => hq.nb x v y (h2 ▸ h.trans (List.suffix_append s2 _).isInfix)

theorem GoodPath.unique {isJ : α → Bool} {Adj : α → α → Prop} (hsym : ∀ x y, Adj x y → Adj y x)
    (det : ∀ v x y z, isJ v = false → Adj x v → Adj v y → Adj v z → x ≠ y → x ≠ z → y = z)
    {p q : List α} (hp : GoodPath isJ Adj p) (hq : GoodPath isJ Adj q) (a b : α)
    (h1 : [a, b] <:+: p) (h2 : [a, b] <:+: q) : p = q := by
  obtain ⟨s1, t1, h1⟩ := h1
  obtain ⟨s2, t2, h2⟩ := h2
  have h1' : p = s1 ++ a :: b :: t1 := by simp [← h1]
  have h2' : q = s2 ++ a :: b :: t2 := by simp [← h2]
  have ht := GoodPath.fwd det hp hq s1 t1 s2 t2 a b h1' h2'
  have hs := GoodPath.fwd det (hp.reverse hsym) (hq.reverse hsym) t1.reverse s1.reverse t2.reverse s2.reverse b a
    (by simp [h1']) (by simp [h2'])
  have hs' : s1 = s2 := by simpa using hs
  rw [h1', h2', ht, hs']


/-! ### in a consistent mesh a vertex with fewer than three mesh edges has the same neighbours in every cell -/

theorem cellPaths_pair_mem (isJ : α → Bool) (cyc p : List α) (hp : p ∈ cellPaths isJ cyc) (a b : α)
    (hab : [a, b] <:+: p) : (a, b) ∈ cyclicPairs cyc := by
  have hj : ∃ v ∈ cyc, isJ v = true := by
    by_contra hno
    have : cellPaths isJ cyc = [] :=
      cellPaths_none _ _ (fun v hv => by
        cases hjv : isJ v with
        | false => rfl
        | true => exact absurd ⟨v, hv, hjv⟩ hno)
    rw [this] at hp; simp at hp
  have hperm := cellPaths_partition isJ cyc hj
  apply hperm.mem_iff.1
  simp only [List.mem_flatten, List.mem_map]
  exact ⟨_, ⟨p, hp, rfl⟩, mem_zip_tail_of_infix p a b hab⟩

theorem ne_of_cyclic_triple (l : List α) (hn : l.Nodup) (hlen : 3 ≤ l.length) (x v y : α)
    (h1 : (x, v) ∈ cyclicPairs l) (h2 : (v, y) ∈ cyclicPairs l) : x ≠ y := by
  obtain ⟨i, hi1, hi2⟩ := (mem_cyclicPairs_iff l x v).1 h1
  obtain ⟨k, hk1, hk2⟩ := (mem_cyclicPairs_iff l v y).1 h2
  have hil : i < l.length := (List.getElem?_eq_some_iff.1 hi1).1
  have hkl : k < l.length := (List.getElem?_eq_some_iff.1 hk1).1
  have hk : k = (i + 1) % l.length := ((List.getElem?_inj hkl hn).1 (hk1.trans hi2.symm))
  intro hxy
  subst hxy
  have hi : i = (k + 1) % l.length := ((List.getElem?_inj hil hn).1 (hi1.trans hk2.symm))
  by_cases c1 : i + 1 < l.length
  · rw [Nat.mod_eq_of_lt c1] at hk
    by_cases c2 : k + 1 < l.length
    · rw [Nat.mod_eq_of_lt c2] at hi; omega
    · have : k + 1 = l.length := by omega
      rw [this, Nat.mod_self] at hi; omega
  · have : i + 1 = l.length := by omega
    rw [this, Nat.mod_self] at hk
    subst hk
    rw [Nat.mod_eq_of_lt (by omega)] at hi; omega

namespace Mesh

/-- `x` and `y` are consecutive (in either direction, closing pair included) on the cycle of some cell -/
def cellAdj (m : Mesh) (x y : Id) : Prop :=
  ∃ c ∈ m.cells, (x, y) ∈ cyclicPairs c.2.verts ∨ (y, x) ∈ cyclicPairs c.2.verts

theorem cellAdj_symm (m : Mesh) (x y : Id) (h : m.cellAdj x y) : m.cellAdj y x := by
  obtain ⟨c, hc, h⟩ := h
  exact ⟨c, hc, h.symm⟩

theorem joinedP_of_cellAdj (m : Mesh) (hm : m.Consistent = true) (x y : Id) (h : m.cellAdj x y) : JoinedP m x y := by
  obtain ⟨_, _, _, _, _, hcj⟩ := (consistent_iff m).1 hm
  obtain ⟨c, hc, h | h⟩ := h
  · exact hcj c hc (x, y) h
  · exact JoinedP_symm (hcj c hc (y, x) h)

theorem edge_of_joinedP (m : Mesh) (hm : m.Consistent = true) (v x : Id) (h : JoinedP m v x) :
    ∃ q ∈ m.edges, ((q.2.v1 = v ∧ q.2.v2 = x) ∨ (q.2.v1 = x ∧ q.2.v2 = v)) ∧ q.2.id ∈ m.ownEdges v := by
  obtain ⟨hk, hoe, _, hr, _, _⟩ := (consistent_iff m).1 hm
  obtain ⟨q, hq, hends⟩ := h
  refine ⟨q, hq, hends, ?_⟩
  have hv : v ∈ m.vertices.map (·.1) := by
    rcases hends with ⟨h1, _⟩ | ⟨_, h2⟩
    · rw [← h1]; exact (hr.1 q hq).2.1
    · rw [← h2]; exact (hr.1 q hq).2.2
  obtain ⟨p, hp, hpv⟩ := List.mem_map.1 hv
  obtain ⟨k, vx⟩ := p
  simp only at hpv; subst hpv
  have hget : alGet? k m.vertices = some vx := alGet?_of_mem hk.2.2.2.1 hp
  have hid : k = vx.id := hk.1 (k, vx) hp
  have := (hoe (k, vx) hp).2.1 q hq (by
    rcases hends with ⟨h1, _⟩ | ⟨_, h2⟩
    · left; rw [h1]; exact hid
    · right; rw [h2]; exact hid)
  simpa [ownEdges, vertex?, hget] using this

theorem edge_eq_of_id (m : Mesh) (hm : m.Consistent = true) (q q' : Id × SEdge) (hq : q ∈ m.edges) (hq' : q' ∈ m.edges)
    (h : q.2.id = q'.2.id) : q.2 = q'.2 := by
  obtain ⟨hk, _, _, _, _, _⟩ := (consistent_iff m).1 hm
  have h1 : q.1 = q.2.id := hk.2.1 q hq
  have h2 : q'.1 = q'.2.id := hk.2.1 q' hq'
  have g1 : alGet? q.1 m.edges = some q.2 := alGet?_of_mem hk.2.2.2.2.1 hq
  have g2 : alGet? q'.1 m.edges = some q'.2 := alGet?_of_mem hk.2.2.2.2.1 hq'
  have : q.1 = q'.1 := by rw [h1, h2, h]
  rw [this, g2] at g1
  exact (Option.some.inj g1).symm

/-- a vertex joined to three different vertices has at least three mesh edges -/
theorem three_le_ownEdges (m : Mesh) (hm : m.Consistent = true) (v x y z : Id)
    (hx : JoinedP m v x) (hy : JoinedP m v y) (hz : JoinedP m v z) (hxy : x ≠ y) (hxz : x ≠ z) (hyz : y ≠ z) :
    3 ≤ (m.ownEdges v).length := by
  obtain ⟨qx, hqx, ex, ix⟩ := m.edge_of_joinedP hm v x hx
  obtain ⟨qy, hqy, ey, iy⟩ := m.edge_of_joinedP hm v y hy
  obtain ⟨qz, hqz, ez, iz⟩ := m.edge_of_joinedP hm v z hz
  have nxy : qx.2.id ≠ qy.2.id := by
    intro h
    have := m.edge_eq_of_id hm qx qy hqx hqy h
    rw [this] at ex
    grind
  have nxz : qx.2.id ≠ qz.2.id := by
    intro h
    have := m.edge_eq_of_id hm qx qz hqx hqz h
    rw [this] at ex
    grind
  have nyz : qy.2.id ≠ qz.2.id := by
    intro h
    have := m.edge_eq_of_id hm qy qz hqy hqz h
    rw [this] at ey
    grind
  have hnd : [qx.2.id, qy.2.id, qz.2.id].Nodup := by simp [nxy, nxz, nyz]
  have hsub : [qx.2.id, qy.2.id, qz.2.id] ⊆ m.ownEdges v := by
    intro e he
    simp at he
    rcases he with rfl | rfl | rfl <;> assumption
  exact (List.subperm_of_subset hnd hsub).length_le

end Mesh

namespace Mesh

theorem cellAdj_det (m : Mesh) (hm : m.Consistent = true) (v x y z : Id) (hv : m.isJunction v = false)
    (hx : m.cellAdj x v) (hy : m.cellAdj v y) (hz : m.cellAdj v z) (hxy : x ≠ y) (hxz : x ≠ z) : y = z := by
  by_contra hyz
  have := m.three_le_ownEdges hm v x y z (m.joinedP_of_cellAdj hm v x (m.cellAdj_symm x v hx))
    (m.joinedP_of_cellAdj hm v y hy) (m.joinedP_of_cellAdj hm v z hz) hxy hxz hyz
  simp only [isJunction, decide_eq_false_iff_not] at hv
  omega

theorem goodPath_of_mem (m : Mesh) (hm : m.Consistent = true) (hlen : ∀ c ∈ m.cells, 3 ≤ c.2.verts.length)
    (e : List Id) (he : e ∈ m.bigEdgesList) : GoodPath m.isJunction m.cellAdj e := by
  obtain ⟨c, hc, hp⟩ := (m.mem_allPaths e).1 (dedup_sub _ e he)
  obtain ⟨_, _, _, _, hcn, _⟩ := (consistent_iff m).1 hm
  refine ⟨cellPaths_ends m.isJunction c.2.verts e hp, ?_, ?_⟩
  · intro x y h
    exact ⟨c, hc, Or.inl (cellPaths_pair_mem _ _ e hp x y h)⟩
  · intro x v y h
    apply ne_of_cyclic_triple c.2.verts (hcn c hc) (hlen c hc) x v y
    · exact cellPaths_pair_mem _ _ e hp x v (List.IsInfix.trans ⟨[], [y], by simp⟩ h)
    · exact cellPaths_pair_mem _ _ e hp v y (List.IsInfix.trans ⟨[x], [], by simp⟩ h)

end Mesh
end Forsys
