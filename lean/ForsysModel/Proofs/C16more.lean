/- helper lemmas for Props/C16more.lean -/
import ForsysModel.Props.C16system
import ForsysModel.Props.C06system
import Mathlib.Tactic.Ring
import Mathlib.Tactic.Linarith
import Mathlib.Algebra.Order.Field.Rat
import Mathlib.Tactic.NormNum
import Mathlib.Tactic.Positivity
namespace Forsys

/-- the same input with another angle limit (`none` = `np.inf`, `some c` = the limit whose cosine is `c`) -/
def FMInput.withLimit (inp : FMInput) (c : Option Rat) : FMInput := { inp with cosLimit := c }

namespace C16m
open FMInput

/-- `cosLe` depends on the pair only through `a·b` and `‖a‖²‖b‖²`, and is invariant under a common positive factor -/
theorem cosLe_similar (a b a' b' : Vec) (c k : Rat) (hk : 0 < k)
    (hd : Vec.dot a' b' = k * Vec.dot a b)
    (hn : a'.normSq * b'.normSq = k * k * (a.normSq * b.normSq)) :
    cosLe a' b' c = cosLe a b c := by
  rw [Bool.eq_iff_iff, C16.cosLe_iff, C16.cosLe_iff, hd, hn]
  have h0 : k * Vec.dot a b ≤ 0 ↔ Vec.dot a b ≤ 0 := by
    constructor
    · intro h; by_contra hh; have hh := not_le.1 hh; nlinarith [mul_pos hk hh]
    · intro h; nlinarith [mul_nonneg hk.le (neg_nonneg.2 h)]
  have hkk : 0 < k * k := mul_pos hk hk
  have h1 : k * Vec.dot a b * (k * Vec.dot a b) ≤ c * c * (k * k * (a.normSq * b.normSq)) ↔
      Vec.dot a b * Vec.dot a b ≤ c * c * (a.normSq * b.normSq) := by
    rw [show k * Vec.dot a b * (k * Vec.dot a b) = (k * k) * (Vec.dot a b * Vec.dot a b) by ring,
      show c * c * (k * k * (a.normSq * b.normSq)) = (k * k) * (c * c * (a.normSq * b.normSq)) by ring]
    exact mul_le_mul_iff_right₀ hkk
  have h2 : c * c * (k * k * (a.normSq * b.normSq)) ≤ k * Vec.dot a b * (k * Vec.dot a b) ↔
      c * c * (a.normSq * b.normSq) ≤ Vec.dot a b * Vec.dot a b := by
    rw [show k * Vec.dot a b * (k * Vec.dot a b) = (k * k) * (Vec.dot a b * Vec.dot a b) by ring,
      show c * c * (k * k * (a.normSq * b.normSq)) = (k * k) * (c * c * (a.normSq * b.normSq)) by ring]
    exact mul_le_mul_iff_right₀ hkk
  by_cases hc : 0 ≤ c
  · simp only [hc, if_true]; rw [h0, h1]
  · simp only [hc, if_false]; rw [h0, h2]

theorem dot_sq_le (a b : Vec) : Vec.dot a b * Vec.dot a b ≤ a.normSq * b.normSq := by
  have := C16.lagrange a b
  nlinarith [mul_self_nonneg (a.x * b.y - a.y * b.x)]

theorem allPairs_length {α : Type} (l : List α) : 2 * (allPairs l).length + l.length = l.length * l.length := by
  induction l with
  | nil => rfl
  | cons a l ih =>
    simp only [allPairs, List.length_append, List.length_map, List.length_cons]
    nlinarith

theorem allPairs_short {α : Type} (l : List α) (h : l.length ≤ 1) : allPairs l = [] := by
  match l, h with
  | [], _ => rfl
  | [a], _ => rfl

theorem bothDeleted_mono (del del' : List Id) (h : ∀ v ∈ del, v ∈ del') (e : List Id)
    (hb : bothDeleted del e = true) : bothDeleted del' e = true := by
  rw [C16s.bothDeleted_iff] at hb ⊢
  obtain ⟨a, b, h1, h2, ha, hb⟩ := hb
  exact ⟨a, b, h1, h2, h a ha, h b hb⟩

theorem go_congr (del del' : List Id) (es es' : List (List Id)) (xs : List Rat)
    (h : List.Forall₂ (fun e e' => bothDeleted del e = bothDeleted del' e') es es') :
    realign.go del es xs = realign.go del' es' xs := by
  induction h generalizing xs with
  | nil => simp [realign.go]
  | cons hab _ ih =>
    unfold realign.go
    rw [hab]
    split
    · rw [ih]
    · cases xs <;> simp [ih]

theorem go_all_excluded (del : List Id) (es : List (List Id)) (xs : List Rat)
    (h : ∀ e ∈ es, bothDeleted del e = true) : realign.go del es xs = List.replicate es.length (-1) := by
  induction es with
  | nil => simp [realign.go]
  | cons e es ih =>
    unfold realign.go
    rw [h e (by simp), if_pos rfl, ih (fun e' he' => h e' (by simp [he']))]
    rfl

/-- re-aligning the kept part of a report that carries −1 at the excluded positions gives the report back -/
theorem go_roundtrip (del : List Id) (es : List (List Id)) (r : List Rat) (hl : r.length = es.length)
    (hex : ∀ p ∈ List.zip es r, bothDeleted del p.1 = true → p.2 = -1) :
    realign.go del es (((List.zip es r).filter fun p => !(bothDeleted del p.1)).map (·.2)) = r := by
  induction es generalizing r with
  | nil =>
    cases r with
    | nil => simp [realign.go]
    | cons _ _ => simp at hl
  | cons e es ih =>
    cases r with
    | nil => simp at hl
    | cons y r =>
      have hl' : r.length = es.length := by simpa using hl
      have hex' : ∀ p ∈ List.zip es r, bothDeleted del p.1 = true → p.2 = -1 :=
        fun p hp => hex p (by simp [List.zip_cons_cons, hp])
      unfold realign.go
      cases hb : bothDeleted del e with
      | true =>
        have hy : y = -1 := hex (e, y) (by simp [List.zip_cons_cons]) hb
        simp only [List.zip_cons_cons, List.filter_cons, hb, Bool.not_true, if_true]
        simp only [Bool.false_eq_true, if_false]
        rw [ih r hl' hex', hy]
      | false =>
        simp only [List.zip_cons_cons, List.filter_cons, hb, Bool.not_false, if_true, List.map_cons]
        simp only [Bool.false_eq_true, if_false]
        rw [ih r hl' hex']

theorem filter_length_eq_imp {α : Type} (p : α → Bool) (l : List α) (h : (l.filter p).length = l.length) :
    l.filter p = l := by
  have := List.filter_sublist (p := p) (l := l)
  exact this.eq_of_length h

end C16m
end Forsys
