/- helper lemmas for Props/C16system.lean: the angle-limit rule end to end -/
import ForsysModel.Props.C16
import ForsysModel.Props.C05
import ForsysModel.Props.C07order
import Mathlib.Analysis.Real.Sqrt
namespace Forsys
namespace C16s
open FMInput

/-! ### `allPairs` (`itertools.combinations(·, 2)`) -/

theorem mem_allPairs_cons {α : Type} (a : α) (l : List α) (x y : α) :
    (x, y) ∈ allPairs (a :: l) ↔ (x = a ∧ y ∈ l) ∨ (x, y) ∈ allPairs l := by
  simp only [allPairs, List.mem_append, List.mem_map, Prod.mk.injEq]
  constructor
  · rintro (⟨b, hb, rfl, rfl⟩ | h)
    · exact Or.inl ⟨rfl, hb⟩
    · exact Or.inr h
  · rintro (⟨rfl, hy⟩ | h)
    · exact Or.inl ⟨y, hy, rfl, rfl⟩
    · exact Or.inr h

theorem mem_of_mem_allPairs {α : Type} (l : List α) (x y : α) (h : (x, y) ∈ allPairs l) : x ∈ l ∧ y ∈ l := by
  induction l with
  | nil => simp [allPairs] at h
  | cons a l ih =>
    rw [mem_allPairs_cons] at h
    rcases h with ⟨rfl, hy⟩ | h
    · exact ⟨List.mem_cons_self, List.mem_cons_of_mem _ hy⟩
    · exact ⟨List.mem_cons_of_mem _ (ih h).1, List.mem_cons_of_mem _ (ih h).2⟩

/-- the pairs of a `filterMap` are the images of the pairs -/
theorem mem_allPairs_filterMap {α β : Type} (f : α → Option β) (l : List α) (a b : β) :
    (a, b) ∈ allPairs (l.filterMap f) ↔ ∃ x y, (x, y) ∈ allPairs l ∧ f x = some a ∧ f y = some b := by
  induction l with
  | nil => simp [allPairs]
  | cons x t ih =>
    cases hx : f x with
    | none =>
      rw [List.filterMap_cons_none hx, ih]
      constructor
      · rintro ⟨x', y', h, h1, h2⟩
        exact ⟨x', y', (mem_allPairs_cons x t x' y').2 (Or.inr h), h1, h2⟩
      · rintro ⟨x', y', h, h1, h2⟩
        rcases (mem_allPairs_cons x t x' y').1 h with ⟨rfl, _⟩ | h
        · rw [hx] at h1; exact absurd h1 (by simp)
        · exact ⟨x', y', h, h1, h2⟩
    | some a' =>
      rw [List.filterMap_cons_some hx, mem_allPairs_cons, ih, List.mem_filterMap]
      constructor
      · rintro (⟨rfl, y, hy, h2⟩ | ⟨x', y', h, h1, h2⟩)
        · exact ⟨x, y, (mem_allPairs_cons x t x y).2 (Or.inl ⟨rfl, hy⟩), hx, h2⟩
        · exact ⟨x', y', (mem_allPairs_cons x t x' y').2 (Or.inr h), h1, h2⟩
      · rintro ⟨x', y', h, h1, h2⟩
        rcases (mem_allPairs_cons x t x' y').1 h with ⟨rfl, hy⟩ | h
        · rw [hx] at h1
          exact Or.inl ⟨(Option.some.inj h1).symm, y', hy, h2⟩
        · exact Or.inr ⟨x', y', h, h1, h2⟩

/-- the pairs of a strictly increasing list of positions: every two members, the smaller one first -/
theorem mem_allPairs_sorted (l : List Nat) (hl : l.Pairwise (· < ·)) (i j : Nat) :
    (i, j) ∈ allPairs l ↔ i ∈ l ∧ j ∈ l ∧ i < j := by
  induction l with
  | nil => simp [allPairs]
  | cons a t ih =>
    rw [List.pairwise_cons] at hl
    rw [mem_allPairs_cons, ih hl.2]
    constructor
    · rintro (⟨rfl, hj⟩ | ⟨hi, hj, hij⟩)
      · exact ⟨List.mem_cons_self, List.mem_cons_of_mem _ hj, hl.1 j hj⟩
      · exact ⟨List.mem_cons_of_mem _ hi, List.mem_cons_of_mem _ hj, hij⟩
    · rintro ⟨hi, hj, hij⟩
      rcases List.mem_cons.1 hi with hia | hit
      · rcases List.mem_cons.1 hj with hja | hjt
        · omega
        · exact Or.inl ⟨hia, hjt⟩
      · rcases List.mem_cons.1 hj with hja | hjt
        · have := hl.1 i hit; omega
        · exact Or.inr ⟨hit, hjt, hij⟩

theorem ownBigEdges_sorted (earr : List (List Id)) (v : Id) : (Mesh.ownBigEdges earr v).Pairwise (· < ·) := by
  unfold Mesh.ownBigEdges
  exact List.Pairwise.filter _ List.pairwise_lt_range

/-! ### the opening-angle test -/

theorem cosLe_comm (a b : Vec) (c : Rat) : cosLe a b c = cosLe b a c := by
  have h1 : Vec.dot a b = Vec.dot b a := by simp only [Vec.dot]; ring
  have h2 : a.normSq * b.normSq = b.normSq * a.normSq := mul_comm _ _
  unfold cosLe
  simp only [h1, h2]

/-- `exceeds` spelled out, positions in increasing order -/
theorem exceeds_iff_lt (inp : FMInput) (earr : List (List Id)) (v : Id) (c : Rat) (hc : inp.cosLimit = some c) :
    inp.exceeds earr v = true ↔
      ∃ i j a b, i < j ∧ j < earr.length ∧
        (earr.getD i []).contains v = true ∧ (earr.getD j []).contains v = true ∧
        inp.vecAt earr i v = some a ∧ inp.vecAt earr j v = some b ∧ cosLe a b c = true := by
  unfold exceeds
  rw [hc]
  simp only [List.any_eq_true]
  constructor
  · rintro ⟨⟨a, b⟩, hp, hcos⟩
    obtain ⟨i, j, hij, hi, hj⟩ := (mem_allPairs_filterMap _ _ a b).1 hp
    obtain ⟨hi', hj', hlt⟩ := (mem_allPairs_sorted _ (ownBigEdges_sorted earr v) i j).1 hij
    rw [mem_ownBigEdges] at hi' hj'
    exact ⟨i, j, a, b, hlt, hj'.1, hi'.2, hj'.2, hi, hj, hcos⟩
  · rintro ⟨i, j, a, b, hlt, hj, hci, hcj, hi, hj', hcos⟩
    refine ⟨(a, b), ?_, hcos⟩
    rw [mem_allPairs_filterMap]
    refine ⟨i, j, ?_, hi, hj'⟩
    rw [mem_allPairs_sorted _ (ownBigEdges_sorted earr v)]
    exact ⟨(mem_ownBigEdges earr v i).2 ⟨by omega, hci⟩, (mem_ownBigEdges earr v j).2 ⟨hj, hcj⟩, hlt⟩

/-- … and for two DISTINCT positions in any order (the test is symmetric) -/
theorem exceeds_iff_ne (inp : FMInput) (earr : List (List Id)) (v : Id) (c : Rat) (hc : inp.cosLimit = some c) :
    inp.exceeds earr v = true ↔
      ∃ i j a b, i ≠ j ∧ i < earr.length ∧ j < earr.length ∧
        (earr.getD i []).contains v = true ∧ (earr.getD j []).contains v = true ∧
        inp.vecAt earr i v = some a ∧ inp.vecAt earr j v = some b ∧ cosLe a b c = true := by
  rw [exceeds_iff_lt inp earr v c hc]
  constructor
  · rintro ⟨i, j, a, b, hlt, hj, hci, hcj, hi, hj', hcos⟩
    exact ⟨i, j, a, b, by omega, by omega, hj, hci, hcj, hi, hj', hcos⟩
  · rintro ⟨i, j, a, b, hne, hi, hj, hci, hcj, hvi, hvj, hcos⟩
    rcases Nat.lt_or_gt_of_ne hne with h | h
    · exact ⟨i, j, a, b, h, hj, hci, hcj, hvi, hvj, hcos⟩
    · exact ⟨j, i, b, a, h, hi, hcj, hci, hvj, hvi, by rw [cosLe_comm]; exact hcos⟩

/-- an interface has a direction at `v` exactly when it has at least two vertices and `v` is its first or last one -/
theorem vectorFromVertex_isSome_iff (ids : List Id) (pts : List Pt) (c : Pt) (v : Id) (hl : pts.length = ids.length) :
    (vectorFromVertex ids pts c v).isSome = true ↔
      2 ≤ ids.length ∧ (ids.head? = some v ∨ ids.getLast? = some v) := by
  unfold vectorFromVertex
  rw [Option.isSome_map]
  unfold chordAt
  rcases ids with _ | ⟨i0, _ | ⟨i1, ids⟩⟩
  · simp
  · simp
  · rcases pts with _ | ⟨p0, _ | ⟨p1, pts⟩⟩
    · simp at hl
    · simp at hl
    · simp only [List.length_cons, List.head?_cons, Option.some.injEq]
      by_cases h0 : i0 = v
      · simp [h0]
      · simp only [h0, false_or]
        have hr : ∃ j0 j1 js, (i0 :: i1 :: ids).reverse = j0 :: j1 :: js ∧
            (i0 :: i1 :: ids).getLast? = some j0 := by
          have hlen : 2 ≤ ((i0 :: i1 :: ids).reverse).length := by simp
          rcases hrv : (i0 :: i1 :: ids).reverse with _ | ⟨j0, _ | ⟨j1, js⟩⟩
          · rw [hrv] at hlen; simp at hlen
          · rw [hrv] at hlen; simp at hlen
          · refine ⟨j0, j1, js, rfl, ?_⟩
            rw [← List.head?_reverse, hrv]; rfl
        have hq : ∃ q0 q1 qs, (p0 :: p1 :: pts).reverse = q0 :: q1 :: qs := by
          have hlen : 2 ≤ ((p0 :: p1 :: pts).reverse).length := by simp
          rcases hrv : (p0 :: p1 :: pts).reverse with _ | ⟨q0, _ | ⟨q1, qs⟩⟩
          · rw [hrv] at hlen; simp at hlen
          · rw [hrv] at hlen; simp at hlen
          · exact ⟨q0, q1, qs, rfl⟩
        obtain ⟨j0, j1, js, hrv, hlast⟩ := hr
        obtain ⟨q0, q1, qs, hqv⟩ := hq
        rw [hrv, hqv, hlast]
        simp only [Option.some.injEq]
        by_cases hj : j0 = v
        · simp [hj]
        · simp [hj]

theorem vecAt_isSome_iff (inp : FMInput) (earr : List (List Id)) (i : Nat) (v : Id) :
    (inp.vecAt earr i v).isSome = true ↔
      2 ≤ (earr.getD i []).length ∧ ((earr.getD i []).head? = some v ∨ (earr.getD i []).getLast? = some v) := by
  unfold vecAt
  exact vectorFromVertex_isSome_iff _ _ _ v (by simp)


/-! ### the real-number reading of the test: `cos ∠(a, b) ≤ c` -/

theorem spec_real (d c s n : ℝ) (hs : 0 ≤ s) (hss : s * s = n) :
    (if 0 ≤ c then (d ≤ 0 ∨ d * d ≤ c * c * n) else (d ≤ 0 ∧ c * c * n ≤ d * d)) ↔ d ≤ c * s := by
  rw [← hss]
  by_cases hc : 0 ≤ c
  · simp only [hc, if_true]
    have hcs : 0 ≤ c * s := mul_nonneg hc hs
    constructor
    · rintro (h | h)
      · linarith
      · by_contra hlt
        push Not at hlt
        nlinarith [mul_self_nonneg (d - c*s), mul_self_nonneg (d + c*s)]
    · intro h
      by_cases hd : d ≤ 0
      · exact Or.inl hd
      · right
        push Not at hd
        nlinarith
  · simp only [hc, if_false]
    push Not at hc
    have hcs : c * s ≤ 0 := by nlinarith
    constructor
    · rintro ⟨h1, h2⟩
      by_contra hlt
      push Not at hlt
      nlinarith
    · intro h
      refine ⟨by linarith, ?_⟩
      nlinarith

theorem cosLe_real (a b : Vec) (c : Rat) :
    cosLe a b c = true ↔
      ((Vec.dot a b : Rat) : ℝ) ≤ (c : ℝ) * (Real.sqrt ((a.normSq : Rat) : ℝ) * Real.sqrt ((b.normSq : Rat) : ℝ)) := by
  have ha : (0 : ℝ) ≤ ((a.normSq : Rat) : ℝ) := by exact_mod_cast C16.normSq_nonneg a
  have hb : (0 : ℝ) ≤ ((b.normSq : Rat) : ℝ) := by exact_mod_cast C16.normSq_nonneg b
  have hs : (0 : ℝ) ≤ Real.sqrt ((a.normSq : Rat) : ℝ) * Real.sqrt ((b.normSq : Rat) : ℝ) :=
    mul_nonneg (Real.sqrt_nonneg _) (Real.sqrt_nonneg _)
  have hss : (Real.sqrt ((a.normSq : Rat) : ℝ) * Real.sqrt ((b.normSq : Rat) : ℝ)) *
      (Real.sqrt ((a.normSq : Rat) : ℝ) * Real.sqrt ((b.normSq : Rat) : ℝ))
      = ((a.normSq * b.normSq : Rat) : ℝ) := by
    push_cast
    nlinarith [Real.mul_self_sqrt ha, Real.mul_self_sqrt hb]
  rw [← spec_real _ _ _ _ hs hss, C16.cosLe_iff]
  by_cases hc : 0 ≤ c
  · have hc' : (0 : ℝ) ≤ (c : ℝ) := by exact_mod_cast hc
    simp only [hc, hc', if_true]
    constructor
    · rintro (h | h)
      · left; exact_mod_cast h
      · right; exact_mod_cast h
    · rintro (h | h)
      · left; exact_mod_cast h
      · right; exact_mod_cast h
  · have hc' : ¬ (0 : ℝ) ≤ (c : ℝ) := by
      intro h; apply hc; exact_mod_cast h
    simp only [hc, hc', if_false]
    constructor
    · rintro ⟨h1, h2⟩
      exact ⟨by exact_mod_cast h1, by exact_mod_cast h2⟩
    · rintro ⟨h1, h2⟩
      exact ⟨by exact_mod_cast h1, by exact_mod_cast h2⟩

end C16s

/-! ### vocabulary -/

/-- `Frame.internal_big_edges_vertices`: the internal interfaces, in the order of the interface list -/
def FMInput.internal (inp : FMInput) (earr : List (List Id)) : List (List Id) :=
  (inp.mesh.internalIdx earr).map fun i => earr.getD i []

/-- number of interfaces that are NOT excluded among the first `i` internal interfaces: the position, in the
    solution vector, of the value reported at position `i` -/
def keptBefore (internal : List (List Id)) (del : List Id) (i : Nat) : Nat :=
  ((internal.take i).filter fun e => !(FMInput.bothDeleted del e)).length

namespace C16s
open FMInput

/-! ### the exclusion rule -/

theorem bothDeleted_iff (del : List Id) (e : List Id) :
    bothDeleted del e = true ↔ ∃ a b, e.head? = some a ∧ e.getLast? = some b ∧ a ∈ del ∧ b ∈ del := by
  unfold bothDeleted
  cases e.head? <;> cases e.getLast? <;> simp

theorem used_eq (inp : FMInput) (earr : List (List Id)) :
    inp.used earr = (inp.internal earr).filter fun e => !(bothDeleted (inp.deletes earr) e) := rfl

theorem mem_used_iff (inp : FMInput) (earr : List (List Id)) (e : List Id) :
    e ∈ inp.used earr ↔ e ∈ inp.internal earr ∧ bothDeleted (inp.deletes earr) e = false := by
  rw [used_eq, List.mem_filter]
  simp

theorem not_mem_used_iff (inp : FMInput) (earr : List (List Id)) (e : List Id) (he : e ∈ inp.internal earr) :
    e ∉ inp.used earr ↔ bothDeleted (inp.deletes earr) e = true := by
  rw [mem_used_iff]
  constructor
  · intro h
    cases hb : bothDeleted (inp.deletes earr) e with
    | true => rfl
    | false => exact absurd ⟨he, hb⟩ h
  · rintro h ⟨_, h'⟩
    rw [h] at h'; exact absurd h' (by simp)

theorem mem_deletes_iff (inp : FMInput) (earr : List (List Id)) (v : Id) :
    v ∈ inp.deletes earr ↔ v ∈ endsOf (inp.internal earr) ∧ inp.exceeds earr v = true := by
  unfold deletes internal
  simp [List.mem_filter]

/-- both ends of an internal interface are candidate junctions of `get_angle_limited_edges` -/
theorem ends_mem_endsOf (es : List (List Id)) (e : List Id) (he : e ∈ es) (a : Id)
    (ha : e.head? = some a ∨ e.getLast? = some a) : a ∈ endsOf es :=
  (C07o.mem_endsOf_iff es a).2 ⟨e, he, ha⟩

theorem excluded_iff_exceeds (inp : FMInput) (earr : List (List Id)) (e : List Id) (he : e ∈ inp.internal earr) :
    bothDeleted (inp.deletes earr) e = true ↔
      ∃ a b, e.head? = some a ∧ e.getLast? = some b ∧ inp.exceeds earr a = true ∧ inp.exceeds earr b = true := by
  rw [bothDeleted_iff]
  constructor
  · rintro ⟨a, b, h1, h2, ha, hb⟩
    exact ⟨a, b, h1, h2, ((mem_deletes_iff inp earr a).1 ha).2, ((mem_deletes_iff inp earr b).1 hb).2⟩
  · rintro ⟨a, b, h1, h2, ha, hb⟩
    exact ⟨a, b, h1, h2, (mem_deletes_iff inp earr a).2 ⟨ends_mem_endsOf _ e he a (Or.inl h1), ha⟩,
      (mem_deletes_iff inp earr b).2 ⟨ends_mem_endsOf _ e he b (Or.inr h2), hb⟩⟩

/-- an internal interface has a first and a last vertex -/
theorem internal_ends (inp : FMInput) (earr : List (List Id)) (e : List Id) (he : e ∈ inp.internal earr) :
    ∃ a b, e.head? = some a ∧ e.getLast? = some b := by
  unfold internal at he
  obtain ⟨i, hi, rfl⟩ := List.mem_map.1 he
  unfold Mesh.internalIdx at hi
  simp only [List.mem_filter, Bool.and_eq_true] at hi
  have h3 := hi.2.2
  unfold Mesh.endJunction3 at h3
  cases h1 : (earr.getD i []).head? with
  | none => rw [h1] at h3; simp at h3
  | some a =>
    cases h2 : (earr.getD i []).getLast? with
    | none => rw [h1, h2] at h3; simp at h3
    | some b => exact ⟨a, b, rfl, rfl⟩

/-! ### no limit, limit π -/

theorem used_no_limit (inp : FMInput) (earr : List (List Id)) (h : inp.cosLimit = none) :
    inp.used earr = inp.internal earr := by
  rw [used_eq, deletes_no_limit inp earr h]
  apply List.filter_eq_self.2
  intro e _
  rw [C16.bothDeleted_nil]; rfl

/-! ### the report -/

theorem addMeanOne_rhs (A : Mat) (b : List Rat) :
    (addMeanOne A b).2 = b ++ [(((A.head?.map (·.length)).getD 0 : Nat) : Rat)] := rfl

theorem normalisedMatrix_cols (inp : FMInput) (len : Id → Nat → Rat) (hk : ∃ r ∈ inp.build.rows, r.2.1 = true) :
    ((normalisedMatrix inp len).head?.map (·.length)).getD 0 = inp.build.used.length := by
  have hpos := normalisedMatrix_pos inp len hk
  cases hA : normalisedMatrix inp len with
  | nil => rw [hA] at hpos; simp at hpos
  | cons r A =>
    have := normalisedMatrix_width inp len r (by rw [hA]; exact List.mem_cons_self)
    simp [this]

theorem excluded_add_kept (internal : List (List Id)) (del : List Id) :
    (internal.filter fun e => !(bothDeleted del e)).length + excludedCount internal del = internal.length := by
  unfold excludedCount
  induction internal with
  | nil => rfl
  | cons e es ih =>
    simp only [List.filter_cons]
    cases bothDeleted del e <;> simp <;> omega

theorem go_kept_at (del : List Id) (es : List (List Id)) (xs : List Rat) (i : Nat) (hi : i < es.length)
    (hk : bothDeleted del (es.getD i []) = false) :
    (realign.go del es xs).getD i 0 = xs.getD (keptBefore es del i) 0 := by
  induction es generalizing xs i with
  | nil => simp at hi
  | cons e es ih =>
    unfold realign.go
    cases i with
    | zero =>
      have hk' : bothDeleted del e = false := by simpa using hk
      simp only [hk', keptBefore]
      cases xs <;> simp
    | succ i =>
      have hi' : i < es.length := by simpa using hi
      have hk' : bothDeleted del (es.getD i []) = false := by simpa using hk
      by_cases hb : bothDeleted del e = true
      · simp only [hb, if_true, keptBefore, List.take_succ_cons, List.filter_cons]
        simpa [keptBefore] using ih xs i hi' hk'
      · simp only [Bool.not_eq_true] at hb
        cases xs with
        | nil =>
          simp only [hb, keptBefore, List.take_succ_cons, List.filter_cons]
          simpa [keptBefore] using ih [] i hi' hk'
        | cons x xs' =>
          simp only [hb, keptBefore, List.take_succ_cons, List.filter_cons]
          simpa [keptBefore] using ih xs' i hi' hk'

theorem keptBefore_all (internal : List (List Id)) (del : List Id)
    (h0 : excludedCount internal del = 0) (i : Nat) (hi : i ≤ internal.length) : keptBefore internal del i = i := by
  unfold keptBefore
  have hall : ∀ e ∈ internal, bothDeleted del e = false := by
    intro e he
    have := List.eq_nil_of_length_eq_zero h0
    rw [List.filter_eq_nil_iff] at this
    simpa using this e he
  rw [List.filter_eq_self.2]
  · simp [hi]
  · intro e he
    rw [hall e (List.mem_of_mem_take he)]; rfl

theorem realign_kept_at (internal : List (List Id)) (del : List Id) (x : List Rat)
    (h : x.length + excludedCount internal del = internal.length) (i : Nat) (hi : i < internal.length)
    (hk : bothDeleted del (internal.getD i []) = false) :
    (realign internal del x).getD i 0 = x.getD (keptBefore internal del i) 0 := by
  unfold realign
  split
  · rename_i hl
    rw [keptBefore_all internal del (by omega) i (by omega)]
  · exact go_kept_at del internal x i hi hk

/-- the `keptBefore i`-th remaining interface IS the interface at position `i` -/
theorem filter_getD_keptBefore (internal : List (List Id)) (del : List Id) (i : Nat) (hi : i < internal.length)
    (hk : bothDeleted del (internal.getD i []) = false) :
    (internal.filter fun e => !(bothDeleted del e)).getD (keptBefore internal del i) [] = internal.getD i [] := by
  unfold keptBefore
  have hsplit : internal = internal.take i ++ internal[i] :: internal.drop (i + 1) := by
    rw [List.cons_getElem_drop_succ, List.take_append_drop]
  have hg : internal.getD i [] = internal[i] := by simp [List.getD_eq_getElem?_getD, hi]
  rw [hg] at hk ⊢
  conv_lhs => arg 1; rw [hsplit]
  rw [List.filter_append, List.filter_cons]
  simp [hk, List.getD_eq_getElem?_getD]

theorem keptBefore_lt (internal : List (List Id)) (del : List Id) (i : Nat) (hi : i < internal.length)
    (hk : bothDeleted del (internal.getD i []) = false) :
    keptBefore internal del i < (internal.filter fun e => !(bothDeleted del e)).length := by
  unfold keptBefore
  have hsplit : internal = internal.take i ++ internal[i] :: internal.drop (i + 1) := by
    rw [List.cons_getElem_drop_succ, List.take_append_drop]
  have hg : internal.getD i [] = internal[i] := by simp [List.getD_eq_getElem?_getD, hi]
  rw [hg] at hk
  conv_rhs => rw [hsplit]
  rw [List.filter_append, List.filter_cons]
  simp [hk]


/-! ### storage variants WITH an angle limit -/

/-- every position of `earr` has a partner position in `earr'` holding the same interface, possibly stored in the other
    direction, and the same fitted centre -/
def PosMatch (inp inp' : FMInput) (earr earr' : List (List Id)) : Prop :=
  ∀ i < earr.length, ∃ i' < earr'.length,
    (earr'.getD i' [] = earr.getD i [] ∨ earr'.getD i' [] = (earr.getD i []).reverse) ∧
    inp'.centers.getD i' default = inp.centers.getD i default

theorem getD_mem (l : List (List Id)) (i : Nat) (hi : i < l.length) : l.getD i [] ∈ l := by
  rw [List.getD_eq_getElem?_getD, List.getElem?_eq_getElem hi, Option.getD_some]
  exact List.getElem_mem _

theorem vecAt_match (inp inp' : FMInput) (hv : inp'.mesh.vertices = inp.mesh.vertices)
    (earr earr' : List (List Id)) (i i' : Nat) (v : Id)
    (he : earr'.getD i' [] = earr.getD i [] ∨ earr'.getD i' [] = (earr.getD i []).reverse)
    (hc : inp'.centers.getD i' default = inp.centers.getD i default)
    (hends : (earr.getD i []).head? ≠ (earr.getD i []).getLast?) :
    inp'.vecAt earr' i' v = inp.vecAt earr i v := by
  unfold vecAt
  simp only [hc, C07o.pt_congr _ _ hv]
  rcases he with h | h
  · rw [h]
  · rw [h, List.map_reverse]
    exact vectorFromVertex_reverse _ _ _ v (by simp) (C07o.two_le_of_ends _ hends) hends

theorem exceeds_of_match (inp inp' : FMInput) (hv : inp'.mesh.vertices = inp.mesh.vertices)
    (hcl : inp'.cosLimit = inp.cosLimit) (earr earr' : List (List Id)) (hE : earr.Nodup) (hN : NodupRev earr)
    (hloop : ∀ e ∈ earr, e.head? ≠ e.getLast?) (hM : PosMatch inp inp' earr earr') (v : Id)
    (h : inp.exceeds earr v = true) : inp'.exceeds earr' v = true := by
  cases hc : inp.cosLimit with
  | none => unfold exceeds at h; rw [hc] at h; exact absurd h (by simp)
  | some c =>
    rw [exceeds_iff_ne inp earr v c hc] at h
    rw [exceeds_iff_ne inp' earr' v c (hcl.trans hc)]
    obtain ⟨i, j, a, b, hne, hi, hj, hci, hcj, hvi, hvj, hcos⟩ := h
    obtain ⟨i', hi', hei, hci'⟩ := hM i hi
    obtain ⟨j', hj', hej, hcj'⟩ := hM j hj
    have hmi := getD_mem earr i hi
    have hmj := getD_mem earr j hj
    refine ⟨i', j', a, b, ?_, hi', hj', ?_, ?_, ?_, ?_, hcos⟩
    · rintro rfl
      apply hne
      apply getD_inj_of_nodup earr hE i j hi hj
      apply C07o.nodupRev_eq earr hN _ _ hmi hmj
      rcases hei with h1 | h1 <;> rcases hej with h2 | h2
      · exact Or.inl (h1.symm.trans h2)
      · exact Or.inr (h1.symm.trans h2)
      · right
        have := h1.symm.trans h2
        rw [← this, List.reverse_reverse]
      · left
        exact List.reverse_injective (h1.symm.trans h2)
    · rcases hei with h1 | h1 <;> rw [h1]
      · exact hci
      · rw [C07o.contains_reverse]; exact hci
    · rcases hej with h1 | h1 <;> rw [h1]
      · exact hcj
      · rw [C07o.contains_reverse]; exact hcj
    · rw [vecAt_match inp inp' hv earr earr' i i' v hei hci' (hloop _ hmi)]; exact hvi
    · rw [vecAt_match inp inp' hv earr earr' j j' v hej hcj' (hloop _ hmj)]; exact hvj

theorem forall₂_exists_right {β γ : Type} {R : β → γ → Prop} {l₁ : List β} {l₂ : List γ}
    (h : List.Forall₂ R l₁ l₂) : ∀ a ∈ l₁, ∃ b ∈ l₂, R a b := by
  induction h with
  | nil => intro a ha; exact absurd ha (by simp)
  | cons hab _ ih =>
    intro a ha
    rcases List.mem_cons.1 ha with rfl | ha
    · exact ⟨_, List.mem_cons_self, hab⟩
    · obtain ⟨b, hb, hr⟩ := ih a ha
      exact ⟨b, List.mem_cons_of_mem _ hb, hr⟩

theorem mem_zip_getD (earr : List (List Id)) (cs : List Pt) (i : Nat) (hi : i < earr.length) (hc : i < cs.length) :
    (earr.getD i [], cs.getD i default) ∈ List.zip earr cs := by
  have hz : i < (List.zip earr cs).length := by rw [List.length_zip]; omega
  have : (List.zip earr cs)[i] = (earr.getD i [], cs.getD i default) := by
    rw [List.getElem_zip]
    simp [List.getD_eq_getElem?_getD, hi, hc]
  rw [← this]; exact List.getElem_mem _

theorem pos_of_mem_zip (earr : List (List Id)) (cs : List Pt) (a : List Id × Pt) (h : a ∈ List.zip earr cs) :
    ∃ i < earr.length, earr.getD i [] = a.1 ∧ cs.getD i default = a.2 := by
  obtain ⟨i, hi, hget⟩ := List.getElem_of_mem h
  rw [List.getElem_zip] at hget
  rw [List.length_zip] at hi
  have hi1 : i < earr.length := by omega
  have hi2 : i < cs.length := by omega
  refine ⟨i, hi1, ?_, ?_⟩
  · rw [← hget]; simp [List.getD_eq_getElem?_getD, hi1]
  · rw [← hget]; simp [List.getD_eq_getElem?_getD, hi2]

section
variable (inp inp' : FMInput) (earr earr' : List (List Id))
  (ρ : List (List Id × Pt)) (hρ : ρ.Perm (List.zip earr' inp'.centers))
  (hρR : List.Forall₂ (fun a b => (a.1 = b.1 ∨ a.1 = b.1.reverse) ∧ a.2 = b.2) ρ (List.zip earr inp.centers))
include hρ hρR

theorem posMatch_forward (hc : earr.length ≤ inp.centers.length) : PosMatch inp inp' earr earr' := by
  intro i hi
  have hm := mem_zip_getD earr inp.centers i hi (by omega)
  obtain ⟨a, haρ, har, hac⟩ := C07o.forall₂_exists_left hρR _ hm
  obtain ⟨i', hi', h1, h2⟩ := pos_of_mem_zip earr' inp'.centers a (hρ.mem_iff.1 haρ)
  exact ⟨i', hi', by rw [h1]; exact har, by rw [h2]; exact hac⟩

theorem posMatch_backward (hc' : earr'.length ≤ inp'.centers.length) : PosMatch inp' inp earr' earr := by
  intro i' hi'
  have hm := mem_zip_getD earr' inp'.centers i' hi' (by omega)
  obtain ⟨b, hb, hr, hcen⟩ := forall₂_exists_right hρR _ (hρ.mem_iff.2 hm)
  obtain ⟨i, hi, h1, h2⟩ := pos_of_mem_zip earr inp.centers b hb
  refine ⟨i, hi, ?_, by rw [h2]; exact hcen.symm⟩
  rw [h1]
  simp only at hr
  rcases hr with h | h
  · exact Or.inl h.symm
  · right; rw [h, List.reverse_reverse]

end

theorem loop_free_of_sameInterfaces (A B : List (List Id)) (h : SameInterfaces A B)
    (hB : ∀ e ∈ B, e.head? ≠ e.getLast?) : ∀ e ∈ A, e.head? ≠ e.getLast? := by
  intro e he
  rcases (h e).1 (Or.inl he) with h1 | h1
  · exact hB e h1
  · have := hB _ h1
    rw [List.head?_reverse, List.getLast?_reverse] at this
    exact fun h => this h.symm

/-- the variant flags exactly the same junctions -/
theorem exceeds_storage (inp inp' : FMInput)
    (hv : inp'.mesh.vertices = inp.mesh.vertices) (hcl : inp'.cosLimit = inp.cosLimit)
    (hS : SameInterfaces inp'.earr inp.earr) (hc : inp.centers.length = inp.earr.length)
    (ρ : List (List Id × Pt)) (hρ : ρ.Perm (List.zip inp'.earr inp'.centers))
    (hρR : List.Forall₂ (fun a b => (a.1 = b.1 ∨ a.1 = b.1.reverse) ∧ a.2 = b.2) ρ (List.zip inp.earr inp.centers))
    (hloop : ∀ e ∈ inp.earr, e.head? ≠ e.getLast?) (v : Id) :
    inp'.exceeds inp'.earr v = inp.exceeds inp.earr v := by
  have hE : inp.earr.Nodup := dedup_nodup _
  have hE' : inp'.earr.Nodup := dedup_nodup _
  have hN : NodupRev inp.earr := dedup_pairwise _
  have hN' : NodupRev inp'.earr := dedup_pairwise _
  have hlen : inp'.earr.length = inp.earr.length := C07o.sameInterfaces_length _ _ hN' hN hS
  have hc' : inp'.earr.length ≤ inp'.centers.length := by
    have h1 := hρ.length_eq
    have h2 := hρR.length_eq
    rw [List.length_zip] at h1 h2
    omega
  have hloop' := loop_free_of_sameInterfaces _ _ hS hloop
  have hF := posMatch_forward inp inp' inp.earr inp'.earr ρ hρ hρR (by omega)
  have hB := posMatch_backward inp inp' inp.earr inp'.earr ρ hρ hρR hc'
  rw [Bool.eq_iff_iff]
  exact ⟨exceeds_of_match inp' inp hv.symm hcl.symm _ _ hE' hN' hloop' hB v,
    exceeds_of_match inp inp' hv hcl _ _ hE hN hloop hF v⟩

/-- the internal interfaces of the variant are those of the original up to direction (any angle limit: the
    classification does not read it) -/
theorem sameInterfaces_internal (inp inp' : FMInput) (hv : inp'.mesh.vertices = inp.mesh.vertices)
    (hS : SameInterfaces inp'.earr inp.earr) :
    SameInterfaces (inp'.internal inp'.earr) (inp.internal inp.earr) := by
  have h := C07o.sameInterfaces_used { inp with cosLimit := none } { inp' with cosLimit := none } hv rfl rfl hS
  rw [build_used, build_used, used_no_limit _ _ rfl, used_no_limit _ _ rfl] at h
  exact h

theorem bothDeleted_perm (del del' : List Id) (h : del'.Perm del) (e : List Id) :
    bothDeleted del' e = bothDeleted del e := by
  rw [Bool.eq_iff_iff, bothDeleted_iff, bothDeleted_iff]
  simp only [h.mem_iff]

theorem bothDeleted_reverse (del : List Id) (e : List Id) : bothDeleted del e.reverse = bothDeleted del e := by
  rw [Bool.eq_iff_iff, bothDeleted_iff, bothDeleted_iff, List.head?_reverse, List.getLast?_reverse]
  constructor
  · rintro ⟨a, b, h1, h2, ha, hb⟩; exact ⟨b, a, h2, h1, hb, ha⟩
  · rintro ⟨a, b, h1, h2, ha, hb⟩; exact ⟨b, a, h2, h1, hb, ha⟩

section
variable (inp inp' : FMInput)
    (hv : inp'.mesh.vertices = inp.mesh.vertices) (hcl : inp'.cosLimit = inp.cosLimit)
    (hS : SameInterfaces inp'.earr inp.earr) (hc : inp.centers.length = inp.earr.length)
    (ρ : List (List Id × Pt)) (hρ : ρ.Perm (List.zip inp'.earr inp'.centers))
    (hρR : List.Forall₂ (fun a b => (a.1 = b.1 ∨ a.1 = b.1.reverse) ∧ a.2 = b.2) ρ (List.zip inp.earr inp.centers))
    (hloop : ∀ e ∈ inp.earr, e.head? ≠ e.getLast?)
include hv hcl hS hc hρ hρR hloop

theorem deletes_storage : (inp'.deletes inp'.earr).Perm (inp.deletes inp.earr) := by
  have hfun : (fun v => inp'.exceeds inp'.earr v) = fun v => inp.exceeds inp.earr v :=
    funext fun v => exceeds_storage inp inp' hv hcl hS hc ρ hρ hρR hloop v
  show ((endsOf (inp'.internal inp'.earr)).filter fun v => inp'.exceeds inp'.earr v).Perm
    ((endsOf (inp.internal inp.earr)).filter fun v => inp.exceeds inp.earr v)
  rw [hfun]
  exact (C07o.endsOf_perm _ _ (sameInterfaces_internal inp inp' hv hS)).filter _

theorem used_storage : SameInterfaces inp'.build.used inp.build.used := by
  have hdel := deletes_storage inp inp' hv hcl hS hc ρ hρ hρR hloop
  have hI := sameInterfaces_internal inp inp' hv hS
  intro p
  have key : ∀ (i : FMInput), memRev p (i.used i.earr) ↔
      (memRev p (i.internal i.earr) ∧ bothDeleted (i.deletes i.earr) p = false) := by
    intro i
    unfold memRev
    rw [mem_used_iff, mem_used_iff, bothDeleted_reverse]
    constructor
    · rintro (⟨h1, h2⟩ | ⟨h1, h2⟩)
      · exact ⟨Or.inl h1, h2⟩
      · exact ⟨Or.inr h1, h2⟩
    · rintro ⟨h1 | h1, h2⟩
      · exact Or.inl ⟨h1, h2⟩
      · exact Or.inr ⟨h1, h2⟩
  rw [build_used, build_used, key inp', key inp, hI p, bothDeleted_perm _ _ hdel]

/-- `residSq_storage_model` of Props/C07order.lean without the restriction "no angle limit" -/
theorem residSq_storage_model_limit (hig : inp'.ignoreFour = inp.ignoreFour)
    (hends : ∀ u ∈ inp.build.used, u.head? ≠ u.getLast?)
    (len : Id → List Id → Rat) (τ : List Id → Rat) (μ : Rat)
    (hτ : ∀ e, τ e.reverse = τ e) (hlen : ∀ v e, len v e.reverse = len v e) :
    (∃ σ : List (List Id), σ.Perm inp'.build.used ∧
      List.Forall₂ (fun s u => s = u ∨ s = u.reverse) σ inp.build.used) ∧
    (endsOf inp'.build.used).Perm (endsOf inp.build.used) ∧
    residSq (augmented (normalisedMatrix inp' (fun v c => len v (inp'.build.used.getD c [])))).1
        (augmented (normalisedMatrix inp' (fun v c => len v (inp'.build.used.getD c [])))).2
        (inp'.build.used.map τ ++ [μ])
      = residSq (augmented (normalisedMatrix inp (fun v c => len v (inp.build.used.getD c [])))).1
        (augmented (normalisedMatrix inp (fun v c => len v (inp.build.used.getD c [])))).2
        (inp.build.used.map τ ++ [μ]) := by
  have hE : inp.earr.Nodup := dedup_nodup _
  have hE' : inp'.earr.Nodup := dedup_nodup _
  have hN : NodupRev inp.earr := dedup_pairwise _
  have hN' : NodupRev inp'.earr := dedup_pairwise _
  have hSu := used_storage inp inp' hv hcl hS hc ρ hρ hρR hloop
  have hNu : NodupRev inp.build.used := C07o.nodupRev_sublist _ _ (C07o.used_sublist inp inp.earr) hN
  have hNu' : NodupRev inp'.build.used := C07o.nodupRev_sublist _ _ (C07o.used_sublist inp' inp'.earr) hN'
  have hu : inp.build.used.Nodup := hNu.imp fun h => h.1
  have hu' : inp'.build.used.Nodup := hNu'.imp fun h => h.1
  have hσ := C07o.map_pick_perm inp'.build.used inp.build.used hNu' hNu hSu
  have hσR := C07o.forall₂_pick inp'.build.used inp.build.used
  have ht := C07o.endsOf_perm _ _ hSu
  refine ⟨⟨_, hσ, hσR⟩, ht, ?_⟩
  have hR := C07o.colRel_of_zip inp inp' inp.earr inp'.earr inp.build.used inp'.build.used _ hE hE' hN' hc ρ hρ hρR
    (fun u hu => (C07o.used_sublist inp inp.earr).subset hu)
    (fun s hs => (C07o.used_sublist inp' inp'.earr).subset hs) hσ hσR
  rw [C07m.matrixOf_build inp' len, C07m.matrixOf_build inp len]
  exact C07o.residSq_relabel_rev inp inp' inp.earr inp'.earr inp.build.used inp'.build.used _ _ _ len τ μ hv hig hE
    hE' hu hu' hσ hR hends hτ hlen ht

end

end C16s
end Forsys
