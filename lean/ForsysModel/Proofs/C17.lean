/-
  Helper lemmas for property C17 (myosin quantification).  Model: ForsysModel/Model/Myosin.lean.
  A primed name `foo'` is the proof of the property theorem `foo` of Props/C17.lean.
-/
import ForsysModel.Model.Myosin
import Mathlib.Tactic.Ring
import Mathlib.Tactic.Linarith
import Mathlib.Tactic.FieldSimp
import Mathlib.Algebra.Order.Field.Rat
import Mathlib.Data.List.Basic
import Mathlib.Data.List.Nodup
import Mathlib.Algebra.BigOperators.Group.List.Basic
import Mathlib.Algebra.BigOperators.Ring.List

namespace Forsys.Myosin

theorem layerRange_length (L : Nat) : (layerRange L).length = 2 * L + 1 := by
  simp [layerRange]

theorem mem_layerRange (L : Nat) (i : Int) : i ∈ layerRange L ↔ -(L : Int) ≤ i ∧ i ≤ L := by
  simp only [layerRange, List.mem_map, List.mem_range]
  constructor
  · rintro ⟨k, hk, rfl⟩; omega
  · intro h; exact ⟨(i + L).toNat, by omega, by omega⟩

theorem layerRange_nodup (L : Nat) : (layerRange L).Nodup := by
  unfold layerRange
  apply List.Nodup.map
  · intro a b h; simpa using h
  · exact List.nodup_range

theorem layerElements_length' (p : Pt) (L : Nat) :
    (getLayerElements p L).length = (2 * L + 1) * (2 * L + 1) := by
  simp [getLayerElements, List.length_flatMap, layerRange_length]

theorem mem_layerElements' (p q : Pt) (L : Nat) :
    q ∈ getLayerElements p L ↔
      ∃ i j : Int, -(L : Int) ≤ i ∧ i ≤ L ∧ -(L : Int) ≤ j ∧ j ≤ L ∧ q = ⟨p.x + (i : Rat), p.y + (j : Rat)⟩ := by
  simp only [getLayerElements, List.mem_flatMap, List.mem_map, mem_layerRange]
  constructor
  · rintro ⟨i, hi, j, hj, rfl⟩; exact ⟨i, j, hi.1, hi.2, hj.1, hj.2, rfl⟩
  · rintro ⟨i, j, h1, h2, h3, h4, rfl⟩; exact ⟨i, ⟨h1, h2⟩, j, ⟨h3, h4⟩, rfl⟩

theorem layerElements_nodup' (p : Pt) (L : Nat) : (getLayerElements p L).Nodup := by
  unfold getLayerElements
  rw [List.nodup_flatMap]
  refine ⟨?_, ?_⟩
  · intro i _
    apply List.Nodup.map _ (layerRange_nodup L)
    intro a b h
    simpa using h
  · apply List.Pairwise.imp_of_mem _ (layerRange_nodup L)
    intro a b _ _ hab
    simp only [Function.onFun, List.disjoint_left, List.mem_map]
    rintro q ⟨j, _, rfl⟩ ⟨k, _, h⟩
    simp at h
    exact hab h.1.symm

theorem orderedInsert_perm (a : Rat) (l : List Rat) : (orderedInsert a l).Perm (a :: l) := by
  induction l with
  | nil => simp [orderedInsert]
  | cons b l ih =>
    simp only [orderedInsert]
    split
    · exact List.Perm.refl _
    · exact (List.Perm.cons b ih).trans (List.Perm.swap a b l)

theorem sort_perm' (l : List Rat) : (sort l).Perm l := by
  induction l with
  | nil => simp [sort]
  | cons a l ih =>
    simp only [sort]
    exact (orderedInsert_perm a _).trans (List.Perm.cons a ih)

theorem orderedInsert_sorted (a : Rat) (l : List Rat) (h : l.Pairwise (· ≤ ·)) :
    (orderedInsert a l).Pairwise (· ≤ ·) := by
  induction l with
  | nil => simp [orderedInsert]
  | cons b l ih =>
    simp only [orderedInsert]
    split
    · rename_i hab
      rw [List.pairwise_cons] at h ⊢
      refine ⟨?_, List.pairwise_cons.mpr h⟩
      intro c hc
      rcases List.mem_cons.mp hc with rfl | hc
      · exact hab
      · exact le_trans hab (h.1 c hc)
    · rename_i hab
      rw [List.pairwise_cons] at h ⊢
      refine ⟨?_, ih h.2⟩
      intro c hc
      rcases List.mem_cons.mp ((orderedInsert_perm a l).mem_iff.mp hc) with rfl | hc
      · exact le_of_lt (not_le.mp hab)
      · exact h.1 c hc

theorem sort_sorted' (l : List Rat) : (sort l).Pairwise (· ≤ ·) := by
  induction l with
  | nil => simp [sort]
  | cons a l ih => exact orderedInsert_sorted a _ ih

theorem sort_length (l : List Rat) : (sort l).length = l.length := (sort_perm' l).length_eq

theorem median_odd' (l : List Rat) (h : l.length % 2 = 1) :
    median l = (sort l).getD (l.length / 2) 0 := by
  unfold median
  simp only [sort_length]
  rw [if_neg (by omega), if_pos h]

theorem median_even' (l : List Rat) (h0 : l ≠ []) (h : l.length % 2 = 0) :
    median l = ((sort l).getD (l.length / 2 - 1) 0 + (sort l).getD (l.length / 2) 0) / 2 := by
  unfold median
  simp only [sort_length]
  have : l.length ≠ 0 := by simpa using h0
  rw [if_neg this, if_neg (by omega)]

theorem windowStat_eq' (img : Image) (prm : Params) (f : Iface) :
    rawIntensity img prm false f =
      mean (f.verts.map fun v =>
        median ((getLayerElements ⟨v.x * prm.rx + prm.ox, v.y * prm.ry + prm.oy⟩ prm.layers).map (getpixel img))) := by
  rfl

theorem integrated_eq' (img : Image) (prm : Params) (f : Iface) :
    rawIntensity img prm true f = ((band prm f.verts).map (getpixel img)).sum / f.len := by
  rfl

theorem consec_length {α : Type} (l : List α) : (consec l).length = l.length - 1 := by
  induction l with
  | nil => simp [consec]
  | cons a l ih =>
    cases l with
    | nil => simp [consec]
    | cons b l => simp only [consec, List.length_cons] at ih ⊢; omega

theorem segSq_length' (prm : Params) (verts : List Pt) : (segSq prm verts).length = verts.length - 1 := by
  simp [segSq, consec_length]

theorem mem_foldl_setAdd (a : Pt) (l acc : List Pt) :
    a ∈ l.foldl setAdd acc ↔ a ∈ acc ∨ a ∈ l := by
  induction l generalizing acc with
  | nil => simp
  | cons b l ih =>
    rw [List.foldl_cons, ih]
    unfold setAdd
    split
    · rename_i hb
      constructor
      · rintro (h | h)
        · exact Or.inl h
        · exact Or.inr (List.mem_cons_of_mem _ h)
      · rintro (h | h)
        · exact Or.inl h
        · rcases List.mem_cons.mp h with rfl | h
          · exact Or.inl hb
          · exact Or.inr h
    · simp only [List.mem_cons]
      tauto

theorem nodup_foldl_setAdd (l acc : List Pt) (h : acc.Nodup) : (l.foldl setAdd acc).Nodup := by
  induction l generalizing acc with
  | nil => simpa using h
  | cons b l ih =>
    rw [List.foldl_cons]
    apply ih
    unfold setAdd
    split
    · exact h
    · rename_i hb
      exact List.nodup_cons.mpr ⟨hb, h⟩

theorem mem_distinct' (a : Pt) (l : List Pt) : a ∈ distinct l ↔ a ∈ l := by
  unfold distinct
  rw [mem_foldl_setAdd]
  simp

theorem distinct_nodup' (l : List Pt) : (distinct l).Nodup := by
  unfold distinct
  exact nodup_foldl_setAdd l [] List.nodup_nil

theorem mem_walkRange' (a0 a1 v : Int) :
    v ∈ walkRange a0 a1 ↔ (a0 ≤ v ∧ v < a1) ∨ (a1 < v ∧ v ≤ a0) := by
  simp only [walkRange, List.mem_map, List.mem_range]
  constructor
  · rintro ⟨k, hk, rfl⟩
    split <;> omega
  · intro h
    by_cases h01 : a0 < a1
    · refine ⟨(v - a0).toNat, by omega, ?_⟩
      rw [if_pos h01]; omega
    · refine ⟨(a0 - v).toNat, by omega, ?_⟩
      rw [if_neg h01]; omega

theorem interp_chord' (a0 b0 a1 b1 v : Int) (h : a0 ≠ a1) :
    interp a0 b0 a1 b1 v = (b0 : Rat) + ((b1 : Rat) - b0) * ((v : Rat) - a0) / ((a1 : Rat) - a0) := by
  unfold interp
  have h1 : (a1 : Rat) - a0 ≠ 0 := by
    intro h'; apply h; have : (a1 : Rat) = a0 := by linarith
    exact (Int.cast_injective this).symm
  have h2 : (a0 : Rat) - a1 ≠ 0 := by
    intro h'; apply h1; linarith
  by_cases h01 : a0 ≤ a1
  · simp only [if_pos h01]
    field_simp
  · simp only [if_neg h01]
    field_simp
    ring

theorem mem_band' (prm : Params) (verts : List Pt) (p : Pt) :
    p ∈ band prm verts ↔
      ∃ s ∈ consec (verts.map (place prm)), ∃ c ∈ walkCentres (ceilPt s.1) (ceilPt s.2),
        ∃ q ∈ getLayerElements c prm.layers, p = toPixel q := by
  simp only [band, mem_distinct', List.mem_flatMap, walkTwoVertices, List.mem_map]
  constructor
  · rintro ⟨s, hs, c, hc, q, hq, rfl⟩; exact ⟨s, hs, c, hc, q, hq, rfl⟩
  · rintro ⟨s, hs, c, hc, q, hq, rfl⟩; exact ⟨s, hs, c, hc, q, hq, rfl⟩

theorem mem_bandUpstream' (prm : Params) (verts : List Pt) (p : Pt) :
    p ∈ bandUpstream prm verts ↔
      ∃ s ∈ consec (verts.map (place prm)), ∃ c ∈ walkCentres (ceilPt s.1) (ceilPt s.2),
        p ∈ getLayerElements c prm.layers := by
  simp only [bandUpstream, mem_distinct', List.mem_flatMap, walkTwoVerticesUpstream]

theorem band_nodup' (prm : Params) (verts : List Pt) : (band prm verts).Nodup := distinct_nodup' _

theorem bandUpstream_nodup' (prm : Params) (verts : List Pt) : (bandUpstream prm verts).Nodup := distinct_nodup' _

theorem getD_map_zero (c : Rat) (l : List Rat) (i : Nat) :
    (l.map fun v => c * v).getD i 0 = c * l.getD i 0 := by
  simp only [List.getD_eq_getElem?_getD, List.getElem?_map]
  cases l[i]? <;> simp

theorem getpixel_scale' (c : Rat) (img : Image) (p : Pt) :
    getpixel (img.scale c) p = c * getpixel img p := by
  unfold getpixel Image.at Image.scale
  split
  · simp
  · simp only
    have : (List.map (fun r : List Rat => List.map (fun v => c * v) r) img.rows).getD (pixelOf p).2.toNat []
        = List.map (fun v => c * v) (img.rows.getD (pixelOf p).2.toNat []) := by
      simp only [List.getD_eq_getElem?_getD, List.getElem?_map]
      cases img.rows[(pixelOf p).2.toNat]? <;> simp
    rw [this, getD_map_zero]

theorem orderedInsert_map (c : Rat) (hc : 0 < c) (a : Rat) (l : List Rat) :
    orderedInsert (c * a) (l.map fun v => c * v) = (orderedInsert a l).map fun v => c * v := by
  induction l with
  | nil => simp [orderedInsert]
  | cons b l ih =>
    simp only [List.map_cons, orderedInsert]
    have : c * a ≤ c * b ↔ a ≤ b := by
      constructor
      · intro h; exact le_of_mul_le_mul_left h hc
      · intro h; exact mul_le_mul_of_nonneg_left h (le_of_lt hc)
    by_cases hab : a ≤ b
    · rw [if_pos hab, if_pos (this.mpr hab)]; simp
    · rw [if_neg hab, if_neg (fun h => hab (this.mp h)), ih]; simp

theorem sort_map (c : Rat) (hc : 0 < c) (l : List Rat) :
    sort (l.map fun v => c * v) = (sort l).map fun v => c * v := by
  induction l with
  | nil => simp [sort]
  | cons a l ih => simp only [List.map_cons, sort, ih, orderedInsert_map c hc]

theorem getD_of_forall (l : List Rat) (k : Rat) (hk : ∀ x ∈ l, x = k) (i : Nat) (hi : i < l.length) :
    l.getD i 0 = k := by
  have : l.getD i 0 = l[i] := by simp [List.getD, hi]
  rw [this]
  exact hk _ (List.getElem_mem hi)

theorem median_const' (l : List Rat) (k : Rat) (h0 : l ≠ []) (hk : ∀ x ∈ l, x = k) : median l = k := by
  have hs : ∀ x ∈ sort l, x = k := fun x hx => hk x ((sort_perm' l).mem_iff.mp hx)
  have hl : l.length ≠ 0 := by simpa using h0
  have hlen := sort_length l
  unfold median
  simp only
  rw [if_neg (by omega)]
  split
  · exact getD_of_forall _ k hs _ (by omega)
  · rw [getD_of_forall _ k hs _ (by omega), getD_of_forall _ k hs _ (by omega)]
    ring

theorem median_scale_pos (c : Rat) (hc : 0 < c) (l : List Rat) :
    median (l.map fun v => c * v) = c * median l := by
  unfold median
  simp only [sort_map c hc, List.length_map, getD_map_zero]
  split
  · simp
  · split
    · rfl
    · ring

theorem median_scale' (c : Rat) (hc : 0 ≤ c) (l : List Rat) :
    median (l.map fun v => c * v) = c * median l := by
  rcases eq_or_lt_of_le hc with h | h
  · subst h
    by_cases h0 : l = []
    · subst h0; simp [median, sort]
    · rw [median_const' (l.map fun v => 0 * v) 0 (by simpa using h0) (by simp)]
      simp
  · exact median_scale_pos c h l

theorem bandSum_scale' (c : Rat) (img : Image) (b : List Pt) :
    bandSum (img.scale c) b = c * bandSum img b := by
  unfold bandSum
  rw [← List.sum_map_mul_left]
  congr 1
  apply List.map_congr_left
  intro p _
  exact getpixel_scale' c img p

theorem sum_map_mul_left' {α : Type} (c : Rat) (f : α → Rat) (l : List α) :
    (l.map fun a => c * f a).sum = c * (l.map f).sum := by
  induction l with
  | nil => simp
  | cons a l ih => simp [ih]; ring

theorem mean_scale {α : Type} (c : Rat) (f : α → Rat) (l : List α) :
    mean (l.map fun a => c * f a) = c * mean (l.map f) := by
  unfold mean
  by_cases h : l = []
  · subst h; simp
  · simp only [List.isEmpty_map, List.length_map, sum_map_mul_left']
    split
    · simp
    · ring

theorem windowStat_scale (c : Rat) (hc : 0 ≤ c) (img : Image) (prm : Params) (verts : List Pt) :
    windowStat (img.scale c) prm verts = c * windowStat img prm verts := by
  unfold windowStat
  rw [← mean_scale]
  congr 1
  apply List.map_congr_left
  intro v _
  unfold getIntensity
  rw [← median_scale' c hc, List.map_map]
  congr 1
  apply List.map_congr_left
  intro p _
  exact getpixel_scale' c img p

theorem rawIntensity_scale' (c : Rat) (hc : 0 ≤ c) (img : Image) (prm : Params) (integrate : Bool) (f : Iface) :
    rawIntensity (img.scale c) prm integrate f = c * rawIntensity img prm integrate f := by
  unfold rawIntensity
  cases integrate
  · simp only [Bool.false_eq_true, if_false]
    exact windowStat_scale c hc img prm f.verts
  · simp only [if_true, bandSum_scale']
    ring

theorem rawIntensities_scale (c : Rat) (hc : 0 ≤ c) (img : Image) (prm : Params) (integrate : Bool) (ifs : List Iface) :
    rawIntensities (img.scale c) prm integrate ifs =
      (rawIntensities img prm integrate ifs).map fun v => c * v := by
  unfold rawIntensities
  rw [List.map_map]
  apply List.map_congr_left
  intro f _
  exact rawIntensity_scale' c hc img prm integrate f

theorem intensity_scale' (c : Rat) (hc : 0 ≤ c) (img : Image) (prm : Params) (integrate : Bool) (ifs : List Iface) :
    intensityValues (img.scale c) prm integrate .none ifs =
      (intensityValues img prm integrate .none ifs).map fun v => c * v := by
  unfold intensityValues normalise
  exact rawIntensities_scale c hc img prm integrate ifs

theorem intensity_scale_average' (c : Rat) (hc : 0 < c) (img : Image) (prm : Params) (integrate : Bool)
    (ifs : List Iface) :
    intensityValues (img.scale c) prm integrate .average ifs = intensityValues img prm integrate .average ifs := by
  unfold intensityValues normalise
  simp only
  rw [rawIntensities_scale c (le_of_lt hc)]
  have hm : mean ((rawIntensities img prm integrate ifs).map fun v => c * v)
      = c * mean (rawIntensities img prm integrate ifs) := by
    have := mean_scale c (fun v : Rat => v) (rawIntensities img prm integrate ifs)
    simpa using this
  rw [hm, List.map_map]
  apply List.map_congr_left
  intro v _
  simp only [Function.comp]
  have : c ≠ 0 := ne_of_gt hc
  rw [mul_div_mul_left _ _ this]

theorem truncI_nonneg (q : Rat) (h : 0 ≤ q) : 0 ≤ truncI q := by
  unfold truncI
  rw [if_pos h]
  exact Rat.le_floor_iff.mpr (by simpa using h)

theorem getpixel_uniform' (w h : Nat) (k : Rat) (p : Pt)
    (hp : (Image.mk (List.replicate h (List.replicate w k))).inside p = true) :
    getpixel (Image.mk (List.replicate h (List.replicate w k))) p = k := by
  unfold Image.inside at hp
  simp only [Bool.and_eq_true, decide_eq_true_eq, List.length_replicate] at hp
  obtain ⟨⟨⟨hx, hy⟩, h2⟩, h1⟩ := hp
  have hx' := truncI_nonneg _ hx
  have hy' := truncI_nonneg _ hy
  unfold getpixel Image.at
  have hrow : (List.replicate h (List.replicate w k)).getD (pixelOf p).2.toNat [] = List.replicate w k := by
    simp [List.getD, h2]
  rw [hrow, List.length_replicate] at h1
  simp only [hrow]
  rw [if_neg (by simp only [pixelOf]; omega)]
  simp [List.getD, h1]

theorem mean_const (l : List Rat) (k : Rat) (h0 : l ≠ []) (hk : ∀ x ∈ l, x = k) : mean l = k := by
  have hl : l = List.replicate l.length k := List.eq_replicate_iff.mpr ⟨rfl, hk⟩
  have hn : (l.length : Rat) ≠ 0 := by
    have : l.length ≠ 0 := by simpa using h0
    exact_mod_cast this
  unfold mean
  rw [if_neg (by simpa using h0)]
  rw [hl]
  simp only [List.sum_replicate, List.length_replicate, nsmul_eq_mul]
  field_simp

theorem uniform_equal' (img : Image) (prm : Params) (verts : List Pt) (k : Rat) (hv : verts ≠ [])
    (h : ∀ v ∈ verts, ∀ p ∈ getLayerElements (place prm v) prm.layers, getpixel img p = k) :
    windowStat img prm verts = k := by
  unfold windowStat
  apply mean_const _ _ (by simpa using hv)
  intro x hx
  rw [List.mem_map] at hx
  obtain ⟨v, hv, rfl⟩ := hx
  apply median_const'
  · unfold getIntensity
    intro h'
    have := congrArg List.length h'
    rw [List.length_map, layerElements_length'] at this
    simp at this
  · intro y hy
    unfold getIntensity at hy
    rw [List.mem_map] at hy
    obtain ⟨p, hp, rfl⟩ := hy
    exact h v hv p hp

theorem uniform_equal_all' (w h : Nat) (k : Rat) (prm : Params) (ifs : List Iface)
    (hv : ∀ f ∈ ifs, f.verts ≠ [])
    (hin : ∀ f ∈ ifs, ∀ v ∈ f.verts, ∀ p ∈ getLayerElements (place prm v) prm.layers,
      (Image.mk (List.replicate h (List.replicate w k))).inside p = true) :
    intensityValues (Image.mk (List.replicate h (List.replicate w k))) prm false .none ifs = List.replicate ifs.length k := by
  unfold intensityValues normalise rawIntensities
  simp only
  rw [List.eq_replicate_iff]
  refine ⟨by simp, ?_⟩
  intro x hx
  rw [List.mem_map] at hx
  obtain ⟨f, hf, rfl⟩ := hx
  unfold rawIntensity
  simp only [Bool.false_eq_true, if_false]
  apply uniform_equal' _ _ _ _ (hv f hf)
  intro v hv p hp
  exact getpixel_uniform' w h k p (hin f hf v hv p hp)

theorem average_mean_one' (img : Image) (prm : Params) (integrate : Bool) (ifs : List Iface)
    (h : mean (rawIntensities img prm integrate ifs) ≠ 0) :
    mean (intensityValues img prm integrate .average ifs) = 1 := by
  unfold intensityValues normalise
  simp only
  generalize rawIntensities img prm integrate ifs = vals at h
  have hmap : (vals.map fun v => v / mean vals).sum = vals.sum / mean vals := by
    simp only [div_eq_mul_inv]
    rw [List.sum_map_mul_right]
    simp
  have h0 : vals ≠ [] := by
    intro h'; subst h'; simp [mean] at h
  have hn : (vals.length : Rat) ≠ 0 := by
    have : vals.length ≠ 0 := by simpa using h0
    exact_mod_cast this
  have hm : mean vals = vals.sum / vals.length := by
    unfold mean; rw [if_neg (by simpa using h0)]
  have hmean : ∀ l : List Rat, l ≠ [] → mean l = l.sum / l.length := by
    intro l hl; unfold mean; rw [if_neg (by simpa using hl)]
  rw [hmean _ (by simpa using h0), hmap, List.length_map]
  rw [hm] at h ⊢
  have hs : vals.sum ≠ 0 := by
    intro h'; apply h; rw [h']; simp
  field_simp

theorem enumFrom_map_fst {α : Type} (n : Nat) (l : List α) :
    (enumFrom n l).map (·.1) = List.range' n l.length := by
  induction l generalizing n with
  | nil => simp [enumFrom]
  | cons a l ih => simp [enumFrom, ih, List.range'_succ]

theorem enumFrom_map_snd {α : Type} (n : Nat) (l : List α) :
    (enumFrom n l).map (·.2) = l := by
  induction l generalizing n with
  | nil => simp [enumFrom]
  | cons a l ih => simp [enumFrom, ih]

theorem enumFrom_lookup {α : Type} (n : Nat) (l : List α) (i : Nat) :
    (enumFrom n l).lookup (n + i) = l[i]? := by
  induction l generalizing n i with
  | nil => simp [enumFrom]
  | cons a l ih =>
    cases i with
    | zero => simp [enumFrom]
    | succ i =>
      simp only [enumFrom, List.lookup]
      have : (n + (i + 1) == n) = false := by simp
      rw [this]
      have := ih (n + 1) i
      rw [show n + 1 + i = n + (i + 1) by omega] at this
      simpa using this

theorem keys_in_order' (img : Image) (prm : Params) (integrate : Bool) (norm : Norm) (ifs : List Iface) :
    (getIntensities img prm integrate norm ifs).map (·.1) = List.range ifs.length := by
  unfold getIntensities
  rw [enumFrom_map_fst, List.range_eq_range']
  congr 1
  unfold intensityValues normalise rawIntensities
  cases norm <;> simp

theorem values_in_order' (img : Image) (prm : Params) (integrate : Bool) (norm : Norm) (ifs : List Iface) :
    (getIntensities img prm integrate norm ifs).map (·.2) = intensityValues img prm integrate norm ifs := by
  exact enumFrom_map_snd _ _

theorem lookup_key' (img : Image) (prm : Params) (integrate : Bool) (norm : Norm) (ifs : List Iface) (i : Nat) :
    (getIntensities img prm integrate norm ifs).lookup i = (intensityValues img prm integrate norm ifs)[i]? := by
  have := enumFrom_lookup 0 (intensityValues img prm integrate norm ifs) i
  simpa [getIntensities] using this

theorem truncI_of_int (q : Rat) (h : ((q.floor : Int) : Rat) = q) : truncI q = q.floor := by
  unfold truncI
  split
  · rfl
  · have : -q = ((-q.floor : Int) : Rat) := by rw [Int.cast_neg, h]
    rw [this, Rat.floor_intCast]
    omega

theorem pixelOf_inj (p q : Pt)
    (hp : ((p.x.floor : Int) : Rat) = p.x ∧ ((p.y.floor : Int) : Rat) = p.y)
    (hq : ((q.x.floor : Int) : Rat) = q.x ∧ ((q.y.floor : Int) : Rat) = q.y)
    (h : pixelOf p = pixelOf q) : p = q := by
  unfold pixelOf at h
  rw [truncI_of_int _ hp.1, truncI_of_int _ hp.2, truncI_of_int _ hq.1, truncI_of_int _ hq.2] at h
  obtain ⟨hx, hy⟩ := Prod.mk.inj h
  cases p; cases q
  simp only [Pt.mk.injEq]
  simp only at hp hq hx hy
  exact ⟨by rw [← hp.1, ← hq.1, hx], by rw [← hp.2, ← hq.2, hy]⟩

theorem bandUpstream_pixels_nodup_partial' (prm : Params) (verts : List Pt)
    (h : ∀ p ∈ bandUpstream prm verts, ((p.x.floor : Int) : Rat) = p.x ∧ ((p.y.floor : Int) : Rat) = p.y) :
    ((bandUpstream prm verts).map pixelOf).Nodup := by
  apply List.Nodup.map_on _ (bandUpstream_nodup' prm verts)
  intro p hp q hq hpq
  exact pixelOf_inj p q (h p hp) (h q hq) hpq

theorem toPixel_int (q : Pt) :
    ((((toPixel q).x.floor : Int) : Rat) = (toPixel q).x) ∧ ((((toPixel q).y.floor : Int) : Rat) = (toPixel q).y) := by
  unfold toPixel
  simp only [Rat.floor_intCast, and_self]

theorem pixelOf_toPixel' (q : Pt) : pixelOf (toPixel q) = pixelOf q := by
  have h := toPixel_int q
  unfold pixelOf
  rw [truncI_of_int _ h.1, truncI_of_int _ h.2]
  unfold toPixel
  simp only [Rat.floor_intCast]

theorem band_int' (prm : Params) (verts : List Pt) :
    ∀ p ∈ band prm verts, ((p.x.floor : Int) : Rat) = p.x ∧ ((p.y.floor : Int) : Rat) = p.y := by
  intro p hp
  obtain ⟨s, _, c, _, q, _, rfl⟩ := (mem_band' prm verts p).mp hp
  exact toPixel_int q

theorem band_pixels_nodup' (prm : Params) (verts : List Pt) : ((band prm verts).map pixelOf).Nodup := by
  apply List.Nodup.map_on _ (band_nodup' prm verts)
  intro p hp q hq hpq
  exact pixelOf_inj p q (band_int' prm verts p hp) (band_int' prm verts q hq) hpq

theorem band_pixels_eq_upstream' (prm : Params) (verts : List Pt) (xy : Int × Int) :
    xy ∈ (band prm verts).map pixelOf ↔ xy ∈ (bandUpstream prm verts).map pixelOf := by
  simp only [List.mem_map, mem_band', mem_bandUpstream']
  constructor
  · rintro ⟨p, ⟨s, hs, c, hc, q, hq, rfl⟩, rfl⟩
    exact ⟨q, ⟨s, hs, c, hc, hq⟩, (pixelOf_toPixel' q).symm⟩
  · rintro ⟨q, ⟨s, hs, c, hc, hq⟩, rfl⟩
    exact ⟨toPixel q, ⟨s, hs, c, hc, q, hq, rfl⟩, pixelOf_toPixel' q⟩

/-- the per-interface value function: `intensityValues = ifs.map (valueOf …)` -/

def valueOf (img : Image) (prm : Params) (integrate : Bool) (norm : Norm) (ifs : List Iface) (f : Iface) : Rat :=
  match norm with
  | .none => rawIntensity img prm integrate f
  | .average => rawIntensity img prm integrate f / mean (rawIntensities img prm integrate ifs)

theorem intensityValues_eq_map (img : Image) (prm : Params) (integrate : Bool) (norm : Norm) (ifs : List Iface) :
    intensityValues img prm integrate norm ifs = ifs.map (valueOf img prm integrate norm ifs) := by
  unfold intensityValues normalise rawIntensities valueOf
  cases norm
  · rfl
  · simp only [List.map_map]
    rfl

theorem filterMap_enumFrom (g : Iface → Rat) (F : Nat → Option Rat) (n : Nat) (l : List Iface)
    (hF : ∀ i (h : i < l.length), F (n + i) = some (g l[i])) :
    ((enumFrom n l).filterMap fun (x : Nat × Iface) => (F x.1).map fun v => (x.2.oid, v))
      = l.map fun f => (f.oid, g f) := by
  induction l generalizing n with
  | nil => simp [enumFrom]
  | cons a l ih =>
    have h0 := hF 0 (by simp)
    simp only [Nat.add_zero, List.getElem_cons_zero] at h0
    simp only [enumFrom, List.map_cons]
    rw [List.filterMap_cons_some (b := (a.oid, g a)) (by simp [h0])]
    congr 1
    apply ih
    intro i hi
    have := hF (i + 1) (by simpa using hi)
    rw [show n + 1 + i = n + (i + 1) by omega]
    simpa using this

theorem gtWrites_eq (img : Image) (prm : Params) (integrate : Bool) (norm : Norm) (ifs : List Iface) :
    gtWrites img prm integrate norm ifs
      = ifs.map fun f => (f.oid, valueOf img prm integrate norm ifs f) := by
  unfold gtWrites gtWritesOf
  apply filterMap_enumFrom (valueOf img prm integrate norm ifs)
    (fun i => (getIntensities img prm integrate norm ifs).lookup i) 0 ifs
  intro i hi
  simp only [Nat.zero_add]
  rw [lookup_key', intensityValues_eq_map]
  simp [hi]

theorem lookup_mem {β : Type} (l : List (Nat × β)) (k : Nat) (b : β) (h : l.lookup k = some b) :
    (k, b) ∈ l := by
  obtain ⟨l1, l2, rfl, _⟩ := List.lookup_eq_some_iff.mp h
  simp

theorem writeback_order' (img : Image) (prm : Params) (integrate : Bool) (norm : Norm) (ifs : List Iface)
    (hid : ∀ f ∈ ifs, ∀ g ∈ ifs, f.oid = g.oid → f = g) (i : Nat) (hi : i < ifs.length) :
    gtAfter img prm integrate norm ifs (ifs[i]).oid = (intensityValues img prm integrate norm ifs)[i]? := by
  unfold gtAfter lastWrite
  rw [gtWrites_eq, intensityValues_eq_map]
  have hmem : ifs[i] ∈ ifs := List.getElem_mem hi
  cases hlk : (List.map (fun f => (f.oid, valueOf img prm integrate norm ifs f)) ifs).reverse.lookup ifs[i].oid with
  | none =>
    rw [List.lookup_eq_none_iff] at hlk
    have := hlk (ifs[i].oid, valueOf img prm integrate norm ifs ifs[i])
      (by rw [List.mem_reverse, List.mem_map]; exact ⟨ifs[i], hmem, rfl⟩)
    simp at this
  | some v =>
    have := lookup_mem _ _ _ hlk
    rw [List.mem_reverse, List.mem_map] at this
    obtain ⟨f, hf, hfe⟩ := this
    obtain ⟨h1, h2⟩ := Prod.mk.inj hfe
    have := hid f hf _ hmem h1
    subst this
    simp [hi, h2]

theorem writeback_only_listed' (img : Image) (prm : Params) (integrate : Bool) (norm : Norm) (ifs : List Iface)
    (oid : Nat) (h : ∀ f ∈ ifs, f.oid ≠ oid) :
    gtAfter img prm integrate norm ifs oid = none := by
  unfold gtAfter lastWrite
  rw [gtWrites_eq, List.lookup_eq_none_iff]
  intro p hp
  rw [List.mem_reverse, List.mem_map] at hp
  obtain ⟨f, hf, rfl⟩ := hp
  simp only [bne_iff_ne, ne_eq]
  exact fun h' => h f hf h'.symm

end Forsys.Myosin
