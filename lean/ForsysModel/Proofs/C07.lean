/- helper lemmas for Props/C07.lean -/
import ForsysModel.Proofs.C08
import ForsysModel.Props.C08
import ForsysModel.Proofs.LinAlg
import Mathlib.Data.List.Perm.Basic
import Mathlib.Data.List.Perm.Subperm
import Mathlib.Data.List.Nodup
import Mathlib.Data.List.Pairwise
namespace Forsys
namespace C07
variable {α β : Type}

/-! ### least squares: sums over zipped lists -/

theorem dot_eq_zip (r x : List Rat) : dot r x = ((List.zip r x).map fun p => p.1 * p.2).sum := by
  unfold dot
  rw [List.zip, List.map_zipWith]

theorem dot_perm' (r x r' x' : List Rat) (h : (List.zip r x).Perm (List.zip r' x')) : dot r x = dot r' x' := by
  rw [dot_eq_zip, dot_eq_zip]
  exact (h.map _).sum_eq

theorem residSq_eq_zip (M : Mat) (b x : List Rat) (hl : M.length = b.length) :
    residSq M b x = ((List.zip M b).map fun p => (dot p.1 x - p.2) * (dot p.1 x - p.2)).sum := by
  unfold residSq normSq vsub mulVec
  induction M generalizing b with
  | nil => simp
  | cons r M ih =>
    cases b with
    | nil => simp at hl
    | cons β b =>
      simp at hl
      simp [ih b hl]

/-! ### cycle splitting: normal form `u ++ j₁ u₁ j₂ u₂ … jₖ uₖ` -/

/-- a group given as (junction, non-junction run) -/
def grp (p : α × List α) : List α := p.1 :: p.2
def flat (G : List (α × List α)) : List α := (G.map grp).flatten
/-- head junction of the next group, or the closing junction `f` -/
def nj (G : List (α × List α)) (f : α) : α := match G with | [] => f | p :: _ => p.1
def paths (f : α) : List (α × List α) → List (List α)
  | [] => []
  | p :: G => (p.1 :: (p.2 ++ [nj G f])) :: paths f G
def ShapedG (isJ : α → Bool) (G : List (α × List α)) : Prop :=
  ∀ p ∈ G, isJ p.1 = true ∧ ∀ b ∈ p.2, isJ b = false

@[simp] theorem nj_nil (f : α) : nj ([] : List (α × List α)) f = f := rfl
@[simp] theorem nj_cons (p : α × List α) (G) (f : α) : nj (p :: G) f = p.1 := rfl
@[simp] theorem flat_nil : flat ([] : List (α × List α)) = [] := rfl
@[simp] theorem flat_cons (p : α × List α) (G) : flat (p :: G) = p.1 :: (p.2 ++ flat G) := by
  simp [flat, grp]
@[simp] theorem flat_append (A B : List (α × List α)) : flat (A ++ B) = flat A ++ flat B := by
  simp [flat]

theorem ShapedG.tail {isJ : α → Bool} {p} {G : List (α × List α)} (h : ShapedG isJ (p :: G)) : ShapedG isJ G :=
  fun q hq => h q (by simp [hq])

theorem shapedG_grp {isJ : α → Bool} {G : List (α × List α)} (h : ShapedG isJ G) :
    ∀ g ∈ G.map grp, GShape isJ g := by
  intro g hg
  simp at hg
  obtain ⟨a, b, hab, rfl⟩ := hg
  exact ⟨a, b, rfl, (h _ hab).1, (h _ hab).2⟩

theorem splitAux_normal (isJ : α → Bool) (u : List α) (G : List (α × List α)) (m : List α)
    (hu : ∀ a ∈ u, isJ a = false) (hG : ShapedG isJ G) (hm : ∀ a ∈ m, isJ a = false) :
    splitAux isJ (u ++ (flat G ++ m)) =
      if G = [] then (u ++ m, []) else (u, appendLast (G.map grp) m) := by
  rw [splitAux_nonJ_append isJ u _ hu]
  unfold flat
  rw [splitAux_groups_tail isJ _ m (shapedG_grp hG) hm]
  cases G <;> simp

theorem appendLast_appendLast (gs : List (List α)) (m u : List α) :
    appendLast (appendLast gs m) u = appendLast gs (m ++ u) := by
  fun_induction appendLast gs m with
  | case1 => rfl
  | case2 g m => simp [appendLast]
  | case3 g g' gs m ih =>
    obtain ⟨x, xs, hx⟩ := List.exists_cons_of_ne_nil
      (fun h => by simpa using (appendLast_eq_nil (g' :: gs) m).1 h : appendLast (g' :: gs) m ≠ [])
    rw [hx] at ih ⊢
    simp [appendLast, ih]

theorem cellGroups_normal (isJ : α → Bool) (u : List α) (G : List (α × List α)) (m : List α)
    (hu : ∀ a ∈ u, isJ a = false) (hG : ShapedG isJ G) (hm : ∀ a ∈ m, isJ a = false) :
    cellGroups isJ (u ++ (flat G ++ m)) = appendLast (G.map grp) (m ++ u) := by
  rw [cellGroups_eq, splitAux_normal isJ u G m hu hG hm]
  cases G with
  | nil => simp [appendLast]
  | cons p G =>
    simp [appendLast_appendLast]

theorem closeAux_grp (f : α) (G : List (α × List α)) : closeAux f (G.map grp) = paths f G := by
  induction G with
  | nil => rfl
  | cons p G ih =>
    simp only [List.map_cons, closeAux, paths, ih]
    cases G <;> simp [grp, nj]

theorem closeUp_grp (c : α) (G : List (α × List α)) : closeUp (G.map grp) = paths (nj G c) G := by
  cases G with
  | nil => rfl
  | cons p G =>
    rw [List.map_cons, closeUp_eq_closeAux (grp p) _ p.1 p.2 rfl, ← List.map_cons, closeAux_grp]
    · rfl
    · intro x hx
      rw [← List.map_cons] at hx
      simp [grp] at hx
      rcases hx with rfl | ⟨a, b, _, rfl⟩ <;> simp

theorem appendLast_concat (A : List (List α)) (g u : List α) :
    appendLast (A ++ [g]) u = A ++ [g ++ u] := by
  induction A with
  | nil => rfl
  | cons a A ih =>
    cases A with
    | nil => simp [appendLast]
    | cons b A => simpa [appendLast] using ih

theorem exists_normal (isJ : α → Bool) (cyc : List α) :
    ∃ u G, cyc = u ++ flat G ∧ (∀ a ∈ u, isJ a = false) ∧ ShapedG isJ G := by
  induction cyc with
  | nil => exact ⟨[], [], rfl, by simp, by simp [ShapedG]⟩
  | cons a rest ih =>
    obtain ⟨u, G, rfl, hu, hG⟩ := ih
    by_cases ha : isJ a = true
    · refine ⟨[], (a, u) :: G, by simp, by simp, ?_⟩
      intro p hp
      simp at hp
      rcases hp with rfl | hp
      · exact ⟨ha, hu⟩
      · exact hG p hp
    · refine ⟨a :: u, G, by simp, ?_, hG⟩
      intro b hb
      simp at hb
      rcases hb with rfl | hb
      · simpa using ha
      · exact hu b hb

theorem paths_append (c : α) (A B : List (α × List α)) :
    paths c (A ++ B) = paths (nj B c) A ++ paths c B := by
  induction A with
  | nil => rfl
  | cons p A ih =>
    simp only [List.cons_append, paths, ih]
    cases A <;> simp [nj]


theorem map_grp_concat (G : List (α × List α)) (a : α) (w u : List α) :
    appendLast ((G ++ [(a, w)]).map grp) u = (G ++ [(a, w ++ u)]).map grp := by
  simp [appendLast_concat, grp]

theorem paths_rotate (c : α) (A B : List (α × List α)) :
    (paths (nj (B ++ A) c) (B ++ A)).Perm (paths (nj (A ++ B) c) (A ++ B)) := by
  cases A with
  | nil => simp
  | cons p A =>
    cases B with
    | nil => simp
    | cons q B =>
      rw [paths_append, paths_append]
      simp only [List.cons_append, nj]
      exact List.perm_append_comm

/-- moving one element from the end of the cycle to its front -/
theorem cellPaths_move_one (isJ : α → Bool) (l : List α) (a : α) :
    (cellPaths isJ (l ++ [a])).Perm (cellPaths isJ (a :: l)) := by
  obtain ⟨u, G, rfl, hu, hG⟩ := exists_normal isJ l
  by_cases ha : isJ a = true
  · -- `a` is a junction: the group `(a, u)` moves from the back to the front
    have hG1 : ShapedG isJ (G ++ [(a, [])]) := by
      intro p hp
      simp at hp
      rcases hp with hp | rfl
      · exact hG p hp
      · exact ⟨ha, by simp⟩
    have hG2 : ShapedG isJ ((a, u) :: G) := by
      intro p hp
      simp at hp
      rcases hp with rfl | hp
      · exact ⟨ha, hu⟩
      · exact hG p hp
    have e1 : u ++ flat G ++ [a] = u ++ (flat (G ++ [(a, [])]) ++ []) := by simp
    have e2 : a :: (u ++ flat G) = [] ++ (flat ((a, u) :: G) ++ []) := by simp
    unfold cellPaths
    rw [e1, e2, cellGroups_normal isJ u _ [] hu hG1 (by simp),
      cellGroups_normal isJ [] _ [] (by simp) hG2 (by simp)]
    simp only [List.nil_append, List.append_nil, appendLast_nil, map_grp_concat]
    rw [closeUp_grp a, closeUp_grp a]
    exact paths_rotate a [(a, u)] G
  · have ha' : isJ a = false := by simpa using ha
    have e1 : u ++ flat G ++ [a] = u ++ (flat G ++ [a]) := by simp
    have e2 : a :: (u ++ flat G) = (a :: u) ++ (flat G ++ []) := by simp
    unfold cellPaths
    rw [e1, e2, cellGroups_normal isJ u G [a] hu hG (by simpa using ha'),
      cellGroups_normal isJ (a :: u) G [] (by simpa [ha'] using hu) hG (by simp)]
    simp

theorem cellPaths_rotate' (isJ : α → Bool) (l1 l2 : List α) :
    (cellPaths isJ (l2 ++ l1)).Perm (cellPaths isJ (l1 ++ l2)) := by
  induction l1 generalizing l2 with
  | nil => simp
  | cons a l1 ih =>
    have h1 := ih (l2 ++ [a])
    have h2 := cellPaths_move_one isJ (l1 ++ l2) a
    simp only [List.append_assoc, List.cons_append] at h1 h2 ⊢
    exact h1.trans h2


/-! ### reversal -/

/-- groups of the reversed word `f uₖʳ jₖ … u₂ʳ j₂ u₁ʳ` (the closing junction `j₁` left out) -/
def rg (f : α) : List (α × List α) → List (α × List α)
  | [] => []
  | p :: G => rg f G ++ [(nj G f, p.2.reverse)]

theorem nj_isJ {isJ : α → Bool} {G : List (α × List α)} (hG : ShapedG isJ G) (f : α) (hf : isJ f = true) :
    isJ (nj G f) = true := by
  cases G with
  | nil => exact hf
  | cons p G => exact (hG p (by simp)).1

theorem rg_shaped {isJ : α → Bool} {G : List (α × List α)} (hG : ShapedG isJ G) (f : α) (hf : isJ f = true) :
    ShapedG isJ (rg f G) := by
  induction G with
  | nil => simp [rg, ShapedG]
  | cons p G ih =>
    intro q hq
    simp only [rg, List.mem_append, List.mem_singleton] at hq
    rcases hq with hq | rfl
    · exact ih hG.tail q hq
    · refine ⟨nj_isJ hG.tail f hf, ?_⟩
      intro b hb
      exact (hG p (by simp)).2 b (by simpa using hb)

theorem flat_rg (f : α) (G : List (α × List α)) :
    f :: (flat G).reverse = flat (rg f G) ++ [nj G f] := by
  induction G with
  | nil => rfl
  | cons p G ih =>
    have : f :: (flat (p :: G)).reverse = (f :: (flat G).reverse) ++ (p.2.reverse ++ [p.1]) := by simp
    rw [this, ih]
    simp [rg, nj]

theorem nj_rg (f c : α) (G : List (α × List α)) (h : G ≠ []) : nj (rg f G) c = f := by
  induction G with
  | nil => exact absurd rfl h
  | cons p G ih =>
    cases G with
    | nil => rfl
    | cons q G =>
      have := ih (by simp)
      rw [rg]
      generalize hX : rg f (q :: G) = X at this ⊢
      cases X with
      | nil => simp [rg] at hX
      | cons x X => simpa [nj] using this

theorem paths_rg (f c : α) (G : List (α × List α)) :
    paths (nj G c) (rg f G) = ((paths f G).map List.reverse).reverse := by
  induction G generalizing c with
  | nil => rfl
  | cons p G ih =>
    simp only [rg, paths_append, paths, nj_cons, nj_nil, List.map_cons, List.reverse_cons]
    rw [ih f]
    simp


theorem cellPaths_flat (isJ : α → Bool) (G : List (α × List α)) (hG : ShapedG isJ G) (c : α) :
    cellPaths isJ (flat G) = paths (nj G c) G := by
  have e : flat G = [] ++ (flat G ++ []) := by simp
  unfold cellPaths
  rw [e, cellGroups_normal isJ [] G [] (by simp) hG (by simp)]
  simp only [List.append_nil, appendLast_nil]
  exact closeUp_grp c G

theorem exists_rotation_normal (isJ : α → Bool) (cyc : List α) (h : ∃ a ∈ cyc, isJ a = true) :
    ∃ l1 l2 H, cyc = l1 ++ l2 ∧ l2 ++ l1 = flat H ∧ ShapedG isJ H ∧ H ≠ [] := by
  obtain ⟨u, G, rfl, hu, hG⟩ := exists_normal isJ cyc
  rcases List.eq_nil_or_concat G with rfl | ⟨G', ⟨j, w⟩, hG'⟩
  · obtain ⟨a, ha, hj⟩ := h
    simp at ha
    simp [hu a ha] at hj
  · rw [List.concat_eq_append] at hG'
    subst hG'
    refine ⟨u, flat (G' ++ [(j, w)]), G' ++ [(j, w ++ u)], rfl, by simp, ?_, by simp⟩
    intro p hp
    simp only [List.mem_append, List.mem_singleton] at hp
    rcases hp with hp | rfl
    · exact hG p (by simp [hp])
    · have := hG (j, w) (by simp)
      refine ⟨this.1, ?_⟩
      intro b hb
      simp only [List.mem_append] at hb
      rcases hb with hb | hb
      · exact this.2 b hb
      · exact hu b hb

theorem cellPaths_reverse_flat (isJ : α → Bool) (H : List (α × List α)) (hH : ShapedG isJ H) (hne : H ≠ []) :
    (cellPaths isJ (flat H).reverse).Perm ((cellPaths isJ (flat H)).map List.reverse) := by
  obtain ⟨p, G, rfl⟩ := List.exists_cons_of_ne_nil hne
  have hp : isJ p.1 = true := (hH p (by simp)).1
  have hfr := flat_rg p.1 (p :: G)
  rw [nj_cons] at hfr
  have hsh := rg_shaped hH p.1 hp
  have hne' : rg p.1 (p :: G) ≠ [] := by simp [rg]
  have hnj := nj_rg p.1 p.1 (p :: G) (by simp)
  -- the flattened reversed groups start with `p.1`
  generalize hR : rg p.1 (p :: G) = R at hfr hsh hne' hnj
  obtain ⟨q, R', rfl⟩ := List.exists_cons_of_ne_nil hne'
  rw [nj_cons] at hnj
  rw [flat_cons q R', hnj, List.cons_append, List.cons.injEq] at hfr
  have hY := hfr.2
  rw [hY]
  have h1 := cellPaths_move_one isJ (q.2 ++ flat R') p.1
  have h2 : p.1 :: (q.2 ++ flat R') = flat (q :: R') := by rw [flat_cons, hnj]
  rw [h2, cellPaths_flat isJ _ hsh p.1, ← hR, nj_rg p.1 p.1 _ (by simp)] at h1
  have h3 := paths_rg p.1 p.1 (p :: G)
  rw [nj_cons] at h3
  rw [h3] at h1
  rw [cellPaths_flat isJ _ hH p.1, nj_cons]
  exact h1.trans (List.reverse_perm _)

theorem cellPaths_reverse' (isJ : α → Bool) (cyc : List α) :
    (cellPaths isJ cyc.reverse).Perm ((cellPaths isJ cyc).map List.reverse) := by
  by_cases h : ∃ a ∈ cyc, isJ a = true
  · obtain ⟨l1, l2, H, rfl, hf, hH, hne⟩ := exists_rotation_normal isJ cyc h
    have h1 : (cellPaths isJ (l1 ++ l2).reverse).Perm (cellPaths isJ (flat H).reverse) := by
      rw [← hf, List.reverse_append, List.reverse_append]
      exact cellPaths_rotate' isJ _ _
    have h2 : (cellPaths isJ (flat H)).Perm (cellPaths isJ (l1 ++ l2)) := by
      rw [← hf]
      exact cellPaths_rotate' isJ _ _
    exact (h1.trans (cellPaths_reverse_flat isJ H hH hne)).trans (h2.map _)
  · have h' : ∀ a ∈ cyc, isJ a = false := by
      intro a ha
      by_contra hc
      exact h ⟨a, ha, by simpa using hc⟩
    rw [cellPaths_none isJ cyc h', cellPaths_none isJ cyc.reverse (by simpa using h')]
    simp

/-! ### relabelling -/

theorem splitAux_map (isJ : β → Bool) (f : α → β) (l : List α) :
    splitAux isJ (l.map f) =
      ((splitAux (fun a => isJ (f a)) l).1.map f, (splitAux (fun a => isJ (f a)) l).2.map (List.map f)) := by
  induction l with
  | nil => rfl
  | cons a l ih =>
    simp only [List.map_cons, splitAux, ih]
    split <;> simp

theorem appendLast_map (f : α → β) (gs : List (List α)) (m : List α) :
    appendLast (gs.map (List.map f)) (m.map f) = (appendLast gs m).map (List.map f) := by
  fun_induction appendLast gs m <;> simp_all [appendLast]

theorem closeUp_map (f : α → β) (gs : List (List α)) :
    closeUp (gs.map (List.map f)) = (closeUp gs).map (List.map f) := by
  unfold closeUp
  rw [List.map_filterMap]
  simp only [List.length_map]
  apply List.filterMap_congr
  intro i _
  simp only [List.map_map, List.getElem?_map]
  cases gs[i]? <;> cases h : gs[(i + 1) % gs.length]? <;> simp
  rename_i g g'
  cases g'.head? <;> simp

theorem cellPaths_map' (isJ : β → Bool) (f : α → β) (cyc : List α) :
    cellPaths isJ (cyc.map f) = (cellPaths (fun a => isJ (f a)) cyc).map (List.map f) := by
  unfold cellPaths
  rw [cellGroups_eq, cellGroups_eq, splitAux_map, appendLast_map, closeUp_map]

/-! ### de-duplication up to reversal -/

section
variable [DecidableEq α]
theorem dedup_memRev' (ps : List (List α)) (p : List α) :
    (p ∈ dedup ps ∨ p.reverse ∈ dedup ps) ↔ (p ∈ ps ∨ p.reverse ∈ ps) := by
  constructor
  · rintro (h | h)
    · exact Or.inl (dedup_sub ps _ h)
    · exact Or.inr (dedup_sub ps _ h)
  · rintro (h | h)
    · exact dedup_complete ps p h
    · have := dedup_complete ps _ h
      rw [List.reverse_reverse] at this
      exact this.symm
end

section
variable [DecidableEq α]

/-- a list without repetitions up to reversal, each of whose members occurs up to reversal in `E`,
    is not longer than `E` -/
theorem length_le_of_memRev (D E : List (List α))
    (hD : D.Pairwise (fun a b => a ≠ b ∧ a.reverse ≠ b))
    (h : ∀ p ∈ D, p ∈ E ∨ p.reverse ∈ E) : D.length ≤ E.length := by
  have hsymm : ∀ a b : List α, (a ≠ b ∧ a.reverse ≠ b) → (b ≠ a ∧ b.reverse ≠ a) := by
    intro a b ⟨h1, h2⟩
    refine ⟨fun e => h1 e.symm, fun e => h2 ?_⟩
    rw [← e, List.reverse_reverse]
  have : Std.Symm (fun a b : List α => a ≠ b ∧ a.reverse ≠ b) := ⟨hsymm⟩
  have hall : ∀ a ∈ D, ∀ b ∈ D, a ≠ b → (a ≠ b ∧ a.reverse ≠ b) :=
    fun a ha b hb hab => hD.forall ha hb hab
  let φ : List α → List α := fun p => if p ∈ E then p else p.reverse
  have hφE : ∀ p ∈ D, φ p ∈ E := by
    intro p hp
    by_cases hpE : p ∈ E
    · simp [φ, hpE]
    · simpa [φ, hpE] using (h p hp).resolve_left hpE
  have hφ : ∀ p, φ p = p ∨ φ p = p.reverse := by
    intro p
    by_cases hpE : p ∈ E <;> simp [φ, hpE]
  have hinj : ∀ a ∈ D, ∀ b ∈ D, φ a = φ b → a = b := by
    intro a ha b hb hab
    by_contra hne
    have hab' := hall a ha b hb hne
    rcases hφ a with h1 | h1 <;> rcases hφ b with h2 | h2 <;> rw [h1, h2] at hab
    · exact hab'.1 hab
    · apply hab'.2; rw [hab, List.reverse_reverse]
    · exact hab'.2 hab
    · exact hab'.1 (List.reverse_injective hab)
  have hnd : (D.map φ).Nodup := List.Nodup.map_on hinj (hD.imp (fun h => h.1))
  have hsub : D.map φ ⊆ E := by
    intro x hx
    obtain ⟨p, hp, rfl⟩ := List.mem_map.1 hx
    exact hφE p hp
  simpa using (hnd.subperm hsub).length_le

theorem dedup_length_invariant' (ps qs : List (List α))
    (h : ∀ p, (p ∈ ps ∨ p.reverse ∈ ps) ↔ (p ∈ qs ∨ p.reverse ∈ qs)) :
    (dedup ps).length = (dedup qs).length := by
  apply Nat.le_antisymm
  · apply length_le_of_memRev _ _ (dedup_pairwise ps)
    intro p hp
    have := (h p).1 (Or.inl (dedup_sub ps p hp))
    rcases this with h1 | h1
    · exact dedup_complete qs p h1
    · have := dedup_complete qs _ h1
      rw [List.reverse_reverse] at this
      exact this.symm
  · apply length_le_of_memRev _ _ (dedup_pairwise qs)
    intro p hp
    have := (h p).2 (Or.inl (dedup_sub qs p hp))
    rcases this with h1 | h1
    · exact dedup_complete ps p h1
    · have := dedup_complete ps _ h1
      rw [List.reverse_reverse] at this
      exact this.symm
end

end C07
end Forsys
