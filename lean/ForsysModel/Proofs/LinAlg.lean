/- list-based linear algebra lemmas shared by Props/C05.lean, C04.lean, C01.lean, C03.lean

   Vectors are `List Rat`, matrices are lists of rows (`Mat`).  All binary operations are `zipWith`-based and
   therefore truncate to the shorter argument; lemmas that need equal lengths say so explicitly.
-/
import ForsysModel.Model.Solve
import Mathlib.Tactic.Ring
import Mathlib.Tactic.Linarith
import Mathlib.Tactic.LinearCombination
import Mathlib.Tactic.Positivity
import Mathlib.Algebra.Order.Field.Rat
import Mathlib.Algebra.BigOperators.Group.List.Basic
namespace Forsys

/-! ### `dot` -/

@[simp] theorem dot_nil_left (b : List Rat) : dot [] b = 0 := by simp [dot]

@[simp] theorem dot_nil_right (a : List Rat) : dot a [] = 0 := by simp [dot]

/-- alias of `dot_nil_left` -/
theorem dot_nil (b : List Rat) : dot [] b = 0 := dot_nil_left b

@[simp] theorem dot_cons (x y : Rat) (a b : List Rat) : dot (x :: a) (y :: b) = x * y + dot a b := by
  simp [dot]

/-- `dot` is symmetric (no length hypothesis needed) -/
theorem dot_comm (a b : List Rat) : dot a b = dot b a := by
  induction a generalizing b with
  | nil => simp
  | cons x a ih => cases b with
    | nil => simp
    | cons y b => simp [ih b, mul_comm]

/-- `(a + b)·c = a·c + b·c` for `a`, `b` of equal length -/
theorem dot_add_left (a b c : List Rat) (h : a.length = b.length) :
    dot (vadd a b) c = dot a c + dot b c := by
  induction c generalizing a b with
  | nil => simp
  | cons z c ih =>
    cases a with
    | nil => cases b with
      | nil => simp [vadd]
      | cons y b => simp at h
    | cons x a => cases b with
      | nil => simp at h
      | cons y b =>
        have h' : a.length = b.length := by simpa using h
        have := ih a b h'
        simp only [vadd] at this
        simp only [vadd, List.zipWith_cons_cons, dot_cons, this]; ring

/-- `c·(a + b) = c·a + c·b` for `a`, `b` of equal length -/
theorem dot_add_right (c a b : List Rat) (h : a.length = b.length) :
    dot c (vadd a b) = dot c a + dot c b := by
  rw [dot_comm, dot_add_left a b c h, dot_comm a, dot_comm b]

/-- `(a − b)·c = a·c − b·c` for `a`, `b` of equal length -/
theorem dot_sub_left (a b c : List Rat) (h : a.length = b.length) :
    dot (vsub a b) c = dot a c - dot b c := by
  induction c generalizing a b with
  | nil => simp
  | cons z c ih =>
    cases a with
    | nil => cases b with
      | nil => simp [vsub]
      | cons y b => simp at h
    | cons x a => cases b with
      | nil => simp at h
      | cons y b =>
        have h' : a.length = b.length := by simpa using h
        have := ih a b h'
        simp only [vsub] at this
        simp only [vsub, List.zipWith_cons_cons, dot_cons, this]; ring

/-- `c·(a − b) = c·a − c·b` for `a`, `b` of equal length -/
theorem dot_sub_right (c a b : List Rat) (h : a.length = b.length) :
    dot c (vsub a b) = dot c a - dot c b := by
  rw [dot_comm, dot_sub_left a b c h, dot_comm a, dot_comm b]

/-- alias: `(a − b)·c = a·c − b·c` -/
theorem dot_sub (a b c : List Rat) (h : a.length = b.length) :
    dot (vsub a b) c = dot a c - dot b c := dot_sub_left a b c h

/-- `(k a)·b = k (a·b)` -/
theorem dot_smul_left (k : Rat) (a b : List Rat) : dot (vscale k a) b = k * dot a b := by
  induction a generalizing b with
  | nil => simp [vscale]
  | cons x a ih => cases b with
    | nil => simp
    | cons y b =>
      have := ih b
      simp only [vscale] at this
      simp only [vscale, List.map_cons, dot_cons, this]; ring

/-- `a·(k b) = k (a·b)` -/
theorem dot_smul_right (k : Rat) (a b : List Rat) : dot a (vscale k b) = k * dot a b := by
  rw [dot_comm, dot_smul_left, dot_comm]

/-- alias of `dot_smul_left` -/
theorem dot_smul (k : Rat) (a b : List Rat) : dot (vscale k a) b = k * dot a b := dot_smul_left k a b

/-- scaling written as `map (· * k)` -/
theorem dot_map_mul_right (k : Rat) (a b : List Rat) : dot a (b.map (· * k)) = dot a b * k := by
  have : b.map (· * k) = vscale k b := by simp [vscale, mul_comm]
  rw [this, dot_smul_right, mul_comm]

/-- `dot` of concatenations splits when the first blocks have equal length -/
theorem dot_append (a a' b b' : List Rat) (h : a.length = b.length) :
    dot (a ++ a') (b ++ b') = dot a b + dot a' b' := by
  induction a generalizing b with
  | nil => cases b with
    | nil => simp
    | cons y b => simp at h
  | cons x a ih => cases b with
    | nil => simp at h
    | cons y b =>
      have h' : a.length = b.length := by simpa using h
      simp [ih b h', add_assoc]

/-- the all-ones vector sums the other argument (when it is at least as long) -/
theorem dot_replicate_one_left (x : List Rat) (n : Nat) (h : x.length ≤ n) :
    dot (List.replicate n (1 : Rat)) x = x.sum := by
  induction x generalizing n with
  | nil => simp
  | cons v x ih => cases n with
    | zero => simp at h
    | succ n =>
      have h' : x.length ≤ n := by simpa using h
      simp [List.replicate_succ, ih n h']

/-- if every entry of `b` vanishes then `a·b = 0` -/
theorem dot_eq_zero_of_right (a b : List Rat) (h : ∀ v ∈ b, v = 0) : dot a b = 0 := by
  induction a generalizing b with
  | nil => simp
  | cons x a ih => cases b with
    | nil => simp
    | cons y b =>
      have hy : y = 0 := h y (by simp)
      have := ih b (fun v hv => h v (by simp [hv]))
      simp [hy, this]

/-- if every entry of `a` vanishes then `a·b = 0` -/
theorem dot_eq_zero_of_left (a b : List Rat) (h : ∀ v ∈ a, v = 0) : dot a b = 0 := by
  rw [dot_comm]; exact dot_eq_zero_of_right b a h

/-- non-negative vectors have non-negative dot product -/
theorem dot_nonneg (a b : List Rat) (ha : ∀ v ∈ a, 0 ≤ v) (hb : ∀ v ∈ b, 0 ≤ v) : 0 ≤ dot a b := by
  induction a generalizing b with
  | nil => simp
  | cons x a ih => cases b with
    | nil => simp
    | cons y b =>
      have hx : 0 ≤ x := ha x (by simp)
      have hy : 0 ≤ y := hb y (by simp)
      have := ih b (fun v hv => ha v (by simp [hv])) (fun v hv => hb v (by simp [hv]))
      simp only [dot_cons]; positivity

/-- a list of non-negative rationals has a non-negative sum -/
theorem sum_nonneg_of_forall (a : List Rat) (ha : ∀ v ∈ a, 0 ≤ v) : 0 ≤ a.sum := by
  induction a with
  | nil => simp
  | cons x a ih =>
    have hx : 0 ≤ x := ha x (by simp)
    have := ih (fun v hv => ha v (by simp [hv]))
    simp only [List.sum_cons]; linarith

/-- lower bound used for slack certificates: `y ≥ 0`, `w ≥ −ε` componentwise, `ε ≥ 0`
    imply `y·w ≥ −ε Σ y` (no length hypothesis: truncation only helps) -/
theorem dot_ge_neg_mul_sum (y w : List Rat) (eps : Rat) (heps : 0 ≤ eps) (hy : ∀ v ∈ y, 0 ≤ v)
    (hw : ∀ v ∈ w, -eps ≤ v) : -(eps * y.sum) ≤ dot y w := by
  induction y generalizing w with
  | nil => simp
  | cons x y ih =>
    have hx : 0 ≤ x := hy x (by simp)
    have hy' : ∀ v ∈ y, 0 ≤ v := fun v hv => hy v (by simp [hv])
    cases w with
    | nil =>
      have hs := sum_nonneg_of_forall y hy'
      have : 0 ≤ eps * (x + y.sum) := by positivity
      simp only [dot_nil_right, List.sum_cons]; linarith
    | cons u w =>
      have hu : -eps ≤ u := hw u (by simp)
      have := ih w hy' (fun v hv => hw v (by simp [hv]))
      have h1 : 0 ≤ x * (u + eps) := mul_nonneg hx (by linarith)
      simp only [dot_cons, List.sum_cons]; nlinarith

/-! ### lengths -/

@[simp] theorem length_mulVec (M : Mat) (x : List Rat) : (mulVec M x).length = M.length := by
  simp [mulVec]

@[simp] theorem length_vsub (a b : List Rat) : (vsub a b).length = min a.length b.length := by
  simp [vsub]

@[simp] theorem length_vadd (a b : List Rat) : (vadd a b).length = min a.length b.length := by
  simp [vadd]

@[simp] theorem length_vscale (k : Rat) (a : List Rat) : (vscale k a).length = a.length := by
  simp [vscale]

@[simp] theorem length_col (M : Mat) (j : Nat) : (col M j).length = M.length := by
  simp [col]

@[simp] theorem length_tMulVec (M : Mat) (n : Nat) (r : List Rat) : (tMulVec M n r).length = n := by
  simp [tMulVec]

@[simp] theorem length_grad (M : Mat) (b z : List Rat) : (grad M b z).length = z.length := by
  simp [grad]

/-! ### `mulVec` -/

@[simp] theorem mulVec_nil (x : List Rat) : mulVec [] x = [] := rfl

@[simp] theorem mulVec_cons (r : List Rat) (M : Mat) (x : List Rat) :
    mulVec (r :: M) x = dot r x :: mulVec M x := rfl

theorem mulVec_append (M N : Mat) (x : List Rat) : mulVec (M ++ N) x = mulVec M x ++ mulVec N x := by
  simp [mulVec]

/-- linearity of `mulVec` (difference), for a matrix all of whose rows have the length of `y`, `z` -/
theorem mulVec_vsub' (M : Mat) (y z : List Rat) (h : y.length = z.length) :
    mulVec M (vsub y z) = vsub (mulVec M y) (mulVec M z) := by
  induction M with
  | nil => simp [vsub]
  | cons r M ih =>
    simp only [mulVec_cons, ih, dot_sub_right r y z h]
    simp [vsub]

/-- linearity of `mulVec` under `Shaped` -/
theorem mulVec_vsub (M : Mat) (b y z : List Rat) (m n : Nat) (_hs : Shaped M b m n)
    (hy : y.length = n) (hz : z.length = n) :
    mulVec M (vsub y z) = vsub (mulVec M y) (mulVec M z) :=
  mulVec_vsub' M y z (hy.trans hz.symm)

/-- linearity of `mulVec` (sum) -/
theorem mulVec_vadd (M : Mat) (y z : List Rat) (h : y.length = z.length) :
    mulVec M (vadd y z) = vadd (mulVec M y) (mulVec M z) := by
  induction M with
  | nil => simp [vadd]
  | cons r M ih =>
    simp only [mulVec_cons, ih, dot_add_right r y z h]
    simp [vadd]

/-- homogeneity of `mulVec` -/
theorem mulVec_vscale (M : Mat) (k : Rat) (y : List Rat) :
    mulVec M (vscale k y) = vscale k (mulVec M y) := by
  induction M with
  | nil => simp [vscale]
  | cons r M ih =>
    simp only [mulVec_cons, ih, dot_smul_right]
    simp [vscale]

/-! ### transpose product and the adjoint identity -/

/-- `tMulVec` of the empty matrix is the zero vector -/
theorem tMulVec_nil (n : Nat) (r : List Rat) : tMulVec [] n r = List.replicate n 0 := by
  apply List.ext_getElem <;> simp [tMulVec, col]

/-- `tMulVec` against the empty vector is the zero vector -/
theorem tMulVec_nil_right (M : Mat) (n : Nat) : tMulVec M n [] = List.replicate n 0 := by
  apply List.ext_getElem <;> simp [tMulVec]

/-- row-wise recursion for `Mᵀ r`: `(row :: M)ᵀ (r₀ :: r) = r₀ • row + Mᵀ r` when `row` has `n` entries -/
theorem tMulVec_cons (row : List Rat) (M : Mat) (n : Nat) (r0 : Rat) (r : List Rat)
    (h : row.length = n) :
    tMulVec (row :: M) n (r0 :: r) = vadd (row.map (· * r0)) (tMulVec M n r) := by
  apply List.ext_getElem
  · simp [tMulVec, vadd, h]
  · intro i h1 h2
    have hi : i < row.length := by simpa [h] using h1
    simp [tMulVec, vadd, col, List.getD_eq_getElem?_getD, List.getElem?_eq_getElem hi]

/-- a vector dotted with a zero vector is zero -/
theorem dot_replicate_zero_right (x : List Rat) (n : Nat) : dot x (List.replicate n 0) = 0 :=
  dot_eq_zero_of_right _ _ (by intro v hv; exact (List.mem_replicate.mp hv).2)

/-- adjoint identity `(M x)·r = x·(Mᵀ r)` for a matrix whose rows all have length `n` -/
theorem dot_mulVec_eq_dot_tMulVec' (M : Mat) (n : Nat) (x r : List Rat)
    (hrows : ∀ row ∈ M, row.length = n) :
    dot (mulVec M x) r = dot x (tMulVec M n r) := by
  induction M generalizing r with
  | nil => simp [tMulVec_nil, dot_replicate_zero_right]
  | cons row M ih =>
    cases r with
    | nil => simp [tMulVec_nil_right, dot_replicate_zero_right]
    | cons r0 r =>
      have hrow : row.length = n := hrows row (by simp)
      have ih' := ih r (fun q hq => hrows q (by simp [hq]))
      rw [tMulVec_cons row M n r0 r hrow, dot_add_right _ _ _ (by simp [hrow]), dot_map_mul_right,
        mulVec_cons, dot_cons, ih', dot_comm row x]

/-- adjoint identity `(M x)·r = x·(Mᵀ r)` for an `m × n` matrix, `x.length = n`, `r.length = m` -/
theorem dot_mulVec_eq_dot_tMulVec (M : Mat) (b x r : List Rat) (m n : Nat) (hs : Shaped M b m n)
    (_hx : x.length = n) (_hr : r.length = m) :
    dot (mulVec M x) r = dot x (tMulVec M n r) :=
  dot_mulVec_eq_dot_tMulVec' M n x r hs.2.2

/-! ### `normSq` -/

@[simp] theorem normSq_nil : normSq [] = 0 := by simp [normSq]

@[simp] theorem normSq_cons (x : Rat) (a : List Rat) : normSq (x :: a) = x * x + normSq a := by
  simp [normSq]

theorem normSq_nonneg (a : List Rat) : 0 ≤ normSq a := by
  induction a with
  | nil => simp
  | cons x a ih => simp only [normSq_cons]; nlinarith [mul_self_nonneg x]

/-- `‖a‖² = 0` iff every entry vanishes -/
theorem normSq_eq_zero (a : List Rat) : normSq a = 0 ↔ ∀ v ∈ a, v = 0 := by
  induction a with
  | nil => simp
  | cons x a ih =>
    simp only [normSq_cons, List.mem_cons, forall_eq_or_imp]
    have h1 := mul_self_nonneg x
    have h2 := normSq_nonneg a
    constructor
    · intro h
      have hx : x * x = 0 := by linarith
      have ha : normSq a = 0 := by linarith
      exact ⟨mul_self_eq_zero.mp hx, ih.mp ha⟩
    · rintro ⟨hx, ha⟩
      rw [ih.mpr ha, hx]; ring

/-- `‖a − b‖² = ‖a‖² − 2 a·b + ‖b‖²` for equal lengths -/
theorem normSq_vsub (a b : List Rat) (h : a.length = b.length) :
    normSq (vsub a b) = normSq a - 2 * dot a b + normSq b := by
  induction a generalizing b with
  | nil => cases b with
    | nil => simp [vsub]
    | cons y b => simp at h
  | cons x a ih => cases b with
    | nil => simp at h
    | cons y b =>
      have h' : a.length = b.length := by simpa using h
      have := ih b h'
      simp only [vsub] at this
      simp only [vsub, List.zipWith_cons_cons, normSq_cons, dot_cons, this]; ring

/-- `‖a + b‖² = ‖a‖² + 2 a·b + ‖b‖²` for equal lengths -/
theorem normSq_vadd (a b : List Rat) (h : a.length = b.length) :
    normSq (vadd a b) = normSq a + 2 * dot a b + normSq b := by
  induction a generalizing b with
  | nil => cases b with
    | nil => simp [vadd]
    | cons y b => simp at h
  | cons x a ih => cases b with
    | nil => simp at h
    | cons y b =>
      have h' : a.length = b.length := by simpa using h
      have := ih b h'
      simp only [vadd] at this
      simp only [vadd, List.zipWith_cons_cons, normSq_cons, dot_cons, this]; ring

/-- polarisation around a common point: for `a`, `c`, `b` of equal length
    `‖a − b‖² − ‖c − b‖² = ‖a − c‖² + 2 (a − c)·(c − b)` -/
theorem normSq_vsub_sub (a c b : List Rat) (hac : a.length = c.length) (hcb : c.length = b.length) :
    normSq (vsub a b) - normSq (vsub c b)
      = normSq (vsub a c) + 2 * dot (vsub a c) (vsub c b) := by
  induction a generalizing c b with
  | nil =>
    cases c with
    | nil => simp [vsub]
    | cons z c => simp at hac
  | cons x a ih =>
    cases c with
    | nil => simp at hac
    | cons z c =>
      cases b with
      | nil => simp at hcb
      | cons y b =>
        have h1 : a.length = c.length := by simpa using hac
        have h2 : c.length = b.length := by simpa using hcb
        have := ih c b h1 h2
        simp only [vsub] at this
        simp only [vsub, List.zipWith_cons_cons, normSq_cons, dot_cons]
        linear_combination this

/-- for equal lengths, `a − b` vanishes componentwise iff `a = b` -/
theorem vsub_eq_zero_iff (a b : List Rat) (h : a.length = b.length) :
    (∀ v ∈ vsub a b, v = 0) ↔ a = b := by
  induction a generalizing b with
  | nil => cases b with
    | nil => simp [vsub]
    | cons y b => simp at h
  | cons x a ih => cases b with
    | nil => simp at h
    | cons y b =>
      have h' : a.length = b.length := by simpa using h
      have := ih b h'
      simp only [vsub] at this
      simp only [vsub, List.zipWith_cons_cons, List.mem_cons, forall_eq_or_imp, this, List.cons.injEq,
        sub_eq_zero]

/-- `vsub` distributes over `++` when the first blocks have equal length -/
theorem vsub_append (a a' b b' : List Rat) (h : a.length = b.length) :
    vsub (a ++ a') (b ++ b') = vsub a b ++ vsub a' b' := by
  simp [vsub, List.zipWith_append h]

/-! ### `ratAbs'` -/

theorem ratAbs'_eq_abs (q : Rat) : ratAbs' q = |q| := by
  unfold ratAbs'
  split
  · next h => rw [abs_of_neg h]
  · next h => rw [abs_of_nonneg (not_lt.mp h)]

theorem ratAbs'_le_iff (q d : Rat) : ratAbs' q ≤ d ↔ -d ≤ q ∧ q ≤ d := by
  rw [ratAbs'_eq_abs, abs_le]

theorem ratAbs'_le_zero_iff (q : Rat) : ratAbs' q ≤ 0 ↔ q = 0 := by
  rw [ratAbs'_eq_abs]; exact abs_nonpos_iff

/-! ### `Shaped` -/

theorem shapedB_iff (M : Mat) (b : List Rat) (m n : Nat) : shapedB M b m n = true ↔ Shaped M b m n := by
  simp [shapedB, Shaped, and_assoc]

end Forsys
