import ForsysModel.Model.Skeleton
import ForsysModel.Props.C09
import Mathlib.Data.List.Basic
import Mathlib.Data.List.Nodup
import Mathlib.Data.List.Range

namespace Forsys
namespace Skel

theorem lookup_eq_none {p : Px} {l : List (Px × Id)} : lookup p l = none ↔ p ∉ l.map (·.1) := by
  induction l with
  | nil => simp [lookup]
  | cons a l ih =>
    obtain ⟨q, k⟩ := a
    simp only [lookup, List.map_cons, List.mem_cons, not_or]
    split
    · simp_all
    · simp_all

theorem lookup_some_mem {p : Px} {k : Id} {l : List (Px × Id)} (h : lookup p l = some k) : (p, k) ∈ l := by
  induction l with
  | nil => simp [lookup] at h
  | cons a l ih =>
    obtain ⟨q, k'⟩ := a
    simp only [lookup] at h
    split at h
    · simp_all
    · simp [ih h]

theorem lookup_append_some {p : Px} {k : Id} {l l' : List (Px × Id)} (h : lookup p l = some k) :
    lookup p (l ++ l') = some k := by
  induction l with
  | nil => simp [lookup] at h
  | cons a l ih =>
    obtain ⟨q, k'⟩ := a
    simp only [lookup, List.cons_append] at h ⊢
    split
    · simp_all
    · simp_all

theorem lookup_append_none {p : Px} {l l' : List (Px × Id)} (h : lookup p l = none) :
    lookup p (l ++ l') = lookup p l' := by
  induction l with
  | nil => rfl
  | cons a l ih =>
    obtain ⟨q, k'⟩ := a
    simp only [lookup, List.cons_append] at h ⊢
    split
    · simp_all
    · simp_all

theorem lookup_isSome_of_mem {p : Px} {l : List (Px × Id)} (h : p ∈ l.map (·.1)) : ∃ k, lookup p l = some k := by
  cases hh : lookup p l with
  | none => exact absurd h (lookup_eq_none.mp hh)
  | some k => exact ⟨k, rfl⟩

/-- invariant on the interning table -/
structure KInv (keys : List (Px × Id)) : Prop where
  ids : keys.map (·.2) = (List.range keys.length).map (fun i => (i : Int))
  nd : (keys.map (·.1)).Nodup

theorem KInv.nil : KInv [] := ⟨rfl, by simp⟩

theorem internPx_ext (keys : List (Px × Id)) (p : Px) :
    ∃ ext, (internPx keys p).2 = keys ++ ext := by
  unfold internPx
  split
  · exact ⟨[], by simp⟩
  · exact ⟨_, rfl⟩

theorem internPx_inv {keys : List (Px × Id)} (h : KInv keys) (p : Px) : KInv (internPx keys p).2 := by
  unfold internPx
  split
  · exact h
  · rename_i hn
    constructor
    · simp [List.range_succ, h.ids]
    · rw [List.map_append, List.nodup_append]
      refine ⟨h.nd, by simp, ?_⟩
      intro a ha b hb
      simp at hb
      subst hb
      rintro rfl
      exact lookup_eq_none.mp hn ha

theorem internPx_lookup (keys : List (Px × Id)) (p : Px) :
    lookup p (internPx keys p).2 = some (internPx keys p).1 := by
  unfold internPx
  split
  · assumption
  · rename_i hn
    simp [lookup_append_none hn, lookup]

theorem internPx_keys_fst (keys : List (Px × Id)) (p : Px) (q : Px) :
    q ∈ (internPx keys p).2.map (·.1) ↔ q ∈ keys.map (·.1) ∨ q = p := by
  unfold internPx
  split
  · rename_i k hk
    have := lookup_some_mem hk
    constructor
    · exact Or.inl
    · rintro (h | rfl)
      · exact h
      · exact List.mem_map.mpr ⟨_, this, rfl⟩
  · simp

theorem internContour_ext (keys : List (Px × Id)) (c : List Px) :
    ∃ ext, (internContour keys c).2 = keys ++ ext := by
  induction c generalizing keys with
  | nil => exact ⟨[], by simp [internContour]⟩
  | cons p c ih =>
    simp only [internContour]
    obtain ⟨e1, h1⟩ := internPx_ext keys p
    obtain ⟨e2, h2⟩ := ih (internPx keys p).2
    exact ⟨e1 ++ e2, by rw [h2, h1, List.append_assoc]⟩

theorem internContour_inv {keys : List (Px × Id)} (h : KInv keys) (c : List Px) : KInv (internContour keys c).2 := by
  induction c generalizing keys with
  | nil => exact h
  | cons p c ih =>
    simp only [internContour]
    exact ih (internPx_inv h p)

theorem internContour_keys_fst (keys : List (Px × Id)) (c : List Px) (q : Px) :
    q ∈ (internContour keys c).2.map (·.1) ↔ q ∈ keys.map (·.1) ∨ q ∈ c := by
  induction c generalizing keys with
  | nil => simp [internContour]
  | cons p c ih =>
    simp only [internContour]
    rw [ih, internPx_keys_fst]
    simp [or_assoc]

theorem internContour_ids (keys : List (Px × Id)) (c : List Px) :
    (internContour keys c).1 = c.map fun p => (lookup p (internContour keys c).2).getD 0 := by
  induction c generalizing keys with
  | nil => simp [internContour]
  | cons p c ih =>
    simp only [internContour, List.map_cons]
    congr 1
    · obtain ⟨e, he⟩ := internContour_ext (internPx keys p).2 c
      rw [he, lookup_append_some (internPx_lookup keys p)]
      rfl
    · exact ih _

end Skel
end Forsys
