/-
  Helper lemmas for property C15 (skeleton parser).  Model: ForsysModel/Model/Skeleton.lean.
  `KInv` — invariant of the interning table; `RInv` — invariant of the first loop of `create_lattice`
  relative to the contours processed so far; `RInv.wf` hands the result to `ofLists_consistent` (C09).
-/
import ForsysModel.Model.Skeleton
import ForsysModel.Props.C09
import Mathlib.Data.List.Basic
import Mathlib.Data.List.Nodup
import Mathlib.Data.List.Range
import Mathlib.Data.List.Pairwise

namespace Forsys
namespace Skel

theorem lookup_eq_none {p : Px} {l : List (Px × Id)} : lookup p l = none ↔ p ∉ l.map (·.1) := by
  induction l with
  | nil => simp [lookup]
  | cons a l ih =>
    obtain ⟨q, k⟩ := a
    simp only [lookup, List.map_cons, List.mem_cons, not_or]
    split
    · simp_all
    · simp_all

theorem lookup_some_mem {p : Px} {k : Id} {l : List (Px × Id)} (h : lookup p l = some k) : (p, k) ∈ l := by
  induction l with
  | nil => simp [lookup] at h
  | cons a l ih =>
    obtain ⟨q, k'⟩ := a
    simp only [lookup] at h
    split at h
    · simp_all
    · simp [ih h]

theorem lookup_append_some {p : Px} {k : Id} {l l' : List (Px × Id)} (h : lookup p l = some k) :
    lookup p (l ++ l') = some k := by
  induction l with
  | nil => simp [lookup] at h
  | cons a l ih =>
    obtain ⟨q, k'⟩ := a
    simp only [lookup, List.cons_append] at h ⊢
    split
    · simp_all
    · simp_all

theorem lookup_append_none {p : Px} {l l' : List (Px × Id)} (h : lookup p l = none) :
    lookup p (l ++ l') = lookup p l' := by
  induction l with
  | nil => rfl
  | cons a l ih =>
    obtain ⟨q, k'⟩ := a
    simp only [lookup, List.cons_append] at h ⊢
    split
    · simp_all
    · simp_all

theorem lookup_isSome_of_mem {p : Px} {l : List (Px × Id)} (h : p ∈ l.map (·.1)) : ∃ k, lookup p l = some k := by
  cases hh : lookup p l with
  | none => exact absurd h (lookup_eq_none.mp hh)
  | some k => exact ⟨k, rfl⟩

/-- invariant on the interning table -/
structure KInv (keys : List (Px × Id)) : Prop where
  ids : keys.map (·.2) = (List.range keys.length).map (fun i => (i : Int))
  nd : (keys.map (·.1)).Nodup

theorem KInv.nil : KInv [] := ⟨rfl, by simp⟩

theorem internPx_ext (keys : List (Px × Id)) (p : Px) :
    ∃ ext, (internPx keys p).2 = keys ++ ext := by
  unfold internPx
  split
  · exact ⟨[], by simp⟩
  · exact ⟨_, rfl⟩

theorem internPx_inv {keys : List (Px × Id)} (h : KInv keys) (p : Px) : KInv (internPx keys p).2 := by
  unfold internPx
  split
  · exact h
  · rename_i hn
    constructor
    · simp [List.range_succ, h.ids]
    · rw [List.map_append, List.nodup_append]
      refine ⟨h.nd, by simp, ?_⟩
      intro a ha b hb
      simp at hb
      subst hb
      rintro rfl
      exact lookup_eq_none.mp hn ha

theorem internPx_lookup (keys : List (Px × Id)) (p : Px) :
    lookup p (internPx keys p).2 = some (internPx keys p).1 := by
  unfold internPx
  split
  · assumption
  · rename_i hn
    simp [lookup_append_none hn, lookup]

theorem internPx_keys_fst (keys : List (Px × Id)) (p : Px) (q : Px) :
    q ∈ (internPx keys p).2.map (·.1) ↔ q ∈ keys.map (·.1) ∨ q = p := by
  unfold internPx
  split
  · rename_i k hk
    have := lookup_some_mem hk
    constructor
    · exact Or.inl
    · rintro (h | rfl)
      · exact h
      · exact List.mem_map.mpr ⟨_, this, rfl⟩
  · simp

theorem internContour_ext (keys : List (Px × Id)) (c : List Px) :
    ∃ ext, (internContour keys c).2 = keys ++ ext := by
  induction c generalizing keys with
  | nil => exact ⟨[], by simp [internContour]⟩
  | cons p c ih =>
    simp only [internContour]
    obtain ⟨e1, h1⟩ := internPx_ext keys p
    obtain ⟨e2, h2⟩ := ih (internPx keys p).2
    exact ⟨e1 ++ e2, by rw [h2, h1, List.append_assoc]⟩

theorem internContour_inv {keys : List (Px × Id)} (h : KInv keys) (c : List Px) : KInv (internContour keys c).2 := by
  induction c generalizing keys with
  | nil => exact h
  | cons p c ih =>
    simp only [internContour]
    exact ih (internPx_inv h p)

theorem internContour_keys_fst (keys : List (Px × Id)) (c : List Px) (q : Px) :
    q ∈ (internContour keys c).2.map (·.1) ↔ q ∈ keys.map (·.1) ∨ q ∈ c := by
  induction c generalizing keys with
  | nil => simp [internContour]
  | cons p c ih =>
    simp only [internContour]
    rw [ih, internPx_keys_fst]
    simp [or_assoc]

theorem internContour_ids (keys : List (Px × Id)) (c : List Px) :
    (internContour keys c).1 = c.map fun p => (lookup p (internContour keys c).2).getD 0 := by
  induction c generalizing keys with
  | nil => simp [internContour]
  | cons p c ih =>
    simp only [internContour, List.map_cons]
    congr 1
    · obtain ⟨e, he⟩ := internContour_ext (internPx keys p).2 c
      rw [he, lookup_append_some (internPx_lookup keys p)]
      rfl
    · exact ih _

/-! ### mesh-edge de-duplication -/

def EPw (ea : List (Id × Id)) : Prop := ea.Pairwise fun a b => a ≠ b ∧ a ≠ (b.2, b.1)

theorem addEdge_cases (ea : List (Id × Id)) (ab : Id × Id) :
    (addEdge ea ab = ea ∧ (ab ∈ ea ∨ (ab.2, ab.1) ∈ ea)) ∨
    (addEdge ea ab = ea ++ [ab] ∧ ab ∉ ea ∧ (ab.2, ab.1) ∉ ea) := by
  unfold addEdge
  split
  · rename_i h
    left
    simpa using h
  · rename_i h
    right
    simpa using h

theorem addEdge_pw {ea : List (Id × Id)} (h : EPw ea) (ab : Id × Id) : EPw (addEdge ea ab) := by
  rcases addEdge_cases ea ab with ⟨e, _⟩ | ⟨e, h1, h2⟩
  · rw [e]; exact h
  · rw [e]
    unfold EPw
    rw [List.pairwise_append]
    refine ⟨h, by simp, ?_⟩
    intro a ha b hb
    simp at hb
    subst hb
    constructor
    · rintro rfl; exact h1 ha
    · rintro rfl; exact h2 ha

theorem addEdge_mono {ea : List (Id × Id)} (ab x : Id × Id) (h : x ∈ ea) : x ∈ addEdge ea ab := by
  rcases addEdge_cases ea ab with ⟨e, _⟩ | ⟨e, _⟩ <;> rw [e] <;> simp [h]

theorem addEdge_cover (ea : List (Id × Id)) (ab : Id × Id) :
    ab ∈ addEdge ea ab ∨ (ab.2, ab.1) ∈ addEdge ea ab := by
  rcases addEdge_cases ea ab with ⟨e, h⟩ | ⟨e, _⟩ <;> rw [e]
  · exact h
  · simp

theorem addEdge_sound {ea : List (Id × Id)} {ab x : Id × Id} (h : x ∈ addEdge ea ab) : x ∈ ea ∨ x = ab := by
  rcases addEdge_cases ea ab with ⟨e, _⟩ | ⟨e, _⟩ <;> rw [e] at h
  · exact Or.inl h
  · simpa using h

theorem foldAdd_pw {ea : List (Id × Id)} (h : EPw ea) (L : List (Id × Id)) : EPw (L.foldl addEdge ea) := by
  induction L generalizing ea with
  | nil => exact h
  | cons a L ih => exact ih (addEdge_pw h a)

theorem foldAdd_mono {ea : List (Id × Id)} (L : List (Id × Id)) (x : Id × Id) (h : x ∈ ea) :
    x ∈ L.foldl addEdge ea := by
  induction L generalizing ea with
  | nil => exact h
  | cons a L ih => exact ih (addEdge_mono a x h)

theorem foldAdd_cover (ea : List (Id × Id)) (L : List (Id × Id)) :
    ∀ ab ∈ L, ab ∈ L.foldl addEdge ea ∨ (ab.2, ab.1) ∈ L.foldl addEdge ea := by
  induction L generalizing ea with
  | nil => simp
  | cons a L ih =>
    intro ab hab
    rcases List.mem_cons.mp hab with rfl | hab
    · rcases addEdge_cover ea ab with h | h
      · exact Or.inl (foldAdd_mono L _ h)
      · exact Or.inr (foldAdd_mono L _ h)
    · exact ih _ ab hab

theorem foldAdd_sound {ea : List (Id × Id)} (L : List (Id × Id)) {x : Id × Id}
    (h : x ∈ L.foldl addEdge ea) : x ∈ ea ∨ x ∈ L := by
  induction L generalizing ea with
  | nil => exact Or.inl h
  | cons a L ih =>
    rcases ih h with h | h
    · rcases addEdge_sound h with h | h
      · exact Or.inl h
      · exact Or.inr (by simp [h])
    · exact Or.inr (List.mem_cons_of_mem _ h)

/-- the invariant of the first loop, relative to the contours processed so far -/
structure RInv (cs : List (List Px)) (st : Raw) : Prop where
  kinv : KInv st.keys
  complete : ∀ p, p ∈ st.keys.map (·.1) ↔ ∃ c ∈ cs, p ∈ c
  cells : st.cells = cs.map fun c => c.map fun p => (lookup p st.keys).getD 0
  epw : EPw st.edgesAdded
  cover : ∀ c ∈ st.cells, ∀ ab ∈ cyclicPairs c, ab ∈ st.edgesAdded ∨ (ab.2, ab.1) ∈ st.edgesAdded
  sound : ∀ ab ∈ st.edgesAdded, ∃ c ∈ st.cells, ab ∈ cyclicPairs c

theorem RInv.nil : RInv [] ⟨[], [], []⟩ :=
  ⟨KInv.nil, by simp, rfl, List.Pairwise.nil, by simp, by simp⟩

theorem RInv.step {cs : List (List Px)} {st : Raw} (h : RInv cs st) (c : List Px) :
    RInv (cs ++ [c]) (stepContour st c) := by
  obtain ⟨ext, hext⟩ := internContour_ext st.keys c
  constructor
  · exact internContour_inv h.kinv c
  · intro p
    simp only [stepContour]
    rw [internContour_keys_fst, h.complete]
    simp only [List.mem_append, List.mem_singleton]
    constructor
    · rintro (⟨d, hd, hp⟩ | hp)
      · exact ⟨d, Or.inl hd, hp⟩
      · exact ⟨c, Or.inr rfl, hp⟩
    · rintro ⟨d, hd | rfl, hp⟩
      · exact Or.inl ⟨d, hd, hp⟩
      · exact Or.inr hp
  · simp only [stepContour, List.map_append, List.map_cons, List.map_nil]
    rw [← internContour_ids, h.cells]
    congr 1
    apply List.map_congr_left
    intro d hd
    apply List.map_congr_left
    intro p hp
    have : p ∈ st.keys.map (·.1) := (h.complete p).mpr ⟨d, hd, hp⟩
    obtain ⟨k, hk⟩ := lookup_isSome_of_mem this
    rw [hext, lookup_append_some hk, hk]
  · exact foldAdd_pw h.epw _
  · intro d hd ab hab
    simp only [stepContour, List.mem_append, List.mem_singleton] at hd
    simp only [stepContour]
    rcases hd with hd | rfl
    · rcases h.cover d hd ab hab with h1 | h1
      · exact Or.inl (foldAdd_mono _ _ h1)
      · exact Or.inr (foldAdd_mono _ _ h1)
    · exact foldAdd_cover _ _ ab hab
  · intro ab hab
    simp only [stepContour] at hab ⊢
    rcases foldAdd_sound _ hab with h1 | h1
    · obtain ⟨d, hd, hh⟩ := h.sound ab h1
      exact ⟨d, by simp [hd], hh⟩
    · exact ⟨_, by simp, h1⟩

theorem rawOf_snoc (cs : List (List Px)) (c : List Px) : rawOf (cs ++ [c]) = stepContour (rawOf cs) c := by
  simp [rawOf, List.foldl_append]

theorem rawOf_inv (cs : List (List Px)) : RInv cs (rawOf cs) := by
  induction cs using List.reverseRecOn with
  | nil => exact RInv.nil
  | append_singleton cs c ih => rw [rawOf_snoc]; exact ih.step c


/-! ### well-formedness of the parser input -/

theorem cyclicPairs_ne {α : Type} {c : List α} (hn : c.Nodup) (hl : 2 ≤ c.length) {ab : α × α}
    (h : ab ∈ cyclicPairs c) : ab.1 ≠ ab.2 := by
  cases c with
  | nil => simp at hl
  | cons a l =>
    simp only [cyclicPairs] at h
    obtain ⟨i, hi, rfl⟩ := List.mem_iff_getElem.mp h
    simp only [List.length_zip, List.length_cons, List.length_append, List.length_nil] at hi
    simp only [List.length_cons] at hl
    rw [List.getElem_zip]
    simp only
    intro heq
    by_cases hlt : i < l.length
    · rw [List.getElem_append_left hlt] at heq
      have h2 : l[i] = (a :: l)[i + 1]'(by simp only [List.length_cons]; omega) := by simp
      rw [h2] at heq
      have := (hn.getElem_inj_iff).mp heq
      omega
    · have hi' : i = l.length := by omega
      subst hi'
      rw [List.getElem_append_right (le_refl _)] at heq
      simp only [Nat.sub_self, List.getElem_cons_zero] at heq
      have h2 : a = (a :: l)[0] := by simp
      have heq' : (a :: l)[l.length] = (a :: l)[0] := by rw [heq]; simp
      have := (hn.getElem_inj_iff).mp heq'
      omega

theorem enumFrom_keys {α : Type} (n : Nat) (l : List α) :
    (enumFrom n l).map (·.1) = (List.range' n l.length).map (fun i : Nat => (i : Int)) := by
  induction l generalizing n with
  | nil => simp [enumFrom]
  | cons a l ih => simp [enumFrom, List.range'_succ, ih]

theorem enumFrom_keys_nodup {α : Type} (n : Nat) (l : List α) : ((enumFrom n l).map (·.1)).Nodup := by
  rw [enumFrom_keys]
  refine List.Nodup.map ?_ (List.nodup_range' (step := 1) (by omega))
  intro a b h
  exact Int.ofNat_inj.mp h

theorem enumFrom_mem {α : Type} {n : Nat} {l : List α} {p : Id × α} (h : p ∈ enumFrom n l) : p.2 ∈ l := by
  induction l generalizing n with
  | nil => simp [enumFrom] at h
  | cons a l ih =>
    simp only [enumFrom, List.mem_cons] at h
    rcases h with rfl | h
    · simp
    · exact List.mem_cons_of_mem _ (ih h)

theorem mem_enumFrom {α : Type} (n : Nat) {l : List α} {a : α} (h : a ∈ l) : ∃ k, (k, a) ∈ enumFrom n l := by
  induction l generalizing n with
  | nil => simp at h
  | cons b l ih =>
    rcases List.mem_cons.mp h with rfl | h
    · exact ⟨n, by simp [enumFrom]⟩
    · obtain ⟨k, hk⟩ := ih (n + 1) h
      exact ⟨k, by simp [enumFrom, hk]⟩

theorem castRange (n : Nat) :
    (List.range n).map (fun i => (i : Int)) = (List.range n).map (fun i : Nat => (i : Int)) := by
  simp [← List.map_eq_flatMap]

theorem KInv.snd_nodup {keys : List (Px × Id)} (h : KInv keys) : (keys.map (·.2)).Nodup := by
  rw [h.ids, castRange]
  refine List.Nodup.map ?_ List.nodup_range
  intro a b h
  exact Int.ofNat_inj.mp h

theorem KInv.inj {keys : List (Px × Id)} (h : KInv keys) :
    ∀ a ∈ keys, ∀ b ∈ keys, (a.1 = b.1 ↔ a.2 = b.2) := by
  intro a ha b hb
  constructor
  · intro e
    rw [List.inj_on_of_nodup_map h.nd ha hb e]
  · intro e
    rw [List.inj_on_of_nodup_map h.snd_nodup ha hb e]

/-- the contours the digital-topology argument (not proved: OpenCV's border following) delivers for a clean
    skeleton: every contour is a cycle of at least two distinct pixels -/
def GoodContours (cs : List (List Px)) : Prop := ∀ c ∈ cs, c.Nodup ∧ 2 ≤ c.length

theorem RInv.cell_facts {cs : List (List Px)} {st : Raw} (h : RInv cs st) (hg : GoodContours cs) :
    ∀ d ∈ st.cells, d.Nodup ∧ 2 ≤ d.length ∧ ∀ v ∈ d, v ∈ st.keys.map (·.2) := by
  intro d hd
  rw [h.cells] at hd
  obtain ⟨c, hc, rfl⟩ := List.mem_map.mp hd
  obtain ⟨cnd, clen⟩ := hg c hc
  have key : ∀ p ∈ c, ∃ k, lookup p st.keys = some k ∧ (p, k) ∈ st.keys := by
    intro p hp
    obtain ⟨k, hk⟩ := lookup_isSome_of_mem ((h.complete p).mpr ⟨c, hc, hp⟩)
    exact ⟨k, hk, lookup_some_mem hk⟩
  refine ⟨?_, by simpa using clen, ?_⟩
  · apply List.Nodup.map_on _ cnd
    intro p hp q hq e
    obtain ⟨k, hk, mk⟩ := key p hp
    obtain ⟨k', hk', mk'⟩ := key q hq
    rw [hk, hk'] at e
    simp only [Option.getD_some] at e
    subst e
    exact (h.kinv.inj _ mk _ mk').mpr rfl
  · intro v hv
    obtain ⟨p, hp, rfl⟩ := List.mem_map.mp hv
    obtain ⟨k, hk, mk⟩ := key p hp
    rw [hk]
    exact List.mem_map.mpr ⟨_, mk, rfl⟩

theorem RInv.wf {cs : List (List Px)} {st : Raw} (h : RInv cs st) (hg : GoodContours cs) :
    WFInput (rawVertices st) (rawEdges st) (rawCells st) := by
  have vk : (rawVertices st).map (·.1) = st.keys.map (·.2) := by
    simp [rawVertices, List.map_map, Function.comp_def]
  constructor
  · rw [vk]; exact h.kinv.snd_nodup
  · have : (rawEdges st).map (·.1) = (enumFrom 0 st.edgesAdded).map (·.1) := by
      simp [rawEdges]
    rw [this]; exact enumFrom_keys_nodup _ _
  · exact enumFrom_keys_nodup _ _
  · intro e he
    rw [vk]
    simp only [rawEdges] at he
    obtain ⟨p, hp, rfl⟩ := List.mem_map.mp he
    obtain ⟨d, hd, hab⟩ := h.sound _ (enumFrom_mem hp)
    obtain ⟨dn, dl, dv⟩ := h.cell_facts hg d hd
    obtain ⟨m1, m2⟩ := Mesh.mem_cyclicPairs hab
    exact ⟨cyclicPairs_ne dn dl hab, dv _ m1, dv _ m2⟩
  · intro c hc
    rw [vk]
    obtain ⟨dn, _, dv⟩ := h.cell_facts hg c.2 (enumFrom_mem hc)
    exact ⟨dn, dv⟩
  · intro c hc ab hab
    have hd : c.2 ∈ st.cells := enumFrom_mem hc
    rcases h.cover c.2 hd ab hab with h1 | h1
    · obtain ⟨k, hk⟩ := mem_enumFrom 0 h1
      exact ⟨(k, ab.1, ab.2), List.mem_map.mpr ⟨_, hk, rfl⟩, Or.inl ⟨rfl, rfl⟩⟩
    · obtain ⟨k, hk⟩ := mem_enumFrom 0 h1
      exact ⟨(k, ab.2, ab.1), List.mem_map.mpr ⟨_, hk, rfl⟩, Or.inr ⟨rfl, rfl⟩⟩

theorem precheck_good' (cs : List (List Px)) (h : GoodContours cs) : precheck cs = none := by
  induction cs with
  | nil => rfl
  | cons c cs ih =>
    obtain ⟨cn, cl⟩ := h c (by simp)
    simp only [precheck]
    rw [if_neg (by omega), if_neg]
    · exact ih (fun d hd => h d (List.mem_cons_of_mem _ hd))
    · simp only [List.any_eq_true, beq_iff_eq, not_exists, not_and]
      intro pq hpq
      exact cyclicPairs_ne cn cl hpq

theorem mirror_good' (cs : List (List Px)) (h : GoodContours cs) : GoodContours (mirror cs) := by
  intro d hd
  simp only [mirror] at hd
  obtain ⟨c, hc, rfl⟩ := List.mem_map.mp hd
  obtain ⟨cn, cl⟩ := h c hc
  refine ⟨?_, by simpa using cl⟩
  apply cn.map
  intro p q e
  simp only [Prod.mk.injEq] at e
  ext
  · exact e.1
  · have := e.2; omega

/-! first-occurrence order -/

theorem internPx_fst (keys : List (Px × Id)) (p : Px) :
    (internPx keys p).2.map (·.1) = keys.map (·.1) ++ (if p ∈ keys.map (·.1) then [] else [p]) := by
  unfold internPx
  split
  · rename_i k hk
    have : p ∈ keys.map (·.1) := List.mem_map.mpr ⟨_, lookup_some_mem hk, rfl⟩
    simp [this]
  · rename_i hn
    have := lookup_eq_none.mp hn
    simp [this]

theorem internContour_fst (keys : List (Px × Id)) (c : List Px) :
    (internContour keys c).2.map (·.1) = keys.map (·.1) ++ (c.removeAll (keys.map (·.1))).eraseDups := by
  induction c generalizing keys with
  | nil => simp [internContour, List.removeAll]
  | cons p c ih =>
    simp only [internContour]
    rw [ih, internPx_fst]
    by_cases hp : p ∈ keys.map (·.1)
    · rw [if_pos hp, List.append_nil]
      congr 2
      simp only [List.removeAll, List.filter_cons]
      simp [hp]
    · rw [if_neg hp, List.append_assoc]
      congr 1
      have e1 : (p :: c).removeAll (keys.map (·.1)) = p :: c.removeAll (keys.map (·.1)) := by
        simp only [List.removeAll, List.filter_cons]
        simp [hp]
      rw [e1, List.eraseDups_cons]
      simp only [List.singleton_append, List.cons.injEq, true_and]
      congr 1
      simp only [List.removeAll, List.filter_filter]
      apply List.filter_congr
      intro x _
      rw [Bool.eq_iff_iff]
      simp [or_comm]

theorem rawOf_fst (cs : List (List Px)) : (rawOf cs).keys.map (·.1) = cs.flatten.eraseDups := by
  induction cs using List.reverseRecOn with
  | nil => rfl
  | append_singleton cs c ih =>
    rw [rawOf_snoc]
    simp only [stepContour]
    rw [internContour_fst, ih, List.flatten_append, List.eraseDups_append]
    simp only [List.flatten_cons, List.flatten_nil, List.append_nil]
    congr 2
    simp only [List.removeAll]
    apply List.filter_congr
    intro x _
    simp

/-! ### the clean-up stages: the keys of the cell dict -/

theorem alGet?_filter_self {β : Type} (k : Id) (l : List (Id × β)) :
    alGet? k (l.filter fun p => p.1 != k) = none := by
  induction l with
  | nil => rfl
  | cons a l ih =>
    obtain ⟨k', v⟩ := a
    simp only [List.filter_cons]
    by_cases h : k' = k
    · simp [h, ih]
    · have : (k' != k) = true := by simpa using h
      simp only [this, if_true, alGet?]
      rw [if_neg (fun e => h e.symm)]
      exact ih


/-- the keys of the cell dict -/
def ck (m : Mesh) : List Id := m.cells.map (·.1)

theorem ck_updVertex (m : Mesh) (k : Id) (f : Vertex → Vertex) : ck (m.updVertex k f) = ck m := rfl
theorem ck_updEdge (m : Mesh) (k : Id) (f : SEdge → SEdge) : ck (m.updEdge k f) = ck m := rfl
theorem ck_mkVertex (m : Mesh) (k : Id) (x y : Rat) : ck (m.mkVertex k x y) = ck m := rfl

theorem ck_updCell (m : Mesh) (k : Id) (f : Cell → Cell) : ck (m.updCell k f) = ck m := by
  simp only [ck, Mesh.updCell, List.map_map]
  apply List.map_congr_left
  intro p _
  obtain ⟨k', c⟩ := p
  simp only [Function.comp]
  split <;> rfl

theorem ck_delEdge (m : Mesh) (k : Id) : ck (m.delEdge k) = ck m := by
  unfold Mesh.delEdge
  split <;> rfl

theorem ck_edgeReplaceVertex (m : Mesh) (a b c : Id) : ck (m.edgeReplaceVertex a b c) = ck m := by
  unfold Mesh.edgeReplaceVertex
  split <;> rfl

theorem ck_cellReplace {m m' : Mesh} {cid a b : Id} (h : cellReplace m cid a b = .ok m') : ck m' = ck m := by
  unfold cellReplace at h
  split at h
  · cases h
  · split at h
    · cases h
    · split at h
      · cases h; exact ck_updCell _ _ _
      · cases h; rw [ck_updVertex, ck_updCell]

theorem ck_edgeReplace {m m' : Mesh} {eid a b : Id} (h : edgeReplace m eid a b = .ok m') : ck m' = ck m := by
  unfold edgeReplace at h
  split at h
  · cases h
  · simp only at h
    split at h <;> split at h <;> first | (cases h; exact ck_edgeReplaceVertex _ _ _ _) | cases h

theorem ck_St_delEdge {st st' : St} {k : Id} (h : st.delEdge k = .ok st') : ck st'.mesh = ck st.mesh := by
  unfold St.delEdge at h
  split at h
  · cases h
  · split at h
    · cases h; rfl
    · cases h; exact ck_delEdge _ _

theorem ck_release (st : St) : ck st.release.mesh = ck st.mesh := by
  unfold St.release
  split <;> rfl

theorem ck_liveDel {fuel : Nat} {st st' : St} {v : Id} {i : Nat} {rb : Bool}
    (h : liveDel fuel st v i rb = .ok st') : ck st'.mesh = ck st.mesh := by
  induction fuel generalizing st i rb with
  | zero => simp only [liveDel] at h; cases h; rfl
  | succ n ih =>
    simp only [liveDel] at h
    split at h
    · cases h; rfl
    · split at h
      · cases h
      · rename_i st2 hd
        rw [ih h, ck_St_delEdge hd]
        split
        · exact ck_release _
        · rfl

/-- an invariant of the accumulator is kept along `foldE` -/
theorem foldE_inv {α β : Type} {f : β → α → Except Err β} (P : β → Prop)
    (hf : ∀ b a b', f b a = .ok b' → P b → P b') {b b' : β} {l : List α}
    (h : foldE f b l = .ok b') (hb : P b) : P b' := by
  induction l generalizing b with
  | nil => simp only [foldE] at h; cases h; exact hb
  | cons a l ih =>
    simp only [foldE] at h
    split at h
    · cases h
    · rename_i b1 h1
      exact ih h (hf _ _ _ h1 hb)


theorem ck_foldE_cellReplace {m m' : Mesh} {a b : Id} {l : List Id}
    (h : foldE (fun m c => cellReplace m c a b) m l = .ok m') : ck m' = ck m :=
  foldE_inv (fun x => ck x = ck m) (fun _ _ _ hb hP => (ck_cellReplace hb).trans hP) h rfl

theorem ck_foldE_delEdge {st st' : St} {l : List Id}
    (h : foldE (fun st x => st.delEdge x) st l = .ok st') : ck st'.mesh = ck st.mesh :=
  foldE_inv (fun x : St => ck x.mesh = ck st.mesh) (fun _ _ _ hb hP => (ck_St_delEdge hb).trans hP) h rfl

theorem ck_triStep {bigs : List (List Id)} {sv sv' : St × List (Id × Id)} {k : Id × Id}
    (h : triStep bigs sv k = .ok sv') : ck sv'.1.mesh = ck sv.1.mesh := by
  unfold triStep at h
  simp only at h
  split at h
  · cases h; rfl
  split at h
  · split at h
    · cases h; rfl
    split at h
    · cases h; rfl
    split at h
    · cases h
    split at h
    · cases h
    split at h
    · cases h
    rename_i hc _ st2 hl
    cases h
    simp only
    rw [ck_foldE_delEdge hl]
    simp only
    split at hc
    · cases hc; rfl
    · cases hc
    · exact ck_foldE_cellReplace hc
  · cases h

theorem ck_triangles {st st' : St} {bigs : List (List Id)} (h : triangles st bigs = .ok st') :
    ck st'.mesh = ck st.mesh := by
  unfold triangles at h
  split at h
  · cases h
  · rename_i sv hf
    cases h
    exact foldE_inv (fun x : St × List (Id × Id) => ck x.1.mesh = ck st.mesh)
      (fun _ _ _ hb hP => (ck_triStep hb).trans hP) hf rfl

/-! ### the inner-triangle loop: which exceptions it can raise -/

/-- an error of `foldE` is an error of one of the steps -/
theorem foldE_error {α β : Type} {f : β → α → Except Err β} (P : Err → Prop)
    (hf : ∀ b a e, f b a = .error e → P e) {b : β} {l : List α} {e : Err}
    (h : foldE f b l = .error e) : P e := by
  induction l generalizing b with
  | nil => simp only [foldE] at h; cases h
  | cons a l ih =>
    simp only [foldE] at h
    split at h
    · rename_i e' h1
      cases h
      exact hf _ _ _ h1
    · exact ih h

theorem getV_error {st : St} {k : Id} {e : Err} (h : st.getV k = .error e) : e = .keyError := by
  unfold St.getV at h
  split at h
  · cases h; rfl
  · split at h
    · cases h
    · cases h; rfl

theorem St_delEdge_error {st : St} {k : Id} {e : Err} (h : st.delEdge k = .error e) : e = .keyError := by
  unfold St.delEdge at h
  split at h
  · cases h; rfl
  · split at h <;> cases h

theorem cellReplace_error {m : Mesh} {c a b : Id} {e : Err} (h : cellReplace m c a b = .error e) :
    e = .keyError ∨ e = .valueError := by
  unfold cellReplace at h
  split at h
  · cases h; exact .inl rfl
  · split at h
    · cases h; exact .inr rfl
    · split at h <;> cases h

theorem triStep_error {bigs : List (List Id)} {sv : St × List (Id × Id)} {k : Id × Id} {e : Err}
    (h : triStep bigs sv k = .error e) : e = .keyError ∨ e = .valueError := by
  unfold triStep at h
  simp only at h
  split at h
  · cases h
  split at h
  · split at h
    · cases h
    split at h
    · cases h
    split at h
    · rename_i e' _ hg
      cases h
      exact .inl (getV_error hg)
    split at h
    · rename_i hc
      cases h
      split at hc
      · cases hc
      · rename_i hg
        cases hc
        exact .inl (getV_error hg)
      · exact foldE_error (fun e => e = .keyError ∨ e = .valueError) (fun _ _ _ hb => cellReplace_error hb) hc
    split at h
    · rename_i hl
      cases h
      exact .inl (foldE_error (fun e => e = .keyError) (fun _ _ _ hb => St_delEdge_error hb) hl)
    · cases h
  · cases h; exact .inr rfl

theorem triangles_error {st : St} {bigs : List (List Id)} {e : Err}
    (h : triangles st bigs = .error e) : e = .keyError ∨ e = .valueError := by
  unfold triangles at h
  split at h
  · rename_i e' hf
    cases h
    exact foldE_error (fun e => e = .keyError ∨ e = .valueError) (fun _ _ _ hb => triStep_error hb) hf
  · cases h

theorem sameEnds_ne_nil {bigs : List (List Id)} {k : Id × Id} (h : k ∈ dupKeys (firstLast bigs)) :
    sameEnds bigs k ≠ [] := by
  unfold dupKeys at h
  have hk : k ∈ firstLast bigs := by
    have := (List.mem_filter.mp h).1
    exact List.mem_eraseDups.mp this
  unfold firstLast at hk
  rw [List.mem_append, List.mem_map, List.mem_map] at hk
  have : ∃ e ∈ bigs, ((e.headD 0, e.getLastD 0) == k || (e.getLastD 0, e.headD 0) == k) = true := by
    rcases hk with ⟨e, he, rfl⟩ | ⟨e, he, rfl⟩
    · exact ⟨e, he, by simp⟩
    · exact ⟨e, he, by simp⟩
  obtain ⟨e, he, hp⟩ := this
  intro hnil
  have : e ∈ sameEnds bigs k := List.mem_filter.mpr ⟨he, hp⟩
  rw [hnil] at this
  cases this

theorem firstLongest_isSome {l : List (List Id)} (h : l ≠ []) : (firstLongest l).isSome = true := by
  cases l with
  | nil => exact absurd rfl h
  | cons a l => rfl

theorem firstShortest_isSome {l : List (List Id)} (h : l ≠ []) : (firstShortest l).isSome = true := by
  cases l with
  | nil => exact absurd rfl h
  | cons a l => rfl

theorem ck_t3Vertex {art : List Id} {newId : Id} {st st' : St} {v : Id}
    (h : t3Vertex art newId st v = .ok st') : ck st'.mesh = ck st.mesh := by
  unfold t3Vertex at h
  split at h
  · cases h
  split at h
  · cases h
  split at h
  · cases h
  split at h
  · cases h
  split at h
  · cases h
  rename_i st1 h1 _ m1 h2 _ m2 h3
  cases h
  simp only
  have e1 : ck st1.mesh = ck st.mesh :=
    foldE_inv (fun x : St => ck x.mesh = ck st.mesh) (fun _ _ _ hb hP => (ck_St_delEdge hb).trans hP) h1 rfl
  have e2 : ck m1 = ck st1.mesh :=
    foldE_inv (fun x : Mesh => ck x = ck st1.mesh) (fun _ _ _ hb hP => (ck_edgeReplace hb).trans hP) h2 rfl
  have e3 : ck m2 = ck m1 := ck_foldE_cellReplace h3
  rw [e3, e2, e1]

theorem ck_t3 {st st' : St} {art : List Id} (h : t3 st art = .ok st') : ck st'.mesh = ck st.mesh := by
  unfold t3 at h
  split at h
  · cases h
  simp only at h
  split at h
  · cases h
  rename_i st1 h1
  have e1 : ck st1.mesh = ck st.mesh :=
    foldE_inv (fun x : St => ck x.mesh = ck st.mesh) (fun _ _ _ hb hP => (ck_t3Vertex hb).trans hP) h1
      (ck_mkVertex _ _ _ _)
  refine foldE_inv (fun x : St => ck x.mesh = ck st.mesh) ?_ h e1
  intro b a b' hb hP
  split at hb
  · cases hb
  · split at hb <;> (cases hb; exact hP)

theorem ck_isolatedStep {acc acc' : St × Bool × List Id} {c : Id × Cell}
    (h : isolatedStep acc c = .ok acc') : ck acc'.1.mesh = ck acc.1.mesh := by
  unfold isolatedStep at h
  simp only at h
  split at h
  · split at h
    · cases h
    · rename_i a hf
      cases h
      simp only
      refine foldE_inv (fun x : St × Bool => ck x.1.mesh = ck acc.1.mesh) ?_ hf rfl
      intro b v b' hb hP
      split at hb
      · cases hb
      · rename_i st2 hl
        cases hb
        simp only
        rw [← hP, ← ck_liveDel hl]
        split <;> rfl
  · cases h; rfl

theorem alGet?_none_keys {β : Type} {k : Id} {l : List (Id × β)} (h : alGet? k l = none) :
    ∀ p ∈ l, p.1 ≠ k := by
  induction l with
  | nil => simp
  | cons a l ih =>
    obtain ⟨k', v⟩ := a
    simp only [alGet?] at h
    split at h
    · cases h
    · rename_i hne
      intro p hp
      rcases List.mem_cons.mp hp with rfl | hp
      · exact fun e => hne e.symm
      · exact ih h p hp

theorem cells_foldl_updVertex (l : List Id) (g : Id → Vertex → Vertex) (m : Mesh) :
    (l.foldl (fun m v => m.updVertex v (g v)) m).cells = m.cells := by
  induction l generalizing m with
  | nil => rfl
  | cons a l ih => simp only [List.foldl_cons]; rw [ih]; rfl

theorem ck_delCell (m : Mesh) (k : Id) : ck (m.delCell k) = (ck m).filter (fun x => x != k) := by
  unfold Mesh.delCell
  split
  · rename_i hn
    symm
    rw [List.filter_eq_self]
    intro x hx
    obtain ⟨p, hp, rfl⟩ := List.mem_map.mp hx
    simpa using alGet?_none_keys hn p hp
  · rename_i c _
    simp only [ck]
    rw [cells_foldl_updVertex c.verts (fun _ vx => { vx with ownCells := vx.ownCells.erase k }) m,
      List.filter_map]
    rfl

theorem ck_foldl_delCell (iso : List Id) (m : Mesh) :
    ck (iso.foldl (fun m c => m.delCell c) m) = (ck m).filter (fun k => !iso.contains k) := by
  induction iso generalizing m with
  | nil => simp
  | cons a r ih =>
    simp only [List.foldl_cons]
    rw [ih, ck_delCell, List.filter_filter]
    apply List.filter_congr
    intro x _
    rw [Bool.eq_iff_iff]
    simp [and_comm]

theorem ck_finalMesh (st : St) : ck (finalMesh st) = ck st.mesh := by
  simp only [ck, finalMesh, List.map_map]
  rfl

theorem cleanup_cell_keys' (m0 : Mesh) (l : Lattice) (h : (cleanup m0).1 = .ok l) :
    l.mesh.cells.map (·.1) = (m0.cells.map (·.1)).filter (fun k => !l.isolated.contains k) := by
  unfold cleanup at h
  simp only at h
  split at h
  · cases h
  rename_i st1 h1
  split at h
  · cases h
  rename_i groups _
  split at h
  · cases h
  rename_i st2 h2
  split at h
  · cases h
  rename_i st3 _ iso h3
  cases h
  simp only
  have e1 : ck st1.mesh = ck m0 := ck_triangles h1
  have e2 : ck st2.mesh = ck st1.mesh :=
    foldE_inv (fun x : St => ck x.mesh = ck st1.mesh) (fun _ _ _ hb hP => (ck_t3 hb).trans hP) h2 rfl
  have e3 : ck st3.mesh = ck st2.mesh :=
    foldE_inv (fun x : St × Bool × List Id => ck x.1.mesh = ck st2.mesh)
      (fun _ _ _ hb hP => (ck_isolatedStep hb).trans hP) h3 rfl
  change ck (finalMesh _) = (ck m0).filter _
  rw [ck_finalMesh]
  simp only
  rw [ck_foldl_delCell, ck_release, e3, e2, e1]

theorem ck_mkCell (m : Mesh) (k : Id) (verts : List Id) :
    ck (m.mkCell k verts) = (ck m).filter (fun x => x != k) ++ [k] := by
  simp only [Mesh.mkCell, ck]
  rw [cells_foldl_updVertex verts (fun _ vx => Mesh.addCellTo vx k) m, List.map_append, List.filter_map]
  rfl

theorem ck_foldl_mkCell (cs : List (Id × List Id)) (m : Mesh) (hnd : (cs.map (·.1)).Nodup)
    (hd : ∀ k ∈ cs.map (·.1), k ∉ ck m) :
    ck (cs.foldl (fun m p => m.mkCell p.1 p.2) m) = ck m ++ cs.map (·.1) := by
  induction cs generalizing m with
  | nil => simp
  | cons a r ih =>
    simp only [List.map_cons, List.nodup_cons, List.mem_cons, forall_eq_or_imp] at hnd hd
    have e : ck (m.mkCell a.1 a.2) = ck m ++ [a.1] := by
      rw [ck_mkCell, List.filter_eq_self.mpr]
      intro x hx
      have : x ≠ a.1 := fun e => hd.1 (e ▸ hx)
      simpa using this
    simp only [List.foldl_cons, List.map_cons]
    rw [ih _ hnd.2, e, List.append_assoc]
    · rfl
    · intro k hk
      rw [e, List.mem_append, List.mem_singleton]
      rintro (h1 | rfl)
      · exact hd.2 k hk h1
      · exact hnd.1 hk

theorem cells_foldl_mkVertex (vs : List (Id × Rat × Rat)) (m : Mesh) :
    (vs.foldl (fun m p => m.mkVertex p.1 p.2.1 p.2.2) m).cells = m.cells := by
  induction vs generalizing m with
  | nil => rfl
  | cons a l ih => simp only [List.foldl_cons]; rw [ih]; rfl

theorem cells_foldl_mkEdge (es : List (Id × Id × Id)) (m : Mesh) :
    (es.foldl (fun m p => m.mkEdge p.1 p.2.1 p.2.2) m).cells = m.cells := by
  induction es generalizing m with
  | nil => rfl
  | cons a l ih => simp only [List.foldl_cons]; rw [ih]; rfl

theorem ck_ofLists (vs : List (Id × Rat × Rat)) (es : List (Id × Id × Id)) (cs : List (Id × List Id))
    (hnd : (cs.map (·.1)).Nodup) : ck (Mesh.ofLists vs es cs) = cs.map (·.1) := by
  simp only [Mesh.ofLists]
  have e0 : ck (es.foldl (fun m p => m.mkEdge p.1 p.2.1 p.2.2)
      (vs.foldl (fun m p => m.mkVertex p.1 p.2.1 p.2.2) Mesh.empty)) = [] := by
    simp only [ck]
    rw [cells_foldl_mkEdge, cells_foldl_mkVertex]
    rfl
  rw [ck_foldl_mkCell cs _ hnd (by rw [e0]; simp), e0, List.nil_append]

theorem rawMesh_cells_length (cs : List (List Px)) : (rawMesh cs).cells.length = cs.length := by
  have h : ck (rawMesh cs) = (rawCells (rawOf cs)).map (·.1) :=
    ck_ofLists _ _ _ (enumFrom_keys_nodup _ _)
  have h2 := congrArg List.length h
  simp only [ck, List.length_map, rawCells] at h2
  rw [h2]
  have h3 := congrArg List.length (enumFrom_keys 0 (rawOf cs).cells)
  simp only [List.length_map, List.length_range'] at h3
  rw [h3, (rawOf_inv cs).cells, List.length_map]

theorem cells_eq_contours' (cs : List (List Px)) (l : Lattice) (h : (createLattice cs false).1 = .ok l)
    (hi : l.isolated = []) : l.mesh.cells.length = cs.length := by
  unfold createLattice at h
  simp only [Bool.false_eq_true, if_false] at h
  split at h
  · cases h
  · have := congrArg List.length (cleanup_cell_keys' _ l h)
    rw [hi] at this
    simp only [List.length_map, List.contains_nil, Bool.not_false, List.filter_true] at this
    rw [this, rawMesh_cells_length]

end Skel
end Forsys
