/- helper lemmas for Props/C11merge.lean: the merge loop of `generate_mesh` on pairwise vertex-disjoint pairs -/
import ForsysModel.Props.C09join
import ForsysModel.Props.C11mesh
namespace Forsys
namespace Mesh

/-! ### cyclic pairs of a cycle after `join_two_vertices`, away from the merged vertices -/

theorem mem_cyclicPairs_erase (L : List Id) (b c d : Id) (hnd : L.Nodup) (hb : b ∈ L) (hcb : c ≠ b) (hdb : d ≠ b)
    (h : (c, d) ∈ cyclicPairs L) : (c, d) ∈ cyclicPairs (L.erase b) := by
  obtain ⟨n, k, R, hR1, hR2⟩ := rot_erase L b hnd hb
  have h1 : (c, d) ∈ cyclicPairs (b :: R) := by rw [← hR1]; exact (mem_cyclicPairs_rotate L n _).mpr h
  have h2 : (c, d) ∈ cyclicPairs R := by
    cases R with
    | nil => simp [cyclicPairs] at h1; exact absurd h1.1 hcb
    | cons r0 R' =>
      simp only [cyclicPairs, List.cons_append, List.zip_cons_cons, List.mem_cons, Prod.mk.injEq] at h1 ⊢
      rcases h1 with h1 | h1
      · exact absurd h1.1 hcb
      · have e1 := zip_tail_snoc (r0 :: R') b (by simp)
        have e2 := zip_tail_snoc (r0 :: R') r0 (by simp)
        simp only [List.tail_cons] at e1 e2
        rw [e1] at h1
        rw [e2]
        rcases List.mem_append.mp h1 with h1 | h1
        · exact List.mem_append_left _ h1
        · simp only [List.mem_singleton, Prod.mk.injEq] at h1
          exact absurd h1.2 hdb
  exact (mem_cyclicPairs_rotate _ k _).mp (hR2 ▸ h2)

theorem cyclicPairs_map_sigma_keep (x new : Id) (L : List Id) (c d : Id) (hc : c ≠ x) (hd : d ≠ x)
    (h : (c, d) ∈ cyclicPairs L) : (c, d) ∈ cyclicPairs (L.map fun v => if v = x then new else v) := by
  rw [cyclicPairs_map]
  exact List.mem_map.mpr ⟨(c, d), h, by simp [hc, hd]⟩

/-- a consecutive pair of a cycle that avoids `a` and `b` is still consecutive after `a`, `b` were merged -/
theorem cyclicPairs_nvs_keep (a b new : Id) (L : List Id) (c d : Id) (hnd : L.Nodup) (hab : a ≠ b) (hnL : new ∉ L)
    (hca : c ≠ a) (hcb : c ≠ b) (hda : d ≠ a) (hdb : d ≠ b)
    (h : (c, d) ∈ cyclicPairs L) : (c, d) ∈ cyclicPairs (nvs a b new L) := by
  unfold nvs
  by_cases ha : a ∈ L <;> by_cases hb : b ∈ L <;> simp only [ha, hb, ↓reduceIte]
  · apply mem_cyclicPairs_erase _ b c d (map_sigma_nodup a new L hnd hnL) _ hcb hdb
      (cyclicPairs_map_sigma_keep a new L c d hca hda h)
    rw [mem_map_sigma_iff]; exact Or.inr ⟨hab.symm, hb⟩
  · exact cyclicPairs_map_sigma_keep a new L c d hca hda h
  · exact cyclicPairs_map_sigma_keep b new L c d hcb hdb h
  · exact h

/-- a cycle with at least three vertices containing `c ≠ d` keeps at least three after a merge of two other vertices
    (if it loses one, it had `a, b, c, d`) -/
theorem nvs_length_ge (a b new : Id) (L : List Id) (c d : Id) (hab : a ≠ b)
    (hca : c ≠ a) (hcb : c ≠ b) (hda : d ≠ a) (hdb : d ≠ b) (hcd : c ≠ d) (hc : c ∈ L) (hd : d ∈ L)
    (h3 : 3 ≤ L.length) : 3 ≤ (nvs a b new L).length := by
  unfold nvs
  by_cases ha : a ∈ L <;> by_cases hb : b ∈ L <;> simp only [ha, hb, ↓reduceIte, List.length_map, h3]
  have hb' : b ∈ L.map fun v => if v = a then new else v := by
    rw [mem_map_sigma_iff]; exact Or.inr ⟨hab.symm, hb⟩
  rw [List.length_erase_of_mem hb', List.length_map]
  have hnd : [a, b, c, d].Nodup := by
    simp only [List.nodup_cons, List.mem_cons, List.not_mem_nil, or_false, not_or, List.nodup_nil, and_true,
      not_false_eq_true]
    exact ⟨⟨hab, hca.symm, hda.symm⟩, ⟨hcb.symm, hdb.symm⟩, hcd⟩
  have hsub : [a, b, c, d] ⊆ L := by
    intro x hx
    simp only [List.mem_cons, List.not_mem_nil, or_false] at hx
    rcases hx with rfl | rfl | rfl | rfl <;> assumption
  have := (List.subperm_of_subset hnd hsub).length_le
  simp at this
  omega

/-! ### the key lemma -/

/-- the Prop form of `Mesh.joinable` (the right-hand side of `joinable_iff`) -/
def JoinableP (m : Mesh) (a b : Id) : Prop :=
  a ≠ b ∧ (m.vertex? a).isSome = true ∧ (m.vertex? b).isSome = true ∧ JoinedP m a b ∧
      ¬ JoinedP m a a ∧ ¬ JoinedP m b b ∧
      ∀ q ∈ m.cells, a ∈ q.2.verts → b ∈ q.2.verts →
        3 ≤ q.2.verts.length ∧ ((a, b) ∈ cyclicPairs q.2.verts ∨ (b, a) ∈ cyclicPairs q.2.verts)

theorem joinable_iffP (m : Mesh) (a b : Id) : m.joinable a b = true ↔ JoinableP m a b := joinable_iff m a b

/-- a pair that is joinable in `m` and avoids `a` and `b` is joinable in the closed form of the merge of `a`, `b` -/
theorem JoinSpec.joinableP_preserved {m : Mesh} {a b new common : Id} {F : Mesh} (S : JoinSpec m a b new common F)
    (hC : ConsP m) (hab : a ≠ b) (hnew : new ∉ m.vertices.map (·.1))
    (hcom : ∃ ce, alGet? common m.edges = some ce ∧ ((ce.v1 = a ∧ ce.v2 = b) ∨ (ce.v1 = b ∧ ce.v2 = a)))
    (c d : Id) (hca : c ≠ a) (hcb : c ≠ b) (hda : d ≠ a) (hdb : d ≠ b)
    (hj : JoinableP m c d) : JoinableP F c d := by
  obtain ⟨hK, hE, hOC, hR, hN, hJ⟩ := hC
  obtain ⟨k1, k2, k3, k4, k5, k6⟩ := hK
  obtain ⟨ce, hce, hcends⟩ := hcom
  obtain ⟨hcd, hvc, hvd, hjcd, hlc, hld, hadj⟩ := hj
  have hcm : c ∈ m.vertices.map (·.1) := by simpa [vertex?, alGet?_isSome_iff] using hvc
  have hdm : d ∈ m.vertices.map (·.1) := by simpa [vertex?, alGet?_isSome_iff] using hvd
  have hcn : c ≠ new := fun h => hnew (h ▸ hcm)
  have hdn : d ≠ new := fun h => hnew (h ▸ hdm)
  have hnb : new ≠ b := by
    intro h
    obtain ⟨_, r1, r2⟩ := hR.1 (common, ce) (alGet?_some_mem hce)
    simp only at r1 r2
    rcases hcends with ⟨_, x2⟩ | ⟨x1, _⟩
    · exact hnew (h ▸ x2 ▸ r2)
    · exact hnew (h ▸ x1 ▸ r1)
  have hnc : ∀ q ∈ m.cells, new ∉ q.2.verts := fun q hq h => hnew ((hR.2 q hq).2 _ h)
  have hkeep : ∀ x, x ∈ m.vertices.map (·.1) → x ≠ a → x ≠ b → (F.vertex? x).isSome = true := by
    intro x hx h1 h2
    simp only [vertex?, alGet?_isSome_iff, S.vkeys]
    apply List.mem_append_left
    simp [List.mem_filter, h1, h2]
    simpa using hx
  have hloop : ∀ x, x ≠ new → ¬ JoinedP m x x → ¬ JoinedP F x x := by
    intro x hxn hx ⟨q, hq, hh⟩
    rw [S.edges] at hq
    obtain ⟨q0, hq0, rfl⟩ := List.mem_map.mp hq
    have hq0m := (List.mem_filter.mp hq0).1
    simp only [tauE, tau_eq_other a b new _ _ hxn, or_self] at hh
    exact hx ⟨q0, hq0m, Or.inl ⟨hh.1.1, hh.2.1⟩⟩
  refine ⟨hcd, hkeep c hcm hca hcb, hkeep d hdm hda hdb, ?_, hloop c hcn hlc, hloop d hdn hld, ?_⟩
  · obtain ⟨q0, hq0, hh⟩ := hjcd
    have hne' : q0.1 ≠ common := by
      intro hq
      have := alGet?_of_mem k5 (show (q0.1, q0.2) ∈ m.edges from hq0)
      rw [hq, hce] at this
      have := Option.some.inj this
      subst this
      rcases hcends with ⟨x1, x2⟩ | ⟨x1, x2⟩ <;> rcases hh with ⟨y1, y2⟩ | ⟨y1, y2⟩
      · exact hca (y1 ▸ x1)
      · exact hda (y1 ▸ x1)
      · exact hcb (y1 ▸ x1)
      · exact hdb (y1 ▸ x1)
    refine ⟨(q0.1, tauE a b new q0.2), ?_, ?_⟩
    · rw [S.edges]
      exact List.mem_map.mpr ⟨q0, List.mem_filter.mpr ⟨hq0, by simpa using hne'⟩, rfl⟩
    · simp only [tauE]
      rcases hh with ⟨y1, y2⟩ | ⟨y1, y2⟩
      · left; rw [y1, y2]; exact ⟨tau_of_ne _ _ _ _ hca hcb, tau_of_ne _ _ _ _ hda hdb⟩
      · right; rw [y1, y2]; exact ⟨tau_of_ne _ _ _ _ hda hdb, tau_of_ne _ _ _ _ hca hcb⟩
  · intro q hq hc hd
    rw [S.cells] at hq
    obtain ⟨q0, hq0, rfl⟩ := List.mem_map.mp hq
    simp only at hc hd ⊢
    rw [nvs_mem a b new _ q0.2.verts (hN _ hq0) (hnc _ hq0) hnb] at hc hd
    have hc' : c ∈ q0.2.verts := by
      rcases hc with h | h
      · exact h.2.2
      · exact absurd h.1 hcn
    have hd' : d ∈ q0.2.verts := by
      rcases hd with h | h
      · exact h.2.2
      · exact absurd h.1 hdn
    obtain ⟨h3, hp⟩ := hadj q0 hq0 hc' hd'
    refine ⟨nvs_length_ge a b new _ c d hab hca hcb hda hdb hcd hc' hd' h3, ?_⟩
    rcases hp with hp | hp
    · exact Or.inl (cyclicPairs_nvs_keep a b new _ c d (hN _ hq0) hab (hnc _ hq0) hca hcb hda hdb hp)
    · exact Or.inr (cyclicPairs_nvs_keep a b new _ d c (hN _ hq0) hab (hnc _ hq0) hda hdb hca hcb hp)

/-- the closed form of a successful call together with its `JoinSpec` (the set-up of `joinFinal_consP`) -/
theorem joinFinal_spec_of (m : Mesh) (a b : Id) (hC : ConsP m) (hj : JoinableP m a b) :
    ∃ v0 v1 common, m.vertex? a = some v0 ∧ m.vertex? b = some v1 ∧
      (listInter v0.ownEdges v1.ownEdges).head? = some common ∧
      JoinSpec m a b m.unusedId common (joinFinal m a b m.unusedId common v0 v1) ∧
      (∃ ce, alGet? common m.edges = some ce ∧ ((ce.v1 = a ∧ ce.v2 = b) ∨ (ce.v1 = b ∧ ce.v2 = a))) := by
  obtain ⟨hab, ha, hb, hj, hla, hlb, hadj⟩ := hj
  obtain ⟨v0, h0⟩ := Option.isSome_iff_exists.mp ha
  obtain ⟨v1, h1⟩ := Option.isSome_iff_exists.mp hb
  have h0' : alGet? a m.vertices = some v0 := h0
  have h1' : alGet? b m.vertices = some v1 := h1
  have ha_mem := alGet?_some_mem h0'
  have hb_mem := alGet?_some_mem h1'
  have hv0id : v0.id = a := (hC.1.1 _ ha_mem).symm
  have hv1id : v1.id = b := (hC.1.1 _ hb_mem).symm
  obtain ⟨q, hq, hqends⟩ := hj
  have hq0 : q.2.id ∈ v0.ownEdges := (hC.2.1 _ ha_mem).2.1 q hq (by rw [hv0id]; tauto)
  have hq1 : q.2.id ∈ v1.ownEdges := (hC.2.1 _ hb_mem).2.1 q hq (by rw [hv1id]; tauto)
  have hinter : q.2.id ∈ listInter v0.ownEdges v1.ownEdges := by
    simp [listInter, hq0, hq1]
  obtain ⟨common, hcommon⟩ : ∃ c, (listInter v0.ownEdges v1.ownEdges).head? = some c := by
    cases hl : listInter v0.ownEdges v1.ownEdges with
    | nil => rw [hl] at hinter; simp at hinter
    | cons c t => exact ⟨c, rfl⟩
  have hcmem : common ∈ listInter v0.ownEdges v1.ownEdges := List.mem_of_mem_head? hcommon
  have hc0 : common ∈ v0.ownEdges := by
    simp only [listInter, List.mem_filter] at hcmem; exact hcmem.1
  have hc1 : common ∈ v1.ownEdges := by
    simp only [listInter, List.mem_filter, List.contains_eq_mem, decide_eq_true_eq] at hcmem; exact hcmem.2
  have H : JoinHyp m a b m.unusedId common v0 v1 :=
    { cons := hC, h0 := h0', h1 := h1', hab := hab, hnew := unusedId_fresh m, hc0 := hc0, hc1 := hc1,
      hloop := fun q hq => ⟨fun h => hla ⟨q, hq, Or.inl h⟩, fun h => hlb ⟨q, hq, Or.inl h⟩⟩ }
  exact ⟨v0, v1, common, h0, h1, hcommon, H.joinFinal_spec, H.common_edge⟩

/-- KEY LEMMA, Prop form, on the mapped call: the call succeeds, its result is consistent, the fresh id and the two
    merged ids are the only change of the vertex keys, and every pair that was joinable and avoids the two merged
    vertices is still joinable -/
theorem join_preserves_joinableP (m : Mesh) (pair : Id × Id) (mapper : List (Id × Id)) (hC : ConsP m)
    (hj : JoinableP m (m.resolveId mapper pair.1) (m.resolveId mapper pair.2)) :
    ∃ F, m.joinTwoVertices pair mapper =
        .ok (F, (mapper.filter fun p => p.1 != pair.1 && p.1 != pair.2) ++
          [(pair.1, m.unusedId), (pair.2, m.unusedId)]) ∧ ConsP F ∧
      ∀ c d, c ≠ m.resolveId mapper pair.1 → c ≠ m.resolveId mapper pair.2 →
        d ≠ m.resolveId mapper pair.1 → d ≠ m.resolveId mapper pair.2 → JoinableP m c d → JoinableP F c d := by
  obtain ⟨v0, v1, common, e0, e1, ec, S, hcom⟩ := joinFinal_spec_of m _ _ hC hj
  obtain ⟨hab, ha, hb, hjn, hla, hlb, hadj⟩ := hj
  have ha' : m.resolveId mapper pair.1 ∈ m.vertices.map (·.1) := by simpa [vertex?, alGet?_isSome_iff] using ha
  have hb' : m.resolveId mapper pair.2 ∈ m.vertices.map (·.1) := by simpa [vertex?, alGet?_isSome_iff] using hb
  refine ⟨_, join_eq_gen m pair mapper _ _ v0 v1 (resolveOpt_eq m mapper _ ha) (resolveOpt_eq m mapper _ hb)
    e0 e1 common ec, S.consP hC hab (unusedId_fresh m) ha' hb' hcom hadj, ?_⟩
  intro c d h1 h2 h3 h4 hcd
  exact S.joinableP_preserved hC hab (unusedId_fresh m) hcom c d h1 h2 h3 h4 hcd

/-- a vertex of the mesh is looked up directly, whatever the mapper says -/
theorem resolveId_of_vertex (m : Mesh) (mapper : List (Id × Id)) (k : Id) (h : (m.vertex? k).isSome = true) :
    m.resolveId mapper k = k := by
  simp [resolveId, h]

/-! ### induction over the list of pairs -/

/-- two pairs without a common vertex -/
def PairDisj (p q : Id × Id) : Prop := p.1 ≠ q.1 ∧ p.1 ≠ q.2 ∧ p.2 ≠ q.1 ∧ p.2 ≠ q.2

/-- the loop `for edge_to_join in vertices_to_join: … join_two_vertices(…)` as a recursion on pairs -/
def joinLoop (m : Mesh) (mapper : List (Id × Id)) : List (Id × Id) → Except JoinErr (Mesh × List (Id × Id))
  | [] => .ok (m, mapper)
  | p :: rest =>
    match m.joinTwoVertices p mapper with
    | .ok (m', mapper') => joinLoop m' mapper' rest
    | .error e => .error e

theorem joinLoop_consP (ps : List (Id × Id)) : ∀ (M : Mesh) (mapper : List (Id × Id)), ConsP M →
    (∀ p ∈ ps, JoinableP M p.1 p.2) → ps.Pairwise PairDisj →
    ∃ F mp, joinLoop M mapper ps = .ok (F, mp) ∧ ConsP F := by
  induction ps with
  | nil => intro M mapper hC _ _; exact ⟨M, mapper, rfl, hC⟩
  | cons p rest ih =>
    intro M mapper hC hj hd
    have hp := hj p (List.mem_cons_self ..)
    have ra := resolveId_of_vertex M mapper p.1 hp.2.1
    have rb := resolveId_of_vertex M mapper p.2 hp.2.2.1
    obtain ⟨F, hF, hCF, hkeep⟩ := join_preserves_joinableP M p mapper hC (by rw [ra, rb]; exact hp)
    rw [ra, rb] at hkeep
    obtain ⟨hd1, hd2⟩ := List.pairwise_cons.mp hd
    obtain ⟨F', mp', h1, h2⟩ := ih F _ hCF
      (fun q hq => by
        obtain ⟨d1, d2, d3, d4⟩ := hd1 q hq
        exact hkeep q.1 q.2 (Ne.symm d1) (Ne.symm d3) (Ne.symm d2) (Ne.symm d4) (hj q (List.mem_cons_of_mem _ hq)))
      hd2
    refine ⟨F', mp', ?_, h2⟩
    simp only [joinLoop, hF]
    exact h1

/-- the local recursion of `generateMesh` is `joinLoop` on the pairs of first and second entries -/
theorem go_eq_joinLoop (nEA : List (List Id)) (ps : List (List Id)) : ∀ (M : Mesh) (mapper : List (Id × Id)),
    (∀ F mp, joinLoop M mapper (ps.map fun e => (e.getD 0 0, e.getD 1 0)) = .ok (F, mp) →
      generateMesh.go nEA M mapper ps = { mesh := F, nEdgeArray := nEA, error := none }) := by
  induction ps with
  | nil =>
    intro M mapper F mp h
    simp only [List.map_nil, joinLoop, Except.ok.injEq, Prod.mk.injEq] at h
    simp only [generateMesh.go, h.1]
  | cons e rest ih =>
    intro M mapper F mp h
    simp only [List.map_cons, joinLoop] at h
    simp only [generateMesh.go]
    cases hjt : M.joinTwoVertices (e.getD 0 0, e.getD 1 0) mapper with
    | error err => rw [hjt] at h; simp at h
    | ok r =>
      obtain ⟨M', mp'⟩ := r
      rw [hjt] at h
      exact ih M' mp' F mp h

/-- `joinChain` (Props/C09join.lean) is `joinLoop` started with the empty mapper -/
theorem joinChain_eq_joinLoop (m : Mesh) (ps : List (Id × Id)) : joinChain m ps = joinLoop m [] ps := by
  unfold joinChain
  have gen : ∀ (ps : List (Id × Id)) (M : Mesh) (mp : List (Id × Id)),
      ps.foldl (fun acc p => match acc with
        | .ok (m, mp) => m.joinTwoVertices p mp
        | .error e => .error e) (.ok (M, mp)) = joinLoop M mp ps := by
    intro ps
    induction ps with
    | nil => intro M mp; rfl
    | cons p rest ih =>
      intro M mp
      simp only [List.foldl_cons, joinLoop]
      cases hjt : M.joinTwoVertices p mp with
      | error err =>
        simp only
        clear ih hjt
        induction rest with
        | nil => rfl
        | cons _ _ ih2 => simpa using ih2
      | ok r => obtain ⟨M', mp'⟩ := r; exact ih M' mp'
  exact gen ps m []

/-- every element of a list occurs in the numbering `zip (range n) l` -/
theorem mem_zip_range {α : Type} (l : List α) (s : α) (h : s ∈ l) :
    ∃ i, (i, s) ∈ List.zip (List.range l.length) l := by
  obtain ⟨i, hi, rfl⟩ := List.mem_iff_getElem.mp h
  exact ⟨i, List.mem_iff_getElem.mpr ⟨i, by simp [hi], by simp⟩⟩

end Mesh
end Forsys
