import ForsysModel.Driver.Common
import ForsysModel.Driver.Core
