import ForsysModel.Driver.Common
import ForsysModel.Driver.Core
import ForsysModel.Driver.C19
import ForsysModel.Driver.C17
import ForsysModel.Driver.C18
import ForsysModel.Driver.C14
import ForsysModel.Driver.Time
import ForsysModel.Driver.Pressure
