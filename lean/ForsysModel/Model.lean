import ForsysModel.Model.Basic
import ForsysModel.Model.Geometry
import ForsysModel.Model.Mesh
import ForsysModel.Model.BigEdges
import ForsysModel.Model.Resample
import ForsysModel.Model.Construct
import ForsysModel.Model.Tangent
import ForsysModel.Model.FMatrix
