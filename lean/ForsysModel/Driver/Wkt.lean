/-
  ForsysModel.Driver.Wkt — protocol operation for the WKT model (property C09, Model/Wkt.lean).

  `wkt_lattice`: `rows` = per polygon row the token pairs `[float(v[1]), float(v[2])]` the code iterates over
  (last piece of the row dropped), as exact rationals.  Optional `flip` = table `[[y, 1024 - y computed in
  float64], …]` for those tokens whose floating difference is not the exact one; every other token is flipped
  exactly.  Response: `error` (null | "AssertionError" + `eid` | "FloatingPointError" + `cid`), the mesh,
  `Consistent` and the failing clauses, `wf` (the hypothesis of `wkt_wf_consistent` for the flip in use),
  `nodup` (the hypothesis of `wkt_consistent`), `border` (cells with truthy `is_border`).
-/
import ForsysModel.Driver.Common
open Lean Forsys Forsys.Driver

namespace Forsys.Driver.Wkt

def tableFlip (tab : List (Rat × Rat)) (y : Rat) : Rat :=
  match tab.find? (fun p => p.1 == y) with
  | some p => p.2
  | none => Forsys.Wkt.flip1024 y

def opWktLattice (j : Json) : E Json := do
  let rows ← jList (jList jPt) (← field j "rows")
  let tab ← (match j.getObjVal? "flip" with
    | .ok t => jList (fun r => do let a ← jRat (← jIdx r 0); let b ← jRat (← jIdx r 1); pure (a, b)) t
    | .error _ => pure [] : E (List (Rat × Rat)))
  let flip := tableFlip tab
  let wf := decide (Forsys.Wkt.WF flip rows)
  let nodup := rows.all fun r => decide ((r.map (Forsys.Wkt.flipPt flip)).Nodup)
  let common := [("wf", Json.bool wf), ("nodup", Json.bool nodup)]
  match Forsys.Wkt.latticeWith flip rows with
  | .error (.sameVertexTwice eid) =>
    pure <| Json.mkObj ([("error", .str "AssertionError"), ("eid", iJ eid)] ++ common)
  | .error (.emptyCell cid) =>
    pure <| Json.mkObj ([("error", .str "FloatingPointError"), ("cid", iJ cid)] ++ common)
  | .ok m =>
    pure <| Json.mkObj ([("error", .null), ("mesh", meshJ m), ("consistent", .bool m.Consistent),
      ("failing", lJ Json.str m.failing), ("border", lJ iJ (Forsys.Wkt.borderCells m))] ++ common)

def ops : List Op := [("wkt_lattice", opWktLattice)]

end Forsys.Driver.Wkt
