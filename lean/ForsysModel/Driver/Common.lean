/-
  ForsysModel.Driver.Common — JSON vocabulary of the line protocol (see Driver.lean).
  Rationals travel as strings "n/d" (or "n"); a float64 of the implementation is sent as the exact
  rational it denotes.
-/
import Lean.Data.Json
import ForsysModel.Model
open Lean Forsys

namespace Forsys.Driver

abbrev E := Except String

def parseRat (s : String) : E Rat :=
  match s.splitOn "/" with
  | [n] => match n.trimAscii.toString.toInt? with
    | some k => pure (k : Rat)
    | none => throw s!"bad rational {s}"
  | [n, d] => match n.trimAscii.toString.toInt?, d.trimAscii.toString.toNat? with
    | some k, some m => if m = 0 then throw s!"zero denominator {s}" else pure (mkRat k m)
    | _, _ => throw s!"bad rational {s}"
  | _ => throw s!"bad rational {s}"

def jRat (j : Json) : E Rat :=
  match j with
  | .str s => parseRat s
  | .num _ => do let k ← j.getInt?; pure (k : Rat)
  | _ => throw "rational expected"

def jInt (j : Json) : E Int := j.getInt?
def jNat (j : Json) : E Nat := j.getNat?
def jBool (j : Json) : E Bool :=
  match j with
  | .bool b => pure b
  | .num _ => do let k ← j.getInt?; pure (k != 0)
  | _ => throw "bool expected"

def jList {α : Type} (f : Json → E α) (j : Json) : E (List α) := do
  let a ← j.getArr?
  a.toList.mapM f

def jIdx (j : Json) (i : Nat) : E Json := do
  let a ← j.getArr?
  match a[i]? with
  | some x => pure x
  | none => throw s!"index {i} out of range"

def jPt (j : Json) : E Pt := do
  let x ← jRat (← jIdx j 0); let y ← jRat (← jIdx j 1); pure ⟨x, y⟩

def jVec (j : Json) : E Vec := do
  let x ← jRat (← jIdx j 0); let y ← jRat (← jIdx j 1); pure ⟨x, y⟩

def field (j : Json) (k : String) : E Json := j.getObjVal? k

def jMesh (j : Json) : E Mesh := do
  let vs ← jList (fun r => do
      let key ← jInt (← jIdx r 0); let id ← jInt (← jIdx r 1)
      let x ← jRat (← jIdx r 2); let y ← jRat (← jIdx r 3)
      let oe ← jList jInt (← jIdx r 4); let oc ← jList jInt (← jIdx r 5)
      pure (key, ({ id := id, x := x, y := y, ownEdges := oe, ownCells := oc } : Vertex))) (← field j "v")
  let es ← jList (fun r => do
      let key ← jInt (← jIdx r 0); let id ← jInt (← jIdx r 1)
      let a ← jInt (← jIdx r 2); let b ← jInt (← jIdx r 3); let same ← jBool (← jIdx r 4)
      pure (key, ({ id := id, v1 := a, v2 := b, same := same } : SEdge))) (← field j "e")
  let cs ← jList (fun r => do
      let key ← jInt (← jIdx r 0); let id ← jInt (← jIdx r 1)
      let vs ← jList jInt (← jIdx r 2); let same ← jBool (← jIdx r 3)
      pure (key, ({ id := id, verts := vs, same := same } : Cell))) (← field j "c")
  pure { vertices := vs, edges := es, cells := cs }

/-! output helpers -/
def rJ (q : Rat) : Json := .str (if q.den = 1 then toString q.num else s!"{q.num}/{q.den}")
def iJ (i : Int) : Json := .num (JsonNumber.fromInt i)
def nJ (n : Nat) : Json := .num (JsonNumber.fromNat n)
def lJ {α : Type} (f : α → Json) (l : List α) : Json := .arr (l.map f).toArray
def oJ {α : Type} (f : α → Json) : Option α → Json
  | some a => f a
  | none => .null
def ptJ (p : Pt) : Json := lJ rJ [p.x, p.y]
def vecJ (v : Vec) : Json := lJ rJ [v.x, v.y]

def meshJ (m : Mesh) : Json :=
  Json.mkObj [
    ("v", lJ (fun (p : Id × Vertex) => Json.arr #[iJ p.1, iJ p.2.id, rJ p.2.x, rJ p.2.y, lJ iJ p.2.ownEdges, lJ iJ p.2.ownCells]) m.vertices),
    ("e", lJ (fun (p : Id × SEdge) => Json.arr #[iJ p.1, iJ p.2.id, iJ p.2.v1, iJ p.2.v2, .bool p.2.same]) m.edges),
    ("c", lJ (fun (p : Id × Cell) => Json.arr #[iJ p.1, iJ p.2.id, lJ iJ p.2.verts, .bool p.2.same]) m.cells)]


/-- an operation of the protocol: name and handler -/
abbrev Op := String × (Json → E Json)

end Forsys.Driver
