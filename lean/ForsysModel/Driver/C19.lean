/-
  ForsysModel.Driver.C19 — protocol operations for the tessellation model (property C19).
  The model is run on Qhull's actual output as observed in Python (`Voronoi.vertices`, `Voronoi.regions`).
-/
import ForsysModel.Driver.Common
open Lean Forsys Forsys.Driver Forsys.Tess

namespace Forsys.Driver.C19

def jOptRat (j : Json) : E (Option Rat) :=
  match j with
  | .null => pure none
  | x => do let q ← jRat x; pure (some q)

def vdictJ (d : List (Id × Pt)) : Json := lJ (fun (p : Id × Pt) => Json.arr #[iJ p.1, rJ p.2.x, rJ p.2.y]) d
def edictJ (d : List (Id × (Id × Id))) : Json :=
  lJ (fun (p : Id × (Id × Id)) => Json.arr #[iJ p.1, iJ p.2.1, iJ p.2.2]) d
def cdictJ (d : List (Id × List Id)) : Json := lJ (fun (p : Id × List Id) => Json.arr #[iJ p.1, lJ iJ p.2]) d

def jVDict (j : Json) : E (List (Id × Pt)) :=
  jList (fun r => do
    let k ← jInt (← jIdx r 0); let x ← jRat (← jIdx r 1); let y ← jRat (← jIdx r 2); pure (k, (⟨x, y⟩ : Pt))) j

def jEDict (j : Json) : E (List (Id × (Id × Id))) :=
  jList (fun r => do
    let k ← jInt (← jIdx r 0); let a ← jInt (← jIdx r 1); let b ← jInt (← jIdx r 2); pure (k, (a, b))) j

/-- `create_lattice_elements` + `create_lattice` on Qhull's output -/
def opTess (j : Json) : E Json := do
  let verts ← jList jPt (← field j "verts")
  let regions ← jList (jList jInt) (← field j "regions")
  let md2 ← jOptRat (← field j "md2")
  let el := createLatticeElements verts regions md2
  let lat : Json := match createLattice el with
    | .sameVertexTwice eid => Json.mkObj [("error", .str "AssertionError"), ("eid", iJ eid)]
    | .ok m => Json.mkObj [("error", .null), ("mesh", meshJ m), ("consistent", .bool m.Consistent),
        ("failing", lJ Json.str m.failing),
        ("signs", lJ (fun (p : Id × Cell) => Json.arr #[iJ p.1, iJ (areaSign (p.2.verts.map m.pt))]) m.cells)]
  pure <| Json.mkObj [
    ("kept", lJ (lJ iJ) (removeInfiniteRegions verts md2 regions)),
    ("vertices", vdictJ el.vertices), ("edges", edictJ el.edges), ("cells", cdictJ el.cells),
    ("lattice", lat)]

/-- `remove_infinite_regions` alone, with the decisive squared diameters -/
def opCutoff (j : Json) : E Json := do
  let verts ← jList jPt (← field j "verts")
  let regions ← jList (jList jInt) (← field j "regions")
  let md2 ← jOptRat (← field j "md2")
  pure <| Json.mkObj [
    ("kept", lJ (lJ iJ) (removeInfiniteRegions verts md2 regions)),
    ("diamSq", lJ (fun c => if bounded c then rJ (maxDistSq (c.map (qv verts))) else .null) regions)]

def opLineEq (j : Json) : E Json := do
  let p0 ← jPt (← field j "p0"); let p1 ← jPt (← field j "p1")
  let xs ← jList jRat (← field j "xs")
  pure <| Json.mkObj [("ys", lJ rJ (lineEq p0 p1 xs)), ("vertical", .bool ((roundPt p1).x == (roundPt p0).x)),
                      ("ridge", lJ ptJ (ridgePoints p0 p1))]

def opRound3 (j : Json) : E Json := do
  let xs ← jList jRat (← field j "xs")
  pure <| Json.mkObj [("res", lJ rJ (xs.map round3))]

/-- a sequence of `get_vertex_number` calls on a growing dictionary -/
def opVertexNumber (j : Json) : E Json := do
  let d ← jVDict (← field j "dict")
  let qs ← jList jPt (← field j "queries")
  let (ids, d) := qs.foldl (fun (acc : List Id × List (Id × Pt)) q =>
      let r := getVertexNumber q acc.2; (acc.1 ++ [r.1], r.2)) ([], d)
  pure <| Json.mkObj [("ids", lJ iJ ids), ("dict", vdictJ d)]

/-- a sequence of `get_enum` calls on a growing dictionary -/
def opEnum (j : Json) : E Json := do
  let d ← jEDict (← field j "dict")
  let qs ← jList (fun r => do let a ← jInt (← jIdx r 0); let b ← jInt (← jIdx r 1); pure (a, b)) (← field j "queries")
  let (ids, d) := qs.foldl (fun (acc : List Id × List (Id × (Id × Id))) q =>
      let r := getEnum q acc.2; (acc.1 ++ [r.1], r.2)) ([], d)
  pure <| Json.mkObj [("ids", lJ iJ ids), ("dict", edictJ d)]

/-- `create_lattice` alone on given dictionaries -/
def opLattice (j : Json) : E Json := do
  let vs ← jVDict (← field j "vertices")
  let es ← jEDict (← field j "edges")
  let cs ← jList (fun r => do let k ← jInt (← jIdx r 0); let l ← jList jInt (← jIdx r 1); pure (k, l)) (← field j "cells")
  let el : Elements := { vertices := vs, edges := es, cells := cs }
  match createLattice el with
  | .sameVertexTwice eid => pure <| Json.mkObj [("error", .str "AssertionError"), ("eid", iJ eid)]
  | .ok m => pure <| Json.mkObj [("error", .null), ("mesh", meshJ m), ("consistent", .bool m.Consistent)]

def ops : List Op := [
  ("c19_tess", opTess), ("c19_cutoff", opCutoff), ("c19_line_eq", opLineEq), ("c19_round3", opRound3),
  ("c19_vertex_number", opVertexNumber), ("c19_enum", opEnum), ("c19_lattice", opLattice)]

end Forsys.Driver.C19
