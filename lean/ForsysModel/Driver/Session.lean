/-
  ForsysModel.Driver.Session — runs the session state machine (C10) with tabulated kernels.
-/
import ForsysModel.Driver.Common
open Lean Forsys Forsys.Driver

namespace Forsys.Driver.Session

def jFrameS (j : Json) : E SFrame := do
  let eo ← jList (jList jNat) (← field j "edgesOf")
  let internal ← jList jNat (← field j "internal")
  let ne ← jNat (← field j "nEdges"); let nc ← jNat (← field j "nCells")
  pure { edgesOf := eo, internal := internal, nEdges := ne, nCells := nc }

def closeList (a b : List Rat) : Bool :=
  a.length == b.length && (List.zip a b).all fun p =>
    let d := ratAbs' (p.1 - p.2)
    let s := ratAbs' p.1 + ratAbs' p.2 + 1
    decide (d * 1000000000 ≤ s)

def optListJ (o : Option (List Rat)) : Json := oJ (lJ rJ) o

def opSession (j : Json) : E Json := do
  let frs ← jList jFrameS (← field j "frames")
  -- tables: builds/solve options/pressure options are small natural numbers
  let usedT ← jList (fun r => do
      let t ← jNat (← jIdx r 0); let b ← jNat (← jIdx r 1); let u ← jList jNat (← jIdx r 2); pure (t, b, u)) (← field j "used")
  let solveT ← jList (fun r => do
      let t ← jNat (← jIdx r 0); let b ← jNat (← jIdx r 1); let o ← jNat (← jIdx r 2); let x ← jList jRat (← jIdx r 3)
      pure (t, b, o, x)) (← field j "solve")
  let pressT ← jList (fun r => do
      let t ← jNat (← jIdx r 0); let ts ← jList jRat (← jIdx r 1); let p ← jNat (← jIdx r 2); let pr ← jList jRat (← jIdx r 3)
      pure (t, ts, p, pr)) (← field j "press")
  let dflt ← jNat (← field j "defaultBuild")
  let K : Kernels Nat Nat Nat := {
    usedOf := fun t b => ((usedT.find? fun r => r.1 == t && r.2.1 == b).map (·.2.2)).getD [],
    solveF := fun t b o => ((solveT.find? fun r => r.1 == t && r.2.1 == b && r.2.2.1 == o).map (·.2.2.2)).getD [],
    pressF := fun t ts p => ((pressT.find? fun r => r.1 == t && r.2.2.1 == p && closeList r.2.1 ts).map (·.2.2.2)).getD [],
    defaultBuild := dflt }
  let ops ← jList (fun r => do
      let k ← (← jIdx r 0).getStr?
      match k with
      | "build" => do let t ← jNat (← jIdx r 1); let b ← jNat (← jIdx r 2); pure (Forsys.Op.buildForce t b : Forsys.Op Nat Nat Nat)
      | "solve" => do let t ← jNat (← jIdx r 1); let o ← jNat (← jIdx r 2); pure (Forsys.Op.solveStress t o)
      | "pbuild" => do let t ← jNat (← jIdx r 1); pure (Forsys.Op.buildPressure t)
      | "psolve" => do let t ← jNat (← jIdx r 1); let p ← jNat (← jIdx r 2); pure (Forsys.Op.solvePressure t p)
      | "sysvel" => do let ts ← jList jNat (← jIdx r 1); pure (Forsys.Op.sysVelocity ts)
      | _ => throw s!"unknown op kind {k}") (← field j "ops")
  let st := run K frs (SState.init frs) ops
  pure <| Json.mkObj [
    ("frames", lJ (fun (f : FState Nat) => Json.mkObj [
        ("build", oJ nJ f.build), ("edgeT", lJ rJ f.edgeT), ("beT", lJ rJ f.beT), ("forces", optListJ f.forces),
        ("pbuild", optListJ f.pbuild), ("cellP", optListJ f.cellP)]) st.frames),
    ("storeForces", lJ optListJ st.storeForces), ("storePress", lJ optListJ st.storePress)]

def ops : List Op := [("session", opSession)]

end Forsys.Driver.Session
