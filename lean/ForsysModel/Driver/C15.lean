/-
  ForsysModel.Driver.C15 — protocol operations for the skeleton-parser model and the raster oracle (property C15).
-/
import ForsysModel.Driver.Common
open Lean Forsys Forsys.Driver Forsys.Skel

namespace Forsys.Driver.C15

def jPx (j : Json) : E Px := do
  let x ← jInt (← jIdx j 0); let y ← jInt (← jIdx j 1); pure (x, y)

def errJ : Err → Json
  | .keyError => .str "KeyError"
  | .indexError => .str "IndexError"
  | .valueError => .str "ValueError"
  | .assertionError => .str "AssertionError"
  | .shortContour => .str "shortContour"

def pairJ (p : Nat × Nat) : Json := Json.arr #[nJ p.1, nJ p.2]

/-- `create_lattice` on the contour lists; also the state after the first loop (`raw`).
    `check`: also evaluate `Mesh.Consistent` on both meshes (quadratic; the harness asks for it on small inputs) -/
def opLattice (j : Json) : E Json := do
  let cs ← jList (jList jPx) (← field j "contours")
  let mir ← jBool (← field j "mirror")
  let check ← (match j.getObjVal? "check" with | .ok b => jBool b | .error _ => pure false : E Bool)
  let cs' := if mir then mirror cs else cs
  let consJ (m : Mesh) : List (String × Json) :=
    if check then [("consistent", .bool m.Consistent), ("failing", lJ Json.str m.failing)] else []
  match precheck cs' with
  | some e => pure <| Json.mkObj [("error", errJ e), ("d16", .bool false), ("raw", .null)]
  | none =>
    -- `createLattice cs mir = cleanup (rawMesh cs')` here; the mesh of the first loop is computed once
    let m := rawMesh cs'
    let raw := Json.mkObj ([("mesh", meshJ m), ("border", lJ iJ (borderCells m)), ("external", lJ iJ (externalEdges m))]
                           ++ consJ m)
    let (res, d16) := cleanup m
    let out : List (String × Json) := match res with
      | .error e => [("error", errJ e)]
      | .ok l => [("error", .null), ("mesh", meshJ l.mesh), ("border", lJ iJ l.border), ("external", lJ iJ l.external),
                  ("bigEdges", lJ (lJ iJ) l.bigEdges), ("artifacts", lJ (lJ iJ) l.artifacts),
                  ("triangleDeleted", lJ iJ l.triangleDeleted), ("isolated", lJ iJ l.isolated),
                  ("idReused", .bool l.idReused)] ++ consJ l.mesh
    pure <| Json.mkObj (out ++ [("d16", .bool d16), ("raw", raw)])

/-- the raster oracle -/
def opRaster (j : Json) : E Json := do
  let img ← jList (jList jNat) (← field j "img")
  let rad ← jNat (← field j "rad")
  let r := Raster.analyse img rad
  let withMap ← (match j.getObjVal? "map" with | .ok b => jBool b | .error _ => pure false : E Bool)
  pure <| Json.mkObj ([("n", nJ r.n), ("sizes", lJ nJ r.sizes), ("border", lJ nJ r.border), ("adj", lJ pairJ r.adj),
    ("triples", lJ (fun (t : Nat × Nat × Nat) => Json.arr #[nJ t.1, nJ t.2.1, nJ t.2.2]) r.triples),
    ("internal", lJ pairJ r.internal), ("converged", .bool r.converged)] ++
    (if withMap then [("regionMap", lJ (lJ nJ) r.regionMap)] else []))

def ops : List Op := [("c15_lattice", opLattice), ("c15_raster", opRaster)]

end Forsys.Driver.C15
