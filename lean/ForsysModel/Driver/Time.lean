/-
  ForsysModel.Driver.Time — protocol operations for the time-series model (tracking, velocities).
-/
import ForsysModel.Driver.Common
open Lean Forsys Forsys.Driver

namespace Forsys.Driver.Time

def jTVert (j : Json) : E TVert := do
  let id ← jInt (← jIdx j 0); let x ← jRat (← jIdx j 1); let y ← jRat (← jIdx j 2)
  pure ⟨id, ⟨x, y⟩⟩

def jOptId (j : Json) : E (Option Id) :=
  match j with
  | .null => pure none
  | x => do let k ← jInt x; pure (some k)

def jStepMap (j : Json) : E StepMap :=
  jList (fun r => do let k ← jInt (← jIdx r 0); let v ← jOptId (← jIdx r 1); pure (k, v)) j

def jOptStepMap (j : Json) : E (Option StepMap) :=
  match j with
  | .null => pure none
  | x => do let m ← jStepMap x; pure (some m)

def stepMapJ (m : StepMap) : Json := lJ (fun (p : Id × Option Id) => Json.arr #[iJ p.1, oJ iJ p.2]) m

/-- create_mapping for one pair of frames -/
def opMapping (j : Json) : E Json := do
  let pool0 ← jList jTVert (← field j "pool0")
  let pool1 ← jList jTVert (← field j "pool1")
  let guess ← jStepMap (← field j "guess")
  let s0 ← jRat (← field j "s0"); let cutoff ← jRat (← field j "cutoff"); let maxDiff ← jRat (← field j "maxDiff")
  let r := createMapping s0 cutoff maxDiff pool0 pool1 guess
  pure <| Json.mkObj [("mapping", oJ stepMapJ r), ("maxcoord", rJ (maxCoord pool0 pool1))]

def jFrame (j : Json) : E TFrame := do
  let t ← jRat (← field j "time")
  let vs ← jList jTVert (← field j "verts")
  pure { time := t, verts := vs }

def velJ : VelResult → Json
  | .ok v => Json.mkObj [("ok", vecJ v)]
  | .differentTissue => Json.mkObj [("raises", .str "DifferentTissueException")]
  | .keyError => Json.mkObj [("raises", .str "KeyError")]
  | .attributeError => Json.mkObj [("raises", .str "AttributeError")]

def trackJ : Except TrackErr (Option Id) → Json
  | .ok v => Json.mkObj [("ok", oJ iJ v)]
  | .error .keyError => Json.mkObj [("raises", .str "KeyError")]
  | .error .attributeError => Json.mkObj [("raises", .str "AttributeError")]

/-- calculate_velocity / get_point_id_by_map queries against one series -/
def opSeries (j : Json) : E Json := do
  let frames ← jList jFrame (← field j "frames")
  let maps ← jList jOptStepMap (← field j "maps")
  let vq ← jList (fun r => do let p ← jInt (← jIdx r 0); let t ← jNat (← jIdx r 1); pure (p, t)) (← field j "velocities")
  let tq ← jList (fun r => do
      let p ← jInt (← jIdx r 0); let a ← jNat (← jIdx r 1); let b ← jNat (← jIdx r 2); pure (p, a, b)) (← field j "tracks")
  pure <| Json.mkObj [
    ("velocities", lJ (fun (q : Id × Nat) => velJ (calculateVelocity frames maps q.1 q.2)) vq),
    ("tracks", lJ (fun (q : Id × Nat × Nat) => trackJ (getPointIdByMap maps q.1 q.2.1 q.2.2)) tq)]

/-- right-hand side placement of set_velocity_matrix -/
def opPlace (j : Json) : E Json := do
  let n ← jNat (← field j "nrows")
  let rows ← jList (fun r => do let k ← jNat (← jIdx r 0); let v ← jVec (← jIdx r 1); pure (k, v)) (← field j "rows")
  pure <| Json.mkObj [("b", lJ rJ (placeVelocities n rows))]

def ops : List Op := [("mapping", opMapping), ("series", opSeries), ("place_velocities", opPlace)]

end Forsys.Driver.Time
