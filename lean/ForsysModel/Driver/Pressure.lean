/-
  ForsysModel.Driver.Pressure — protocol operations for the pressure step (C04).
-/
import ForsysModel.Driver.Common
open Lean Forsys Forsys.Driver

namespace Forsys.Driver.Pressure

def opCurvParts (j : Json) : E Json := do
  let pts ← jList jPt (← field j "pts")
  let c := curvParts pts
  pure <| Json.mkObj [("num", lJ rJ c.num), ("speedSq", lJ rJ c.speedSq), ("segSq", lJ rJ c.segSq)]

/-- build the pressure system from a mesh dump, the interface tensions and the total curvatures the code computed
    (the assembly itself is `Mesh.pressureSystem`, ForsysModel/Model/PressureSystem.lean) -/
def opPMatrix (j : Json) : E Json := do
  let m ← jMesh (← field j "mesh")
  let tens ← jList jRat (← field j "tension")      -- per interface (position in big_edges_list)
  let curv ← jList jRat (← field j "curv")         -- per interface
  let S := m.pressureSystem tens curv
  let L := S.lhs
  pure <| Json.mkObj [
    ("internal", lJ nJ S.internal),
    ("ownCellCounts", lJ nJ S.ownCellCounts),
    ("lhsFull", lJ (lJ rJ) L),
    ("rhs", lJ rJ S.rhs),
    ("removed", lJ nJ S.removed),
    ("lhs", lJ (lJ rJ) (dropColumns L S.removed)),
    ("mappingOrder", lJ iJ (m.cells.map (·.1)))]

/-- certificate for the constrained least-squares solution (the code does not expose the multiplier):
    gradient `Lᵀ(Lp − r)` constant over the components, zero sum -/
def opPressureCert (j : Json) : E Json := do
  let L ← jList (jList jRat) (← field j "L")
  let r ← jList jRat (← field j "r")
  let p ← jList jRat (← field j "p")
  let g := grad L r p
  let mx := g.foldl (fun a v => if a < v then v else a) (g.headD 0)
  let mn := g.foldl (fun a v => if v < a then v else a) (g.headD 0)
  pure <| Json.mkObj [("shaped", .bool (shapedB L r L.length p.length)), ("gradMax", rJ mx), ("gradMin", rJ mn),
                      ("sum", rJ p.sum), ("residSq", rJ (residSq L r p))]

def opReinsert (j : Json) : E Json := do
  let n ← jNat (← field j "n")
  let removed ← jList jNat (← field j "removed")
  let sol ← jList jRat (← field j "sol")
  pure <| Json.mkObj [("res", lJ rJ (reinsertZeros n removed sol))]

def ops : List Op := [("curv_parts", opCurvParts), ("pmatrix", opPMatrix), ("pressure_cert", opPressureCert), ("reinsert", opReinsert)]

end Forsys.Driver.Pressure
