/-
  ForsysModel.Driver.Core — protocol operations for the core models
  (geometry, mesh consistency, frames/big edges, resampling, force matrix).
-/
import ForsysModel.Driver.Common
open Lean Forsys Forsys.Driver

namespace Forsys.Driver.Core

/-! operations -/

def opCellGeom (j : Json) : E Json := do
  let ps ← jList jPt (← field j "pts")
  let n := ps.length
  pure <| Json.mkObj [
    ("area", rJ (area ps)), ("sign", iJ (areaSign ps)),
    ("next", lJ nJ ((List.range n).map (nextIdx ps))),
    ("prev", lJ nJ ((List.range n).map (prevIdx ps))),
    ("perimSq", lJ rJ (perimeterSq ps)),
    ("cm", ptJ (cm ps)),
    ("shoelace2", rJ (shoelace2 ps))]

def opConsistent (j : Json) : E Json := do
  let m ← jMesh (← field j "mesh")
  pure <| Json.mkObj [("ok", .bool m.Consistent), ("failing", lJ Json.str m.failing)]

def opFrame (j : Json) : E Json := do
  let m ← jMesh (← field j "mesh")
  let earr := m.bigEdgesList
  pure <| Json.mkObj [
    ("earr", lJ (lJ iJ) earr),
    ("perCell", lJ (fun (p : Id × Cell) => Json.arr #[iJ p.1, lJ (lJ iJ) (cellPaths m.isJunction p.2.verts)]) m.cells),
    ("externalIds", lJ nJ (m.externalEdgesId earr)),
    ("internalIdx", lJ nJ (m.internalIdx earr)),
    ("extFlags", lJ (fun e => Json.bool (m.bigEdgeExternal e)) earr),
    ("tensionRows", lJ nJ (m.tensionRows earr)),
    ("beEdges", lJ (fun e => lJ (oJ iJ) (m.bigEdgeEdges e)) earr),
    ("beOwnCells", lJ (fun e => lJ iJ (m.bigEdgeOwnCells e)) earr),
    ("neighbors", lJ (fun (p : Id × Cell) => Json.arr #[iJ p.1, lJ iJ (m.neighbors p.2)]) m.cells),
    ("consistent", .bool m.Consistent)]

def opByCells (j : Json) : E Json := do
  let m ← jMesh (← field j "mesh")
  let pairs ← jList (fun r => do let a ← jInt (← jIdx r 0); let b ← jInt (← jIdx r 1); pure (a, b)) (← field j "pairs")
  let earr := m.bigEdgesList
  pure <| Json.mkObj [("res", lJ (fun (p : Id × Id) => lJ nJ (m.bigEdgeByCells earr p.1 p.2)) pairs)]

def opGenMesh (j : Json) : E Json := do
  let m ← jMesh (← field j "mesh")
  let ne ← jNat (← field j "ne")
  let rep ← jBool (← field j "replace")
  let r := m.generateMesh ne rep
  let err : Json := match r.error with
    | none => .null
    | some .keyError => .str "KeyError"
    | some .indexError => .str "IndexError"
  pure <| Json.mkObj [("mesh", meshJ r.mesh), ("nEdgeArray", lJ (lJ iJ) r.nEdgeArray), ("error", err),
                      ("consistent", .bool r.mesh.Consistent), ("failing", lJ Json.str r.mesh.failing)]

def opPick (j : Json) : E Json := do
  let ne ← jNat (← field j "ne")
  let e ← jList jInt (← field j "e")
  pure <| Json.mkObj [("res", lJ iJ (pick ne e))]

def opFMatrix (j : Json) : E Json := do
  let m ← jMesh (← field j "mesh")
  let centers ← jList jPt (← field j "centers")
  let cosj ← field j "cos"
  let cos ← (match cosj with | .null => pure none | x => do let q ← jRat x; pure (some q) : E (Option Rat))
  let ig ← jBool (← field j "ignoreFour")
  let out := ({ mesh := m, centers := centers, cosLimit := cos, ignoreFour := ig } : FMInput).build
  pure <| Json.mkObj [
    ("earr", lJ (lJ iJ) out.earr), ("deletes", lJ iJ out.deletes), ("used", lJ (lJ iJ) out.used),
    ("rows", lJ (fun (r : Id × Bool × List (Option Vec)) =>
        Json.arr #[iJ r.1, .bool r.2.1, lJ (oJ vecJ) r.2.2]) out.rows)]

def opRealign (j : Json) : E Json := do
  let internal ← jList (jList jInt) (← field j "internal")
  let del ← jList jInt (← field j "deletes")
  let x ← jList jRat (← field j "x")
  pure <| Json.mkObj [("res", lJ rJ (realign internal del x))]


def opOfLists (j : Json) : E Json := do
  let vs ← jList (fun r => do
      let k ← jInt (← jIdx r 0); let x ← jRat (← jIdx r 1); let y ← jRat (← jIdx r 2); pure (k, x, y)) (← field j "v")
  let es ← jList (fun r => do
      let k ← jInt (← jIdx r 0); let a ← jInt (← jIdx r 1); let b ← jInt (← jIdx r 2); pure (k, a, b)) (← field j "e")
  let cs ← jList (fun r => do
      let k ← jInt (← jIdx r 0); let vs ← jList jInt (← jIdx r 1); pure (k, vs)) (← field j "c")
  let m := Mesh.ofLists vs es cs
  let m := if (← jBool (← field j "orphans")) then m.orphanRemoval else m
  pure <| Json.mkObj [("mesh", meshJ m), ("consistent", .bool m.Consistent), ("failing", lJ Json.str m.failing)]

def jMat (j : Json) : E Mat := jList (jList jRat) j

/-- certificate evaluation in exact arithmetic on the floats the real solver returned -/
def opKkt (j : Json) : E Json := do
  let M ← jMat (← field j "M")
  let b ← jList jRat (← field j "b")
  let z ← jList jRat (← field j "z")
  let eps ← jRat (← field j "eps")
  let delta ← jRat (← field j "delta")
  let w := grad M b z
  let res := vsub (mulVec M z) b
  let minW := w.foldl (fun a v => if v < a then v else a) 0
  let maxAbsW := w.foldl (fun a v => if ratAbs' v > a then ratAbs' v else a) 0
  let maxAbsRes := res.foldl (fun a v => if ratAbs' v > a then ratAbs' v else a) 0
  pure <| Json.mkObj [
    ("shaped", .bool (shapedB M b M.length z.length)),
    ("kkt", .bool (kktCheck M b z eps delta)),
    ("stationary", .bool (statCheck M b z eps)),
    ("solves", .bool (solveCheck M b z eps)),
    ("minW", rJ minW), ("maxAbsW", rJ maxAbsW), ("zw", rJ (dot z w)), ("maxAbsRes", rJ maxAbsRes),
    ("residSq", rJ (residSq M b z)),
    ("minZ", rJ (z.foldl (fun a v => if v < a then v else a) 0))]

def opAddMeanOne (j : Json) : E Json := do
  let A ← jMat (← field j "A")
  let b ← jList jRat (← field j "b")
  let r := addMeanOne A b
  pure <| Json.mkObj [("M", lJ (lJ rJ) r.1), ("b", lJ rJ r.2)]

def ops : List Op := [
  ("kkt", opKkt), ("add_mean_one", opAddMeanOne),
  ("of_lists", opOfLists),
  ("cell_geom", opCellGeom), ("consistent", opConsistent), ("frame", opFrame), ("by_cells", opByCells),
  ("genmesh", opGenMesh), ("pick", opPick), ("fmatrix", opFMatrix), ("realign", opRealign)]

end Forsys.Driver.Core
