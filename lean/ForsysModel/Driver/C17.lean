/-
  ForsysModel.Driver.C17 — protocol operations for the myosin model (property C17).

  op "myosin":
    request  {"img": [[v, …] …]            rows of pixel values (rationals), img[y][x] = getpixel((x, y))
              "ifaces": [[oid, [[x, y] …], len] …]   the list handed to get_intensities, in order
              "prm": [rx, ry, ox, oy, layers], "integrate": bool, "normalize": "average" | anything else}
    response {"items": [[key, value] …]      the returned dictionary in insertion order
              "gt": [[oid, value | null] …]  BigEdge.gt after the call for every distinct object, first-occurrence order
              "segSq": [[q …] …]             squared segment lengths of every interface's polyline
              "band": [[positions, pixels] …]  size of the band and number of distinct pixels it is read from (integrate only)
              "outside": n}                  number of read positions that are outside the image (must be 0)
-/
import ForsysModel.Driver.Common
import ForsysModel.Model.Myosin
open Lean Forsys Forsys.Driver Forsys.Myosin

namespace Forsys.Driver.C17

def jIface (j : Json) : E Iface := do
  let oid ← jNat (← jIdx j 0)
  let vs ← jList jPt (← jIdx j 1)
  let len ← jRat (← jIdx j 2)
  pure ⟨oid, vs, len⟩

def jParams (j : Json) : E Params := do
  let rx ← jRat (← jIdx j 0); let ry ← jRat (← jIdx j 1)
  let ox ← jRat (← jIdx j 2); let oy ← jRat (← jIdx j 3)
  let layers ← jNat (← jIdx j 4)
  pure { rx := rx, ry := ry, ox := ox, oy := oy, layers := layers }

def dedupNat (l : List Nat) : List Nat := l.foldl (fun acc a => if acc.contains a then acc else acc ++ [a]) []

def opMyosin (j : Json) : E Json := do
  let rows ← jList (jList jRat) (← field j "img")
  let img : Image := ⟨rows⟩
  let ifs ← jList jIface (← field j "ifaces")
  let prm ← jParams (← field j "prm")
  let integrate ← jBool (← field j "integrate")
  let norm : Norm := match (← field j "normalize") with
    | .str "average" => .average
    | _ => .none
  let items := getIntensities img prm integrate norm ifs
  let writes := gtWritesOf items ifs   -- `gtAfter … o` is `lastWrite (gtWritesOf (getIntensities …) ifs) o`
  let oids := dedupNat (ifs.map (·.oid))
  let bands := if integrate then ifs.map fun f => band prm f.verts else []
  let reads : List Pt :=
    if integrate then bands.flatten
    else ifs.flatMap fun f => f.verts.flatMap fun v => getLayerElements (place prm v) prm.layers
  pure <| Json.mkObj [
    ("items", lJ (fun (p : Nat × Rat) => Json.arr #[nJ p.1, rJ p.2]) items),
    ("gt", lJ (fun o => Json.arr #[nJ o, oJ rJ (lastWrite writes o)]) oids),
    ("segSq", lJ (fun (f : Iface) => lJ rJ (segSq prm f.verts)) ifs),
    ("band", lJ (fun (b : List Pt) => Json.arr #[nJ b.length, nJ ((b.map pixelOf).eraseDups.length)]) bands),
    ("outside", nJ ((reads.filter fun p => !img.inside p).length))]

/-- op "median": {"lists": [[q …] …]} ↦ {"res": [median …]} -/
def opMedian (j : Json) : E Json := do
  let ls ← jList (jList jRat) (← field j "lists")
  pure <| Json.mkObj [("res", lJ rJ (ls.map median))]

def ops : List Op := [("myosin", opMyosin), ("median", opMedian)]

end Forsys.Driver.C17
