/-
  ForsysModel.Driver.C18 — protocol operations for the stress-tensor model (property C18).
-/
import ForsysModel.Driver.Common
open Lean Forsys Forsys.Driver

namespace Forsys.Driver.C18

def matJ (m : Mat2) : Json := lJ rJ [m.xx, m.xy, m.yx, m.yy]

def jCellRow (r : Json) : E CellRow := do
  let id ← jInt (← jIdx r 0)
  let x ← jRat (← jIdx r 1); let y ← jRat (← jIdx r 2)
  let a ← jRat (← jIdx r 3); let p ← jRat (← jIdx r 4)
  pure { id := id, xcm := x, ycm := y, area := a, pressure := p }

def jEdgeRow (r : Json) : E EdgeRow := do
  let t ← jRat (← jIdx r 0)
  let vx ← jRat (← jIdx r 1); let vy ← jRat (← jIdx r 2); let n ← jRat (← jIdx r 3)
  let c1 ← jInt (← jIdx r 4); let c2 ← jInt (← jIdx r 5)
  pure { stress := t, vx := vx, vy := vy, norm := n, cell1 := c1, cell2 := c2 }

/-- `{"op":"st_edges","edges":[{"ids":[..],"pts":[[x,y]..],"c":[xc,yc],"own":[..]}..]}`:
    per interface the orientation, the chosen vertex, the vector column entry, the vectors from both ends
    (for interfaces whose float orientation is rounding noise), and the cell pair. -/
def opEdges (j : Json) : E Json := do
  let es ← jList (fun e => do
      let ids ← jList jInt (← field e "ids")
      let pts ← jList jPt (← field e "pts")
      let c ← jPt (← field e "c")
      let own ← jList jInt (← field e "own")
      pure (ids, pts, c, own)) (← field j "edges")
  pure <| Json.mkObj [("edges", lJ (fun (e : List Id × List Pt × Pt × List Id) =>
    let (ids, pts, c, own) := e
    Json.mkObj [
      ("orientation", rJ (beOrientation pts)),
      ("vid", oJ iJ (beVid ids pts)),
      ("vector", oJ vecJ (beVector ids pts c)),
      ("fromFirst", oJ vecJ (ids.head?.bind (beVectorFrom ids pts c))),
      ("fromLast", oJ vecJ (ids.getLast?.bind (beVectorFrom ids pts c))),
      ("cells", oJ (fun (p : Id × Id) => lJ iJ [p.1, p.2]) (beCellPair own))]) es)]

/-- `{"op":"stress_tensor","cells":[[id,xcm,ycm,area,p]..],"edges":[[T,vx,vy,norm,c1,c2]..],
     "xbins":[..],"ybins":[..],"md2":q,"grid":n}` -/
def opStress (j : Json) : E Json := do
  let cells ← jList jCellRow (← field j "cells")
  let edges ← jList jEdgeRow (← field j "edges")
  let xb ← jList jRat (← field j "xbins")
  let yb ← jList jRat (← field j "ybins")
  let md2 ← jRat (← field j "md2")
  let grid ← jNat (← field j "grid")
  let r := stressTensor cells edges xb yb md2 grid
  let loop := stressLoop cells edges xb yb md2 grid
  pure <| Json.mkObj [
    ("sigmas", lJ (fun (e : List Char × Mat2) => Json.arr #[.str (String.ofList e.1), matJ e.2]) r.sigmas),
    ("loop", lJ (fun (t : (Nat × Nat) × Mat2) =>
        let c := gridCenter xb yb t.1.1 t.1.2
        let sel := selectCells cells c md2
        Json.arr #[nJ t.1.1, nJ t.1.2, .str (stKey t.1.1 t.1.2), matJ t.2, ptJ c, lJ iJ (sel.map (·.id)),
                   rJ (totalArea sel)]) loop),
    ("xCenters", lJ rJ r.xCenters), ("yCenters", lJ rJ r.yCenters),
    ("principal", lJ (fun (t : (Rat × Rat) × Option Mat2) => Json.arr #[rJ t.1.1, rJ t.1.2, oJ matJ t.2])
        (principalInputs r))]

/-- `{"op":"bin_edges","lo":q,"hi":q,"grid":n}` -/
def opBinEdges (j : Json) : E Json := do
  let lo ← jRat (← field j "lo")
  let hi ← jRat (← field j "hi")
  let grid ← jNat (← field j "grid")
  let b := binEdges lo hi grid
  pure <| Json.mkObj [("edges", lJ rJ b), ("centers", lJ rJ (binCenters b))]

/-- `{"op":"st_key","pairs":[[row,col]..]}` -/
def opKey (j : Json) : E Json := do
  let ps ← jList (fun r => do let a ← jNat (← jIdx r 0); let b ← jNat (← jIdx r 1); pure (a, b)) (← field j "pairs")
  pure <| Json.mkObj [("keys", lJ (fun (p : Nat × Nat) => Json.str (stKey p.1 p.2)) ps)]

def ops : List Op := [
  ("st_edges", opEdges), ("stress_tensor", opStress), ("bin_edges", opBinEdges), ("st_key", opKey)]

end Forsys.Driver.C18
