/-
  ForsysModel.Driver.C14 — protocol operations of the Surface Evolver parser model.

  A dump travels as `"lines": [[mark, tok, tok, …], …]` with `mark` 0 (no marker) or 1..5
  (vertices, edges, faces, bodies, read) and a token as one of
    k                       canonical decimal integer token (`int`, `float` = k, digits = |k|)
    [rat, digits]           a decimal literal (not an int): exact value, first digit run
    [flags, digits|null, 0] a token that is neither: flags 1 = "density", 2 = "\\", 4 = contains "*/"
    [int|null, rat|null, flags, digits|null]   the general form
-/
import ForsysModel.Driver.Common
import ForsysModel.Model.SEParser
open Lean Forsys Forsys.Driver Forsys.SE

namespace Forsys.Driver.C14

def optJ {α : Type} (f : Json → E α) (j : Json) : E (Option α) :=
  match j with
  | .null => pure none
  | x => do let a ← f x; pure (some a)

def tokOfFlags (fl : Nat) : Tok := { density := fl % 2 == 1, bslash := (fl / 2) % 2 == 1, close := (fl / 4) % 2 == 1 }

def jTok (j : Json) : E Tok :=
  match j with
  | .num _ => do let k ← j.getInt?; pure (Tok.ofInt k)
  | .arr a =>
    if a.size == 2 then do
      let q ← jRat a[0]!; let d ← optJ jNat a[1]!
      pure { num? := some q, digits? := d }
    else if a.size == 3 then do
      let fl ← jNat a[0]!; let d ← optJ jNat a[1]!
      pure { tokOfFlags fl with digits? := d }
    else if a.size == 4 then do
      let i ← optJ jInt a[0]!; let q ← optJ jRat a[1]!; let fl ← jNat a[2]!; let d ← optJ jNat a[3]!
      pure { tokOfFlags fl with int? := i, num? := q, digits? := d }
    else throw "bad token"
  | _ => throw "bad token"

def markOfNat : Nat → Option Marker
  | 1 => some .vertices | 2 => some .edges | 3 => some .faces | 4 => some .bodies | 5 => some .read
  | _ => none

def jLine (j : Json) : E Line := do
  let a ← j.getArr?
  match a.toList with
  | [] => throw "bad line"
  | m :: ts => do
    let mk ← jNat m
    let toks ← ts.mapM jTok
    pure { mark := markOfNat mk, toks := toks }

def errJ : Err → Json
  | .stopIteration => .str "StopIteration"
  | .indexError => .str "IndexError"
  | .valueError => .str "ValueError"
  | .attributeError => .str "AttributeError"
  | .keyError => .str "KeyError"
  | .assertionError => .str "AssertionError"
  | .typeError => .str "TypeError"

def pairJ (p : Nat × Nat) : Json := lJ nJ [p.1, p.2]

def opParse (j : Json) : E Json := do
  let ls ← jList jLine (← field j "lines")
  let idx : Json := match indices ls with
    | .ok i => lJ pairJ [i.v, i.e, i.f, i.p]
    | .error e => errJ e
  match buildLattice ls with
  | .ok pre =>
    let p := removeOrphans pre
    let m := p.mesh
    pure <| Json.mkObj [
      ("idx", idx),
      ("pre", lJ nJ [pre.mesh.vertices.length, pre.mesh.edges.length, pre.mesh.cells.length]),
      ("v", lJ (fun (q : Id × Vertex) => Json.arr #[iJ q.1, rJ q.2.x, rJ q.2.y, lJ iJ q.2.ownEdges, lJ iJ q.2.ownCells]) m.vertices),
      ("e", lJ (fun (q : Id × SEdge) => Json.arr #[iJ q.1, iJ q.2.v1, iJ q.2.v2, oJ rJ (alGet? q.1 p.edgeGt)]) m.edges),
      ("c", lJ (fun (q : Id × Cell) => Json.arr #[iJ q.1, lJ iJ q.2.verts, oJ rJ (alGet? q.1 p.cellGt)]) m.cells),
      ("consistent", .bool m.Consistent), ("failing", lJ Json.str m.failing),
      ("gt", lJ (fun (r : List Id × Option Rat) => Json.arr #[lJ iJ r.1, oJ rJ r.2]) (frameGt p))]
  | .error e => pure <| Json.mkObj [("idx", idx), ("raises", errJ e)]

/-- the face-line automaton alone -/
def opFaces (j : Json) : E Json := do
  let ls ← jList jLine (← field j "lines")
  match parseFaces (ls.map (·.toks)) with
  | .ok s => pure <| Json.mkObj [("ids", lJ (fun (t : Tok) => oJ iJ t.int?) s.ids), ("edges", lJ (lJ iJ) s.edges),
                                 ("open", .bool (!s.first))]
  | .error e => pure <| Json.mkObj [("raises", errJ e)]

/-- `round(x, n)` on exact decimals: `"xs": [[rat, n], …]` -/
def opRound (j : Json) : E Json := do
  let xs ← jList (fun r => do let q ← jRat (← jIdx r 0); let n ← jNat (← jIdx r 1); pure (q, n)) (← field j "xs")
  pure <| Json.mkObj [("res", lJ (fun (p : Rat × Nat) => rJ (roundDec p.1 p.2)) xs)]

def ops : List Op := [("se_parse", opParse), ("se_faces", opFaces), ("se_round", opRound)]

end Forsys.Driver.C14
