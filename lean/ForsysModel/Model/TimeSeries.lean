/-
  ForsysModel.Model.TimeSeries — model of forsys/time_series.py:
    TimeSeries.create_mapping / find_best (vertex tracking between consecutive frames),
    get_point_id_by_map (composition of the per-step maps), calculate_velocity.

  Coordinates are the exact rationals of the floats the code sees at call time (after the optional
  centre-of-mass shift, which is float arithmetic done by the code and replayed by the harness).
  Comparisons `d² < r²` are decided exactly; the harness rejects inputs within 1e-9 of a threshold.
-/
import ForsysModel.Model.Basic
import ForsysModel.Model.Tangent
namespace Forsys

structure TVert where
  id : Id
  p : Pt
deriving Repr, Inhabited

/-- a Python dict `{vertex id : vertex id or None}` in insertion order -/
abbrev StepMap := List (Id × Option Id)

def StepMap.get? (m : StepMap) (k : Id) : Option (Option Id) := alGet? k m
def StepMap.hasKey (m : StepMap) (k : Id) : Bool := (alGet? k m).isSome
def StepMap.values (m : StepMap) : List (Option Id) := m.map (·.2)
/-- `mapping[k] = v` -/
def StepMap.set (m : StepMap) (k : Id) (v : Option Id) : StepMap :=
  if m.hasKey k then m.map fun p => if p.1 = k then (k, v) else p else m ++ [(k, v)]

/-- `spread = 0.005; while spread < cutoff: …; spread += spread` — the radii factors tried, in order -/
def spreads (s0 cutoff : Rat) : Nat → List Rat
  | 0 => []
  | fuel + 1 => if s0 < cutoff ∧ 0 < s0 then s0 :: spreads (s0 + s0) cutoff fuel else []

/-- pool vertices not yet taken whose squared distance to `v0` is below `ms²` -/
def within (v0 : Pt) (ms : Rat) (found : List (Option Id)) (pool : List TVert) : List TVert :=
  pool.filter fun v1 => !(found.contains (some v1.id)) && decide (distSq v1.p v0 < ms * ms)

/-- first loop of `find_best`: grow the radius while at most one candidate has been collected.
    Returns (candidates, the spreads not yet consumed, the last `maxspread`). -/
def loopObverse (maxcoord : Rat) (v0 : Pt) (found : List (Option Id)) (pool : List TVert) :
    List Rat → List TVert → Rat → List TVert × List Rat × Rat
  | [], c, ms => (c, [], ms)
  | s :: rest, c, ms =>
    if c.length ≤ 1 then
      let ms' := s * maxcoord
      loopObverse maxcoord v0 found pool rest (c ++ within v0 ms' found pool) ms'
    else (c, s :: rest, ms)

/-- second loop: the pool is walked in reverse with the *stale* radius of the first loop -/
def loopInverse (v0 : Pt) (found : List (Option Id)) (pool : List TVert) (ms : Rat) :
    List Rat → List TVert → List TVert
  | [], c => c
  | _ :: rest, c =>
    if c.length ≤ 1 then loopInverse v0 found pool ms rest (c ++ within v0 ms found pool.reverse) else c

/-- first element with minimal squared distance (`distances.index(min(distances))`) -/
def nearest (v0 : Pt) : List TVert → Option TVert
  | [] => none
  | c :: cs =>
    match nearest v0 cs with
    | none => some c
    | some b => if distSq b.p v0 < distSq c.p v0 then some b else some c

/-- `find_best(v0, pool, found)` -/
def findBest (s0 cutoff maxcoord : Rat) (v0 : Pt) (pool : List TVert) (found : List (Option Id)) : Option TVert :=
  let r := loopObverse maxcoord v0 found pool (spreads s0 cutoff 64) [] 0
  let inv := loopInverse v0 found pool r.2.2 r.2.1 []
  nearest v0 (inv ++ r.1)

/-- the loop `for v0 in rvertices0.values(): if v0.id not in mapping: mapping[v0.id] = find_best(...).id or None` -/
def assignAll (s0 cutoff maxcoord : Rat) (pool1 : List TVert) : List TVert → StepMap → StepMap
  | [], m => m
  | v0 :: rest, m =>
    if m.hasKey v0.id then assignAll s0 cutoff maxcoord pool1 rest m
    else
      let best := findBest s0 cutoff maxcoord v0.p pool1 m.values
      assignAll s0 cutoff maxcoord pool1 rest (m.set v0.id (best.map (·.id)))

def listMax (l : List Rat) : Rat := l.foldl (fun a b => if a < b then b else a) (l.headD 0)
def listMin (l : List Rat) : Rat := l.foldl (fun a b => if b < a then b else a) (l.headD 0)

/-- `self.maxcoord` -/
def maxCoord (pool0 pool1 : List TVert) : Rat :=
  let xs := (pool0 ++ pool1).map (·.p.x)
  let ys := (pool0 ++ pool1).map (·.p.y)
  let dx := listMax xs - listMin xs
  let dy := listMax ys - listMin ys
  if dx < dy then dy else dx

/-- the bounding-box shape test: `sqrt((xshape1-xshape0)² + (yshape1-yshape0)²) > maxDifference * maxcoord`
    (decided on squares; both sides are non-negative) -/
def tooDifferent (maxDiff : Rat) (pool0 pool1 : List TVert) : Bool :=
  let sx (p : List TVert) := listMax (p.map (·.p.x)) - listMin (p.map (·.p.x))
  let sy (p : List TVert) := listMax (p.map (·.p.y)) - listMin (p.map (·.p.y))
  let d2 := (sx pool1 - sx pool0) * (sx pool1 - sx pool0) + (sy pool1 - sy pool0) * (sy pool1 - sy pool0)
  let t := maxDiff * maxCoord pool0 pool1
  decide (t * t < d2)

/-- `create_mapping(t0, t1, initial_guess)`; `none` = DifferentTissueException (the caller stores `None`).
    `pool0`/`pool1`: interface end points of the two frames in the order of the vertices dictionaries. -/
def createMapping (s0 cutoff maxDiff : Rat) (pool0 pool1 : List TVert) (guess : StepMap) : Option StepMap :=
  if !pool0.isEmpty && tooDifferent maxDiff pool0 pool1 then none
  else some (assignAll s0 cutoff (maxCoord pool0 pool1) pool1 pool0 guess)

/-! ### composition of the per-step maps -/

inductive TrackErr where
  | keyError        -- `tempMapping[point]` with an unknown key
  | attributeError  -- `None.items()` when inverting a missing step map
deriving Repr, DecidableEq

/-- `{v: k for k, v in mapping.items()}`: later keys win -/
def invertMap (m : StepMap) : List (Option Id × Id) :=
  m.foldl (fun acc p => (acc.filter fun q => q.1 != p.2) ++ [(p.2, p.1)]) []

def lookupOpt (k : Option Id) : List (Option Id × Id) → Option Id
  | [] => none
  | (k', v) :: l => if k = k' then some v else lookupOpt k l

/-- forward walk `for ii in range(t0, t1)` -/
def walkForward (maps : List (Option StepMap)) : Nat → Nat → Option Id → Except TrackErr (Option Id)
  | _, 0, pt => .ok pt
  | t, n + 1, pt =>
    match pt, (maps.getD t none) with
    | none, _ => .ok none
    | _, none => .ok pt
    | some p, some m =>
      match m.get? p with
      | none => .error .keyError
      | some v => walkForward maps (t + 1) n v

/-- backward walk `for ii in arange(t1, t0)[::-1]` (steps t0-1, t0-2, …, t1), each step map inverted -/
def walkBackward (maps : List (Option StepMap)) : Nat → Nat → Option Id → Except TrackErr (Option Id)
  | _, 0, pt => .ok pt
  | t, n + 1, pt =>
    -- step index is t - 1
    match maps.getD (t - 1) none with
    | none => .error .attributeError
    | some m =>
      match pt with
      | none => .ok none
      | some p =>
        match lookupOpt (some p) (invertMap m) with
        | none => .error .keyError
        | some k => walkBackward maps (t - 1) n (some k)

/-- `get_point_id_by_map(point, initial_time, final_time)` -/
def getPointIdByMap (maps : List (Option StepMap)) (point : Id) (t0 t1 : Nat) : Except TrackErr (Option Id) :=
  if t0 < t1 then walkForward maps t0 (t1 - t0) (some point) else walkBackward maps t0 (t0 - t1) (some point)

/-! ### velocities -/

structure TFrame where
  time : Rat
  verts : List TVert     -- the whole vertices dictionary
deriving Repr, Inhabited

def TFrame.pos? (f : TFrame) (k : Id) : Option Pt := (f.verts.find? fun v => v.id == k).map (·.p)

inductive VelResult where
  | ok (v : Vec)
  | differentTissue     -- DifferentTissueException
  | keyError            -- the vertex itself is unknown
  | attributeError
deriving Repr

/-- `calculate_velocity(point, initial_time)` -/
def calculateVelocity (frames : List TFrame) (maps : List (Option StepMap)) (point : Id) (t : Nat) : VelResult :=
  match frames[t]? with
  | none => .keyError
  | some f0 =>
    match f0.pos? point with
    | none => .keyError
    | some p0 =>
      let last := frames.length - 1
      let tt1 := if t = last then t - 1 else t + 1
      let stepIdx := if t = last then t - 1 else t
      if (maps.getD stepIdx none).isNone then .differentTissue
      else
        match frames[tt1]? with
        | none => .keyError
        | some f1 =>
          match getPointIdByMap maps point t tt1 with
          | .error .attributeError => .attributeError
          | .error .keyError => .ok ⟨0, 0⟩          -- `except KeyError`: fictitious vertex at the same place
          | .ok none => .ok ⟨0, 0⟩                  -- `vertices[None]` raises KeyError as well
          | .ok (some q) =>
            match f1.pos? q with
            | none => .ok ⟨0, 0⟩
            | some p1 =>
              let dt := f1.time - f0.time
              .ok ⟨(p1.x - p0.x) / dt, (p1.y - p0.y) / dt⟩

end Forsys
