/-
  ForsysModel.Model.FMatrix — model of forsys/fmatrix.py (matrix assembly part):
    ForceMatrix.__post_init__ (externals_to_use = 'none'), get_angle_limited_edges, _build_matrix,
    get_vertex_equation, virtual_edges.eid_from_vertex, get_solution_no_discarded,
    get_new_initial_condition, add_mean_one, set_velocity_matrix (row placement).

  A matrix entry pair (x-row, y-row) at a column is kept as the *un-normalised* tangent vector
  (`none` = the untouched zeros of `np.zeros`); the coefficient the code stores is `v / ‖v‖`.
-/
import ForsysModel.Model.BigEdges
import ForsysModel.Model.Tangent
namespace Forsys

/-- decides `a·b / (‖a‖‖b‖) ≤ c` without square roots (`a, b ≠ 0`). -/
def cosLe (a b : Vec) (c : Rat) : Bool :=
  let d := Vec.dot a b
  let n := a.normSq * b.normSq
  if 0 ≤ c then decide (d ≤ 0) || decide (d * d ≤ c * c * n)
  else decide (d ≤ 0) && decide (c * c * n ≤ d * d)

def allPairs {α : Type} : List α → List (α × α)
  | [] => []
  | a :: l => l.map (fun b => (a, b)) ++ allPairs l

/-- `eid_from_vertex(earr, vbel)`: first position `j` with `list(earr[j]) == list(vbel)` — the interface itself,
    same vertices in the same direction; `none` = `raise BigEdgesBadlyCreated`.
    (Before the repair of finding D29: first position sharing at least two ids with `vbel`.) -/
def eidFromVertex (earr : List (List Id)) (vbel : List Id) : Option Nat :=
  (List.range earr.length).find? fun j => earr.getD j [] == vbel

structure FMInput where
  mesh : Mesh
  /-- fitted circle centre of every interface, aligned with `bigEdgesList` -/
  centers : List Pt
  /-- `cos(angle_limit)`; `none` for `np.inf` (nothing can reach the limit) -/
  cosLimit : Option Rat
  ignoreFour : Bool

namespace FMInput

def earr (inp : FMInput) : List (List Id) := inp.mesh.bigEdgesList

/-- `big_edge.get_vector_from_vertex(vid)` for interface number `i` -/
def vecAt (inp : FMInput) (earr : List (List Id)) (i : Nat) (vid : Id) : Option Vec :=
  let ids := earr.getD i []
  vectorFromVertex ids (ids.map inp.mesh.pt) (inp.centers.getD i default) vid

/-- does some pair of interface directions at `vid` open by at least the limit? -/
def exceeds (inp : FMInput) (earr : List (List Id)) (vid : Id) : Bool :=
  match inp.cosLimit with
  | none => false
  | some c =>
    let vs := (Mesh.ownBigEdges earr vid).filterMap fun i => inp.vecAt earr i vid
    (allPairs vs).any fun (a, b) => cosLe a b c

def endsOf (es : List (List Id)) : List Id :=
  (es.map fun e => e.head?.toList ++ e.getLast?.toList).flatten.eraseDups

/-- `self.deletes` after `get_angle_limited_edges` -/
def deletes (inp : FMInput) (earr : List (List Id)) : List Id :=
  let internal := (inp.mesh.internalIdx earr).map fun i => earr.getD i []
  (endsOf internal).filter fun v => inp.exceeds earr v

def bothDeleted (del : List Id) (e : List Id) : Bool :=
  match e.head?, e.getLast? with
  | some a, some b => del.contains a && del.contains b
  | _, _ => false

/-- `self.big_edges_to_use` (vertex-id lists, order of `internal_big_edges_vertices`) -/
def used (inp : FMInput) (earr : List (List Id)) : List (List Id) :=
  let internal := (inp.mesh.internalIdx earr).map fun i => earr.getD i []
  let del := inp.deletes earr
  internal.filter fun e => !(bothDeleted del e)

def setAt {α : Type} (l : List α) (i : Nat) (a : α) : List α :=
  (List.zip (List.range l.length) l).map fun (j, b) => if j = i then a else b

/-- `get_vertex_equation(vid)`: one optional vector per used interface -/
def vertexEquation (inp : FMInput) (earr used : List (List Id)) (vid : Id) : List (Option Vec) :=
  let start : List (Option Vec) := used.map fun _ => none
  (Mesh.ownBigEdges earr vid).foldl (fun row i =>
    let e := earr.getD i []
    if !(inp.mesh.bigEdgeExternal e) && decide ((inp.mesh.ownCells vid).length > 2) then
      match eidFromVertex used e with
      | some pos => setAt row pos (inp.vecAt earr i vid)
      | none => row
    else row) start

def nonZeroX (row : List (Option Vec)) : Nat :=
  (row.filter fun o => match o with | some v => v.x != 0 | none => false).length
def nonZeroY (row : List (Option Vec)) : Nat :=
  (row.filter fun o => match o with | some v => v.y != 0 | none => false).length

def placed (row : List (Option Vec)) : Nat :=
  (row.filter fun o => match o with | some v => v.x != 0 || v.y != 0 | none => false).length

/-- the row filter of `_build_matrix` (after the repair of finding D8):
    `non_zero_x = non_zero_y = np.count_nonzero((row_x != 0) | (row_y != 0))` -/
def keepRow (ignoreFour : Bool) (row : List (Option Vec)) : Bool :=
  let n := placed row
  decide (n ≥ 3) && (!ignoreFour || decide (n < 4))

/-- the row filter of the pinned upstream code (per-row non-zero counts), kept to state finding D8 -/
def keepRowUpstream (ignoreFour : Bool) (row : List (Option Vec)) : Bool :=
  let nx := nonZeroX row
  let ny := nonZeroY row
  (decide (nx ≥ 3) || decide (ny ≥ 3)) && (!ignoreFour || (decide (nx < 4) && decide (ny < 4)))

structure FMOutput where
  earr : List (List Id)
  deletes : List Id
  used : List (List Id)
  /-- every candidate junction (end of a used interface) with its row and whether it is kept -/
  rows : List (Id × Bool × List (Option Vec))
deriving Repr

def build (inp : FMInput) : FMOutput :=
  let earr := inp.earr
  let used := inp.used earr
  let tj := endsOf used
  { earr := earr, deletes := inp.deletes earr, used := used,
    rows := tj.map fun vid =>
      let row := inp.vertexEquation earr used vid
      (vid, keepRow inp.ignoreFour row, row) }

end FMInput

/-- `get_solution_no_discarded(xres)`: re-alignment with the full list of internal interfaces;
    excluded ones get `-1`. -/
def realign (internal : List (List Id)) (del : List Id) (xres : List Rat) : List Rat :=
  if internal.length = xres.length then xres
  else
    let rec go : List (List Id) → List Rat → List Rat
      | [], _ => []
      | e :: es, xs =>
        if FMInput.bothDeleted del e then (-1) :: go es xs
        else match xs with
          | x :: xs' => x :: go es xs'
          | [] => 0 :: go es []       -- the code would read past the end (IndexError)
    go internal xres

/-- `add_mean_one(b)` with `externals_to_use = []`:
    `M' = [[A, 1], [1ᵀ, 0]]`, `b' = [b; number of columns of A]`. -/
def addMeanOne (A : List (List Rat)) (b : List Rat) : List (List Rat) × List Rat :=
  let cols := (A.head?.map (·.length)).getD 0
  (A.map (fun r => r ++ [1]) ++ [List.replicate cols (1 : Rat) ++ [0]], b ++ [(cols : Rat)])

/-- `set_velocity_matrix` right-hand side before scaling: `b[row j] = v_x(j)`, `b[row j + 1] = v_y(j)`,
    zero elsewhere. `rows` = `(map_vid_to_row[vid], velocity of vid)`. -/
def placeVelocities (nrows : Nat) (rows : List (Nat × Vec)) : List Rat :=
  rows.foldl (fun b (j, v) => FMInput.setAt (FMInput.setAt b j v.x) (j + 1) v.y) (List.replicate nrows 0)

end Forsys
