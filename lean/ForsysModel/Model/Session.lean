/-
  ForsysModel.Model.Session — the ForSys object as a state machine over operation sequences
  (forsys/forsys.py: build_force_matrix, solve_stress, build_pressure_matrix, solve_pressure,
  get_system_velocity_per_frame; forsys/fmatrix.py: write-back of ForceMatrix.solve;
  forsys/frames.py: assign_tensions_to_big_edges, assign_pressures).

  The numeric kernels are abstract pure parameters: `usedOf` (which internal interfaces a build keeps),
  `solveF` (solution of the restricted system), `pressF` (pressures from the tensions captured when the
  pressure matrix was built).  What is modelled is the bookkeeping: what is stored where, and when.
-/
import ForsysModel.Model.FMatrix
namespace Forsys

/-- combinatorial data of one frame -/
structure SFrame where
  /-- mesh edges (small-edge indices) of every interface, by interface position -/
  edgesOf : List (List Nat)
  /-- positions of the internal interfaces, in the order of `Frame.internal_big_edges` -/
  internal : List Nat
  nEdges : Nat
  nCells : Nat
deriving Repr

variable {B O P : Type}

/-- the abstract kernels -/
structure Kernels (B O P : Type) where
  /-- positions (in `internal`'s numbering: interface positions) kept by a build; a sub-list of `internal` -/
  usedOf : Nat → B → List Nat
  /-- raw solution for the used interfaces (without the multiplier), one value per used interface -/
  solveF : Nat → B → O → List Rat
  /-- pressures per cell from the interface tensions captured at pressure-matrix build time -/
  pressF : Nat → List Rat → P → List Rat
  /-- build options used by `get_system_velocity_per_frame` -/
  defaultBuild : B

structure FState (B : Type) where
  build : Option B
  edgeT : List Rat                  -- SmallEdge.tension per mesh edge
  beT : List Rat                    -- BigEdge.tension per interface
  forces : Option (List Rat)        -- Frame.forces (values in order of the internal interfaces)
  pbuild : Option (List Rat)        -- interface tensions captured by build_pressure_matrix
  cellP : Option (List Rat)         -- Cell.pressure per cell

structure SState (B : Type) where
  frames : List (FState B)
  storeForces : List (Option (List Rat))   -- ForSys.forces[t]
  storePress : List (Option (List Rat))    -- ForSys.pressures[t]

inductive Op (B O P : Type) where
  | buildForce (t : Nat) (b : B)
  | solveStress (t : Nat) (o : O)
  | buildPressure (t : Nat)
  | solvePressure (t : Nat) (p : P)
  | sysVelocity (ts : List Nat)

def listSet {α : Type} (l : List α) (i : Nat) (a : α) : List α := FMInput.setAt l i a

def meanOf (l : List Rat) : Rat := mean l

/-- a fresh frame: no build, all tensions zero -/
def FState.init (fr : SFrame) : FState B :=
  { build := none, edgeT := List.replicate fr.nEdges 0, beT := List.replicate fr.edgesOf.length 0,
    forces := none, pbuild := none, cellP := none }

def SState.init (frs : List SFrame) : SState B :=
  { frames := frs.map FState.init, storeForces := frs.map fun _ => none, storePress := frs.map fun _ => none }

/-- write `v` on all given mesh edges -/
def writeEdges (edgeT : List Rat) (es : List Nat) (v : Rat) : List Rat :=
  es.foldl (fun t e => listSet t e v) edgeT

/-- the write-back of `ForceMatrix.solve`: clear the mesh edges of every internal interface, then write the k-th value on
    the mesh edges of the k-th used interface -/
def writeBack (fr : SFrame) (used : List Nat) (x : List Rat) (edgeT : List Rat) : List Rat :=
  let cleared := fr.internal.foldl (fun t i => writeEdges t (fr.edgesOf.getD i []) 0) edgeT
  (List.zip used x).foldl (fun t p => writeEdges t (fr.edgesOf.getD p.1 []) p.2) cleared

/-- `get_solution_no_discarded`: one value per internal interface, `-1` for the ones not used -/
def reportForces (internal used : List Nat) (x : List Rat) : List Rat :=
  internal.map fun i =>
    match indexOf? i used with
    | some k => x.getD k 0
    | none => -1

/-- `Frame.assign_tensions_to_big_edges`: every interface gets the mean of its mesh edges' tensions -/
def assignBig (fr : SFrame) (edgeT : List Rat) : List Rat :=
  fr.edgesOf.map fun es => meanOf (es.map fun e => edgeT.getD e 0)

def updFrame (st : SState B) (t : Nat) (f : FState B → FState B) : SState B :=
  { st with frames := (List.zip (List.range st.frames.length) st.frames).map fun p => if p.1 = t then f p.2 else p.2 }

def step (K : Kernels B O P) (frs : List SFrame) (st : SState B) : Op B O P → SState B
  | .buildForce t b => updFrame st t fun f => { f with build := some b }
  | .solveStress t o =>
    match frs[t]?, st.frames[t]? with
    | some fr, some f =>
      match f.build with
      | none => st                       -- KeyError in the code: nothing changes
      | some b =>
        let used := K.usedOf t b
        let x := K.solveF t b o
        let edgeT' := writeBack fr used x f.edgeT
        let forces := reportForces fr.internal used x
        let st' := updFrame st t fun f => { f with edgeT := edgeT', beT := assignBig fr edgeT', forces := some forces }
        { st' with storeForces := listSet st'.storeForces t (some forces) }
    | _, _ => st
  | .buildPressure t => updFrame st t fun f => { f with pbuild := some f.beT }
  | .solvePressure t p =>
    match st.frames[t]? with
    | some f =>
      match f.pbuild with
      | none => st
      | some ts =>
        let pr := K.pressF t ts p
        let st' := updFrame st t fun f => { f with cellP := some pr }
        { st' with storePress := listSet st'.storePress t (some pr) }
    | none => st
  | .sysVelocity ts => ts.foldl (fun s t => updFrame s t fun f => { f with build := some K.defaultBuild }) st

def run (K : Kernels B O P) (frs : List SFrame) (st : SState B) (ops : List (Op B O P)) : SState B :=
  ops.foldl (step K frs) st

/-- the frame an operation addresses (`none` for the multi-frame operation) -/
def Op.frame : Op B O P → Option Nat
  | .buildForce t _ => some t
  | .solveStress t _ => some t
  | .buildPressure t => some t
  | .solvePressure t _ => some t
  | .sysVelocity _ => none

end Forsys
