/-
  ForsysModel.Model.Basic — shared vocabulary of the executable model.

  Everything in `ForsysModel/Model` is core Lean only (no Mathlib, no `import Lean`), total and
  computable, over `Rat` / `Int` / `Nat` / `List`.  A float64 handed to the Python code is a
  dyadic rational; the harness sends it to the driver as that exact rational.
-/
namespace Forsys

/-- Identifiers of vertices, mesh edges, cells (Python ints; negative values occur). -/
abbrev Id := Int

structure Pt where
  x : Rat
  y : Rat
deriving Repr, DecidableEq, Inhabited

/-- `np.sign` on one number. -/
def ratSign (q : Rat) : Int := if 0 < q then 1 else if q < 0 then -1 else 0

/-- `np.dot` of two equally long vectors. -/
def dot (a b : List Rat) : Rat := (List.zipWith (· * ·) a b).sum

/-- `np.roll(a, 1)`: the last element moves to the front. -/
def rollR {α : Type} (l : List α) : List α :=
  match l.getLast? with
  | none => []
  | some a => a :: l.dropLast

/-- Python's `a % n` for `n > 0` (result in `[0, n)`). -/
def pyMod (a : Int) (n : Nat) : Nat := (a % (n : Int)).toNat

/-- `l.index(a)` when present. -/
def indexOf? {α : Type} [DecidableEq α] (a : α) : List α → Option Nat
  | [] => none
  | b :: l => if a = b then some 0 else (indexOf? a l).map (· + 1)

/-- mean of a list (`np.mean`), `0` for the empty list (numpy raises there; callers never pass `[]`). -/
def mean (l : List Rat) : Rat := if l.isEmpty then 0 else l.sum / (l.length : Rat)

/-- squared euclidean distance -/
def distSq (p q : Pt) : Rat := (p.x - q.x) * (p.x - q.x) + (p.y - q.y) * (p.y - q.y)

/-- association-list lookup used for Python dicts (first match). -/
def alGet? {β : Type} (k : Id) : List (Id × β) → Option β
  | [] => none
  | (k', v) :: l => if k = k' then some v else alGet? k l

/-- consecutive pairs of a cycle, closing pair included: `(v_i, v_{i+1 mod n})`. -/
def cyclicPairs {α : Type} : List α → List (α × α)
  | [] => []
  | a :: l => List.zip (a :: l) (l ++ [a])

def listInter (a b : List Id) : List Id := a.filter (fun e => b.contains e)

end Forsys
