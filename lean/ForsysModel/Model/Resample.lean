/-
  ForsysModel.Model.Resample — model of virtual_edges.generate_mesh, join_two_vertices,
  get_unused_id, Cell.replace_vertex, SmallEdge.__post_init__/__del__/replace_vertex.
-/
import ForsysModel.Model.BigEdges
namespace Forsys

variable {α : Type}

/-- the resampling rule of `generate_mesh` for one interface:
    `[e[int(len(e)/ne*i)] for i in range(ne)] + [e[-1]]` when `len(e) > ne`, else `e`.
    (`int(len/ne*i)` in float arithmetic equals `⌊len·i/ne⌋` — compared exhaustively for
    len < 3000, ne ≤ 12 by the harness self-test.) -/
def pick (ne : Nat) (e : List α) : List α :=
  if e.length > ne then
    ((List.range ne).filterMap fun i => e[(e.length * i) / ne]?) ++ e.getLast?.toList
  else e

namespace Mesh

def updVertex (m : Mesh) (k : Id) (f : Vertex → Vertex) : Mesh :=
  { m with vertices := m.vertices.map fun (k', v) => if k' = k then (k', f v) else (k', v) }

def updCell (m : Mesh) (k : Id) (f : Cell → Cell) : Mesh :=
  { m with cells := m.cells.map fun (k', c) => if k' = k then (k', f c) else (k', c) }

def updEdge (m : Mesh) (k : Id) (f : SEdge → SEdge) : Mesh :=
  { m with edges := m.edges.map fun (k', e) => if k' = k then (k', f e) else (k', e) }

/-- `Vertex.add_edge` -/
def addEdgeTo (v : Vertex) (e : Id) : Vertex :=
  if v.ownEdges.contains e then v else { v with ownEdges := v.ownEdges ++ [e] }

/-- `Vertex.add_cell` -/
def addCellTo (v : Vertex) (c : Id) : Vertex :=
  if v.ownCells.contains c then v else { v with ownCells := v.ownCells ++ [c] }

/-- `edges[k] = SmallEdge(k, vertices[a], vertices[b])` (`__post_init__` registers on both ends). -/
def mkEdge (m : Mesh) (k a b : Id) : Mesh :=
  let m := (m.updVertex a (addEdgeTo · k)).updVertex b (addEdgeTo · k)
  { m with edges := (m.edges.filter (fun p => p.1 != k)) ++ [(k, { id := k, v1 := a, v2 := b })] }

/-- `del edges[k]` with the last reference dropped: `SmallEdge.__del__` unregisters the edge. -/
def delEdge (m : Mesh) (k : Id) : Mesh :=
  match m.edge? k with
  | none => m
  | some e =>
    let m := (m.updVertex e.v1 fun v => { v with ownEdges := v.ownEdges.erase k }).updVertex e.v2
              fun v => { v with ownEdges := v.ownEdges.erase k }
    { m with edges := m.edges.filter (fun p => p.1 != k) }

/-- `Cell.replace_vertex(vold, vnew)` -/
def cellReplaceVertex (m : Mesh) (cid vold vnew : Id) : Mesh :=
  match m.cell? cid with
  | none => m
  | some c =>
    if c.verts.contains vnew then
      m.updCell cid fun c => { c with verts := c.verts.erase vold }
    else
      let m := m.updCell cid fun c => { c with verts := c.verts.map fun v => if v = vold then vnew else v }
      m.updVertex vnew (addCellTo · cid)

/-- `SmallEdge.replace_vertex(vold, vnew)` -/
def edgeReplaceVertex (m : Mesh) (eid vold vnew : Id) : Mesh :=
  match m.edge? eid with
  | none => m
  | some e =>
    let who0 := e.v1 == vold
    let oldEnd := if who0 then e.v1 else e.v2
    let m := m.updVertex oldEnd fun v => { v with ownEdges := v.ownEdges.erase eid }
    let m := m.updEdge eid fun e => if who0 then { e with v1 := vnew } else { e with v2 := vnew }
    m.updVertex vnew (addEdgeTo · eid)

/-- `get_unused_id(vertices)`: tries `len, len+0, len+1, …` -/
def unusedId (m : Mesh) : Id :=
  let n : Int := m.vertices.length
  let cands : List Int := n :: (List.range (m.vertices.length + 1)).map (fun (i : Nat) => n + (i : Int))
  (cands.find? fun c => (m.vertex? c).isNone).getD n

inductive JoinErr where
  | keyError      -- surfaces as SegmentationArtifactException in generate_mesh
  | indexError    -- `common_edge` list is empty
deriving Repr, DecidableEq

/-- `join_two_vertices(pair, vertices, edges, cells, mapper)`; returns the new mesh and mapper. -/
def joinTwoVertices (m : Mesh) (pair : Id × Id) (mapper : List (Id × Id)) :
    Except JoinErr (Mesh × List (Id × Id)) :=
  let resolve (k : Id) : Option Id :=
    if (m.vertex? k).isSome then some k
    else match alGet? k mapper with
      | some k' => if (m.vertex? k').isSome then some k' else none
      | none => none
  match resolve pair.1, resolve pair.2 with
  | some i0, some i1 =>
    match m.vertex? i0, m.vertex? i1 with
    | some v0, some v1 =>
      -- midpoint (after the repair of finding D12; upstream took `abs(v0.x + v1.x) / 2`)
      let xcm := (v0.x + v1.x) / 2
      let ycm := (v0.y + v1.y) / 2
      match (listInter v0.ownEdges v1.ownEdges).head? with
      | none => .error .indexError
      | some common =>
        let newId := m.unusedId
        let m1 : Mesh := { m with vertices := m.vertices ++ [(newId, { id := newId, x := xcm, y := ycm, ownEdges := [], ownCells := [] })] }
        let mapper := (mapper.filter fun p => p.1 != pair.1 && p.1 != pair.2) ++ [(pair.1, newId), (pair.2, newId)]
        let m2 := v0.ownCells.foldl (fun m c => m.cellReplaceVertex c i0 newId) m1
        let m3 := v1.ownCells.foldl (fun m c => m.cellReplaceVertex c i1 newId) m2
        let m4 := m3.delEdge common
        let m5 := (m4.ownEdges i0).foldl (fun m e => m.edgeReplaceVertex e i0 newId) m4
        let m6 := (m5.ownEdges i1).foldl (fun m e => m.edgeReplaceVertex e i1 newId) m5
        .ok ({ m6 with vertices := m6.vertices.filter fun p => p.1 != i0 && p.1 != i1 }, mapper)
    | _, _ => .error .keyError
  | _, _ => .error .keyError

structure GenMeshResult where
  mesh : Mesh
  nEdgeArray : List (List Id)
  error : Option JoinErr
deriving Repr

/-- `generate_mesh(vertices, edges, cells, ne, replace_short_edges)` -/
def generateMesh (m : Mesh) (ne : Nat) (replaceShort : Bool) : GenMeshResult :=
  let bedges := m.bigEdgesList
  let nEdgeArray := bedges.map (pick ne)
  let toJoin := bedges.filter fun e =>
    decide (e.length ≤ ne) && e.length == 2 &&
      decide ((m.ownCells (e.getD 0 0)).length < 3) && decide ((m.ownCells (e.getD 1 0)).length < 3)
  let used := nEdgeArray.flatten
  let removed := m.vertices.filter fun p => !(used.contains p.1)
  -- remove the dropped vertices from the cycles of their cells
  let m1 := removed.foldl (fun m p =>
      p.2.ownCells.foldl (fun m c => m.updCell c fun cl => { cl with verts := cl.verts.erase p.1 }) m) m
  -- edges.clear(): every SmallEdge is finalised and unregisters itself
  let m2 := m1.edges.foldl (fun m p => m.delEdge p.1) m1
  let m3 : Mesh := { m2 with vertices := m2.vertices.filter fun p => used.contains p.1 }
  -- rebuild the mesh edges along the resampled interfaces, numbered from 0
  let segs := (nEdgeArray.map fun be => List.zip be be.tail).flatten
  let m4 := (List.zip (List.range segs.length) segs).foldl
      (fun m p => m.mkEdge (p.1 : Int) p.2.1 p.2.2) { m3 with edges := [] }
  -- drop cells left without vertices
  let m5 : Mesh := { m4 with cells := m4.cells.filter fun p => !p.2.verts.isEmpty }
  if replaceShort then
    let rec go (m : Mesh) (mapper : List (Id × Id)) : List (List Id) → GenMeshResult
      | [] => { mesh := m, nEdgeArray := nEdgeArray, error := none }
      | e :: rest =>
        match m.joinTwoVertices (e.getD 0 0, e.getD 1 0) mapper with
        | .ok (m', mapper') => go m' mapper' rest
        | .error err => { mesh := m, nEdgeArray := nEdgeArray, error := some err }
    go m5 [] toJoin
  else { mesh := m5, nEdgeArray := nEdgeArray, error := none }

end Mesh
end Forsys
