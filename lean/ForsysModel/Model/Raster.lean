/-
  ForsysModel.Model.Raster — an executable pixel-level *oracle* for property C15 (not a model of any forsys code).

  Input: a binary image, list of rows, `1` = skeleton pixel (non-zero grey value: what `cv2.findContours` traces),
  `0` = background.  The image is the array the parser works on (after its `[1:-1, 1:-1]` crop).

  Definitions (this is the specification the check evaluates, stated once, here):
  * background components are 4-connected (the complement of an 8-connected curve);
  * *outside* = the background components that contain a pixel of the first/last row or column;
  * *enclosed region* = any other background component; regions are numbered 1, 2, … in raster order of their
    first pixel;
  * a skeleton pixel *sees* a component within radius `r` if some pixel of the component lies in its
    `(2r+1)×(2r+1)` window;
  * region `A` *touches the outside* iff some skeleton pixel sees `A` and an outside component within radius 1;
  * regions `A ≠ B` are *adjacent* iff some skeleton pixel sees both within radius 1;
  * `A, B, C` (pairwise different, all enclosed) *meet in an interior junction* iff some skeleton pixel sees all
    three within radius `rad` (parameter; the check uses 2: a minimal junction of three one-pixel lines may be spread
    over two pixels);
  * the pair `A, B` has an *internal interface* iff it is adjacent and meets some enclosed `C` in an interior junction.
-/
import ForsysModel.Model.Basic
namespace Forsys
namespace Raster

abbrev Img := List (List Nat)

/-- provisional labels: `0` on the skeleton, `row * width + col + 1` on the background -/
def initRow (w r : Nat) : Nat → List Nat → List Nat
  | _, [] => []
  | c, p :: l => (if p == 0 then r * w + c + 1 else 0) :: initRow w r (c + 1) l

def initRows (w : Nat) : Nat → Img → List (List Nat)
  | _, [] => []
  | r, row :: rest => initRow w r 0 row :: initRows w (r + 1) rest

def width (img : Img) : Nat := (img.map List.length).foldl max 0

def merge (l n : Nat) : Nat := if l == 0 then 0 else if n == 0 then l else min l n

/-- left-to-right pass along one row: a background pixel takes the smaller of its label and its left neighbour's -/
def scanRow : Nat → List Nat → List Nat
  | _, [] => []
  | carry, l :: r => let l' := merge l carry; l' :: scanRow l' r

/-- top-to-bottom pass: every row first takes the labels of the (already updated) row above, then is scanned -/
def sweepRows : List Nat → List (List Nat) → List (List Nat)
  | _, [] => []
  | above, row :: rest =>
    let merged := if above.isEmpty then row else List.zipWith merge row above
    let row' := scanRow 0 merged
    row' :: sweepRows row' rest

def flip (l : List (List Nat)) : List (List Nat) := (l.map List.reverse).reverse

/-- one forward and one backward raster pass -/
def sweep (l : List (List Nat)) : List (List Nat) := flip (sweepRows [] (flip (sweepRows [] l)))

/-- iterate to the fixed point (`fuel` bounds the number of double passes); second component: reached -/
def iterate : Nat → List (List Nat) → List (List Nat) × Bool
  | 0, l => (l, false)
  | fuel + 1, l => let l' := sweep l; if l' == l then (l, true) else iterate fuel l'

/-- component labels: every background pixel carries the smallest provisional label of its 4-connected component -/
def labels (img : Img) : List (List Nat) × Bool :=
  let w := width img
  iterate (img.length * w + 1) (initRows w 0 img)

def insertNat (a : Nat) : List Nat → List Nat
  | [] => [a]
  | b :: l => if a < b then a :: b :: l else if a == b then b :: l else b :: insertNat a l

def sortDedup (l : List Nat) : List Nat := l.foldr insertNat []

/-- labels on the image frame -/
def frameLabels (lab : List (List Nat)) : List Nat :=
  let firstLast := (lab.head?.getD []) ++ (lab.getLast?.getD [])
  let sides := (lab.map fun row => (row.head?.toList ++ row.getLast?.toList)).flatten
  sortDedup ((firstLast ++ sides).filter (· != 0))

structure Result where
  /-- number of enclosed regions -/
  n : Nat
  /-- pixels of every region (index = region number - 1) -/
  sizes : List Nat
  /-- regions that touch the outside -/
  border : List Nat
  /-- adjacent pairs `(a, b)`, `a < b` -/
  adj : List (Nat × Nat)
  /-- triples `(a, b, c)`, `a < b < c`, meeting in an interior junction -/
  triples : List (Nat × Nat × Nat)
  /-- adjacent pairs with an internal interface -/
  internal : List (Nat × Nat)
  converged : Bool
  /-- region number of every pixel: 0 skeleton, `n + 1` outside -/
  regionMap : List (List Nat)
deriving Repr, Inhabited

def pairsOf : List Nat → List (Nat × Nat)
  | [] => []
  | a :: l => (l.map fun b => (a, b)) ++ pairsOf l

def triplesOf : List Nat → List (Nat × Nat × Nat)
  | [] => []
  | a :: l => ((pairsOf l).map fun bc => (a, bc.1, bc.2)) ++ triplesOf l

def insertBy {α : Type} (lt : α → α → Bool) (a : α) : List α → List α
  | [] => [a]
  | b :: l => if lt a b then a :: b :: l else if lt b a then b :: insertBy lt a l else b :: l

def ltPair (a b : Nat × Nat) : Bool := a.1 < b.1 || (a.1 == b.1 && a.2 < b.2)
def ltTriple (a b : Nat × Nat × Nat) : Bool := a.1 < b.1 || (a.1 == b.1 && ltPair a.2 b.2)

/-- region numbers (`0` skeleton, `1..n` enclosed, `n+1` outside) seen from `(r, c)` within radius `rad` -/
def seen (reg : Array (Array Nat)) (r c rad : Nat) : List Nat :=
  let rows := (List.range (2 * rad + 1)).filterMap fun dr =>
    if r + dr < rad then none else reg[r + dr - rad]?
  sortDedup ((rows.map fun row =>
    (List.range (2 * rad + 1)).filterMap fun dc =>
      if c + dc < rad then none else
        match row[c + dc - rad]? with
        | some 0 => none
        | x => x).flatten)

def analyse (img : Img) (rad : Nat) : Result :=
  let (lab, conv) := labels img
  let frame := frameLabels lab
  let all := sortDedup (lab.flatten.filter (· != 0))
  let enclosed := all.filter fun l => !frame.contains l
  let n := enclosed.length
  let num (l : Nat) : Nat := if l == 0 then 0 else match indexOf? l enclosed with
    | some i => i + 1
    | none => n + 1
  let regionMap := lab.map fun row => row.map num
  let reg : Array (Array Nat) := (regionMap.map List.toArray).toArray
  let skel : List (Nat × Nat) :=
    ((List.zip (List.range regionMap.length) regionMap).map fun (r, row) =>
      (List.zip (List.range row.length) row).filterMap fun (c, v) => if v == 0 then some (r, c) else none).flatten
  let near := skel.map fun rc => seen reg rc.1 rc.2 1
  let far := if rad == 1 then near else skel.map fun rc => seen reg rc.1 rc.2 rad
  let border := sortDedup ((near.filter fun s => s.contains (n + 1)).flatten.filter (· ≤ n))
  let adj := (near.map fun s => pairsOf (s.filter (· ≤ n))).flatten.foldr (insertBy ltPair) []
  let triples := (far.map fun s => triplesOf (s.filter (· ≤ n))).flatten.foldr (insertBy ltTriple) []
  let internal := adj.filter fun ab => triples.any fun t =>
    (t.1 == ab.1 && t.2.1 == ab.2) || (t.1 == ab.1 && t.2.2 == ab.2) || (t.2.1 == ab.1 && t.2.2 == ab.2)
  let sizes := (List.range n).map fun i => (regionMap.map fun row => row.count (i + 1)).sum
  { n := n, sizes := sizes, border := border, adj := adj, triples := triples, internal := internal,
    converged := conv, regionMap := regionMap }

end Raster
end Forsys
