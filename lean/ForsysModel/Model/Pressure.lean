/-
  ForsysModel.Model.Pressure — model of the pressure step:
    BigEdge.calculate_curvature / calculate_total_curvature (np.gradient stencils; the `**1.5` and the square roots
    are trusted IEEE steps: the model returns the rational parts),
    PressureMatrix.get_row / _build_matrix (forsys/pmatrix.py),
    GeneralMatrix.add_lagrange_multiplier and the zero re-insertion of solve_system (forsys/general_matrix.py).
-/
import ForsysModel.Model.Solve
namespace Forsys

/-- `np.gradient(a)` with unit spacing: one-sided differences at the ends, central differences inside. -/
def gradient : List Rat → List Rat
  | [] => []
  | [_] => []          -- numpy raises for a single sample
  | a :: b :: rest =>
    let l := a :: b :: rest
    let n := l.length
    (List.range n).map fun i =>
      if i = 0 then l.getD 1 0 - l.getD 0 0
      else if i = n - 1 then l.getD (n - 1) 0 - l.getD (n - 2) 0
      else (l.getD (i + 1) 0 - l.getD (i - 1) 0) / 2

structure CurvParts where
  /-- per point: `x'' y' − x' y''` -/
  num : List Rat
  /-- per point: `x'² + y'²` -/
  speedSq : List Rat
  /-- per segment: squared length -/
  segSq : List Rat
deriving Repr

def segSqs : List Pt → List Rat
  | p :: q :: rest => distSq q p :: segSqs (q :: rest)
  | _ => []

/-- the rational ingredients of `calculate_curvature` / `calculate_total_curvature`:
    curvature_i = num_i / speedSq_i^1.5,  total = Σ (κ_i + κ_{i+1})/2 · sqrt(segSq_i). -/
def curvParts (pts : List Pt) : CurvParts :=
  let xs := pts.map (·.x)
  let ys := pts.map (·.y)
  let dx := gradient xs
  let dy := gradient ys
  let ddx := gradient dx
  let ddy := gradient dy
  { num := List.zipWith (· - ·) (List.zipWith (· * ·) ddx dy) (List.zipWith (· * ·) dx ddy),
    speedSq := List.zipWith (· + ·) (List.zipWith (· * ·) dx dx) (List.zipWith (· * ·) dy dy),
    segSq := segSqs pts }

/-- `PressureMatrix.get_row`: `+1/−1` (or `−1/+1`) at the positions of the interface's two cells, chosen by the area
    sign of the first one; all other entries zero. -/
def pressureRow (ncells : Nat) (posA posB : Nat) (signA : Int) : List Rat :=
  (List.range ncells).map fun i =>
    if 0 < signA then (if i = posA then 1 else if i = posB then -1 else 0)
    else (if i = posA then -1 else if i = posB then 1 else 0)

/-- right-hand side of the row: `big_edge.tension * total_curvature` -/
def pressureRhs (tension totalCurv : Rat) : Rat := tension * totalCurv

/-- `np.nonzero(np.all(lhs == 0, axis=0))`: columns that are zero in every row -/
def removedColumns (L : Mat) (ncells : Nat) : List Nat :=
  (List.range ncells).filter fun j => L.all fun r => r.getD j 0 == 0

def dropColumns (L : Mat) (removed : List Nat) : Mat :=
  L.map fun r => ((List.zip (List.range r.length) r).filter fun p => !(removed.contains p.1)).map (·.2)

/-- `for val in mapping_order.values(): if val in removed_columns: solution.insert(val, 0.)` -/
def reinsertZeros (ncells : Nat) (removed : List Nat) (sol : List Rat) : List Rat :=
  (List.range ncells).foldl (fun s i => if removed.contains i then s.take i ++ [0] ++ s.drop i else s) sol

end Forsys
