/-
  ForsysModel.Model.Construct — the object constructors every parser uses
  (Vertex(...), SmallEdge.__post_init__, Cell.__post_init__/__del__) and the parser pattern
  "all vertices, then all mesh edges, then all cells" (surface_evolver.create_lattice,
  tessellation.create_lattice), followed by Surface Evolver's orphan removal.
-/
import ForsysModel.Model.Resample
namespace Forsys
namespace Mesh

def empty : Mesh := { vertices := [], edges := [], cells := [] }

/-- `vertices[k] = Vertex(k, x, y)` -/
def mkVertex (m : Mesh) (k : Id) (x y : Rat) : Mesh :=
  { m with vertices := (m.vertices.filter fun p => p.1 != k) ++
      [(k, { id := k, x := x, y := y, ownEdges := [], ownCells := [] })] }

/-- `cells[k] = Cell(k, [vertices[v] for v in verts])`: `__post_init__` calls `add_cell` on every vertex -/
def mkCell (m : Mesh) (k : Id) (verts : List Id) : Mesh :=
  let m := verts.foldl (fun m v => m.updVertex v (addCellTo · k)) m
  { m with cells := (m.cells.filter fun p => p.1 != k) ++ [(k, { id := k, verts := verts })] }

/-- `del cells[k]` with the last reference dropped: `Cell.__del__` calls `remove_cell` on every vertex -/
def delCell (m : Mesh) (k : Id) : Mesh :=
  match m.cell? k with
  | none => m
  | some c =>
    let m := c.verts.foldl (fun m v => m.updVertex v fun vx => { vx with ownCells := vx.ownCells.erase k }) m
    { m with cells := m.cells.filter fun p => p.1 != k }

/-- the parser pattern: vertices, then mesh edges `(id, v1, v2)`, then cells `(id, vertex cycle)` -/
def ofLists (vs : List (Id × Rat × Rat)) (es : List (Id × Id × Id)) (cs : List (Id × List Id)) : Mesh :=
  let m := vs.foldl (fun m p => m.mkVertex p.1 p.2.1 p.2.2) empty
  let m := es.foldl (fun m p => m.mkEdge p.1 p.2.1 p.2.2) m
  cs.foldl (fun m p => m.mkCell p.1 p.2) m

/-- Surface Evolver's clean-up: every vertex that belongs to no cell is deleted together with the mesh
    edges ending at it. -/
def orphanRemoval (m : Mesh) : Mesh :=
  let orphans := (m.vertices.filter fun p => p.2.ownCells.isEmpty).map (·.1)
  orphans.foldl (fun m i =>
    let m := (m.ownEdges i).foldl (fun m e => m.delEdge e) m
    { m with vertices := m.vertices.filter fun p => p.1 != i }) m

end Mesh
end Forsys
