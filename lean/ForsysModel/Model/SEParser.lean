/-
  ForsysModel.Model.SEParser — token-level model of forsys/surface_evolver.py
  (calculate_first_last, get_vertices, get_edges, get_cells, get_pressures, create_lattice)
  and of the `gt=True` branch of `Frame.__post_init__` (forsys/frames.py).

  Trusted tokeniser: the harness applies Python's own `str.startswith` (five markers), `str.split`,
  `int`, `float` (as the exact rational `fractions.Fraction(token)`), `== "density"`, `== '\\'`,
  `"*/" in token` and `re.search(r"\d+", token)` to every line / token of the dump and sends the results.
  A line of the file is a `Line`: which marker test succeeds, and the list of its tokens; a token is
  the record of what those primitives return on it.  Everything after that — section arithmetic, field
  positions, the face-line automaton, rounding, dictionary construction, orphan removal, interface
  means — is modelled here.
-/
import ForsysModel.Model.Construct
namespace Forsys
namespace SE

/-- the five `line.startswith(...)` tests: "vertices  ", "edges  ", "faces  ", "bodies  ", "read" -/
inductive Marker where
  | vertices | edges | faces | bodies | read
deriving Repr, DecidableEq, Inhabited

/-- what Python's primitives return on one whitespace-separated token -/
structure Tok where
  /-- `int(tok)`; `none` = ValueError -/
  int? : Option Int := none
  /-- `float(tok)` as the exact rational the literal denotes; `none` = ValueError -/
  num? : Option Rat := none
  /-- `tok == "density"` -/
  density : Bool := false
  /-- `tok == '\\'` -/
  bslash : Bool := false
  /-- `"*/" in tok` -/
  close : Bool := false
  /-- `re.search(r"\d+", tok)`: the first run of digits as a number -/
  digits? : Option Nat := none
deriving Repr, DecidableEq, Inhabited

structure Line where
  mark : Option Marker := none
  toks : List Tok := []
deriving Repr, DecidableEq, Inhabited

/-- the exceptions the parser can raise -/
inductive Err where
  | stopIteration | indexError | valueError | attributeError | keyError | assertionError | typeError
deriving Repr, DecidableEq, Inhabited

abbrev R := Except Err

/-! ### calculate_first_last -/

/-- `next(index for index, line in enumerate(f) if line.startswith(marker))` on the remaining lines `ls` -/
def findMark (mk : Marker) (ls : List Line) : R Nat :=
  match ls.findIdx? (fun l => l.mark == some mk) with
  | some i => pure i
  | none => throw .stopIteration

/-- `ini = next(... a ...)` from the start of the file; `fin = next(... b ...) + ini` where the second
    `next` continues the *same* file iterator, i.e. enumerates the lines after the first marker from 0. -/
def firstLast (a b : Marker) (ls : List Line) : R (Nat × Nat) := do
  let ini ← findMark a ls
  let rel ← findMark b (ls.drop (ini + 1))
  pure (ini, rel + ini)

structure Indices where
  v : Nat × Nat
  e : Nat × Nat
  f : Nat × Nat
  p : Nat × Nat
deriving Repr, DecidableEq

def indices (ls : List Line) : R Indices := do
  let v ← firstLast .vertices .edges ls
  let e ← firstLast .edges .faces ls
  let f ← firstLast .faces .bodies ls
  let p ← firstLast .bodies .read ls
  pure { v := v, e := e, f := f, p := p }

/-- `[lines[i].split() for i in range(idx[0] + 1, idx[1])]` -/
def sectionToks (idx : Nat × Nat) (ls : List Line) : List (List Tok) :=
  ((ls.drop (idx.1 + 1)).take (idx.2 - (idx.1 + 1))).map (·.toks)

/-! ### rounding: `round(x, n)` is round-half-even of the decimal value (ties are excluded by the harness) -/

def roundHalfEven (q : Rat) : Int :=
  let f := q.floor
  let r := q - (f : Rat)
  if r < 1/2 then f else if 1/2 < r then f + 1 else if f % 2 = 0 then f else f + 1

def roundDec (q : Rat) (n : Nat) : Rat := (roundHalfEven (q * (10 : Rat) ^ n) : Rat) / (10 : Rat) ^ n

/-! ### per-line field extraction -/

/-- `int(re.search(r"\d+", line).group())`: the first token that contains a digit decides -/
def lineId (t : List Tok) : R Int :=
  match t.findSome? (·.digits?) with
  | some n => pure (n : Int)
  | none => throw .attributeError

/-- `line.split()[i]` -/
def tokAt (t : List Tok) (i : Nat) : R Tok :=
  match t[i]? with
  | some x => pure x
  | none => throw .indexError

def tokNum (x : Tok) : R Rat :=
  match x.num? with
  | some q => pure q
  | none => throw .valueError

def tokInt (x : Tok) : R Int :=
  match x.int? with
  | some q => pure q
  | none => throw .valueError

/-- one iteration of the loop of `get_vertices` -/
def vertexLine (t : List Tok) : R (Id × Rat × Rat) := do
  let id ← lineId t
  let x ← tokNum (← tokAt t 1)
  let y ← tokNum (← tokAt t 2)
  pure (id, roundDec x 3, roundDec y 3)

structure EdgeRec where
  id : Id
  v1 : Id
  v2 : Id
  force : Rat
deriving Repr, DecidableEq, Inhabited

/-- one iteration of the loop of `get_edges` (working tree, with the length check that repairs D14):
    `float(fields[4]) if len(fields) > 4 and fields[3] == "density" else 1` -/
def edgeLine (t : List Tok) : R EdgeRec := do
  let id ← lineId t
  let a ← tokInt (← tokAt t 1)
  let b ← tokInt (← tokAt t 2)
  let f ← if t.length > 4 && ((t[3]?).map (·.density)).getD false then tokNum (← tokAt t 4) else pure 1
  pure { id := id, v1 := a, v2 := b, force := f }

/-- the pinned upstream line: `float(l.split()[4]) if l.split()[3] == "density" else 1` (finding D14) -/
def edgeLinePinned (t : List Tok) : R EdgeRec := do
  let id ← lineId t
  let a ← tokInt (← tokAt t 1)
  let b ← tokInt (← tokAt t 2)
  let f ← if (← tokAt t 3).density then tokNum (← tokAt t 4) else pure 1
  pure { id := id, v1 := a, v2 := b, force := f }

/-- one iteration of the loop of `get_pressures`: `pressures[int(splitted[0])] = float(splitted[7])` -/
def pressureLine (t : List Tok) : R (Int × Rat) := do
  let id ← tokInt (← tokAt t 0)
  let p ← tokNum (← tokAt t 7)
  pure (id, p)

/-- `d[k] = v` on an insertion-ordered dict -/
def dictSet {β : Type} (d : List (Int × β)) (k : Int) (v : β) : List (Int × β) :=
  if d.any (fun p => p.1 == k) then d.map (fun p => if p.1 == k then (k, v) else p) else d ++ [(k, v)]

def getPressures (lines : List (List Tok)) : R (List (Int × Rat)) :=
  lines.foldlM (fun d t => do let r ← pressureLine t; pure (dictSet d r.1 r.2)) []

/-! ### the face-line automaton of `get_cells` -/

structure FaceState where
  /-- `ids` (kept as tokens: `int(r.id)` happens in create_lattice) -/
  ids : List Tok := []
  edges : List (List Int) := []
  /-- `current_edge` (tokens; `int(e)` happens when the face is closed) -/
  cur : List Tok := []
  first : Bool := true
deriving Repr, DecidableEq, Inhabited

/-- the loop body of `get_cells` on `splitted = lines[i].split()` -/
def faceStep (s : FaceState) (l : List Tok) : R FaceState :=
  match l.getLast? with
  | none => throw .indexError                       -- `splitted[-1]` on a blank line
  | some last =>
    if s.first && !last.close then
      -- ids.append(splitted[0]); first = False; current_edge += splitted[1:-1]
      pure { s with ids := s.ids ++ l.take 1, first := false, cur := s.cur ++ (l.dropLast).drop 1 }
    else if last.bslash && !s.first then
      -- current_edge += splitted[0:-1]
      pure { s with cur := s.cur ++ l.dropLast }
    else if last.close then do
      let ids := if s.first then s.ids ++ l.take 1 else s.ids
      -- splitted[1:-2]  /  splitted[0:-2]
      let cur := if s.first then s.cur ++ (l.take (l.length - 2)).drop 1 else s.cur ++ l.take (l.length - 2)
      let ints ← cur.mapM tokInt                     -- [int(e) for e in current_edge]
      pure { ids := ids, edges := s.edges ++ [ints], cur := [], first := true }
    else pure s

def parseFaces (lines : List (List Tok)) : R FaceState := lines.foldlM faceStep {}

/-- the DataFrame of `get_cells`: columns `id`, `edges`, `pressures = pressure_dict.values()` — the three
    columns must have equal lengths (pandas raises ValueError otherwise); pressures attach *by position*. -/
def getCells (faceLines bodyLines : List (List Tok)) : R (List (Tok × List Int × Rat)) := do
  let pd ← getPressures bodyLines
  let s ← parseFaces faceLines
  if s.ids.length != s.edges.length then throw .valueError
  -- pandas: a column of n values assigned to a frame whose columns are all empty creates n rows of NaN;
  -- create_lattice then fails on `for e in r.edges` with TypeError
  if s.ids.isEmpty && !pd.isEmpty then throw .typeError
  if pd.length != s.ids.length then throw .valueError
  pure (List.zip s.ids (List.zip s.edges (pd.map (·.2))))

/-! ### create_lattice -/

structure Parsed where
  mesh : Mesh
  /-- `edges[k].gt` for the surviving mesh edges -/
  edgeGt : List (Id × Rat)
  /-- `cells[k].gt_pressure` -/
  cellGt : List (Id × Rat)
  /-- `used_edges = {abs(e) for face_edges in cells_df["edges"] for e in face_edges}` -/
  used : List Id := []
deriving Repr, Inhabited

/-- `edges[abs(e)].v1 if e > 0 else edges[abs(e)].v2` -/
def tailVertex (m : Mesh) (e : Int) : R Id :=
  match m.edge? (e.natAbs : Int) with
  | some ed => pure (if e > 0 then ed.v1 else ed.v2)
  | none => throw .keyError

/-- `edges[id] = SmallEdge(id, vertices[id1], vertices[id2])` -/
def addEdge (m : Mesh) (r : EdgeRec) : R Mesh :=
  if (m.vertex? r.v1).isNone || (m.vertex? r.v2).isNone then throw .keyError
  else if r.v1 == r.v2 then throw .assertionError
  else pure (m.mkEdge r.id r.v1 r.v2)

/-- `edges_temp.loc[edges_temp['id'] == id]['force'].iloc[0]`: the force of the *first* record with that id -/
def firstForce (es : List EdgeRec) (k : Id) : Rat :=
  match es.find? (fun r => r.id == k) with
  | some r => r.force
  | none => 1

/-- the mesh before orphan removal, with the reference values -/
def buildLattice (ls : List Line) : R Parsed := do
  let idx ← indices ls
  let es ← (sectionToks idx.e ls).mapM edgeLine
  let vs ← (sectionToks idx.v ls).mapM vertexLine
  let m0 := vs.foldl (fun m p => m.mkVertex p.1 p.2.1 p.2.2) Mesh.empty
  let m1 ← es.foldlM addEdge m0
  let egt := es.foldl (fun d r => dictSet d r.id (roundDec (firstForce es r.id) 4)) []
  let cs ← getCells (sectionToks idx.f ls) (sectionToks idx.p ls)
  let (m2, cgt) ← cs.foldlM (fun (acc : Mesh × List (Id × Rat)) c => do
      let vlist ← c.2.1.mapM (tailVertex m1)
      let id ← tokInt c.1
      pure (acc.1.mkCell id vlist, dictSet acc.2 id (roundDec c.2.2 4))) (m1, [])
  pure { mesh := m2, edgeGt := egt, cellGt := cgt,
         used := (cs.map fun c => c.2.1.map fun e => (e.natAbs : Int)).flatten }

/-- `for eid in [k for k in edges if k not in used_edges]: del edges[eid]` (repair 9a1abb9 of finding D23):
    every mesh edge that no face references is deleted (`SmallEdge.__del__` unregisters it) -/
def dropFaceless (used : List Id) (m : Mesh) : Mesh :=
  ((m.edges.map (·.1)).filter fun k => !used.contains k).foldl (fun m e => m.delEdge e) m

/-- the clean-up at the end of `create_lattice`: vertices without cells and the edges ending at them, then the
    edges of no face; reference values of deleted edges go with them -/
def removeOrphans (p : Parsed) : Parsed :=
  let m := dropFaceless p.used p.mesh.orphanRemoval
  { p with mesh := m, edgeGt := p.edgeGt.filter (fun q => (m.edge? q.1).isSome) }

/-- the upstream rule (before 9a1abb9): only the orphan-vertex loop -/
def removeOrphansUpstream (p : Parsed) : Parsed :=
  let m := p.mesh.orphanRemoval
  { p with mesh := m, edgeGt := p.edgeGt.filter (fun q => (m.edge? q.1).isSome) }

/-- `SurfaceEvolver(fname).vertices / .edges / .cells` -/
def createLattice (ls : List Line) : R Parsed := do
  let p ← buildLattice ls
  pure (removeOrphans p)

/-! ### Frame(..., gt=True): `big_edge.gt = np.mean([self.edges[eid].gt for eid in big_edge.edges])` -/

def gtMean (m : Mesh) (edgeGt : List (Id × Rat)) (e : List Id) : Option Rat := do
  let eids ← (m.bigEdgeEdges e).mapM id
  let gts ← eids.mapM (fun k => alGet? k edgeGt)
  pure (mean gts)

/-- `Frame(...).get_gt_tensions(with_border=True)`: one row per interface, in `big_edges_list` order -/
def frameGt (p : Parsed) : List (List Id × Option Rat) :=
  p.mesh.bigEdgesList.map fun e => (e, gtMean p.mesh p.edgeGt e)

/-! ### printer (used in the statements of the round-trip theorems and by nothing else) -/

/-- a decimal integer token such as `17` or `-683` -/
def Tok.ofInt (i : Int) : Tok := { int? := some i, num? := some (i : Rat), digits? := some i.natAbs }
/-- the continuation mark `\` -/
def Tok.cont : Tok := { bslash := true }
/-- `/*area` -/
def Tok.copen : Tok := {}
/-- `-500*/` -/
def Tok.cclose : Tok := { close := true, digits? := some 500 }
/-- `density`, `original`, a decimal -/
def Tok.dens : Tok := { density := true }
def Tok.word : Tok := {}
def Tok.dec (q : Rat) (d : Option Nat) : Tok := { num? := some q, digits? := d }

/-- statement vocabulary: the vertex a signed edge reference leaves from / arrives at (`0` for a missing edge) -/
def tailV (m : Mesh) (e : Int) : Id :=
  match m.edge? (e.natAbs : Int) with
  | some ed => if e > 0 then ed.v1 else ed.v2
  | none => 0

def headV (m : Mesh) (e : Int) : Id :=
  match m.edge? (e.natAbs : Int) with
  | some ed => if e > 0 then ed.v2 else ed.v1
  | none => 0

/-- continuation lines of a face: `chunks` gives the number of edge references on each continued line;
    what is left goes on the closing line together with the `/*area …*/` comment -/
def printCont (es : List Int) : List Nat → List (List Tok)
  | [] => [es.map Tok.ofInt ++ [Tok.copen, Tok.cclose]]
  | n :: w => ((es.take n).map Tok.ofInt ++ [Tok.cont]) :: printCont (es.drop n) w

/-- a face `id e₁ … eₖ` wrapped over `chunks.length + 1` lines -/
def printFace (id : Int) (es : List Int) : List Nat → List (List Tok)
  | [] => [Tok.ofInt id :: (es.map Tok.ofInt ++ [Tok.copen, Tok.cclose])]
  | n :: w => (Tok.ofInt id :: ((es.take n).map Tok.ofInt ++ [Tok.cont])) :: printCont (es.drop n) w

def printFaces (fs : List (Int × List Int × List Nat)) : List (List Tok) :=
  (fs.map fun f => printFace f.1 f.2.1 f.2.2).flatten

/-- a dump laid out like the shipped ones: header, then each section as marker line, records, one blank
    line; `read` and an arbitrary trailer at the end -/
def plain (ts : List (List Tok)) : List Line := ts.map fun t => { toks := t }

/-- marker line (its own tokens `mt` are never read), the records, one blank line -/
def sec (mk : Marker) (mt : List Tok) (ts : List (List Tok)) : List Line :=
  { mark := some mk, toks := mt } :: (plain ts ++ [{ toks := [] }])

def layout (mt : Marker → List Tok) (header vs es fs bs : List (List Tok)) (trailer : List Line) : List Line :=
  plain header ++ (sec .vertices (mt .vertices) vs ++ (sec .edges (mt .edges) es ++ (sec .faces (mt .faces) fs
    ++ (sec .bodies (mt .bodies) bs ++ ({ mark := some .read, toks := mt .read } : Line) :: trailer))))

end SE
end Forsys
