/-
  ForsysModel.Model.Myosin — model of forsys/myosin.py
    get_intensities (both branches, keying, 'average' normalisation, write-back to BigEdge.gt),
    get_intensity, get_layer_elements, get_interpolation, walk_two_vertices.

  Trusted kernels, not modelled:
  * `PIL.Image.getpixel`: the image is an input (list of rows of pixel values); a coordinate is
    converted by the C cast `(int) double`, i.e. truncated toward zero (probed for modes "F" and "L":
    `(2.9, 3.7) ↦ pixel (2,3)`, `(-0.5, 0.2) ↦ pixel (0,0)`).  Negative *integer* coordinates wrap
    around in PIL and positions outside the image raise `IndexError`; the harness keeps all positions
    inside the image, the model returns `0` outside.
  * `np.linalg.norm` / the float sum of the segment lengths: the model returns the squared segment
    lengths (`segSq`); the length used in the division is an input of the model (`Iface.len`, the
    number numpy produced), checked by the harness against `Σ sqrt segSq`.
  * `scipy.interpolate.interp1d(kind="linear")` delegates to `np.interp`, which evaluates the
    two-point formula `y_lo + (y_hi - y_lo)/(x_hi - x_lo)·(x - x_lo)` on the abscissae sorted
    increasingly; the model evaluates the same formula in exact arithmetic.
  Floats are exact rationals.
-/
import ForsysModel.Model.Basic
namespace Forsys.Myosin

/-! ### the image and the pixel oracle -/

/-- an image: `rows[y][x]` is the value `getpixel((x, y))` returns -/
structure Image where
  rows : List (List Rat)
deriving Repr

/-- the C cast `(int) d`: truncation toward zero -/
def truncI (q : Rat) : Int := if 0 ≤ q then q.floor else -((-q).floor)

/-- the pixel (column, row) a position is read from -/
def pixelOf (p : Pt) : Int × Int := (truncI p.x, truncI p.y)

/-- value of the pixel `(x, y)`; `0` outside the image (PIL raises there / wraps for negative ints) -/
def Image.at (img : Image) (xy : Int × Int) : Rat :=
  if xy.1 < 0 ∨ xy.2 < 0 then 0 else (img.rows.getD xy.2.toNat []).getD xy.1.toNat 0

/-- `image.getpixel(position)` -/
def getpixel (img : Image) (p : Pt) : Rat := img.at (pixelOf p)

/-- is the position read from inside the image (no `IndexError`, no wrap-around)? -/
def Image.inside (img : Image) (p : Pt) : Bool :=
  let xy := pixelOf p
  decide (0 ≤ p.x) && decide (0 ≤ p.y) && decide (xy.2.toNat < img.rows.length) &&
    decide (xy.1.toNat < (img.rows.getD xy.2.toNat []).length)

/-- the image with every pixel multiplied by `c` -/
def Image.scale (c : Rat) (img : Image) : Image := ⟨img.rows.map fun r => r.map fun v => c * v⟩

/-! ### keyword arguments -/

/-- `rescale=[rx, ry]`, `offset=[ox, oy]`, `layers` -/
structure Params where
  rx : Rat := 1
  ry : Rat := 1
  ox : Rat := 0
  oy : Rat := 0
  layers : Nat := 1
deriving Repr

/-- `[(vertex.x * rescale[0]) + offset[0], (vertex.y * rescale[1]) + offset[1]]` -/
def place (prm : Params) (v : Pt) : Pt := ⟨v.x * prm.rx + prm.ox, v.y * prm.ry + prm.oy⟩

/-! ### get_layer_elements -/

/-- `np.arange(-layers, layers + 1)` -/
def layerRange (layers : Nat) : List Int := (List.range (2 * layers + 1)).map fun (i : Nat) => (i : Int) - (layers : Int)

/-- `get_layer_elements(position, layers)`:
    `for (ii, kk) in itertools.product(layer_range, layer_range): (position[0] + ii, position[1] + kk)` -/
def getLayerElements (p : Pt) (layers : Nat) : List Pt :=
  (layerRange layers).flatMap fun (ii : Int) => (layerRange layers).map fun (kk : Int) => ⟨p.x + (ii : Rat), p.y + (kk : Rat)⟩

/-- `get_intensity(image, vertex, layers, **kwargs)`: the pixel values of the window of the vertex -/
def getIntensity (img : Image) (prm : Params) (v : Pt) : List Rat :=
  (getLayerElements (place prm v) prm.layers).map (getpixel img)

/-! ### np.median -/

/-- insertion into a sorted list -/
def orderedInsert (a : Rat) : List Rat → List Rat
  | [] => [a]
  | b :: l => if a ≤ b then a :: b :: l else b :: orderedInsert a l

/-- sorting (insertion sort; `np.median` partitions, the result is the same order statistic) -/
def sort : List Rat → List Rat
  | [] => []
  | a :: l => orderedInsert a (sort l)

/-- `np.median` of a list: the middle of the sorted values, or the mean of the two middles
    (`0` for the empty list, where numpy returns nan with a warning) -/
def median (l : List Rat) : Rat :=
  let s := sort l
  let n := s.length
  if n = 0 then 0
  else if n % 2 = 1 then s.getD (n / 2) 0
  else (s.getD (n / 2 - 1) 0 + s.getD (n / 2) 0) / 2

/-- the non-integrated statistic of one interface:
    `np.mean(list(map(np.median, [get_intensity(image, vertex, layers) for vertex in big_edge.vertices])))` -/
def windowStat (img : Image) (prm : Params) (verts : List Pt) : Rat :=
  mean (verts.map fun v => median (getIntensity img prm v))

/-! ### walk_two_vertices / get_interpolation -/

/-- `set.add`: insert unless present -/
def setAdd (acc : List Pt) (a : Pt) : List Pt := if a ∈ acc then acc else a :: acc

/-- Python `set` built by `update`: the distinct elements of a list
    (only membership and distinctness matter, sums are order-independent) -/
def distinct (l : List Pt) : List Pt := l.foldl setAdd []

/-- what `interp1d([a0, a1], [b0, b1], kind="linear")(v)` evaluates (via `np.interp`, abscissae sorted):
    `b_lo + (b_hi - b_lo)/(a_hi - a_lo) * (v - a_lo)` -/
def interp (a0 b0 a1 b1 : Int) (v : Int) : Rat :=
  let (alo, blo, ahi, bhi) := if a0 ≤ a1 then (a0, b0, a1, b1) else (a1, b1, a0, b0)
  (blo : Rat) + ((bhi : Rat) - (blo : Rat)) / ((ahi : Rat) - (alo : Rat)) * ((v : Rat) - (alo : Rat))

/-- `range(a0, a1, delta)` with `delta = 1 if a0 < a1 else -1` -/
def walkRange (a0 a1 : Int) : List Int :=
  let delta : Int := if a0 < a1 then 1 else -1
  (List.range (a1 - a0).natAbs).map fun (k : Nat) => a0 + delta * (k : Int)

/-- the positions `walk_two_vertices` visits before the layers are added -/
def walkCentres (v0 v1 : Int × Int) : List Pt :=
  let diffX := (v0.1 - v1.1).natAbs
  let diffY := (v0.2 - v1.2).natAbs
  if diffX > diffY then
    -- axis = 0: position = (value, interpolation(value)), interpolation over x giving y
    (walkRange v0.1 v1.1).map fun (value : Int) => ⟨(value : Rat), interp v0.1 v0.2 v1.1 v1.2 value⟩
  else
    -- axis = 1: position = (interpolation(value), value); `v0[axis - 1]` is `v0[0]`
    (walkRange v0.2 v1.2).map fun (value : Int) => ⟨interp v0.2 v0.1 v1.2 v1.1 value, (value : Rat)⟩

/-- `(int(px), int(py))`: the pixel a position is read from, as a position with integer coordinates -/
def toPixel (p : Pt) : Pt := ⟨((truncI p.x : Int) : Rat), ((truncI p.y : Int) : Rat)⟩

/-- `walk_two_vertices(v0, v1, layers)` (a set of pixels):
    `vertices_to_return.update((int(px), int(py)) for px, py in get_layer_elements(position, layers))` -/
def walkTwoVertices (v0 v1 : Int × Int) (layers : Nat) : List Pt :=
  distinct ((walkCentres v0 v1).flatMap fun c => (getLayerElements c layers).map toPixel)

/-- `walk_two_vertices` before repair 5a78257 (defect D22): the set held the float positions themselves,
    `vertices_to_return.update(get_layer_elements(position, layers))` -/
def walkTwoVerticesUpstream (v0 v1 : Int × Int) (layers : Nat) : List Pt :=
  distinct ((walkCentres v0 v1).flatMap fun c => getLayerElements c layers)

/-- `list(map(math.ceil, xy))` -/
def ceilPt (p : Pt) : Int × Int := (p.x.ceil, p.y.ceil)

/-- consecutive pairs `(xy_pairs[ii-1], xy_pairs[ii])`, `ii = 1 … len-1` -/
def consec {α : Type} : List α → List (α × α)
  | a :: b :: l => (a, b) :: consec (b :: l)
  | _ => []

/-- the band of `get_interpolation(big_edge, layers, **kwargs)`: the set `all_vertices` -/
def band (prm : Params) (verts : List Pt) : List Pt :=
  distinct ((consec (verts.map (place prm))).flatMap fun s => walkTwoVertices (ceilPt s.1) (ceilPt s.2) prm.layers)

/-- the band before repair 5a78257 (kept for the witness of defect D22) -/
def bandUpstream (prm : Params) (verts : List Pt) : List Pt :=
  distinct ((consec (verts.map (place prm))).flatMap fun s => walkTwoVerticesUpstream (ceilPt s.1) (ceilPt s.2) prm.layers)

/-- squared lengths of the segments of the rescaled/offset polyline, in the order
    `length += np.linalg.norm(xy[ii-1] - xy[ii])` adds their roots -/
def segSq (prm : Params) (verts : List Pt) : List Rat :=
  (consec (verts.map (place prm))).map fun s => distSq s.1 s.2

/-- `sum(map(image.getpixel, vertices))` over the band -/
def bandSum (img : Image) (b : List Pt) : Rat := (b.map (getpixel img)).sum

/-! ### get_intensities -/

/-- an interface handed to `get_intensities`:
    `oid` — identity of the Python object (the same `BigEdge` may occur several times in the list);
    `verts` — `(vertex.x, vertex.y)` of `big_edge.vertices` (equal to `zip(big_edge.xs, big_edge.ys)`);
    `len` — the float `length` returned by `get_interpolation` for it (trusted sqrt/sum; unused without integration) -/
structure Iface where
  oid : Nat
  verts : List Pt
  len : Rat
deriving Repr, DecidableEq

inductive Norm | none | average
deriving Repr, DecidableEq

/-- `intensity_to_use` of one interface -/
def rawIntensity (img : Image) (prm : Params) (integrate : Bool) (f : Iface) : Rat :=
  if integrate then bandSum img (band prm f.verts) / f.len
  else windowStat img prm f.verts

/-- the values of `intensities` in list order before normalisation -/
def rawIntensities (img : Image) (prm : Params) (integrate : Bool) (ifs : List Iface) : List Rat :=
  ifs.map (rawIntensity img prm integrate)

/-- `normalize == "average"`: `v / np.mean(values)`; otherwise unchanged
    (a zero mean raises `FloatingPointError` under forsys' `np.seterr(all='raise')`; the model's `x / 0 = 0`) -/
def normalise (norm : Norm) (vals : List Rat) : List Rat :=
  match norm with
  | .none => vals
  | .average => vals.map fun v => v / mean vals

/-- the intensities in list order -/
def intensityValues (img : Image) (prm : Params) (integrate : Bool) (norm : Norm) (ifs : List Iface) : List Rat :=
  normalise norm (rawIntensities img prm integrate ifs)

/-- `enumerate`: key `be_id` = position in the list, in insertion order -/
def enumFrom {α : Type} : Nat → List α → List (Nat × α)
  | _, [] => []
  | n, a :: l => (n, a) :: enumFrom (n + 1) l

/-- the returned dictionary `intensities_only_internal` as its item list in insertion order
    (`key_to_use = be_id`) -/
def getIntensities (img : Image) (prm : Params) (integrate : Bool) (norm : Norm) (ifs : List Iface) : List (Nat × Rat) :=
  enumFrom 0 (intensityValues img prm integrate norm ifs)

/-- the assignments `big_edge.gt = intensities_only_internal[be_id]` in the order they are executed,
    as (object, value); `items` is the dictionary -/
def gtWritesOf (items : List (Nat × Rat)) (ifs : List Iface) : List (Nat × Rat) :=
  (enumFrom 0 ifs).filterMap fun (i, f) => (items.lookup i).map fun v => (f.oid, v)

def gtWrites (img : Image) (prm : Params) (integrate : Bool) (norm : Norm) (ifs : List Iface) : List (Nat × Rat) :=
  gtWritesOf (getIntensities img prm integrate norm ifs) ifs

/-- state of an attribute after a sequence of assignments: the last write to the object wins -/
def lastWrite (writes : List (Nat × Rat)) (oid : Nat) : Option Rat := writes.reverse.lookup oid

/-- `big_edge.gt` after the call, for the object `oid` (`none`: not written) -/
def gtAfter (img : Image) (prm : Params) (integrate : Bool) (norm : Norm) (ifs : List Iface) (oid : Nat) : Option Rat :=
  lastWrite (gtWrites img prm integrate norm ifs) oid

end Forsys.Myosin
