/-
  ForsysModel.Model.Tessellation — model of forsys/tessellation.py *given Qhull's output*.

  `scipy.spatial.Voronoi` is the trusted external kernel: its `regions` (lists of vertex indices, `-1` =
  vertex at infinity) and `vertices` (coordinates; every float64 is an exact rational) are inputs of the model.
  Modelled: `remove_infinite_regions` (on squared distances), rounding to 3 decimals (`round`, `np.around` as
  exact round-half-even), `line_eq` incl. the vertical-ridge branch, `get_vertex_number`, `get_enum`,
  `get_cell_area_sign`, `create_lattice_elements`, `create_lattice`.
-/
import ForsysModel.Model.Geometry
import ForsysModel.Model.Construct
namespace Forsys
namespace Tess

/-! ### rounding -/

/-- round-half-even of a rational to an integer (`np.rint`) -/
def roundHalfEven (q : Rat) : Int :=
  let f := q.floor
  let r := q - (f : Rat)
  if r < 1/2 then f else if 1/2 < r then f + 1 else if f % 2 = 0 then f else f + 1

/-- `round(x, 3)` / `np.around(x, 3)` : `rint(x * 1000) / 1000` -/
def round3 (q : Rat) : Rat := (roundHalfEven (q * 1000) : Rat) / 1000

/-- `np.around(p, 3)` on a coordinate pair -/
def roundPt (p : Pt) : Pt := ⟨round3 p.x, round3 p.y⟩

/-- `np.linspace(a, b, n)`: `a + i * step` with `step = (b - a) / (n - 1)`, the last sample set to `b` -/
def linspace (a b : Rat) (n : Nat) : List Rat :=
  (List.range n).map fun i =>
    if i + 1 = n ∧ 1 < n then b else a + (i : Rat) * ((b - a) / ((n : Rat) - 1))

/-! ### `line_eq` -/

/-- the slope–intercept branch of `line_eq` at one abscissa: `p0[1] + m * (x - p0[0])`,
    `m = (p1[1] - p0[1]) / (p1[0] - p0[0])`, on the already rounded end points -/
def lineAt (q0 q1 : Pt) (x : Rat) : Rat :=
  q0.y + (q1.y - q0.y) / (q1.x - q0.x) * (x - q0.x)

/-- `line_eq(p0, p1, x)`: rounds both end points to 3 decimals; vertical ridge (`p1[0] == p0[0]` after
    rounding): `np.linspace(p0[1], p1[1], len(x))`; otherwise the line through them at every `x`.
    (On the pinned upstream tree the vertical branch was missing: division by zero — finding D7.) -/
def lineEq (p0 p1 : Pt) (xs : List Rat) : List Rat :=
  let q0 := roundPt p0
  let q1 := roundPt p1
  if q1.x = q0.x then linspace q0.y q1.y xs.length
  else xs.map (lineAt q0 q1)

/-! ### interning -/

/-- `max(d.keys())` (0 for the empty dict; callers test emptiness first) -/
def maxKey {β : Type} (d : List (Id × β)) : Id := d.foldl (fun m p => max m p.1) 0

/-- next free id: `max(keys) + 1`, `1` for the empty dict -/
def nextKey {β : Type} (d : List (Id × β)) : Id := if d.isEmpty then 1 else maxKey d + 1

/-- `list(d.keys())[list(d.values()).index(v)]` when `v in d.values()` -/
def keyOf? {β : Type} [DecidableEq β] (v : β) : List (Id × β) → Option Id
  | [] => none
  | (k, w) :: l => if v = w then some k else keyOf? v l

/-- `get_vertex_number(vertex, vertices)`: the id of the vertex with these (rounded) coordinates, or a new
    id `max + 1` (ids start at 1) under which the vertex is stored -/
def getVertexNumber (v : Pt) (vs : List (Id × Pt)) : Id × List (Id × Pt) :=
  match keyOf? v vs with
  | some k => (k, vs)
  | none => let k := nextKey vs; (k, vs ++ [(k, v)])

/-- `get_enum(edge, edges)`: the id of the stored edge `[a, b]`, minus the id of the stored edge `[b, a]`,
    or a new id `max + 1` under which `[a, b]` is stored -/
def getEnum (e : Id × Id) (es : List (Id × (Id × Id))) : Id × List (Id × (Id × Id)) :=
  match keyOf? e es with
  | some k => (k, es)
  | none =>
    match keyOf? (e.2, e.1) es with
    | some k => (-k, es)
    | none => let k := nextKey es; (k, es ++ [(k, e)])

/-- `d[k] = v` on an insertion-ordered dict -/
def dictSet {β : Type} (k : Id) (v : β) : List (Id × β) → List (Id × β)
  | [] => [(k, v)]
  | (k', w) :: l => if k = k' then (k, v) :: l else (k', w) :: dictSet k v l

/-! ### `remove_infinite_regions` -/

/-- `tessellation.vertices[i]` for `i ≥ 0` -/
def qv (verts : List Pt) (i : Int) : Pt := verts.getD i.toNat default

/-- `len(c) != 0 and -1 not in c` -/
def bounded (c : List Int) : Bool := !c.isEmpty && !c.contains (-1)

/-- largest squared entry of `distance_matrix(polygon_vertices)` -/
def maxDistSq (ps : List Pt) : Rat :=
  (ps.map fun p => (ps.map fun q => distSq p q).foldl max 0).foldl max 0

/-- the test `np.max(matrix) > max_distance` on squared distances; `none` = infinite cut-off -/
def tooFar (verts : List Pt) (md2 : Option Rat) (c : List Int) : Bool :=
  match md2 with
  | none => false
  | some d => bounded c && decide (d < maxDistSq (c.map (qv verts)))

/-- `remove_infinite_regions`: collect the offending regions, then `regions.remove(c)` for each -/
def removeInfiniteRegions (verts : List Pt) (md2 : Option Rat) (regions : List (List Int)) : List (List Int) :=
  (regions.filter (tooFar verts md2)).foldl List.erase regions

/-! ### `create_lattice_elements` -/

structure Elements where
  vertices : List (Id × Pt)
  edges : List (Id × (Id × Id))
  cells : List (Id × List Id)
deriving Repr, Inhabited, DecidableEq

/-- state of the walk round one region -/
structure Walk where
  vs : List (Id × Pt)
  es : List (Id × (Id × Id))
  /-- `temp_for_cell`: signed mesh-edge ids -/
  cellE : List Id
  /-- `temp_vertex_for_cell`: both end vertices of every step -/
  cellV : List Id
deriving Repr, Inhabited

/-- body of the loop `for v in range(0, len(new_edge_vertices) - 1)` as on the pinned upstream tree: no test
    for a ridge whose two ends intern to the same vertex — it stored the mesh edge `[n, n]` (finding D21,
    kept only for the witness `stepEdgeUpstream_self_edge_witness`) -/
def stepEdgeUpstream (w : Walk) (v01 : Pt × Pt) : Walk :=
  let r1 := getVertexNumber v01.1 w.vs
  let r2 := getVertexNumber v01.2 r1.2
  let re := getEnum (r1.1, r2.1) w.es
  { vs := r2.2, es := re.2, cellE := w.cellE ++ [re.1], cellV := w.cellV ++ [r1.1, r2.1] }

/-- body of the loop `for v in range(0, len(new_edge_vertices) - 1)`:
    `if vertex_number_1 == vertex_number_2: continue` (both ends of the ridge round to the same point: the
    vertices are interned, no mesh edge), otherwise `get_enum` and the three appends -/
def stepEdge (w : Walk) (v01 : Pt × Pt) : Walk :=
  let r1 := getVertexNumber v01.1 w.vs
  let r2 := getVertexNumber v01.2 r1.2
  if r1.1 = r2.1 then { w with vs := r2.2 }
  else
    let re := getEnum (r1.1, r2.1) w.es
    { vs := r2.2, es := re.2, cellE := w.cellE ++ [re.1], cellV := w.cellV ++ [r1.1, r2.1] }

/-- consecutive pairs of a list (open) -/
def openPairs {α : Type} : List α → List (α × α)
  | a :: b :: l => (a, b) :: openPairs (b :: l)
  | _ => []

/-- the sample points of one ridge: `x = around(linspace(round(x0,3), round(x1,3), 2), 3)`,
    `y = around(line_eq(p0, p1, x), 3)`, zipped -/
def ridgePoints (p0 p1 : Pt) : List Pt :=
  let xs := (linspace (round3 p0.x) (round3 p1.x) 2).map round3
  let ys := (lineEq p0 p1 xs).map round3
  List.zipWith (fun x y => (⟨x, y⟩ : Pt)) xs ys

/-- body of the loop `for ii in range(0, len(c) - 1)` -/
def stepRidge (verts : List Pt) (w : Walk) (ij : Int × Int) : Walk :=
  (openPairs (ridgePoints (qv verts ij.1) (qv verts ij.2))).foldl stepEdge w

/-- `get_cell_area_sign(temp_vertex_for_cell, new_vertices)` -/
def cellAreaSign (ids : List Id) (vs : List (Id × Pt)) : Int :=
  areaSign (ids.map fun i => (alGet? i vs).getD default)

structure EState where
  el : Elements
  cnum : Int
deriving Repr, Inhabited

/-- the closed walk `c.append(c[0])` -/
def closeRegion (c : List Int) : List Int := c ++ c.take 1

/-- body of `for c in regions:` for a non-empty region without `-1` -/
def processRegion (verts : List Pt) (st : EState) (c : List Int) : EState :=
  let w := (openPairs (closeRegion c)).foldl (stepRidge verts)
    { vs := st.el.vertices, es := st.el.edges, cellE := [], cellV := [] }
  let s := cellAreaSign w.cellV w.vs
  { el := { vertices := w.vs, edges := w.es, cells := dictSet (-1 * st.cnum * s) w.cellE st.el.cells },
    cnum := st.cnum + 1 }

def stepRegion (verts : List Pt) (st : EState) (c : List Int) : EState :=
  if bounded c then processRegion verts st c else st

def initState : EState := { el := { vertices := [], edges := [], cells := [] }, cnum := 1 }

/-- the final loop state of `create_lattice_elements` -/
def elementsState (verts : List Pt) (regions : List (List Int)) (md2 : Option Rat) : EState :=
  (removeInfiniteRegions verts md2 regions).foldl (stepRegion verts) initState

/-- `create_lattice_elements(cell_centers, max_distance=…)` given `tessellation.vertices`,
    `tessellation.regions` and `max_distance²` -/
def createLatticeElements (verts : List Pt) (regions : List (List Int)) (md2 : Option Rat) : Elements :=
  (elementsState verts regions md2).el

/-! ### `create_lattice` -/

/-- `vertices[edges[abs(eid)].get_vertices_id()[0 if eid > 0 else -1]]` -/
def edgeVertex (es : List (Id × (Id × Id))) (eid : Id) : Id :=
  let e := (alGet? (Int.natAbs eid : Int) (es.map fun p => ((Int.natAbs p.1 : Int), p.2))).getD (0, 0)
  if 0 < eid then e.1 else e.2

/-- the vertex cycle of one cell: start vertex of every signed edge, reversed for a negative key -/
def cellCycle (es : List (Id × (Id × Id))) (cid : Id) (cell : List Id) : List Id :=
  let vsIn := cell.map (edgeVertex es)
  if cid < 0 then vsIn.reverse else vsIn

inductive Lattice where
  | ok (m : Mesh)
  /-- `SmallEdge.__post_init__`: `assert self.v1.id != self.v2.id, "edge … with the same vertex twice"` -/
  | sameVertexTwice (eid : Id)
deriving Repr, Inhabited

def latticeVertices (el : Elements) : List (Id × Rat × Rat) := el.vertices.map fun p => (p.1, p.2.x, p.2.y)
def latticeEdges (el : Elements) : List (Id × Id × Id) :=
  el.edges.map fun p => ((Int.natAbs p.1 : Int), p.2.1, p.2.2)
def latticeCells (el : Elements) : List (Id × List Id) :=
  el.cells.map fun p => ((Int.natAbs p.1 : Int), cellCycle el.edges p.1 p.2)

/-- `create_lattice(vertices_voronoi, edges_voronoi, cells_voronoi)`: all vertices, then all mesh edges (the
    first edge with twice the same vertex trips the assertion of `SmallEdge`), then all cells — the parser
    pattern `Mesh.ofLists` -/
def createLattice (el : Elements) : Lattice :=
  match el.edges.find? (fun p => p.2.1 == p.2.2) with
  | some p => .sameVertexTwice (Int.natAbs p.1 : Int)
  | none => .ok (Mesh.ofLists (latticeVertices el) (latticeEdges el) (latticeCells el))

end Tess
end Forsys
