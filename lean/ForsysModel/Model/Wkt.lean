/-
  ForsysModel.Model.Wkt — model of `forsys/wkt.py`: `create_lattice`, `is_vertex_created`
  (and of what `read_vertexes` + `range(0, len(cell)-1)` leave of a row).

  Input.  `read_vertexes(row)` splits the text after `((` at the commas, prefixes the first piece with a
  blank and cuts the closing `))` off the last piece; `create_lattice` then iterates over
  `range(0, len(cell)-1)`, i.e. over every piece *but the last* (the closing coordinate of a WKT ring), and
  reads `float(v[1])`, `float(v[2])` of `v = piece.split(' ')`.  Python's `str.split` / `float` are the
  trusted tokeniser: a row of the model is the list of these pairs `(float(v[1]), float(v[2]))`, as the
  exact rationals of the floats, last piece already dropped.

  The y-flip `1024 - float(v[2])` is one IEEE subtraction.  The model is written over an arbitrary
  `flip : Rat → Rat` (every theorem holds for any such function, hence for the rounded subtraction);
  `wktLattice` instantiates it with the exact `1024 - y`, which is what the floating subtraction
  returns whenever the difference is representable (the harness sends the rounded value of the remaining
  tokens as a table, see Driver/Wkt.lean).
-/
import ForsysModel.Model.Construct
namespace Forsys
namespace Wkt
open Mesh

/-- what aborts `create_lattice` -/
inductive Err where
  /-- `assert self.v1.id != self.v2.id` in `SmallEdge.__post_init__` (edge id) -/
  | sameVertexTwice (eid : Id)
  /-- `Cell(k, [], {})`: the centre of an empty vertex list is a mean of an empty slice, which raises
      `FloatingPointError` under the package's `np.seterr(all='raise')` (cell id) -/
  | emptyCell (cid : Id)
deriving Repr, DecidableEq

/-- the local variables of `create_lattice` between two rows -/
structure State where
  mesh : Mesh
  verticesNumber : Nat
  edgesNumber : Nat
  cellsNumber : Nat
  /-- `edArr`: the pairs `(i, j)` for which a mesh edge was created, in creation order -/
  edArr : List (Id × Id)
deriving Repr, Inhabited

def State.init : State :=
  { mesh := Mesh.empty, verticesNumber := 0, edgesNumber := 0, cellsNumber := 0, edArr := [] }

/-- the position a coordinate pair is stored at: `(float(v[1]), 1024 - float(v[2]))` -/
def flipPt (flip : Rat → Rat) (p : Pt) : Pt := ⟨p.x, flip p.y⟩

/-- `is_vertex_created(v, vertices)`: the `id` of the first stored vertex with
    `float(v[1]) == float(vertex.x) and 1024 - float(v[2]) == float(vertex.y)`, else `False`.
    (`create_lattice` tests `type(oldVertex) != int`; `type(0)` is `int` and `type(False)` is `bool`, so the
    vertex with id 0 is found like any other: `some 0` and `none` are different results.) -/
def isVertexCreated (flip : Rat → Rat) (p : Pt) (vs : List (Id × Vertex)) : Option Id :=
  match vs.find? (fun q => p.x == q.2.x && flip p.y == q.2.y) with
  | some q => some q.2.id
  | none => none

/-- first loop of a row: `arrPosition` (the global id of every coordinate pair), creating the vertices
    that do not exist yet under the ids `verticesNumber, verticesNumber + 1, …` -/
def internRow (flip : Rat → Rat) (m : Mesh) (vn : Nat) : List Pt → Mesh × Nat × List Id
  | [] => (m, vn, [])
  | p :: ps =>
    match isVertexCreated flip p m.vertices with
    | some k =>
      let r := internRow flip m vn ps
      (r.1, r.2.1, k :: r.2.2)
    | none =>
      let r := internRow flip (m.mkVertex (vn : Int) p.x (flip p.y)) (vn + 1) ps
      (r.1, r.2.1, (vn : Int) :: r.2.2)

/-- second loop of a row over the pairs `(arrPosition[v], arrPosition[v+1])`, closing pair
    `(arrPosition[-1], arrPosition[0])` included: a mesh edge is created unless `(i, j)` or `(j, i)` is in
    `edArr`; `SmallEdge` asserts that its two vertices differ. -/
def edgeLoop (m : Mesh) (en : Nat) (edArr : List (Id × Id)) :
    List (Id × Id) → Except Err (Mesh × Nat × List (Id × Id))
  | [] => .ok (m, en, edArr)
  | (i, j) :: rest =>
    if edArr.contains (i, j) || edArr.contains (j, i) then edgeLoop m en edArr rest
    else if i = j then .error (.sameVertexTwice (en : Int))
    else edgeLoop (m.mkEdge (en : Int) i j) (en + 1) (edArr ++ [(i, j)]) rest

/-- one iteration of `for cellNonParsed in wkt` -/
def row (flip : Rat → Rat) (s : State) (r : List Pt) : Except Err State :=
  let it := internRow flip s.mesh s.verticesNumber r
  let arr := it.2.2
  match edgeLoop it.1 s.edgesNumber s.edArr (cyclicPairs arr) with
  | .error e => .error e
  | .ok (m2, en, ed) =>
    if arr.isEmpty then .error (.emptyCell (s.cellsNumber : Int))
    else .ok { mesh := m2.mkCell (s.cellsNumber : Int) arr, verticesNumber := it.2.1, edgesNumber := en,
               cellsNumber := s.cellsNumber + 1, edArr := ed }

def rows (flip : Rat → Rat) : State → List (List Pt) → Except Err State
  | s, [] => .ok s
  | s, r :: rs =>
    match row flip s r with
    | .error e => .error e
    | .ok s' => rows flip s' rs

/-- `create_lattice(wkt)` for an arbitrary flip function -/
def latticeWith (flip : Rat → Rat) (rs : List (List Pt)) : Except Err Mesh :=
  match rows flip State.init rs with
  | .error e => .error e
  | .ok s => .ok s.mesh

/-- the exact flip `1024 - y` -/
def flip1024 (y : Rat) : Rat := 1024 - y

/-- `create_lattice(wkt)` -/
def lattice (rs : List (List Pt)) : Except Err Mesh := latticeWith flip1024 rs

/-- `cells[k].is_border`: `cellType = {}` is passed in the position of `is_border`; the cells whose
    `is_border` is truthy — none, an empty dict is falsy. -/
def borderCells (_ : Mesh) : List Id := []

/-- well-formed rows (decidable): every row has at least two coordinate pairs and does not repeat a
    stored position -/
def WF (flip : Rat → Rat) (rs : List (List Pt)) : Prop :=
  ∀ r ∈ rs, 2 ≤ r.length ∧ (r.map (flipPt flip)).Nodup

instance (flip : Rat → Rat) (rs : List (List Pt)) : Decidable (WF flip rs) := by
  unfold WF; infer_instance

end Wkt
end Forsys
