/-
  ForsysModel.Model.Mesh — the vertex / mesh-edge / cell dictionaries of forsys and the
  consistency predicate of property C09, stated clause by clause.

  A Python dict is an association list in insertion order (key, object); an object carries its
  own `id`, so "stored under its own id" is expressible.  `ownEdges` / `ownCells` are the
  Python lists kept on each `Vertex` (order as in the implementation).
  Object identity (`vertices[e.v1.id] is e.v1`) cannot be expressed on ids; the dumper evaluates it
  on the real objects and records it in the `same` flags, which `Consistent` requires.
-/
import ForsysModel.Model.Basic
namespace Forsys

structure Vertex where
  id : Id
  x : Rat
  y : Rat
  ownEdges : List Id
  ownCells : List Id
deriving Repr, Inhabited

structure SEdge where
  id : Id
  v1 : Id
  v2 : Id
  /-- `vertices.get(v1.id) is v1 and vertices.get(v2.id) is v2` on the real objects -/
  same : Bool := true
deriving Repr, Inhabited

structure Cell where
  id : Id
  verts : List Id
  /-- every vertex object of the cell is the object stored in the vertices dict under its id -/
  same : Bool := true
deriving Repr, Inhabited

structure Mesh where
  vertices : List (Id × Vertex)
  edges : List (Id × SEdge)
  cells : List (Id × Cell)
deriving Repr, Inhabited

namespace Mesh

def vertex? (m : Mesh) (k : Id) : Option Vertex := alGet? k m.vertices
def edge? (m : Mesh) (k : Id) : Option SEdge := alGet? k m.edges
def cell? (m : Mesh) (k : Id) : Option Cell := alGet? k m.cells

def pt (m : Mesh) (k : Id) : Pt :=
  match m.vertex? k with
  | some v => ⟨v.x, v.y⟩
  | none => default

def ownEdges (m : Mesh) (k : Id) : List Id := ((m.vertex? k).map (·.ownEdges)).getD []
def ownCells (m : Mesh) (k : Id) : List Id := ((m.vertex? k).map (·.ownCells)).getD []

/-- `len(v.ownEdges) > 2` : the junction test of `create_edges_new`. -/
def isJunction (m : Mesh) (k : Id) : Bool := decide ((m.ownEdges k).length > 2)

/-! ### Consistency (property C09), one Boolean per clause -/

def keysNodup {β : Type} (l : List (Id × β)) : Bool :=
  match l with
  | [] => true
  | (k, _) :: r => !(r.any (fun p => p.1 == k)) && keysNodup r

/-- (3) every object is stored under its own id, keys are unique -/
def keysOk (m : Mesh) : Bool :=
  m.vertices.all (fun p => p.1 == p.2.id) && m.edges.all (fun p => p.1 == p.2.id)
    && m.cells.all (fun p => p.1 == p.2.id)
    && keysNodup m.vertices && keysNodup m.edges && keysNodup m.cells

def edgeEndsAt (e : SEdge) (v : Id) : Bool := e.v1 == v || e.v2 == v

/-- (1) a vertex lists a mesh edge exactly when that edge ends at it (and lists it once) -/
def ownEdgesOk (m : Mesh) : Bool :=
  m.vertices.all fun (_, v) =>
    v.ownEdges.all (fun e => match m.edge? e with
                             | some ed => edgeEndsAt ed v.id
                             | none => false)
    && m.edges.all (fun (_, ed) => !(edgeEndsAt ed v.id) || v.ownEdges.contains ed.id)
    && v.ownEdges.eraseDups.length == v.ownEdges.length

/-- (2) a vertex lists a cell exactly when it occurs in that cell's vertex cycle (once) -/
def ownCellsOk (m : Mesh) : Bool :=
  m.vertices.all fun (_, v) =>
    v.ownCells.all (fun c => match m.cell? c with
                             | some cl => cl.verts.contains v.id
                             | none => false)
    && m.cells.all (fun (_, cl) => !(cl.verts.contains v.id) || v.ownCells.contains cl.id)
    && v.ownCells.eraseDups.length == v.ownCells.length

/-- (3) everything referenced exists and is the same object -/
def refsOk (m : Mesh) : Bool :=
  m.edges.all (fun (_, e) => e.same && (m.vertex? e.v1).isSome && (m.vertex? e.v2).isSome)
  && m.cells.all (fun (_, c) => c.same && c.verts.all (fun v => (m.vertex? v).isSome))

/-- (4) no cell repeats a vertex -/
def cellsNodup (m : Mesh) : Bool :=
  m.cells.all fun (_, c) => c.verts.eraseDups.length == c.verts.length

def joined (m : Mesh) (a b : Id) : Bool :=
  m.edges.any fun (_, e) => (e.v1 == a && e.v2 == b) || (e.v1 == b && e.v2 == a)

/-- (5) consecutive vertices of every cell cycle (closing pair included) are joined by a mesh edge -/
def cyclesJoined (m : Mesh) : Bool :=
  m.cells.all fun (_, c) => (cyclicPairs c.verts).all fun (a, b) => m.joined a b

def Consistent (m : Mesh) : Bool :=
  m.keysOk && m.ownEdgesOk && m.ownCellsOk && m.refsOk && m.cellsNodup && m.cyclesJoined

/-- which clauses fail (for replay files) -/
def failing (m : Mesh) : List String :=
  (if m.keysOk then [] else ["keys"]) ++ (if m.ownEdgesOk then [] else ["ownEdges"]) ++
  (if m.ownCellsOk then [] else ["ownCells"]) ++ (if m.refsOk then [] else ["refs"]) ++
  (if m.cellsNodup then [] else ["cellsNodup"]) ++ (if m.cyclesJoined then [] else ["cyclesJoined"])

/-- `Cell.calculate_neighbors` as a set (list without duplicates, first-occurrence order). -/
def neighbors (m : Mesh) (c : Cell) : List Id :=
  ((c.verts.map m.ownCells).flatten.eraseDups).erase c.id

end Mesh
end Forsys
