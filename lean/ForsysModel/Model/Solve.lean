/-
  ForsysModel.Model.Solve — exact-arithmetic vocabulary for the solver contracts.

  The numeric kernels forsys calls (numpy.linalg.inv, scipy nnls / lsq_linear, lmfit) are not modelled.
  Their contract ("returns a non-negative least-squares minimiser", "solves the square system") is checked per
  run on the floats they returned, which are exact rationals, by the executable certificate checkers below;
  the soundness of the checkers is a theorem (Props/C05.lean).
  Matrices are lists of rows.
-/
import ForsysModel.Model.FMatrix
namespace Forsys

abbrev Mat := List (List Rat)

def mulVec (M : Mat) (x : List Rat) : List Rat := M.map fun r => dot r x
def vsub (a b : List Rat) : List Rat := List.zipWith (· - ·) a b
def vadd (a b : List Rat) : List Rat := List.zipWith (· + ·) a b
def vscale (k : Rat) (a : List Rat) : List Rat := a.map (k * ·)
def normSq (a : List Rat) : Rat := dot a a
def col (M : Mat) (j : Nat) : List Rat := M.map fun r => r.getD j 0
/-- `Mᵀ r` for a matrix with `n` columns -/
def tMulVec (M : Mat) (n : Nat) (r : List Rat) : List Rat := (List.range n).map fun j => dot (col M j) r
/-- squared residual `‖M x − b‖²` -/
def residSq (M : Mat) (b x : List Rat) : Rat := normSq (vsub (mulVec M x) b)
/-- gradient (up to the factor 2) of the squared residual at `z`: `w = Mᵀ (M z − b)` -/
def grad (M : Mat) (b z : List Rat) : List Rat := tMulVec M z.length (vsub (mulVec M z) b)

def ratAbs' (q : Rat) : Rat := if q < 0 then -q else q

/-- `m × n` matrix with right-hand side of length `m` -/
def Shaped (M : Mat) (b : List Rat) (m n : Nat) : Prop :=
  M.length = m ∧ b.length = m ∧ ∀ r ∈ M, r.length = n

def shapedB (M : Mat) (b : List Rat) (m n : Nat) : Bool :=
  M.length == m && b.length == m && M.all fun r => r.length == n

/-- KKT certificate for `min ‖M x − b‖²  s.t. x ≥ 0` at `z`, with slack:
    `z ≥ 0`, `w_j ≥ −ε` for all `j`, `|z·w| ≤ δ`  where `w = Mᵀ(M z − b)`. -/
def kktCheck (M : Mat) (b z : List Rat) (eps delta : Rat) : Bool :=
  let w := grad M b z
  z.all (fun v => decide (0 ≤ v)) && w.all (fun v => decide (-eps ≤ v)) && decide (ratAbs' (dot z w) ≤ delta)

/-- certificate for the unconstrained problem: the gradient vanishes up to `ε` in every component -/
def statCheck (M : Mat) (b z : List Rat) (eps : Rat) : Bool :=
  (grad M b z).all fun v => decide (ratAbs' v ≤ eps)

/-- certificate for "exact solution of the square system": every residual component within `ε` -/
def solveCheck (M : Mat) (b z : List Rat) (eps : Rat) : Bool :=
  (vsub (mulVec M z) b).all fun v => decide (ratAbs' v ≤ eps)

/-- `add_lagrange_multiplier(LᵀL, Lᵀr, 0)` of general_matrix.py: the bordered normal equations
    `[[N, 1], [1ᵀ, 0]] (p, μ) = (g, 0)`. -/
def addLagrange (N : Mat) (g : List Rat) (constraint : Rat) : Mat × List Rat :=
  let cols := (N.head?.map (·.length)).getD 0
  (N.map (fun r => r ++ [1]) ++ [List.replicate cols (1 : Rat) ++ [0]], g ++ [constraint])

/-- `LᵀL` and `Lᵀr` as the code forms them (`lhs.T @ lhs`, `lhs.T @ rhs`) for a matrix with `n` columns -/
def gram (L : Mat) (n : Nat) : Mat := (List.range n).map fun i => (List.range n).map fun j => dot (col L i) (col L j)
def tRhs (L : Mat) (n : Nat) (r : List Rat) : List Rat := tMulVec L n r

end Forsys
