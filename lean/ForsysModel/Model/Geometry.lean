/-
  ForsysModel.Model.Geometry — model of forsys/cell.py geometry primitives
  (Cell.get_area, get_area_sign, get_next_vertex, get_previous_vertex, get_perimeter, get_cm).
-/
import ForsysModel.Model.Basic
namespace Forsys

/-- `Cell.get_area`: `0.5 * (np.dot(x, np.roll(y,1)) - np.dot(y, np.roll(x,1)))`. -/
def area (ps : List Pt) : Rat :=
  (1/2 : Rat) * (dot (ps.map (·.x)) (rollR (ps.map (·.y))) - dot (ps.map (·.y)) (rollR (ps.map (·.x))))

/-- `Cell.get_area_sign`: `int(np.sign(area))`. -/
def areaSign (ps : List Pt) : Int := ratSign (area ps)

/-- index of `get_next_vertex(vertices[i])`: `(i + sign) % len`. -/
def nextIdx (ps : List Pt) (i : Nat) : Nat := pyMod ((i : Int) + areaSign ps) ps.length

/-- index of `get_previous_vertex(vertices[i])`: `(i - sign) % len`. -/
def prevIdx (ps : List Pt) (i : Nat) : Nat := pyMod ((i : Int) - areaSign ps) ps.length

/-- squared lengths of the segments `v_i → next(v_i)` in the order `get_perimeter` adds them
    (the final `sqrt` and the float sum are done in IEEE arithmetic and are trusted). -/
def perimeterSq (ps : List Pt) : List Rat :=
  (List.range ps.length).map fun i => distSq (ps.getD i default) (ps.getD (nextIdx ps i) default)

/-- `Cell.get_cm`. -/
def cm (ps : List Pt) : Pt := ⟨mean (ps.map (·.x)), mean (ps.map (·.y))⟩

/-- the textbook shoelace sum `Σ (x_i y_{i+1} − x_{i+1} y_i)` over the closed polygon,
    written by structural recursion (reference for `area_eq_neg_shoelace`). -/
def crossSumOpen : List Pt → Rat
  | p :: q :: rest => (p.x * q.y - q.x * p.y) + crossSumOpen (q :: rest)
  | _ => 0

def shoelace2 (ps : List Pt) : Rat :=
  match ps with
  | [] => 0
  | p :: _ => crossSumOpen (ps ++ [p])

end Forsys
