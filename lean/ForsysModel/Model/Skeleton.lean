/-
  ForsysModel.Model.Skeleton — model of forsys/skeleton.py `Skeleton.create_lattice` *given the contour lists*.

  `cv2.findContours` (Suzuki border following) is the trusted external kernel: `Skeleton.contours` — the pixel
  sequences that survive the code's own filtering in `__post_init__` — are the input of the model.
  Modelled: `mirror_y`, interning of vertices by pixel position (`coords_to_key`), `create_edge` with the
  `(v1,v2)`/`(v2,v1)` de-duplication and the closing edge, the cells, `create_edges_new` (= `Mesh.bigEdgesList`),
  `is_border` / `external` flags, the inner-triangle loop, `get_artifacts`, the grouping loop
  (`add_vertices_to_current`), `do_t3_transition` (`get_new_vid`), the isolated-cell removal — with the CPython
  object semantics that the code relies on:
    * a Python list that is mutated while a `for` loop runs over it is read by position (`liveDel…`, the
      isolated-cell loop; the inner-triangle loop iterates over a copy of `ownEdges`);
    * `SmallEdge.__del__` runs when the last reference goes; the loop variable `e` of
      `for e in self.edges.values(): … e.external = …` keeps the *last* mesh edge alive until `e` is rebound
      (`pinned`); if that edge is deleted from the dict meanwhile its `__del__` does not run (`zombie`) and its id
      stays in both end vertices' `ownEdges` (finding D16);
    * `del self.vertices[k]` removes the key, the object lives on (`dead`): cells and edges keep referring to it.
  Exceptions of the Python code are error values.
-/
import ForsysModel.Model.Construct
namespace Forsys
namespace Skel

/-- a pixel position `(x, y)` as OpenCV reports it (column, row) -/
abbrev Px := Int × Int

inductive Err where
  | keyError | indexError | valueError | assertionError
  /-- a contour with fewer than two points: `np.vstack(p).squeeze()` is then one-dimensional and the loop over
      `polygon` does not see points (outside the model) -/
  | shortContour
deriving Repr, DecidableEq, Inhabited

/-! ### `mirror_y` -/

/-- `self.max_y = float(max(chain(*[list(zip(*c))[1] for c in self.contours])))` -/
def maxY (cs : List (List Px)) : Int :=
  match cs.flatten.map (·.2) with
  | [] => 0
  | y :: r => r.foldl max y

/-- `coords[1] = self.max_y - coords[1]` on every point (the code overwrites the contour arrays in place) -/
def mirror (cs : List (List Px)) : List (List Px) :=
  let my := maxY cs
  cs.map fun c => c.map fun p => (p.1, my - p.2)

/-! ### interning by pixel position -/

/-- `self.coords_to_key[tuple(coords)]` -/
def lookup (p : Px) : List (Px × Id) → Option Id
  | [] => none
  | (q, k) :: l => if p = q then some k else lookup p l

/-- `get_vertex_id_by_position` + creation: a new position gets the next id `self.vertex_id` (= number of
    positions stored so far) -/
def internPx (keys : List (Px × Id)) (p : Px) : Id × List (Px × Id) :=
  match lookup p keys with
  | some k => (k, keys)
  | none => ((keys.length : Int), keys ++ [(p, (keys.length : Int))])

/-- the loop `for coords in polygon`: ids of the contour's pixels in order (`cell_vertices_list`) -/
def internContour (keys : List (Px × Id)) : List Px → List Id × List (Px × Id)
  | [] => ([], keys)
  | p :: c =>
    let r := internPx keys p
    let s := internContour r.2 c
    (r.1 :: s.1, s.2)

/-- `create_edge`: `if not (v1.id, v2.id) in self.edges_added and not (v2.id, v1.id) in self.edges_added` -/
def addEdge (ea : List (Id × Id)) (ab : Id × Id) : List (Id × Id) :=
  if ea.contains ab || ea.contains (ab.2, ab.1) then ea else ea ++ [ab]

structure Raw where
  /-- `coords_to_key` in insertion order -/
  keys : List (Px × Id)
  /-- `edges_added`; the mesh edge with id `i` joins `edgesAdded[i]` -/
  edgesAdded : List (Id × Id)
  /-- the vertex cycle of cell `i` -/
  cells : List (List Id)
deriving Repr, Inhabited

/-- body of `for _, polygon in enumerate(self.contours)`: intern the pixels, then
    `create_edge(n - 1, n)` for `n = 1 … len-1` and the closing `create_edge(n, 0)` — the cyclic pairs -/
def stepContour (st : Raw) (c : List Px) : Raw :=
  let r := internContour st.keys c
  { keys := r.2, edgesAdded := (cyclicPairs r.1).foldl addEdge st.edgesAdded, cells := st.cells ++ [r.1] }

def rawOf (cs : List (List Px)) : Raw := cs.foldl stepContour { keys := [], edgesAdded := [], cells := [] }

/-- what makes the first loop raise: a contour of fewer than two points, or two consecutive equal points
    (`SmallEdge.__post_init__`: `assert self.v1.id != self.v2.id`) -/
def precheck : List (List Px) → Option Err
  | [] => none
  | c :: cs =>
    if c.length < 2 then some .shortContour
    else if (cyclicPairs c).any (fun pq => pq.1 == pq.2) then some .assertionError
    else precheck cs

def enumFrom {α : Type} : Nat → List α → List (Id × α)
  | _, [] => []
  | n, a :: l => ((n : Int), a) :: enumFrom (n + 1) l

def rawVertices (r : Raw) : List (Id × Rat × Rat) := r.keys.map fun pk => (pk.2, (pk.1.1 : Rat), (pk.1.2 : Rat))
def rawEdges (r : Raw) : List (Id × Id × Id) := (enumFrom 0 r.edgesAdded).map fun p => (p.1, p.2.1, p.2.2)
def rawCells (r : Raw) : List (Id × List Id) := enumFrom 0 r.cells

/-- the three dictionaries after the first loop.  The code creates vertices, mesh edges and cells contour by
    contour; `ownEdges` / `ownCells` are filled in id order either way, so the result is the parser pattern -/
def rawMesh (cs : List (List Px)) : Mesh :=
  let r := rawOf cs
  Mesh.ofLists (rawVertices r) (rawEdges r) (rawCells r)

/-! ### border flags -/

/-- `if np.any([len(v.ownCells) == 1 for v in current_cell.vertices]): current_cell.is_border = True` -/
def borderCells (m : Mesh) : List Id :=
  (m.cells.filter fun p => p.2.verts.any fun v => (m.ownCells v).length == 1).map (·.1)

/-- `e.external = len(e.v1.ownCells) == 1 or len(e.v2.ownCells) == 1` -/
def externalEdges (m : Mesh) : List Id :=
  (m.edges.filter fun p => (m.ownCells p.2.v1).length == 1 || (m.ownCells p.2.v2).length == 1).map (·.1)

/-! ### the clean-up state -/

structure St where
  /-- `mesh.vertices` holds every vertex *object* ever created (never shrinks); the dict `self.vertices` is the
      sub-list of ids not in `dead` -/
  mesh : Mesh
  dead : List Id
  /-- id of the mesh edge the local variable `e` of `create_lattice` still refers to -/
  pinned : Option Id
  /-- the pinned edge after `del self.edges[id]`: gone from the dict, `__del__` pending -/
  zombie : Option SEdge
  /-- a new vertex received the id of a deleted one (two objects with one id: not representable; the harness
      does not compare such runs) -/
  idReused : Bool
deriving Repr, Inhabited

def St.live (st : St) (k : Id) : Bool := (st.mesh.vertex? k).isSome && !st.dead.contains k

/-- `self.vertices[k]` -/
def St.getV (st : St) (k : Id) : Except Err Vertex :=
  if st.dead.contains k then .error .keyError
  else match st.mesh.vertex? k with
    | some v => .ok v
    | none => .error .keyError

/-- `SmallEdge.__del__` of the zombie, when the last reference goes -/
def St.release (st : St) : St :=
  match st.zombie with
  | none => { st with pinned := none }
  | some e =>
    let m := (st.mesh.updVertex e.v1 fun v => { v with ownEdges := v.ownEdges.erase e.id }).updVertex e.v2
              fun v => { v with ownEdges := v.ownEdges.erase e.id }
    { st with mesh := m, zombie := none, pinned := none }

/-- `del self.edges[k]` -/
def St.delEdge (st : St) (k : Id) : Except Err St :=
  match st.mesh.edge? k with
  | none => .error .keyError
  | some e =>
    if st.pinned = some k then
      .ok { st with mesh := { st.mesh with edges := st.mesh.edges.filter fun p => p.1 != k }, zombie := some e }
    else .ok { st with mesh := st.mesh.delEdge k }

/-- `for x in v.ownEdges: del self.edges[x]` where `v.ownEdges` shrinks under the loop: the list is read by
    position.  `rebind`: the loop variable is `e`, so its first assignment drops the pinned reference. -/
def liveDel : Nat → St → Id → Nat → Bool → Except Err St
  | 0, st, _, _, _ => .ok st
  | fuel + 1, st, v, i, rebind =>
    match (st.mesh.ownEdges v)[i]? with
    | none => .ok st
    | some x =>
      let st := if rebind then st.release else st
      match st.delEdge x with
      | .error err => .error err
      | .ok st => liveDel fuel st v (i + 1) false

/-- `Cell.replace_vertex(vold, vnew)` on cell `cid` (first occurrence only: `vertices_ids.index(vold.id)`) -/
def replaceFirst (vold vnew : Id) : List Id → List Id
  | [] => []
  | a :: l => if a = vold then vnew :: l else a :: replaceFirst vold vnew l

def cellReplace (m : Mesh) (cid vold vnew : Id) : Except Err Mesh :=
  match m.cell? cid with
  | none => .error .keyError
  | some c =>
    if !c.verts.contains vold then .error .valueError
    else if c.verts.contains vnew then
      .ok (m.updCell cid fun c => { c with verts := c.verts.erase vold })
    else
      .ok ((m.updCell cid fun c => { c with verts := replaceFirst vold vnew c.verts }).updVertex vnew
            (Mesh.addCellTo · cid))

/-- `SmallEdge.replace_vertex(vold, vnew)`; `ownEdges.remove(self.id)` raises ValueError when absent -/
def edgeReplace (m : Mesh) (eid vold vnew : Id) : Except Err Mesh :=
  match m.edge? eid with
  | none => .error .keyError
  | some e =>
    let oldEnd := if e.v1 == vold then e.v1 else e.v2
    if !(m.ownEdges oldEnd).contains eid then .error .valueError
    else .ok (m.edgeReplaceVertex eid vold vnew)

def foldE {α β : Type} (f : β → α → Except Err β) : β → List α → Except Err β
  | b, [] => .ok b
  | b, a :: l =>
    match f b a with
    | .error e => .error e
    | .ok b' => foldE f b' l

/-! ### triangles in the middle -/

/-- `first_last = [(e[0], e[-1]) …] + [(e[-1], e[0]) …]` -/
def firstLast (bigs : List (List Id)) : List (Id × Id) :=
  (bigs.map fun e => (e.headD 0, e.getLastD 0)) ++ (bigs.map fun e => (e.getLastD 0, e.headD 0))

/-- `[k for k, v in Counter(first_last).items() if v > 1]` (first-occurrence order) -/
def dupKeys (l : List (Id × Id)) : List (Id × Id) := l.eraseDups.filter fun k => l.count k > 1

def minOf : List Id → Option Id
  | [] => none
  | a :: l => some (l.foldl min a)

/-- `same_ends = [e for e in self.all_big_edges if (e[0], e[-1]) == triangle_ends or (e[-1], e[0]) == triangle_ends]` -/
def sameEnds (bigs : List (List Id)) (k : Id × Id) : List (List Id) :=
  bigs.filter fun e => (e.headD 0, e.getLastD 0) == k || (e.getLastD 0, e.headD 0) == k

/-- `max(l, key=len)`: the first of the longest (`none`: ValueError on an empty list) -/
def firstLongest : List (List Id) → Option (List Id)
  | [] => none
  | a :: l => some (l.foldl (fun b x => if x.length > b.length then x else b) a)

/-- `min(l, key=len)`: the first of the shortest -/
def firstShortest : List (List Id) → Option (List Id)
  | [] => none
  | a :: l => some (l.foldl (fun b x => if x.length < b.length then x else b) a)

/-- body of `for triangle_ends in inner_edge_triangles` -/
def triStep (bigs : List (List Id)) (sv : St × List (Id × Id)) (k : Id × Id) :
    Except Err (St × List (Id × Id)) :=
  let st := sv.1
  let visited := sv.2
  if visited.contains k || visited.contains (k.2, k.1) then .ok sv
  else
    let same := sameEnds bigs k
    match firstLongest same, firstShortest same with
    | some e0, some e1 =>
      -- `extra_vertices = np.setdiff1d(edge_0, edge_1)` (sorted, unique); `vertex_id_to_delete = extra_vertices[0]`
      match minOf (e0.filter fun v => !e1.contains v) with
      | none => .ok sv
      | some vdel =>
        if e0.length > 3 then .ok sv
        else
          match st.getV vdel, st.getV (e0.headD 0) with
          | .error e, _ => .error e
          | .ok vx, tgt =>
            -- `for cell_id in its_cells: self.cells[cell_id].replace_vertex(vertices[vdel], vertices[edge_0[0]])`
            let cellsStep : Except Err Mesh :=
              match vx.ownCells, tgt with
              | [], _ => .ok st.mesh
              | _ :: _, .error e => .error e
              | cs, .ok t => foldE (fun m c => cellReplace m c vdel t.id) st.mesh cs
            match cellsStep with
            | .error e => .error e
            | .ok m =>
              let st := { st with mesh := m }
              -- `its_edges = list(ownEdges)`; `for edge_id in its_edges: del self.edges[edge_id]` (a snapshot; the
              -- loop variable is not `e`, the pinned reference stays)
              match foldE (fun st x => st.delEdge x) st (st.mesh.ownEdges vdel) with
              | .error e => .error e
              | .ok st => .ok ({ st with dead := st.dead ++ [vdel] }, visited ++ [k])
    -- `max([])`: not reachable, a key of `first_last` is matched by the interface it comes from
    | _, _ => .error .valueError

def triangles (st : St) (bigs : List (List Id)) : Except Err St :=
  match foldE (triStep bigs) (st, []) (dupKeys (firstLast bigs)) with
  | .error e => .error e
  | .ok sv => .ok sv.1

/-! ### artefacts -/

def insertSorted (a : Id) : List Id → List Id
  | [] => [a]
  | b :: l => if a ≤ b then a :: b :: l else b :: insertSorted a l

def sortIds (l : List Id) : List Id := l.foldr insertSorted []

def St.liveVertices (st : St) : List (Id × Vertex) := st.mesh.vertices.filter fun p => !st.dead.contains p.1

/-- `get_artifacts`: vertices with three mesh edges and two cells that are not an end of an external mesh edge
    (`np.setdiff1d`: sorted, unique) -/
def getArtifacts (st : St) (external : List Id) : List Id :=
  let cand := (st.liveVertices.filter fun p => p.2.ownEdges.length == 3 && p.2.ownCells.length == 2).map (·.2.id)
  let ext := ((st.mesh.edges.filter fun p => external.contains p.1).map fun p => [p.2.v1, p.2.v2]).flatten
  (sortIds (cand.filter fun v => !ext.contains v)).eraseDups

/-- `add_vertices_to_current(all, [v0])`: the artefact vertices joined to `v0`, in the order of `v0.ownEdges` -/
def addVerticesToCurrent (st : St) (all : List Id) (current : List Id) : Except Err (List Id) :=
  match current.getLast? with
  | none => .error .indexError
  | some v0 =>
    match st.getV v0 with
    | .error e => .error e
    | .ok vx =>
      foldE (fun cur eid =>
        match st.mesh.edge? eid with
        | none => .error .keyError
        | some e =>
          if e.v1 != v0 && e.v2 != v0 then .error .assertionError
          else
            let other := if v0 == e.v2 then e.v1 else e.v2
            if all.contains other && !cur.contains other then .ok (cur ++ [other]) else .ok cur) current vx.ownEdges

/-- the `while len(all_artifact_vertices) != 0` loop.  The inner `while` runs its body exactly once
    (`current_len0` is set to the new length right after the call). -/
def groupArtifacts : Nat → St → List Id → Except Err (List (List Id))
  | 0, _, _ => .ok []
  | _, _, [] => .ok []
  | fuel + 1, st, a :: rest =>
    match addVerticesToCurrent st (a :: rest) [a] with
    | .error e => .error e
    | .ok cur =>
      match groupArtifacts fuel st ((a :: rest).filter fun x => !cur.contains x) with
      | .error e => .error e
      | .ok gs => .ok (cur :: gs)

/-- `get_new_vid`: `max(self.vertices.keys()) + 1` -/
def newVid (st : St) : Id :=
  match st.liveVertices.map (·.1) with
  | [] => 1
  | k :: r => r.foldl max k + 1

/-- the body of `for v in artifact` in `do_t3_transition` -/
def t3Vertex (artifact : List Id) (newId : Id) (st : St) (v : Id) : Except Err St :=
  match st.getV v with
  | .error e => .error e
  | .ok vx =>
    -- classification pass over `ownEdges` (`self.edges[e]`: KeyError on a stale entry)
    match foldE (fun (acc : List Id × List Id) eid =>
        match st.mesh.edge? eid with
        | none => .error .keyError
        | some e => if artifact.contains e.v1 && artifact.contains e.v2 then .ok (acc.1 ++ [eid], acc.2)
                    else .ok (acc.1, acc.2 ++ [eid])) ([], []) vx.ownEdges with
    | .error e => .error e
    | .ok (toRemove, toReplace) =>
      match foldE (fun st k => st.delEdge k) st toRemove with
      | .error e => .error e
      | .ok st =>
        match foldE (fun m k => edgeReplace m k v newId) st.mesh toReplace with
        | .error e => .error e
        | .ok m =>
          match foldE (fun m c => cellReplace m c v newId) m (m.ownCells v) with
          | .error e => .error e
          | .ok m => .ok { st with mesh := m }

/-- `do_t3_transition(artifact)` -/
def t3 (st : St) (artifact : List Id) : Except Err St :=
  match foldE (fun (acc : List Rat × List Rat) v =>
      match st.getV v with
      | .error e => .error e
      | .ok vx => .ok (acc.1 ++ [vx.x], acc.2 ++ [vx.y])) ([], []) artifact with
  | .error e => .error e
  | .ok (xs, ys) =>
    let newId := newVid st
    let reused := (st.mesh.vertex? newId).isSome
    let st := { st with mesh := st.mesh.mkVertex newId (mean xs) (mean ys),
                        dead := st.dead.filter (· != newId), idReused := st.idReused || reused }
    match foldE (t3Vertex artifact newId) st artifact with
    | .error e => .error e
    | .ok st =>
      -- `if len(self.vertices[artifact[jj]].ownEdges) == 0: del self.vertices[artifact[jj]]`
      foldE (fun st v =>
        match st.getV v with
        | .error e => .error e
        | .ok vx => if vx.ownEdges.isEmpty then .ok { st with dead := st.dead ++ [v] } else .ok st) st artifact

/-! ### isolated cells -/

/-- body of `for c in self.cells.values()` of the last loop; `first` = the loop variable `e` has not been
    rebound yet -/
def isolatedStep (acc : St × Bool × List Id) (c : Id × Cell) : Except Err (St × Bool × List Id) :=
  let st := acc.1
  if c.2.verts.all fun v => decide ((st.mesh.ownCells v).length ≤ 1) then
    match foldE (fun (a : St × Bool) v =>
        let n := (a.1.mesh.ownEdges v).length
        match liveDel (n + 1) a.1 v 0 a.2 with
        | .error e => .error e
        | .ok st' =>
          -- `try: del self.vertices[v.id] except KeyError: print(...)`
          let st'' := if st'.dead.contains v then st' else { st' with dead := st'.dead ++ [v] }
          .ok (st'', a.2 && n == 0)) (st, acc.2.1) c.2.verts with
    | .error e => .error e
    | .ok a => .ok (a.1, a.2, acc.2.2 ++ [c.1])
  else .ok acc

/-! ### `create_lattice` -/

structure Lattice where
  mesh : Mesh
  /-- cells with `is_border = True` -/
  border : List Id
  /-- mesh edges (that survive) with `external = True` -/
  external : List Id
  /-- `self.all_big_edges` -/
  bigEdges : List (List Id)
  /-- groups handed to `do_t3_transition` -/
  artifacts : List (List Id)
  /-- vertices removed by the inner-triangle loop -/
  triangleDeleted : List Id
  /-- cells removed by the last loop -/
  isolated : List Id
  /-- the pinned mesh edge was deleted while pinned (D16 mechanism) -/
  zombieSeen : Bool
  idReused : Bool
deriving Repr, Inhabited

/-- the dicts at return: dead keys dropped; `same` flags = the referenced vertex objects are still stored -/
def finalMesh (st : St) : Mesh :=
  let live (k : Id) : Bool := st.live k
  { vertices := st.liveVertices,
    edges := st.mesh.edges.map fun p => (p.1, { p.2 with same := live p.2.v1 && live p.2.v2 }),
    cells := st.mesh.cells.map fun p => (p.1, { p.2 with same := p.2.verts.all live }) }

/-- input predicate of finding D16: the mesh edge created last (the one the loop variable `e` keeps alive) has
    both ends in one artefact group, or was deleted by the inner-triangle loop -/
def d16Pred (st : St) (groups : List (List Id)) : Bool :=
  st.zombie.isSome ||
  match st.pinned.bind st.mesh.edge? with
  | some pe => groups.any fun g => g.contains pe.v1 && g.contains pe.v2
  | none => false

/-- everything after the first loop, on a given mesh (so that the stage can be run on dumps as well).
    Second component: `d16Pred`. -/
def cleanup (m0 : Mesh) : Except Err Lattice × Bool :=
  let bigs := m0.bigEdgesList
  let border := borderCells m0
  let external := externalEdges m0
  let st0 : St := { mesh := m0, dead := [], pinned := (m0.edges.getLast?.map (·.1)), zombie := none, idReused := false }
  match triangles st0 bigs with
  | .error e => (.error e, false)
  | .ok st1 =>
    let triDel := st1.dead
    let arts := getArtifacts st1 external
    match groupArtifacts (arts.length + 1) st1 arts with
    | .error e => (.error e, st1.zombie.isSome)
    | .ok groups =>
      let d16 := d16Pred st1 groups
      match foldE t3 st1 groups with
      | .error e => (.error e, d16)
      | .ok st2 =>
        match foldE isolatedStep (st2, true, []) st2.mesh.cells with
        | .error e => (.error e, d16)
        | .ok (st3, _, iso) =>
          let st4 := st3.release
          -- `for cid in cells_to_remove: del self.cells[cid]` (`Cell.__del__` runs at the latest on return)
          let m := iso.foldl (fun m c => m.delCell c) st4.mesh
          let st5 := { st4 with mesh := m }
          (.ok { mesh := finalMesh st5, border := border.filter (fun c => !iso.contains c),
                 external := external.filter (fun k => (st5.mesh.edge? k).isSome),
                 bigEdges := bigs, artifacts := groups, triangleDeleted := triDel, isolated := iso,
                 zombieSeen := d16, idReused := st5.idReused }, d16)

/-- `Skeleton(fname, mirror_y).create_lattice()` given `self.contours` as left by `__post_init__` -/
def createLattice (contours : List (List Px)) (mirrorY : Bool) : Except Err Lattice × Bool :=
  let cs := if mirrorY then mirror contours else contours
  match precheck cs with
  | some e => (.error e, false)
  | none => cleanup (rawMesh cs)

end Skel
end Forsys
