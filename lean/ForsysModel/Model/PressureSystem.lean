/-
  ForsysModel.Model.PressureSystem — the ASSEMBLY of the pressure system (property C04):
    PressureMatrix._build_matrix / get_row (forsys/pmatrix.py) on a whole mesh —
    `big_edges_to_use` = the internal interfaces in the order of `Frame.internal_big_edges`,
    `mapping_order` = position of a cell key in the cell dictionary,
    `big_edge.own_cells` (`Mesh.bigEdgeOwnCells`), `cells[own_cells[0]].get_area_sign()`,
    one row `pressureRow` and one right-hand side `pressureRhs` per internal interface,
    `removed_columns` = the columns that are zero in every row.
  The tension of an interface and its total turning (`calculate_total_curvature`, whose square roots are trusted IEEE
  steps) are INPUTS, both keyed by the position of the interface in `big_edges_list`.
  (Moved here from the driver operation `pmatrix`, ForsysModel/Driver/Pressure.lean, which now calls it.)
-/
import ForsysModel.Model.Pressure
import ForsysModel.Model.Geometry
namespace Forsys

/-- what `PressureMatrix._build_matrix` leaves behind (before `np.delete` of the removed columns) -/
structure PSystem where
  /-- positions (in `big_edges_list`) of the interfaces that got an equation, in row order -/
  internal : List Nat
  /-- `len(big_edge.own_cells)` per row; `get_row` raises `ValueError` unless it is 2 -/
  ownCellCounts : List Nat
  /-- `lhs_matrix` with all `len(frame.cells)` columns -/
  lhs : Mat
  /-- `rhs_matrix` -/
  rhs : List Rat
  /-- `removed_columns` -/
  removed : List Nat
deriving Repr, DecidableEq

namespace Mesh

/-- `mapping_order[c]`: the position of the key `c` in the cell dictionary; a key that is absent (KeyError in Python)
    gets the out-of-range position `len(cells)`, so that it marks no column -/
def cellPos (m : Mesh) (c : Id) : Nat := (indexOf? c (m.cells.map (·.1))).getD (m.cells.map (·.1)).length

/-- the vertex positions of the stored cycle of cell `a` (`[]` for an absent key), the argument of `get_area_sign` -/
def cellCycle (m : Mesh) (a : Id) : List Pt :=
  match m.cell? a with
  | some c => c.verts.map m.pt
  | none => []

/-- `get_row(big_edge)[0]` for the interface `e`: own cells `a = own_cells[0]`, `b = own_cells[1]` (the id `0` stands in
    for a missing entry — Python raises there, see `PSystem.ownCellCounts`), sign of the stored cycle of `a` -/
def interfaceRow (m : Mesh) (e : List Id) : List Rat :=
  let oc := m.bigEdgeOwnCells e
  let a := oc.getD 0 0
  let b := oc.getD 1 0
  pressureRow (m.cells.map (·.1)).length (m.cellPos a) (m.cellPos b) (areaSign (m.cellCycle a))

/-- `PressureMatrix._build_matrix`: `tens[i]`, `curv[i]` are the tension and the total turning of interface `i` of
    `big_edges_list` (missing entries read as `0`) -/
def pressureSystem (m : Mesh) (tens curv : List Rat) : PSystem :=
  let earr := m.bigEdgesList
  let internal := m.internalIdx earr
  let ncells := (m.cells.map (·.1)).length
  let rows := internal.map fun i =>
    let e := earr.getD i []
    ((m.bigEdgeOwnCells e).length, m.interfaceRow e, pressureRhs (tens.getD i 0) (curv.getD i 0))
  let L := rows.map (·.2.1)
  { internal := internal,
    ownCellCounts := rows.map (·.1),
    lhs := L,
    rhs := rows.map (·.2.2),
    removed := removedColumns L ncells }

end Mesh
end Forsys
