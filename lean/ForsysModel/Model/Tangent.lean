/-
  ForsysModel.Model.Tangent — model of BigEdge.get_vector_from_vertex / get_versor_sign /
  get_straight_edge_versor_from_vid (forsys/edge.py).

  The circle centre is an input (contract of the external circle fit, checked per run).
  The final normalisation `vector / np.linalg.norm(vector)` needs a square root; the model returns the
  un-normalised vector and the harness normalises (trusted IEEE `sqrt`).
-/
import ForsysModel.Model.Basic
namespace Forsys

structure Vec where
  x : Rat
  y : Rat
deriving Repr, DecidableEq, Inhabited

namespace Vec
def dot (a b : Vec) : Rat := a.x * b.x + a.y * b.y
def normSq (a : Vec) : Rat := a.x * a.x + a.y * a.y
def neg (a : Vec) : Vec := ⟨-a.x, -a.y⟩
def smul (k : Rat) (a : Vec) : Vec := ⟨k * a.x, k * a.y⟩
def sub (p q : Pt) : Vec := ⟨p.x - q.x, p.y - q.y⟩
/-- rotation by +90°: `(-y, x)` -/
def perp (a : Vec) : Vec := ⟨-a.y, a.x⟩
end Vec

/-- `get_versor_sign`: `np.sign` of the chord with `0 ↦ 1.0`. -/
def forcedSign (q : Rat) : Int := if ratSign q = 0 then 1 else ratSign q

/-- `get_vector_from_vertex` given the vertex `p`, the fitted centre `c` and the chord to the neighbouring
    interface point (`get_straight_edge_versor_from_vid`), literally:
    `vector = (-(p.y - yc), p.x - xc)`; if any component sign differs from the chord's forced sign,
    `vector *= correct_sign * np.sign(vector)`. -/
def tangentVec (p c : Pt) (chord : Vec) : Vec :=
  let v : Vec := ⟨-(p.y - c.y), p.x - c.x⟩
  let cx := forcedSign chord.x
  let cy := forcedSign chord.y
  if ratSign v.x ≠ cx ∨ ratSign v.y ≠ cy then
    ⟨v.x * ((cx * ratSign v.x : Int) : Rat), v.y * ((cy * ratSign v.y : Int) : Rat)⟩
  else v

/-- reference variant: orient the perpendicular by the sign of its dot product with the chord
    (not what the code does; kept to state what the per-component forcing loses — finding D2). -/
def tangentVecDot (p c : Pt) (chord : Vec) : Vec :=
  let v : Vec := ⟨-(p.y - c.y), p.x - c.x⟩
  if Vec.dot v chord < 0 then v.neg else v

/-- the chord used for the orientation: towards the second point when `vid` is the first id of the
    interface, towards the last-but-one when it is the last; `none` = the code raises. -/
def chordAt (ids : List Id) (pts : List Pt) (vid : Id) : Option (Pt × Vec) :=
  match ids, pts with
  | i0 :: _ :: _, p0 :: p1 :: _ =>
    if i0 = vid then some (p0, Vec.sub p1 p0)
    else
      match ids.reverse, pts.reverse with
      | j0 :: _ :: _, q0 :: q1 :: _ => if j0 = vid then some (q0, Vec.sub q1 q0) else none
      | _, _ => none
  | _, _ => none

/-- `get_vector_from_vertex(vid)` for an interface with vertex ids `ids`, points `pts`, fitted centre `c`. -/
def vectorFromVertex (ids : List Id) (pts : List Pt) (c : Pt) (vid : Id) : Option Vec :=
  (chordAt ids pts vid).map fun (p, ch) =>
    -- `if method == "edge" and len(self.vertices) == 2: return chord` (repair of finding D1)
    if ids.length = 2 then ch else tangentVec p c ch

end Forsys
