/-
  ForsysModel.Model.StressTensor — model of forsys/stress_tensor.py (`get_big_edges_df`, `stress_tensor`)
  and of `Frame.calculate_stress_tensor` (forsys/frames.py) up to the call of `np.linalg.eig`.

  Plain data in, plain data out.  Inputs that the Python code obtains from external kernels are
  inputs of the model:
    * the fitted circle centre of every interface (`calculate_circle_center`),
    * `np.linalg.norm(vector)` of every interface vector (a square root),
    * the histogram bin edges returned by `np.histogram` (the exact-arithmetic value of numpy's
      `linspace(min, max, grid+1)` is `binEdges`, compared with numpy by the harness),
    * `min_distance**2` (contains a square root and π),
    * the eigen-decomposition: the model stops at the 2×2 tensor handed to `np.linalg.eig`.
-/
import ForsysModel.Model.Basic
import ForsysModel.Model.Tangent
namespace Forsys

/-! ### `get_big_edges_df`: the interface vector and the two cells -/

/-- `orientation = np.dot(xs, np.roll(ys,1)) - np.dot(ys, np.roll(xs,1))` of an interface polyline. -/
def beOrientation (pts : List Pt) : Rat :=
  dot (pts.map (·.x)) (rollR (pts.map (·.y))) - dot (pts.map (·.y)) (rollR (pts.map (·.x)))

/-- the vertex the vector is taken from: `vertices[0]` if `orientation > 0` else `vertices[-1]`. -/
def beVid (ids : List Id) (pts : List Pt) : Option Id :=
  if 0 < beOrientation pts then ids.head? else ids.getLast?

/-- `BigEdge.get_vector_from_vertex(vid)` with the default `method="edge"`:
    a two-point interface returns the chord (`get_straight_edge_versor_from_vid`), otherwise the
    sign-forced perpendicular of the radius (`Tangent.vectorFromVertex`, centre `c` is an input).
    `none` = the Python code raises. -/
def beVectorFrom (ids : List Id) (pts : List Pt) (c : Pt) (vid : Id) : Option Vec :=
  if ids.length = 2 then (chordAt ids pts vid).map (·.2) else vectorFromVertex ids pts c vid

/-- the entry of the `vector` column of `get_big_edges_df` for one interface. -/
def beVector (ids : List Id) (pts : List Pt) (c : Pt) : Option Vec :=
  (beVid ids pts).bind (beVectorFrom ids pts c)

/-- `cell1 = own_cells[0]` (`none`: IndexError), `cell2 = own_cells[1]` or `-1` when absent. -/
def beCellPair (own : List Id) : Option (Id × Id) :=
  match own with
  | [] => none
  | a :: rest => some (a, rest.headD (-1))

/-! ### rows of the two data frames -/

/-- one row of `get_cells_df`: `ids, xcm, ycm, area (= abs(get_area())), pressure`. -/
structure CellRow where
  id : Id
  xcm : Rat
  ycm : Rat
  area : Rat
  pressure : Rat
deriving Repr, DecidableEq, Inhabited

/-- one row of `get_big_edges_df`: `stress (= tension), vector, cell1, cell2`, plus
    `norm = np.linalg.norm(vector)` (input: needs a square root). -/
structure EdgeRow where
  stress : Rat
  vx : Rat
  vy : Rat
  norm : Rat
  cell1 : Id
  cell2 : Id
deriving Repr, DecidableEq, Inhabited

def CellRow.setP (k : CellRow) (p : Rat) : CellRow := { k with pressure := p }
def EdgeRow.setT (e : EdgeRow) (t : Rat) : EdgeRow := { e with stress := t }

/-- symmetric-or-not 2×2 matrix `[[xx, xy], [yx, yy]]` -/
structure Mat2 where
  xx : Rat
  xy : Rat
  yx : Rat
  yy : Rat
deriving Repr, DecidableEq, Inhabited

namespace Mat2
def zero : Mat2 := ⟨0, 0, 0, 0⟩
def add (a b : Mat2) : Mat2 := ⟨a.xx + b.xx, a.xy + b.xy, a.yx + b.yx, a.yy + b.yy⟩
def smul (k : Rat) (a : Mat2) : Mat2 := ⟨k * a.xx, k * a.xy, k * a.yx, k * a.yy⟩
/-- `s · I` -/
def scalar (s : Rat) : Mat2 := ⟨s, 0, 0, s⟩
end Mat2

/-! ### histogram grid -/

/-- exact value of the edges `np.histogram(a, grid)[1]` for data with minimum `lo`, maximum `hi`:
    `np.linspace(first, last, grid+1)` where `(first, last) = (lo - 0.5, hi + 0.5)` if `lo == hi`
    else `(lo, hi)`  (`numpy.lib.histograms._get_outer_edges`). -/
def binEdges (lo hi : Rat) (grid : Nat) : List Rat :=
  let first := if lo = hi then lo - 1/2 else lo
  let last := if lo = hi then hi + 1/2 else hi
  (List.range (grid + 1)).map fun (i : Nat) => first + (i : Rat) * ((last - first) / (grid : Rat))

/-- `[(bins[ii] + bins[ii+1]) / 2 for ii in range(len(bins) - 1)]` -/
def binCenters (bins : List Rat) : List Rat :=
  (List.range (bins.length - 1)).map fun ii => (bins.getD ii 0 + bins.getD (ii + 1) 0) / 2

/-- `center = ((x_bins[row+1] + x_bins[row]) / 2, (y_bins[column+1] + y_bins[column]) / 2)` -/
def gridCenter (xb yb : List Rat) (row col : Nat) : Pt :=
  ⟨(xb.getD (row + 1) 0 + xb.getD row 0) / 2, (yb.getD (col + 1) 0 + yb.getD col 0) / 2⟩

/-! ### one grid cell -/

/-- `cells.loc[(center[0] - xcm)**2 + (center[1] - ycm)**2 <= min_distance**2]` -/
def selectCells (cells : List CellRow) (c : Pt) (md2 : Rat) : List CellRow :=
  cells.filter fun k => (c.x - k.xcm) * (c.x - k.xcm) + (c.y - k.ycm) * (c.y - k.ycm) ≤ md2

/-- `current_cell_mesh["area"].sum()` -/
def totalArea (sel : List CellRow) : Rat := (sel.map (·.area)).sum

/-- `- np.sum([cell["pressure"] * cell["area"] for ...])` -/
def pressureAreaTerm (sel : List CellRow) : Rat := - (sel.map fun k => k.pressure * k.area).sum

/-- `big_edges.loc[cell1.isin(ids) | cell2.isin(ids)]`  (literally: a `cell2` of `-1` matches a cell whose id is `-1`). -/
def selectEdges (edges : List EdgeRow) (ids : List Id) : List EdgeRow :=
  edges.filter fun e => ids.contains e.cell1 || ids.contains e.cell2

/-- `tension_xx += stress * (v[0] * v[0]) / vector_norm` over the selected interfaces
    (the Python loop adds left to right starting from 0; over the rationals the order is immaterial).
    A zero `norm` is outside the domain: numpy raises (`np.seterr(all='raise')`), `Rat` division gives 0. -/
def tensionXX (es : List EdgeRow) : Rat := (es.map fun e => e.stress * (e.vx * e.vx) / e.norm).sum
def tensionYY (es : List EdgeRow) : Rat := (es.map fun e => e.stress * (e.vy * e.vy) / e.norm).sum
def tensionXY (es : List EdgeRow) : Rat := (es.map fun e => e.stress * (e.vx * e.vy) / e.norm).sum

/-- body of the double loop of `stress_tensor` for the grid cell with centre `c`. -/
def sigmaOf (cells : List CellRow) (edges : List EdgeRow) (c : Pt) (md2 : Rat) : Mat2 :=
  let sel := selectCells cells c md2
  let total := totalArea sel
  if total = 0 then Mat2.zero
  else
    let pat := pressureAreaTerm sel
    let es := selectEdges edges (sel.map (·.id))
    let sxy := tensionXY es / total
    ⟨(pat + tensionXX es) / total, sxy, sxy, (pat + tensionYY es) / total⟩

/-! ### the dictionary of tensors -/

/-- characters of `f"{row}{column}"` -/
def keyChars (row col : Nat) : List Char := Nat.toDigits 10 row ++ Nat.toDigits 10 col

/-- the dictionary key `f"{row}{column}"` -/
def stKey (row col : Nat) : String := String.ofList (keyChars row col)

/-- Python `d[k] = v`: overwrite in place when the key exists, append otherwise.
    (The dictionary is keyed by the characters of the key; the driver prints them as a string.) -/
def dictSet {β : Type} (d : List (List Char × β)) (k : List Char) (v : β) : List (List Char × β) :=
  if d.any (fun e => decide (e.1 = k)) then d.map (fun e => if e.1 = k then (e.1, v) else e) else d ++ [(k, v)]

/-- Python `d[k]` (`none`: KeyError). -/
def dictGet? {β : Type} (d : List (List Char × β)) (k : List Char) : Option β :=
  (d.find? (fun e => decide (e.1 = k))).map (·.2)

/-- the assignments `sigmas[f"{row}{column}"] = …` in the order of the double loop. -/
def stressLoop (cells : List CellRow) (edges : List EdgeRow) (xb yb : List Rat) (md2 : Rat) (grid : Nat) :
    List ((Nat × Nat) × Mat2) :=
  (List.range grid).flatMap fun row => (List.range grid).map fun col =>
    ((row, col), sigmaOf cells edges (gridCenter xb yb row col) md2)

/-- the dictionary `sigmas` returned by `stress_tensor`. -/
def sigmasDict (cells : List CellRow) (edges : List EdgeRow) (xb yb : List Rat) (md2 : Rat) (grid : Nat) :
    List (List Char × Mat2) :=
  (stressLoop cells edges xb yb md2 grid).foldl (fun d t => dictSet d (keyChars t.1.1 t.1.2) t.2) []

/-- `stress_tensor(frame, grid, radius)` = `(sigmas, bins_centers, (x_bins, y_bins))`. -/
structure StressResult where
  sigmas : List (List Char × Mat2)
  xCenters : List Rat
  yCenters : List Rat
  xBins : List Rat
  yBins : List Rat
deriving Repr

def stressTensor (cells : List CellRow) (edges : List EdgeRow) (xb yb : List Rat) (md2 : Rat) (grid : Nat) :
    StressResult :=
  { sigmas := sigmasDict cells edges xb yb md2 grid, xCenters := binCenters xb, yCenters := binCenters yb,
    xBins := xb, yBins := yb }

/-- `Frame.calculate_stress_tensor`: for `row in range(len(xc))`, `column in range(len(yc))` the entry
    `principal_stress[(xc[row], yc[column])] = eig(sigmas[f"{row}{column}"])`; the model lists the position and
    the tensor handed to `np.linalg.eig` (`none`: KeyError).  (Later entries with the same position overwrite
    earlier ones in Python; positions are distinct when the bin edges are strictly increasing.) -/
def principalInputs (r : StressResult) : List ((Rat × Rat) × Option Mat2) :=
  (List.range r.xCenters.length).flatMap fun row => (List.range r.yCenters.length).map fun col =>
    ((r.xCenters.getD row 0, r.yCenters.getD col 0), dictGet? r.sigmas (keyChars row col))

end Forsys
