/-
  ForsysModel.Model.BigEdges — model of
    virtual_edges.create_edges_new / get_partition / get_border_edge,
    BigEdge.__post_init__ (edges, own_cells, external),
    Frame.__post_init__ (own_cells of two-point interfaces, external_edges_id, internal_big_edges_vertices, internal_big_edges),
    Frame.get_tensions row selection, Frame.get_big_edge_by_cells.
-/
import ForsysModel.Model.Mesh
namespace Forsys

variable {α : Type}

/-- `np.split(ids, np.where(flags)[0])` returns the leading run before the first flagged element
    followed by one group per flagged element (the element and the unflagged run after it).
    `splitAux` returns `(leading run, groups)`; it is structural so that proofs go by induction. -/
def splitAux (isJ : α → Bool) : List α → List α × List (List α)
  | [] => ([], [])
  | a :: rest =>
    let r := splitAux isJ rest
    if isJ a then ([], (a :: r.1) :: r.2) else (a :: r.1, r.2)

/-- `get_partition(...)[1:]` after the optional rotation of `create_edges_new`:
    if the first vertex is not a junction the cycle is re-ordered to
    `concatenate(partitioned[1:], partitioned[0])` and split again. -/
def cellGroups (isJ : α → Bool) (cyc : List α) : List (List α) :=
  let r := splitAux isJ cyc
  match cyc with
  | [] => []
  | a :: _ =>
    if isJ a then r.2
    else (splitAux isJ (r.2.flatten ++ r.1)).2

/-- `partitioned[ii] + [partitioned[(ii+1) % len][0]]` for every `ii`. -/
def closeUp (groups : List (List α)) : List (List α) :=
  let heads := groups.map (·.head?)
  let n := groups.length
  (List.range n).filterMap fun i =>
    match groups[i]?, (heads[(i + 1) % n]?).join with
    | some g, some h => some (g ++ [h])
    | _, _ => none

/-- the per-cell interface list of `create_edges_new`. -/
def cellPaths (isJ : α → Bool) (cyc : List α) : List (List α) := closeUp (cellGroups isJ cyc)

/-- the final de-duplication loop:
    `if e[::-1] not in earr and e not in earr: earr += [e]`. -/
def dedup [DecidableEq α] (paths : List (List α)) : List (List α) :=
  paths.foldl (fun out e => if out.contains e.reverse || out.contains e then out else out ++ [e]) []

/-- `are_neighbours(cell)` of `Frame.__post_init__` on the id list of the cell's vertex cycle:
    `position = ids.index(a)`; `b in (ids[position - 1], ids[(position + 1) % len(ids)])`
    (`ids[-1]` is the last element).  `a` absent: Python raises ValueError, the model answers `false`
    (cannot happen for a cell listed in `a.ownCells` of a consistent mesh). -/
def cyclicNeighbours (ids : List Id) (a b : Id) : Bool :=
  match indexOf? a ids with
  | none => false
  | some pos =>
    b == ids.getD ((pos + ids.length - 1) % ids.length) 0 || b == ids.getD ((pos + 1) % ids.length) 0

namespace Mesh

/-- `create_edges_new(vertices, cells)` -/
def bigEdgesList (m : Mesh) : List (List Id) :=
  dedup ((m.cells.map fun (_, c) => cellPaths m.isJunction c.verts).flatten)

/-- `get_border_edge`: interfaces with some vertex in fewer than two cells. -/
def borderEdges (m : Mesh) (earr : List (List Id)) : List (List Id) :=
  earr.filter fun e => e.any fun v => decide ((m.ownCells v).length < 2)

/-- `Frame.external_edges_id` = `[big_edges_list.index(e) for e in get_border_edge(...)]` -/
def externalEdgesId (m : Mesh) (earr : List (List Id)) : List Nat :=
  (m.borderEdges earr).filterMap fun e => indexOf? e earr

def endJunction3 (m : Mesh) (e : List Id) : Bool :=
  match e.head?, e.getLast? with
  | some a, some b => decide ((m.ownCells a).length > 2) || decide ((m.ownCells b).length > 2)
  | _, _ => false

/-- positions (in `big_edges_list`) of `Frame.internal_big_edges_vertices` /
    `Frame.internal_big_edges` (the same comprehension written twice in the code). -/
def internalIdx (m : Mesh) (earr : List (List Id)) : List Nat :=
  let ext := m.externalEdgesId earr
  (List.range earr.length).filter fun i =>
    !(ext.contains i) && m.endJunction3 (earr.getD i [])

/-- `BigEdge.external` as computed in `BigEdge.__post_init__` (third copy of the predicate). -/
def bigEdgeExternal (m : Mesh) (e : List Id) : Bool :=
  (e.any fun v => decide ((m.ownCells v).length < 2)) || !(m.endJunction3 e)

/-- positions of the rows `Frame.get_tensions()` keeps (`~id.isin(get_external_edges_ids())`). -/
def tensionRows (m : Mesh) (earr : List (List Id)) : List Nat :=
  (List.range earr.length).filter fun i => !(m.bigEdgeExternal (earr.getD i []))

/-- `BigEdge.edges`: for consecutive vertices the common mesh edge
    (`list(set(a.ownEdges) & set(b.ownEdges))[0]`; the model takes the first common id of `a`'s list,
    the harness only compares when the common edge is unique). -/
def bigEdgeEdges (m : Mesh) (e : List Id) : List (Option Id) :=
  (List.zip e e.tail).map fun (a, b) => (listInter (m.ownEdges a) (m.ownEdges b)).head?

/-- `are_neighbours(self.cells[cid])`; a cell id that is no key of the cell dictionary (KeyError in Python, impossible
    in a consistent mesh) is not kept. -/
def neighboursInCell (m : Mesh) (a b c : Id) : Bool :=
  match m.cell? c with
  | some cl => cyclicNeighbours cl.verts a b
  | none => false

/-- `BigEdge.own_cells` as a `Frame` leaves it: `BigEdge.__post_init__` takes the cells common to both ends for a
    two-point interface (`list(set(..) & set(..))`, order of the first end's list here; Python's order is undefined)
    and the cell list of the middle vertex otherwise; `Frame.__post_init__` then keeps, for a two-point interface
    `[a, b]`, only the cells in whose vertex cycle `a` and `b` are cyclic neighbours (repair of finding D30:
    both ends of the chord of a cell with two neighbours belong to three cells). -/
def bigEdgeOwnCells (m : Mesh) (e : List Id) : List Id :=
  if e.length == 2 then
    (listInter (m.ownCells (e.getD 0 0)) (m.ownCells (e.getD 1 0))).filter
      (m.neighboursInCell (e.getD 0 0) (e.getD 1 0))
  else
    m.ownCells (e.getD ((e.length - 1) / 2) 0)

/-- `own_big_edges` of a vertex: ids (positions) of the interfaces containing it, in creation order. -/
def ownBigEdges (earr : List (List Id)) (v : Id) : List Nat :=
  (List.range earr.length).filter fun i => (earr.getD i []).contains v

/-- `Frame.get_big_edge_by_cells(c1, c2)` as the *set* `shared_edge` (the code returns its first element). -/
def bigEdgeByCells (m : Mesh) (earr : List (List Id)) (c1 c2 : Id) : List Nat :=
  let nonJ (c : Id) : List Id :=
    match m.cell? c with
    | some cl => cl.verts.filter fun v => decide ((m.ownEdges v).length < 3)
    | none => []
  let common := listInter (nonJ c1) (nonJ c2)
  ((common.map (ownBigEdges earr)).flatten).eraseDups

end Mesh
end Forsys
