import ForsysModel.Props.C08
import ForsysModel.Props.C09
import ForsysModel.Props.C11
import ForsysModel.Props.C20
import ForsysModel.Props.C18
import ForsysModel.Props.C19
import ForsysModel.Props.C14
import ForsysModel.Props.C17
