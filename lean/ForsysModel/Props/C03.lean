/-
  Property C03 — dynamic inference recovers tensions from junction velocities.
  Theorems: exact right-hand side ⇒ the true tensions are the unique minimiser (with an injective augmented matrix);
  rounding the right-hand side to three decimals moves the fitted values by at most the size of the rounding
  (the non-negative least-squares fit is non-expansive in the right-hand side).
-/
import ForsysModel.Model.Solve
import ForsysModel.Proofs.C03

namespace Forsys

/-- if the velocities are exactly the resultants `b = A τ` and `Σ τ = n`, then `(τ, 0)` solves the augmented system exactly -/
theorem exact_rhs_solves (A : Mat) (tau : List Rat) (m n : Nat) (hm : 0 < m) (hs : Shaped A (mulVec A tau) m n)
    (ht : tau.length = n) (hsum : tau.sum = (n : Rat)) :
    residSq (addMeanOne A (mulVec A tau)).1 (addMeanOne A (mulVec A tau)).2 (tau ++ [0]) = 0 := by
  exact C01.residSq_eq_zero_of_eq _ _ _ (C01.aug_solves A _ tau m n hm hs ht rfl hsum)

/-- … and with an injective augmented matrix it is the only minimiser -/
theorem exact_rhs_unique (A : Mat) (tau y : List Rat) (m n : Nat) (hm : 0 < m) (hs : Shaped A (mulVec A tau) m n)
    (ht : tau.length = n) (hpos : ∀ v ∈ tau, 0 ≤ v) (hsum : tau.sum = (n : Rat)) (hy : y.length = n + 1)
    (hinj : ∀ x x' : List Rat, x.length = n + 1 → x'.length = n + 1 →
        mulVec (addMeanOne A (mulVec A tau)).1 x = mulVec (addMeanOne A (mulVec A tau)).1 x' → x = x')
    (hmin : ∀ x : List Rat, x.length = n + 1 → (∀ v ∈ x, 0 ≤ v) →
        residSq (addMeanOne A (mulVec A tau)).1 (addMeanOne A (mulVec A tau)).2 y
          ≤ residSq (addMeanOne A (mulVec A tau)).1 (addMeanOne A (mulVec A tau)).2 x) :
    y = tau ++ [0] := by
  have hsh := addMeanOne_shape A _ m n hm hs
  refine C01.min_unique _ _ y _ (n + 1) (hsh.1.trans hsh.2.1.symm) hy (by simp [ht]) ?_
    (C01.aug_solves A _ tau m n hm hs ht rfl hsum) hinj hmin
  intro v hv
  simp only [List.mem_append, List.mem_singleton] at hv
  rcases hv with hu | rfl
  · exact hpos v hu
  · exact le_rfl

/-- the non-negative least-squares fit is non-expansive in the right-hand side: for exactly certified solutions `z` of `(M, b)`
    and `z'` of `(M, b')`,  ‖M z' − M z‖² ≤ ‖b' − b‖².  With `b'` the three-decimal rounding of `b` (each entry moves by at
    most 5·10⁻⁴) this is "the tolerance implied by the rounding of the velocity term". -/
theorem nnls_nonexpansive (M : Mat) (b b' z z' : List Rat) (m n : Nat) (hs : Shaped M b m n) (hs' : Shaped M b' m n)
    (hz : z.length = n) (hz' : z'.length = n)
    (h : kktCheck M b z 0 0 = true) (h' : kktCheck M b' z' 0 0 = true) :
    normSq (mulVec M (vsub z' z)) ≤ normSq (vsub b' b) := by
  obtain ⟨k1, k2, k3⟩ := C03.kkt_zero M b z h
  obtain ⟨k1', k2', k3'⟩ := C03.kkt_zero M b' z' h'
  have a2 := dot_nonneg z' _ k1' k2
  have a4 := dot_nonneg z _ k1 k2'
  unfold grad at k3 k3' a2 a4
  rw [hz] at k3 a2
  rw [hz'] at k3' a4
  rw [← dot_mulVec_eq_dot_tMulVec' M n _ _ hs.2.2] at k3 k3' a2 a4
  rw [mulVec_vsub' M z' z (hz'.trans hz.symm)]
  exact C03.nonexp_core _ _ b b' m (by simp [hs.1]) (by simp [hs.1]) hs.2.1 hs'.2.1 k3 a2 k3' a4

/-- size of the rounding perturbation: if every entry moves by at most `e`, the squared distance is at most `len·e²` -/
theorem rounding_bound (b b' : List Rat) (e : Rat) (he : 0 ≤ e) (hlen : b.length = b'.length)
    (h : ∀ p ∈ List.zip b' b, ratAbs' (p.1 - p.2) ≤ e) :
    normSq (vsub b' b) ≤ (b.length : Rat) * (e * e) := by
  have _ := he
  have := C03.rounding_core b b' e h
  simpa [hlen] using this

/-! non-vacuity -/
example : kktCheck [[1, 0], [0, 1]] [1, -1] [1, 0] 0 0 = true ∧ kktCheck [[1, 0], [0, 1]] [1, 1] [1, 1] 0 0 = true := by
  decide +kernel

example : Shaped [[1, 0], [0, 1]] [1, -1] 2 2 ∧ Shaped [[1, 0], [0, 1]] [1, 1] 2 2 := by
  refine ⟨⟨rfl, rfl, ?_⟩, ⟨rfl, rfl, ?_⟩⟩ <;>
  · intro r hr; simp at hr; rcases hr with rfl | rfl <;> rfl

/-- `rounding_bound`: entries moved by at most 1/2000 -/
example : ∀ p ∈ List.zip [(1 : Rat) / 1000, 2 / 1000] [(3 : Rat) / 2000, 3 / 2000], ratAbs' (p.1 - p.2) ≤ 1 / 2000 := by
  decide +kernel

/-- all hypotheses of `exact_rhs_unique` hold together for `A = [[1, -1], [0, 0]]`, `τ = (1, 1)`, `y = (1, 1, 0)` -/
example :
    Shaped [[1, -1], [0, 0]] (mulVec [[1, -1], [0, 0]] [1, 1]) 2 2 ∧ ([1, 1] : List Rat).sum = ((2 : Nat) : Rat) ∧
    (∀ x x' : List Rat, x.length = 2 + 1 → x'.length = 2 + 1 →
        mulVec (addMeanOne [[1, -1], [0, 0]] (mulVec [[1, -1], [0, 0]] [1, 1])).1 x
          = mulVec (addMeanOne [[1, -1], [0, 0]] (mulVec [[1, -1], [0, 0]] [1, 1])).1 x' → x = x') ∧
    (∀ x : List Rat, x.length = 2 + 1 → (∀ v ∈ x, 0 ≤ v) →
        residSq (addMeanOne [[1, -1], [0, 0]] (mulVec [[1, -1], [0, 0]] [1, 1])).1
            (addMeanOne [[1, -1], [0, 0]] (mulVec [[1, -1], [0, 0]] [1, 1])).2 [1, 1, 0]
          ≤ residSq (addMeanOne [[1, -1], [0, 0]] (mulVec [[1, -1], [0, 0]] [1, 1])).1
            (addMeanOne [[1, -1], [0, 0]] (mulVec [[1, -1], [0, 0]] [1, 1])).2 x) := by
  refine ⟨⟨rfl, rfl, ?_⟩, by decide +kernel, ?_, ?_⟩
  · intro r hr; simp at hr; rcases hr with rfl | rfl <;> rfl
  · intro x x' hx hx' h
    obtain ⟨a, b, c, rfl⟩ := List.length_eq_three.mp hx
    obtain ⟨a', b', c', rfl⟩ := List.length_eq_three.mp hx'
    simp [addMeanOne, mulVec, dot] at h
    obtain ⟨h1, h2, h3⟩ := h
    have hc : c = c' := by linarith
    have ha : a = a' := by linarith
    have hb : b = b' := by linarith
    rw [ha, hb, hc]
  · intro x _ _
    have h0 : residSq (addMeanOne [[1, -1], [0, 0]] (mulVec [[1, -1], [0, 0]] [1, 1])).1
        (addMeanOne [[1, -1], [0, 0]] (mulVec [[1, -1], [0, 0]] [1, 1])).2 [1, 1, 0] = 0 := by decide +kernel
    rw [h0]; exact residSq_nonneg _ _ _

end Forsys
