/-
  Property C14 — Surface Evolver dumps are parsed faithfully: the whole parser.
  Props/C14.lean proves the clauses section by section and line by line; here they are composed.
  A dump is abstract data (`Dump`): vertex records, edge records with or without a density field, faces as signed
  edge loops wrapped over lines in any way, body records.  `serialise` prints it in the layout of the shipped dumps
  (arbitrary header, marker lines, one blank line after each section, `read`, arbitrary trailer).  Theorems, for all dumps:
    parse_records_serialise   the four sections are found and every record is read back (ids, rounded coordinates,
                              density or 1, signed loops for every wrapping, pressures by position)
    parse_serialise_assemble  `buildLattice` on the printed dump is `assemble` on the abstract records (no hypothesis
                              on ids: errors of the construction loops are reproduced too)
    parse_serialise           on a well-formed dump the result is given in closed form: vertices, mesh edges, one cell
                              per face whose cycle is the list of tail vertices of its signed loop
    parse_mesh_ofLists        … and the mesh is `Mesh.ofLists` of those records (the object of C09)
    parse_ids_preserved       the ids in the mesh are the ids in the dump (any order, gaps)
    parse_negative_edges      the reversed signed loop yields the reversed cycle (of head vertices)
    pressures_by_position     a cell receives the multiplier of the body at the same *position* (finding D24), with a
                              witness where body order and face ids disagree
    orphanRemoval_idempotent, removeOrphans_clean, removeOrphans_gt_keys    the clean-up
-/
import ForsysModel.Model.SEParser
import ForsysModel.Proofs.C14whole

namespace Forsys
open SE Mesh

/-- the content of a dump: `vs` = `(id, x, y)`, `es` = `(id, v1, v2, density?)`, `fs` = `(id, signed edge loop,
    number of edge references on each continued line)`, `bs` = `(body id, face id, lagrange multiplier)` -/
structure Dump where
  vs : List (Nat × Rat × Rat)
  es : List (Nat × Int × Int × Option Rat)
  fs : List (Int × List Int × List Nat)
  bs : List (Int × Int × Rat)

/-- the token lines of the dump, in the layout of the shipped files (`vLine`, `eLine`, `bLine`: Proofs/C14whole.lean;
    `printFaces`, `layout`: Model/SEParser.lean) -/
def serialise (mt : Marker → List Tok) (header : List (List Tok)) (d : Dump) (trailer : List Line) : List Line :=
  layout mt header (d.vs.map vLine) (d.es.map eLine) (printFaces d.fs) (d.bs.map bLine) trailer

/-- the rows of the `cells_df` DataFrame: face id, signed loop, and the value of the body dictionary (`pdict`, insertion
    order) at the same position -/
def Dump.cellRows (d : Dump) : List (Int × List Int × Rat) :=
  (List.zip d.fs (pdict d.bs [])).map fun x => (x.1.1, x.1.2.1, x.2.2)

/-- the mesh after the vertex loop and the edge loop -/
def Dump.edgeMesh (d : Dump) : Mesh :=
  mkEdges (d.es.map eRec) ((d.vs.map vRec).foldl (fun m p => m.mkVertex p.1 p.2.1 p.2.2) Mesh.empty)

/-- well-formed: edges join two different recorded vertices, faces reference recorded edges, and there are as many
    (distinct) bodies as faces -/
structure Dump.WF (d : Dump) : Prop where
  ends : ∀ e ∈ d.es, e.2.1 ∈ d.vs.map (fun v => (v.1 : Int)) ∧ e.2.2.1 ∈ d.vs.map (fun v => (v.1 : Int)) ∧ e.2.1 ≠ e.2.2.1
  loops : ∀ f ∈ d.fs, ∀ e ∈ f.2.1, (e.natAbs : Int) ∈ d.es.map (fun r => (r.1 : Int))
  bodies : (pdict d.bs []).length = d.fs.length

/-- two triangles sharing edge 30 (traversed backwards by the second face, which is wrapped over three lines), ids with
    gaps and out of order, one edge with a density, an unattached vertex 99 and an unattached edge 77 -/
def exampleDump : Dump where
  vs := [(5, 0, 0), (2, 1, 0), (9, 1 / 2, 12345 / 10000), (4, 1 / 2, -1), (99, 7, 7)]
  es := [(30, 5, 2, some (3 / 2)), (10, 2, 9, none), (20, 9, 5, none), (40, 5, 4, none), (50, 4, 2, none), (77, 99, 5, none)]
  fs := [(8, [30, 10, 20], []), (3, [-30, 40, 50], [1, 1])]
  bs := [(1, 8, 1 / 4), (2, 3, -1 / 8)]

example : exampleDump.WF := by
  refine ⟨by decide +kernel, by decide +kernel, by decide +kernel⟩

/-! ### records -/

theorem parse_records_serialise (mt : Marker → List Tok) (header : List (List Tok)) (d : Dump) (trailer : List Line)
    (hb : (pdict d.bs []).length = d.fs.length) :
    ∃ idx, indices (serialise mt header d trailer) = .ok idx ∧
      (sectionToks idx.v (serialise mt header d trailer)).mapM vertexLine = .ok (d.vs.map vRec) ∧
      (sectionToks idx.e (serialise mt header d trailer)).mapM edgeLine = .ok (d.es.map eRec) ∧
      getCells (sectionToks idx.f (serialise mt header d trailer)) (sectionToks idx.p (serialise mt header d trailer))
        = .ok (d.cellRows.map fun c => (Tok.ofInt c.1, c.2.1, c.2.2)) := by
  obtain ⟨idx, hi, hv, he, hf, hp⟩ :=
    sections_roundtrip mt header (d.vs.map vLine) (d.es.map eLine) (printFaces d.fs) (d.bs.map bLine) trailer
  refine ⟨idx, hi, ?_, ?_, ?_⟩
  · unfold serialise; rw [hv]; exact mapM_map_ok _ _ _ _ (fun a _ => vertexLine_vLine a)
  · unfold serialise; rw [he]; exact mapM_map_ok _ _ _ _ (fun a _ => edgeLine_eLine a)
  · unfold serialise; rw [hf, hp, getCells_serialise _ _ hb]
    unfold Dump.cellRows
    rw [zip3_map, List.map_map]
    rfl

/-! ### the whole of `create_lattice` before the clean-up -/

/-- no hypothesis on the ids: whatever the construction loops do on the records (KeyError, AssertionError included),
    the parser does on the printed dump -/
theorem parse_serialise_assemble (mt : Marker → List Tok) (header : List (List Tok)) (d : Dump) (trailer : List Line)
    (hb : (pdict d.bs []).length = d.fs.length) :
    buildLattice (serialise mt header d trailer)
      = assemble (d.vs.map vRec) (d.es.map eRec) (d.cellRows.map fun c => (Tok.ofInt c.1, c.2.1, c.2.2)) := by
  obtain ⟨idx, hi, hv, he, hc⟩ := parse_records_serialise mt header d trailer hb
  exact buildLattice_of_sections _ idx _ _ _ hi hv he hc

example : (pdict exampleDump.bs []).length = exampleDump.fs.length := by decide +kernel

theorem edgeMesh_vkeys (d : Dump) (k : Id) :
    k ∈ d.edgeMesh.vertices.map (·.1) ↔ k ∈ d.vs.map (fun v => (v.1 : Int)) := by
  unfold Dump.edgeMesh
  rw [vkeys_mkEdges, vkeys_foldl_mkVertex]
  simp [Mesh.empty, vRec, List.map_map, Function.comp_def]

theorem edgeMesh_ekeys (d : Dump) (k : Id) :
    k ∈ d.edgeMesh.edges.map (·.1) ↔ k ∈ d.es.map (fun r => (r.1 : Int)) := by
  unfold Dump.edgeMesh
  rw [ekeys_mkEdges, edges_foldl_mkVertex]
  simp [Mesh.empty, eRec, List.map_map, Function.comp_def]

/-- what the parser returns before the clean-up, in closed form -/
def Dump.parsed (d : Dump) : Parsed :=
      { mesh := d.cellRows.foldl (fun m c => m.mkCell c.1 (c.2.1.map (tailV d.edgeMesh))) d.edgeMesh,
        edgeGt := (d.es.map eRec).foldl (fun g r => dictSet g r.id (roundDec (firstForce (d.es.map eRec) r.id) 4)) [],
        cellGt := d.cellRows.foldl (fun g c => dictSet g c.1 (roundDec c.2.2 4)) [],
        used := (d.cellRows.map fun c => c.2.1.map fun e => (e.natAbs : Int)).flatten }

/-- on a well-formed dump: all vertices at their rounded coordinates, all edges, one cell per face with the tail
    vertices of its signed loop as cycle, densities (4 decimals, 1 if absent) and multipliers (4 decimals) as reference
    values, and the set of referenced edges -/
theorem parse_serialise (mt : Marker → List Tok) (header : List (List Tok)) (d : Dump) (trailer : List Line) (h : d.WF) :
    buildLattice (serialise mt header d trailer) = .ok d.parsed := by
  rw [parse_serialise_assemble mt header d trailer h.bodies]
  unfold assemble Dump.parsed
  have h1 : (d.es.map eRec).foldlM addEdge ((d.vs.map vRec).foldl (fun m p => m.mkVertex p.1 p.2.1 p.2.2) Mesh.empty)
      = .ok d.edgeMesh := by
    apply foldlM_addEdge
    intro r hr
    obtain ⟨e, he, rfl⟩ := List.mem_map.mp hr
    obtain ⟨a, b, c⟩ := h.ends e he
    have key : ∀ k, k ∈ d.vs.map (fun v => (v.1 : Int)) →
        k ∈ ((d.vs.map vRec).foldl (fun m p => m.mkVertex p.1 p.2.1 p.2.2) Mesh.empty).vertices.map (·.1) := by
      intro k hk
      rw [vkeys_foldl_mkVertex]
      right
      simpa [vRec, List.map_map, Function.comp_def] using hk
    exact ⟨key _ a, key _ b, c⟩
  have h2 : ∀ c ∈ d.cellRows, ∀ e ∈ c.2.1, (d.edgeMesh.edge? (e.natAbs : Int)).isSome := by
    intro c hc e he
    obtain ⟨x, hx, rfl⟩ := List.mem_map.mp hc
    have hf : x.1 ∈ d.fs := (List.of_mem_zip hx).1
    exact (alGet?_isSome_iff _ _).mpr ((edgeMesh_ekeys d _).mpr (h.loops x.1 hf e he))
  have h3 := foldlM_cells d.edgeMesh d.cellRows h2 (d.edgeMesh, [])
  simp only [bind, Except.bind, pure, Except.pure] at h3 ⊢
  simp only [h1, h3, mkCells_fst, mkCells_snd, List.map_map, Function.comp_def]

/-- the mesh before the clean-up is the mesh `Mesh.ofLists` builds from the records (the object C09 speaks about) -/
theorem parse_mesh_ofLists (d : Dump) :
    d.cellRows.foldl (fun m c => m.mkCell c.1 (c.2.1.map (tailV d.edgeMesh))) d.edgeMesh
      = Mesh.ofLists (d.vs.map vRec) (d.es.map fun e => ((e.1 : Int), e.2.1, e.2.2.1))
          (d.cellRows.map fun c => (c.1, c.2.1.map (tailV d.edgeMesh))) := by
  unfold Mesh.ofLists Dump.edgeMesh mkEdges
  simp only [List.foldl_map]
  rfl

/-- ids are not renumbered: the vertex, edge and cell keys of the mesh before the clean-up are exactly the ids written
    in the dump, whatever their order and gaps -/
theorem parse_ids_preserved (d : Dump) (k : Id) :
    let m := d.cellRows.foldl (fun m c => m.mkCell c.1 (c.2.1.map (tailV d.edgeMesh))) d.edgeMesh
    (k ∈ m.vertices.map (·.1) ↔ k ∈ d.vs.map (fun v => (v.1 : Int))) ∧
    (k ∈ m.edges.map (·.1) ↔ k ∈ d.es.map (fun r => (r.1 : Int))) ∧
    (k ∈ m.cells.map (·.1) ↔ k ∈ d.cellRows.map (·.1)) := by
  intro m
  have hm : m = (d.cellRows.map fun c => (c.1, c.2.1.map (tailV d.edgeMesh))).foldl (fun m c => m.mkCell c.1 c.2) d.edgeMesh := by
    simp only [m, List.foldl_map]
  obtain ⟨⟨a, b⟩, c⟩ := foldl_mkCell_keys (d.cellRows.map fun c => (c.1, c.2.1.map (tailV d.edgeMesh))) k d.edgeMesh
  rw [← hm] at a b c
  refine ⟨by rw [b]; exact edgeMesh_vkeys d k, by rw [a]; exact edgeMesh_ekeys d k, ?_⟩
  rw [c]
  have : d.edgeMesh.cells = [] := by
    unfold Dump.edgeMesh mkEdges
    generalize (d.vs.map vRec) = vr
    generalize (d.es.map eRec) = er
    have h0 : ∀ (vr : List (Id × Rat × Rat)) (m : Mesh), (vr.foldl (fun m p => m.mkVertex p.1 p.2.1 p.2.2) m).cells = m.cells := by
      intro vr; induction vr with
      | nil => intro m; rfl
      | cons v vr ih => intro m; rw [List.foldl_cons, ih]; rfl
    have h1 : ∀ (er : List EdgeRec) (m : Mesh), (er.foldl (fun m r => m.mkEdge r.id r.v1 r.v2) m).cells = m.cells := by
      intro er; induction er with
      | nil => intro m; rfl
      | cons v er ih => intro m; rw [List.foldl_cons, ih]; rfl
    rw [h1, h0]; rfl
  simp [this, List.map_map, Function.comp_def]

/-- when there are as many body records as faces, every face is a row: the cell ids are the face ids -/
theorem cellRows_ids (d : Dump) (hb : (pdict d.bs []).length = d.fs.length) : d.cellRows.map (·.1) = d.fs.map (·.1) := by
  unfold Dump.cellRows
  rw [List.map_map]
  have : ∀ (fs : List (Int × List Int × List Nat)) (pd : List (Int × Rat)), pd.length = fs.length →
      (List.zip fs pd).map ((fun c : Int × List Int × Rat => c.1) ∘ fun x => (x.1.1, x.1.2.1, x.2.2)) = fs.map (·.1) := by
    intro fs
    induction fs with
    | nil => intro pd _; simp
    | cons f fs ih =>
      intro pd hp
      cases pd with
      | nil => simp at hp
      | cons p pd => simp only [List.zip_cons_cons, List.map_cons]; rw [ih pd (by simpa using hp)]; rfl
  exact this _ _ hb

/-! ### negative edge references -/

/-- a face written as the reversed signed loop (reverse order, every sign flipped) yields the reversed cycle: the head
    vertices of the original loop in reverse order (edge reference 0 does not occur in a dump) -/
theorem parse_negative_edges (m : Mesh) (loop : List Int) (h0 : ∀ e ∈ loop, e ≠ 0) :
    (loop.reverse.map (- ·)).map (tailV m) = (loop.map (headV m)).reverse := by
  rw [List.map_map, ← List.map_reverse]
  apply List.map_congr_left
  intro e he
  exact tailV_neg m e (h0 e (List.mem_reverse.mp he))

/-- … which, for a closed loop, is the original cycle reversed and rotated by one place -/
theorem parse_negative_edges_closed (m : Mesh) (e : Int) (rest : List Int) (h0 : ∀ x ∈ e :: rest, x ≠ 0)
    (hclosed : (e :: rest).map (headV m) = rest.map (tailV m) ++ [tailV m e]) :
    ((e :: rest).reverse.map (- ·)).map (tailV m) = tailV m e :: (rest.map (tailV m)).reverse := by
  rw [parse_negative_edges m _ h0, hclosed, List.reverse_append]
  rfl

example : ∀ e ∈ ([1, 2, -3, 4] : List Int), e ≠ 0 := by decide
example : (([1, 2, -3, 4] : List Int).reverse.map (- ·)).map (tailV exampleSquare) = [1, 4, 3, 2] := by decide +kernel

/-! ### pressures (finding D24: bodies are matched to faces by position) -/

/-- distinct body ids: the dictionary is the list of records, so row `i` carries the multiplier of the `i`-th body
    record — whatever that record's own id and face field say -/
theorem pressures_by_position (d : Dump) (hnd : (d.bs.map (·.1)).Nodup) :
    d.cellRows = (List.zip d.fs d.bs).map fun x => (x.1.1, x.1.2.1, x.2.2.2) := by
  unfold Dump.cellRows
  rw [pdict_nodup d.bs [] (by simpa using hnd), List.nil_append, List.zip_map_right, List.map_map]
  rfl

example : (exampleDump.bs.map (·.1)).Nodup := by decide

/- FALSE as stated (finding D24):
   theorem pressures_by_body (d : Dump) (hnd : (d.bs.map (·.1)).Nodup) (hperm : (d.bs.map (·.2.1)).Perm (d.fs.map (·.1))) :
       ∀ c ∈ d.cellRows, ∃ b ∈ d.bs, b.2.1 = c.1 ∧ b.2.2 = c.2.2
   — see `pressures_by_body_witness`; the true statements are `pressures_by_position` and `pressures_by_body_partial`. -/

/-- the statement "each cell receives the pressure of the body whose face it is" is false for the code: the body
    records `1 → face 3` and `2 → face 8` listed in that order give cell 8 the multiplier of the body of face 3 -/
theorem pressures_by_body_witness :
    ({ exampleDump with bs := [(1, 3, -1 / 8), (2, 8, 1 / 4)] } : Dump).cellRows
      = [(8, [30, 10, 20], -1 / 8), (3, [-30, 40, 50], 1 / 4)] := by
  decide +kernel

/-- the partial form: when the `i`-th body record names the `i`-th face, each cell receives the multiplier of the body
    whose face it is -/
theorem pressures_by_body_partial (d : Dump) (hnd : (d.bs.map (·.1)).Nodup)
    (hord : d.bs.map (·.2.1) = d.fs.map (·.1)) :
    ∀ c ∈ d.cellRows, ∃ b ∈ d.bs, b.2.1 = c.1 ∧ b.2.2 = c.2.2 := by
  intro c hc
  rw [pressures_by_position d hnd] at hc
  obtain ⟨x, hx, rfl⟩ := List.mem_map.mp hc
  refine ⟨x.2, (List.of_mem_zip hx).2, ?_, rfl⟩
  have key : ∀ (fs : List (Int × List Int × List Nat)) (bs : List (Int × Int × Rat)),
      bs.map (·.2.1) = fs.map (·.1) → ∀ x ∈ List.zip fs bs, x.2.2.1 = x.1.1 := by
    intro fs
    induction fs with
    | nil => intro bs _ x hx; simp at hx
    | cons f fs ih =>
      intro bs hbs x hx
      cases bs with
      | nil => simp at hx
      | cons b bs =>
        simp only [List.map_cons, List.cons.injEq] at hbs
        simp only [List.zip_cons_cons, List.mem_cons] at hx
        rcases hx with rfl | hx
        · exact hbs.1
        · exact ih bs hbs.2 x hx
  exact key d.fs d.bs hord x hx

example : exampleDump.bs.map (·.2.1) = exampleDump.fs.map (·.1) := by decide

/-! ### the clean-up -/

/-- running the orphan-vertex loop a second time changes nothing -/
theorem orphanRemoval_idempotent (m : Mesh) : m.orphanRemoval.orphanRemoval = m.orphanRemoval := by
  have h : orphanIds m.orphanRemoval = [] := by
    unfold orphanIds
    rw [List.map_eq_nil_iff, List.filter_eq_nil_iff]
    intro p hp
    have := orphans_removed m p hp
    simpa using this
  rw [orphanRemoval_eq m.orphanRemoval, h]
  rfl

/-- after the clean-up of `create_lattice` every vertex lies on a cell and every mesh edge is referenced by a face -/
theorem removeOrphans_clean (p : Parsed) :
    (∀ v ∈ (removeOrphans p).mesh.vertices, v.2.ownCells ≠ []) ∧
    (∀ q ∈ (removeOrphans p).mesh.edges, q.1 ∈ p.used ∧ q ∈ p.mesh.orphanRemoval.edges) := by
  constructor
  · intro v hv hempty
    have h1 : (v.1, v.2.ownCells) ∈ vsig (dropFaceless p.used p.mesh.orphanRemoval) := List.mem_map.mpr ⟨v, hv, rfl⟩
    rw [dropFaceless_eq] at h1
    unfold delEdges at h1
    rw [vsig_foldl_delEdge] at h1
    obtain ⟨v0, hv0, heq⟩ := List.mem_map.mp h1
    simp only [Prod.mk.injEq] at heq
    exact orphans_removed p.mesh v0 hv0 (heq.2.trans hempty)
  · intro q hq
    have := (dropFaceless_edges p.used p.mesh.orphanRemoval q).mp hq
    exact ⟨this.2, this.1⟩

/-- the reference tensions kept are those of surviving mesh edges -/
theorem removeOrphans_gt_keys (p : Parsed) :
    ∀ g ∈ (removeOrphans p).edgeGt, g ∈ p.edgeGt ∧ ((removeOrphans p).mesh.edge? g.1).isSome := by
  intro g hg
  exact List.mem_filter.mp hg

/-- `create_lattice` on a well-formed printed dump: the closed form of `parse_serialise`, cleaned up -/
theorem create_serialise (mt : Marker → List Tok) (header : List (List Tok)) (d : Dump) (trailer : List Line) (h : d.WF) :
    ∃ p, createLattice (serialise mt header d trailer) = .ok (removeOrphans p) ∧
      p.mesh = Mesh.ofLists (d.vs.map vRec) (d.es.map fun e => ((e.1 : Int), e.2.1, e.2.2.1))
          (d.cellRows.map fun c => (c.1, c.2.1.map (tailV d.edgeMesh))) ∧
      p.used = (d.cellRows.map fun c => c.2.1.map fun e => (e.natAbs : Int)).flatten := by
  refine ⟨d.parsed, ?_, parse_mesh_ofLists d, rfl⟩
  unfold createLattice
  rw [parse_serialise mt header d trailer h]
  rfl

/-- C09 for the whole parser: the mesh `create_lattice` returns for a printed dump is consistent, provided the records are
    well-formed in the sense of C09 and the faces reference the mesh edges along their boundary -/
theorem create_serialise_consistent (d : Dump)
    (h : WFInput (d.vs.map vRec) (d.es.map fun e => ((e.1 : Int), e.2.1, e.2.2.1))
          (d.cellRows.map fun c => (c.1, c.2.1.map (tailV d.edgeMesh))))
    (hused : ∀ q ∈ d.parsed.mesh.orphanRemoval.edges,
      (∃ c ∈ d.parsed.mesh.orphanRemoval.cells, ∃ ab ∈ cyclicPairs c.2.verts,
        (q.2.v1 = ab.1 ∧ q.2.v2 = ab.2) ∨ (q.2.v1 = ab.2 ∧ q.2.v2 = ab.1)) → q.1 ∈ d.parsed.used) :
    (removeOrphans d.parsed).mesh.Consistent = true := by
  have hm : d.parsed.mesh = Mesh.ofLists (d.vs.map vRec) (d.es.map fun e => ((e.1 : Int), e.2.1, e.2.2.1))
          (d.cellRows.map fun c => (c.1, c.2.1.map (tailV d.edgeMesh))) := parse_mesh_ofLists d
  show (dropFaceless d.parsed.used d.parsed.mesh.orphanRemoval).Consistent = true
  rw [hm] at hused ⊢
  exact se_consistent _ _ _ _ h hused

/-! the example dump: cycles follow the signed loops (edge 30 backwards in face 3), the unattached vertex 99 and edge 77
    disappear, ids are kept -/
example : exampleDump.cellRows.map (fun c => (c.1, c.2.1.map (tailV exampleDump.edgeMesh)))
    = [(8, [5, 2, 9]), (3, [2, 5, 4])] := by decide +kernel
example : (removeOrphans exampleDump.parsed).mesh.vertices.map (·.1) = [5, 2, 9, 4] := by decide +kernel
example : (removeOrphans exampleDump.parsed).mesh.edges.map (·.1) = [30, 10, 20, 40, 50] := by decide +kernel
example : (removeOrphans exampleDump.parsed).edgeGt = [(30, 3 / 2), (10, 1), (20, 1), (40, 1), (50, 1)] := by decide +kernel
example : (removeOrphans exampleDump.parsed).cellGt = [(8, 1 / 4), (3, -1 / 8)] := by decide +kernel
example : WFInput (exampleDump.vs.map vRec) (exampleDump.es.map fun e => ((e.1 : Int), e.2.1, e.2.2.1))
    (exampleDump.cellRows.map fun c => (c.1, c.2.1.map (tailV exampleDump.edgeMesh))) := by
  constructor <;> decide +kernel
example : (removeOrphans exampleDump.parsed).mesh.Consistent = true := by decide +kernel

/-! ### reference tensions -/

/-- distinct edge ids: every edge record contributes its own density rounded to four decimals — 1 when the record has no
    density field — under its own id, in file order -/
theorem edgeGt_densities (d : Dump) (hnd : (d.es.map (fun r => (r.1 : Int))).Nodup) :
    d.parsed.edgeGt = d.es.map fun e => ((e.1 : Int), roundDec (e.2.2.2.getD 1) 4) := by
  have hnd' : ((d.es.map eRec).map (·.id)).Nodup := by
    simpa [List.map_map, Function.comp_def, eRec] using hnd
  show (d.es.map eRec).foldl (fun g r => dictSet g r.id (roundDec (firstForce (d.es.map eRec) r.id) 4)) [] = _
  rw [foldl_dictSet_nodup (fun k => roundDec (firstForce (d.es.map eRec) k) 4) _ [] (by simpa using hnd'), List.nil_append,
    List.map_map]
  apply List.map_congr_left
  intro e he
  show ((eRec e).id, roundDec (firstForce (d.es.map eRec) (eRec e).id) 4) = _
  rw [firstForce_nodup _ hnd' (eRec e) (List.mem_map.mpr ⟨e, he, rfl⟩)]
  rfl

example : (exampleDump.es.map (fun r => (r.1 : Int))).Nodup := by decide

/-- without that hypothesis the statement is false: of two records with the same id, the *first* one's density is used
    (`edges_temp.loc[...].iloc[0]`) although the second one's end vertices are -/
theorem edgeGt_duplicate_id_witness :
    ({ exampleDump with es := [(30, 5, 2, some 2), (30, 2, 9, some 3)] } : Dump).parsed.edgeGt = [(30, 2)] ∧
    ((({ exampleDump with es := [(30, 5, 2, some 2), (30, 2, 9, some 3)] } : Dump).edgeMesh.edge? 30).map fun e => (e.v1, e.v2))
      = some (2, 9) := by
  decide +kernel

end Forsys
