/-
  Property C01, round 7 — what the earlier files left open relative to the statement:

  * "every Moebius image, at every rotation, translation and scale": `conformal_balance` (Props/C01.lean) was one
    direction for one junction.  Here: the similarity maps `cmul` form a group acting conformally (`cmul_normSq`,
    `cmul_dot`, `cmul_perp_dot`, `cmul_cmul`, `cmul_one`, `cmul_inverse`, `cmul_smul`), balance is kept AND reflected
    (`conformal_balance_iff`; the zero map is the `_witness` that the hypothesis `p² + q² ≠ 0` is needed), for the whole
    tissue with a different factor per junction (`moebius_keeps_balance`), composed with the end-to-end theorem
    (`moebius_static_inference`), and for the Maxwell figure of a junction of any degree
    (`maxwell_balance_polygon_moebius`).
  * "up to one common scale": scaling all tensions keeps balance (`balance_common_scale`) and does not change what is
    reported (`normalisedTensions_scale_invariant`, `truth_scale_invariant`); under `hinj` two balanced tension vectors
    have the same normalisation (`balance_unique_up_to_scale`); without `hinj` the minimiser is not unique
    (`recover_hinj_necessary_witness`).
  * "its true tension divided by the mean": the reported vector is positive, keeps all ratios, is a fixed point of
    normalisation, commutes with relabelling the interfaces, is all ones for equal tensions, `[1]` for one interface
    and `[]` for none (`normalisedTensions_pos/_ratio/_of_mean_one/_idempotent/_relabel/_equal/_single/_empty/_congr`).
  * the augmented system: exact solutions characterised (`augmented_solution_iff`).
-/
import ForsysModel.Proofs.C01more

namespace Forsys
open FMInput


/-! ### similarity maps -/

/-- a similarity map stretches every length by the same factor `√(p² + q²)` -/
theorem cmul_normSq (p q : Rat) (w : Vec) : (cmul p q w).normSq = (p * p + q * q) * w.normSq := by
  simp only [cmul, Vec.normSq]; ring

/-- … and keeps every angle: all dot products are multiplied by `p² + q²` (conformal) -/
theorem cmul_dot (p q : Rat) (a b : Vec) :
    Vec.dot (cmul p q a) (cmul p q b) = (p * p + q * q) * Vec.dot a b := by
  simp only [cmul, Vec.dot]; ring

/-- … orientation included: the cross product is multiplied by the same positive factor (no reflection) -/
theorem cmul_perp_dot (p q : Rat) (a b : Vec) :
    Vec.dot (Vec.perp (cmul p q a)) (cmul p q b) = (p * p + q * q) * Vec.dot (Vec.perp a) b := by
  simp only [cmul, Vec.dot, Vec.perp]; ring

/-- composition of two similarity maps is the similarity map of the complex product -/
theorem cmul_cmul (p q p' q' : Rat) (w : Vec) :
    cmul p q (cmul p' q' w) = cmul (p * p' - q * q') (q * p' + p * q') w := by
  simp only [cmul, Vec.mk.injEq]; constructor <;> ring

/-- the factor `1` is the identity -/
theorem cmul_one (w : Vec) : cmul 1 0 w = w := by
  cases w; simp [cmul]

/-- every non-zero factor has an inverse: round trip -/
theorem cmul_inverse (p q : Rat) (h : p * p + q * q ≠ 0) (w : Vec) :
    cmul (p / (p * p + q * q)) (-q / (p * p + q * q)) (cmul p q w) = w := by
  cases w; simp only [cmul, Vec.mk.injEq]
  constructor
  · rw [div_mul_eq_mul_div, div_mul_eq_mul_div, ← sub_div, div_eq_iff h]; ring
  · rw [div_mul_eq_mul_div, div_mul_eq_mul_div, ← add_div, div_eq_iff h]; ring

/-- similarity maps commute with the scaling by the norm `len` that `htrue` uses -/
theorem cmul_smul (p q k : Rat) (w : Vec) : cmul p q (Vec.smul k w) = Vec.smul k (cmul p q w) := by
  simp only [cmul, Vec.smul, Vec.mk.injEq]; constructor <;> ring

/-- balance of the turned pulls ↔ balance of the pulls -/
theorem conformal_balance_iff {α : Type} (p q : Rat) (h : p * p + q * q ≠ 0) (w : α → Rat) (d : α → Vec)
    (l : List α) :
    ((l.map fun c => w c * (cmul p q (d c)).x).sum = 0 ∧ (l.map fun c => w c * (cmul p q (d c)).y).sum = 0) ↔
    ((l.map fun c => w c * (d c).x).sum = 0 ∧ (l.map fun c => w c * (d c).y).sum = 0) := by
  obtain ⟨e1, e2⟩ := C01more.cmul_sums p q w d l
  rw [e1, e2]
  constructor
  · rintro ⟨h1, h2⟩
    constructor
    · have : (p * p + q * q) * (l.map fun c => w c * (d c).x).sum = 0 := by
        linear_combination p * h1 + q * h2
      rcases mul_eq_zero.mp this with h0 | h0
      · exact absurd h0 h
      · exact h0
    · have : (p * p + q * q) * (l.map fun c => w c * (d c).y).sum = 0 := by
        linear_combination p * h2 - q * h1
      rcases mul_eq_zero.mp this with h0 | h0
      · exact absurd h0 h
      · exact h0
  · rintro ⟨h1, h2⟩; rw [h1, h2]; simp

/-- the hypothesis `p² + q² ≠ 0` of `conformal_balance_iff` is needed: the zero map balances two pulls that are not in balance -/
theorem conformal_balance_scaled_witness :
    ((([0, 1] : List Nat).map fun c => (1 : Rat) * (cmul 0 0 (if c = 0 then ⟨1, 0⟩ else ⟨0, 1⟩)).x).sum = 0 ∧
     (([0, 1] : List Nat).map fun c => (1 : Rat) * (cmul 0 0 (if c = 0 then ⟨1, 0⟩ else ⟨0, 1⟩)).y).sum = 0) ∧
    ¬ ((([0, 1] : List Nat).map fun c => (1 : Rat) * ((if c = 0 then ⟨1, 0⟩ else ⟨0, 1⟩ : Vec)).x).sum = 0) := by
  decide +kernel

/-- whole tissue: per-junction similarity (Moebius derivative) keeps hbal -/
theorem moebius_keeps_balance (inp : FMInput) (dir : Id → Nat → Vec) (tau : Nat → Rat) (p q : Id → Rat)
    (hpq : ∀ r ∈ inp.build.rows, r.2.1 = true → p r.1 * p r.1 + q r.1 * q r.1 ≠ 0) :
    (∀ r ∈ inp.build.rows, r.2.1 = true →
      ((inp.endCols r.1).map fun c => tau c * (cmul (p r.1) (q r.1) (dir r.1 c)).x).sum = 0 ∧
      ((inp.endCols r.1).map fun c => tau c * (cmul (p r.1) (q r.1) (dir r.1 c)).y).sum = 0) ↔
    (∀ r ∈ inp.build.rows, r.2.1 = true →
      ((inp.endCols r.1).map fun c => tau c * (dir r.1 c).x).sum = 0 ∧
      ((inp.endCols r.1).map fun c => tau c * (dir r.1 c).y).sum = 0) := by
  constructor
  · intro H r hr hk
    exact (conformal_balance_iff (p r.1) (q r.1) (hpq r hr hk) tau (dir r.1) _).mp (H r hr hk)
  · intro H r hr hk
    exact (conformal_balance_iff (p r.1) (q r.1) (hpq r hr hk) tau (dir r.1) _).mpr (H r hr hk)

/-- unit directions stay unit under a rotation -/
theorem rotation_keeps_unit (p q : Rat) (h : p * p + q * q = 1) (w : Vec) (hw : w.normSq = 1) :
    (cmul p q w).normSq = 1 := by
  rw [cmul_normSq, h, hw]; ring

/-- common scale: balance is kept -/
theorem balance_common_scale (inp : FMInput) (dir : Id → Nat → Vec) (tau : Nat → Rat) (k : Rat)
    (hbal : ∀ r ∈ inp.build.rows, r.2.1 = true →
      ((inp.endCols r.1).map fun c => tau c * (dir r.1 c).x).sum = 0 ∧
      ((inp.endCols r.1).map fun c => tau c * (dir r.1 c).y).sum = 0) :
    ∀ r ∈ inp.build.rows, r.2.1 = true →
      ((inp.endCols r.1).map fun c => (k * tau c) * (dir r.1 c).x).sum = 0 ∧
      ((inp.endCols r.1).map fun c => (k * tau c) * (dir r.1 c).y).sum = 0 := by
  intro r hr hk
  obtain ⟨h1, h2⟩ := hbal r hr hk
  constructor
  · have := C01more.sum_map_mul_left k (fun c => tau c * (dir r.1 c).x) (inp.endCols r.1)
    simp only [mul_assoc]; rw [this, h1]; ring
  · have := C01more.sum_map_mul_left k (fun c => tau c * (dir r.1 c).y) (inp.endCols r.1)
    simp only [mul_assoc]; rw [this, h2]; ring

/-- the report depends on the tensions of the `n` inferred interfaces only -/
theorem normalisedTensions_congr (n : Nat) (tau tau' : Nat → Rat) (h : ∀ c < n, tau c = tau' c) :
    normalisedTensions n tau = normalisedTensions n tau' := by
  rw [normalisedTensions_eq, normalisedTensions_eq, C01more.tauVec_congr n tau tau' h]

/-- one common scale does not change the report (guard: the tensions do not sum to zero) -/
theorem normalisedTensions_scale_invariant (n : Nat) (tau : Nat → Rat) (k : Rat) (hk : k ≠ 0)
    (hsum : (tauVec n tau).sum ≠ 0) :
    normalisedTensions n (fun c => k * tau c) = normalisedTensions n tau := by
  rw [normalisedTensions_eq, normalisedTensions_eq, C01more.tauVec_scale, C01.sum_vscale]
  simp only [vscale, List.map_map]
  apply List.map_congr_left; intro v _
  simp only [Function.comp]
  field_simp

/-- positive tensions are reported as positive numbers -/
theorem normalisedTensions_pos (n : Nat) (tau : Nat → Rat) (hn : 0 < n) (hpos : ∀ c < n, 0 < tau c) :
    ∀ v ∈ normalisedTensions n tau, 0 < v := by
  intro v hv
  have hs := tauVec_sum_pos n tau hn hpos
  simp only [normalisedTensions, List.mem_map, List.mem_range] at hv
  obtain ⟨c, hc, rfl⟩ := hv
  have hm : 0 < meanTension n tau := by
    unfold meanTension
    have : (0 : Rat) < n := by exact_mod_cast hn
    positivity
  exact div_pos (hpos c hc) hm

/-- all ratios of tensions are reported exactly: `y_c · τ_c' = y_c' · τ_c` -/
theorem normalisedTensions_ratio (n : Nat) (tau : Nat → Rat) (hsum : (tauVec n tau).sum ≠ 0)
    (c c' : Nat) (hc : c < n) (hc' : c' < n) :
    (normalisedTensions n tau).getD c 0 * tau c' = (normalisedTensions n tau).getD c' 0 * tau c := by
  have hn : (n : Rat) ≠ 0 := by
    have : 0 < n := by omega
    exact_mod_cast (Nat.pos_iff_ne_zero.mp this)
  simp only [normalisedTensions, meanTension, List.getD_eq_getElem?_getD, List.getElem?_map,
    List.getElem?_range hc, List.getElem?_range hc', Option.map_some, Option.getD_some]
  field_simp

/-- tensions of mean one are reported as they are -/
theorem normalisedTensions_of_mean_one (n : Nat) (tau : Nat → Rat) (h : meanTension n tau = 1) :
    normalisedTensions n tau = tauVec n tau := by
  unfold normalisedTensions tauVec; rw [h]; simp

/-- normalising the report again changes nothing -/
theorem normalisedTensions_idempotent (n : Nat) (tau : Nat → Rat) (hn : 0 < n) (hpos : ∀ c < n, 0 < tau c) :
    normalisedTensions n (fun c => (normalisedTensions n tau).getD c 0) = normalisedTensions n tau := by
  have hs := tauVec_sum_pos n tau hn hpos
  have hm : 0 < meanTension n tau := by
    unfold meanTension
    have : (0 : Rat) < n := by exact_mod_cast hn
    positivity
  rw [normalisedTensions_congr n _ (fun c => (1 / meanTension n tau) * tau c)]
  · exact normalisedTensions_scale_invariant n tau _ (by positivity) (ne_of_gt hs)
  · intro c hc
    simp only [normalisedTensions, List.getD_eq_getElem?_getD, List.getElem?_map,
      List.getElem?_range hc, Option.map_some, Option.getD_some]
    ring

/-- force balance determines the tensions up to one common scale: under hinj any two balanced vectors with non-zero
    sum have the same normalisation -/
theorem balance_unique_up_to_scale (A : Mat) (tau tau' : List Rat) (m n : Nat) (hm : 0 < m)
    (hs : Shaped A (List.replicate m 0) m n)
    (ht : tau.length = n) (ht' : tau'.length = n)
    (hbal : mulVec A tau = List.replicate m 0) (hbal' : mulVec A tau' = List.replicate m 0)
    (hsum : tau.sum ≠ 0) (hsum' : tau'.sum ≠ 0)
    (hinj : ∀ x x' : List Rat, x.length = n + 1 → x'.length = n + 1 →
        mulVec (addMeanOne A (List.replicate m 0)).1 x = mulVec (addMeanOne A (List.replicate m 0)).1 x' → x = x') :
    vscale ((n : Rat) / tau.sum) tau = vscale ((n : Rat) / tau'.sum) tau' := by
  have h1 := C01.truth_z A tau m n hm hs ht hbal hsum
  have h2 := C01.truth_z A tau' m n hm hs ht' hbal' hsum'
  have := hinj _ _ (by simp [vscale, ht]) (by simp [vscale, ht']) (h1.trans h2.symm)
  exact List.append_cancel_right this

/-- `hinj` of `recover` is needed: with a free third interface the two different normalised balanced vectors `(1,1,1)` and `(1/2,1/2,2)` both have residual zero, so the non-negative minimiser is not unique -/
theorem recover_hinj_necessary_witness :
    let A : Mat := [[1, -1, 0], [0, 0, 0]]
    let M := (addMeanOne A (List.replicate 2 0)).1
    let b := (addMeanOne A (List.replicate 2 0)).2
    Shaped A (List.replicate 2 0) 2 3 ∧
    mulVec A [1, 1, 1] = List.replicate 2 0 ∧ mulVec A [1, 1, 4] = List.replicate 2 0 ∧
    residSq M b [1, 1, 1, 0] = 0 ∧ residSq M b [1/2, 1/2, 2, 0] = 0 ∧
    ([1, 1, 1, 0] : List Rat) ≠ [1/2, 1/2, 2, 0] := by
  refine ⟨⟨rfl, rfl, ?_⟩, ?_, ?_, ?_, ?_, ?_⟩
  · intro r hr; simp at hr; rcases hr with rfl | rfl <;> rfl
  all_goals decide +kernel

/-- Maxwell figure turned by a similarity -/
theorem maxwell_balance_polygon_moebius (p q : Rat) (sites : List Pt) :
    (((cyclicPairs sites).map fun e => (cmul p q (Vec.perp (Vec.sub e.2 e.1))).x).sum = 0) ∧
    (((cyclicPairs sites).map fun e => (cmul p q (Vec.perp (Vec.sub e.2 e.1))).y).sum = 0) := by
  obtain ⟨h1, h2⟩ := maxwell_balance_polygon sites
  obtain ⟨e1, e2⟩ := C01more.cmul_sums p q (fun _ : Pt × Pt => (1 : Rat))
    (fun e => Vec.perp (Vec.sub e.2 e.1)) (cyclicPairs sites)
  simp only [one_mul] at e1 e2
  rw [e1, e2, h1, h2]; simp

/-- exact solutions of the system `add_mean_one` builds: `(x, λ)` has residual zero iff `A x + λ·1 = b` and `Σ x = n` -/
theorem augmented_solution_iff (A : Mat) (b x : List Rat) (lam : Rat) (m n : Nat) (hm : 0 < m)
    (hs : Shaped A b m n) (hx : x.length = n) :
    residSq (addMeanOne A b).1 (addMeanOne A b).2 (x ++ [lam]) = 0 ↔
      ((mulVec A x).map (· + lam) = b ∧ x.sum = (n : Rat)) := by
  have hsh := addMeanOne_shape A b m n hm hs
  obtain ⟨h1, h2⟩ := addMeanOne_mulVec A b x lam m n hm hs hx
  constructor
  · intro h
    have := C01.eq_of_residSq_eq_zero _ _ _ (hsh.1.trans hsh.2.1.symm) h
    rw [h1, h2] at this
    obtain ⟨e1, e2⟩ := List.append_inj' this rfl
    exact ⟨e1, by simpa using e2⟩
  · rintro ⟨e1, e2⟩
    apply C01.residSq_eq_zero_of_eq
    rw [h1, h2, e1, e2]

/-- relabelling the inferred interfaces by a permutation `σ` of the columns keeps the mean and relabels the report -/
theorem normalisedTensions_relabel (n : Nat) (tau : Nat → Rat) (σ : Nat → Nat)
    (hσ : ((List.range n).map σ).Perm (List.range n)) :
    meanTension n (fun c => tau (σ c)) = meanTension n tau ∧
    normalisedTensions n (fun c => tau (σ c))
      = (List.range n).map fun c => (normalisedTensions n tau).getD (σ c) 0 := by
  have hsum : (tauVec n (fun c => tau (σ c))).sum = (tauVec n tau).sum := by
    unfold tauVec
    rw [show (List.range n).map (fun c => tau (σ c)) = ((List.range n).map σ).map tau by simp [List.map_map]]
    exact (hσ.map tau).sum_eq
  have hm : meanTension n (fun c => tau (σ c)) = meanTension n tau := by
    unfold meanTension; rw [hsum]
  refine ⟨hm, ?_⟩
  unfold normalisedTensions; rw [hm]
  apply List.map_congr_left; intro c hc
  have : σ c < n := List.mem_range.mp (hσ.subset (List.mem_map_of_mem hc))
  simp [List.getD_eq_getElem?_getD, List.getElem?_range this]

example : (([0, 1, 2] : List Nat).map fun c => if c = 0 then 2 else if c = 2 then 0 else c).Perm (List.range 3) := by
  decide

/-- no inferred interface: empty report (no division takes place) -/
theorem normalisedTensions_empty (tau : Nat → Rat) : normalisedTensions 0 tau = [] := rfl

/-- equal tensions are all reported as `1` -/
theorem normalisedTensions_equal (n : Nat) (tau : Nat → Rat) (t : Rat) (hn : 0 < n) (ht : t ≠ 0)
    (h : ∀ c < n, tau c = t) : normalisedTensions n tau = List.replicate n 1 := by
  rw [normalisedTensions_congr n tau (fun _ => t) h]
  have hn' : (n : Rat) ≠ 0 := by exact_mod_cast (Nat.pos_iff_ne_zero.mp hn)
  have hs : (tauVec n (fun _ => t)).sum = n * t := by
    simp [tauVec]
  unfold normalisedTensions meanTension
  rw [hs]
  have : t / ((n : Rat) * t / n) = 1 := by field_simp
  simp only [this]
  simp

/-- one inferred interface is reported as `1` -/
theorem normalisedTensions_single (tau : Nat → Rat) (h : tau 0 ≠ 0) : normalisedTensions 1 tau = [1] :=
  normalisedTensions_equal 1 tau (tau 0) (by omega) h (fun c hc => by
    obtain rfl : c = 0 := by omega
    rfl)


/-- list form of the scale invariance: what `recover` returns for `k·τ` is what it returns for `τ` -/
theorem truth_scale_invariant (tau : List Rat) (n : Nat) (k : Rat) (hk : k ≠ 0) (hsum : tau.sum ≠ 0) :
    vscale ((n : Rat) / (vscale k tau).sum) (vscale k tau) = vscale ((n : Rat) / tau.sum) tau := by
  rw [C01.sum_vscale]
  simp only [vscale, List.map_map]
  apply List.map_congr_left; intro v _
  simp only [Function.comp]
  field_simp

/-- C01 for the Moebius images, end to end: if the tissue the model sees has, at every kept junction `v`, the true
    directions `(p v + i q v)·dir v c` (the pre-image directions `dir` turned and stretched by the derivative of the map
    at that junction, any non-zero factor per junction) and the PRE-IMAGE is in force balance under `tau`, then
    static inference on the image reports `tau c / mean tau`. -/
theorem moebius_static_inference (inp : FMInput) (len : Id → Nat → Rat) (dir : Id → Nat → Vec)
    (tau : Nat → Rat) (p q : Id → Rat) (y : List Rat)
    (hk : ∃ r ∈ inp.build.rows, r.2.1 = true)
    (hpq : ∀ r ∈ inp.build.rows, r.2.1 = true → p r.1 * p r.1 + q r.1 * q r.1 ≠ 0)
    (hnorm : ∀ r ∈ inp.build.rows, r.2.1 = true → ∀ c < inp.build.used.length,
      endsAt (inp.build.used.getD c []) r.1 = true →
        0 < len r.1 c ∧ (inp.tangentAt c r.1).map Vec.normSq = some ((len r.1 c) ^ 2))
    (htrue : ∀ r ∈ inp.build.rows, r.2.1 = true → ∀ c < inp.build.used.length,
      endsAt (inp.build.used.getD c []) r.1 = true →
        inp.tangentAt c r.1 = some (Vec.smul (len r.1 c) (cmul (p r.1) (q r.1) (dir r.1 c))))
    (hbal : ∀ r ∈ inp.build.rows, r.2.1 = true →
      ((inp.endCols r.1).map fun c => tau c * (dir r.1 c).x).sum = 0 ∧
      ((inp.endCols r.1).map fun c => tau c * (dir r.1 c).y).sum = 0)
    (hpos : ∀ c < inp.build.used.length, 0 < tau c)
    (hy : y.length = inp.build.used.length + 1)
    (hinj : ∀ x x' : List Rat, x.length = inp.build.used.length + 1 → x'.length = inp.build.used.length + 1 →
      mulVec (addMeanOne (normalisedMatrix inp len) (List.replicate (normalisedMatrix inp len).length 0)).1 x
        = mulVec (addMeanOne (normalisedMatrix inp len) (List.replicate (normalisedMatrix inp len).length 0)).1 x' →
      x = x')
    (hmin : ∀ x : List Rat, x.length = inp.build.used.length + 1 → (∀ v ∈ x, 0 ≤ v) →
      residSq (addMeanOne (normalisedMatrix inp len) (List.replicate (normalisedMatrix inp len).length 0)).1
          (addMeanOne (normalisedMatrix inp len) (List.replicate (normalisedMatrix inp len).length 0)).2 y
        ≤ residSq (addMeanOne (normalisedMatrix inp len) (List.replicate (normalisedMatrix inp len).length 0)).1
          (addMeanOne (normalisedMatrix inp len) (List.replicate (normalisedMatrix inp len).length 0)).2 x) :
    y = normalisedTensions inp.build.used.length tau ++ [0] :=
  static_inference_recovers_tensions inp len (fun v c => cmul (p v) (q v) (dir v c)) tau y hk hnorm htrue
    ((moebius_keeps_balance inp dir tau p q hpq).mpr hbal) hpos hy hinj hmin

/-- the hypotheses of `moebius_static_inference` hold on the lens (Props/C01matrix.lean) seen as the image, under the
    quarter turn `i`, of the tissue whose directions are the lens directions turned back by `-i` -/
example :
    (∀ r ∈ balInp.build.rows, r.2.1 = true → (0 : Rat) * 0 + 1 * 1 ≠ 0) ∧
    (∀ r ∈ balInp.build.rows, r.2.1 = true → ∀ c < balInp.build.used.length,
      endsAt (balInp.build.used.getD c []) r.1 = true →
        balInp.tangentAt c r.1
          = some (Vec.smul (balLen r.1 c) (cmul 0 1 ((fun v c => cmul 0 (-1) (balDir v c)) r.1 c)))) ∧
    (∀ r ∈ balInp.build.rows, r.2.1 = true →
      ((balInp.endCols r.1).map fun c => balTau c * ((fun v c => cmul 0 (-1) (balDir v c)) r.1 c).x).sum = 0 ∧
      ((balInp.endCols r.1).map fun c => balTau c * ((fun v c => cmul 0 (-1) (balDir v c)) r.1 c).y).sum = 0) := by
  refine ⟨fun _ _ _ => by norm_num, ?_, ?_⟩
  · intro r hr hk c hc he
    rw [bal_hypotheses.2.2.1 r hr hk c hc he]
    simp only [cmul_cmul]
    norm_num
    rw [cmul_one]
  · exact (moebius_keeps_balance balInp balDir balTau (fun _ => 0) (fun _ => -1)
      (fun _ _ _ => by norm_num)).mpr bal_hypotheses.2.2.2.1

/-! ### non-vacuity of the remaining hypotheses -/

/-- `conformal_balance_iff`, `moebius_keeps_balance`: a non-zero factor -/
example : (3 : Rat) * 3 + 4 * 4 ≠ 0 := by norm_num
/-- `rotation_keeps_unit`: the rotation `(3/5, 4/5)` and the unit vector `(4/5, -3/5)` -/
example : (3/5 : Rat) * (3/5) + (4/5) * (4/5) = 1 ∧ (⟨4/5, -3/5⟩ : Vec).normSq = 1 := by decide +kernel
/-- `balance_common_scale`, `normalisedTensions_pos/_idempotent`: the lens is balanced under positive tensions -/
example : (∀ r ∈ balInp.build.rows, r.2.1 = true →
      ((balInp.endCols r.1).map fun c => balTau c * (balDir r.1 c).x).sum = 0 ∧
      ((balInp.endCols r.1).map fun c => balTau c * (balDir r.1 c).y).sum = 0) ∧
    0 < balInp.build.used.length ∧ (∀ c < balInp.build.used.length, 0 < balTau c) :=
  ⟨bal_hypotheses.2.2.2.1, by decide +kernel, bal_hypotheses.2.2.2.2⟩
/-- `normalisedTensions_scale_invariant/_ratio`: the lens tensions have non-zero sum -/
example : (tauVec 4 balTau).sum ≠ 0 := by decide +kernel
/-- `normalisedTensions_of_mean_one`: tensions (1/2, 3/2) have mean one -/
example : meanTension 2 (fun c => if c = 0 then 1/2 else 3/2) = 1 := by decide +kernel
/-- `normalisedTensions_equal/_single`: equal non-zero tensions -/
example : (0 : Nat) < 3 ∧ (7 : Rat) ≠ 0 ∧ ∀ c < 3, (fun _ : Nat => (7 : Rat)) c = 7 := by
  refine ⟨by omega, by norm_num, fun _ _ => rfl⟩
/-- `augmented_solution_iff`, `balance_unique_up_to_scale`, `truth_scale_invariant`: shape, balance, non-zero sum;
    injectivity of the augmented matrix for this `A` is the last `example` of Props/C01.lean -/
example : Shaped [[1, -1], [0, 0]] (List.replicate 2 0) 2 2 ∧ ([2, 2] : List Rat).length = 2 ∧
    mulVec [[1, -1], [0, 0]] [2, 2] = List.replicate 2 0 ∧ mulVec [[1, -1], [0, 0]] [5, 5] = List.replicate 2 0 ∧
    ([2, 2] : List Rat).sum ≠ 0 ∧ ([5, 5] : List Rat).sum ≠ 0 := by
  refine ⟨⟨rfl, rfl, ?_⟩, rfl, by decide +kernel, by decide +kernel, by decide +kernel, by decide +kernel⟩
  intro r hr; simp at hr; rcases hr with rfl | rfl <;> rfl

end Forsys
