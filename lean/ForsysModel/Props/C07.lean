/-
  Property C07 — results do not depend on labels, storage order or cell orientation.
  Theorems for the combinatorial part (arbitrary id type): the interfaces obtained from a cell cycle do not depend on where
  the cycle starts nor on its sense (up to reversal of each path); the de-duplicated interface set depends only on the set
  of candidate paths up to reversal; relabelling ids commutes with everything; least squares does not depend on the order
  of equations and unknowns.  (Tangent independence of storage direction: C02 `vectorFromVertex_reverse`; pressure-row
  independence: C04 `row_joint_flip`, `row_swap_cells`.)  End-to-end renumbering is covered by the per-run check.
-/
import ForsysModel.Model.BigEdges
import ForsysModel.Model.Solve
import ForsysModel.Proofs.C07

namespace Forsys

variable {α β : Type}

/-- starting a cell's vertex list at a different vertex yields the same interfaces (as a multiset) -/
theorem cellPaths_rotate (isJ : α → Bool) (l1 l2 : List α) :
    (cellPaths isJ (l2 ++ l1)).Perm (cellPaths isJ (l1 ++ l2)) := by
  exact C07.cellPaths_rotate' isJ l1 l2

/-- storing a cell in the opposite rotational sense yields the same interfaces, each traversed backwards -/
theorem cellPaths_reverse (isJ : α → Bool) (cyc : List α) :
    (cellPaths isJ cyc.reverse).Perm ((cellPaths isJ cyc).map List.reverse) := by
  exact C07.cellPaths_reverse' isJ cyc

/-- relabelling the ids by an injective map relabels the interfaces -/
theorem cellPaths_map (isJ : β → Bool) (f : α → β) (cyc : List α) :
    cellPaths isJ (cyc.map f) = (cellPaths (fun a => isJ (f a)) cyc).map (List.map f) := by
  exact C07.cellPaths_map' isJ f cyc

/-- membership up to reversal -/
def memRev [DecidableEq α] (p : List α) (ps : List (List α)) : Prop := p ∈ ps ∨ p.reverse ∈ ps

/-- the de-duplicated list represents exactly the candidate paths, up to reversal -/
theorem dedup_memRev [DecidableEq α] (ps : List (List α)) (p : List α) : memRev p (dedup ps) ↔ memRev p ps := by
  exact C07.dedup_memRev' ps p

/-- hence two candidate lists with the same paths up to order and reversal (e.g. cells listed in another order, started at
    other vertices, or stored in the opposite sense) give the same interface set up to reversal -/
theorem dedup_invariant [DecidableEq α] (ps qs : List (List α)) (h : ∀ p, memRev p ps ↔ memRev p qs) (p : List α) :
    memRev p (dedup ps) ↔ memRev p (dedup qs) := by
  rw [dedup_memRev, dedup_memRev]
  exact h p

/-- and the number of interfaces is the same -/
theorem dedup_length_invariant [DecidableEq α] (ps qs : List (List α)) (h : ∀ p, memRev p ps ↔ memRev p qs) :
    (dedup ps).length = (dedup qs).length := by
  exact C07.dedup_length_invariant' ps qs h

/-! ### least squares does not depend on the order of equations and unknowns -/

/-- reordering the equations leaves the squared residual unchanged -/
theorem residSq_perm_rows (M M' : Mat) (b b' x : List Rat) (h : (List.zip M b).Perm (List.zip M' b'))
    (hl : M.length = b.length) (hl' : M'.length = b'.length) : residSq M b x = residSq M' b' x := by
  rw [C07.residSq_eq_zip M b x hl, C07.residSq_eq_zip M' b' x hl']
  exact (h.map _).sum_eq

/-- reordering the unknowns (the same permutation applied to every row and to the vector) leaves every product unchanged -/
theorem dot_perm (r x r' x' : List Rat) (h : (List.zip r x).Perm (List.zip r' x')) : dot r x = dot r' x' := by
  exact C07.dot_perm' r x r' x' h

/-! non-vacuity -/
/-- `h` of `dedup_invariant`, `dedup_length_invariant`: the same paths in another order and sense -/
example : ∀ p : List Nat, memRev p [[1, 2, 3], [4, 5]] ↔ memRev p [[5, 4], [3, 2, 1], [1, 2, 3]] := by
  intro p; simp [memRev, List.reverse_eq_iff]; tauto

/-- `h`, `hl`, `hl'` of `residSq_perm_rows` -/
example : (List.zip ([[1, 2], [3, 4]] : Mat) [5, 6]).Perm (List.zip ([[3, 4], [1, 2]] : Mat) [6, 5]) ∧
    ([[1, 2], [3, 4]] : Mat).length = ([5, 6] : List Rat).length ∧
    ([[3, 4], [1, 2]] : Mat).length = ([6, 5] : List Rat).length := by
  refine ⟨?_, rfl, rfl⟩
  exact List.Perm.swap _ _ _

/-- `h` of `dot_perm` -/
example : (List.zip ([1, 2] : List Rat) ([3, 4] : List Rat)).Perm (List.zip ([2, 1] : List Rat) ([4, 3] : List Rat)) :=
  List.Perm.swap _ _ _

example : cellPaths (fun v => decide (v ≥ 10)) [3, 4, 20, 5, 30, 6, 1, 2, 10]
    = [[20, 5, 30], [30, 6, 1, 2, 10], [10, 3, 4, 20]] := by decide

end Forsys
