/-
  Property C12, additions — what Props/C12.lean and Props/C12relabel.lean leave open:

  A. GEOMETRY.  The tracking reads positions only through squared distances compared with radii proportional to the
     extent: `find_best`, the assignment loop and `create_mapping` are unchanged by a change of unit and origin
     (`p ↦ lam·p + d`, `lam > 0`), and the loop is unchanged by any similarity (rotations, reflections included) when the
     extent is scaled accordingly.
  B. FIXED POINT / COMPOSITION.  Feeding the result back as `initial_guess` reproduces it; the loop over a concatenated
     dictionary is the composition of the two loops (rvertices, then evertices in the code).
  C. DEGENERATE INPUTS.  Empty frame 0: the guess comes back untouched (and the bounding-box test is skipped);
     empty frame 1: every end point is mapped to `None`.
  D. ROUND TRIP on the public function `get_point_id_by_map` and on the maps the code itself builds (`mapsOf`),
     and the necessity of each hypothesis (`…_witness`).
-/
import ForsysModel.Proofs.C12more
import ForsysModel.Props.C12
import ForsysModel.Props.C12relabel

namespace Forsys

/-! ### A. similarity invariance -/

/-- `find_best` commutes with any map `f` of the plane that multiplies squared distances by `lam² > 0`, provided the
    extent handed in is multiplied by `lam`: the same vertex (same id, transformed position) is returned -/
theorem findBest_similarity (f : Pt → Pt) (lam : Rat) (hl : 0 < lam)
    (hf : ∀ a b, distSq (f a) (f b) = lam * lam * distSq a b)
    (s0 cutoff maxcoord : Rat) (v0 : Pt) (pool : List TVert) (found : List (Option Id)) :
    findBest s0 cutoff (lam * maxcoord) (f v0) (pool.map (TVert.mapP f)) found
      = (findBest s0 cutoff maxcoord v0 pool found).map (TVert.mapP f) :=
  C12m.findBest_sim f lam hl hf s0 cutoff maxcoord v0 pool found

/-- the whole assignment loop returns the SAME step map when both frames are transformed by a similarity -/
theorem assignAll_similarity (f : Pt → Pt) (lam : Rat) (hl : 0 < lam)
    (hf : ∀ a b, distSq (f a) (f b) = lam * lam * distSq a b)
    (s0 cutoff maxcoord : Rat) (pool1 pool0 : List TVert) (guess : StepMap) :
    assignAll s0 cutoff (lam * maxcoord) (pool1.map (TVert.mapP f)) (pool0.map (TVert.mapP f)) guess
      = assignAll s0 cutoff maxcoord pool1 pool0 guess :=
  C12m.assignAll_sim f lam hl hf s0 cutoff maxcoord pool1 pool0 guess

/-- isometries (`lam = 1`: translations, rotations, reflections) with the same extent -/
theorem assignAll_isometry (f : Pt → Pt) (hf : ∀ a b, distSq (f a) (f b) = distSq a b)
    (s0 cutoff maxcoord : Rat) (pool1 pool0 : List TVert) (guess : StepMap) :
    assignAll s0 cutoff maxcoord (pool1.map (TVert.mapP f)) (pool0.map (TVert.mapP f)) guess
      = assignAll s0 cutoff maxcoord pool1 pool0 guess := by
  have h := assignAll_similarity f 1 one_pos (by intro a b; rw [hf]; ring) s0 cutoff maxcoord pool1 pool0 guess
  rwa [one_mul] at h

/-- the hypotheses on `f` are satisfiable: change of unit and origin, quarter turn, reflection -/
example : (0 : Rat) < 3 ∧ ∀ a b, distSq (simT 3 ⟨1, -2⟩ a) (simT 3 ⟨1, -2⟩ b) = 3 * 3 * distSq a b :=
  ⟨by norm_num, C12m.distSq_simT 3 ⟨1, -2⟩⟩
example : ∀ a b : Pt, distSq (⟨-a.y, a.x⟩ : Pt) ⟨-b.y, b.x⟩ = distSq a b := by
  intro a b; simp only [distSq]; ring
example : ∀ a b : Pt, distSq (⟨a.y, a.x⟩ : Pt) ⟨b.y, b.x⟩ = distSq a b := by
  intro a b; simp only [distSq]; ring

/-- the extent (`self.maxcoord`) scales with the unit and ignores the origin -/
theorem maxCoord_simT (lam : Rat) (hl : 0 < lam) (d : Pt) (pool0 pool1 : List TVert) :
    maxCoord (pool0.map (TVert.mapP (simT lam d))) (pool1.map (TVert.mapP (simT lam d)))
      = lam * maxCoord pool0 pool1 :=
  C12m.maxCoord_sim lam hl d pool0 pool1

/-- the DifferentTissueException test does not depend on unit and origin -/
theorem tooDifferent_simT (lam : Rat) (hl : 0 < lam) (d : Pt) (maxDiff : Rat) (pool0 pool1 : List TVert) :
    tooDifferent maxDiff (pool0.map (TVert.mapP (simT lam d))) (pool1.map (TVert.mapP (simT lam d)))
      = tooDifferent maxDiff pool0 pool1 :=
  C12m.tooDifferent_sim lam hl d maxDiff pool0 pool1

/-- `create_mapping` returns the same step map (or raises in exactly the same cases) when both frames are expressed in
    another unit and from another origin: `p ↦ lam·p + d`, `lam > 0` -/
theorem createMapping_simT (lam : Rat) (hl : 0 < lam) (d : Pt) (s0 cutoff maxDiff : Rat)
    (pool0 pool1 : List TVert) (guess : StepMap) :
    createMapping s0 cutoff maxDiff (pool0.map (TVert.mapP (simT lam d))) (pool1.map (TVert.mapP (simT lam d))) guess
      = createMapping s0 cutoff maxDiff pool0 pool1 guess := by
  unfold createMapping
  rw [tooDifferent_simT lam hl, maxCoord_simT lam hl, List.isEmpty_map,
    assignAll_similarity _ lam hl (C12m.distSq_simT lam d)]

/-- `lam > 0` is needed: `lam = 0` collapses both frames onto one point and every end point but one is left untracked -/
theorem createMapping_simT_zero_witness :
    let pool0 : List TVert := [⟨1, ⟨0, 0⟩⟩, ⟨2, ⟨10, 0⟩⟩]
    let pool1 : List TVert := [⟨7, ⟨1/10, 0⟩⟩, ⟨8, ⟨10, 1/10⟩⟩]
    createMapping (5/1000) (1/10) (1/10) pool0 pool1 [] = some [(1, some 7), (2, some 8)] ∧
    createMapping (5/1000) (1/10) (1/10) (pool0.map (TVert.mapP (simT 0 ⟨0, 0⟩)))
      (pool1.map (TVert.mapP (simT 0 ⟨0, 0⟩))) [] = some [(1, none), (2, none)] := by
  decide +kernel

/-! ### B. fixed point and composition -/

/-- a map that already has a key for every end point of frame 0 is returned untouched -/
theorem assignAll_of_allKeys (s0 cutoff maxcoord : Rat) (pool1 pool0 : List TVert) (m : StepMap)
    (h : ∀ v ∈ pool0, m.hasKey v.id = true) : assignAll s0 cutoff maxcoord pool1 pool0 m = m :=
  C12m.assignAll_of_allKeys s0 cutoff maxcoord pool1 pool0 m h

example : ∀ v ∈ ([⟨1, ⟨0, 0⟩⟩, ⟨2, ⟨10, 0⟩⟩] : List TVert),
    StepMap.hasKey [(1, some 9), (2, none)] v.id = true := by decide +kernel

/-- running the loop again on its own result changes nothing (whatever the candidate pool of the second run) -/
theorem assignAll_idempotent (s0 cutoff maxcoord : Rat) (pool1 pool1' pool0 : List TVert) (guess : StepMap) :
    assignAll s0 cutoff maxcoord pool1' pool0 (assignAll s0 cutoff maxcoord pool1 pool0 guess)
      = assignAll s0 cutoff maxcoord pool1 pool0 guess :=
  assignAll_of_allKeys _ _ _ _ _ _ (fun v hv => assignAll_total s0 cutoff maxcoord pool1 pool0 guess v hv)

/-- feeding the computed correspondence back as `initial_guess` reproduces it -/
theorem createMapping_refeed (s0 cutoff maxDiff : Rat) (pool0 pool1 : List TVert) (guess m : StepMap)
    (h : createMapping s0 cutoff maxDiff pool0 pool1 guess = some m) :
    createMapping s0 cutoff maxDiff pool0 pool1 m = some m := by
  unfold createMapping at h ⊢
  split at h
  · simp at h
  · rename_i hc
    simp only [Option.some.injEq] at h
    subst h
    rw [if_neg hc, assignAll_idempotent]

example : createMapping (5/1000) (1/10) (1/10)
    [⟨1, ⟨0, 0⟩⟩, ⟨2, ⟨10, 0⟩⟩, ⟨3, ⟨0, 10⟩⟩] [⟨7, ⟨10, 1/10⟩⟩, ⟨8, ⟨1/10, 10⟩⟩, ⟨9, ⟨1/10, 0⟩⟩] [(2, some 7)]
    = some [(2, some 7), (1, some 9), (3, some 8)] := by decide +kernel

/-- the loop over a concatenated dictionary is the composition of the two loops (the code runs it over `rvertices`
    and then over `evertices` on the same `mapping`) -/
theorem assignAll_append (s0 cutoff maxcoord : Rat) (pool1 a b : List TVert) (m : StepMap) :
    assignAll s0 cutoff maxcoord pool1 (a ++ b) m
      = assignAll s0 cutoff maxcoord pool1 b (assignAll s0 cutoff maxcoord pool1 a m) :=
  C12m.assignAll_append s0 cutoff maxcoord pool1 a b m

/-! ### C. degenerate frames -/

/-- no interface end point in frame 0: nothing to track, the guess is returned as is and the bounding-box test is not
    even evaluated (`len(rvertices0) > 0 and …`) -/
theorem createMapping_nil_pool0 (s0 cutoff maxDiff : Rat) (pool1 : List TVert) (guess : StepMap) :
    createMapping s0 cutoff maxDiff [] pool1 guess = some guess := by
  simp [createMapping, assignAll]

/-- no candidate in frame 1: every end point of frame 0 gets the entry `None` -/
theorem assignAll_no_candidates (s0 cutoff maxcoord : Rat) (pool0 : List TVert) (a : TVert) (ha : a ∈ pool0) :
    (assignAll s0 cutoff maxcoord [] pool0 []).get? a.id = some none := by
  have ht := assignAll_total s0 cutoff maxcoord [] pool0 [] a ha
  obtain ⟨v, hv⟩ := C12.get?_of_hasKey _ _ ht
  cases v with
  | none => exact hv
  | some w =>
    rcases assignAll_range s0 cutoff maxcoord [] pool0 [] a.id w hv with h | h
    · simp [StepMap.get?, alGet?] at h
    · simp at h

/-! ### D. round trips -/

/-- the public function: `get_point_id_by_map(p, t0, t1) = q` with `t0 < t1` implies `get_point_id_by_map(q, t1, t0) = p`
    when every step map in between exists and is injective on its real values -/
theorem getPointIdByMap_roundtrip (maps : List (Option StepMap)) (t0 t1 : Nat) (p q : Id) (hlt : t0 < t1)
    (hall : ∀ i, t0 ≤ i → i < t1 → ∃ m, maps.getD i none = some m ∧ (StepMap.someValues m).Nodup)
    (hf : getPointIdByMap maps p t0 t1 = .ok (some q)) :
    getPointIdByMap maps q t1 t0 = .ok (some p) := by
  have hn : t0 + (t1 - t0) = t1 := by omega
  simp only [getPointIdByMap, hlt, if_true] at hf
  have hnot : ¬ t1 < t0 := by omega
  simp only [getPointIdByMap, hnot, if_false]
  have := C12.roundtrip' maps (t1 - t0) t0 p q (by intro i h1 h2; exact hall i h1 (by omega)) hf
  rwa [hn] at this

/-- the maps the code itself builds (`mapsOf` = `__post_init__`): if the user's guesses are injective and no step raised
    DifferentTissueException, following the correspondence forward and then backward returns the starting vertex.
    No hypothesis on the computed maps: their injectivity is `createMapping_injective`. -/
theorem mapsOf_roundtrip (s0 cutoff maxDiff : Rat) (pools : List (List TVert)) (guesses : List StepMap)
    (t n : Nat) (p q : Id)
    (hg : ∀ i, (StepMap.someValues (guesses.getD i [])).Nodup)
    (hno : ∀ i, t ≤ i → i < t + n → (mapsOf s0 cutoff maxDiff pools guesses).getD i none ≠ none)
    (hf : walkForward (mapsOf s0 cutoff maxDiff pools guesses) t n (some p) = .ok (some q)) :
    walkBackward (mapsOf s0 cutoff maxDiff pools guesses) (t + n) n (some q) = .ok (some p) := by
  refine C12.roundtrip' _ n t p q ?_ hf
  intro i h1 h2
  cases hm : (mapsOf s0 cutoff maxDiff pools guesses).getD i none with
  | none => exact absurd hm (hno i h1 h2)
  | some m =>
    refine ⟨m, rfl, ?_⟩
    have hc := C12m.mapsOf_getD _ _ _ _ _ _ _ hm
    unfold createMapping at hc
    split at hc
    · simp at hc
    · simp only [Option.some.injEq] at hc
      subst hc
      exact C12.assignAll_injective' _ _ _ _ _ _ (hg i)

/-- the hypotheses of `mapsOf_roundtrip` / `getPointIdByMap_roundtrip` on the three-frame series of Props/C12relabel.lean -/
example :
    let maps := mapsOf (5/1000) (1/10) (1/10) (poolsOf exFrames12 exJunctions) []
    (∀ i, 0 ≤ i → i < 0 + 2 → maps.getD i none ≠ none) ∧
    (∀ i, 0 ≤ i → i < 2 → ∃ m, maps.getD i none = some m ∧ (StepMap.someValues m).Nodup) ∧
    walkForward maps 0 2 (some 1) = .ok (some 9) ∧ getPointIdByMap maps 1 0 2 = .ok (some 9) ∧
    getPointIdByMap maps 9 2 0 = .ok (some 1) := by
  refine ⟨?_, ?_, by decide +kernel, by decide +kernel, by decide +kernel⟩
  · intro i _ h2
    have : i = 0 ∨ i = 1 := by omega
    rcases this with rfl | rfl <;> decide +kernel
  · intro i _ h2
    have : i = 0 ∨ i = 1 := by omega
    rcases this with rfl | rfl
    · exact ⟨[(1, some 5), (2, some 6), (3, some 7)], by decide +kernel, by decide +kernel⟩
    · exact ⟨[(5, some 9), (6, some 10), (7, some 11)], by decide +kernel, by decide +kernel⟩

/-- injectivity of the step map is needed for the round trip: two keys with the same target — the later one wins in
    the inverted dictionary -/
theorem roundtrip_noninjective_witness :
    let maps : List (Option StepMap) := [some [(1, some 9), (2, some 9)]]
    getPointIdByMap maps 1 0 1 = .ok (some 9) ∧ getPointIdByMap maps 9 1 0 = .ok (some 2) := by
  decide +kernel

/-- existence of every step map is needed: across a step that raised DifferentTissueException the forward walk stops
    and returns the vertex it holds, the backward walk fails with AttributeError (`None.items()`) -/
theorem roundtrip_missing_map_witness :
    let maps : List (Option StepMap) := [none]
    getPointIdByMap maps 1 0 1 = .ok (some 1) ∧ getPointIdByMap maps 1 1 0 = .error .attributeError := by
  decide +kernel

/-- without the premise "each successor is STRICTLY the nearest end point" of `assignAll_small_motion` the greedy loop
    depends on the storage order of frame 0: vertex 7 is the nearest candidate of both 1 and 2, whoever comes first
    takes it -/
theorem assignAll_order_witness :
    let pool1 : List TVert := [⟨7, ⟨2/10, 0⟩⟩, ⟨8, ⟨6/10, 0⟩⟩]
    assignAll (5/1000) (1/10) 10 pool1 [⟨1, ⟨0, 0⟩⟩, ⟨2, ⟨3/10, 0⟩⟩] [] = [(1, some 7), (2, some 8)] ∧
    assignAll (5/1000) (1/10) 10 pool1 [⟨2, ⟨3/10, 0⟩⟩, ⟨1, ⟨0, 0⟩⟩] [] = [(2, some 7), (1, some 8)] := by
  decide +kernel

end Forsys
