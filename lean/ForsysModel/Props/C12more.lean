/-
  Property C12, additions — what Props/C12.lean and Props/C12relabel.lean leave open:

  A. GEOMETRY.  The tracking reads positions only through squared distances compared with radii proportional to the
     extent: `find_best`, the assignment loop and `create_mapping` are unchanged by a change of unit and origin
     (`p ↦ lam·p + d`, `lam > 0`), and the loop is unchanged by any similarity (rotations, reflections included) when the
     extent is scaled accordingly.
  B. FIXED POINT / COMPOSITION.  Feeding the result back as `initial_guess` reproduces it; the loop over a concatenated
     dictionary is the composition of the two loops (rvertices, then evertices in the code).
  C. DEGENERATE INPUTS.  Empty frame 0: the guess comes back untouched (and the bounding-box test is skipped);
     empty frame 1: every end point is mapped to `None`.
  D. ROUND TRIP on the public function `get_point_id_by_map` and on the maps the code itself builds (`mapsOf`),
     and the necessity of each hypothesis (`…_witness`).
-/
import ForsysModel.Proofs.C12more
import ForsysModel.Props.C12
import ForsysModel.Props.C12relabel

namespace Forsys

/-! ### A. similarity invariance -/

/-- `find_best` commutes with any map `f` of the plane that multiplies squared distances by `lam² > 0`, provided the
    extent handed in is multiplied by `lam`: the same vertex (same id, transformed position) is returned -/
theorem findBest_similarity (f : Pt → Pt) (lam : Rat) (hl : 0 < lam)
    (hf : ∀ a b, distSq (f a) (f b) = lam * lam * distSq a b)
    (s0 cutoff maxcoord : Rat) (v0 : Pt) (pool : List TVert) (found : List (Option Id)) :
    findBest s0 cutoff (lam * maxcoord) (f v0) (pool.map (TVert.mapP f)) found
      = (findBest s0 cutoff maxcoord v0 pool found).map (TVert.mapP f) :=
  C12m.findBest_sim f lam hl hf s0 cutoff maxcoord v0 pool found

/-- the whole assignment loop returns the SAME step map when both frames are transformed by a similarity -/
theorem assignAll_similarity (f : Pt → Pt) (lam : Rat) (hl : 0 < lam)
    (hf : ∀ a b, distSq (f a) (f b) = lam * lam * distSq a b)
    (s0 cutoff maxcoord : Rat) (pool1 pool0 : List TVert) (guess : StepMap) :
    assignAll s0 cutoff (lam * maxcoord) (pool1.map (TVert.mapP f)) (pool0.map (TVert.mapP f)) guess
      = assignAll s0 cutoff maxcoord pool1 pool0 guess :=
  C12m.assignAll_sim f lam hl hf s0 cutoff maxcoord pool1 pool0 guess

/-- isometries (`lam = 1`: translations, rotations, reflections) with the same extent -/
theorem assignAll_isometry (f : Pt → Pt) (hf : ∀ a b, distSq (f a) (f b) = distSq a b)
    (s0 cutoff maxcoord : Rat) (pool1 pool0 : List TVert) (guess : StepMap) :
    assignAll s0 cutoff maxcoord (pool1.map (TVert.mapP f)) (pool0.map (TVert.mapP f)) guess
      = assignAll s0 cutoff maxcoord pool1 pool0 guess := by
  have h := assignAll_similarity f 1 one_pos (by intro a b; rw [hf]; ring) s0 cutoff maxcoord pool1 pool0 guess
  rwa [one_mul] at h

/-- the hypotheses on `f` are satisfiable: change of unit and origin, quarter turn, reflection -/
example : (0 : Rat) < 3 ∧ ∀ a b, distSq (simT 3 ⟨1, -2⟩ a) (simT 3 ⟨1, -2⟩ b) = 3 * 3 * distSq a b :=
  ⟨by norm_num, C12m.distSq_simT 3 ⟨1, -2⟩⟩
example : ∀ a b : Pt, distSq (⟨-a.y, a.x⟩ : Pt) ⟨-b.y, b.x⟩ = distSq a b := by
  intro a b; simp only [distSq]; ring
example : ∀ a b : Pt, distSq (⟨a.y, a.x⟩ : Pt) ⟨b.y, b.x⟩ = distSq a b := by
  intro a b; simp only [distSq]; ring

/-- the extent (`self.maxcoord`) scales with the unit and ignores the origin -/
theorem maxCoord_simT (lam : Rat) (hl : 0 < lam) (d : Pt) (pool0 pool1 : List TVert) :
    maxCoord (pool0.map (TVert.mapP (simT lam d))) (pool1.map (TVert.mapP (simT lam d)))
      = lam * maxCoord pool0 pool1 :=
  C12m.maxCoord_sim lam hl d pool0 pool1

/-- the DifferentTissueException test does not depend on unit and origin -/
theorem tooDifferent_simT (lam : Rat) (hl : 0 < lam) (d : Pt) (maxDiff : Rat) (pool0 pool1 : List TVert) :
    tooDifferent maxDiff (pool0.map (TVert.mapP (simT lam d))) (pool1.map (TVert.mapP (simT lam d)))
      = tooDifferent maxDiff pool0 pool1 :=
  C12m.tooDifferent_sim lam hl d maxDiff pool0 pool1

/-- `create_mapping` returns the same step map (or raises in exactly the same cases) when both frames are expressed in
    another unit and from another origin: `p ↦ lam·p + d`, `lam > 0` -/
theorem createMapping_simT (lam : Rat) (hl : 0 < lam) (d : Pt) (s0 cutoff maxDiff : Rat)
    (pool0 pool1 : List TVert) (guess : StepMap) :
    createMapping s0 cutoff maxDiff (pool0.map (TVert.mapP (simT lam d))) (pool1.map (TVert.mapP (simT lam d))) guess
      = createMapping s0 cutoff maxDiff pool0 pool1 guess := by
  unfold createMapping
  rw [tooDifferent_simT lam hl, maxCoord_simT lam hl, List.isEmpty_map,
    assignAll_similarity _ lam hl (C12m.distSq_simT lam d)]

/-- `lam > 0` is needed: `lam = 0` collapses both frames onto one point and every end point but one is left untracked -/
theorem createMapping_simT_zero_witness :
    let pool0 : List TVert := [⟨1, ⟨0, 0⟩⟩, ⟨2, ⟨10, 0⟩⟩]
    let pool1 : List TVert := [⟨7, ⟨1/10, 0⟩⟩, ⟨8, ⟨10, 1/10⟩⟩]
    createMapping (5/1000) (1/10) (1/10) pool0 pool1 [] = some [(1, some 7), (2, some 8)] ∧
    createMapping (5/1000) (1/10) (1/10) (pool0.map (TVert.mapP (simT 0 ⟨0, 0⟩)))
      (pool1.map (TVert.mapP (simT 0 ⟨0, 0⟩))) [] = some [(1, none), (2, none)] := by
  decide +kernel

/-! ### B. fixed point and composition -/

/-- a map that already has a key for every end point of frame 0 is returned untouched -/
theorem assignAll_of_allKeys (s0 cutoff maxcoord : Rat) (pool1 pool0 : List TVert) (m : StepMap)
    (h : ∀ v ∈ pool0, m.hasKey v.id = true) : assignAll s0 cutoff maxcoord pool1 pool0 m = m :=
  C12m.assignAll_of_allKeys s0 cutoff maxcoord pool1 pool0 m h

example : ∀ v ∈ ([⟨1, ⟨0, 0⟩⟩, ⟨2, ⟨10, 0⟩⟩] : List TVert),
    StepMap.hasKey [(1, some 9), (2, none)] v.id = true := by decide +kernel

/-- running the loop again on its own result changes nothing (whatever the candidate pool of the second run) -/
theorem assignAll_idempotent (s0 cutoff maxcoord : Rat) (pool1 pool1' pool0 : List TVert) (guess : StepMap) :
    assignAll s0 cutoff maxcoord pool1' pool0 (assignAll s0 cutoff maxcoord pool1 pool0 guess)
      = assignAll s0 cutoff maxcoord pool1 pool0 guess :=
  assignAll_of_allKeys _ _ _ _ _ _ (fun v hv => assignAll_total s0 cutoff maxcoord pool1 pool0 guess v hv)

/-- feeding the computed correspondence back as `initial_guess` reproduces it -/
theorem createMapping_refeed (s0 cutoff maxDiff : Rat) (pool0 pool1 : List TVert) (guess m : StepMap)
    (h : createMapping s0 cutoff maxDiff pool0 pool1 guess = some m) :
    createMapping s0 cutoff maxDiff pool0 pool1 m = some m := by
  unfold createMapping at h ⊢
  split at h
  · simp at h
  · rename_i hc
    simp only [Option.some.injEq] at h
    subst h
    rw [if_neg hc, assignAll_idempotent]

example : createMapping (5/1000) (1/10) (1/10)
    [⟨1, ⟨0, 0⟩⟩, ⟨2, ⟨10, 0⟩⟩, ⟨3, ⟨0, 10⟩⟩] [⟨7, ⟨10, 1/10⟩⟩, ⟨8, ⟨1/10, 10⟩⟩, ⟨9, ⟨1/10, 0⟩⟩] [(2, some 7)]
    = some [(2, some 7), (1, some 9), (3, some 8)] := by decide +kernel

/-- the loop over a concatenated dictionary is the composition of the two loops (the code runs it over `rvertices`
    and then over `evertices` on the same `mapping`) -/
theorem assignAll_append (s0 cutoff maxcoord : Rat) (pool1 a b : List TVert) (m : StepMap) :
    assignAll s0 cutoff maxcoord pool1 (a ++ b) m
      = assignAll s0 cutoff maxcoord pool1 b (assignAll s0 cutoff maxcoord pool1 a m) :=
  C12m.assignAll_append s0 cutoff maxcoord pool1 a b m

/-! ### C. degenerate frames -/

/-- no interface end point in frame 0: nothing to track, the guess is returned as is and the bounding-box test is not
    even evaluated (`len(rvertices0) > 0 and …`) -/
theorem createMapping_nil_pool0 (s0 cutoff maxDiff : Rat) (pool1 : List TVert) (guess : StepMap) :
    createMapping s0 cutoff maxDiff [] pool1 guess = some guess := by
  simp [createMapping, assignAll]

/-- no candidate in frame 1: every end point of frame 0 gets the entry `None` -/
theorem assignAll_no_candidates (s0 cutoff maxcoord : Rat) (pool0 : List TVert) (a : TVert) (ha : a ∈ pool0) :
    (assignAll s0 cutoff maxcoord [] pool0 []).get? a.id = some none := by
  have ht := assignAll_total s0 cutoff maxcoord [] pool0 [] a ha
  obtain ⟨v, hv⟩ := C12.get?_of_hasKey _ _ ht
  cases v with
  | none => exact hv
  | some w =>
    rcases assignAll_range s0 cutoff maxcoord [] pool0 [] a.id w hv with h | h
    · simp [StepMap.get?, alGet?] at h
    · simp at h

/-! ### D. round trips -/

/-- the public function: `get_point_id_by_map(p, t0, t1) = q` with `t0 < t1` implies `get_point_id_by_map(q, t1, t0) = p`
    when every step map in between exists and is injective on its real values -/
theorem getPointIdByMap_roundtrip (maps : List (Option StepMap)) (t0 t1 : Nat) (p q : Id) (hlt : t0 < t1)
    (hall : ∀ i, t0 ≤ i → i < t1 → ∃ m, maps.getD i none = some m ∧ (StepMap.someValues m).Nodup)
    (hf : getPointIdByMap maps p t0 t1 = .ok (some q)) :
    getPointIdByMap maps q t1 t0 = .ok (some p) := by
  have hn : t0 + (t1 - t0) = t1 := by omega
  simp only [getPointIdByMap, hlt, if_true] at hf
  have hnot : ¬ t1 < t0 := by omega
  simp only [getPointIdByMap, hnot, if_false]
  have := C12.roundtrip' maps (t1 - t0) t0 p q (by intro i h1 h2; exact hall i h1 (by omega)) hf
  rwa [hn] at this

/-- the maps the code itself builds (`mapsOf` = `__post_init__`): if the user's guesses are injective and no step raised
    DifferentTissueException, following the correspondence forward and then backward returns the starting vertex.
    No hypothesis on the computed maps: their injectivity is `createMapping_injective`. -/
theorem mapsOf_roundtrip (s0 cutoff maxDiff : Rat) (pools : List (List TVert)) (guesses : List StepMap)
    (t n : Nat) (p q : Id)
    (hg : ∀ i, (StepMap.someValues (guesses.getD i [])).Nodup)
    (hno : ∀ i, t ≤ i → i < t + n → (mapsOf s0 cutoff maxDiff pools guesses).getD i none ≠ none)
    (hf : walkForward (mapsOf s0 cutoff maxDiff pools guesses) t n (some p) = .ok (some q)) :
    walkBackward (mapsOf s0 cutoff maxDiff pools guesses) (t + n) n (some q) = .ok (some p) := by
  refine C12.roundtrip' _ n t p q ?_ hf
  intro i h1 h2
  cases hm : (mapsOf s0 cutoff maxDiff pools guesses).getD i none with
  | none => exact absurd hm (hno i h1 h2)
  | some m =>
    refine ⟨m, rfl, ?_⟩
    have hc := C12m.mapsOf_getD _ _ _ _ _ _ _ hm
    unfold createMapping at hc
    split at hc
    · simp at hc
    · simp only [Option.some.injEq] at hc
      subst hc
      exact C12.assignAll_injective' _ _ _ _ _ _ (hg i)

/-- the hypotheses of `mapsOf_roundtrip` / `getPointIdByMap_roundtrip` on the three-frame series of Props/C12relabel.lean -/
example :
    let maps := mapsOf (5/1000) (1/10) (1/10) (poolsOf exFrames12 exJunctions) []
    (∀ i, 0 ≤ i → i < 0 + 2 → maps.getD i none ≠ none) ∧
    (∀ i, 0 ≤ i → i < 2 → ∃ m, maps.getD i none = some m ∧ (StepMap.someValues m).Nodup) ∧
    walkForward maps 0 2 (some 1) = .ok (some 9) ∧ getPointIdByMap maps 1 0 2 = .ok (some 9) ∧
    getPointIdByMap maps 9 2 0 = .ok (some 1) := by
  refine ⟨?_, ?_, by decide +kernel, by decide +kernel, by decide +kernel⟩
  · intro i _ h2
    have : i = 0 ∨ i = 1 := by omega
    rcases this with rfl | rfl <;> decide +kernel
  · intro i _ h2
    have : i = 0 ∨ i = 1 := by omega
    rcases this with rfl | rfl
    · exact ⟨[(1, some 5), (2, some 6), (3, some 7)], by decide +kernel, by decide +kernel⟩
    · exact ⟨[(5, some 9), (6, some 10), (7, some 11)], by decide +kernel, by decide +kernel⟩

/-- injectivity of the step map is needed for the round trip: two keys with the same target — the later one wins in
    the inverted dictionary -/
theorem roundtrip_noninjective_witness :
    let maps : List (Option StepMap) := [some [(1, some 9), (2, some 9)]]
    getPointIdByMap maps 1 0 1 = .ok (some 9) ∧ getPointIdByMap maps 9 1 0 = .ok (some 2) := by
  decide +kernel

/-- existence of every step map is needed: across a step that raised DifferentTissueException the forward walk stops
    and returns the vertex it holds, the backward walk fails with AttributeError (`None.items()`) -/
theorem roundtrip_missing_map_witness :
    let maps : List (Option StepMap) := [none]
    getPointIdByMap maps 1 0 1 = .ok (some 1) ∧ getPointIdByMap maps 1 1 0 = .error .attributeError := by
  decide +kernel

/-- without the premise "each successor is STRICTLY the nearest end point" of `assignAll_small_motion` the greedy loop
    depends on the storage order of frame 0: vertex 7 is the nearest candidate of both 1 and 2, whoever comes first
    takes it -/
theorem assignAll_order_witness :
    let pool1 : List TVert := [⟨7, ⟨2/10, 0⟩⟩, ⟨8, ⟨6/10, 0⟩⟩]
    assignAll (5/1000) (1/10) 10 pool1 [⟨1, ⟨0, 0⟩⟩, ⟨2, ⟨3/10, 0⟩⟩] [] = [(1, some 7), (2, some 8)] ∧
    assignAll (5/1000) (1/10) 10 pool1 [⟨2, ⟨3/10, 0⟩⟩, ⟨1, ⟨0, 0⟩⟩] [] = [(2, some 7), (1, some 8)] := by
  decide +kernel

/-! ### E. the keys of the correspondence -/

/-- exactly the keys of the guess and the interface end points of frame 0 get an entry (`assignAll_total` is the
    direction `←` for the end points) -/
theorem assignAll_hasKey_iff (s0 cutoff maxcoord : Rat) (pool1 pool0 : List TVert) (guess : StepMap) (k : Id) :
    (assignAll s0 cutoff maxcoord pool1 pool0 guess).hasKey k = true
      ↔ (guess.hasKey k = true ∨ k ∈ pool0.map (·.id)) :=
  C12m.assignAll_hasKey_iff s0 cutoff maxcoord pool1 k pool0 guess

/-- the result is a dictionary: distinct keys (given a guess with distinct keys), even when frame 0 stores the same id
    twice -/
theorem assignAll_keys_nodup (s0 cutoff maxcoord : Rat) (pool1 pool0 : List TVert) (guess : StepMap)
    (hk : (guess.map (·.1)).Nodup) :
    ((assignAll s0 cutoff maxcoord pool1 pool0 guess).map (·.1)).Nodup :=
  C12m.assignAll_keys_nodup s0 cutoff maxcoord pool1 pool0 guess hk

theorem createMapping_keys_nodup (s0 cutoff maxDiff : Rat) (pool0 pool1 : List TVert) (guess m : StepMap)
    (hk : (guess.map (·.1)).Nodup) (h : createMapping s0 cutoff maxDiff pool0 pool1 guess = some m) :
    (m.map (·.1)).Nodup := by
  unfold createMapping at h
  split at h
  · simp at h
  · simp only [Option.some.injEq] at h
    subst h
    exact assignAll_keys_nodup s0 cutoff _ pool1 pool0 guess hk

/-! ### F. backward, then forward -/

/-- following the correspondence BACKWARD over `n` steps and then forward returns the starting vertex, when every step
    map exists and has distinct keys (injectivity of the values is not needed in this direction).
    Guard `n ≤ T` explicit: the walk must not run below frame 0. -/
theorem roundtrip_back (maps : List (Option StepMap)) (T n : Nat) (p q : Id) (hT : n ≤ T)
    (hall : ∀ i, T - n ≤ i → i < T → ∃ m, maps.getD i none = some m ∧ (m.map (·.1)).Nodup)
    (hb : walkBackward maps T n (some q) = .ok (some p)) :
    walkForward maps (T - n) n (some p) = .ok (some q) :=
  C12m.roundtrip_back' maps n T p q hT hall hb

theorem getPointIdByMap_roundtrip_back (maps : List (Option StepMap)) (t0 t1 : Nat) (p q : Id) (hlt : t0 < t1)
    (hall : ∀ i, t0 ≤ i → i < t1 → ∃ m, maps.getD i none = some m ∧ (m.map (·.1)).Nodup)
    (hb : getPointIdByMap maps q t1 t0 = .ok (some p)) :
    getPointIdByMap maps p t0 t1 = .ok (some q) := by
  have hnot : ¬ t1 < t0 := by omega
  simp only [getPointIdByMap, hnot, if_false] at hb
  simp only [getPointIdByMap, hlt, if_true]
  have e : t1 - (t1 - t0) = t0 := by omega
  have := roundtrip_back maps t1 (t1 - t0) p q (by omega) (by intro i h1 h2; exact hall i (by omega) h2) hb
  rwa [e] at this

/-- on the maps the code builds: guesses with distinct keys, no DifferentTissueException in the range -/
theorem mapsOf_roundtrip_back (s0 cutoff maxDiff : Rat) (pools : List (List TVert)) (guesses : List StepMap)
    (T n : Nat) (p q : Id) (hT : n ≤ T)
    (hg : ∀ i, ((guesses.getD i []).map (·.1)).Nodup)
    (hno : ∀ i, T - n ≤ i → i < T → (mapsOf s0 cutoff maxDiff pools guesses).getD i none ≠ none)
    (hb : walkBackward (mapsOf s0 cutoff maxDiff pools guesses) T n (some q) = .ok (some p)) :
    walkForward (mapsOf s0 cutoff maxDiff pools guesses) (T - n) n (some p) = .ok (some q) := by
  refine roundtrip_back _ T n p q hT ?_ hb
  intro i h1 h2
  cases hm : (mapsOf s0 cutoff maxDiff pools guesses).getD i none with
  | none => exact absurd hm (hno i h1 h2)
  | some m =>
    exact ⟨m, rfl, createMapping_keys_nodup _ _ _ _ _ _ m (hg i) (C12m.mapsOf_getD _ _ _ _ _ _ _ hm)⟩

example :
    let maps := mapsOf (5/1000) (1/10) (1/10) (poolsOf exFrames12 exJunctions) []
    (2 ≤ 2) ∧ (∀ i, 2 - 2 ≤ i → i < 2 → maps.getD i none ≠ none) ∧
    walkBackward maps 2 2 (some 11) = .ok (some 3) ∧ walkForward maps (2 - 2) 2 (some 3) = .ok (some 11) := by
  refine ⟨Nat.le_refl _, ?_, by decide +kernel, by decide +kernel⟩
  intro i _ h2
  have : i = 0 ∨ i = 1 := by omega
  rcases this with rfl | rfl <;> decide +kernel

/-- distinct keys are needed in this direction (an association list with a repeated key is not a Python dict: the
    inverted dictionary remembers both entries, the look-up sees the first only) -/
theorem roundtrip_back_dupkey_witness :
    let maps : List (Option StepMap) := [some [(1, some 9), (1, some 8)]]
    getPointIdByMap maps 8 1 0 = .ok (some 1) ∧ getPointIdByMap maps 1 0 1 = .ok (some 9) := by
  decide +kernel

/-! ### G. small motions: the whole dictionary, the whole series -/

/-- under the premises of `assignAll_small_motion` (and distinct ids in frame 0) the WHOLE step map is known, order
    included: one entry `id ↦ successor` per end point of frame 0, in the storage order of frame 0 -/
theorem assignAll_small_motion_list (s0 cutoff maxcoord : Rat) (pool1 pool0 : List TVert) (succ : Id → Id)
    (hnd0 : (pool0.map (·.id)).Nodup) (hnd1 : (pool1.map (·.id)).Nodup)
    (hinj : ∀ a ∈ pool0, ∀ b ∈ pool0, succ a.id = succ b.id → a.id = b.id)
    (hsucc : ∀ a ∈ pool0, ∃ w ∈ pool1, w.id = succ a.id ∧
        (∀ u ∈ pool1, u.id ≠ w.id → distSq w.p a.p < distSq u.p a.p) ∧
        (∃ s ∈ spreads s0 cutoff 64, distSq w.p a.p < (s * maxcoord) * (s * maxcoord))) :
    assignAll s0 cutoff maxcoord pool1 pool0 [] = pool0.map (fun a => (a.id, some (succ a.id))) := by
  have := C12m.assignAll_small_list s0 cutoff maxcoord pool1 pool0 succ hnd1 hinj hsucc pool0 []
    (fun a h => h) hnd0 (by simp) (by intro a _; rfl)
  simpa using this

/-- the premises of `assignAll_small_motion` for one step of a series, with the extent the code computes, plus
    "the bounding box keeps its shape" -/
def SmallMotionStep (s0 cutoff maxDiff : Rat) (pool0 pool1 : List TVert) (succ : Id → Id) : Prop :=
  tooDifferent maxDiff pool0 pool1 = false ∧ (pool1.map (·.id)).Nodup ∧
  (∀ a ∈ pool0, ∀ b ∈ pool0, succ a.id = succ b.id → a.id = b.id) ∧
  (∀ a ∈ pool0, ∃ w ∈ pool1, w.id = succ a.id ∧
      (∀ u ∈ pool1, u.id ≠ w.id → distSq w.p a.p < distSq u.p a.p) ∧
      (∃ s ∈ spreads s0 cutoff 64,
        distSq w.p a.p < (s * maxCoord pool0 pool1) * (s * maxCoord pool0 pool1)))

/-- the successor of a junction `n` frames later -/
def iterSucc (succ : Nat → Id → Id) : Nat → Nat → Id → Id
  | _, 0, x => x
  | t, n + 1, x => iterSucc succ (t + 1) n (succ t x)

theorem mapsOf_small_step (s0 cutoff maxDiff : Rat) (pools : List (List TVert)) (succ : Nat → Id → Id)
    (hstep : ∀ t, t + 1 < pools.length →
      SmallMotionStep s0 cutoff maxDiff (pools.getD t []) (pools.getD (t + 1) []) (succ t))
    (t : Nat) (ht : t + 1 < pools.length) :
    ∃ m, (mapsOf s0 cutoff maxDiff pools []).getD t none = some m ∧ (StepMap.someValues m).Nodup ∧
      ∀ a ∈ pools.getD t [], m.get? a.id = some (some (succ t a.id)) := by
  obtain ⟨h1, h2, h3, h4⟩ := hstep t ht
  refine ⟨assignAll s0 cutoff (maxCoord (pools.getD t []) (pools.getD (t + 1) [])) (pools.getD (t + 1) [])
    (pools.getD t []) [], ?_, ?_, ?_⟩
  · rw [C12m.mapsOf_getD_eq _ _ _ _ _ _ (by omega)]
    unfold createMapping
    rw [h1, Bool.and_false]
    rfl
  · exact C12.assignAll_injective' _ _ _ _ _ _ (by simp [StepMap.values])
  · exact C12.assignAll_small_motion' _ _ _ _ _ _ h2 h3 h4

theorem series_small_motion (s0 cutoff maxDiff : Rat) (pools : List (List TVert)) (succ : Nat → Id → Id)
    (hstep : ∀ t, t + 1 < pools.length →
      SmallMotionStep s0 cutoff maxDiff (pools.getD t []) (pools.getD (t + 1) []) (succ t)) :
    ∀ (n t : Nat) (a : TVert), t + n < pools.length → a ∈ pools.getD t [] →
      walkForward (mapsOf s0 cutoff maxDiff pools []) t n (some a.id) = .ok (some (iterSucc succ t n a.id)) := by
  intro n
  induction n with
  | zero => intro t a _ _; rfl
  | succ n ih =>
    intro t a ht ha
    obtain ⟨m, hm, _, hget⟩ := mapsOf_small_step s0 cutoff maxDiff pools succ hstep t (by omega)
    rw [C12.walkForward_succ _ t n m a.id hm, hget a ha]
    obtain ⟨_, _, _, h4⟩ := hstep t (by omega)
    obtain ⟨w, hw, hwid, _⟩ := h4 a ha
    have := ih (t + 1) w (by omega) hw
    rw [hwid] at this
    exact this

theorem series_small_motion_roundtrip (s0 cutoff maxDiff : Rat) (pools : List (List TVert)) (succ : Nat → Id → Id)
    (hstep : ∀ t, t + 1 < pools.length →
      SmallMotionStep s0 cutoff maxDiff (pools.getD t []) (pools.getD (t + 1) []) (succ t))
    (n t : Nat) (a : TVert) (ht : t + n < pools.length) (ha : a ∈ pools.getD t []) :
    walkBackward (mapsOf s0 cutoff maxDiff pools []) (t + n) n (some (iterSucc succ t n a.id)) = .ok (some a.id) := by
  refine C12.roundtrip' _ n t a.id _ ?_ (series_small_motion s0 cutoff maxDiff pools succ hstep n t a ht ha)
  intro i _ h2
  obtain ⟨m, hm, hinj, _⟩ := mapsOf_small_step s0 cutoff maxDiff pools succ hstep i (by omega)
  exact ⟨m, hm, hinj⟩

def exPools12 : List (List TVert) :=
  [[⟨1, ⟨0, 0⟩⟩, ⟨2, ⟨10, 0⟩⟩, ⟨3, ⟨0, 10⟩⟩], [⟨5, ⟨1/10, 0⟩⟩, ⟨6, ⟨10, 1/10⟩⟩, ⟨7, ⟨1/10, 10⟩⟩],
   [⟨9, ⟨2/10, 0⟩⟩, ⟨10, ⟨10, 2/10⟩⟩, ⟨11, ⟨1/10, 51/5⟩⟩]]

/-- the premises of the series theorems hold on a three-frame series (code constants; successor = id + 4) -/
example : ∀ t, t + 1 < exPools12.length →
    SmallMotionStep (5/1000) (1/10) (1/10) (exPools12.getD t []) (exPools12.getD (t + 1) []) (fun i => i + 4) := by
  intro t ht
  have : t = 0 ∨ t = 1 := by simp only [exPools12, List.length_cons, List.length_nil] at ht; omega
  rcases this with rfl | rfl <;> (unfold SmallMotionStep; decide +kernel)

example : walkForward (mapsOf (5/1000) (1/10) (1/10) exPools12 []) 0 2 (some 3) = .ok (some 11) ∧
    iterSucc (fun _ i => i + 4) 0 2 3 = 11 := by decide +kernel

end Forsys
