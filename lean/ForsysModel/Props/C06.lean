/-
  Property C06 — inference is invariant under similarity transforms and changes of units.
  Theorems about the rational models for translations, positive scalings, rotations `(a,−b; b,a)` with `a² + b² = 1`
  (rational points of the circle — dense in all rotations; irrational angles are covered by the per-run metamorphic check)
  and the reflection `(x, y) ↦ (x, −y)`.
  The tangent statements are for the reference rule `tangentVecDot`; the coded per-component rule is only equivariant
  under the symmetries of the square (finding D2) — `tangentVec_quarter_turn` and the rotation witness below.
-/
import ForsysModel.Model.Pressure
import ForsysModel.Model.Geometry
import ForsysModel.Proofs.C06

namespace Forsys
open C06

def rotP (a b : Rat) (p : Pt) : Pt := ⟨a * p.x - b * p.y, b * p.x + a * p.y⟩
def rotV (a b : Rat) (v : Vec) : Vec := ⟨a * v.x - b * v.y, b * v.x + a * v.y⟩
def flipP (p : Pt) : Pt := ⟨p.x, -p.y⟩
def flipV (v : Vec) : Vec := ⟨v.x, -v.y⟩
def shiftP (d : Pt) (p : Pt) : Pt := ⟨p.x + d.x, p.y + d.y⟩
def scaleP (s : Rat) (p : Pt) : Pt := ⟨s * p.x, s * p.y⟩

/-! ### tangents rotate / reflect with the tissue -/

theorem tangentVecDot_translate (d p c : Pt) (ch : Vec) :
    tangentVecDot (shiftP d p) (shiftP d c) ch = tangentVecDot p c ch := by
  have e1 : p.y + d.y - (c.y + d.y) = p.y - c.y := by ring
  have e2 : p.x + d.x - (c.x + d.x) = p.x - c.x := by ring
  simp only [tangentVecDot, shiftP, e1, e2]

theorem tangentVec_translate (d p c : Pt) (ch : Vec) :
    tangentVec (shiftP d p) (shiftP d c) ch = tangentVec p c ch := by
  have e1 : p.y + d.y - (c.y + d.y) = p.y - c.y := by ring
  have e2 : p.x + d.x - (c.x + d.x) = p.x - c.x := by ring
  simp only [tangentVec, shiftP, e1, e2]

/-- positive scaling multiplies the un-normalised vector by the factor: the unit tangent is unchanged -/
theorem tangentVecDot_scale (s : Rat) (hs : 0 < s) (p c : Pt) (ch : Vec) :
    tangentVecDot (scaleP s p) (scaleP s c) (Vec.smul s ch) = Vec.smul s (tangentVecDot p c ch) := by
  have e : -((scaleP s p).y - (scaleP s c).y) * (Vec.smul s ch).x + ((scaleP s p).x - (scaleP s c).x) * (Vec.smul s ch).y
      = (s * s) * (-(p.y - c.y) * ch.x + (p.x - c.x) * ch.y) := by simp only [scaleP, Vec.smul]; ring
  have hss : 0 < s * s := mul_pos hs hs
  by_cases h : -(p.y - c.y) * ch.x + (p.x - c.x) * ch.y < 0
  · rw [tvd_pos p c ch h, tvd_pos _ _ _ (by rw [e]; exact mul_neg_of_pos_of_neg hss h)]
    apply vec_ext <;> simp only [scaleP, Vec.smul] <;> ring
  · rw [tvd_neg p c ch h, tvd_neg _ _ _ (by rw [e]; exact not_lt.mpr (mul_nonneg hss.le (not_lt.mp h)))]
    apply vec_ext <;> simp only [scaleP, Vec.smul] <;> ring

theorem tangentVec_scale (s : Rat) (hs : 0 < s) (p c : Pt) (ch : Vec) :
    tangentVec (scaleP s p) (scaleP s c) (Vec.smul s ch) = Vec.smul s (tangentVec p c ch) := by
  rw [tv_eq, tv_eq]
  simp only [scaleP, Vec.smul, forcedSign_scale _ _ hs]
  have e1 : s * p.y - s * c.y = s * (p.y - c.y) := by ring
  have e2 : s * p.x - s * c.x = s * (p.x - c.x) := by ring
  rw [e1, e2, abs_mul, abs_mul, abs_of_pos hs]
  apply vec_ext <;> simp only <;> ring

/-- the true tangent rotates with the tissue -/
theorem tangentVecDot_rotate (a b : Rat) (h : a * a + b * b = 1) (p c : Pt) (ch : Vec) :
    tangentVecDot (rotP a b p) (rotP a b c) (rotV a b ch) = rotV a b (tangentVecDot p c ch) := by
  have e : -((rotP a b p).y - (rotP a b c).y) * (rotV a b ch).x + ((rotP a b p).x - (rotP a b c).x) * (rotV a b ch).y
      = (-(p.y - c.y) * ch.x + (p.x - c.x) * ch.y) := by
    simp only [rotP, rotV]
    linear_combination (-(p.y - c.y) * ch.x + (p.x - c.x) * ch.y) * h
  by_cases h' : -(p.y - c.y) * ch.x + (p.x - c.x) * ch.y < 0
  · rw [tvd_pos p c ch h', tvd_pos _ _ _ (by rw [e]; exact h')]
    apply vec_ext <;> simp only [rotP, rotV] <;> ring
  · rw [tvd_neg p c ch h', tvd_neg _ _ _ (by rw [e]; exact h')]
    apply vec_ext <;> simp only [rotP, rotV] <;> ring

/-- … and reflects with it (away from the degenerate case of a chord perpendicular to the tangent) -/
theorem tangentVecDot_reflect (p c : Pt) (ch : Vec) (h : Vec.dot (Vec.perp (Vec.sub p c)) ch ≠ 0) :
    tangentVecDot (flipP p) (flipP c) (flipV ch) = flipV (tangentVecDot p c ch) := by
  have e : -((flipP p).y - (flipP c).y) * (flipV ch).x + ((flipP p).x - (flipP c).x) * (flipV ch).y
     = -(-(p.y - c.y) * ch.x + (p.x - c.x) * ch.y) := by simp only [flipP, flipV]; ring
  simp only [Vec.dot, Vec.perp, Vec.sub] at h
  rcases lt_or_gt_of_ne h with h1 | h1
  · rw [tvd_pos p c ch h1, tvd_neg _ _ _ (by rw [e]; linarith)]
    apply vec_ext
    · simp only [flipP, flipV]; ring
    · simp only [flipP, flipV, neg_neg]
  · rw [tvd_neg p c ch (by linarith), tvd_pos _ _ _ (by rw [e]; linarith)]
    apply vec_ext
    · simp only [flipP, flipV]; ring
    · simp only [flipP, flipV]

/-- the coded rule is equivariant under quarter turns when no chord component vanishes … -/
theorem tangentVec_quarter_turn (p c : Pt) (ch : Vec) (hx : ch.x ≠ 0) (hy : ch.y ≠ 0) :
    tangentVec (rotP 0 1 p) (rotP 0 1 c) (rotV 0 1 ch) = rotV 0 1 (tangentVec p c ch) := by
  have _ := hx
  rw [tv_eq, tv_eq]
  simp only [rotP, rotV, zero_mul, one_mul, zero_sub, add_zero, forcedSign_neg _ hy]
  have e1 : -p.y - -c.y = -(p.y - c.y) := by ring
  rw [e1, abs_neg]
  apply vec_ext
  · simp only [Int.cast_neg]; ring
  · simp only

/-- … but not under general rotations (finding D2): rotating the witness of C02 by the rational rotation (3/5, 4/5) the
    coded vector is not the rotated coded vector -/
theorem tangentVec_rotation_witness :
    tangentVec (rotP (3/5) (4/5) ⟨63, -16⟩) (rotP (3/5) (4/5) ⟨0, 0⟩) (rotV (3/5) (4/5) ⟨-3, 41⟩)
      ≠ rotV (3/5) (4/5) (tangentVec ⟨63, -16⟩ ⟨0, 0⟩ ⟨-3, 41⟩) := by
  decide +kernel

/-! ### curvature ingredients and areas -/

/-- rotations leave every curvature numerator, squared speed and squared segment length unchanged -/
theorem curvParts_rotate (a b : Rat) (h : a * a + b * b = 1) (pts : List Pt) :
    (curvParts (pts.map (rotP a b))).num = (curvParts pts).num ∧
    (curvParts (pts.map (rotP a b))).speedSq = (curvParts pts).speedSq ∧
    (curvParts (pts.map (rotP a b))).segSq = (curvParts pts).segSq := by
  have hr : rotP a b = linP a (-b) b a := by
    funext p; simp only [rotP, linP, sub_eq_add_neg, neg_mul]
  obtain ⟨h1, h2⟩ := curvParts_linP a (-b) b a pts
  obtain ⟨h3, h4⟩ := h2 h (by linear_combination h) (by ring)
  rw [hr]
  refine ⟨?_, h3, h4⟩
  rw [h1]
  have : (fun x : Rat => (a * a - -b * b) * x) = id := by
    funext x
    have : a * a - -b * b = 1 := by linear_combination h
    rw [this, one_mul]; rfl
  rw [this, List.map_id]

/-- a reflection negates the numerators (the turning changes sign, as does the area sign of every cell) -/
theorem curvParts_reflect (pts : List Pt) :
    (curvParts (pts.map flipP)).num = (curvParts pts).num.map (- ·) ∧
    (curvParts (pts.map flipP)).speedSq = (curvParts pts).speedSq ∧
    (curvParts (pts.map flipP)).segSq = (curvParts pts).segSq := by
  have hr : flipP = linP 1 0 0 (-1) := by
    funext p; simp only [flipP, linP, one_mul, zero_mul, add_zero, zero_add, neg_mul]
  obtain ⟨h1, h2⟩ := curvParts_linP 1 0 0 (-1) pts
  obtain ⟨h3, h4⟩ := h2 (by norm_num) (by norm_num) (by norm_num)
  rw [hr]
  refine ⟨?_, h3, h4⟩
  rw [h1]
  apply List.map_congr_left
  intro x _
  ring

theorem area_rotP (a b : Rat) (h : a * a + b * b = 1) (ps : List Pt) : area (ps.map (rotP a b)) = area ps := by
  rw [area_map_of_eCross (rotP a b) 1, one_mul]
  intro p q
  simp only [eCross, rotP]
  linear_combination (p.x * q.y - q.x * p.y) * h

theorem area_flipP (ps : List Pt) : area (ps.map flipP) = - area ps := by
  rw [area_map_of_eCross flipP (-1), neg_one_mul]
  intro p q
  simp only [eCross, flipP]
  ring

/-! ### the least-squares objective -/

/-- rotate consecutive (x-row, y-row) pairs of a vector -/
def rotPairs (a b : Rat) : List Rat → List Rat
  | u :: v :: rest => (a * u - b * v) :: (b * u + a * v) :: rotPairs a b rest
  | l => l

/-- `rotPairs` is the copy `C06.rotPairs'` the helper lemmas are stated for -/
theorem rotPairs_eq (a b : Rat) (l : List Rat) : rotPairs a b l = rotPairs' a b l := by
  fun_induction rotPairs a b l with
  | case1 u v rest ih => rw [rotPairs', ih]
  | case2 l h =>
    unfold rotPairs'
    split
    · exact absurd rfl (h _ _ _)
    · rfl

/-- rotating every junction's (x, y) residual pair leaves the squared residual unchanged: the rotated tissue has the same
    set of minimisers -/
theorem normSq_rotPairs (a b : Rat) (h : a * a + b * b = 1) (r : List Rat) (he : r.length % 2 = 0) :
    normSq (rotPairs a b r) = normSq r := by
  have _ := he
  rw [rotPairs_eq, normSq_rotPairs' a b h]

/-- the residual of the rotated system is the rotated residual (rows come in (x, y) pairs per junction) -/
theorem rotPairs_residual (a b : Rat) (M : Mat) (bb x : List Rat) (m n : Nat) (hs : Shaped M bb m n) (hx : x.length = n) :
    vsub (rotPairs a b (mulVec M x)) (rotPairs a b bb) = rotPairs a b (vsub (mulVec M x) bb) := by
  have _ := hx
  simp only [rotPairs_eq]
  apply vsub_rotPairs'
  simp [mulVec, hs.1, hs.2.1]

/-! ### units of the velocity term -/

/-- dividing by the mean speed removes length and time units: scaling all velocities by `k ≠ 0` (lengths by λ, times by μ:
    `k = λ/μ`) and the mean speed by `|k|`… for `k > 0` the adimensional right-hand side is unchanged -/
theorem adimensional_units (k avg : Rat) (hk : 0 < k) (havg : avg ≠ 0) (b : List Rat) :
    (b.map fun v => (k * v) / (k * avg)) = b.map fun v => v / avg := by
  have _ := havg
  apply List.map_congr_left
  intro v _
  exact mul_div_mul_left v avg hk.ne'

/-! non-vacuity -/
example : (3/5 : Rat) * (3/5) + (4/5) * (4/5) = 1 := by norm_num
example : Vec.dot (Vec.perp (Vec.sub ⟨63, -16⟩ ⟨0, 0⟩)) ⟨-3, 41⟩ ≠ 0 := by decide +kernel
example : Shaped [[1, 2], [3, 4]] [5, 6] 2 2 ∧ ([7, 8] : List Rat).length = 2 ∧ ([5, 6] : List Rat).length % 2 = 0 := by
  simp [Shaped]

end Forsys
