/-
  Property C12 — vertex tracking between frames is injective and follows small motions.
  Model: ForsysModel/Model/TimeSeries.lean (create_mapping, find_best, get_point_id_by_map).
-/
import ForsysModel.Model.TimeSeries
import ForsysModel.Proofs.C12

namespace Forsys

/-- values already present in the map that are real ids -/
def StepMap.someValues (m : StepMap) : List Id := m.values.filterMap id

/-- `find_best` only returns pool vertices that are not taken yet -/
theorem findBest_mem (s0 cutoff maxcoord : Rat) (v0 : Pt) (pool : List TVert) (found : List (Option Id))
    (b : TVert) (h : findBest s0 cutoff maxcoord v0 pool found = some b) :
    b ∈ pool ∧ (some b.id) ∉ found := by
  exact C12.findBest_mem' s0 cutoff maxcoord v0 pool found b h

/-- user-supplied pairings are honoured: keys of the guess keep their value -/
theorem assignAll_honours_guess (s0 cutoff maxcoord : Rat) (pool1 pool0 : List TVert) (guess : StepMap)
    (k : Id) (v : Option Id) (h : guess.get? k = some v) :
    (assignAll s0 cutoff maxcoord pool1 pool0 guess).get? k = some v := by
  exact C12.assignAll_get?_mono s0 cutoff maxcoord pool1 pool0 guess k v h

/-- every interface end point of the first frame gets an entry -/
theorem assignAll_total (s0 cutoff maxcoord : Rat) (pool1 pool0 : List TVert) (guess : StepMap)
    (v : TVert) (hv : v ∈ pool0) :
    (assignAll s0 cutoff maxcoord pool1 pool0 guess).hasKey v.id = true := by
  exact C12.assignAll_total' s0 cutoff maxcoord pool1 pool0 guess v hv

/-- targets are interface end points of the next frame (or come from the guess) -/
theorem assignAll_range (s0 cutoff maxcoord : Rat) (pool1 pool0 : List TVert) (guess : StepMap)
    (k w : Id) (h : (assignAll s0 cutoff maxcoord pool1 pool0 guess).get? k = some (some w)) :
    guess.get? k = some (some w) ∨ w ∈ pool1.map (·.id) := by
  exact C12.assignAll_range' s0 cutoff maxcoord pool1 pool0 guess k w h

/-- the correspondence never sends two vertices to the same target (given a guess that does not) -/
theorem assignAll_injective (s0 cutoff maxcoord : Rat) (pool1 pool0 : List TVert) (guess : StepMap)
    (hk : (guess.map (·.1)).Nodup) (hg : (StepMap.someValues guess).Nodup) :
    (StepMap.someValues (assignAll s0 cutoff maxcoord pool1 pool0 guess)).Nodup := by
  have _ := hk
  exact C12.assignAll_injective' s0 cutoff maxcoord pool1 pool0 guess hg

theorem createMapping_injective (s0 cutoff maxDiff : Rat) (pool0 pool1 : List TVert) (guess m : StepMap)
    (hk : (guess.map (·.1)).Nodup) (hg : (StepMap.someValues guess).Nodup)
    (h : createMapping s0 cutoff maxDiff pool0 pool1 guess = some m) :
    (StepMap.someValues m).Nodup := by
  unfold createMapping at h
  split at h
  · simp at h
  · simp only [Option.some.injEq] at h
    subst h
    exact assignAll_injective s0 cutoff _ pool1 pool0 guess hk hg

/-- small motions are followed: if `succ` pairs every end point of frame 0 with a distinct end point of
    frame 1 that is strictly its nearest end point and lies inside the largest search radius
    (`0.08·extent` for the code's constants), then, whatever the numbering and the processing order,
    every end point is mapped to its successor.
    (H1 is implied by "every junction moves by less than half the smallest junction spacing".) -/
theorem assignAll_small_motion (s0 cutoff maxcoord : Rat) (pool1 pool0 : List TVert) (succ : Id → Id)
    (hs0 : 0 < s0) (hcut : s0 < cutoff) (hmc : 0 < maxcoord)
    (hnd0 : (pool0.map (·.id)).Nodup) (hnd1 : (pool1.map (·.id)).Nodup)
    (hinj : ∀ a ∈ pool0, ∀ b ∈ pool0, succ a.id = succ b.id → a.id = b.id)
    (hsucc : ∀ a ∈ pool0, ∃ w ∈ pool1, w.id = succ a.id ∧
        (∀ u ∈ pool1, u.id ≠ w.id → distSq w.p a.p < distSq u.p a.p) ∧
        (∃ s ∈ spreads s0 cutoff 64, distSq w.p a.p < (s * maxcoord) * (s * maxcoord))) :
    ∀ a ∈ pool0, (assignAll s0 cutoff maxcoord pool1 pool0 []).get? a.id = some (some (succ a.id)) := by
  have _ := hs0; have _ := hcut; have _ := hmc; have _ := hnd0
  exact C12.assignAll_small_motion' s0 cutoff maxcoord pool1 pool0 succ hnd1 hinj hsucc

/-- the radii tried with the code's constants are 0.005, 0.01, 0.02, 0.04, 0.08 times the extent -/
theorem spreads_code : spreads (5/1000) (1/10) 64 = [5/1000, 1/100, 2/100, 4/100, 8/100] := by
  decide +kernel

/-! ### following the correspondence forward and backward -/

/-- one step forward then the same step backward returns the starting vertex when the step map is injective on real values -/
theorem roundtrip_one_step (m : StepMap) (maps : List (Option StepMap)) (t : Nat) (p q : Id)
    (hm : maps.getD t none = some m) (hk : (m.map (·.1)).Nodup) (hinj : (StepMap.someValues m).Nodup)
    (hpq : m.get? p = some (some q)) :
    getPointIdByMap maps p t (t + 1) = .ok (some q) ∧ getPointIdByMap maps q (t + 1) t = .ok (some p) := by
  have _ := hk
  exact C12.roundtrip_one_step' m maps t p q hm hinj hpq

/-- general round trip over several frames -/
theorem roundtrip (maps : List (Option StepMap)) (t n : Nat) (p q : Id)
    (hall : ∀ i, t ≤ i → i < t + n → ∃ m, maps.getD i none = some m ∧ (m.map (·.1)).Nodup ∧ (StepMap.someValues m).Nodup)
    (hf : walkForward maps t n (some p) = .ok (some q)) :
    walkBackward maps (t + n) n (some q) = .ok (some p) := by
  refine C12.roundtrip' maps n t p q ?_ hf
  intro i h1 h2
  obtain ⟨m, hm, _, hinj⟩ := hall i h1 h2
  exact ⟨m, hm, hinj⟩

/-! non-vacuity -/
example : createMapping (5/1000) (1/10) (1/10)
    [⟨1, ⟨0, 0⟩⟩, ⟨2, ⟨10, 0⟩⟩, ⟨3, ⟨0, 10⟩⟩] [⟨7, ⟨10, 1/10⟩⟩, ⟨8, ⟨1/10, 10⟩⟩, ⟨9, ⟨1/10, 0⟩⟩] []
    = some [(1, some 9), (2, some 7), (3, some 8)] := by decide +kernel


/-- the hypotheses of `assignAll_small_motion` are satisfiable (extent 10, code constants) -/
example :
    let pool0 : List TVert := [⟨1, ⟨0, 0⟩⟩, ⟨2, ⟨10, 0⟩⟩, ⟨3, ⟨0, 10⟩⟩]
    let pool1 : List TVert := [⟨7, ⟨10, 1/10⟩⟩, ⟨8, ⟨1/10, 10⟩⟩, ⟨9, ⟨1/10, 0⟩⟩]
    let succ : Id → Id := fun i => if i = 1 then 9 else if i = 2 then 7 else 8
    (0 : Rat) < 5/1000 ∧ (5/1000 : Rat) < 1/10 ∧ (0 : Rat) < 10 ∧
    (pool0.map (·.id)).Nodup ∧ (pool1.map (·.id)).Nodup ∧
    (∀ a ∈ pool0, ∀ b ∈ pool0, succ a.id = succ b.id → a.id = b.id) ∧
    (∀ a ∈ pool0, ∃ w ∈ pool1, w.id = succ a.id ∧
        (∀ u ∈ pool1, u.id ≠ w.id → distSq w.p a.p < distSq u.p a.p) ∧
        (∃ s ∈ spreads (5/1000) (1/10) 64, distSq w.p a.p < (s * 10) * (s * 10))) := by
  decide +kernel

/-- the hypotheses of `roundtrip_one_step` / `roundtrip` are satisfiable -/
example :
    let maps : List (Option StepMap) := [some [(1, some 9), (2, some 7)], some [(9, some 4), (7, none)]]
    (∀ i, 0 ≤ i → i < 0 + 2 → ∃ m, maps.getD i none = some m ∧ (m.map (·.1)).Nodup ∧ (StepMap.someValues m).Nodup) ∧
    walkForward maps 0 2 (some 1) = .ok (some 4) ∧ walkBackward maps (0 + 2) 2 (some 4) = .ok (some 1) := by
  refine ⟨?_, by decide +kernel, by decide +kernel⟩
  intro i _ h2
  have : i = 0 ∨ i = 1 := by omega
  rcases this with rfl | rfl <;> exact ⟨_, rfl, by decide +kernel, by decide +kernel⟩

/-- a non-empty guess satisfying the hypotheses of `assignAll_injective` / `createMapping_injective` -/
example : (([(1, some 9), (5, none)] : StepMap).map (·.1)).Nodup ∧
    (StepMap.someValues [(1, some 9), (5, none)]).Nodup := by decide +kernel

end Forsys
