/-
  Property C16, additions: what Props/C16.lean and Props/C16system.lean leave open.
    1. the opening-angle test under similarity maps of the plane (scaling of either direction, rotation, reflection),
       its two extreme limits (limit 0: every pair reaches it; a limit beyond π: no pair does);
    1b. the flags do not depend on the lengths of the stored directions, interface by interface (the model keeps
       un-normalised vectors, the code unit vectors);
    2. the number of pairs compared at a junction, junctions with fewer than two interfaces;
    3. the WHOLE exclusion as a function of the limit: a smaller limit flags more junctions and leaves fewer interfaces;
    4. counting and the characterisation "nothing is excluded" for the whole function;
    5. the report: `realign` depends on the interfaces / on `deletes` only through the both-ends-flagged test
       (direction of the interfaces, order of `deletes`), all excluded, injectivity, and the round trip
       report → restricted solution → report.
-/
import ForsysModel.Proofs.C16more

namespace Forsys
open FMInput

/-! ### 1. the opening-angle test under similarity maps -/

/-- rotation by the angle of `(p, q)` followed by scaling with `‖(p, q)‖` -/
def Vec.rotScale (p q : Rat) (a : Vec) : Vec := ⟨p * a.x - q * a.y, q * a.x + p * a.y⟩
/-- reflection composed with that rotation and scaling -/
def Vec.reflScale (p q : Rat) (a : Vec) : Vec := ⟨p * a.x + q * a.y, q * a.x - p * a.y⟩

/-- the test does not depend on the lengths of the two directions (the code normalises them; the model does not) -/
theorem cosLe_smul (a b : Vec) (c k m : Rat) (hk : 0 < k) (hm : 0 < m) :
    cosLe (Vec.smul k a) (Vec.smul m b) c = cosLe a b c := by
  apply C16m.cosLe_similar a b _ _ c (k * m) (mul_pos hk hm)
  · simp only [Vec.dot, Vec.smul]; ring
  · simp only [Vec.normSq, Vec.smul]; ring

/-- … nor on a rotation and uniform scaling of the tissue -/
theorem cosLe_rotScale (a b : Vec) (c p q : Rat) (hpq : 0 < p * p + q * q) :
    cosLe (Vec.rotScale p q a) (Vec.rotScale p q b) c = cosLe a b c := by
  apply C16m.cosLe_similar a b _ _ c (p * p + q * q) hpq
  · simp only [Vec.dot, Vec.rotScale]; ring
  · simp only [Vec.normSq, Vec.rotScale]; ring

/-- … nor on a reflection -/
theorem cosLe_reflScale (a b : Vec) (c p q : Rat) (hpq : 0 < p * p + q * q) :
    cosLe (Vec.reflScale p q a) (Vec.reflScale p q b) c = cosLe a b c := by
  apply C16m.cosLe_similar a b _ _ c (p * p + q * q) hpq
  · simp only [Vec.dot, Vec.reflScale]; ring
  · simp only [Vec.normSq, Vec.reflScale]; ring

/-- the positivity of the factor is needed: a negative factor on ONE direction turns the angle θ into π − θ -/
theorem cosLe_smul_neg_witness :
    cosLe (Vec.smul (-1) ⟨1, 0⟩) (Vec.smul 1 ⟨1, 0⟩) 0 = true ∧ cosLe ⟨1, 0⟩ ⟨1, 0⟩ 0 = false := by
  constructor <;> decide +kernel

/-- the limit 0 (`cos = 1`) is reached by every pair -/
theorem cosLe_one (a b : Vec) : cosLe a b 1 = true := by
  rw [C16.cosLe_iff, if_pos (by norm_num)]
  right
  have := C16m.dot_sq_le a b
  linarith

/-- a limit beyond π (`cos < −1` formally; the quantifier of the property stops at π, the default `np.inf` is
    `cosLimit = none`) is reached by no pair of non-zero directions -/
theorem cosLe_below_neg_one (a b : Vec) (c : Rat) (hc : c < -1) (ha : 0 < a.normSq) (hb : 0 < b.normSq) :
    cosLe a b c = false := by
  rw [Bool.eq_false_iff]
  intro h
  rw [C16.cosLe_iff, if_neg (by linarith)] at h
  have hn := mul_pos ha hb
  have hd := C16m.dot_sq_le a b
  have hcc : 1 < c * c := by nlinarith
  nlinarith [h.2, mul_pos (sub_pos.2 hcc) hn]

/-- for a zero direction (an interface whose end tangent vanishes) the statement fails: the model's test says "reached" -/
theorem cosLe_below_neg_one_witness : cosLe ⟨0, 0⟩ ⟨1, 0⟩ (-2) = true := by decide +kernel

/-! ### 1b. the model keeps UN-NORMALISED directions, the code compares unit vectors: the flags are the same

  `inp'` is any input whose direction of every interface `i` at `v` is that of `inp` times a positive factor `k i` of its
  own (in particular the unit vectors `v / ‖v‖` the code hands to `np.dot`, were they rational; and the rescaled tissue
  of Props/C06system.lean, where all factors are equal). -/

/-- the junction is flagged or not regardless of the lengths of the directions, interface by interface -/
theorem exceeds_direction_scale (inp inp' : FMInput) (earr : List (List Id)) (v : Id)
    (hcl : inp'.cosLimit = inp.cosLimit) (k : Nat → Rat) (hk : ∀ i, 0 < k i)
    (hv : ∀ i, inp'.vecAt earr i v = (inp.vecAt earr i v).map (Vec.smul (k i))) :
    inp'.exceeds earr v = inp.exceeds earr v := by
  cases hc : inp.cosLimit with
  | none => rw [exceeds_no_limit inp earr v hc, exceeds_no_limit inp' earr v (hcl.trans hc)]
  | some c =>
    rw [Bool.eq_iff_iff, exceeds_iff inp' earr v c (hcl.trans hc), exceeds_iff inp earr v c hc]
    constructor
    · rintro ⟨i, j, a', b', h1, h2, h3, h4, h5, h6, h7, h8⟩
      rw [hv i] at h6
      rw [hv j] at h7
      obtain ⟨a, ha, rfl⟩ := Option.map_eq_some_iff.1 h6
      obtain ⟨b, hb, rfl⟩ := Option.map_eq_some_iff.1 h7
      rw [cosLe_smul a b c (k i) (k j) (hk i) (hk j)] at h8
      exact ⟨i, j, a, b, h1, h2, h3, h4, h5, ha, hb, h8⟩
    · rintro ⟨i, j, a, b, h1, h2, h3, h4, h5, h6, h7, h8⟩
      refine ⟨i, j, Vec.smul (k i) a, Vec.smul (k j) b, h1, h2, h3, h4, h5, ?_, ?_, ?_⟩
      · rw [hv i, h6]; rfl
      · rw [hv j, h7]; rfl
      · rw [cosLe_smul a b c (k i) (k j) (hk i) (hk j)]; exact h8

/-- hence the same flagged junctions and the same remaining interfaces -/
theorem deletes_used_direction_scale (inp inp' : FMInput) (earr : List (List Id))
    (hcl : inp'.cosLimit = inp.cosLimit) (hint : inp'.internal earr = inp.internal earr)
    (k : Id → Nat → Rat) (hk : ∀ v i, 0 < k v i)
    (hv : ∀ v i, inp'.vecAt earr i v = (inp.vecAt earr i v).map (Vec.smul (k v i))) :
    inp'.deletes earr = inp.deletes earr ∧ inp'.used earr = inp.used earr := by
  have hd : inp'.deletes earr = inp.deletes earr := by
    show (endsOf (inp'.internal earr)).filter (fun v => inp'.exceeds earr v)
      = (endsOf (inp.internal earr)).filter (fun v => inp.exceeds earr v)
    rw [hint]
    apply List.filter_congr
    intro v _
    exact exceeds_direction_scale inp inp' earr v hcl (k v) (hk v) (hv v)
  refine ⟨hd, ?_⟩
  rw [C16s.used_eq, C16s.used_eq, hd, hint]

/-- positivity is needed: reversing ONE of the two directions turns an acute pair into an obtuse one -/
theorem exceeds_direction_scale_witness :
    cosLe ⟨1, 0⟩ ⟨1, 1⟩ 0 = false ∧ cosLe (Vec.smul (-1) ⟨1, 0⟩) (Vec.smul 1 ⟨1, 1⟩) 0 = true := by
  constructor <;> decide +kernel

/-! ### 2. the pairs compared at a junction -/

/-- `itertools.combinations(vectors, 2)`: `n (n − 1) / 2` pairs, stated without division or truncated subtraction -/
theorem allPairs_length {α : Type} (l : List α) : 2 * (allPairs l).length + l.length = l.length * l.length := by
  exact C16m.allPairs_length l

/-- a vertex with at most one interface is never flagged, whatever the limit (even the limit 0) -/
theorem exceeds_lt_two (inp : FMInput) (earr : List (List Id)) (v : Id)
    (h : (Mesh.ownBigEdges earr v).length ≤ 1) : inp.exceeds earr v = false := by
  unfold exceeds
  cases inp.cosLimit with
  | none => rfl
  | some c =>
    simp only
    rw [C16m.allPairs_short _ (le_trans (List.length_filterMap_le _ _) h)]
    rfl

/-! ### 3. the exclusion as a function of the limit -/

/-- a junction flagged under a limit is flagged under every smaller limit (larger cosine) -/
theorem exceeds_mono (inp : FMInput) (earr : List (List Id)) (v : Id) (c c' : Rat) (hc : inp.cosLimit = some c)
    (h : c ≤ c') (he : inp.exceeds earr v = true) : (inp.withLimit (some c')).exceeds earr v = true := by
  rw [exceeds_iff inp earr v c hc] at he
  rw [exceeds_iff (inp.withLimit (some c')) earr v c' rfl]
  obtain ⟨i, j, a, b, h1, h2, h3, h4, h5, h6, h7, h8⟩ := he
  exact ⟨i, j, a, b, h1, h2, h3, h4, h5, h6, h7, cosLe_mono a b c c' h h8⟩

/-- the flagged junctions under a limit are, in order, among those under every smaller limit -/
theorem deletes_mono (inp : FMInput) (earr : List (List Id)) (c c' : Rat) (hc : inp.cosLimit = some c) (h : c ≤ c') :
    (inp.deletes earr).Sublist ((inp.withLimit (some c')).deletes earr) := by
  show ((endsOf (inp.internal earr)).filter fun v => inp.exceeds earr v).Sublist
    ((endsOf (inp.internal earr)).filter fun v => (inp.withLimit (some c')).exceeds earr v)
  apply List.monotone_filter_right
  intro v hv
  exact exceeds_mono inp earr v c c' hc h hv

/-- the remaining interfaces under a smaller limit are, in order, among those under the larger limit; and all of them
    are among the remaining interfaces without a limit (`used_sublist`) -/
theorem used_antitone (inp : FMInput) (earr : List (List Id)) (c c' : Rat) (hc : inp.cosLimit = some c) (h : c ≤ c') :
    ((inp.withLimit (some c')).used earr).Sublist (inp.used earr) := by
  show ((inp.internal earr).filter fun e => !(bothDeleted ((inp.withLimit (some c')).deletes earr) e)).Sublist
    ((inp.internal earr).filter fun e => !(bothDeleted (inp.deletes earr) e))
  apply List.monotone_filter_right
  intro e he
  cases hb : bothDeleted (inp.deletes earr) e with
  | false => rfl
  | true =>
    rw [C16m.bothDeleted_mono _ _ (deletes_mono inp earr c c' hc h).subset e hb] at he
    exact absurd he (by simp)

/-- strictness: on the lens, tightening `cos(limit)` from −9/10 to 1/2 removes the two spokes as well -/
theorem used_antitone_strict_witness :
    let inp : FMInput := { balInp with cosLimit := some (-9/10) }
    inp.used inp.earr = [[3, 0], [1, 4]] ∧ (inp.withLimit (some (1/2))).used inp.earr = [] := by
  decide +kernel

/-! ### 4. counting; when nothing is excluded -/

/-- every internal interface is either an unknown or excluded -/
theorem used_length_add_excluded (inp : FMInput) (earr : List (List Id)) :
    (inp.used earr).length + excludedCount (inp.internal earr) (inp.deletes earr) = (inp.internal earr).length := by
  rw [C16s.used_eq]
  exact C16s.excluded_add_kept _ _

/-- nothing is excluded iff no internal interface has both ends flagged -/
theorem used_eq_internal_iff (inp : FMInput) (earr : List (List Id)) :
    inp.used earr = inp.internal earr ↔ ∀ e ∈ inp.internal earr, bothDeleted (inp.deletes earr) e = false := by
  rw [C16s.used_eq, List.filter_eq_self]
  simp

/-- `deletes` lists every flagged junction once, and only ends of internal interfaces -/
theorem deletes_nodup_subset (inp : FMInput) (earr : List (List Id)) :
    (inp.deletes earr).Nodup ∧ ∀ v ∈ inp.deletes earr, v ∈ endsOf (inp.internal earr) := by
  constructor
  · exact (C07o.nodup_eraseDups _).filter _
  · intro v hv
    exact ((C16s.mem_deletes_iff inp earr v).1 hv).1

/-! ### 5. the report -/

/-- `realign` reads the interfaces and `deletes` only through the test "both ends flagged" -/
theorem realign_congr (internal internal' : List (List Id)) (del del' : List Id) (x : List Rat)
    (h : List.Forall₂ (fun e e' => bothDeleted del e = bothDeleted del' e') internal internal') :
    realign internal del x = realign internal' del' x := by
  unfold realign
  rw [h.length_eq]
  split
  · rfl
  · exact C16m.go_congr del del' internal internal' x h

/-- the stored direction of the interfaces does not matter for the report -/
theorem realign_reverse (internal : List (List Id)) (del : List Id) (x : List Rat) :
    realign (internal.map List.reverse) del x = realign internal del x := by
  apply realign_congr
  rw [List.forall₂_map_left_iff, List.forall₂_same]
  intro e _
  exact C16s.bothDeleted_reverse del e

/-- the order and multiplicity of `deletes` do not matter for the report -/
theorem realign_del_set (internal : List (List Id)) (del del' : List Id) (x : List Rat)
    (h : ∀ v, v ∈ del ↔ v ∈ del') : realign internal del x = realign internal del' x := by
  apply realign_congr
  rw [List.forall₂_same]
  intro e _
  rw [Bool.eq_iff_iff, C16s.bothDeleted_iff, C16s.bothDeleted_iff]
  simp only [h]

/-- when every internal interface is excluded the restricted solution is empty and the report is −1 everywhere
    (for the empty tissue: the empty report) -/
theorem realign_all_excluded (internal : List (List Id)) (del : List Id)
    (h : ∀ e ∈ internal, bothDeleted del e = true) :
    realign internal del [] = List.replicate internal.length (-1) := by
  unfold realign
  split
  · rename_i hl
    have : internal = [] := List.eq_nil_of_length_eq_zero (by simpa using hl)
    subst this; rfl
  · exact C16m.go_all_excluded del internal [] h

/-- the short-cut `len(internal) == len(xres)` of the code returns the solution unchanged whatever `deletes` says; it is
    only consistent when nothing is excluded (the length hypothesis of `realign_excluded` rules this instance out) -/
theorem realign_shortcut_witness : realign [[2, 3]] [2, 3] [5] = [5] ∧ bothDeleted [2, 3] [2, 3] = true := by
  decide +kernel

/-- the report determines the restricted solution: two different solutions give two different reports -/
theorem realign_injective (internal : List (List Id)) (del : List Id) (x x' : List Rat)
    (h : x.length + excludedCount internal del = internal.length)
    (h' : x'.length + excludedCount internal del = internal.length)
    (he : realign internal del x = realign internal del x') : x = x' := by
  rw [← realign_kept internal del x h, ← realign_kept internal del x' h', he]

/-- round trip report → restricted solution → report: any vector with one entry per internal interface and −1 at the
    excluded positions is the report of its own kept part (with `realign_kept`: `realign` is a bijection between
    restricted solutions and such vectors) -/
theorem realign_roundtrip (internal : List (List Id)) (del : List Id) (r : List Rat)
    (hl : r.length = internal.length)
    (hex : ∀ p ∈ List.zip internal r, bothDeleted del p.1 = true → p.2 = -1) :
    realign internal del (((List.zip internal r).filter fun p => !(bothDeleted del p.1)).map (·.2)) = r := by
  unfold realign
  split
  · rename_i hlen
    have hz : (List.zip internal r).length = internal.length := by simp [List.length_zip, hl]
    have hf := C16m.filter_length_eq_imp (fun p : List Id × Rat => !(bothDeleted del p.1)) (List.zip internal r)
      (by rw [hz, hlen]; simp)
    rw [hf]
    apply List.map_snd_zip
    omega
  · exact C16m.go_roundtrip del internal r hl hex

/-! non-vacuity -/
-- `cosLe_smul`, `cosLe_rotScale` / `cosLe_reflScale` (rotation by the 3-4-5 angle), `cosLe_below_neg_one`
example : (0 : Rat) < 2 ∧ (0 : Rat) < 3 ∧ (0 : Rat) < (3/5) * (3/5) + (4/5) * (4/5) ∧
    Vec.rotScale (3/5) (4/5) ⟨1, 0⟩ = ⟨3/5, 4/5⟩ := by decide +kernel
example : (-2 : Rat) < -1 ∧ 0 < Vec.normSq ⟨1, 0⟩ ∧ 0 < Vec.normSq ⟨-2, 1⟩ := by decide +kernel
-- `exceeds_direction_scale` / `deletes_used_direction_scale`: the lens with `cos(limit) = −9/10` and the same tissue in
-- another length unit (factor 2 for every interface, `deletes_used_mapP_scale` of Props/C06system.lean)
example :
    let inp : FMInput := { balInp with cosLimit := some (-9/10) }
    let inp' : FMInput := inp.mapP (scaleP 2)
    inp'.cosLimit = inp.cosLimit ∧ inp'.internal inp.earr = inp.internal inp.earr ∧ (∀ (_v : Id) (_i : Nat), (0 : Rat) < 2) ∧
    (∀ v i, inp'.vecAt inp.earr i v = (inp.vecAt inp.earr i v).map (Vec.smul 2)) ∧
    inp.vecAt inp.earr 0 0 = some ⟨3/2, 2⟩ ∧ inp'.vecAt inp.earr 0 0 = some ⟨3, 4⟩ := by
  intro inp inp'
  refine ⟨rfl, by decide +kernel, fun _ _ => by norm_num,
    fun v i => (deletes_used_mapP_scale 2 (by norm_num) inp).1 i v, by decide +kernel, by decide +kernel⟩
-- `exceeds_lt_two`: vertex 2 of the lens, interior point of the arc, lies on one interface
example : (Mesh.ownBigEdges balInp.earr 2).length ≤ 1 := by decide +kernel
-- `exceeds_mono` / `deletes_mono` / `used_antitone` on the lens: the limit 154° tightened to 60°
example :
    let inp : FMInput := { balInp with cosLimit := some (-9/10) }
    inp.cosLimit = some (-9/10) ∧ (-9/10 : Rat) ≤ 1/2 ∧ inp.exceeds inp.earr 0 = true ∧
    inp.deletes inp.earr = [0, 1] ∧ (inp.withLimit (some (1/2))).deletes inp.earr = [0, 1, 3, 4] := by
  decide +kernel
-- `realign_congr` (hence `realign_reverse`, `realign_del_set`), `realign_all_excluded`
example : List.Forall₂ (fun e e' => bothDeleted [2, 3] e = bothDeleted [3, 2, 3] e')
    [[1, 2], [2, 3], [3, 1]] [[2, 1], [3, 2], [1, 3]] ∧
    (∀ e ∈ ([[2, 3], [3, 5, 2]] : List (List Id)), bothDeleted [2, 3] e = true) ∧
    realign [[2, 3], [3, 5, 2]] [2, 3] [] = [-1, -1] := by
  refine ⟨.cons (by decide) (.cons (by decide) (.cons (by decide) .nil)), by decide, by decide +kernel⟩
-- `realign_injective` / `realign_roundtrip`: the report (5, −1, 7)
example : ([5, 7] : List Rat).length + excludedCount [[1, 2], [2, 3], [3, 1]] [2, 3] = [[1, 2], [2, 3], [3, 1]].length ∧
    ([5, -1, 7] : List Rat).length = ([[1, 2], [2, 3], [3, 1]] : List (List Id)).length ∧
    (∀ p ∈ List.zip ([[1, 2], [2, 3], [3, 1]] : List (List Id)) ([5, -1, 7] : List Rat),
      bothDeleted [2, 3] p.1 = true → p.2 = -1) ∧
    ((List.zip ([[1, 2], [2, 3], [3, 1]] : List (List Id)) ([5, -1, 7] : List Rat)).filter
      fun p => !(bothDeleted [2, 3] p.1)).map (·.2) = [5, 7] := by
  decide +kernel

/- PENDING: nothing.  (The behaviour of the whole exclusion under translation / change of unit / rotation / reflection of
   the tissue is Props/C06system.lean, `deletes_used_mapP_*`; `cosLe_smul` with two independent factors and
   `exceeds_direction_scale` above add the per-interface normalisation the code performs.) -/

end Forsys
