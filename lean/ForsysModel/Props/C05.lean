/-
  Property C05 — reported tensions are the non-negative least-squares optimum with mean one.
  The solvers are external kernels; what is proved here is the soundness of the certificates that the
  harness evaluates, in exact rational arithmetic, on every solution the real code returns
  (Model/Solve.lean: kktCheck, statCheck, solveCheck), the shape of the augmented system (add_mean_one),
  uniqueness under injectivity, and "mean one for consistent systems".
-/
import ForsysModel.Model.Solve
import ForsysModel.Proofs.C05

namespace Forsys

theorem residSq_nonneg (M : Mat) (b x : List Rat) : 0 ≤ residSq M b x := by
  exact normSq_nonneg _

/-- the basic identity: `‖My−b‖² − ‖Mz−b‖² = ‖M(y−z)‖² + 2 (y−z)·w`, `w = Mᵀ(Mz−b)` -/
theorem residSq_diff (M : Mat) (b z y : List Rat) (m n : Nat) (hs : Shaped M b m n)
    (hz : z.length = n) (hy : y.length = n) :
    residSq M b y - residSq M b z
      = normSq (mulVec M (vsub y z)) + 2 * (dot y (grad M b z) - dot z (grad M b z)) := by
  exact residSq_diff_core M b z y n (hs.2.1.trans hs.1.symm) hs.2.2 hz hy

/-- soundness of the KKT certificate with slack: a certified `z` is within `2(ε·Σy + δ)` of every
    non-negative candidate `y` -/
theorem kkt_gap (M : Mat) (b z y : List Rat) (m n : Nat) (eps delta : Rat) (hs : Shaped M b m n)
    (hz : z.length = n) (hy : y.length = n) (hy0 : ∀ v ∈ y, 0 ≤ v) (heps : 0 ≤ eps)
    (h : kktCheck M b z eps delta = true) :
    residSq M b z ≤ residSq M b y + 2 * (eps * y.sum + delta) := by
  have hd := residSq_diff M b z y m n hs hz hy
  obtain ⟨_, hw, habs⟩ := (kktCheck_iff M b z eps delta).mp h
  have h1 := dot_ge_neg_mul_sum y (grad M b z) eps heps hy0 hw
  have h2 := ((ratAbs'_le_iff _ _).mp habs).2
  have h3 := normSq_nonneg (mulVec M (vsub y z))
  linarith

/-- exact certificate ⇒ `z` minimises the squared residual over all non-negative candidates -/
theorem kkt_sound (M : Mat) (b z y : List Rat) (m n : Nat) (hs : Shaped M b m n)
    (hz : z.length = n) (hy : y.length = n) (hy0 : ∀ v ∈ y, 0 ≤ v)
    (h : kktCheck M b z 0 0 = true) :
    residSq M b z ≤ residSq M b y := by
  have := kkt_gap M b z y m n 0 0 hs hz hy hy0 le_rfl h
  simpa using this

/-- strong form: the objective gap controls the distance (in the `M`-seminorm) to every other candidate,
    which makes a certified point *the* minimiser when `M` is injective -/
theorem kkt_strong (M : Mat) (b z y : List Rat) (m n : Nat) (eps delta : Rat) (hs : Shaped M b m n)
    (hz : z.length = n) (hy : y.length = n) (hy0 : ∀ v ∈ y, 0 ≤ v) (heps : 0 ≤ eps)
    (h : kktCheck M b z eps delta = true) :
    normSq (mulVec M (vsub y z)) ≤ residSq M b y - residSq M b z + 2 * (eps * y.sum + delta) := by
  have hd := residSq_diff M b z y m n hs hz hy
  obtain ⟨_, hw, habs⟩ := (kktCheck_iff M b z eps delta).mp h
  have h1 := dot_ge_neg_mul_sum y (grad M b z) eps heps hy0 hw
  have h2 := ((ratAbs'_le_iff _ _).mp habs).2
  linarith

/-- two exactly certified points have the same image under `M`; with `M` injective they coincide -/
theorem kkt_unique (M : Mat) (b z z' : List Rat) (m n : Nat) (hs : Shaped M b m n)
    (hz : z.length = n) (hz' : z'.length = n)
    (h : kktCheck M b z 0 0 = true) (h' : kktCheck M b z' 0 0 = true) :
    normSq (mulVec M (vsub z' z)) = 0 := by
  have hz0 := ((kktCheck_iff M b z 0 0).mp h).1
  have hz'0 := ((kktCheck_iff M b z' 0 0).mp h').1
  have s1 := kkt_strong M b z z' m n 0 0 hs hz hz' hz'0 le_rfl h
  have s2 := kkt_strong M b z' z m n 0 0 hs hz' hz hz0 le_rfl h'
  have n1 := normSq_nonneg (mulVec M (vsub z' z))
  have n2 := normSq_nonneg (mulVec M (vsub z z'))
  simp only [zero_mul, add_zero, mul_zero] at s1 s2
  linarith

/-- a stationary point (vanishing gradient) minimises over *all* candidates (the `lsq`/inversion paths
    when negatives are allowed) -/
theorem stationary_min (M : Mat) (b z y : List Rat) (m n : Nat) (hs : Shaped M b m n)
    (hz : z.length = n) (hy : y.length = n) (h : statCheck M b z 0 = true) :
    residSq M b z ≤ residSq M b y := by
  have hd := residSq_diff M b z y m n hs hz hy
  have hw := (statCheck_zero_iff M b z).mp h
  rw [dot_eq_zero_of_right y _ hw, dot_eq_zero_of_right z _ hw] at hd
  have h3 := normSq_nonneg (mulVec M (vsub y z))
  linarith

/-- an exact solution of the system minimises over all candidates (inversion path) -/
theorem exact_solution_minimises (M : Mat) (b z y : List Rat) (h : solveCheck M b z 0 = true) :
    residSq M b z ≤ residSq M b y := by
  have hz : residSq M b z = 0 :=
    (normSq_eq_zero _).mpr ((solveCheck_zero_iff_forall M b z).mp h)
  rw [hz]; exact residSq_nonneg M b y

theorem solveCheck_zero_iff (M : Mat) (b z : List Rat) (hlen : (mulVec M z).length = b.length) :
    solveCheck M b z 0 = true ↔ mulVec M z = b := by
  rw [solveCheck_zero_iff_forall]; exact vsub_eq_zero_iff _ _ hlen

/-! ### the augmented system of `add_mean_one` -/

/-- shape: one more row and one more column -/
theorem addMeanOne_shape (A : Mat) (b : List Rat) (m n : Nat) (hm : 0 < m) (hs : Shaped A b m n) :
    Shaped (addMeanOne A b).1 (addMeanOne A b).2 (m + 1) (n + 1) := by
  rw [addMeanOne_eq A b m n hm hs]
  obtain ⟨hA, hb, hrows⟩ := hs
  refine ⟨by simp [hA], by simp [hb], ?_⟩
  intro r hr
  simp only [List.mem_append, List.mem_map, List.mem_singleton] at hr
  rcases hr with ⟨q, hq, rfl⟩ | rfl
  · simp [hrows q hq]
  · simp

/-- the augmented product: `M' (x, λ) = (A x + λ·1, Σ x)` and `b' = (b, n)` -/
theorem addMeanOne_mulVec (A : Mat) (b x : List Rat) (lam : Rat) (m n : Nat) (hm : 0 < m)
    (hs : Shaped A b m n) (hx : x.length = n) :
    mulVec (addMeanOne A b).1 (x ++ [lam]) = (mulVec A x).map (· + lam) ++ [x.sum] ∧
    (addMeanOne A b).2 = b ++ [(n : Rat)] := by
  rw [addMeanOne_eq A b m n hm hs]
  refine ⟨?_, rfl⟩
  rw [mulVec_append, mulVec_map_append_one A x lam n hs.2.2 hx]
  have h1 : dot (List.replicate n (1 : Rat) ++ [0]) (x ++ [lam]) = x.sum := by
    rw [dot_append _ _ _ _ (by simp [hx]), dot_replicate_one_left x n (by omega)]; simp
  simp [h1]

/-- for consistent systems the mean reported tension is one: zero residual of the augmented system
    forces `Σ x = n` -/
theorem mean_one_of_consistent (A : Mat) (b x : List Rat) (lam : Rat) (m n : Nat) (hm : 0 < m)
    (hs : Shaped A b m n) (hx : x.length = n)
    (h : residSq (addMeanOne A b).1 (addMeanOne A b).2 (x ++ [lam]) = 0) : x.sum = (n : Rat) := by
  obtain ⟨hmul, hb'⟩ := addMeanOne_mulVec A b x lam m n hm hs hx
  unfold residSq at h
  rw [hmul, hb', vsub_append _ _ _ _ (by simp [hs.1, hs.2.1])] at h
  have := (normSq_eq_zero _).mp h (x.sum - (n : Rat)) (by simp [vsub])
  linarith

/-! non-vacuity: a 2×2 system whose NNLS solution sits on the boundary -/
example : kktCheck [[1, 0], [0, 1]] [1, -1] [1, 0] 0 0 = true := by decide +kernel
example : Shaped [[1, 0], [0, 1]] [1, -1] 2 2 := by
  refine ⟨rfl, rfl, ?_⟩; intro r hr; simp at hr; rcases hr with rfl | rfl <;> rfl
example : residSq [[1, 0], [0, 1]] [1, -1] [1, 0] = 1 := by decide +kernel
/-! `statCheck` / `solveCheck` hypotheses are satisfiable (the unconstrained optimum of the same system) -/
example : statCheck [[1, 0], [0, 1]] [1, -1] [1, -1] 0 = true := by decide +kernel
example : solveCheck [[1, 0], [0, 1]] [1, -1] [1, -1] 0 = true := by decide +kernel
/-! `kkt_unique` with a non-injective `M`: two different certified points with the same image -/
example : kktCheck [[1, 1]] [1] [1, 0] 0 0 = true ∧ kktCheck [[1, 1]] [1] [0, 1] 0 0 = true := by
  decide +kernel
/-! `mean_one_of_consistent`: a consistent augmented system (`A = [[1, -1]]`, `b = [0]`, `x = (1, 1)`, `λ = 0`) -/
example : residSq (addMeanOne [[1, -1]] [0]).1 (addMeanOne [[1, -1]] [0]).2 ([1, 1] ++ [0]) = 0 := by
  decide +kernel
example : Shaped [[1, -1]] [0] 1 2 := by
  refine ⟨rfl, rfl, ?_⟩; intro r hr; simp at hr; subst hr; rfl

end Forsys
