/-
  Property C18 — coarse-grained stress tensor: symmetric, zero outside the averaging radius, jointly linear in
  (pressures, tensions), −p·I for pure pressure; principal stresses are taken from these tensors at the grid centres.
  Property theorems only (helper lemmas live in ForsysModel/Proofs/C18.lean).
  Model: ForsysModel/Model/StressTensor.lean (`stress_tensor`, `get_big_edges_df`, `Frame.calculate_stress_tensor`).

  Known finding KF2: the dictionary key `f"{row}{column}"` is not injective once an index has two digits and the
  other index can be ≥ 11, i.e. for grid ≥ 12: `key_injective_partial` (indices < 11, i.e. every grid ≤ 11) and
  `key_collision_witness` / `principal_collision_witness` (grid = 12).
-/
import ForsysModel.Model.StressTensor
import ForsysModel.Proofs.C18

namespace Forsys

/-! ### symmetry -/

/-- the tensor of every grid cell is symmetric -/
theorem sigma_symm (cells : List CellRow) (edges : List EdgeRow) (c : Pt) (md2 : Rat) :
    (sigmaOf cells edges c md2).xy = (sigmaOf cells edges c md2).yx := by
  exact sigma_symm_pf cells edges c md2

/-- every entry of the returned dictionary is the tensor of some grid cell of the double loop, stored under that
    grid cell's key (nothing else gets into the dictionary) -/
theorem sigmas_from_loop (cells : List CellRow) (edges : List EdgeRow) (xb yb : List Rat) (md2 : Rat) (grid : Nat)
    (e : List Char × Mat2) (he : e ∈ sigmasDict cells edges xb yb md2 grid) :
    ∃ row col, row < grid ∧ col < grid ∧ e.1 = keyChars row col ∧
      e.2 = sigmaOf cells edges (gridCenter xb yb row col) md2 := by
  exact sigmas_from_loop_pf cells edges xb yb md2 grid e he

/-- every tensor of the returned dictionary is symmetric -/
theorem sigmas_symm (cells : List CellRow) (edges : List EdgeRow) (xb yb : List Rat) (md2 : Rat) (grid : Nat)
    (e : List Char × Mat2) (he : e ∈ sigmasDict cells edges xb yb md2 grid) : e.2.xy = e.2.yx := by
  exact sigmas_symm_pf cells edges xb yb md2 grid e he

/-! ### zero outside the averaging radius -/

/-- zero matrix when no cell is selected or the selected cells have total area 0 -/
theorem sigma_zero_outside (cells : List CellRow) (edges : List EdgeRow) (c : Pt) (md2 : Rat)
    (h : selectCells cells c md2 = [] ∨ totalArea (selectCells cells c md2) = 0) :
    sigmaOf cells edges c md2 = Mat2.zero := by
  exact sigma_zero_outside_pf cells edges c md2 h

/-- zero matrix when no cell centre lies within the averaging radius of the grid centre -/
theorem sigma_zero_of_no_centre (cells : List CellRow) (edges : List EdgeRow) (c : Pt) (md2 : Rat)
    (h : ∀ k ∈ cells, md2 < (c.x - k.xcm) * (c.x - k.xcm) + (c.y - k.ycm) * (c.y - k.ycm)) :
    sigmaOf cells edges c md2 = Mat2.zero := by
  exact sigma_zero_of_no_centre_pf cells edges c md2 h

/-! non-vacuity: one cell at distance 2 from the centre, squared radius 1 -/
example : ∀ k ∈ [({ id := 0, xcm := 2, ycm := 0, area := 1, pressure := 1 } : CellRow)],
    (1 : Rat) < ((0 : Rat) - k.xcm) * (0 - k.xcm) + ((0 : Rat) - k.ycm) * (0 - k.ycm) := by
  decide +kernel

/-! ### joint linearity in (pressures, tensions), geometry fixed

  The geometry (ids, centres, areas; vectors, norms, cell pairs) is carried by the first component of each
  triple, the two pressure (tension) assignments by the second and third.  Any two inputs with the same
  geometry are of this form. -/
theorem sigma_bilinear (a b : Rat) (cs : List (CellRow × Rat × Rat)) (es : List (EdgeRow × Rat × Rat))
    (c : Pt) (md2 : Rat) :
    sigmaOf (cs.map fun t => t.1.setP (a * t.2.1 + b * t.2.2)) (es.map fun t => t.1.setT (a * t.2.1 + b * t.2.2)) c md2
      = Mat2.add
          (Mat2.smul a (sigmaOf (cs.map fun t => t.1.setP t.2.1) (es.map fun t => t.1.setT t.2.1) c md2))
          (Mat2.smul b (sigmaOf (cs.map fun t => t.1.setP t.2.2) (es.map fun t => t.1.setT t.2.2) c md2)) := by
  exact sigma_bilinear_pf a b cs es c md2

/-- special case: vanishing pressures and tensions give the zero tensor -/
theorem sigma_zero_load (cells : List CellRow) (edges : List EdgeRow) (c : Pt) (md2 : Rat)
    (hp : ∀ k ∈ cells, k.pressure = 0) (hT : ∀ e ∈ edges, e.stress = 0) :
    sigmaOf cells edges c md2 = Mat2.zero := by
  exact sigma_zero_load_pf cells edges c md2 hp hT

/-! ### pure pressure -/

/-- all tensions zero and every cell at pressure `p`, total selected area ≠ 0 ⇒ `−p·I` -/
theorem sigma_pure_pressure (cells : List CellRow) (edges : List EdgeRow) (c : Pt) (md2 p : Rat)
    (hT : ∀ e ∈ edges, e.stress = 0) (hp : ∀ k ∈ cells, k.pressure = p)
    (hA : totalArea (selectCells cells c md2) ≠ 0) :
    sigmaOf cells edges c md2 = Mat2.scalar (-p) := by
  exact sigma_pure_pressure_pf cells edges c md2 p hT hp hA

/-! non-vacuity of the hypotheses of `sigma_pure_pressure` -/
example : totalArea (selectCells [({ id := 0, xcm := 0, ycm := 0, area := 1, pressure := 3 } : CellRow)] ⟨0, 0⟩ 1) ≠ 0 := by
  decide +kernel

/-! ### bins and centres -/

theorem binEdges_length (lo hi : Rat) (grid : Nat) : (binEdges lo hi grid).length = grid + 1 := by
  exact binEdges_length_pf lo hi grid

/-- for non-degenerate data the edges run from the minimum to the maximum -/
theorem binEdges_ends (lo hi : Rat) (grid : Nat) (h : lo ≠ hi) (hg : 0 < grid) :
    (binEdges lo hi grid).getD 0 0 = lo ∧ (binEdges lo hi grid).getD grid 0 = hi := by
  exact binEdges_ends_pf lo hi grid h hg

/-- degenerate data (`min == max`): the edges run from `min − 1/2` to `max + 1/2` -/
theorem binEdges_ends_degenerate (lo : Rat) (grid : Nat) (hg : 0 < grid) :
    (binEdges lo lo grid).getD 0 0 = lo - 1/2 ∧ (binEdges lo lo grid).getD grid 0 = lo + 1/2 := by
  exact binEdges_ends_degenerate_pf lo grid hg

theorem binCenters_length (bins : List Rat) : (binCenters bins).length = bins.length - 1 := by
  exact binCenters_length_pf bins

/-- bin-centre formula: the `i`-th centre is the midpoint of the `i`-th bin -/
theorem binCenters_getD (bins : List Rat) (i : Nat) (hi : i < bins.length - 1) :
    (binCenters bins).getD i 0 = (bins.getD i 0 + bins.getD (i + 1) 0) / 2 := by
  exact binCenters_getD_pf bins i hi

/-- on numpy's equidistant edges the `i`-th centre is `min + (i + 1/2)·(max − min)/grid` -/
theorem binCenters_binEdges (lo hi : Rat) (grid i : Nat) (h : lo ≠ hi) (hi' : i < grid) :
    (binCenters (binEdges lo hi grid)).getD i 0 = lo + ((i : Rat) + 1/2) * ((hi - lo) / (grid : Rat)) := by
  exact binCenters_binEdges_pf lo hi grid i h hi'

/-- the centre used inside the double loop is the pair of reported bin centres
    (the positions under which `Frame.principal_stress` stores the eigen-decompositions) -/
theorem gridCenter_eq_binCenters (xb yb : List Rat) (row col : Nat)
    (hr : row < xb.length - 1) (hc : col < yb.length - 1) :
    gridCenter xb yb row col = ⟨(binCenters xb).getD row 0, (binCenters yb).getD col 0⟩ := by
  exact gridCenter_eq_binCenters_pf xb yb row col hr hc

/-! non-vacuity -/
example : (0 : Nat) < [(0 : Rat), 1, 2].length - 1 := by decide

/-! ### the dictionary key -/

/-- the model's key is Python's `f"{row}{column}"` -/
theorem stKey_eq_toString (row col : Nat) : stKey row col = toString row ++ toString col := by
  simp [stKey, keyChars, toString, Nat.repr]

/-
  Full statement (false — see the witness):
    theorem key_injective (r c r' c' : Nat) (h : stKey r c = stKey r' c') : r = r' ∧ c = c'
  Weakened: all four indices below 11, i.e. every grid ≤ 11 (in particular grid ≤ 10).
-/
theorem key_injective_partial (r c r' c' : Nat) (hr : r < 11) (hc : c < 11) (hr' : r' < 11) (hc' : c' < 11)
    (h : stKey r c = stKey r' c') : r = r' ∧ c = c' := by
  exact key_injective_partial_pf r c r' c' hr hc hr' hc' h

theorem keyChars_injective_partial (r c r' c' : Nat) (hr : r < 11) (hc : c < 11) (hr' : r' < 11) (hc' : c' < 11)
    (h : keyChars r c = keyChars r' c') : r = r' ∧ c = c' := by
  exact keyChars_injective_partial_pf r c r' c' hr hc hr' hc' h

/-- KF2: `(1, 11)` and `(11, 1)` (both inside a 12 × 12 grid) get the same key `"111"` -/
theorem key_collision_witness : stKey 1 11 = "111" ∧ stKey 11 1 = "111" := by
  decide +kernel

/-- a second collision at grid = 12: `(1, 10)` and `(11, 0)` both give `"110"` -/
theorem key_collision_witness_110 : stKey 1 10 = "110" ∧ stKey 11 0 = "110" := by
  decide +kernel

/-! ### principal stresses are taken from the tensors at the grid centres -/

/-
  Full statement (false for grid ≥ 12 — see `principal_collision_witness`): the same without `hg`.
  Weakened: grid ≤ 11.
-/
/-- for grid ≤ 11 the tensor looked up under `f"{row}{column}"` is the tensor computed for grid cell (row, column) -/
theorem sigmas_lookup_partial (cells : List CellRow) (edges : List EdgeRow) (xb yb : List Rat) (md2 : Rat)
    (grid row col : Nat) (hg : grid ≤ 11) (hr : row < grid) (hc : col < grid) :
    dictGet? (sigmasDict cells edges xb yb md2 grid) (keyChars row col)
      = some (sigmaOf cells edges (gridCenter xb yb row col) md2) := by
  exact sigmas_lookup_partial_pf cells edges xb yb md2 grid row col hg hr hc

/-- `Frame.calculate_stress_tensor`, grid ≤ 11, bin-edge lists of length grid+1: the tensor handed to `np.linalg.eig`
    for the position `(x_centres[row], y_centres[column])` is the tensor of the grid cell with that centre -/
theorem principal_at_centres_partial (cells : List CellRow) (edges : List EdgeRow) (xb yb : List Rat) (md2 : Rat)
    (grid : Nat) (hg : grid ≤ 11) (hx : xb.length = grid + 1) (hy : yb.length = grid + 1) :
    principalInputs (stressTensor cells edges xb yb md2 grid)
      = (List.range grid).flatMap fun row => (List.range grid).map fun col =>
          (((binCenters xb).getD row 0, (binCenters yb).getD col 0),
           some (sigmaOf cells edges ⟨(binCenters xb).getD row 0, (binCenters yb).getD col 0⟩ md2)) := by
  exact principal_at_centres_partial_pf cells edges xb yb md2 grid hg hx hy

/-! non-vacuity -/
example : (1 : Nat) ≤ 11 ∧ [(0 : Rat), 1].length = 1 + 1 := by decide

/-- KF2 at grid = 12: one cell of pressure 1 sitting at the centre of grid cell (11, 1).  Grid cell (1, 11) is far
    away from it, its tensor is zero — but the dictionary entry `"111"` holds the tensor `−I` of grid cell (11, 1),
    so `principal_stress` reports `−I` at the position of grid cell (1, 11). -/
theorem principal_collision_witness :
    let cells : List CellRow := [{ id := 0, xcm := 23/2, ycm := 3/2, area := 1, pressure := 1 }]
    let xb := binEdges 0 12 12
    sigmaOf cells [] (gridCenter xb xb 1 11) (1/4) = Mat2.zero ∧
    dictGet? (sigmasDict cells [] xb xb (1/4) 12) (keyChars 1 11) = some (Mat2.scalar (-1)) := by
  decide +kernel

end Forsys
