/-
  Property C14 — Surface Evolver dumps are parsed faithfully: umbrella module.
  Props/C14.lean       the clauses section by section / line by line
  Props/C14whole.lean  the clauses composed over the whole parser (serialise / parse round trip, ids, pressures, clean-up)
-/
import ForsysModel.Props.C14
import ForsysModel.Props.C14whole
