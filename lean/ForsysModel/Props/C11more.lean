/-
  Property C11 — additions to Props/C11.lean, Props/C11mesh.lean, Props/C11merge.lean.

  * the per-interface rule: exact characterisation of the interfaces left unchanged (`pick_eq_self_iff`: at most
    `ne + 1` points), the length formula, the last kept point, membership, `ne = 0` and `ne = 1`, composition of two
    resamplings (`pick_pick_of_le`, with `pick_pick_coarser_witness` for the false converse), and the dependence on the
    orientation of the interface (`pick_reverse_witness`);
  * the whole function: the interface clause of the statement for the returned array as a `List.Forall₂` over all
    interfaces and both values of `replace_short_edges`; the number of rebuilt mesh edges ("at most `ne` segments per
    interface"); the exact set of surviving cells, and "every cell that has a junction is kept".
-/
import ForsysModel.Proofs.C11more

namespace Forsys
open Mesh

variable {α β : Type}

/-! ### the per-interface rule -/

/-- `ne = 0` (Python: ZeroDivisionError): the totalised rule keeps exactly the last point, for every interface -/
theorem pick_zero (e : List α) : pick 0 e = e.getLast?.toList := by
  cases e with
  | nil => simp [pick]
  | cons a t => simp [pick]

/-- the last of the `ne + 1` points of a resampled long interface is the last original point (completes `pick_getElem`) -/
theorem pick_getElem_last (ne : Nat) (e : List α) (h : ne < e.length) : (pick ne e)[ne]? = e.getLast? := by
  have hlen := length_filterMap_getElem? e (fun i => e.length * i / ne) (List.range ne)
    (fun i hi => by have := idx_lt h (List.mem_range.1 hi); omega)
  rw [pick_long ne e h, List.getElem?_append_right (by simp [hlen])]
  simp [hlen]
  cases e.getLast? <;> simp

example : 3 < ([1, 2, 3, 4, 5, 6, 7, 8] : List Nat).length ∧ (pick 3 [1, 2, 3, 4, 5, 6, 7, 8])[3]? = some 8 := by decide

/-- an interface with at most `ne + 1` points (not only `≤ ne`, the guard of the code) is unchanged:
    with exactly `ne + 1` points the indices `⌊(ne+1)·i/ne⌋` are `i` -/
theorem pick_eq_self_of_length_le_succ (ne : Nat) (e : List α) (h : e.length ≤ ne + 1) :
    pick ne e = e := by
  by_cases h1 : e.length ≤ ne
  · exact pick_short ne e h1
  · have hl : e.length = ne + 1 := by omega
    have hlong : ne < e.length := by omega
    have hpl := pick_length_long ne e hlong
    apply List.ext_getElem?
    intro k
    rcases Nat.lt_trichotomy k ne with hk | hk | hk
    · rw [pick_getElem ne e hlong k hk, hl, idx_self hk]
    · subst hk
      rw [pick_getElem_last k e hlong, List.getLast?_eq_getElem?, hl]; simp
    · rw [List.getElem?_eq_none (by omega), List.getElem?_eq_none (by omega)]

/-- CHARACTERISATION of "interfaces already that short are unchanged": the rule is the identity exactly on the
    interfaces with at most `ne + 1` points (no guard on `ne`; for `ne = 0` both sides say `length ≤ 1`) -/
theorem pick_eq_self_iff (ne : Nat) (e : List α) : pick ne e = e ↔ e.length ≤ ne + 1 := by
  constructor
  · intro h
    by_contra hc
    have := pick_length_long ne e (by omega)
    rw [h] at this; omega
  · exact pick_eq_self_of_length_le_succ ne e

example : pick 3 [1, 2, 3, 4] = [1, 2, 3, 4] ∧ pick 3 [1, 2, 3, 4, 5] = [1, 2, 4, 5] := by decide

/-- the number of points after resampling, in one formula, for every `ne` and every length (empty included) -/
theorem pick_length_eq_min (ne : Nat) (e : List α) : (pick ne e).length = min e.length (ne + 1) := by
  by_cases h : ne < e.length
  · rw [pick_length_long ne e h]; omega
  · rw [pick_short ne e (by omega)]; omega

/-- resampling to `n2` and then to a finer or equal `n1 ≥ n2` changes nothing more (generalises `pick_idempotent`) -/
theorem pick_pick_of_le (n1 n2 : Nat) (h : n2 ≤ n1) (e : List α) :
    pick n1 (pick n2 e) = pick n2 e :=
  pick_eq_self_of_length_le_succ n1 _ (by have := pick_length_le n2 e; omega)

example : 2 ≤ 3 ∧ pick 3 (pick 2 [0, 1, 2, 3, 4, 5, 6, 7, 8, 9]) = [0, 5, 9] := by decide

/-- the other order is NOT a composition law: resampling to 3 and then to 2 differs from resampling to 2 directly -/
theorem pick_pick_coarser_witness :
    pick 2 (pick 3 [0, 1, 2, 3, 4, 5, 6, 7, 8, 9]) = [0, 6, 9] ∧ pick 2 [0, 1, 2, 3, 4, 5, 6, 7, 8, 9] = [0, 5, 9] := by
  decide

/-- the rule is not symmetric under reversing the interface: the kept points depend on the direction in which
    `create_edges_new` happened to walk the interface (indices are floored from the start) -/
theorem pick_reverse_witness :
    pick 4 ([0, 1, 2, 3, 4, 5] : List Nat).reverse = [5, 4, 2, 1, 0] ∧
    (pick 4 ([0, 1, 2, 3, 4, 5] : List Nat)).reverse = [5, 4, 3, 1, 0] := by decide

/-- `ne = 1`: every interface with two or more points is replaced by the segment between its two ends -/
theorem pick_one (a b : α) (t : List α) : pick 1 (a :: b :: t) = [a, (b :: t).getLast (by simp)] := by
  simp [pick, List.getLast?_eq_some_getLast]

/-- membership in a resampled long interface, as an `↔` -/
theorem pick_mem_iff (ne : Nat) (e : List α) (h : ne < e.length) (v : α) :
    v ∈ pick ne e ↔ (∃ i, i < ne ∧ e[(e.length * i) / ne]? = some v) ∨ e.getLast? = some v := by
  rw [pick_long ne e h]
  simp [List.mem_filterMap]

example : 3 < ([1, 2, 3, 4, 5, 6, 7, 8] : List Nat).length ∧ 6 ∈ pick 3 [1, 2, 3, 4, 5, 6, 7, 8] ∧
    ([1, 2, 3, 4, 5, 6, 7, 8] : List Nat)[8 * 2 / 3]? = some 6 := by decide

/-! ### the whole function -/

/-- WHOLE FUNCTION, interface clause of the statement, for either value of `replace_short_edges`: the returned
    `new_edges_array` is, position by position, the list of interfaces of `create_edges_new`, each replaced by an ordered
    subsequence with at most `ne + 1` points and the same two ends, unchanged when it already had at most `ne + 1` points -/
theorem generateMesh_nEdgeArray_forall₂ (m : Mesh) (ne : Nat) (hne : 0 < ne) (r : Bool) :
    List.Forall₂ (fun (p e : List Id) => p.Sublist e ∧ p.length ≤ ne + 1 ∧ p.head? = e.head? ∧
        p.getLast? = e.getLast? ∧ (e.length ≤ ne + 1 → p = e))
      (m.generateMesh ne r).nEdgeArray m.bigEdgesList := by
  rw [generateMesh_nEdgeArray, List.forall₂_map_left_iff, List.forall₂_same]
  intro e _
  exact ⟨pick_sublist ne e, pick_length_le ne e, pick_head ne hne e, pick_getLast ne e,
    pick_eq_self_of_length_le_succ ne e⟩

example : 0 < 2 ∧ (threeArcs.generateMesh 2 true).nEdgeArray = [[0, 2, 3], [3, 4, 0], [0, 7, 3]] := by decide +kernel

/-- the returned interface array is a fixed point of the resampling rule -/
theorem generateMesh_nEdgeArray_fixed (m : Mesh) (ne : Nat) (hne : 0 < ne) (r : Bool) :
    (m.generateMesh ne r).nEdgeArray.map (pick ne) = (m.generateMesh ne r).nEdgeArray := by
  rw [generateMesh_nEdgeArray, List.map_map]
  apply List.map_congr_left
  intro e _
  exact pick_idempotent ne hne e

/-- "at most `ne` segments per interface", whole function: the rebuilt mesh has at most `ne` mesh edges per interface
    (no hypothesis on the input, `ne = 0` included: no mesh edge at all) -/
theorem generateMesh_false_edges_length_le (m : Mesh) (ne : Nat) :
    (m.generateMesh ne false).mesh.edges.length ≤ ne * m.bigEdgesList.length := by
  rw [generateMesh_false_shape_edges]
  simp only [List.length_map, List.length_zip, List.length_range, Nat.min_self, rebuiltSegments]
  exact segs_length_le ne _

/-- the exact number of mesh edges of the result -/
theorem generateMesh_false_edges_length (m : Mesh) (ne : Nat) :
    (m.generateMesh ne false).mesh.edges.length = (m.bigEdgesList.map fun e => min e.length (ne + 1) - 1).sum := by
  rw [generateMesh_false_shape_edges]
  simp only [List.length_map, List.length_zip, List.length_range, Nat.min_self, rebuiltSegments]
  rw [segs_length]
  congr 1
  apply List.map_congr_left
  intro e _
  rw [pick_length_eq_min]

example : (threeArcs.generateMesh 2 false).mesh.edges.length = 6 ∧
    (threeArcs.bigEdgesList.map fun e => min e.length (2 + 1) - 1).sum = 6 := by decide +kernel

/-- a junction lying on a cell is among the kept ids (no consistency needed) -/
theorem junction_mem_keptIds (m : Mesh) (ne : Nat) (hne : 1 ≤ ne)
    (q : Id × Cell) (hq : q ∈ m.cells) (v : Id) (hv : v ∈ q.2.verts) (hj : m.isJunction v = true) :
    v ∈ m.keptIds ne := by
  obtain ⟨P, hP, hhead⟩ := cellPaths_head_of_junction m.isJunction q.2.verts v hv hj
  rcases bigEdges_complete m q hq P hP with hb | hb
  · exact generateMesh_keeps_ends m ne (by omega) P hb v (Or.inl hhead)
  · exact generateMesh_keeps_ends m ne (by omega) P.reverse hb v
      (Or.inr (by rw [List.getLast?_reverse]; exact hhead))

/-- CHARACTERISATION of the cells of the result: exactly the input cells with at least one kept vertex, their cycles
    restricted to the kept vertices -/
theorem generateMesh_false_cell_mem_iff (m : Mesh) (ne : Nat) (h : m.Consistent = true) (p : Id × Cell) :
    p ∈ (m.generateMesh ne false).mesh.cells ↔
      ∃ q ∈ m.cells, p = (q.1, { q.2 with verts := q.2.verts.filter fun x => (m.keptIds ne).contains x }) ∧
        ∃ v ∈ q.2.verts, v ∈ m.keptIds ne := by
  rw [generateMesh_false_shape_cells m ne h]
  simp only [List.mem_filter, List.mem_map]
  constructor
  · rintro ⟨⟨q, hq, rfl⟩, hne⟩
    refine ⟨q, hq, rfl, ?_⟩
    simp only [Bool.not_eq_true', List.isEmpty_eq_false_iff] at hne
    obtain ⟨v, hv⟩ := List.exists_mem_of_ne_nil _ hne
    simp only [List.mem_filter, List.contains_eq_mem, decide_eq_true_eq] at hv
    exact ⟨v, hv.1, hv.2⟩
  · rintro ⟨q, hq, rfl, v, hv, hk⟩
    refine ⟨⟨q, hq, rfl⟩, ?_⟩
    simp only [Bool.not_eq_true', List.isEmpty_eq_false_iff]
    apply List.ne_nil_of_mem (a := v)
    simp [hv, hk]

/-- "keeps every cell that has a junction": such a cell is a cell of the result under the same key and id, its junction
    still on its cycle, the cycle a subsequence of the old one -/
theorem generateMesh_false_junction_cell_kept (m : Mesh) (ne : Nat) (hne : 1 ≤ ne) (h : m.Consistent = true)
    (q : Id × Cell) (hq : q ∈ m.cells) (v : Id) (hv : v ∈ q.2.verts) (hj : m.isJunction v = true) :
    ∃ p ∈ (m.generateMesh ne false).mesh.cells, p.1 = q.1 ∧ p.2.id = q.2.id ∧ v ∈ p.2.verts ∧
      p.2.verts.Sublist q.2.verts := by
  have hk := junction_mem_keptIds m ne hne q hq v hv hj
  refine ⟨_, (generateMesh_false_cell_mem_iff m ne h _).mpr ⟨q, hq, rfl, v, hv, hk⟩, rfl, rfl, ?_, ?_⟩
  · simp [hv, hk]
  · exact List.filter_sublist

/-- the hypotheses hold on `threeArcs`: junction 3 on cell 0, which survives as [0, 2, 3, 4] -/
example : 1 ≤ 2 ∧ threeArcs.Consistent = true ∧
    (threeArcs.cells.map fun p => (p.1, p.2.verts)) = [(0, [0, 1, 2, 3, 5, 4]), (1, [0, 6, 7, 3, 2, 1])] ∧
    threeArcs.isJunction 3 = true ∧ (threeArcs.keptIds 2).contains 3 = true ∧
    ((threeArcs.generateMesh 2 false).mesh.cells.map fun p => (p.1, p.2.verts)) =
      [(0, [0, 2, 3, 4]), (1, [0, 7, 3, 2])] := by
  decide +kernel

/- PENDING:
   * idempotence of the whole function: `((m.generateMesh ne false).mesh.generateMesh ne false).mesh = (m.generateMesh ne false).mesh`
     (needs `bigEdgesList` of the rebuilt mesh = the resampled interfaces; only the array-level fixed point
     `generateMesh_nEdgeArray_fixed` is proved).
   * "keeps every cell-to-cell adjacency": two cells sharing an interface in `m` share the resampled interface in the result.
   * invariance of `generateMesh` under a map of the coordinates (translation, scaling, rotation): the combinatorial part never
     reads `x`, `y`; not stated for the whole record. -/

end Forsys
