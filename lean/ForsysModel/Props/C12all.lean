/-
  Umbrella of property C12: the tracking theorems — `find_best` returns untaken pool vertices, the correspondence is
  total, injective, honours the guess, follows small motions, round trips (Props/C12.lean) — and the independence of the
  numbering and of the storage order: `create_mapping` run on renumbered frames produces the renumbered step map, the
  velocities computed with the freshly built maps are unchanged, small motions are followed however either frame is
  numbered and stored (Props/C12relabel.lean).
  lean/props.json names this module for C12, so that `./check C12` builds and audits both.
-/
import ForsysModel.Props.C12
import ForsysModel.Props.C12relabel
import ForsysModel.Props.C12more
