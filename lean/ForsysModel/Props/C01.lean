/-
  Property C01 — static inference recovers the tensions of any tissue in force balance.
  The statement is assembled from: C02 (the assembled matrix holds the true unit tangents), C11 (resampled points stay on
  the same circle), C05 (the solver returns the non-negative least-squares optimum, certified per run), and the theorems
  below: the generated ground truth really is in force balance (Maxwell reciprocal figure; Moebius images), and a system in
  balance with an injective augmented matrix has exactly one non-negative least-squares solution: true tensions / mean.
-/
import ForsysModel.Model.Solve
import ForsysModel.Proofs.C01

namespace Forsys

/-- a Voronoi ridge lies on the perpendicular bisector of its two sites: its direction is perpendicular to the site difference -/
theorem bisector_perp (a b v v' : Pt) (h : distSq v a = distSq v b) (h' : distSq v' a = distSq v' b) :
    Vec.dot (Vec.sub v' v) (Vec.sub b a) = 0 := by
  simp only [distSq, Vec.dot, Vec.sub] at *
  linarith

/-- Maxwell reciprocal figure: with tension = site distance, the three pulls at a Voronoi vertex are the side vectors of the
    triangle of sites turned by a quarter turn, which sum to zero -/
theorem maxwell_balance (a b c : Pt) :
    Vec.perp (Vec.sub b a) = ⟨-(b.y - a.y), b.x - a.x⟩ ∧
    (⟨(Vec.perp (Vec.sub b a)).x + (Vec.perp (Vec.sub c b)).x + (Vec.perp (Vec.sub a c)).x,
      (Vec.perp (Vec.sub b a)).y + (Vec.perp (Vec.sub c b)).y + (Vec.perp (Vec.sub a c)).y⟩ : Vec) = ⟨0, 0⟩ := by
  refine ⟨rfl, ?_⟩
  simp only [Vec.perp, Vec.sub, Vec.mk.injEq]
  constructor <;> ring

/-- the same for a vertex of any degree: the quarter-turned sides of a closed polygon of sites sum to zero -/
theorem maxwell_balance_polygon (sites : List Pt) :
    (((cyclicPairs sites).map fun e => (Vec.perp (Vec.sub e.2 e.1)).x).sum = 0) ∧
    (((cyclicPairs sites).map fun e => (Vec.perp (Vec.sub e.2 e.1)).y).sum = 0) := by
  constructor
  · have := C01.cyclic_telescope (fun p => -p.y) sites
    rw [← this]; congr 1; apply List.map_congr_left; intro e _
    simp only [Vec.perp, Vec.sub]; ring
  · have := C01.cyclic_telescope (fun p => p.x) sites
    rw [← this]; rfl

/-- a rotation-dilation `w ↦ (p + i q)·w` (the derivative of a Moebius map at the junction) -/
def cmul (p q : Rat) (w : Vec) : Vec := ⟨p * w.x - q * w.y, q * w.x + p * w.y⟩

/-- conformal images keep force balance: turning all pulls at a junction by one common factor keeps their weighted sum zero -/
theorem conformal_balance (p q : Rat) (pulls : List (Rat × Vec))
    (hx : (pulls.map fun t => t.1 * t.2.x).sum = 0) (hy : (pulls.map fun t => t.1 * t.2.y).sum = 0) :
    (pulls.map fun t => t.1 * (cmul p q t.2).x).sum = 0 ∧ (pulls.map fun t => t.1 * (cmul p q t.2).y).sum = 0 := by
  constructor
  · have := C01.sum_map_lin p (-q) (fun t : Rat × Vec => t.1 * t.2.x) (fun t => t.1 * t.2.y) pulls
    rw [hx, hy] at this
    have e : (pulls.map fun t : Rat × Vec => p * (t.1 * t.2.x) + -q * (t.1 * t.2.y)).sum = 0 := by
      rw [this]; ring
    rw [← e]
    congr 1; apply List.map_congr_left; intro e _
    simp only [cmul]; ring
  · have := C01.sum_map_lin q p (fun t : Rat × Vec => t.1 * t.2.x) (fun t => t.1 * t.2.y) pulls
    rw [hx, hy] at this
    have e : (pulls.map fun t : Rat × Vec => q * (t.1 * t.2.x) + p * (t.1 * t.2.y)).sum = 0 := by
      rw [this]; ring
    rw [← e]
    congr 1; apply List.map_congr_left; intro e _
    simp only [cmul]; ring

/-- the normalised true tensions solve the augmented system exactly: `A τ = 0`, `Σ τ ≠ 0` ⇒ with `z = (n/Στ)·τ`,
    `M' (z, 0) = b'` for `(M', b') = addMeanOne A 0` -/
theorem truth_solves (A : Mat) (tau : List Rat) (m n : Nat) (hm : 0 < m) (hs : Shaped A (List.replicate m 0) m n)
    (ht : tau.length = n) (hbal : mulVec A tau = List.replicate m 0) (hsum : tau.sum ≠ 0) :
    residSq (addMeanOne A (List.replicate m 0)).1 (addMeanOne A (List.replicate m 0)).2
      (vscale ((n : Rat) / tau.sum) tau ++ [0]) = 0 := by
  exact C01.residSq_eq_zero_of_eq _ _ _ (C01.truth_z A tau m n hm hs ht hbal hsum)

/-- recovery: if force balance determines the tensions uniquely up to scale (the augmented matrix is injective), every vector
    that minimises the augmented squared residual over the non-negative candidates — which is what the solver returns, C05 —
    is the true (non-negative) tension vector divided by its mean, with zero multiplier -/
theorem recover (A : Mat) (tau y : List Rat) (m n : Nat) (hm : 0 < m) (hs : Shaped A (List.replicate m 0) m n)
    (ht : tau.length = n) (hbal : mulVec A tau = List.replicate m 0) (hpos : ∀ v ∈ tau, 0 ≤ v) (hsum : 0 < tau.sum)
    (hy : y.length = n + 1)
    (hinj : ∀ x x' : List Rat, x.length = n + 1 → x'.length = n + 1 →
        mulVec (addMeanOne A (List.replicate m 0)).1 x = mulVec (addMeanOne A (List.replicate m 0)).1 x' → x = x')
    (hmin : ∀ x : List Rat, x.length = n + 1 → (∀ v ∈ x, 0 ≤ v) →
        residSq (addMeanOne A (List.replicate m 0)).1 (addMeanOne A (List.replicate m 0)).2 y
          ≤ residSq (addMeanOne A (List.replicate m 0)).1 (addMeanOne A (List.replicate m 0)).2 x) :
    y = vscale ((n : Rat) / tau.sum) tau ++ [0] := by
  have hsh := addMeanOne_shape A _ m n hm hs
  refine C01.min_unique _ _ y _ (n + 1) (hsh.1.trans hsh.2.1.symm) hy (by simp [ht]) ?_
    (C01.truth_z A tau m n hm hs ht hbal (ne_of_gt hsum)) hinj hmin
  intro v hv
  simp only [vscale, List.mem_append, List.mem_map, List.mem_singleton] at hv
  rcases hv with ⟨u, hu, rfl⟩ | rfl
  · have := hpos u hu
    have : (0:Rat) ≤ (n : Rat) / tau.sum := by positivity
    positivity
  · exact le_rfl

/-! non-vacuity -/
example : mulVec [[1, -1], [0, 0]] [2, 2] = List.replicate 2 0 := by decide +kernel

example : distSq ⟨1, 1⟩ ⟨0, 0⟩ = distSq ⟨1, 1⟩ ⟨2, 0⟩ ∧ distSq ⟨1, -3⟩ ⟨0, 0⟩ = distSq ⟨1, -3⟩ ⟨2, 0⟩ := by
  decide +kernel

/-- `conformal_balance`: three balanced pulls -/
example : (([(1, ⟨1, 0⟩), (1, ⟨0, 1⟩), (1, ⟨-1, -1⟩)] : List (Rat × Vec)).map fun t => t.1 * t.2.x).sum = 0 ∧
    (([(1, ⟨1, 0⟩), (1, ⟨0, 1⟩), (1, ⟨-1, -1⟩)] : List (Rat × Vec)).map fun t => t.1 * t.2.y).sum = 0 := by
  decide +kernel

/-- all hypotheses of `recover` hold together for `A = [[1, -1], [0, 0]]`, `τ = (2, 2)`, `y = (1, 1, 0)` -/
example :
    Shaped [[1, -1], [0, 0]] (List.replicate 2 0) 2 2 ∧
    mulVec [[1, -1], [0, 0]] [2, 2] = List.replicate 2 0 ∧
    (∀ x x' : List Rat, x.length = 2 + 1 → x'.length = 2 + 1 →
        mulVec (addMeanOne [[1, -1], [0, 0]] (List.replicate 2 0)).1 x
          = mulVec (addMeanOne [[1, -1], [0, 0]] (List.replicate 2 0)).1 x' → x = x') ∧
    (∀ x : List Rat, x.length = 2 + 1 → (∀ v ∈ x, 0 ≤ v) →
        residSq (addMeanOne [[1, -1], [0, 0]] (List.replicate 2 0)).1 (addMeanOne [[1, -1], [0, 0]] (List.replicate 2 0)).2 [1, 1, 0]
          ≤ residSq (addMeanOne [[1, -1], [0, 0]] (List.replicate 2 0)).1 (addMeanOne [[1, -1], [0, 0]] (List.replicate 2 0)).2 x) := by
  refine ⟨⟨rfl, rfl, ?_⟩, by decide +kernel, ?_, ?_⟩
  · intro r hr; simp at hr; rcases hr with rfl | rfl <;> rfl
  · intro x x' hx hx' h
    obtain ⟨a, b, c, rfl⟩ := List.length_eq_three.mp hx
    obtain ⟨a', b', c', rfl⟩ := List.length_eq_three.mp hx'
    simp [addMeanOne, mulVec, dot] at h
    obtain ⟨h1, h2, h3⟩ := h
    have hc : c = c' := by linarith
    have ha : a = a' := by linarith
    have hb : b = b' := by linarith
    rw [ha, hb, hc]
  · intro x _ _
    have h0 : residSq (addMeanOne [[1, -1], [0, 0]] (List.replicate 2 0)).1
        (addMeanOne [[1, -1], [0, 0]] (List.replicate 2 0)).2 [1, 1, 0] = 0 := by decide +kernel
    rw [h0]; exact residSq_nonneg _ _ _

end Forsys
