/-
  Property C20 — cell geometry primitives: signed area, perimeter, orientation, neighbours.
  Property theorems only (helper lemmas live in ForsysModel/Proofs/C20.lean).
  Model: ForsysModel/Model/Geometry.lean (Cell.get_area, get_area_sign, get_next_vertex,
  get_previous_vertex, get_perimeter) and Mesh.neighbors (Cell.calculate_neighbors).
-/
import ForsysModel.Model.Geometry
import ForsysModel.Model.Mesh
import ForsysModel.Proofs.C20

namespace Forsys

def translate (d : Pt) (ps : List Pt) : List Pt := ps.map fun p => ⟨p.x + d.x, p.y + d.y⟩
def scale (s : Rat) (ps : List Pt) : List Pt := ps.map fun p => ⟨s * p.x, s * p.y⟩
def edgeCross (e : Pt × Pt) : Rat := e.1.x * e.2.y - e.2.x * e.1.y

/-- The coded area is minus one half of the textbook shoelace sum `Σ (x_i y_{i+1} − x_{i+1} y_i)`:
    cycles that are counter-clockwise in a y-up frame (positive shoelace sum) get a negative area. -/
theorem area_eq_neg_shoelace (ps : List Pt) : area ps = -(1/2 : Rat) * shoelace2 ps := by
  rw [area_eq_sum, shoelace2_eq_sum]

theorem shoelace2_eq_sum_cyclicPairs (ps : List Pt) :
    shoelace2 ps = ((cyclicPairs ps).map edgeCross).sum := by
  exact shoelace2_eq_sum ps

/-- reversing the cycle changes the sign of the area -/
theorem area_reverse (ps : List Pt) : area ps.reverse = - area ps := by
  exact area_reverse' ps

theorem areaSign_reverse (ps : List Pt) : areaSign ps.reverse = - areaSign ps := by
  unfold areaSign
  rw [area_reverse', ratSign_neg]

/-- cyclic shifts leave the area unchanged -/
theorem area_rotate (ps : List Pt) (k : Nat) : area (ps.rotateLeft k) = area ps := by
  exact area_rotate' ps k

theorem area_translate (d : Pt) (ps : List Pt) : area (translate d ps) = area ps := by
  exact area_map_translate d ps

/-- the area scales with the square of a length factor -/
theorem area_scale (s : Rat) (ps : List Pt) : area (scale s ps) = s * s * area ps := by
  exact area_map_scale s ps

/-- next-vertex navigation walks the cycle in the sense given by the area sign -/
theorem nextIdx_of_sign_pos (ps : List Pt) (i : Nat) (h : areaSign ps = 1) (hi : i < ps.length) :
    nextIdx ps i = (i + 1) % ps.length := by
  have _ := hi -- not needed: the equation holds for every `i`
  unfold nextIdx
  rw [h, pyMod_add_one]

theorem nextIdx_of_sign_neg (ps : List Pt) (i : Nat) (h : areaSign ps = -1) (hi : i < ps.length) :
    nextIdx ps i = (i + ps.length - 1) % ps.length := by
  unfold nextIdx
  rw [h, pyMod_sub_one _ _ (by omega)]

theorem prevIdx_of_sign_pos (ps : List Pt) (i : Nat) (h : areaSign ps = 1) (hi : i < ps.length) :
    prevIdx ps i = (i + ps.length - 1) % ps.length := by
  unfold prevIdx
  rw [h, Int.sub_eq_add_neg, pyMod_sub_one _ _ (by omega)]

theorem prevIdx_of_sign_neg (ps : List Pt) (i : Nat) (h : areaSign ps = -1) (hi : i < ps.length) :
    prevIdx ps i = (i + 1) % ps.length := by
  have _ := hi -- not needed: the equation holds for every `i`
  unfold prevIdx
  rw [h, Int.sub_neg, pyMod_add_one]

/-- next and previous are mutually inverse on every cycle (for area sign 0 both are the identity) -/
theorem next_prev (ps : List Pt) (i : Nat) (hi : i < ps.length) :
    nextIdx ps (prevIdx ps i) = i ∧ prevIdx ps (nextIdx ps i) = i := by
  unfold nextIdx prevIdx
  exact ⟨pyMod_cancel i _ _ hi, pyMod_cancel' i _ _ hi⟩

/-- the perimeter terms are the squared lengths of the closed cycle's segments -/
theorem perimeterSq_of_sign_pos (ps : List Pt) (h : areaSign ps = 1) :
    perimeterSq ps = (cyclicPairs ps).map fun e => distSq e.1 e.2 := by
  exact perimeterSq_pos ps h

/-- with negative area sign the same segments are visited from the other end
    (`distSq` is symmetric, so the multiset of squared lengths is that of the closed cycle). -/
theorem perimeterSq_of_sign_neg_perm (ps : List Pt) (h : areaSign ps = -1) :
    (perimeterSq ps).Perm ((cyclicPairs ps).map fun e => distSq e.1 e.2) := by
  exact perimeterSq_neg ps h

theorem distSq_translate (d p q : Pt) :
    distSq ⟨p.x + d.x, p.y + d.y⟩ ⟨q.x + d.x, q.y + d.y⟩ = distSq p q := by
  unfold distSq
  ring

/-- squared lengths scale with the square of the factor (so lengths scale with its absolute value) -/
theorem distSq_scale (s : Rat) (p q : Pt) :
    distSq ⟨s * p.x, s * p.y⟩ ⟨s * q.x, s * q.y⟩ = s * s * distSq p q := by
  unfold distSq
  ring

/-- the multiset of segments of the closed cycle is invariant under cyclic shifts … -/
theorem cyclicPairs_rotate_perm (ps : List Pt) (k : Nat) :
    (cyclicPairs (ps.rotateLeft k)).Perm (cyclicPairs ps) := by
  rw [rotateLeft_eq_rotate, cyclicPairs_rotate]
  exact List.rotate_perm _ _

/-- … and under reversal up to swapping each pair -/
theorem cyclicPairs_reverse_perm (ps : List Pt) :
    (cyclicPairs ps.reverse).Perm ((cyclicPairs ps).map Prod.swap) := by
  exact cyclicPairs_reverse_perm' ps

/-- additivity: if the directed edges of the cells are the outline's directed edges plus pairs of
    opposite edges (the combinatorial content of "hole-free tissue, consistently oriented cells"),
    the cell areas add up to the outline's area. -/
theorem area_additive (cells : List (List Pt)) (outline : List Pt) (inner : List (Pt × Pt))
    (h : ((cells.map cyclicPairs).flatten).Perm (cyclicPairs outline ++ inner ++ inner.map Prod.swap)) :
    (cells.map area).sum = area outline := by
  exact area_additive' cells outline inner h

/-- a cell's neighbours are exactly the other cells sharing a vertex with it -/
theorem neighbors_spec (m : Mesh) (c : Cell) (d : Id) :
    d ∈ m.neighbors c ↔ d ≠ c.id ∧ ∃ v ∈ c.verts, d ∈ m.ownCells v := by
  exact mem_neighbors m c d

/-! non-vacuity: a concrete counter-clockwise unit square -/
example : areaSign [⟨0,0⟩, ⟨1,0⟩, ⟨1,1⟩, ⟨0,1⟩] = -1 ∧ shoelace2 [⟨0,0⟩, ⟨1,0⟩, ⟨1,1⟩, ⟨0,1⟩] = 2 := by
  decide +kernel

/-! non-vacuity of `areaSign ps = 1`: the same square walked clockwise -/
example : areaSign [⟨0,0⟩, ⟨0,1⟩, ⟨1,1⟩, ⟨1,0⟩] = 1 := by decide +kernel

/-! non-vacuity of the hypothesis of `area_additive`: two unit squares sharing the edge (1,0)–(1,1),
    outline = the 2×1 rectangle with the two shared vertices kept on it -/
example :
    (([[⟨0,0⟩, ⟨1,0⟩, ⟨1,1⟩, ⟨0,1⟩], [⟨1,0⟩, ⟨2,0⟩, ⟨2,1⟩, ⟨1,1⟩]] : List (List Pt)).map
        cyclicPairs).flatten.Perm
      (cyclicPairs [⟨0,0⟩, ⟨1,0⟩, ⟨2,0⟩, ⟨2,1⟩, ⟨1,1⟩, ⟨0,1⟩] ++ [(⟨1,0⟩, ⟨1,1⟩)]
        ++ ([(⟨1,0⟩, ⟨1,1⟩)] : List (Pt × Pt)).map Prod.swap) := by
  decide +kernel

end Forsys
