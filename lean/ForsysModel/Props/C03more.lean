/-
  Property C03, additions — what Props/C03.lean, Props/C03matrix.lean (and C05bound / C13relabel) leave open:

  * the clause "each junction's DISPLACEMENT to the next frame (from the previous frame at the last one) equals the
    resultant of the tensions times the elapsed time": the existing `dynamic_rhs_scaling` takes abstract displacements
    `d v`; here the velocities are the ones `calculateVelocity` (C13) extracts from the frames of a series, through the
    tracked successor / predecessor under an arbitrary numbering of the other frame, and are composed with the assembled
    matrix: `A τ = b` with `b` built from the series (forward difference and backward difference);
  * only `t₁ ≠ t₀` is used — the elapsed time may differ from step to step and the statement does not see the other
    frames at all;
  * the mean-one hypothesis as an `↔` (the existing necessity statement is a single witness);
  * all exactly certified back-ends agree (vector, not only fitted values) when the augmented matrix is injective;
  * the three-decimal rounding as the concrete function `round3` applied to the whole right-hand side;
  * superposition, rigid/affine motion of the whole series and change of clock on the whole right-hand side.
-/
import ForsysModel.Proofs.C03more

namespace Forsys
open FMInput

/-! ### 1. from the frames of a series to the right-hand side -/

/-- FORWARD DIFFERENCE, whole right-hand side.  Frame `t` is not the last; `m` is the step map to frame `t+1`, which
    numbers its vertices in its own way (`succ v` = the id the junction `v` has there).  If every kept junction is
    displaced by `(t₁ − t₀) • vel v` (any `t₁ ≠ t₀`), then the vector `b` that `set_velocity_matrix` builds from
    `calculate_velocity` is the right-hand side of `vel` — for every tissue, every series length. -/
theorem velocityRhs_of_forward_displacements (inp : FMInput) (vel : Id → Vec)
    (frames : List TFrame) (maps : List (Option StepMap)) (t : Nat) (f0 f1 : TFrame) (m : StepMap)
    (succ : Id → Id) (pos0 pos1 : Id → Pt)
    (ht : t + 1 < frames.length) (hf0 : frames[t]? = some f0) (hf1 : frames[t + 1]? = some f1)
    (hm : maps.getD t none = some m) (hdt : f1.time ≠ f0.time)
    (hmove : ∀ r ∈ inp.build.rows, r.2.1 = true →
      m.get? r.1 = some (some (succ r.1)) ∧ f0.pos? r.1 = some (pos0 r.1) ∧ f1.pos? (succ r.1) = some (pos1 r.1) ∧
      (pos1 r.1).x = (pos0 r.1).x + (f1.time - f0.time) * (vel r.1).x ∧
      (pos1 r.1).y = (pos0 r.1).y + (f1.time - f0.time) * (vel r.1).y) :
    velocityRhs inp (fun v => c03VelOf (calculateVelocity frames maps v t)) = velocityRhs inp vel := by
  apply velocityRhs_congr
  intro r hr hk
  obtain ⟨h1, h2, h3, hx, hy⟩ := hmove r hr hk
  rw [velocity_forward frames maps t r.1 (succ r.1) f0 f1 m (pos0 r.1) (pos1 r.1) ht hf0 hf1 hm h1 h2 h3]
  have hne : f1.time - f0.time ≠ 0 := sub_ne_zero.2 hdt
  simp only [c03VelOf, c03_div_of_disp _ _ _ _ hne hx, c03_div_of_disp _ _ _ _ hne hy]

/-- BACKWARD DIFFERENCE at the last frame `t+1`, whole right-hand side: `pred v` is the id the junction `v` has in the
    previous frame (`m` maps it to `v`); the displacement FROM the previous frame is `(t_last − t_prev) • vel v`. -/
theorem velocityRhs_of_backward_displacements (inp : FMInput) (vel : Id → Vec)
    (frames : List TFrame) (maps : List (Option StepMap)) (t : Nat) (f0 f1 : TFrame) (m : StepMap)
    (pred : Id → Id) (pos0 pos1 : Id → Pt)
    (ht : t + 2 = frames.length) (hf1 : frames[t]? = some f1) (hf0 : frames[t + 1]? = some f0)
    (hm : maps.getD t none = some m) (hk : (m.map (·.1)).Nodup) (hinj : (m.values.filterMap id).Nodup)
    (hdt : f0.time ≠ f1.time)
    (hmove : ∀ r ∈ inp.build.rows, r.2.1 = true →
      m.get? (pred r.1) = some (some r.1) ∧ f0.pos? r.1 = some (pos0 r.1) ∧ f1.pos? (pred r.1) = some (pos1 r.1) ∧
      (pos0 r.1).x = (pos1 r.1).x + (f0.time - f1.time) * (vel r.1).x ∧
      (pos0 r.1).y = (pos1 r.1).y + (f0.time - f1.time) * (vel r.1).y) :
    velocityRhs inp (fun v => c03VelOf (calculateVelocity frames maps v (t + 1))) = velocityRhs inp vel := by
  apply velocityRhs_congr
  intro r hr hkept
  obtain ⟨h1, h2, h3, hx, hy⟩ := hmove r hr hkept
  rw [velocity_backward frames maps t r.1 (pred r.1) f0 f1 m (pos0 r.1) (pos1 r.1) ht hf1 hf0 hm hk hinj h1 h2 h3 hdt]
  have hne : f0.time - f1.time ≠ 0 := sub_ne_zero.2 hdt
  simp only [c03VelOf, c03_div_of_disp _ _ _ _ hne hx, c03_div_of_disp _ _ _ _ hne hy]

/-- THE PROPERTY'S HYPOTHESIS IN THE SERIES' OWN TERMS (forward).  If the displacement of every kept junction to the
    next frame is (elapsed time) × (resultant of the true tensions along the true directions), the assembled matrix
    maps the true tensions to the right-hand side built from the series: `A τ = b`. -/
theorem series_forward_balance (inp : FMInput) (len : Id → Nat → Rat) (dir : Id → Nat → Vec) (tau : Nat → Rat)
    (frames : List TFrame) (maps : List (Option StepMap)) (t : Nat) (f0 f1 : TFrame) (m : StepMap)
    (succ : Id → Id) (pos0 pos1 : Id → Pt)
    (hnorm : ∀ r ∈ inp.build.rows, r.2.1 = true → ∀ c < inp.build.used.length,
      endsAt (inp.build.used.getD c []) r.1 = true →
        0 < len r.1 c ∧ (inp.tangentAt c r.1).map Vec.normSq = some ((len r.1 c) ^ 2))
    (htrue : ∀ r ∈ inp.build.rows, r.2.1 = true → ∀ c < inp.build.used.length,
      endsAt (inp.build.used.getD c []) r.1 = true →
        inp.tangentAt c r.1 = some (Vec.smul (len r.1 c) (dir r.1 c)))
    (ht : t + 1 < frames.length) (hf0 : frames[t]? = some f0) (hf1 : frames[t + 1]? = some f1)
    (hm : maps.getD t none = some m) (hdt : f1.time ≠ f0.time)
    (hmove : ∀ r ∈ inp.build.rows, r.2.1 = true →
      m.get? r.1 = some (some (succ r.1)) ∧ f0.pos? r.1 = some (pos0 r.1) ∧ f1.pos? (succ r.1) = some (pos1 r.1) ∧
      (pos1 r.1).x = (pos0 r.1).x
        + (f1.time - f0.time) * ((inp.endCols r.1).map fun c => tau c * (dir r.1 c).x).sum ∧
      (pos1 r.1).y = (pos0 r.1).y
        + (f1.time - f0.time) * ((inp.endCols r.1).map fun c => tau c * (dir r.1 c).y).sum) :
    mulVec (normalisedMatrix inp len) (tauVec inp.build.used.length tau)
      = velocityRhs inp (fun v => c03VelOf (calculateVelocity frames maps v t)) := by
  rw [velocityRhs_of_forward_displacements inp
    (fun v => ⟨((inp.endCols v).map fun c => tau c * (dir v c).x).sum,
      ((inp.endCols v).map fun c => tau c * (dir v c).y).sum⟩)
    frames maps t f0 f1 m succ pos0 pos1 ht hf0 hf1 hm hdt hmove]
  exact assembled_dynamic_balance inp len dir tau _ hnorm htrue (fun _ _ _ => ⟨rfl, rfl⟩)

/-- … and at the last frame (backward difference) -/
theorem series_backward_balance (inp : FMInput) (len : Id → Nat → Rat) (dir : Id → Nat → Vec) (tau : Nat → Rat)
    (frames : List TFrame) (maps : List (Option StepMap)) (t : Nat) (f0 f1 : TFrame) (m : StepMap)
    (pred : Id → Id) (pos0 pos1 : Id → Pt)
    (hnorm : ∀ r ∈ inp.build.rows, r.2.1 = true → ∀ c < inp.build.used.length,
      endsAt (inp.build.used.getD c []) r.1 = true →
        0 < len r.1 c ∧ (inp.tangentAt c r.1).map Vec.normSq = some ((len r.1 c) ^ 2))
    (htrue : ∀ r ∈ inp.build.rows, r.2.1 = true → ∀ c < inp.build.used.length,
      endsAt (inp.build.used.getD c []) r.1 = true →
        inp.tangentAt c r.1 = some (Vec.smul (len r.1 c) (dir r.1 c)))
    (ht : t + 2 = frames.length) (hf1 : frames[t]? = some f1) (hf0 : frames[t + 1]? = some f0)
    (hm : maps.getD t none = some m) (hk : (m.map (·.1)).Nodup) (hinj : (m.values.filterMap id).Nodup)
    (hdt : f0.time ≠ f1.time)
    (hmove : ∀ r ∈ inp.build.rows, r.2.1 = true →
      m.get? (pred r.1) = some (some r.1) ∧ f0.pos? r.1 = some (pos0 r.1) ∧ f1.pos? (pred r.1) = some (pos1 r.1) ∧
      (pos0 r.1).x = (pos1 r.1).x
        + (f0.time - f1.time) * ((inp.endCols r.1).map fun c => tau c * (dir r.1 c).x).sum ∧
      (pos0 r.1).y = (pos1 r.1).y
        + (f0.time - f1.time) * ((inp.endCols r.1).map fun c => tau c * (dir r.1 c).y).sum) :
    mulVec (normalisedMatrix inp len) (tauVec inp.build.used.length tau)
      = velocityRhs inp (fun v => c03VelOf (calculateVelocity frames maps v (t + 1))) := by
  rw [velocityRhs_of_backward_displacements inp
    (fun v => ⟨((inp.endCols v).map fun c => tau c * (dir v c).x).sum,
      ((inp.endCols v).map fun c => tau c * (dir v c).y).sum⟩)
    frames maps t f0 f1 m pred pos0 pos1 ht hf1 hf0 hm hk hinj hdt hmove]
  exact assembled_dynamic_balance inp len dir tau _ hnorm htrue (fun _ _ _ => ⟨rfl, rfl⟩)

/-! non-vacuity: the lens of Props/C01matrix.lean (junctions 0 at (−2,0) and 1 at (2,0)), tensions (1,1,1,1), step 1/2,
    the next frame numbered 7 and 5; and the same motion seen from the last frame of a series whose previous frame is
    numbered 7 and 5, times 5/2 and 3. -/
def c03Frames : List TFrame :=
  [⟨0, [⟨0, ⟨-2, 0⟩⟩, ⟨1, ⟨2, 0⟩⟩]⟩, ⟨1/2, [⟨5, ⟨8/5, 1/10⟩⟩, ⟨7, ⟨-8/5, 1/10⟩⟩]⟩]
def c03Maps : List (Option StepMap) := [some [(0, some 7), (1, some 5)]]
def c03FramesB : List TFrame :=
  [⟨5/2, [⟨5, ⟨12/5, -1/10⟩⟩, ⟨7, ⟨-12/5, -1/10⟩⟩]⟩, ⟨3, [⟨0, ⟨-2, 0⟩⟩, ⟨1, ⟨2, 0⟩⟩]⟩]
def c03MapsB : List (Option StepMap) := [some [(7, some 0), (5, some 1)]]

/-- `hmove` of `series_forward_balance` holds on the lens (with `succ 0 = 7`, `succ 1 = 5`) -/
example : ∀ r ∈ balInp.build.rows, r.2.1 = true →
    StepMap.get? [(0, some 7), (1, some 5)] r.1 = some (some ((fun v : Id => if v = 0 then (7 : Id) else 5) r.1)) ∧
    (c03Frames.getD 0 default).pos? r.1 = some ((fun v : Id => if v = 0 then (⟨-2, 0⟩ : Pt) else ⟨2, 0⟩) r.1) ∧
    (c03Frames.getD 1 default).pos? ((fun v : Id => if v = 0 then (7 : Id) else 5) r.1)
      = some ((fun v : Id => if v = 0 then (⟨-8/5, 1/10⟩ : Pt) else ⟨8/5, 1/10⟩) r.1) ∧
    ((fun v : Id => if v = 0 then (⟨-8/5, 1/10⟩ : Pt) else ⟨8/5, 1/10⟩) r.1).x
      = ((fun v : Id => if v = 0 then (⟨-2, 0⟩ : Pt) else ⟨2, 0⟩) r.1).x
        + ((1/2 : Rat) - 0) * ((balInp.endCols r.1).map fun c => dynTau c * (balDir r.1 c).x).sum ∧
    ((fun v : Id => if v = 0 then (⟨-8/5, 1/10⟩ : Pt) else ⟨8/5, 1/10⟩) r.1).y
      = ((fun v : Id => if v = 0 then (⟨-2, 0⟩ : Pt) else ⟨2, 0⟩) r.1).y
        + ((1/2 : Rat) - 0) * ((balInp.endCols r.1).map fun c => dynTau c * (balDir r.1 c).y).sum := by
  decide +kernel

/-- what the model computes from the two series: the same right-hand side, the one of `dynVel` -/
example : velocityRhs balInp (fun v => c03VelOf (calculateVelocity c03Frames c03Maps v 0)) = [4/5, 1/5, -4/5, 1/5] ∧
    velocityRhs balInp (fun v => c03VelOf (calculateVelocity c03FramesB c03MapsB v 1)) = [4/5, 1/5, -4/5, 1/5] ∧
    velocityRhs balInp dynVel = [4/5, 1/5, -4/5, 1/5] := by
  decide +kernel

/-- `hmove`, `hk`, `hinj` of the backward theorems hold on the lens (with `pred 0 = 7`, `pred 1 = 5`) -/
example : (([(7, some 0), (5, some 1)] : StepMap).map (·.1)).Nodup ∧
    ((StepMap.values [(7, some 0), (5, some 1)]).filterMap id).Nodup ∧
    ∀ r ∈ balInp.build.rows, r.2.1 = true →
    StepMap.get? [(7, some 0), (5, some 1)] ((fun v : Id => if v = 0 then (7 : Id) else 5) r.1) = some (some r.1) ∧
    (c03FramesB.getD 1 default).pos? r.1 = some ((fun v : Id => if v = 0 then (⟨-2, 0⟩ : Pt) else ⟨2, 0⟩) r.1) ∧
    (c03FramesB.getD 0 default).pos? ((fun v : Id => if v = 0 then (7 : Id) else 5) r.1)
      = some ((fun v : Id => if v = 0 then (⟨-12/5, -1/10⟩ : Pt) else ⟨12/5, -1/10⟩) r.1) ∧
    ((fun v : Id => if v = 0 then (⟨-2, 0⟩ : Pt) else ⟨2, 0⟩) r.1).x
      = ((fun v : Id => if v = 0 then (⟨-12/5, -1/10⟩ : Pt) else ⟨12/5, -1/10⟩) r.1).x
        + ((3 : Rat) - 5/2) * ((balInp.endCols r.1).map fun c => dynTau c * (balDir r.1 c).x).sum ∧
    ((fun v : Id => if v = 0 then (⟨-2, 0⟩ : Pt) else ⟨2, 0⟩) r.1).y
      = ((fun v : Id => if v = 0 then (⟨-12/5, -1/10⟩ : Pt) else ⟨12/5, -1/10⟩) r.1).y
        + ((3 : Rat) - 5/2) * ((balInp.endCols r.1).map fun c => dynTau c * (balDir r.1 c).y).sum := by
  decide +kernel

/-- `hdt` is needed (only `t₁ ≠ t₀`, not `t₀ < t₁`): with equal time stamps the model's right-hand side is zero although
    the junctions moved (`x / 0 = 0`; Python divides floats by 0.0) -/
theorem series_equal_times_witness :
    velocityRhs balInp (fun v => c03VelOf (calculateVelocity
      [⟨0, [⟨0, ⟨-2, 0⟩⟩, ⟨1, ⟨2, 0⟩⟩]⟩, ⟨0, [⟨5, ⟨8/5, 1/10⟩⟩, ⟨7, ⟨-8/5, 1/10⟩⟩]⟩] c03Maps v 0)) = [0, 0, 0, 0] := by
  decide +kernel

/-- C03 END TO END FROM THE SERIES.  `b` is the right-hand side the code builds at a frame of the series (forward or
    backward difference, any numbering of the neighbouring frame, any non-zero elapsed time).  If the assembled matrix
    maps the true tensions to it (`series_forward_balance` / `series_backward_balance`), the tensions are non-negative with
    mean one and the augmented matrix is injective, then every non-negative least-squares minimiser of the augmented
    system — what each of the back-ends returns — is (true tensions, 0). -/
theorem series_recovers_tensions (inp : FMInput) (len : Id → Nat → Rat) (tau : Nat → Rat) (b y : List Rat)
    (hk : ∃ r ∈ inp.build.rows, r.2.1 = true)
    (hb : mulVec (normalisedMatrix inp len) (tauVec inp.build.used.length tau) = b)
    (hnn : ∀ c < inp.build.used.length, 0 ≤ tau c)
    (hsum : (tauVec inp.build.used.length tau).sum = (inp.build.used.length : Rat))
    (hy : y.length = inp.build.used.length + 1)
    (hinj : ∀ x x' : List Rat, x.length = inp.build.used.length + 1 → x'.length = inp.build.used.length + 1 →
      mulVec (addMeanOne (normalisedMatrix inp len) b).1 x = mulVec (addMeanOne (normalisedMatrix inp len) b).1 x' →
      x = x')
    (hmin : ∀ x : List Rat, x.length = inp.build.used.length + 1 → (∀ v ∈ x, 0 ≤ v) →
      residSq (addMeanOne (normalisedMatrix inp len) b).1 (addMeanOne (normalisedMatrix inp len) b).2 y
        ≤ residSq (addMeanOne (normalisedMatrix inp len) b).1 (addMeanOne (normalisedMatrix inp len) b).2 x) :
    y = tauVec inp.build.used.length tau ++ [0] := by
  rw [← hb] at hinj hmin
  refine exact_rhs_unique (normalisedMatrix inp len) (tauVec inp.build.used.length tau) y
    (normalisedMatrix inp len).length inp.build.used.length (normalisedMatrix_pos inp len hk)
    ⟨rfl, by simp [mulVec], normalisedMatrix_width inp len⟩ (tauVec_length _ _) ?_ hsum hy hinj hmin
  intro v hv
  simp only [tauVec, List.mem_map, List.mem_range] at hv
  obtain ⟨c, hc, rfl⟩ := hv
  exact hnn c hc

/-- on the lens, with the right-hand side computed from the two-frame series `c03Frames`: whatever a back-end returns
    as non-negative minimiser is (1, 1, 1, 1, 0) -/
example (y : List Rat) (hy : y.length = balInp.build.used.length + 1)
    (hmin : ∀ x : List Rat, x.length = balInp.build.used.length + 1 → (∀ v ∈ x, 0 ≤ v) →
      residSq (addMeanOne (normalisedMatrix balInp balLen)
            (velocityRhs balInp (fun v => c03VelOf (calculateVelocity c03Frames c03Maps v 0)))).1
          (addMeanOne (normalisedMatrix balInp balLen)
            (velocityRhs balInp (fun v => c03VelOf (calculateVelocity c03Frames c03Maps v 0)))).2 y
        ≤ residSq (addMeanOne (normalisedMatrix balInp balLen)
            (velocityRhs balInp (fun v => c03VelOf (calculateVelocity c03Frames c03Maps v 0)))).1
          (addMeanOne (normalisedMatrix balInp balLen)
            (velocityRhs balInp (fun v => c03VelOf (calculateVelocity c03Frames c03Maps v 0)))).2 x) :
    y = tauVec balInp.build.used.length dynTau ++ [0] := by
  have hrhs : velocityRhs balInp (fun v => c03VelOf (calculateVelocity c03Frames c03Maps v 0))
      = velocityRhs balInp dynVel := by decide +kernel
  refine series_recovers_tensions balInp balLen dynTau _ y bal_hypotheses.1 ?_ dyn_hypotheses.2.1
    dyn_hypotheses.2.2.1 hy ?_ hmin
  · rw [hrhs]
    exact assembled_dynamic_balance balInp balLen balDir dynTau dynVel bal_hypotheses.2.1 bal_hypotheses.2.2.1
      dyn_hypotheses.1
  · rw [hrhs]; exact dyn_injective


/-! ### 2. the whole right-hand side under superposition, motion of the series, change of clock -/

/-- superposition: the right-hand side is additive in the velocity field -/
theorem velocityRhs_add (inp : FMInput) (vel vel' : Id → Vec) :
    velocityRhs inp (fun v => ⟨(vel v).x + (vel' v).x, (vel v).y + (vel' v).y⟩)
      = vadd (velocityRhs inp vel) (velocityRhs inp vel') := by
  rw [velocityRhs_eq_flatMap, velocityRhs_eq_flatMap, velocityRhs_eq_flatMap]
  exact c03_flatMap_pair_add _ _ _ _ _

/-- translating the whole series (same shift in every frame) does not change the right-hand side of any frame -/
theorem velocityRhs_translate_series (inp : FMInput) (e f : Rat) (frames : List TFrame) (maps : List (Option StepMap))
    (t : Nat) :
    velocityRhs inp (fun v => c03VelOf (calculateVelocity
        (frames.map (TFrame.mapPT (fun q => ⟨q.x + e, q.y + f⟩) id)) maps v t))
      = velocityRhs inp (fun v => c03VelOf (calculateVelocity frames maps v t)) := by
  simp only [calculateVelocity_translate]

/-- an affine map of space on the whole series (rotation, reflection, scaling, shear + shift) maps every junction's pair
    of right-hand-side entries through the linear part -/
theorem velocityRhs_affine_space_series (inp : FMInput) (a b c d e f : Rat) (frames : List TFrame)
    (maps : List (Option StepMap)) (t : Nat) :
    velocityRhs inp (fun v => c03VelOf (calculateVelocity
        (frames.map (TFrame.mapPT (affPt a b c d e f) id)) maps v t))
      = velocityRhs inp (fun v => linVec a b c d (c03VelOf (calculateVelocity frames maps v t))) := by
  simp only [calculateVelocity_affine_space, c03_velOf_map_lin]

/-- changing the clock `τ ↦ a τ + b`, `a ≠ 0` (other unit, other origin, even reversed) divides the whole right-hand
    side by `a` -/
theorem velocityRhs_affine_time_series (inp : FMInput) (a b : Rat) (ha : a ≠ 0) (frames : List TFrame)
    (maps : List (Option StepMap)) (t : Nat) :
    velocityRhs inp (fun v => c03VelOf (calculateVelocity
        (frames.map (TFrame.mapPT id (fun τ => a * τ + b))) maps v t))
      = (velocityRhs inp (fun v => c03VelOf (calculateVelocity frames maps v t))).map ((1 / a) * ·) := by
  simp only [calculateVelocity_affine_time a b ha, c03_velOf_map_div]
  exact velocityRhs_smul inp _ (1 / a)

example : velocityRhs balInp (fun v => c03VelOf (calculateVelocity
      (c03Frames.map (TFrame.mapPT id (fun τ => 2 * τ + 7))) c03Maps v 0)) = [2/5, 1/10, -2/5, 1/10] := by
  decide +kernel

/-! ### 3. the mean-one hypothesis, as an equivalence -/

/-- with the exact right-hand side `b = A τ`, the vector (τ, 0) solves the augmented system exactly IF AND ONLY IF the
    tensions sum to `n` (mean one): the hypothesis `hsum` of `exact_rhs_solves` is necessary for every system, not only
    on the witness `dynamic_truth_needs_mean_one_witness` -/
theorem exact_rhs_solves_iff (A : Mat) (tau : List Rat) (m n : Nat) (hm : 0 < m) (hs : Shaped A (mulVec A tau) m n)
    (ht : tau.length = n) :
    residSq (addMeanOne A (mulVec A tau)).1 (addMeanOne A (mulVec A tau)).2 (tau ++ [0]) = 0 ↔ tau.sum = (n : Rat) :=
  ⟨mean_one_of_consistent A _ tau 0 m n hm hs ht, exact_rhs_solves A tau m n hm hs ht⟩

/-- the size of the failure: with the exact right-hand side the squared residual of (τ, 0) is exactly `(Σ τ − n)²` -/
theorem exact_rhs_residual (A : Mat) (tau : List Rat) (m n : Nat) (hm : 0 < m) (hs : Shaped A (mulVec A tau) m n)
    (ht : tau.length = n) :
    residSq (addMeanOne A (mulVec A tau)).1 (addMeanOne A (mulVec A tau)).2 (tau ++ [0])
      = (tau.sum - (n : Rat)) * (tau.sum - (n : Rat)) := by
  obtain ⟨hmul, hb'⟩ := addMeanOne_mulVec A (mulVec A tau) tau 0 m n hm hs ht
  unfold residSq
  rw [hmul, hb', vsub_append _ _ _ _ (by simp)]
  have h0 : (mulVec A tau).map (· + 0) = mulVec A tau := by simp
  rw [h0]
  have hz : ∀ v ∈ vsub (mulVec A tau) (mulVec A tau), v = 0 :=
    (vsub_eq_zero_iff _ _ rfl).mpr rfl
  have h1 : normSq (vsub (mulVec A tau) (mulVec A tau) ++ vsub [tau.sum] [(n : Rat)])
      = normSq (vsub (mulVec A tau) (mulVec A tau)) + normSq (vsub [tau.sum] [(n : Rat)]) := by
    unfold normSq; rw [dot_append _ _ _ _ rfl]
  rw [h1, (normSq_eq_zero _).mpr hz]
  simp [normSq, dot, vsub]

example : Shaped [[1, -1], [0, 0]] (mulVec [[1, -1], [0, 0]] [2, 2]) 2 2 ∧
    residSq (addMeanOne [[1, -1], [0, 0]] (mulVec [[1, -1], [0, 0]] [2, 2])).1
      (addMeanOne [[1, -1], [0, 0]] (mulVec [[1, -1], [0, 0]] [2, 2])).2 [2, 2, 0] = 4 := by
  refine ⟨⟨rfl, rfl, ?_⟩, by decide +kernel⟩
  intro r hr; simp at hr; rcases hr with rfl | rfl <;> rfl

/-! ### 4. every non-negative back-end returns the same vector -/

/-- two exactly certified answers (default NNLS, `lsq_linear`, … — any back-end whose output passes the KKT check) to
    the same system with an injective matrix are the same vector; `kkt_unique` (C05) gives equal fitted values only -/
theorem backends_agree (M : Mat) (b z z' : List Rat) (m n : Nat) (hs : Shaped M b m n)
    (hz : z.length = n) (hz' : z'.length = n)
    (hinj : ∀ x x' : List Rat, x.length = n → x'.length = n → mulVec M x = mulVec M x' → x = x')
    (h : kktCheck M b z 0 0 = true) (h' : kktCheck M b z' 0 0 = true) : z' = z := by
  have h0 := kkt_unique M b z z' m n hs hz hz' h h'
  rw [mulVec_vsub' M z' z (hz'.trans hz.symm), normSq_eq_zero] at h0
  exact hinj z' z hz' hz ((vsub_eq_zero_iff _ _ (by simp [mulVec])).mp h0)

/-- injectivity is needed: a matrix with two equal columns has two exactly certified answers -/
theorem backends_agree_witness :
    kktCheck [[1, 1]] [1] [1, 0] 0 0 = true ∧ kktCheck [[1, 1]] [1] [0, 1] 0 0 = true ∧
    ([1, 0] : List Rat) ≠ [0, 1] := by
  decide +kernel

example : kktCheck [[1, 0], [0, 1]] [1, -1] [1, 0] 0 0 = true ∧
    (∀ x x' : List Rat, x.length = 2 → x'.length = 2 →
      mulVec [[1, 0], [0, 1]] x = mulVec [[1, 0], [0, 1]] x' → x = x') := by
  refine ⟨by decide +kernel, ?_⟩
  intro x x' hx hx' h
  obtain ⟨a, b, rfl⟩ := List.length_eq_two.mp hx
  obtain ⟨a', b', rfl⟩ := List.length_eq_two.mp hx'
  simp [mulVec, dot] at h
  rw [h.1, h.2]

/-! ### 5. the three-decimal rounding of the whole right-hand side -/

/-- `b = np.round(b, 3)` applied to the whole vector moves every entry by at most 5·10⁻⁴ (the hypothesis `hround` of
    `dynamic_rhs_perturbation` / `dynamic_rounded_recovery`, C05bound, for `b' = b.map round3`, `e = 1/2000`), hence
    the vector by at most `len · (5·10⁻⁴)²` in squared norm -/
theorem rhs_round3_bound (b : List Rat) :
    (∀ p ∈ List.zip (b.map Tess.round3) b, ratAbs' (p.1 - p.2) ≤ 1 / 2000) ∧
    normSq (vsub (b.map Tess.round3) b) ≤ (b.length : Rat) * (1 / 2000 * (1 / 2000)) :=
  ⟨c03_round3_zip b, rounding_bound b (b.map Tess.round3) (1 / 2000) (by norm_num) (by simp) (c03_round3_zip b)⟩

/-- the fit of an exact non-negative solver moves by at most that much when the right-hand side is rounded -/
theorem nnls_round3_fit_bound (M : Mat) (b z z' : List Rat) (m n : Nat) (hs : Shaped M b m n)
    (hz : z.length = n) (hz' : z'.length = n)
    (h : kktCheck M b z 0 0 = true) (h' : kktCheck M (b.map Tess.round3) z' 0 0 = true) :
    normSq (mulVec M (vsub z' z)) ≤ (b.length : Rat) * (1 / 2000 * (1 / 2000)) :=
  (nnls_nonexpansive M b (b.map Tess.round3) z z' m n hs ⟨hs.1, by simp [hs.2.1], hs.2.2⟩ hz hz' h h').trans
    (rhs_round3_bound b).2

/-- the bound of `rhs_round3_bound` is attained entry-wise: a tie at 5·10⁻⁴ is moved by exactly 5·10⁻⁴ -/
theorem rhs_round3_tight_witness :
    ([1 / 2000, 3 / 2000] : List Rat).map Tess.round3 = [0, 2 / 1000] ∧
    normSq (vsub (([1 / 2000, 3 / 2000] : List Rat).map Tess.round3) [1 / 2000, 3 / 2000])
      = 2 * (1 / 2000 * (1 / 2000)) := by
  decide +kernel

example : kktCheck [[1, 0], [0, 1]] [1 / 2000, -1] [1 / 2000, 0] 0 0 = true ∧
    kktCheck [[1, 0], [0, 1]] (([1 / 2000, -1] : List Rat).map Tess.round3) [0, 0] 0 0 = true := by
  decide +kernel

end Forsys
