/-
  Properties C15 / C09 — the skeleton clean-up (`Skeleton.create_lattice` after its first loop: inner-triangle loop,
  `get_artifacts`, grouping, `do_t3_transition`, isolated-cell removal) keeps the three dictionaries mutually consistent.
  Model: ForsysModel/Model/Skeleton.lean.  Helper lemmas and the definitions below: ForsysModel/Proofs/C15cleanup.lean.

  The clean-up deletes vertex *keys* while the vertex objects live on (`St.dead`), so the invariant is consistency
  "modulo deleted vertex keys":

    def Mesh.restrict (m : Mesh) (dead : List Id) : Mesh :=                 -- the vertices dict without the deleted keys
      { m with vertices := m.vertices.filter fun p => !dead.contains p.1 }
    def Mesh.liveKey (m : Mesh) (dead : List Id) (k : Id) : Bool := (m.vertex? k).isSome && !dead.contains k
    def Mesh.refsLive (m : Mesh) (dead : List Id) : Bool :=                 -- nobody refers to a deleted or unknown key
      m.edges.all (fun p => m.liveKey dead p.2.v1 && m.liveKey dead p.2.v2) &&
        m.cells.all (fun p => p.2.verts.all (m.liveKey dead))
    def Mesh.dicts (m : Mesh) (dE dC : List Id) : Bool :=                   -- keys, clause (1) off dE, clause (2) off dC, (4)
      m.keysOk && (m.restrict dE).ownEdgesOk && (m.restrict dC).ownCellsOk && m.cellsNodup
    def St.liveMesh (st : St) : Mesh := st.mesh.restrict st.dead
    def St.refsLive (st : St) : Bool := …                                    -- = st.mesh.refsLive st.dead (`refsLive_eq`)
    def St.Inv (st : St) : Bool :=                                           -- the invariant I
      st.mesh.keysOk && st.liveMesh.ownEdgesOk && st.liveMesh.ownCellsOk && st.refsLive && st.mesh.cellsNodup &&
        st.zombie.isNone
    def St.Inv0 (st : St) : Bool := st.mesh.dicts st.dead st.dead && st.zombie.isNone     -- I without the reference clause
    def St.pinFree (st : St) (A : List Id) : Bool :=                         -- negation of `d16Pred` for one group
      match st.pinned.bind st.mesh.edge? with
      | some pe => !(A.contains pe.v1 && A.contains pe.v2)
      | none => true
    def st0 (m0 : Mesh) : St :=                                              -- the state `cleanup` starts from
      { mesh := m0, dead := [], pinned := (m0.edges.getLast?.map (·.1)), zombie := none, idReused := false }

  The clause predicates are those of ForsysModel/Model/Mesh.lean.  Clause (5) `cyclesJoined` is not part of I: neither
  the inner-triangle loop nor the T3 transition keeps it in general (they rely on the geometry of the artefact), it is
  carried separately.  Results: every composite step keeps I as long as the mesh edge pinned by the loop variable `e`
  (finding D16) is not deleted; `cleanup` returns dictionaries that satisfy every clause but (5) — and the reference
  clause when cells were removed as isolated — whenever its D16 flag is false and no vertex id was used twice.
-/
import ForsysModel.Model.Skeleton
import ForsysModel.Props.C15
import ForsysModel.Proofs.C15cleanup

namespace Forsys.Skel
open Mesh

/-! ### 2. the invariant: initial state, and what `finalMesh` needs -/

/-- a consistent mesh wrapped into a clean-up state satisfies I -/
theorem inv_of_consistent (m : Mesh) (pin : Option Id) (b : Bool) (h : m.Consistent = true) :
    St.Inv { mesh := m, dead := [], pinned := pin, zombie := none, idReused := b } = true :=
  inv_of_consistent' m pin b h

/-- (a) the mesh after the first loop of `create_lattice`, wrapped into the state the clean-up starts from, satisfies I
    (and the cycle clause) -/
theorem inv_init (cs : List (List Px)) (h : GoodContours cs) :
    (st0 (rawMesh cs)).Inv = true ∧ (st0 (rawMesh cs)).mesh.cyclesJoined = true := by
  have hc := rawMesh_consistent cs h
  refine ⟨inv_of_consistent' _ _ false hc, ?_⟩
  simp only [Mesh.Consistent, Bool.and_eq_true] at hc
  exact hc.2

/-- the first loop never creates a mesh edge from a vertex to itself (`assert self.v1.id != self.v2.id`) -/
theorem rawMesh_noLoops (cs : List (List Px)) (h : GoodContours cs) : (rawMesh cs).noLoops = true :=
  rawMesh_noLoops' cs h

/-- (b) `finalMesh` needs I and the cycle clause -/
theorem finalMesh_consistent (st : St) (h : st.Inv = true) (hj : st.mesh.cyclesJoined = true) :
    (finalMesh st).Consistent = true :=
  finalMesh_consistent' st h hj

/-- … and exactly that: `finalMesh st` is consistent iff the clauses of I hold on the live part of `st` (keys on the live
    part only; `zombie` is not looked at) and the cycle clause holds -/
theorem finalMesh_consistent_iff (st : St) : (finalMesh st).Consistent = true ↔
    (st.liveMesh.keysOk && st.liveMesh.ownEdgesOk && st.liveMesh.ownCellsOk && st.refsLive &&
      st.mesh.cellsNodup && st.mesh.cyclesJoined) = true :=
  finalMesh_consistent_iff' st

/-- without the reference clause: keys, clauses (1), (2), (4) of the returned dictionaries -/
theorem finalMesh_dicts (st : St) (h : st.Inv0 = true) :
    (finalMesh st).keysOk = true ∧ (finalMesh st).ownEdgesOk = true ∧ (finalMesh st).ownCellsOk = true ∧
      (finalMesh st).cellsNodup = true :=
  finalMesh_of_inv0 ((inv0_iff st).mp h).1

theorem inv_iff_inv0_refs (st : St) : st.Inv = true ↔ st.Inv0 = true ∧ st.mesh.refsLive st.dead = true :=
  inv_split st

/-! ### 1. the elementary steps -/

/-- `del self.edges[k]` of a mesh edge that nobody else holds (`__del__` runs at once): I is kept -/
theorem delEdge_unpinned_preserves_inv (st st' : St) (k : Id) (h : st.delEdge k = .ok st') (hp : st.pinned ≠ some k)
    (hi : st.Inv = true) : st'.Inv = true ∧ st'.dead = st.dead ∧ st'.pinned = st.pinned :=
  ⟨(invS_iff _).mpr (St_delEdge_inv h hp ((invS_iff _).mp hi)), (St_delEdge_dead_pinned h).1,
    (St_delEdge_dead_pinned h).2.1⟩

/-- `del self.edges[k]` of the pinned mesh edge: keys, clause (2), references and clause (4) are kept, the edge becomes
    the zombie … -/
theorem delEdge_pinned_preserves (st st' : St) (k : Id) (h : st.delEdge k = .ok st') (hp : st.pinned = some k)
    (hi : st.Inv = true) :
    st'.mesh.keysOk = true ∧ st'.liveMesh.ownCellsOk = true ∧ st'.refsLive = true ∧ st'.mesh.cellsNodup = true ∧
      st'.zombie.isSome = true := by
  obtain ⟨a, b, c, d, e⟩ := delEdge_pinned_rest h hp ((invS_iff _).mp hi)
  exact ⟨(keysOk_iff _).mpr a, (ownCellsOk_iff _).mpr b, (refsLive_iff _).mpr c, (cellsNodup_iff _).mpr d,
    Option.isSome_iff_ne_none.mpr e⟩

/-- … and clause (1) is broken, always: the ends of the edge are live and still list it (mechanism of finding D16; the
    hypothesis `st.pinned ≠ some k` of `delEdge_unpinned_preserves_inv` is necessary) -/
theorem delEdge_pinned_breaks_ownEdges (st st' : St) (k : Id) (h : st.delEdge k = .ok st') (hp : st.pinned = some k)
    (hi : st.Inv = true) : st'.liveMesh.ownEdgesOk = false := by
  have := delEdge_pinned_breaks h hp ((invS_iff _).mp hi)
  rw [← ownEdgesOk_iff] at this
  simpa [St.liveMesh] using this

/-- `SmallEdge.__del__` of the zombie repairs it: the released state is the one an unpinned deletion gives -/
theorem release_after_pinned_restores (st st' : St) (k : Id) (h : st.delEdge k = .ok st') (hp : st.pinned = some k)
    (hi : st.Inv = true) : st'.release.Inv = true ∧ st'.release.mesh = st.mesh.delEdge k := by
  obtain ⟨a, b⟩ := release_restores h hp ((invS_iff _).mp hi)
  exact ⟨(invS_iff _).mpr a, b⟩

/-- rebinding the loop variable `e` on a state without zombie only drops the reference -/
theorem release_preserves_inv (st : St) (hi : st.Inv = true) :
    st.release.Inv = true ∧ st.release.mesh = st.mesh ∧ st.release.dead = st.dead ∧ st.release.pinned = none := by
  have hz := ((invS_iff _).mp hi).2
  refine ⟨?_, release_mesh hz, release_dead st, release_pinned st⟩
  rw [release_of_zombie_none hz]
  exact hi

/-- `for e in v.ownEdges: del self.edges[e]` (read by position): keys and clauses (1), (2), (4) are kept when the pinned
    reference is dropped by the first iteration (`rebind`) or is gone already -/
theorem liveDel_preserves_inv0 (fuel : Nat) (st st' : St) (v : Id) (i : Nat) (rb : Bool)
    (h : liveDel fuel st v i rb = .ok st') (hp : rb = true ∨ st.pinned = none) (hi : st.Inv0 = true) :
    st'.Inv0 = true ∧ st'.dead = st.dead := by
  obtain ⟨a, b⟩ := liveDel_inv0 h hp ((inv0_iff _).mp hi)
  exact ⟨(inv0_iff _).mpr a, b⟩

/-- … and so is the reference clause (no hypothesis on the pinned edge) -/
theorem liveDel_preserves_refs (fuel : Nat) (st st' : St) (v : Id) (i : Nat) (rb : Bool)
    (h : liveDel fuel st v i rb = .ok st') (hi : st.refsLive = true) : st'.refsLive = true :=
  (refsLive_iff _).mpr (liveDel_refs h ((refsLive_iff _).mp hi))

/-- `Cell.replace_vertex(vold, vnew)`: keys, clause (1), clause (4) are kept, and clause (2) on every vertex but `vold`
    (whose `ownCells` keeps the cell: `vold ∈ dC`) -/
theorem cellReplace_preserves_dicts (m m' : Mesh) (cid vold vnew : Id) (dE dC : List Id)
    (h : cellReplace m cid vold vnew = .ok m') (hi : m.dicts dE dC = true) (hD : vold ∈ dC) :
    m'.dicts dE dC = true :=
  (dicts_iff _ _ _).mpr (cellReplace_inv0P h ((dicts_iff _ _ _).mp hi) hD)

/-- … the reference clause when `vnew` is a key of the vertices dict -/
theorem cellReplace_preserves_refs (m m' : Mesh) (cid vold vnew : Id) (d : List Id)
    (h : cellReplace m cid vold vnew = .ok m') (hk : m.keysOk = true) (hn : m.cellsNodup = true)
    (hr : m.refsLive d = true) (hnew : m.liveKey d vnew = true) : m'.refsLive d = true :=
  (refsLive_iff' _ _).mpr (cellReplace_refs h ((keysOk_iff _).mp hk).2.2.2.2.2 ((cellsNodup_iff _).mp hn)
    ((refsLive_iff' _ _).mp hr) ((liveKey_iff _ _ _).mp hnew))

/-- … and afterwards the cell does not contain `vold` any more, every other cell is untouched -/
theorem cellReplace_removes_old (m m' : Mesh) (cid vold vnew : Id)
    (h : cellReplace m cid vold vnew = .ok m') (hk : m.keysOk = true) (hn : m.cellsNodup = true) :
    ∀ q' ∈ m'.cells, (q'.1 ≠ cid ∧ q' ∈ m.cells) ∨ (q'.1 = cid ∧ vold ∉ q'.2.verts) := by
  intro q' hq'
  rcases cellReplace_cells h ((keysOk_iff _).mp hk).2.2.2.2.2 ((cellsNodup_iff _).mp hn) q' hq' with a | ⟨a, b, _⟩
  · exact Or.inl a
  · exact Or.inr ⟨a, b⟩

/-- `vold ∈ dC` is necessary: on two triangles sharing an edge, replacing vertex 0 by vertex 3 in cell 0 leaves cell 0 in
    `ownCells` of vertex 0 -/
theorem cellReplace_ownCells_witness :
    let m := ofLists [(0, 0, 0), (1, 1, 0), (2, 0, 1), (3, 1, 1)]
      [(0, 0, 1), (1, 1, 2), (2, 2, 0), (3, 1, 3), (4, 3, 2)] [(0, [0, 1, 2]), (1, [1, 3, 2])]
    m.dicts [] [] = true ∧
      (match cellReplace m 0 0 3 with
       | .ok m' => m'.dicts [] [] == false && m'.dicts [] [0] && !(m'.restrict []).ownCellsOk
       | .error _ => false) = true := by
  decide +kernel

/-- `SmallEdge.replace_vertex(vold, vnew)` on a mesh edge that ends at `vold` with exactly one end, `vold ≠ vnew`:
    keys and clauses (1), (2), (4) are kept -/
theorem edgeReplace_preserves_dicts (m m' : Mesh) (eid vold vnew : Id) (e : SEdge) (dE dC : List Id)
    (h : edgeReplace m eid vold vnew = .ok m') (he : m.edge? eid = some e)
    (hone : ((e.v1 == vold) != (e.v2 == vold)) = true) (hne : vold ≠ vnew) (hi : m.dicts dE dC = true) :
    m'.dicts dE dC = true := by
  obtain ⟨_, _, rfl⟩ := edgeReplace_ok h
  exact (dicts_iff _ _ _).mpr (edgeRV_inv0P he (oneEnd_of_xor hone) hne ((dicts_iff _ _ _).mp hi))

/-- … the reference clause when `vnew` is a key of the vertices dict -/
theorem edgeReplace_preserves_refs (m m' : Mesh) (eid vold vnew : Id) (e : SEdge) (d : List Id)
    (h : edgeReplace m eid vold vnew = .ok m') (he : m.edge? eid = some e)
    (hone : ((e.v1 == vold) != (e.v2 == vold)) = true) (hk : m.keysOk = true)
    (hr : m.refsLive d = true) (hnew : m.liveKey d vnew = true) : m'.refsLive d = true := by
  obtain ⟨_, _, rfl⟩ := edgeReplace_ok h
  exact (refsLive_iff' _ _).mpr (edgeRV_refs ((keysOk_iff _).mp hk) he (oneEnd_of_xor hone)
    ((refsLive_iff' _ _).mp hr) ((liveKey_iff _ _ _).mp hnew))

/-- … and afterwards the mesh edge ends at `vnew` and no longer at `vold` -/
theorem edgeReplace_moves_end (m m' : Mesh) (eid vold vnew : Id) (e : SEdge)
    (h : edgeReplace m eid vold vnew = .ok m') (he : m.edge? eid = some e)
    (hone : ((e.v1 == vold) != (e.v2 == vold)) = true) (hne : vold ≠ vnew) (hk : m.keysOk = true) :
    ∃ e', m'.edge? eid = some e' ∧ edgeEndsAt e' vnew = true ∧ edgeEndsAt e' vold = false := by
  obtain ⟨e', a, b, c, d⟩ := edgeReplace_moves ((keysOk_iff _).mp hk) h he (oneEnd_of_xor hone) hne
  refine ⟨e', a, ?_, ?_⟩
  · simpa [edgeEndsAt] using b
  · simp [edgeEndsAt, c, d]

/-- "exactly one end" is necessary: on a mesh edge from vertex 0 to itself `replace_vertex` moves one end and unregisters
    the edge from vertex 0, which it still ends at -/
theorem edgeReplace_selfLoop_witness :
    let m := ofLists [(0, 0, 0), (1, 1, 0)] [(0, 0, 0)] []
    m.Consistent = true ∧
      (match edgeReplace m 0 0 1 with
       | .ok m' => !m'.ownEdgesOk
       | .error _ => false) = true := by
  decide +kernel

/-! ### 3. the composite steps

  The decidable side condition is the one the control flow of `cleanup` provides when its D16 flag is false: the pinned
  mesh edge is not deleted by the step, i.e. no zombie afterwards (`d16Pred` contains `st1.zombie.isSome`), or — on the
  input side — the pinned mesh edge does not have both ends in the artefact (`St.pinFree`, the other half of `d16Pred`). -/

/-- body of `for triangle_ends in inner_edge_triangles` -/
theorem triStep_preserves_inv (bigs : List (List Id)) (sv sv' : St × List (Id × Id)) (k : Id × Id)
    (h : triStep bigs sv k = .ok sv') (hz : sv'.1.zombie = none) (hi : sv.1.Inv = true) : sv'.1.Inv = true :=
  (invS_iff _).mpr (triStep_inv h hz ((invS_iff _).mp hi))

/-- the inner-triangle loop -/
theorem triangles_preserves_inv (st st' : St) (bigs : List (List Id)) (h : triangles st bigs = .ok st')
    (hz : st'.zombie = none) (hi : st.Inv = true) : st'.Inv = true :=
  (invS_iff _).mpr (triangles_inv h hz ((invS_iff _).mp hi))

/-- `do_t3_transition(artifact)`, side condition on the result -/
theorem t3_preserves_inv (st st' : St) (artifact : List Id) (h : t3 st artifact = .ok st') (hz : st'.zombie = none)
    (hi : st.Inv = true) : st'.Inv = true :=
  (invS_iff _).mpr (t3_inv h hz ((invS_iff _).mp hi))

/-- `do_t3_transition(artifact)`, side condition on the input: the pinned mesh edge is not inside the artefact -/
theorem t3_preserves_inv_of_pinFree (st st' : St) (artifact : List Id) (h : t3 st artifact = .ok st')
    (hp : st.pinFree artifact = true) (hi : st.Inv = true) :
    st'.Inv = true ∧ st'.pinned = st.pinned ∧
      st'.idReused = (st.idReused || (st.mesh.vertex? (newVid st)).isSome) := by
  have hS := (invS_iff _).mp hi
  obtain ⟨a, b, _, _, e⟩ := t3_pin h hS (pinOK_of_pinFree hS.1.K hp)
  exact ⟨(invS_iff _).mpr a, b, e⟩

/-- `for artifact in artifacts: self.do_t3_transition(artifact)` -/
theorem t3_loop_preserves_inv (st st' : St) (groups : List (List Id)) (h : foldE t3 st groups = .ok st')
    (hz : st'.zombie = none) (hi : st.Inv = true) : st'.Inv = true :=
  (invS_iff _).mpr (foldE_t3_inv h hz ((invS_iff _).mp hi))

/-- the same loop with the side conditions on the input: no group contains both ends of the pinned mesh edge (`d16Pred` is
    false), the groups consist of ids known to the mesh, and no new vertex received the id of an old one -/
theorem t3_loop_preserves_inv_of_pinFree (st st' : St) (groups : List (List Id)) (h : foldE t3 st groups = .ok st')
    (hp : ∀ g ∈ groups, st.pinFree g = true) (hk : ∀ g ∈ groups, ∀ x ∈ g, (st.mesh.vertex? x).isSome = true)
    (hr : st'.idReused = false) (hi : st.Inv = true) : st'.Inv = true := by
  have hS := (invS_iff _).mp hi
  exact (invS_iff _).mpr (foldE_t3_pin h hS (fun g hg => pinOK_of_pinFree hS.1.K (hp g hg))
    (fun g hg x hx => (alGet?_isSome_iff _ _).mp (hk g hg x hx)) hr)

/-- body of the isolated-cell loop: keys and clauses (1), (2), (4) are kept (`first`: the loop variable `e` has not been
    rebound yet); the reference clause is restored by `del self.cells[cid]` at the earliest, see the witness below -/
theorem isolatedStep_preserves_inv_partial (acc acc' : St × Bool × List Id) (c : Id × Cell)
    (h : isolatedStep acc c = .ok acc') (hp : acc.2.1 = true ∨ acc.1.pinned = none) (hi : acc.1.Inv0 = true) :
    acc'.1.Inv0 = true ∧ (acc'.2.1 = true ∨ acc'.1.pinned = none) ∧ acc'.1.idReused = acc.1.idReused := by
  obtain ⟨⟨a, b⟩, c, _⟩ := isolatedStep_inv h ⟨(inv0_iff _).mp hi, hp⟩
  exact ⟨(inv0_iff _).mpr a, b, c⟩

/-- a cell that is not isolated is skipped -/
theorem isolatedStep_skip (acc acc' : St × Bool × List Id) (c : Id × Cell)
    (h : isolatedStep acc c = .ok acc') (hn : acc'.2.2.length = acc.2.2.length) : acc' = acc :=
  (isolatedStep_len h).2 hn

/-- the reference clause does not survive the body alone: on a single square the four vertex keys are deleted while the
    cell still lists them (it is removed after the loop) -/
theorem isolatedStep_refs_witness :
    let st := st0 (rawMesh [[(0, 0), (1, 0), (1, 1), (0, 1)]])
    st.Inv = true ∧
      (match foldE isolatedStep (st, true, []) st.mesh.cells with
       | .ok acc => acc.1.Inv0 && !acc.1.refsLive && acc.2.2 == [0]
       | .error _ => false) = true := by
  decide +kernel

/-! ### 4. `create_lattice` after the first loop -/

/-- if finding D16's predicate is false (second component of `cleanup`) and no vertex id was used twice, the returned
    dictionaries satisfy keys, clauses (1), (2), (4), and — when no cell was removed as isolated — the reference clause.
    Not covered: clause (5) `cyclesJoined`; the reference clause after an isolated-cell removal (the loop reads
    `v.ownEdges` by position while it shrinks, which deletes every second mesh edge of a vertex). -/
theorem cleanup_dicts_partial (m0 : Mesh) (l : Lattice) (h : cleanup m0 = (.ok l, false))
    (hc : m0.Consistent = true) (hr : l.idReused = false) :
    l.mesh.keysOk = true ∧ l.mesh.ownEdgesOk = true ∧ l.mesh.ownCellsOk = true ∧ l.mesh.cellsNodup = true ∧
      (l.isolated = [] → l.mesh.refsOk = true) :=
  cleanup_dicts' h hc hr

/-- hence consistency of the result reduces to the cycle clause -/
theorem cleanup_consistent_of_cycles (m0 : Mesh) (l : Lattice) (h : cleanup m0 = (.ok l, false))
    (hc : m0.Consistent = true) (hr : l.idReused = false) (hiso : l.isolated = [])
    (hj : l.mesh.cyclesJoined = true) : l.mesh.Consistent = true := by
  obtain ⟨a, b, c, d, e⟩ := cleanup_dicts' h hc hr
  simp only [Mesh.Consistent, Bool.and_eq_true]
  exact ⟨⟨⟨⟨⟨a, b⟩, c⟩, e hiso⟩, d⟩, hj⟩

/-- the sub-case in which the clean-up has nothing to do — the inner-triangle loop removed no vertex, there is no artefact
    group and no isolated cell (all three can be read off the result): the result is the input, with the `same` flags
    recomputed, and it is consistent -/
theorem cleanup_identity (m0 : Mesh) (l : Lattice) (h : (cleanup m0).1 = .ok l) (hc : m0.Consistent = true)
    (ht : l.triangleDeleted = []) (ha : l.artifacts = []) (hiso : l.isolated = []) :
    l.mesh = finalMesh (st0 m0) ∧ l.mesh.Consistent = true :=
  cleanup_identity' h hc ht ha hiso

/-- in particular when no two interfaces have the same ends and there is no artefact vertex -/
theorem cleanup_consistent_partial (m0 : Mesh) (l : Lattice) (h : (cleanup m0).1 = .ok l)
    (hc : m0.Consistent = true) (ht : dupKeys (firstLast m0.bigEdgesList) = [])
    (ha : getArtifacts (st0 m0) (externalEdges m0) = []) (hiso : l.isolated = []) :
    l.mesh = finalMesh (st0 m0) ∧ l.mesh.Consistent = true :=
  cleanup_identity' h hc (cleanup_identity_of_empty h ht ha).1 (cleanup_identity_of_empty h ht ha).2 hiso

/-! ### 5. non-vacuity -/

/-- OpenCV's contours of a 9 x 11 drawing of four rooms (two crossing walls inside a frame): the crossing produces the
    artefact groups `[0, 1, 18]` and `[33]` -/
def fourRooms : List (List Px) := [[(5,5),(6,4),(7,4),(8,4),(9,4),(10,5),(10,6),(10,7),(9,8),(8,8),(7,8),(6,8),(5,7),(5,6)], [(0,5),(1,4),(2,4),(3,4),(4,4),(5,5),(5,6),(5,7),(4,8),(3,8),(2,8),(1,8),(0,7),(0,6)], [(5,1),(6,0),(7,0),(8,0),(9,0),(10,1),(10,2),(10,3),(9,4),(8,4),(7,4),(6,4),(5,3),(5,2)], [(0,1),(1,0),(2,0),(3,0),(4,0),(5,1),(5,2),(5,3),(4,4),(3,4),(2,4),(1,4),(0,3),(0,2)]]

example : GoodContours fourRooms := by
  intro c hc
  simp only [fourRooms, List.mem_cons, List.not_mem_nil, or_false] at hc
  rcases hc with rfl | rfl | rfl | rfl <;> exact ⟨by decide +kernel, by decide⟩

/-- on `fourRooms` the hypotheses of `cleanup_dicts_partial` / `cleanup_consistent_of_cycles` hold, two artefact groups
    are collapsed, and the result is consistent -/
example : (rawMesh fourRooms).Consistent = true ∧
    (match cleanup (rawMesh fourRooms) with
     | (.ok l, flag) => !flag && !l.idReused && l.artifacts == [[0, 1, 18], [33]] && l.isolated == [] &&
         l.mesh.Consistent && l.mesh.vertices.length == 40 && l.mesh.edges.length == 44
     | _ => false) = true := by
  decide +kernel

/-- the stages on `fourRooms`: I holds before and after the T3 transitions, the pinned mesh edge is in no group -/
example : let st := st0 (rawMesh fourRooms)
    st.Inv = true ∧ st.pinFree [0, 1, 18] = true ∧ st.pinFree [33] = true ∧
      (match foldE t3 st [[0, 1, 18], [33]] with
       | .ok st' => st'.Inv && !st'.idReused && st'.dead == [0, 1, 18, 33] && st'.mesh.cyclesJoined
       | .error _ => false) = true := by
  decide +kernel

/-- violated invariant, inconsistent result: deleting the pinned mesh edge (the last one, id 45) of `fourRooms` leaves a
    state outside I whose `finalMesh` fails clause (1); after `release` I holds again -/
example : let st := st0 (rawMesh fourRooms)
    st.pinned = some 45 ∧
      (match st.delEdge 45 with
       | .ok st' => !st'.Inv && !(finalMesh st').ownEdgesOk && !(finalMesh st').Consistent && st'.release.Inv
       | .error _ => false) = true := by
  decide +kernel

/-- finding D16 as a violated side condition: on `d16Contours` the pinned mesh edge has both ends in the artefact group, the
    T3 transition deletes it while pinned and the next artefact vertex raises KeyError (`d16_witness`); the side condition
    `pinFree` is false there -/
example : (match triangles (st0 (rawMesh d16Contours)) (rawMesh d16Contours).bigEdgesList with
     | .ok st1 => (getArtifacts st1 (externalEdges (rawMesh d16Contours))) == [14, 25] && !st1.pinFree [14, 25]
     | .error _ => false) = true := by
  decide +kernel

/-- the identity sub-case `cleanup_identity`: two unit squares side by side (their two interfaces have the same ends, the
    longer one has four vertices, so the inner-triangle loop skips them) -/
example : let m0 := rawMesh [[(0, 0), (1, 0), (1, 1), (0, 1)], [(1, 0), (2, 0), (2, 1), (1, 1)]]
    m0.Consistent = true ∧
      (match (cleanup m0).1 with
       | .ok l => l.triangleDeleted == [] && l.artifacts == [] && l.isolated == []
       | .error _ => false) = true := by
  decide +kernel

/-- three quadrilaterals around one interior three-fold junction -/
def threeQuads : Mesh := ofLists [(0, 1, 1), (1, 0, 0), (2, 2, 0), (3, 1, 3), (4, 1, 0), (5, 2, 2), (6, 0, 2)]
  [(0, 0, 1), (1, 0, 2), (2, 0, 3), (3, 1, 4), (4, 4, 2), (5, 2, 5), (6, 5, 3), (7, 3, 6), (8, 6, 1)]
  [(0, [0, 1, 4, 2]), (1, [0, 2, 5, 3]), (2, [0, 3, 6, 1])]

/-- the hypotheses of `cleanup_consistent_partial` hold on it -/
example : let m0 := threeQuads
    m0.Consistent = true ∧ dupKeys (firstLast m0.bigEdgesList) = [] ∧
      getArtifacts (st0 m0) (externalEdges m0) = [] ∧
      (match (cleanup m0).1 with | .ok l => l.isolated == [] | .error _ => false) = true := by
  decide +kernel

/-
  PENDING (not proved):

  theorem cleanup_consistent (m0 : Mesh) (l : Lattice) (h : cleanup m0 = (.ok l, false)) (hc : m0.Consistent = true)
      (hr : l.idReused = false) : l.mesh.Consistent = true
    -- missing: clause (5) `cyclesJoined` through `triStep` and `t3` (needs the geometry of the artefact: the removed
    -- vertices must be consecutive in every cell cycle that contains two of them), and the reference clause after an
    -- isolated-cell removal (needs: the mesh edges at the vertices of an isolated cell are exactly the steps of its
    -- cycle, and the order of `ownEdges`; the loop reads `v.ownEdges` by position while `__del__` shrinks it).

  theorem isolatedStep_preserves_inv (acc acc' : St × Bool × List Id) (c : Id × Cell)
      (h : isolatedStep acc c = .ok acc') (hp : acc.2.1 = true ∨ acc.1.pinned = none) (hi : acc.1.Inv = true) :
      (let st := acc'.1; { st with mesh := acc'.2.2.foldl (fun m c => m.delCell c) st.mesh }).Inv = true
    -- the reference clause for the state with the collected cells removed.
-/

end Forsys.Skel
