/-
  Property C10 — umbrella module: the single-step / last-solve theorems (Props/C10.lean) and the theorems for
  histories of any length (Props/C10hist.lean: frame-wise locality, commutation, erasure of operations on other frames,
  idempotence of re-solving, closed form of a frame and of the result stores after any history).
-/
import ForsysModel.Props.C10
import ForsysModel.Props.C10hist
