/-
  Umbrella of property C16: the opening-angle test, the antiparallel characterisation, the exclusion rule and the
  re-alignment of the solution (Props/C16.lean), and the end-to-end statements in the model — when a junction is
  flagged, which interfaces are excluded and in which order the rest remain, the default limit and the limit π, the
  report of `solve` position by position, mean one for consistent restricted systems, and invariance of all of it under
  the storage order and direction of the interfaces with an angle limit (Props/C16system.lean).
  lean/props.json names this module for C16, so that `./check C16` builds and audits both.
-/
import ForsysModel.Props.C16
import ForsysModel.Props.C16system
import ForsysModel.Props.C16more
