/-
  Property C19 — tessellation lattices match the Voronoi diagram of the given centres.
  Model: ForsysModel/Model/Tessellation.lean (create_lattice_elements / create_lattice *given Qhull's output*:
  `scipy.spatial.Voronoi` is the trusted kernel, its regions and vertex coordinates are the model's inputs).
  Helper lemmas: ForsysModel/Proofs/C19.lean.  Every theorem is for all inputs (all Qhull outputs, all cut-offs).
-/
import ForsysModel.Model.Tessellation
import ForsysModel.Proofs.C19

namespace Forsys.Tess

/-! ### rounding and `line_eq`: a ridge is represented by its two corners rounded to 3 decimals -/

/-- rounding to 3 decimals is idempotent (`np.around(np.linspace(round(x0,3), round(x1,3), 2), 3)` changes nothing) -/
theorem round3_idem (q : Rat) : round3 (round3 q) = round3 q := round3_idem' q

/-- `lineEq p0 p1 x0 = y0` (the slope–intercept formula at the first end point; no hypothesis needed) -/
theorem lineAt_left (q0 q1 : Pt) : lineAt q0 q1 q0.x = q0.y := lineAt_left' q0 q1

/-- `lineEq p0 p1 x1 = y1` for `x0 ≠ x1` -/
theorem lineAt_right (q0 q1 : Pt) (h : q1.x ≠ q0.x) : lineAt q0 q1 q1.x = q1.y := lineAt_right' q0 q1 h

/-- the hypothesis `x0 ≠ x1` cannot be dropped: on a vertical ridge the slope–intercept formula does not reach
    the second end point (exact arithmetic: `x/0 = 0`; the float code on the pinned upstream tree raised
    FloatingPointError — finding D7, witness corpus/C19/square_grid.json).  `line_eq` therefore needs its
    vertical branch (`lineEq_vertical`), which /repo now carries. -/
theorem lineAt_vertical_witness : lineAt ⟨0, 0⟩ ⟨0, 1⟩ 0 ≠ 1 := by decide +kernel

/-- sloped ridge: at the two rounded abscissae `line_eq` returns the two rounded ordinates -/
theorem lineEq_sloped (p0 p1 : Pt) (h : (roundPt p1).x ≠ (roundPt p0).x) :
    lineEq p0 p1 [(roundPt p0).x, (roundPt p1).x] = [(roundPt p0).y, (roundPt p1).y] := by
  unfold lineEq
  simp only [if_neg h, List.map_cons, List.map_nil]
  rw [lineAt_left' (roundPt p0) (roundPt p1), lineAt_right' (roundPt p0) (roundPt p1) h]

/-- vertical ridge (equal abscissae after rounding): `line_eq` returns the two rounded ordinates -/
theorem lineEq_vertical (p0 p1 : Pt) (a b : Rat) (h : (roundPt p1).x = (roundPt p0).x) :
    lineEq p0 p1 [a, b] = [(roundPt p0).y, (roundPt p1).y] := by
  unfold lineEq
  simp only [if_pos h, List.length_cons, List.length_nil]
  exact linspace_two _ _

/-- in every case the sample points of a ridge are its two corner points rounded to 3 decimals -/
theorem ridgePoints_eq (p0 p1 : Pt) : ridgePoints p0 p1 = [roundPt p0, roundPt p1] := ridgePoints_eq' p0 p1

/-! ### the cut-off rule -/

/-- a region survives `remove_infinite_regions` iff it is not (bounded, non-empty and of squared diameter
    above `max_distance²`) -/
theorem cutoff_rule (verts : List Pt) (md2 : Option Rat) (regions : List (List Int)) (c : List Int) :
    c ∈ removeInfiniteRegions verts md2 regions ↔ c ∈ regions ∧ tooFar verts md2 c = false :=
  mem_removeInfiniteRegions' verts md2 regions c

theorem tooFar_iff (verts : List Pt) (d : Rat) (c : List Int) :
    tooFar verts (some d) c = true ↔ bounded c = true ∧ d < maxDistSq (c.map (qv verts)) := by
  simp [tooFar]

/-- infinite cut-off: nothing is removed -/
theorem cutoff_infinite (verts : List Pt) (regions : List (List Int)) :
    removeInfiniteRegions verts none regions = regions := by
  have h : regions.filter (tooFar verts none) = [] := by
    rw [List.filter_eq_nil_iff]; intro c _; simp [tooFar]
  unfold removeInfiniteRegions
  rw [h]; rfl

/-! ### interning of vertices: identity by rounded coordinates -/

/-- the id returned by `get_vertex_number` is stored with exactly these coordinates -/
theorem getVertexNumber_entry (v : Pt) (vs : List (Id × Pt)) :
    ((getVertexNumber v vs).1, v) ∈ (getVertexNumber v vs).2 := getVertexNumber_mem v vs

/-- the dictionary only grows -/
theorem getVertexNumber_grows (v : Pt) (vs : List (Id × Pt)) : ∃ t, (getVertexNumber v vs).2 = vs ++ t :=
  getVertexNumber_prefix v vs

/-- once a (rounded) corner is stored under `k`, every later request for it — from the same or another
    region — returns `k` and stores nothing -/
theorem getVertexNumber_same (v : Pt) (vs : List (Id × Pt)) (hi : VInj vs) (k : Id) (hm : (k, v) ∈ vs) :
    getVertexNumber v vs = (k, vs) := getVertexNumber_of_mem v vs hi k hm

/-- in the vertex dictionary of `create_lattice_elements` ids are unique, start at 1, and no two ids carry
    the same coordinates: two regions referring to the same rounded corner refer to the same vertex id -/
theorem elements_vertices_injective (verts : List Pt) (regions : List (List Int)) (md2 : Option Rat) :
    let vs := (createLatticeElements verts regions md2).vertices
    (∀ p ∈ vs, ∀ q ∈ vs, (p.2 = q.2 ↔ p.1 = q.1)) ∧ ∀ p ∈ vs, 1 ≤ p.1 := by
  intro vs
  obtain ⟨h1, h2, _, _⟩ := elementsState_inv verts regions md2
  refine ⟨fun p hp q hq => ⟨fun e => ?_, fun e => ?_⟩, h1.2⟩
  · have := List.inj_on_of_nodup_map h2 hp hq e; rw [this]
  · have := List.inj_on_of_nodup_map h1.1 hp hq e; rw [this]

/-! ### interning of mesh edges: a ridge shared by two regions is one mesh edge, up to sign -/

/-- the signed id names a stored edge: positive — `[a, b]` itself; negative — the stored reversed edge `[b, a]` -/
theorem getEnum_entry (e : Id × Id) (es : List (Id × (Id × Id))) (h : DInv es) :
    (0 < (getEnum e es).1 ∧ ((getEnum e es).1, e) ∈ (getEnum e es).2) ∨
    ((getEnum e es).1 < 0 ∧ (-(getEnum e es).1, (e.2, e.1)) ∈ (getEnum e es).2) := getEnum_mem e es h

theorem getEnum_grows (e : Id × Id) (es : List (Id × (Id × Id))) : ∃ t, (getEnum e es).2 = es ++ t :=
  getEnum_prefix e es

/-- once the ridge `{a, b}` is stored under `k` (in either direction), the second region walking along it gets
    `k` or `-k` and stores nothing -/
theorem getEnum_shared (e : Id × Id) (es : List (Id × (Id × Id))) (h : DInv es) (hi : EInj es) (k : Id)
    (hm : (k, e) ∈ es ∨ (k, (e.2, e.1)) ∈ es) :
    (getEnum e es).2 = es ∧ ((getEnum e es).1 = k ∨ (getEnum e es).1 = -k) := getEnum_of_mem e es h hi k hm

/-- in the edge dictionary of `create_lattice_elements` ids are unique and positive and no two ids join the same
    two vertices, in either direction -/
theorem elements_edges_injective (verts : List Pt) (regions : List (List Int)) (md2 : Option Rat) :
    let es := (createLatticeElements verts regions md2).edges
    (∀ p ∈ es, ∀ q ∈ es, (p.2 = q.2 ∨ p.2 = (q.2.2, q.2.1)) → p = q) ∧
    (es.map (·.1)).Nodup ∧ ∀ p ∈ es, 1 ≤ p.1 := by
  intro es
  obtain ⟨_, _, h3, h4, _, _⟩ := elementsState_inv verts regions md2
  exact ⟨h4, h3.1, h3.2⟩

/-! ### one cell per kept region -/

/-- if no region has zero area (no cell key is 0), the cell dictionary has exactly one entry per bounded,
    non-empty region that survived the cut-off -/
theorem cell_per_region (verts : List Pt) (regions : List (List Int)) (md2 : Option Rat)
    (h : (0 : Id) ∉ (createLatticeElements verts regions md2).cells.map (·.1)) :
    (createLatticeElements verts regions md2).cells.length =
      ((removeInfiniteRegions verts md2 regions).filter bounded).length := by
  have := foldl_stepRegion_cinv verts (removeInfiniteRegions verts md2 regions) initState 0 initState_cinv
  have := this.2.2 h
  simpa [createLatticeElements, elementsState] using this

/-- every key is `±` the running cell number (or 0 for a region of zero area): keys of distinct regions differ -/
theorem cell_keys_bounded (verts : List Pt) (regions : List (List Int)) (md2 : Option Rat) :
    ∀ k ∈ (createLatticeElements verts regions md2).cells.map (·.1),
      -(((removeInfiniteRegions verts md2 regions).filter bounded).length : Int) ≤ k ∧
      k ≤ ((removeInfiniteRegions verts md2 regions).filter bounded).length := by
  have := foldl_stepRegion_cinv verts (removeInfiniteRegions verts md2 regions) initState 0 initState_cinv
  intro k hk
  have h1 := this.1
  have h2 := this.2.1 k hk
  simp only [Nat.zero_add] at h1
  constructor <;> omega

/-! ### orientation: sign of the area → sign of the key → reversal -/

/-- the area computed by `get_cell_area_sign` on `temp_vertex_for_cell` (both ends of every step of the closed
    walk: `[c0,c1, c1,c2, …, c_{n-1},c0]`) is the area of the region's corner cycle -/
theorem area_walk (ps : List Pt) : area (dupOpen (ps ++ ps.take 1)) = area ps := area_dupOpen_close' ps

/-- a cell whose key is `-cnum · sign(area)` and whose cycle is reversed exactly when the key is negative ends
    with area sign −1 whatever the sense of Qhull's region list was, provided the region's area is not zero:
    all cells are stored in the same rotational sense (uses `areaSign_reverse` of C20) -/
theorem uniform_orientation_core (ps : List Pt) (cnum : Int) (hc : 0 < cnum) (h : areaSign ps ≠ 0) :
    areaSign (if -1 * cnum * areaSign (dupOpen (ps ++ ps.take 1)) < 0 then ps.reverse else ps) = -1 :=
  orientation_core' ps cnum hc h

/-! ### `create_lattice` is the parser pattern `Mesh.ofLists` unless a mesh edge joins a vertex to itself -/

theorem createLattice_ok (el : Elements) (h : ∀ p ∈ el.edges, p.2.1 ≠ p.2.2) :
    createLattice el = .ok (Mesh.ofLists (latticeVertices el) (latticeEdges el) (latticeCells el)) := by
  unfold createLattice
  have : el.edges.find? (fun p => p.2.1 == p.2.2) = none := by
    rw [List.find?_eq_none]; intro p hp; simpa using h p hp
  rw [this]

/-- a mesh edge `[n, n]` trips `SmallEdge`'s assertion -/
theorem createLattice_assert (el : Elements) (h : ∃ p ∈ el.edges, p.2.1 = p.2.2) :
    ∃ eid, createLattice el = .sameVertexTwice eid := by
  unfold createLattice
  obtain ⟨p, hp, hpp⟩ := h
  cases hf : el.edges.find? (fun p => p.2.1 == p.2.2) with
  | some q => exact ⟨_, rfl⟩
  | none =>
    rw [List.find?_eq_none] at hf
    exact absurd (by simpa using hpp) (hf p hp)

/-- with the test `if vertex_number_1 == vertex_number_2: continue` no stored mesh edge joins a vertex to itself,
    and both ends of every stored mesh edge are stored vertices -/
theorem elements_no_self_edge (verts : List Pt) (regions : List (List Int)) (md2 : Option Rat) :
    let el := createLatticeElements verts regions md2
    ∀ p ∈ el.edges, p.2.1 ≠ p.2.2 ∧ p.2.1 ∈ el.vertices.map (·.1) ∧ p.2.2 ∈ el.vertices.map (·.1) := by
  intro el p hp
  obtain ⟨_, _, _, _, h5, h6⟩ := elementsState_inv verts regions md2
  exact ⟨h5 p hp, h6 p hp⟩

/-- hence `create_lattice` never trips `SmallEdge`'s assertion on the dictionaries of `create_lattice_elements` -/
theorem createLattice_never_asserts (verts : List Pt) (regions : List (List Int)) (md2 : Option Rat) :
    let el := createLatticeElements verts regions md2
    createLattice el = .ok (Mesh.ofLists (latticeVertices el) (latticeEdges el) (latticeCells el)) := by
  intro el
  exact createLattice_ok el fun p hp => (elements_no_self_edge verts regions md2 p hp).1

/-- finding D21 (signature rounded-corners-coincide, repaired in /repo): the upstream loop body, which lacks that
    test, stores the mesh edge `[1, 1]` for a ridge whose two ends round to the same point, and `create_lattice`
    raises on it -/
theorem stepEdgeUpstream_self_edge_witness :
    (stepEdgeUpstream { vs := [], es := [], cellE := [], cellV := [] }
        (roundPt ⟨1, 1⟩, roundPt ⟨9999/10000, 10001/10000⟩)).es = [(1, (1, 1))] ∧
    ∃ eid, createLattice { vertices := [(1, ⟨1, 1⟩)], edges := [(1, (1, 1))], cells := [] } = .sameVertexTwice eid := by
  refine ⟨by decide +kernel, ?_⟩
  apply createLattice_assert
  decide +kernel

/-- the repaired loop body on the same ridge: the vertex is interned, no mesh edge is stored -/
theorem stepEdge_coinciding_corners :
    (stepEdge { vs := [], es := [], cellE := [], cellV := [] }
        (roundPt ⟨1, 1⟩, roundPt ⟨9999/10000, 10001/10000⟩)).es = [] := by
  decide +kernel

/-! non-vacuity -/

/-- hypotheses of `lineEq_sloped` / `lineEq_vertical` -/
example : (roundPt ⟨1/3, 0⟩).x ≠ (roundPt ⟨0, 0⟩).x ∧ (roundPt ⟨1/3000, 5⟩).x = (roundPt ⟨0, 0⟩).x := by
  decide +kernel

/-- hypotheses of `getVertexNumber_same` / `getEnum_shared` -/
example : VInj [(1, ⟨0, 0⟩), (2, ⟨1, 0⟩)] ∧ ((2 : Id), (⟨1, 0⟩ : Pt)) ∈ [((1 : Id), (⟨0, 0⟩ : Pt)), (2, ⟨1, 0⟩)] := by
  constructor
  · unfold VInj; decide +kernel
  · decide +kernel

example : DInv [((1 : Id), ((1 : Id), (2 : Id)))] ∧ EInj [(1, (1, 2))] := by
  refine ⟨⟨by decide, by decide⟩, ?_⟩
  intro p hp q hq _
  simp at hp hq
  rw [hp, hq]

/-- hypotheses of `cell_per_region` and `uniform_orientation_core`: the unit square given clockwise (positive
    coded area): one cell, key −1, reversed to area sign −1 -/
example :
    (0 : Id) ∉ (createLatticeElements [⟨0, 0⟩, ⟨0, 1⟩, ⟨1, 1⟩, ⟨1, 0⟩] [[0, 1, 2, 3], [], [0, -1]] none).cells.map (·.1)
    ∧ (createLatticeElements [⟨0, 0⟩, ⟨0, 1⟩, ⟨1, 1⟩, ⟨1, 0⟩] [[0, 1, 2, 3], [], [0, -1]] none).cells = [(-1, [1, 2, 3, 4])]
    ∧ areaSign [⟨0, 0⟩, ⟨0, 1⟩, ⟨1, 1⟩, ⟨1, 0⟩] ≠ 0 := by
  decide +kernel

/-- hypothesis of `createLattice_ok` -/
example : ∀ p ∈ (createLatticeElements [⟨0, 0⟩, ⟨0, 1⟩, ⟨1, 1⟩, ⟨1, 0⟩] [[0, 1, 2, 3]] none).edges, p.2.1 ≠ p.2.2 := by
  decide +kernel

/-! ### for all inputs: the stored cells are the regions' corner cycles, one rotational sense, consistency -/

/-- hypothesis of the next theorems: no two corners of a kept bounded region coincide after rounding, and every
    such region has at least two corners (`GoodRegions`); non-vacuity: -/
example : GoodRegions [⟨0, 0⟩, ⟨0, 1⟩, ⟨1, 1⟩, ⟨1, 0⟩] [[0, 1, 2, 3], [], [0, -1]] := by
  intro c hc hb
  simp at hc
  rcases hc with rfl | rfl | rfl
  · exact ⟨by decide +kernel, by decide⟩
  · exact absurd hb (by decide)
  · exact absurd hb (by decide)

/-- every stored cell `(key, signed edge ids)` is the closed walk round the rounded corners `P` of a kept bounded
    region: `W` are the vertex ids of `P` (`Forall₂`), every signed edge id names the stored mesh edge of its step
    (`SignedEdge`: positive — stored as `[a, b]`, negative — stored reversed), and
    `key = -cnum · sign(area of temp_vertex_for_cell)` (`CellRec`) -/
theorem cell_walk (verts : List Pt) (regions : List (List Int)) (md2 : Option Rat)
    (h : GoodRegions verts (removeInfiniteRegions verts md2 regions)) :
    let el := createLatticeElements verts regions md2
    ∀ e ∈ el.cells, CellRec (IsRegion verts (removeInfiniteRegions verts md2 regions)) el.vertices el.edges e :=
  (elements_ginv verts regions md2 h).2.2

/-- the vertex cycle `create_lattice` builds for a stored cell is the list of vertex ids of the region's rounded
    corners — `P` itself as points — reversed exactly when the key is negative -/
theorem cell_cycle (verts : List Pt) (regions : List (List Int)) (md2 : Option Rat)
    (h : GoodRegions verts (removeInfiniteRegions verts md2 regions)) :
    let el := createLatticeElements verts regions md2
    ∀ e ∈ el.cells, ∃ P, IsRegion verts (removeInfiniteRegions verts md2 regions) P ∧
      (cellCycle el.edges e.1 e.2).map (ptOf el.vertices) = (if e.1 < 0 then P.reverse else P) := by
  intro el e he
  obtain ⟨hs, _, hcells⟩ := elements_ginv verts regions md2 h
  obtain ⟨P, _, _, hok, _, _, _, _, _, hpts⟩ := cellCycle_of_rec hs.1 hs.2.2.1 (hcells e he)
  exact ⟨P, hok, hpts⟩

/-- all cells are stored in the same rotational sense: every final vertex cycle of a region of non-zero area
    (key ≠ 0) has area sign −1, whatever the sense of Qhull's region list -/
theorem uniform_orientation (verts : List Pt) (regions : List (List Int)) (md2 : Option Rat)
    (h : GoodRegions verts (removeInfiniteRegions verts md2 regions)) :
    let el := createLatticeElements verts regions md2
    ∀ e ∈ el.cells, e.1 ≠ 0 → areaSign ((cellCycle el.edges e.1 e.2).map (ptOf el.vertices)) = -1 :=
  uniform_orientation' verts regions md2 h

/-- the three lists handed to the parser pattern are well-formed in the sense of C09 -/
theorem tess_wellformed (verts : List Pt) (regions : List (List Int)) (md2 : Option Rat)
    (h : GoodRegions verts (removeInfiniteRegions verts md2 regions)) :
    let el := createLatticeElements verts regions md2
    WFInput (latticeVertices el) (latticeEdges el) (latticeCells el) :=
  tess_wf verts regions md2 h

/-- the lattice is a consistent mesh (through `ofLists_consistent` of C09) -/
theorem tess_consistent (verts : List Pt) (regions : List (List Int)) (md2 : Option Rat)
    (h : GoodRegions verts (removeInfiniteRegions verts md2 regions)) :
    ∃ m, createLattice (createLatticeElements verts regions md2) = .ok m ∧ m.Consistent = true :=
  ⟨_, createLattice_never_asserts verts regions md2, tess_consistent' verts regions md2 h⟩

end Forsys.Tess
