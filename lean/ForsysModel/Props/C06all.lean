/-
  Umbrella of property C06: the per-tangent, per-arc, per-cycle transformation theorems and the invariance of the
  least-squares objective under rotated residual pairs (Props/C06.lean), and their lifting to the ASSEMBLED systems —
  `Mesh.mapP` / `FMInput.mapP`: interfaces, angle-limited vertices and unknowns untouched; the force matrix identical
  under translation and change of the length unit; junction row pairs rotated / reflected under rotation / reflection when
  finding D2 strikes in neither pose; the pressure system identical / negated (Props/C06system.lean).
  lean/props.json names this module for C06, so that `./check C06` builds and audits both.
-/
import ForsysModel.Props.C06
import ForsysModel.Props.C06system
import ForsysModel.Props.C06more
