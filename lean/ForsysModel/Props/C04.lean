/-
  Property C04 — pressure step: Young–Laplace equations with a zero-sum least-squares solution.
  Model: ForsysModel/Model/Pressure.lean, ForsysModel/Model/Solve.lean.
  Two clauses of the property are numerical analysis with transcendental functions and are NOT proved here
  (checked numerically per run, see harness/props/c04.py): "(n−2)/(n−1)·θ within 3 %" and "correlation ≥ 0.9".
-/
import ForsysModel.Model.Pressure
import ForsysModel.Proofs.C04

namespace Forsys

def scalePts (s : Rat) (ps : List Pt) : List Pt := ps.map fun p => ⟨s * p.x, s * p.y⟩
def shiftPts (d : Pt) (ps : List Pt) : List Pt := ps.map fun p => ⟨p.x + d.x, p.y + d.y⟩

/-! ### the turning estimate: rational ingredients -/

theorem gradient_length (l : List Rat) (h : 2 ≤ l.length) : (gradient l).length = l.length := by
  rw [gradient_length_ite, if_pos h]

/-- `np.gradient` of a reversed sequence is the negated, reversed gradient -/
theorem gradient_reverse (l : List Rat) : gradient l.reverse = ((gradient l).map (- ·)).reverse := by
  exact gradient_reverse' l

theorem gradient_scale (s : Rat) (l : List Rat) : gradient (l.map (s * ·)) = (gradient l).map (s * ·) := by
  exact gradient_scale' s l

theorem gradient_shift (d : Rat) (l : List Rat) : gradient (l.map (· + d)) = gradient l := by
  exact gradient_shift' d l

/-- storing the interface in the other direction negates every curvature numerator (in reversed order) and keeps
    speeds and segment lengths: the total turning changes sign -/
theorem curvParts_reverse (pts : List Pt) :
    (curvParts pts.reverse).num = ((curvParts pts).num.map (- ·)).reverse ∧
    (curvParts pts.reverse).speedSq = (curvParts pts).speedSq.reverse ∧
    (curvParts pts.reverse).segSq = (curvParts pts).segSq.reverse := by
  exact curvParts_reverse' pts

/-- uniform scaling by `s`: numerators and squared speeds scale by `s²`, squared segment lengths by `s²`; hence
    κ_i = num/speed^{3/2} scales by 1/|s| and every term κ·ds of the total is unchanged -/
theorem curvParts_scale (s : Rat) (pts : List Pt) :
    (curvParts (scalePts s pts)).num = (curvParts pts).num.map (s * s * ·) ∧
    (curvParts (scalePts s pts)).speedSq = (curvParts pts).speedSq.map (s * s * ·) ∧
    (curvParts (scalePts s pts)).segSq = (curvParts pts).segSq.map (s * s * ·) := by
  have hx : (scalePts s pts).map (·.x) = (pts.map (·.x)).map (s * ·) := by simp [scalePts]
  have hy : (scalePts s pts).map (·.y) = (pts.map (·.y)).map (s * ·) := by simp [scalePts]
  simp only [curvParts, hx, hy, gradient_scale', zipWith_mul_scale, zipWith_sub_scale, zipWith_add_scale]
  exact ⟨trivial, trivial, segSqs_map_scale s pts⟩

theorem curvParts_translate (d : Pt) (pts : List Pt) : curvParts (shiftPts d pts) = curvParts pts := by
  have hx : (shiftPts d pts).map (·.x) = (pts.map (·.x)).map (· + d.x) := by simp [shiftPts]
  have hy : (shiftPts d pts).map (·.y) = (pts.map (·.y)).map (· + d.y) := by simp [shiftPts]
  simp only [curvParts, hx, hy, gradient_shift']
  congr 1
  exact segSqs_map_shift d pts

/-- straight interfaces (points `o + t_i·u`, any spacing `t_i`): every curvature numerator is zero, so the turning
    estimate is zero -/
theorem curvParts_collinear (o : Pt) (u : Vec) (ts : List Rat) :
    ∀ v ∈ (curvParts (ts.map fun t => (⟨o.x + t * u.x, o.y + t * u.y⟩ : Pt))).num, v = 0 := by
  have hx : (ts.map fun t => (⟨o.x + t * u.x, o.y + t * u.y⟩ : Pt)).map (·.x)
      = (ts.map (u.x * ·)).map (· + o.x) := by
    simp only [List.map_map]; apply List.map_congr_left; intro t _; simp only [Function.comp]; ring
  have hy : (ts.map fun t => (⟨o.x + t * u.x, o.y + t * u.y⟩ : Pt)).map (·.y)
      = (ts.map (u.y * ·)).map (· + o.y) := by
    simp only [List.map_map]; apply List.map_congr_left; intro t _; simp only [Function.comp]; ring
  simp only [curvParts, hx, hy, gradient_shift', gradient_scale']
  exact zipWith_num_collinear u.x u.y _ _

/-! ### the row of one interface -/

theorem pressureRow_length (n a b : Nat) (s : Int) : (pressureRow n a b s).length = n := by
  simp [pressureRow]

/-- the row has +1/−1 exactly at the two cells, 0 elsewhere, and applied to a pressure vector gives ±(p_a − p_b) -/
theorem pressureRow_dot (n a b : Nat) (s : Int) (p : List Rat) (hp : p.length = n) (ha : a < n) (hb : b < n) (hab : a ≠ b) :
    dot (pressureRow n a b s) p = (if 0 < s then 1 else -1) * (p.getD a 0 - p.getD b 0) := by
  exact pressureRow_dot' n a b s p hp ha hb hab

/-- the equation does not depend on how it is stored (1): reversing the interface (turning ↦ −turning) together with the
    orientation of the cell that defines the sign negates both sides -/
theorem row_joint_flip (n a b : Nat) (s : Int) (hs : s ≠ 0) (T k : Rat) :
    pressureRow n a b (-s) = (pressureRow n a b s).map (- ·) ∧ pressureRhs T (-k) = - pressureRhs T k := by
  refine ⟨?_, by simp [pressureRhs]⟩
  simp only [pressureRow, List.map_map]
  apply List.map_congr_left
  intro i _
  by_cases h : 0 < s
  · have : ¬ (0 < -s) := by omega
    simp only [h, this, if_true, if_false, Function.comp]
    split_ifs <;> simp
  · have : 0 < -s := by omega
    simp only [h, this, if_true, if_false, Function.comp]
    split_ifs <;> simp

/-- (2): taking the two cells in the other order (same orientation sign) negates the row; since equally oriented
    neighbours traverse their common interface in opposite directions the turning is negated as well -/
theorem row_swap_cells (n a b : Nat) (s : Int) (hab : a ≠ b) :
    pressureRow n b a s = (pressureRow n a b s).map (- ·) := by
  simp only [pressureRow, List.map_map]
  apply List.map_congr_left
  intro i _
  simp only [Function.comp]
  split_ifs <;> simp_all

/-- right-hand sides are linear in the tension -/
theorem pressureRhs_linear (c T k : Rat) : pressureRhs (c * T) k = c * pressureRhs T k := by
  simp [pressureRhs, mul_assoc]

/-! ### the constrained least-squares solve -/

/-- soundness of the bordered normal equations: an exact solution `(p, μ)` of
    `[[LᵀL, 1], [1ᵀ, 0]] (p, μ) = (Lᵀ r, 0)` has zero sum and minimises `‖L q − r‖²` over all zero-sum `q` -/
theorem normal_eq_sound (L : Mat) (r p q : List Rat) (mu : Rat) (m n : Nat) (hn : 0 < n) (hs : Shaped L r m n)
    (hp : p.length = n) (hq : q.length = n) (hq0 : q.sum = 0)
    (h : mulVec (addLagrange (gram L n) (tRhs L n r) 0).1 (p ++ [mu]) = (addLagrange (gram L n) (tRhs L n r) 0).2) :
    p.sum = 0 ∧ residSq L r p ≤ residSq L r q := by
  exact normal_eq_sound' L r p q mu m n hn hs hp hq hq0 h

/-- certificate without the multiplier: if the gradient `Lᵀ(Lp − r)` has all components equal to one constant `c` and
    `p` has zero sum, `p` minimises `‖Lq − r‖²` over all zero-sum `q` -/
theorem const_grad_sound (L : Mat) (r p q : List Rat) (c : Rat) (m n : Nat) (hs : Shaped L r m n)
    (hp : p.length = n) (hq : q.length = n) (hp0 : p.sum = 0) (hq0 : q.sum = 0)
    (h : grad L r p = List.replicate n c) : residSq L r p ≤ residSq L r q := by
  exact const_grad_sound' L r p q c m n hs hp hq hp0 hq0 h

/-- … with slack: gradient components within `eps` of one constant `c` -/
theorem const_grad_slack (L : Mat) (r p q : List Rat) (c eps : Rat) (m n : Nat) (hs : Shaped L r m n)
    (hp : p.length = n) (hq : q.length = n) (hp0 : p.sum = 0) (hq0 : q.sum = 0)
    (h : ∀ v ∈ grad L r p, ratAbs' (v - c) ≤ eps) :
    residSq L r p ≤ residSq L r q + 2 * eps * ((vsub q p).map ratAbs').sum := by
  exact const_grad_slack' L r p q c eps m n hs hp hq hp0 hq0 h

/-- the solution map is linear in the right-hand side: scaling all tensions by `c` scales the pressures by `c` -/
theorem normal_eq_scale (L : Mat) (r p : List Rat) (mu c : Rat) (m n : Nat) (hn : 0 < n) (hs : Shaped L r m n)
    (hp : p.length = n)
    (h : mulVec (addLagrange (gram L n) (tRhs L n r) 0).1 (p ++ [mu]) = (addLagrange (gram L n) (tRhs L n r) 0).2) :
    mulVec (addLagrange (gram L n) (tRhs L n (vscale c r)) 0).1 (vscale c p ++ [c * mu])
      = (addLagrange (gram L n) (tRhs L n (vscale c r)) 0).2 := by
  have _ := hs
  exact normal_eq_scale' L r p mu c n hn hp h

/-- uniqueness when the interfaces link all cells: if every row is `±(e_a − e_b)` and the graph whose edges are the rows
    is connected on `0..n-1`, a vector with `L p = 0` is constant; with zero sum it is zero -/
theorem connected_kernel (n : Nat) (rows : List (Nat × Nat × Int)) (p : List Rat) (hp : p.length = n)
    (hrows : ∀ r ∈ rows, r.1 < n ∧ r.2.1 < n ∧ r.1 ≠ r.2.1)
    (hconn : ∀ i j, i < n → j < n → Relation.ReflTransGen (fun x y => ∃ r ∈ rows, (r.1 = x ∧ r.2.1 = y) ∨ (r.1 = y ∧ r.2.1 = x)) i j)
    (hker : ∀ r ∈ rows, dot (pressureRow n r.1 r.2.1 r.2.2) p = 0) (hsum : p.sum = 0) :
    ∀ v ∈ p, v = 0 := by
  exact connected_kernel' n rows p hp hrows hconn hker hsum

/-! ### re-insertion of the cells without internal interface -/

theorem reinsertZeros_length (n : Nat) (removed : List Nat) (sol : List Rat)
    (hr : ∀ i ∈ removed, i < n) (hnd : removed.Nodup) (hlen : sol.length + removed.length = n) :
    (reinsertZeros n removed sol).length = n := by
  exact reinsertZeros_length' n removed sol hr hnd hlen

/-- cells touching no internal interface get exactly zero … -/
theorem reinsertZeros_removed (n : Nat) (removed : List Nat) (sol : List Rat)
    (hr : ∀ i ∈ removed, i < n) (hnd : removed.Nodup) (hlen : sol.length + removed.length = n) (i : Nat) (hi : i ∈ removed) :
    (reinsertZeros n removed sol).getD i 1 = 0 := by
  exact reinsertZeros_removed' n removed sol hr hnd hlen i hi

/-- … and the other cells keep their solved value, in order -/
theorem reinsertZeros_kept (n : Nat) (removed : List Nat) (sol : List Rat)
    (hr : ∀ i ∈ removed, i < n) (hnd : removed.Nodup) (hlen : sol.length + removed.length = n) :
    ((List.zip (List.range n) (reinsertZeros n removed sol)).filter fun p => !(removed.contains p.1)).map (·.2) = sol := by
  exact reinsertZeros_kept' n removed sol hr hnd hlen

/-! non-vacuity -/
example : (curvParts [⟨0, 0⟩, ⟨1, 1⟩, ⟨2, 0⟩]).num = [1, 1, 1] := by decide +kernel
example : reinsertZeros 5 [1, 3] [7, 8, 9] = [7, 0, 8, 0, 9] := by decide +kernel
example : pressureRow 4 2 0 (-1) = [1, 0, -1, 0] := by decide +kernel
/- hypotheses of `normal_eq_sound` / `normal_eq_scale` (with a non-zero multiplier) and of `const_grad_sound` -/
example : Shaped [[1, 1]] [2] 1 2 := by simp [Shaped]
example : mulVec (addLagrange (gram [[1, 1]] 2) (tRhs [[1, 1]] 2 [2]) 0).1 ([1, -1] ++ [2])
    = (addLagrange (gram [[1, 1]] 2) (tRhs [[1, 1]] 2 [2]) 0).2 := by decide +kernel
example : grad [[1, 1]] [2] [1, -1] = List.replicate 2 (-2) := by decide +kernel
example : mulVec (addLagrange (gram [[1, -1, 0], [0, 1, -1]] 3) (tRhs [[1, -1, 0], [0, 1, -1]] 3 [3, 3]) 0).1 ([3, 0, -3] ++ [0])
    = (addLagrange (gram [[1, -1, 0], [0, 1, -1]] 3) (tRhs [[1, -1, 0], [0, 1, -1]] 3 [3, 3]) 0).2 := by decide +kernel
/- hypotheses of `connected_kernel`: two cells joined by one interface -/
example : ∀ i j, i < 2 → j < 2 → Relation.ReflTransGen
    (fun x y => ∃ r ∈ [((0 : Nat), (1 : Nat), (1 : Int))], (r.1 = x ∧ r.2.1 = y) ∨ (r.1 = y ∧ r.2.1 = x)) i j := by
  intro i j hi hj
  have : (i = 0 ∨ i = 1) ∧ (j = 0 ∨ j = 1) := by omega
  rcases this with ⟨rfl | rfl, rfl | rfl⟩
  · exact .refl
  · exact .single ⟨(0, 1, 1), by simp, Or.inl ⟨rfl, rfl⟩⟩
  · exact .single ⟨(0, 1, 1), by simp, Or.inr ⟨rfl, rfl⟩⟩
  · exact .refl
example : ∀ r ∈ [((0 : Nat), (1 : Nat), (1 : Int))], dot (pressureRow 2 r.1 r.2.1 r.2.2) [0, 0] = 0 := by decide +kernel

end Forsys
