/-
  Properties C11 / C09, mesh level — `generate_mesh(vertices, edges, cells, ne, replace_short_edges=True)`
  (forsys/virtual_edges.py; model `Mesh.generateMesh m ne true`, ForsysModel/Model/Resample.lean) returns a consistent
  vertex–edge–cell mesh when the pairs it merges have no vertex in common.

  After the rebuild (Props/C11mesh.lean) the function loops
      for edge_to_join in vertices_to_join:
          vertices, edges, cells, new_mapper = join_two_vertices(edge_to_join, vertices, edges, cells, mapper)
  over the two-point interfaces both of whose ends lie in fewer than three cells (`Mesh.mergePairs`).  One call keeps the
  mesh consistent when the pair is `Mesh.joinable` (Props/C09join.lean), but joinability is NOT inherited along chains of
  merges (finding D17: `joinTwoVertices_chain_witness`, `joinTwoVertices_staleMapper_witness`, and at the level of the
  whole function `generateMesh_true_chain_witness` below).  It IS inherited when the pairs are vertex-disjoint:

  * `joinable_preserved_of_disjoint` — KEY LEMMA: after a successful merge of (a, b), every pair (c, d) that was joinable
    and shares no vertex with (a, b) is still joinable, and is still looked up directly (the mapper entries written for
    a and b are never consulted for c, d).
  * `joinTwoVertices_two_disjoint`, `joinChain_consistent_of_disjoint` — two, resp. any number of, pairwise
    vertex-disjoint joinable pairs are merged without error into a consistent mesh.
  * `generateMesh_true_of_joinChain` — the loop of the model is `joinChain` on `mergePairs`, started from the resampled mesh.
  * `generateMesh_true_consistent` — TARGET: under the hypotheses of `generateMesh_false_consistent`, if the collected
    pairs are pairwise vertex-disjoint (`mergePairsDisjoint`) and each is joinable in the resampled mesh
    (`mergePairsJoinable`), the function raises nothing and returns a consistent mesh.
  * `mergePairs_joined`, `mergePairs_vertices`, `mergePairsJoinable_of_proper`, `generateMesh_true_consistent_of_proper` —
    part of `mergePairsJoinable` comes for free: the two ends of every collected pair are vertices of the resampled mesh
    and are joined by a rebuilt mesh edge.  What remains (`mergePairsProper`): the two ends differ, carry no loop edge,
    and are consecutive in every resampled cell (of three or more vertices) containing both.
-/
import ForsysModel.Proofs.C11merge

namespace Forsys
open Mesh

/-! ### vocabulary -/

/-- the pairs handed to `join_two_vertices`, in loop order: first and second vertex of every two-point interface
    (`len(e) <= ne and len(e) == 2`) both of whose ends lie in fewer than three cells of the INPUT mesh -/
def Mesh.mergePairs (m : Mesh) (ne : Nat) : List (Id × Id) :=
  (m.bigEdgesList.filter fun e =>
    decide (e.length ≤ ne) && e.length == 2 &&
      decide ((m.ownCells (e.getD 0 0)).length < 3) && decide ((m.ownCells (e.getD 1 0)).length < 3)).map
    fun e => (e.getD 0 0, e.getD 1 0)

/-- two pairs without a common vertex -/
def pairDisjoint (p q : Id × Id) : Bool := p.1 != q.1 && p.1 != q.2 && p.2 != q.1 && p.2 != q.2

/-- the pairs of a list are pairwise vertex-disjoint (no chains of merges) -/
def pairsDisjoint : List (Id × Id) → Bool
  | [] => true
  | p :: rest => rest.all (pairDisjoint p) && pairsDisjoint rest

/-- no vertex is an end of two collected two-point interfaces -/
def Mesh.mergePairsDisjoint (m : Mesh) (ne : Nat) : Bool := pairsDisjoint (m.mergePairs ne)

/-- every collected pair is `joinable` in the resampled mesh (the mesh the loop starts from) -/
def Mesh.mergePairsJoinable (m : Mesh) (ne : Nat) : Bool :=
  (m.mergePairs ne).all fun p => (m.generateMesh ne false).mesh.joinable p.1 p.2

theorem pairDisjoint_iff (p q : Id × Id) : pairDisjoint p q = true ↔ PairDisj p q := by
  simp only [pairDisjoint, PairDisj, Bool.and_eq_true, bne_iff_ne, ne_eq, and_assoc]

theorem pairsDisjoint_iff (ps : List (Id × Id)) : pairsDisjoint ps = true ↔ ps.Pairwise PairDisj := by
  induction ps with
  | nil => simp [pairsDisjoint]
  | cons p rest ih =>
    simp only [pairsDisjoint, Bool.and_eq_true, List.all_eq_true, pairDisjoint_iff, ih, List.pairwise_cons]

/-! ### the key lemma -/

/-- KEY LEMMA: let the pair handed to `join_two_vertices` resolve (directly or through the mapper) to the joinable
    pair (a, b) of a consistent mesh.  Then the call succeeds, the mesh `F` it returns is consistent, and every pair
    (c, d) that was joinable in `m` and has no vertex in common with (a, b) is joinable in `F`; moreover `c` and `d` are
    still looked up directly in `F` — the entries `a ↦ new`, `b ↦ new` added to the mapper do not affect them -/
theorem joinable_preserved_of_disjoint (m : Mesh) (pair : Id × Id) (mapper : List (Id × Id))
    (h : m.Consistent = true)
    (hj : m.joinable (m.resolveId mapper pair.1) (m.resolveId mapper pair.2) = true)
    (c d : Id) (hcd : m.joinable c d = true)
    (hdis : pairDisjoint (m.resolveId mapper pair.1, m.resolveId mapper pair.2) (c, d) = true) :
    ∃ F mp, m.joinTwoVertices pair mapper = .ok (F, mp) ∧ F.Consistent = true ∧ F.joinable c d = true ∧
      F.resolveId mp c = c ∧ F.resolveId mp d = d := by
  rw [consistent_iff] at h
  obtain ⟨F, hF, hCF, hkeep⟩ := join_preserves_joinableP m pair mapper h ((joinable_iffP _ _ _).mp hj)
  obtain ⟨d1, d2, d3, d4⟩ := (pairDisjoint_iff _ _).mp hdis
  have hjF := hkeep c d (Ne.symm d1) (Ne.symm d3) (Ne.symm d2) (Ne.symm d4) ((joinable_iffP _ _ _).mp hcd)
  exact ⟨F, _, hF, (consistent_iff F).mpr hCF, (joinable_iffP _ _ _).mpr hjF,
    resolveId_of_vertex F _ c hjF.2.1, resolveId_of_vertex F _ d hjF.2.2.1⟩

/-- the form the loop of `generate_mesh` starts with: both pairs are pairs of vertices of the mesh -/
theorem joinable_preserved_of_disjoint_direct (m : Mesh) (a b c d : Id) (mapper : List (Id × Id))
    (h : m.Consistent = true) (hab : m.joinable a b = true) (hcd : m.joinable c d = true)
    (hdis : pairDisjoint (a, b) (c, d) = true) :
    ∃ F mp, m.joinTwoVertices (a, b) mapper = .ok (F, mp) ∧ F.Consistent = true ∧ F.joinable c d = true ∧
      F.resolveId mp c = c ∧ F.resolveId mp d = d := by
  have hp := (joinable_iffP _ _ _).mp hab
  have ra := resolveId_of_vertex m mapper a hp.2.1
  have rb := resolveId_of_vertex m mapper b hp.2.2.1
  exact joinable_preserved_of_disjoint m (a, b) mapper h (by simp only [ra, rb]; exact hab) c d hcd
    (by simp only [ra, rb]; exact hdis)

/-! ### two pairs, and any number of pairs -/

/-- any number of pairwise vertex-disjoint pairs, each joinable in the consistent mesh `m`, are merged one after the
    other (mesh and mapper threaded as in `generate_mesh`) without error, and the final mesh is consistent -/
theorem joinChain_consistent_of_disjoint (m : Mesh) (ps : List (Id × Id)) (h : m.Consistent = true)
    (hj : (ps.all fun p => m.joinable p.1 p.2) = true) (hd : pairsDisjoint ps = true) :
    ∃ F mp, joinChain m ps = .ok (F, mp) ∧ F.Consistent = true := by
  rw [consistent_iff] at h
  rw [joinChain_eq_joinLoop]
  simp only [List.all_eq_true] at hj
  obtain ⟨F, mp, h1, h2⟩ := joinLoop_consP ps m [] h (fun p hp => (joinable_iffP _ _ _).mp (hj p hp))
    ((pairsDisjoint_iff ps).mp hd)
  exact ⟨F, mp, h1, (consistent_iff F).mpr h2⟩

/-- the two-pair corollary: two joinable pairs without a common vertex (contrast `joinTwoVertices_chain_witness`,
    where the pairs (0, 1) and (1, 2) share vertex 1) -/
theorem joinTwoVertices_two_disjoint (m : Mesh) (a b c d : Id) (h : m.Consistent = true)
    (hab : m.joinable a b = true) (hcd : m.joinable c d = true) (hdis : pairDisjoint (a, b) (c, d) = true) :
    ∃ F mp, joinChain m [(a, b), (c, d)] = .ok (F, mp) ∧ F.Consistent = true := by
  apply joinChain_consistent_of_disjoint m _ h
  · simp [hab, hcd]
  · simp [pairsDisjoint, hdis]

/-! ### the loop of `generate_mesh` -/

/-- the loop of the model is `joinChain` over `mergePairs`, started from the resampled mesh with the empty mapper:
    if the chain succeeds with mesh `F`, `generate_mesh(…, replace_short_edges=True)` returns `F` (and the same
    resampled interfaces as without merging) -/
theorem generateMesh_true_of_joinChain (m : Mesh) (ne : Nat) (F : Mesh) (mp : List (Id × Id))
    (h : joinChain (m.generateMesh ne false).mesh (m.mergePairs ne) = .ok (F, mp)) :
    m.generateMesh ne true = { mesh := F, nEdgeArray := m.bigEdgesList.map (pick ne), error := none } := by
  rw [joinChain_eq_joinLoop] at h
  exact go_eq_joinLoop _ _ _ _ F mp h

/-- TARGET: resampling WITH merging keeps the mesh consistent when there are no chains of merges.  Under the
    hypotheses of `generateMesh_false_consistent`, if no vertex is an end of two collected two-point interfaces and every
    collected pair is joinable in the resampled mesh, the loop raises neither KeyError nor IndexError and the mesh
    returned satisfies all six clauses of `Mesh.Consistent` -/
theorem generateMesh_true_consistent (m : Mesh) (ne : Nat) (h : m.Consistent = true) (hne : 1 ≤ ne)
    (hanch : m.cellsAnchored ne = true) (hagree : m.picksAgree ne = true)
    (hdisj : m.mergePairsDisjoint ne = true) (hjoin : m.mergePairsJoinable ne = true) :
    (m.generateMesh ne true).error = none ∧ (m.generateMesh ne true).mesh.Consistent = true := by
  have hR := generateMesh_false_consistent m ne h hne hanch hagree
  obtain ⟨F, mp, h1, h2⟩ := joinChain_consistent_of_disjoint _ (m.mergePairs ne) hR hjoin hdisj
  rw [generateMesh_true_of_joinChain m ne F mp h1]
  exact ⟨rfl, h2⟩

/-- the form with `ne`-independent hypotheses on the resampling part: every cell has a junction, interfaces are
    interior-disjoint -/
theorem generateMesh_true_consistent_of_disjoint (m : Mesh) (ne : Nat) (h : m.Consistent = true) (hne : 1 ≤ ne)
    (hj : (m.cells.all fun p => p.2.verts.any m.isJunction) = true) (hd : m.interfacesDisjoint = true)
    (hdisj : m.mergePairsDisjoint ne = true) (hjoin : m.mergePairsJoinable ne = true) :
    (m.generateMesh ne true).error = none ∧ (m.generateMesh ne true).mesh.Consistent = true :=
  generateMesh_true_consistent m ne h hne (cellsAnchored_of_junctions m ne hj) (picksAgree_of_disjoint m ne hne hd)
    hdisj hjoin

/-! ### which part of `mergePairsJoinable` is automatic -/

/-- a collected pair comes from a two-point interface `[p.1, p.2]` of the input, and then `2 ≤ ne` -/
theorem mergePairs_mem (m : Mesh) (ne : Nat) (p : Id × Id) (hp : p ∈ m.mergePairs ne) :
    [p.1, p.2] ∈ m.bigEdgesList ∧ 2 ≤ ne := by
  simp only [mergePairs, List.mem_map, List.mem_filter, Bool.and_eq_true, decide_eq_true_eq, beq_iff_eq] at hp
  obtain ⟨e, ⟨he, ⟨⟨hle, h2⟩, _⟩, _⟩, rfl⟩ := hp
  match e, h2 with
  | [u, v], _ => exact ⟨he, by simpa using hle⟩

/-- every collected pair is joined by a rebuilt mesh edge of the resampled mesh (no hypothesis on the input): a two-point
    interface is short, hence kept as it is, and its only consecutive pair becomes a mesh edge -/
theorem mergePairs_joined (m : Mesh) (ne : Nat) (p : Id × Id) (hp : p ∈ m.mergePairs ne) :
    (m.generateMesh ne false).mesh.joined p.1 p.2 = true := by
  obtain ⟨he, h2⟩ := mergePairs_mem m ne p hp
  rw [joined_iff]
  have hs : (p.1, p.2) ∈ m.rebuiltSegments ne := by
    simp only [rebuiltSegments, List.mem_flatten, List.mem_map]
    refine ⟨_, ⟨_, ⟨_, he, rfl⟩, rfl⟩, ?_⟩
    rw [pick_short ne _ (by simpa using h2)]
    simp
  obtain ⟨i, hi⟩ := mem_zip_range _ _ hs
  refine ⟨((i : Int), { id := (i : Int), v1 := p.1, v2 := p.2 }), ?_, Or.inl ⟨rfl, rfl⟩⟩
  rw [generateMesh_false_shape_edges]
  exact List.mem_map.mpr ⟨(i, (p.1, p.2)), hi, rfl⟩

/-- on a consistent input both ends of every collected pair are vertices of the resampled mesh -/
theorem mergePairs_vertices (m : Mesh) (ne : Nat) (h : m.Consistent = true) (p : Id × Id)
    (hp : p ∈ m.mergePairs ne) :
    ((m.generateMesh ne false).mesh.vertex? p.1).isSome = true ∧
    ((m.generateMesh ne false).mesh.vertex? p.2).isSome = true := by
  obtain ⟨q, hq, hh⟩ := (joined_iff _ _ _).mp (mergePairs_joined m ne p hp)
  have hR := (refsOk_iff _).mp (generateMesh_false_refsOk m ne h)
  obtain ⟨_, r1, r2⟩ := hR.1 q hq
  simp only [vertex?, alGet?_isSome_iff]
  rcases hh with ⟨y1, y2⟩ | ⟨y1, y2⟩
  · exact ⟨y1 ▸ r1, y2 ▸ r2⟩
  · exact ⟨y2 ▸ r2, y1 ▸ r1⟩

/-- the part of `mergePairsJoinable` that is not automatic: in the resampled mesh the two ends of every collected pair
    differ, carry no loop edge, and are consecutive in every cell (of three or more vertices) containing both -/
def Mesh.mergePairsProper (m : Mesh) (ne : Nat) : Bool :=
  (m.mergePairs ne).all fun p =>
    (p.1 != p.2) && !((m.generateMesh ne false).mesh.joined p.1 p.1) &&
      !((m.generateMesh ne false).mesh.joined p.2 p.2) && (m.generateMesh ne false).mesh.pairAdjacentInCells p.1 p.2

theorem mergePairsJoinable_of_proper (m : Mesh) (ne : Nat) (h : m.Consistent = true)
    (hp : m.mergePairsProper ne = true) : m.mergePairsJoinable ne = true := by
  simp only [mergePairsProper, mergePairsJoinable, List.all_eq_true, Bool.and_eq_true] at hp ⊢
  intro p hpm
  obtain ⟨⟨⟨h1, h2⟩, h3⟩, h4⟩ := hp p hpm
  obtain ⟨v1, v2⟩ := mergePairs_vertices m ne h p hpm
  simp only [joinable, Bool.and_eq_true]
  exact ⟨⟨⟨⟨⟨⟨h1, v1⟩, v2⟩, mergePairs_joined m ne p hpm⟩, h2⟩, h3⟩, h4⟩

/-- TARGET with the weaker hypothesis: only the non-automatic part of joinability is assumed -/
theorem generateMesh_true_consistent_of_proper (m : Mesh) (ne : Nat) (h : m.Consistent = true) (hne : 1 ≤ ne)
    (hanch : m.cellsAnchored ne = true) (hagree : m.picksAgree ne = true)
    (hdisj : m.mergePairsDisjoint ne = true) (hprop : m.mergePairsProper ne = true) :
    (m.generateMesh ne true).error = none ∧ (m.generateMesh ne true).mesh.Consistent = true :=
  generateMesh_true_consistent m ne h hne hanch hagree hdisj (mergePairsJoinable_of_proper m ne h hprop)

/-- without any pair to merge the flag changes nothing -/
theorem generateMesh_true_of_no_pairs (m : Mesh) (ne : Nat) (h : m.mergePairs ne = []) :
    m.generateMesh ne true = m.generateMesh ne false :=
  generateMesh_true_of_joinChain m ne _ [] (by rw [h]; rfl)

/-! ### non-vacuity: three cells in a row, the middle one a hexagon -/

/-- ```
    4 - 5 - 9 - 6 - 7
    |   |       |   |
    0 - 1 - 8 - 2 - 3
    ```
    junctions 1, 2, 5, 6; the two-point interfaces 1–5 and 2–6 separate the cells, each end lies in two cells -/
def threeCells : Mesh := ofLists
  [(0, 0, 0), (1, 1, 0), (2, 3, 0), (3, 4, 0), (4, 0, 1), (5, 1, 1), (6, 3, 1), (7, 4, 1), (8, 2, 0), (9, 2, 1)]
  [(0, 0, 1), (1, 1, 8), (2, 8, 2), (3, 2, 3), (4, 4, 5), (5, 5, 9), (6, 9, 6), (7, 6, 7), (8, 0, 4), (9, 1, 5),
   (10, 2, 6), (11, 3, 7)]
  [(0, [0, 1, 5, 4]), (1, [1, 8, 2, 6, 9, 5]), (2, [2, 3, 7, 6])]

/-- all hypotheses of `generateMesh_true_consistent` (and of the `_of_disjoint` form) hold for `threeCells` with
    `ne = 3` (nothing is removed by the resampling) and `ne = 2` (the outer corners 4 and 3 are removed first) -/
example : threeCells.Consistent = true ∧
    threeCells.bigEdgesList = [[1, 5], [5, 4, 0, 1], [1, 8, 2], [2, 6], [6, 9, 5], [2, 3, 7, 6]] ∧
    (threeCells.cells.all fun p => p.2.verts.any threeCells.isJunction) = true ∧
    threeCells.interfacesDisjoint = true ∧
    threeCells.cellsAnchored 3 = true ∧ threeCells.picksAgree 3 = true ∧
    threeCells.mergePairs 3 = [(1, 5), (2, 6)] ∧
    threeCells.mergePairsDisjoint 3 = true ∧ threeCells.mergePairsJoinable 3 = true ∧
    threeCells.cellsAnchored 2 = true ∧ threeCells.picksAgree 2 = true ∧
    threeCells.mergePairs 2 = [(1, 5), (2, 6)] ∧
    threeCells.mergePairsDisjoint 2 = true ∧ threeCells.mergePairsJoinable 2 = true ∧
    threeCells.mergePairsProper 3 = true ∧ threeCells.mergePairsProper 2 = true := by decide +kernel

example : (threeCells.generateMesh 3 true).error = none ∧ (threeCells.generateMesh 3 true).mesh.Consistent = true :=
  generateMesh_true_consistent threeCells 3 (by decide +kernel) (by decide) (by decide +kernel) (by decide +kernel)
    (by decide +kernel) (by decide +kernel)

example : (threeCells.generateMesh 2 true).error = none ∧ (threeCells.generateMesh 2 true).mesh.Consistent = true :=
  generateMesh_true_consistent_of_disjoint threeCells 2 (by decide +kernel) (by decide) (by decide +kernel)
    (by decide +kernel) (by decide +kernel) (by decide +kernel)

/-- what the merges do: 1, 5 become the new vertex 10 at their midpoint, then 2, 6 become 11 -/
example : ((threeCells.generateMesh 3 true).mesh.cells.map fun p => (p.1, p.2.verts)) =
      [(0, [0, 10, 4]), (1, [10, 8, 11, 9]), (2, [11, 3, 7])] ∧
    (threeCells.generateMesh 3 true).mesh.vertices.map (·.1) = [0, 3, 4, 7, 8, 9, 10, 11] ∧
    (threeCells.generateMesh 3 true).mesh.pt 10 = ⟨1, 1/2⟩ ∧ (threeCells.generateMesh 3 true).mesh.pt 11 = ⟨3, 1/2⟩ ∧
    ((threeCells.generateMesh 2 true).mesh.cells.map fun p => (p.1, p.2.verts)) =
      [(0, [0, 10]), (1, [10, 8, 11, 9]), (2, [11, 7])] := by decide +kernel

/-- the hypotheses of the key lemma and of the two-pair corollary on the resampled mesh -/
example : (threeCells.generateMesh 3 false).mesh.Consistent = true ∧
    (threeCells.generateMesh 3 false).mesh.joinable 1 5 = true ∧
    (threeCells.generateMesh 3 false).mesh.joinable 2 6 = true ∧ pairDisjoint (1, 5) (2, 6) = true ∧
    joinOutcome (joinChain (threeCells.generateMesh 3 false).mesh [(1, 5), (2, 6)]) = some true := by decide +kernel

/-! ### necessity of `mergePairsDisjoint` (finding D17 at the level of the whole function) -/

/-- three quadrilaterals in a row: the two-point interfaces 1–5, 1–2, 2–6, 6–5 form a closed chain around the middle cell -/
def rowOfThree : Mesh := ofLists
  [(0, 0, 0), (1, 1, 0), (2, 3, 0), (3, 4, 0), (4, 0, 1), (5, 1, 1), (6, 3, 1), (7, 4, 1)]
  [(0, 0, 1), (1, 1, 2), (3, 2, 3), (4, 4, 5), (5, 5, 6), (7, 6, 7), (8, 0, 4), (9, 1, 5), (10, 2, 6), (11, 3, 7)]
  [(0, [0, 1, 5, 4]), (1, [1, 2, 6, 5]), (2, [2, 3, 7, 6])]

/-- NECESSARY: `mergePairsDisjoint`.  All other hypotheses of `generateMesh_true_consistent` hold for `rowOfThree` with
    `ne = 3` — in particular every collected pair is joinable in the resampled mesh — but the four collected pairs share
    vertices; the loop raises nothing and returns a mesh whose middle cell is the one-vertex cycle [5], with a reference
    to a deleted vertex: the clauses `refs` and `cyclesJoined` fail -/
theorem generateMesh_true_chain_witness :
    rowOfThree.Consistent = true ∧ rowOfThree.cellsAnchored 3 = true ∧ rowOfThree.picksAgree 3 = true ∧
    rowOfThree.mergePairs 3 = [(1, 5), (1, 2), (2, 6), (6, 5)] ∧
    rowOfThree.mergePairsJoinable 3 = true ∧ rowOfThree.mergePairsDisjoint 3 = false ∧
    (rowOfThree.generateMesh 3 true).error = none ∧
    (rowOfThree.generateMesh 3 true).mesh.Consistent = false ∧
    (rowOfThree.generateMesh 3 true).mesh.failing = ["refs", "cyclesJoined"] ∧
    ((rowOfThree.generateMesh 3 true).mesh.cells.map fun p => (p.1, p.2.verts)) =
      [(0, [0, 5, 4]), (1, [5]), (2, [5, 3, 7])] := by decide +kernel

/-- a triangle [0, 1, 2] whose side 0–1 is a diagonal of the quadrilateral cell [0, 3, 1, 4] (overlapping cells) -/
def kite : Mesh := ofLists [(0, 0, 0), (1, 2, 0), (2, 1, 1), (3, 1, 2), (4, 1, -1)]
  [(0, 0, 1), (1, 1, 2), (2, 2, 0), (3, 0, 3), (4, 3, 1), (5, 1, 4), (6, 4, 0)]
  [(0, [0, 1, 2]), (1, [0, 3, 1, 4])]

/-- NECESSARY: `mergePairsJoinable` (its non-automatic part `mergePairsProper`).  All other hypotheses hold for `kite` with
    `ne = 3`; the only collected pair (0, 1) is joined by a mesh edge but is not consecutive in the cell [0, 3, 1, 4], which
    becomes [5, 3, 4] with the unjoined pair (3, 4): the clause `cyclesJoined` fails -/
theorem generateMesh_true_joinable_witness :
    kite.Consistent = true ∧ kite.cellsAnchored 3 = true ∧ kite.picksAgree 3 = true ∧
    kite.mergePairs 3 = [(0, 1)] ∧ kite.mergePairsDisjoint 3 = true ∧
    kite.mergePairsJoinable 3 = false ∧ kite.mergePairsProper 3 = false ∧
    (kite.generateMesh 3 false).mesh.pairAdjacentInCells 0 1 = false ∧
    (kite.generateMesh 3 true).error = none ∧
    (kite.generateMesh 3 true).mesh.Consistent = false ∧
    (kite.generateMesh 3 true).mesh.failing = ["cyclesJoined"] ∧
    ((kite.generateMesh 3 true).mesh.cells.map fun p => (p.1, p.2.verts)) = [(0, [5, 2]), (1, [5, 3, 4])] := by
  decide +kernel

/- PENDING (no theorem):
   * chains of merges (two collected two-point interfaces sharing an end): no preservation theorem — joinability is not
     inherited (`joinTwoVertices_chain_witness`), the mapper can go stale (`joinTwoVertices_staleMapper_witness`), and
     `generateMesh_true_chain_witness` shows the whole function returning an inconsistent mesh (finding D17).  A theorem
     would need a precondition stated on the mesh after the earlier merges (e.g. `joinable` of the RESOLVED pair at each
     step, as in `joinTwoVertices_consistent`), which is not a condition on the input.
   * deriving `mergePairsProper` (ends differ, no loop edge at an end, consecutive in every resampled cell of three or more
     vertices containing both) from conditions on the INPUT mesh: not done.  It fails on overlapping cells
     (`generateMesh_true_joinable_witness`), one-vertex cells and two-vertex cells; `mergePairs_joined` /
     `mergePairs_vertices` give the other three clauses of `joinable` for free.
   * `mergePairsDisjoint` from conditions on the input (e.g. "no vertex with three or more mesh edges is an end of two
     two-point interfaces"): it is already a condition on the input alone (`mergePairs` reads only `m` and `ne`); no simpler
     characterisation is proved.
   * the exact shape (vertex ids, cycles, coordinates of the midpoints) of the result of the whole loop: only consistency
     and `error = none` are proved; `joinTwoVertices_shape` gives the shape of one step.
-/

end Forsys
