/-
  Property C13 — velocities are finite differences of tracked vertices over real elapsed time.
  Model: ForsysModel/Model/TimeSeries.lean (calculate_velocity, get_point_id_by_map) and
  ForsysModel/Model/FMatrix.lean (`placeVelocities` = row placement of set_velocity_matrix).
-/
import ForsysModel.Model.TimeSeries
import ForsysModel.Model.FMatrix
import ForsysModel.Proofs.C13

namespace Forsys

/-- forward difference: at a frame that is not the last, a vertex whose tracked successor `q` exists in the next
    frame has velocity (position of q − own position) / (t₁ − t₀) -/
theorem velocity_forward (frames : List TFrame) (maps : List (Option StepMap)) (t : Nat) (p q : Id)
    (f0 f1 : TFrame) (m : StepMap) (p0 p1 : Pt)
    (ht : t + 1 < frames.length) (hf0 : frames[t]? = some f0) (hf1 : frames[t + 1]? = some f1)
    (hm : maps.getD t none = some m) (hpq : m.get? p = some (some q))
    (hp0 : f0.pos? p = some p0) (hp1 : f1.pos? q = some p1) :
    calculateVelocity frames maps p t =
      .ok ⟨(p1.x - p0.x) / (f1.time - f0.time), (p1.y - p0.y) / (f1.time - f0.time)⟩ := by
  have hne : t ≠ frames.length - 1 := by omega
  rw [List.getD_eq_getElem?_getD] at hm
  have hw : getPointIdByMap maps p t (t + 1) = .ok (some q) := by
    simp [getPointIdByMap, walkForward, hm, hpq]
  simp [calculateVelocity, hf0, hp0, hne, hm, hf1, hw, hp1]

/-- backward difference at the last frame: with `q` the vertex of the previous frame that is mapped to `p`,
    the velocity is (own position − position of q) / (t_last − t_prev) -/
theorem velocity_backward (frames : List TFrame) (maps : List (Option StepMap)) (t : Nat) (p q : Id)
    (f0 f1 : TFrame) (m : StepMap) (p0 p1 : Pt)
    (ht : t + 2 = frames.length) (hf1 : frames[t]? = some f1) (hf0 : frames[t + 1]? = some f0)
    (hm : maps.getD t none = some m) (hk : (m.map (·.1)).Nodup) (hinj : (m.values.filterMap id).Nodup)
    (hqp : m.get? q = some (some p))
    (hp0 : f0.pos? p = some p0) (hp1 : f1.pos? q = some p1) (hdt : f0.time ≠ f1.time) :
    calculateVelocity frames maps p (t + 1) =
      .ok ⟨(p0.x - p1.x) / (f0.time - f1.time), (p0.y - p1.y) / (f0.time - f1.time)⟩ := by
  have _ := hk
  have _ := hdt
  have hlast : t + 1 = frames.length - 1 := by omega
  rw [List.getD_eq_getElem?_getD] at hm
  have hw : getPointIdByMap maps p (t + 1) t = .ok (some q) := by
    simp [getPointIdByMap, walkBackward, hm, C13.lookupOpt_invertMap_of_get m p q hinj hqp]
  simp only [calculateVelocity, hf0, hp0, ← hlast, if_true, Nat.add_sub_cancel,
    List.getD_eq_getElem?_getD, hm, hf1, hw, hp1]
  simp [C13.rat_div_swap p1.x p0.x, C13.rat_div_swap p1.y p0.y]

/-- a vertex with no tracked partner (mapped to None, or absent from the map) gets velocity zero -/
theorem velocity_untracked_none (frames : List TFrame) (maps : List (Option StepMap)) (t : Nat) (p : Id)
    (f0 f1 : TFrame) (m : StepMap) (p0 : Pt)
    (ht : t + 1 < frames.length) (hf0 : frames[t]? = some f0) (hf1 : frames[t + 1]? = some f1)
    (hm : maps.getD t none = some m) (hp : m.get? p = some none ∨ m.get? p = none)
    (hp0 : f0.pos? p = some p0) :
    calculateVelocity frames maps p t = .ok ⟨0, 0⟩ := by
  have hne : t ≠ frames.length - 1 := by omega
  rw [List.getD_eq_getElem?_getD] at hm
  rcases hp with hp | hp
  · have hw : getPointIdByMap maps p t (t + 1) = .ok none := by
      simp [getPointIdByMap, walkForward, hm, hp]
    simp [calculateVelocity, hf0, hp0, hne, hm, hf1, hw]
  · have hw : getPointIdByMap maps p t (t + 1) = .error .keyError := by
      simp [getPointIdByMap, walkForward, hm, hp]
    simp [calculateVelocity, hf0, hp0, hne, hm, hf1, hw]

/-- a step without correspondence (tissues too different) makes the velocity undefined (exception), never a number -/
theorem velocity_no_map (frames : List TFrame) (maps : List (Option StepMap)) (t : Nat) (p : Id)
    (f0 : TFrame) (p0 : Pt)
    (ht : t + 1 < frames.length) (hf0 : frames[t]? = some f0) (hp0 : f0.pos? p = some p0)
    (hm : maps.getD t none = none) :
    calculateVelocity frames maps p t = .differentTissue := by
  have hne : t ≠ frames.length - 1 := by omega
  rw [List.getD_eq_getElem?_getD] at hm
  simp [calculateVelocity, hf0, hp0, hne, hm]

/-! ### right-hand side of the dynamic system -/

theorem placeVelocities_length (nrows : Nat) (rows : List (Nat × Vec)) :
    (placeVelocities nrows rows).length = nrows := by
  rw [C13.placeVelocities_eq, C13.pvFold_len, List.length_replicate]

/-- each used junction's velocity components are the right-hand sides of that junction's own x- and y-equation;
    every other entry is zero (`rows` = (row of the junction, its velocity), rows even, distinct, in range) -/
theorem placeVelocities_spec (nrows : Nat) (rows : List (Nat × Vec))
    (hd : (rows.map (·.1)).Nodup) (hev : ∀ r ∈ rows, r.1 % 2 = 0 ∧ r.1 + 1 < nrows) (j : Nat) (v : Vec)
    (hj : (j, v) ∈ rows) :
    (placeVelocities nrows rows)[j]? = some v.x ∧ (placeVelocities nrows rows)[j + 1]? = some v.y := by
  rw [C13.placeVelocities_eq]
  exact C13.pvFold_spec rows _ hd (by simpa using hev) j v hj

theorem placeVelocities_zero_elsewhere (nrows : Nat) (rows : List (Nat × Vec)) (i : Nat) (hi : i < nrows)
    (h : ∀ r ∈ rows, r.1 ≠ i ∧ r.1 + 1 ≠ i) :
    (placeVelocities nrows rows)[i]? = some 0 := by
  rw [C13.placeVelocities_eq, C13.pvFold_untouched rows _ i (by simpa using hi) h]
  simp [hi]

/-- static mode: no junction contributes, the right-hand side is zero -/
theorem placeVelocities_static (nrows : Nat) : placeVelocities nrows [] = List.replicate nrows 0 := by
  rfl

/-! ### adimensional velocities: the scaling step (clause "with adimensional velocities they are divided by the mean
    junction speed of the frame").  The code computes `b' = b / average_velocity * velocity_normalization` on the
    assembled right-hand side; the theorems below say that this is the same as placing the scaled velocities.
    The mean speed itself (a mean of square roots) is not modelled and stays with the per-run oracle. -/

/-- C13, adimensional clause, general form: applying to every entry of the right-hand side a function that fixes 0
    is the same as placing the velocities with that function applied to both components — for every number of rows,
    every placement list (no hypothesis on the row numbers) and every such function -/
theorem placeVelocities_map (f : Rat → Rat) (hf : f 0 = 0) (nrows : Nat) (rows : List (Nat × Vec)) :
    placeVelocities nrows (rows.map fun p => (p.1, (⟨f p.2.x, f p.2.y⟩ : Vec))) = (placeVelocities nrows rows).map f :=
  C13.placeVelocities_map f hf nrows rows

/-- C13, adimensional clause: multiplying the right-hand side by a factor `c` is the same as placing the velocities
    `c • v` (`Vec.smul`), for every `c` -/
theorem placeVelocities_smul (nrows : Nat) (rows : List (Nat × Vec)) (c : Rat) :
    placeVelocities nrows (rows.map fun p => (p.1, Vec.smul c p.2)) = (placeVelocities nrows rows).map (c * ·) :=
  C13.placeVelocities_map (c * ·) (Rat.mul_zero c) nrows rows

/-- C13, adimensional clause, literally the code's `b / average_velocity * velocity_normalization`: the scaled
    right-hand side is the placement of the velocities `v / m * k` (componentwise), `m` = mean junction speed,
    `k` = normalisation.  No hypothesis `m ≠ 0` is needed: both sides apply the same function `x ↦ x / m * k`, so the
    statement also holds under Lean's `x / 0 = 0`; the real code raises on `m = 0` (a frame at rest), which is outside
    the property. -/
theorem placeVelocities_div_mul (nrows : Nat) (rows : List (Nat × Vec)) (m k : Rat) :
    placeVelocities nrows (rows.map fun p => (p.1, (⟨p.2.x / m * k, p.2.y / m * k⟩ : Vec)))
      = (placeVelocities nrows rows).map (fun b => b / m * k) :=
  C13.placeVelocities_map (fun b => b / m * k) (by simp) nrows rows

/-- the scaling on a concrete right-hand side: velocity (3, 4), mean speed 5, normalisation 2 -/
example : placeVelocities 4 ([(2, (⟨3, 4⟩ : Vec))].map fun p => (p.1, (⟨p.2.x / 5 * 2, p.2.y / 5 * 2⟩ : Vec)))
    = [0, 0, 6 / 5, 8 / 5] := by decide +kernel
example : (placeVelocities 4 [(2, (⟨3, 4⟩ : Vec))]).map (fun b => b / 5 * 2) = [0, 0, 6 / 5, 8 / 5] := by decide +kernel
/-- the hypothesis of `placeVelocities_map` is satisfiable by a non-trivial function -/
example : (fun b : Rat => b / 5 * 2) 0 = 0 ∧ (fun b : Rat => b / 5 * 2) 3 = 6 / 5 := by decide +kernel

/-! non-vacuity -/
example : placeVelocities 4 [(2, ⟨3, 4⟩)] = [0, 0, 3, 4] := by decide +kernel

/-- the hypotheses of `placeVelocities_spec` are satisfiable (two junctions, rows 0 and 2 of 4) -/
example : ∃ (nrows : Nat) (rows : List (Nat × Vec)) (j : Nat) (v : Vec),
    (rows.map (·.1)).Nodup ∧ (∀ r ∈ rows, r.1 % 2 = 0 ∧ r.1 + 1 < nrows) ∧ (j, v) ∈ rows :=
  ⟨4, [(0, ⟨1, 2⟩), (2, ⟨3, 4⟩)], 2, ⟨3, 4⟩, by decide, by simp, by simp⟩

/-- the hypotheses of `velocity_forward` are satisfiable: two frames, vertex 1 tracked to vertex 5 -/
example : calculateVelocity [⟨0, [⟨1, ⟨0, 0⟩⟩]⟩, ⟨2, [⟨5, ⟨4, 6⟩⟩]⟩] [some [(1, some 5)]] 1 0
    = .ok ⟨(4 - 0) / (2 - 0), (6 - 0) / (2 - 0)⟩ :=
  velocity_forward _ _ 0 1 5 ⟨0, [⟨1, ⟨0, 0⟩⟩]⟩ ⟨2, [⟨5, ⟨4, 6⟩⟩]⟩ [(1, some 5)] ⟨0, 0⟩ ⟨4, 6⟩
    (by decide) rfl rfl rfl (by decide +kernel) (by decide +kernel) (by decide +kernel)

/-- the hypotheses of `velocity_backward` are satisfiable: same data seen from the last frame -/
example : calculateVelocity [⟨0, [⟨1, ⟨0, 0⟩⟩]⟩, ⟨2, [⟨5, ⟨4, 6⟩⟩]⟩] [some [(1, some 5)]] 5 1
    = .ok ⟨(4 - 0) / (2 - 0), (6 - 0) / (2 - 0)⟩ :=
  velocity_backward _ _ 0 5 1 ⟨2, [⟨5, ⟨4, 6⟩⟩]⟩ ⟨0, [⟨1, ⟨0, 0⟩⟩]⟩ [(1, some 5)] ⟨4, 6⟩ ⟨0, 0⟩
    (by decide) rfl rfl rfl (by decide) (by decide) (by decide +kernel) (by decide +kernel) (by decide +kernel)
    (by decide +kernel)

end Forsys
