/-
  Property C11 — mesh resampling keeps junctions, topology and interface shape.
  Model: ForsysModel/Model/Resample.lean (`pick` = the per-interface rule of generate_mesh,
  `Mesh.generateMesh` = the whole function).
-/
import ForsysModel.Model.Resample
import ForsysModel.Proofs.C11

namespace Forsys

variable {α β : Type}

/-! ### the per-interface rule -/

/-- interfaces with at most `ne` points are unchanged -/
theorem pick_short (ne : Nat) (e : List α) (h : e.length ≤ ne) : pick ne e = e := by
  simp [pick]; omega

/-- longer interfaces get exactly `ne + 1` points -/
theorem pick_length_long (ne : Nat) (e : List α) (h : ne < e.length) : (pick ne e).length = ne + 1 := by
  rw [pick_long ne e h, List.length_append, length_filterMap_getElem? e (fun i => e.length * i / ne)]
  · have : e ≠ [] := by intro h0; simp [h0] at h
    obtain ⟨x, hx⟩ : ∃ x, e.getLast? = some x := ⟨e.getLast this, List.getLast?_eq_some_getLast this⟩
    simp [hx]
  · intro i hi
    have := idx_lt h (List.mem_range.1 hi)
    omega

/-- at most `ne + 1` points in every case -/
theorem pick_length_le (ne : Nat) (e : List α) : (pick ne e).length ≤ ne + 1 := by
  by_cases h : ne < e.length
  · rw [pick_length_long ne e h]; omega
  · rw [pick_short ne e (by omega)]; omega

/-- the i-th kept point is the original point number `⌊len·i/ne⌋` -/
theorem pick_getElem (ne : Nat) (e : List α) (h : ne < e.length) (i : Nat) (hi : i < ne) :
    (pick ne e)[i]? = e[(e.length * i) / ne]? := by
  have hlen := length_filterMap_getElem? e (fun i => e.length * i / ne) (List.range ne)
    (fun i hi => by have := idx_lt h (List.mem_range.1 hi); omega)
  rw [pick_long ne e h, List.getElem?_append_left (by simpa [hlen] using hi),
    getElem?_filterMap_getElem? e (fun i => e.length * i / ne)]
  · simp [hi]
  · intro i hi
    have := idx_lt h (List.mem_range.1 hi)
    omega

/-- the resampled interface is an ordered subsequence of the original points -/
theorem pick_sublist (ne : Nat) (e : List α) : (pick ne e).Sublist e := by
  by_cases h : ne < e.length
  · have : pick ne e = (((List.range ne).map fun i => e.length * i / ne) ++ [e.length - 1]).filterMap (e[·]?) := by
      rw [pick_long ne e h, List.filterMap_append, List.filterMap_map]
      congr 1
      rw [List.getLast?_eq_getElem?]
      cases h' : e[e.length - 1]? <;> simp [h']
    rw [this]
    apply filterMap_getElem?_sublist
    by_cases hne : ne = 0
    · subst hne; simp
    rw [List.pairwise_append]
    refine ⟨?_, by simp, ?_⟩
    · rw [List.pairwise_map]
      exact List.Pairwise.imp (fun hab => idx_mono hne h hab) List.pairwise_lt_range
    · intro a ha b hb
      simp at ha hb
      obtain ⟨i, hi, rfl⟩ := ha
      subst hb
      exact idx_lt h hi
  · rw [pick_short ne e (by omega)]
    exact List.Sublist.refl e

/-- both ends are retained -/
theorem pick_head (ne : Nat) (hne : 0 < ne) (e : List α) : (pick ne e).head? = e.head? := by
  by_cases h : ne < e.length
  · rw [List.head?_eq_getElem?, List.head?_eq_getElem?, pick_getElem ne e h 0 hne]
    simp
  · rw [pick_short ne e (by omega)]

theorem pick_getLast (ne : Nat) (e : List α) : (pick ne e).getLast? = e.getLast? := by
  by_cases h : ne < e.length
  · rw [pick_long ne e h]
    have : e ≠ [] := by intro h0; simp [h0] at h
    obtain ⟨x, hx⟩ : ∃ x, e.getLast? = some x := ⟨e.getLast this, List.getLast?_eq_some_getLast this⟩
    simp [hx]
  · rw [pick_short ne e (by omega)]

/-- resampling an already resampled interface changes nothing -/
theorem pick_idempotent (ne : Nat) (hne : 0 < ne) (e : List α) : pick ne (pick ne e) = pick ne e := by
  have _ := hne
  by_cases h : ne < e.length
  · have hl := pick_length_long ne e h
    rw [pick_long ne (pick ne e) (by omega), pick_getLast, hl]
    conv => rhs; rw [pick_long ne e h]
    congr 1
    apply filterMap_congr'
    intro i hi
    have hi := List.mem_range.1 hi
    rw [idx_self hi, pick_getElem ne e h i hi]
  · simp only [pick_short ne e (by omega)]

/-- no point is duplicated -/
theorem pick_nodup (ne : Nat) (e : List α) (h : e.Nodup) : (pick ne e).Nodup :=
  (pick_sublist ne e).nodup h

/-- the rule only looks at positions: it commutes with any relabelling / coordinate map -/
theorem pick_map (ne : Nat) (f : α → β) (e : List α) : pick ne (e.map f) = (pick ne e).map f := by
  by_cases h : ne < e.length
  · rw [pick_long ne (e.map f) (by simpa using h), pick_long ne e h]
    simp [List.map_filterMap, List.getLast?_map]
    cases e.getLast? <;> rfl
  · rw [pick_short ne e (by omega), pick_short ne _ (by simp; omega)]

/-! ### the whole function (without the merging of two-point border interfaces) -/

/-- the interfaces reported by `generate_mesh` are the original interfaces, each resampled by `pick` -/
theorem generateMesh_nEdgeArray (m : Mesh) (ne : Nat) (r : Bool) :
    (m.generateMesh ne r).nEdgeArray = m.bigEdgesList.map (pick ne) := by
  unfold Mesh.generateMesh
  cases r
  · rfl
  · exact Mesh.go_nEdgeArray _ _ _ _

/-- the surviving vertices are exactly the original vertices that occur in a resampled interface,
    in their original order, with unchanged id and coordinates (in particular every interface end,
    hence every junction, stays at its exact position) -/
theorem generateMesh_vertices (m : Mesh) (ne : Nat) :
    (m.generateMesh ne false).mesh.vertices.map (fun p => (p.1, p.2.id, p.2.x, p.2.y))
      = (m.vertices.filter fun p => ((m.bigEdgesList.map (pick ne)).flatten).contains p.1).map
          (fun p => (p.1, p.2.id, p.2.x, p.2.y)) := by
  unfold Mesh.generateMesh
  simp only [Bool.false_eq_true, if_false]
  change Mesh.vproj (List.foldl _ _ _) = _
  rw [foldl_inv Mesh.vproj _ (fun s b => Mesh.vproj_mkEdge _ _ _ _)]
  simp only [Mesh.vproj, Mesh.map_proj_filter]
  congr 1
  change Mesh.vproj (List.foldl _ _ _) = Mesh.vproj m
  rw [foldl_inv Mesh.vproj _ (fun s b => Mesh.vproj_delEdge _ _)]
  have h1 := foldl_inv (fun m : Mesh => m.vertices)
    (fun (m : Mesh) (p : Id × Vertex) => p.2.ownCells.foldl (fun m c => m.updCell c fun cl => { cl with verts := cl.verts.erase p.1 }) m)
    (fun s b => foldl_inv (fun m : Mesh => m.vertices) _ (fun s c => Mesh.vertices_updCell _ _ _) _ _)
  simp only [Mesh.vproj, h1]

/-- every interface end survives -/
theorem generateMesh_keeps_ends (m : Mesh) (ne : Nat) (hne : 0 < ne) (e : List Id) (he : e ∈ m.bigEdgesList)
    (v : Id) (hv : e.head? = some v ∨ e.getLast? = some v) :
    v ∈ ((m.bigEdgesList.map (pick ne)).flatten) := by
  rw [List.mem_flatten]
  refine ⟨pick ne e, List.mem_map.2 ⟨e, he, rfl⟩, ?_⟩
  rcases hv with hv | hv
  · exact List.mem_of_head? (by rw [pick_head ne hne, hv])
  · exact List.mem_of_getLast? (by rw [pick_getLast, hv])

/-- every cell's vertex cycle after resampling is a subsequence of its original cycle, cells keep their
    ids and order, and only cells left without any vertex are dropped -/
theorem generateMesh_cells_sublist (m : Mesh) (ne : Nat) (hk : Mesh.keysNodup m.cells = true) :
    ∀ p ∈ (m.generateMesh ne false).mesh.cells, ∃ q ∈ m.cells, p.1 = q.1 ∧ p.2.id = q.2.id ∧
      p.2.verts.Sublist q.2.verts := by
  have _ := hk
  unfold Mesh.generateMesh
  simp only [Bool.false_eq_true, if_false]
  intro p hp
  replace hp := (List.mem_filter.1 hp).1
  rw [foldl_inv (fun m : Mesh => m.cells) _ (fun s b => Mesh.cells_mkEdge _ _ _ _)] at hp
  change p ∈ Mesh.cells (List.foldl _ _ _) at hp
  rw [foldl_inv (fun m : Mesh => m.cells) _ (fun s b => Mesh.cells_delEdge _ _)] at hp
  revert p
  change Mesh.CellsLe _ m
  apply foldl_rel Mesh.CellsLe Mesh.CellsLe.refl Mesh.CellsLe.trans
  intro s b
  apply foldl_rel Mesh.CellsLe Mesh.CellsLe.refl Mesh.CellsLe.trans
  intro s c
  exact Mesh.CellsLe.updCell_erase _ _ _

/-! non-vacuity -/
example : pick 3 [1, 2, 3, 4, 5, 6, 7, 8] = [1, 3, 6, 8] := by decide
example : pick 3 (pick 3 [1, 2, 3, 4, 5, 6, 7, 8]) = [1, 3, 6, 8] := by decide

/-- a hexagonal cell with two junctions (vertices 0 and 3): the hypotheses of `generateMesh_keeps_ends`
    and `generateMesh_cells_sublist` are satisfiable, and resampling with `ne = 2` really drops vertices -/
def exMeshC11 : Mesh :=
  let mkV (i : Int) (oe oc : List Int) : Id × Vertex :=
    (i, { id := i, x := (i : Rat), y := 0, ownEdges := oe, ownCells := oc })
  { vertices := [mkV 0 [0, 5, 6] [0], mkV 1 [0, 1] [0], mkV 2 [1, 2] [0], mkV 3 [2, 3, 7] [0],
                 mkV 4 [3, 4] [0], mkV 5 [4, 5] [0]],
    edges := [(0, {id := 0, v1 := 0, v2 := 1}), (1, {id := 1, v1 := 1, v2 := 2}), (2, {id := 2, v1 := 2, v2 := 3}),
              (3, {id := 3, v1 := 3, v2 := 4}), (4, {id := 4, v1 := 4, v2 := 5}), (5, {id := 5, v1 := 5, v2 := 0})],
    cells := [(0, {id := 0, verts := [0, 1, 2, 3, 4, 5]})] }

example : [0, 1, 2, 3] ∈ exMeshC11.bigEdgesList ∧ ([0, 1, 2, 3] : List Id).head? = some 0 ∧
    Mesh.keysNodup exMeshC11.cells = true := by decide
example : (exMeshC11.generateMesh 2 false).nEdgeArray = [[0, 2, 3], [3, 5, 0]] := by decide +kernel
example : (exMeshC11.generateMesh 2 false).mesh.cells.map (fun p => (p.1, p.2.verts)) = [(0, [0, 2, 3, 5])] := by
  decide +kernel

end Forsys
