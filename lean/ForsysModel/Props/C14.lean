/-
  Property C14 — Surface Evolver dumps are parsed faithfully.
  Model: ForsysModel/Model/SEParser.lean (token level; Python's split/startswith/int/float/re are the trusted
  tokeniser).  Theorems, for all inputs:
    faces_roundtrip      every list of faces, wrapped over lines in every way, is parsed back
    sections_roundtrip   the relative-index arithmetic of calculate_first_last returns exactly the four record lists
                         of a dump laid out like the shipped ones (one blank line before each marker)
    edge_fields_*        density iff the 4th token is `density`, else 1 — also on a bare `id v1 v2` line (D14)
    cycle_*              the cell cycle is the list of tail vertices of the signed edges, and follows a closed loop
    orphans_*            no vertex without a cell survives; survivors keep their cells; no edge at a removed vertex survives
    faceless_edges_dropped / referenced_edges_kept   exactly the edges referenced by a face survive (repair of D23)
    se_consistent        the parsed mesh is consistent (through C09)
    gt_mean*             an interface's reference is the mean of its mesh edges' references
    roundHalfEven_* / roundDec_*   round(x, n) is a nearest n-place decimal (ties to even) and is idempotent
-/
import ForsysModel.Model.SEParser
import ForsysModel.Proofs.C14
import ForsysModel.Props.C09

namespace Forsys
open SE Mesh

/-! ### faces -/

/-- for every list of faces `(id, signed edge loop, chunk lengths)`: parsing the printed token lines returns the ids
    and the loops, in order, with the automaton back in its initial state -/
theorem faces_roundtrip (fs : List (Int × List Int × List Nat)) :
    parseFaces (printFaces fs)
      = .ok { ids := fs.map (fun f => Tok.ofInt f.1), edges := fs.map (·.2.1), cur := [], first := true } := by
  have := fold_printFaces fs [] []
  simpa [parseFaces] using this

/-- a face of three edges on one line, on two lines, and with a closing line that carries only the comment -/
example : parseFaces (printFaces [(7, [1, -2, 3], []), (9, [4, 5, -6], [2]), (2, [-1, 8, 3], [1, 2])])
    = .ok { ids := [Tok.ofInt 7, Tok.ofInt 9, Tok.ofInt 2], edges := [[1, -2, 3], [4, 5, -6], [-1, 8, 3]], cur := [], first := true } :=
  faces_roundtrip _

/-! ### sections -/

/-- a dump laid out like the shipped ones (arbitrary header without marker lines, marker line, records, one blank line,
    …, `read`, arbitrary trailer): the four index pairs are found and delimit exactly the record lines -/
theorem sections_roundtrip (mt : Marker → List Tok) (header vs es fs bs : List (List Tok)) (trailer : List Line) :
    ∃ idx, indices (layout mt header vs es fs bs trailer) = .ok idx ∧
      sectionToks idx.v (layout mt header vs es fs bs trailer) = vs ∧
      sectionToks idx.e (layout mt header vs es fs bs trailer) = es ∧
      sectionToks idx.f (layout mt header vs es fs bs trailer) = fs ∧
      sectionToks idx.p (layout mt header vs es fs bs trailer) = bs := by
  refine ⟨_, sections_layout mt header vs es fs bs trailer, ?_, ?_, ?_, ?_⟩
  · exact sectionToks_sec .vertices (plain header) _ vs _
  · show sectionToks _ (layout mt header vs es fs bs trailer) = es
    unfold layout
    rw [← List.append_assoc (plain header)]
    exact sectionToks_sec .edges _ _ es _
  · show sectionToks _ (layout mt header vs es fs bs trailer) = fs
    unfold layout
    rw [← List.append_assoc (plain header), ← List.append_assoc (plain header ++ _)]
    exact sectionToks_sec .faces _ _ fs _
  · show sectionToks _ (layout mt header vs es fs bs trailer) = bs
    unfold layout
    rw [← List.append_assoc (plain header), ← List.append_assoc (plain header ++ _),
      ← List.append_assoc (plain header ++ _ ++ _)]
    exact sectionToks_sec .bodies _ _ bs _

/-- the blank line is part of the layout: without it the arithmetic silently drops the last record of the section
    (`fin = index of the next marker − 1`).  Two vertex records directly followed by the `edges` marker: -/
theorem sections_no_blank_witness :
    (do let idx ← firstLast .vertices .edges
          [{ mark := some .vertices }, { toks := [Tok.ofInt 1] }, { toks := [Tok.ofInt 2] }, { mark := some .edges }]
        pure (sectionToks idx [{ mark := some .vertices }, { toks := [Tok.ofInt 1] }, { toks := [Tok.ofInt 2] },
          { mark := some .edges }]) : R _) = .ok [[Tok.ofInt 1]] := by
  rfl

/-! ### per-line fields -/

theorem edge_fields_bare (i a b : Int) :
    edgeLine [Tok.ofInt i, Tok.ofInt a, Tok.ofInt b] = .ok { id := (i.natAbs : Int), v1 := a, v2 := b, force := 1 } := rfl

theorem edge_fields_density (i a b : Int) (q : Rat) (d : Option Nat) (rest : List Tok) :
    edgeLine (Tok.ofInt i :: Tok.ofInt a :: Tok.ofInt b :: Tok.dens :: Tok.dec q d :: rest)
      = .ok { id := (i.natAbs : Int), v1 := a, v2 := b, force := q } := by
  simp [edgeLine, lineId, tokAt, tokInt, tokNum, Tok.ofInt, Tok.dens, Tok.dec]
  rfl

theorem edge_fields_other (i a b : Int) (t : Tok) (rest : List Tok) (h : t.density = false) :
    edgeLine (Tok.ofInt i :: Tok.ofInt a :: Tok.ofInt b :: t :: rest)
      = .ok { id := (i.natAbs : Int), v1 := a, v2 := b, force := 1 } := by
  simp [edgeLine, lineId, tokAt, tokInt, Tok.ofInt, h]
  rfl

theorem edge_fields_pinned_witness :
    edgeLinePinned [Tok.ofInt 3, Tok.ofInt 3, Tok.ofInt 4] = .error .indexError := rfl

theorem edge_fields_repair_conservative (t : List Tok) (h : t.length > 4) : edgeLine t = edgeLinePinned t := by
  match t, h with
  | a :: b :: c :: d :: e :: rest, _ =>
    cases hd : d.density <;> simp [edgeLine, edgeLinePinned, tokAt, hd]

theorem vertex_fields (i : Int) (x y : Rat) (dx dy : Option Nat) (rest : List Tok) :
    vertexLine (Tok.ofInt i :: Tok.dec x dx :: Tok.dec y dy :: rest) = .ok ((i.natAbs : Int), roundDec x 3, roundDec y 3) := by
  simp [vertexLine, lineId, tokAt, tokNum, Tok.ofInt, Tok.dec]
  rfl

theorem body_fields (b f v : Int) (q : Rat) (d : Option Nat) (rest : List Tok) :
    pressureLine (Tok.ofInt b :: Tok.ofInt f :: Tok.word :: Tok.ofInt v :: Tok.copen :: Tok.cclose :: Tok.word :: Tok.dec q d :: rest)
      = .ok (b, q) := by
  simp [pressureLine, tokAt, tokInt, tokNum, Tok.ofInt, Tok.dec]
  rfl

/-! ### cell cycles -/

theorem cycle_is_tails (m : Mesh) (loop : List Int) (h : ∀ e ∈ loop, (m.edge? (e.natAbs : Int)).isSome) :
    loop.mapM (tailVertex m) = .ok (loop.map (tailV m)) := by
  induction loop with
  | nil => rfl
  | cons e l ih =>
    have he := h e (by simp)
    have ih' := ih (fun x hx => h x (by simp [hx]))
    have h1 : tailVertex m e = .ok (tailV m e) := by
      unfold tailVertex tailV
      cases hm : m.edge? (e.natAbs : Int) with
      | none => rw [hm] at he; cases he
      | some ed => rfl
    rw [List.mapM_cons, ih', h1]
    rfl

theorem cycle_follows_loop (m : Mesh) (e : Int) (rest : List Int)
    (hclosed : (e :: rest).map (headV m) = rest.map (tailV m) ++ [tailV m e]) :
    cyclicPairs ((e :: rest).map (tailV m)) = (e :: rest).map fun r => (tailV m r, headV m r) := by
  rw [List.map_cons]
  show (tailV m e :: rest.map (tailV m)).zip (rest.map (tailV m) ++ [tailV m e]) = _
  rw [← hclosed, ← List.map_cons, List.zip_map']

theorem tail_head_ends (m : Mesh) (e : Int) (ed : SEdge) (h : m.edge? (e.natAbs : Int) = some ed) :
    (tailV m e = ed.v1 ∧ headV m e = ed.v2) ∨ (tailV m e = ed.v2 ∧ headV m e = ed.v1) := by
  unfold tailV headV
  rw [h]
  by_cases hp : e > 0 <;> simp [hp]

/-! the hypotheses are satisfiable: the unit square with mesh edge 3 stored against the loop direction -/
def exampleSquare : Mesh :=
  Mesh.ofLists [(1, 0, 0), (2, 1, 0), (3, 1, 1), (4, 0, 1)] [(1, 1, 2), (2, 2, 3), (3, 4, 3), (4, 4, 1)] []
example : ∀ e ∈ ([1, 2, -3, 4] : List Int), (exampleSquare.edge? (e.natAbs : Int)).isSome := by decide +kernel
example : ([1, 2, -3, 4] : List Int).map (headV exampleSquare)
    = ([2, -3, 4] : List Int).map (tailV exampleSquare) ++ [tailV exampleSquare 1] := by decide +kernel
example : ([1, 2, -3, 4] : List Int).map (tailV exampleSquare) = [1, 2, 3, 4] := by decide +kernel
example : ([1, 2, -3, 4] : List Int).mapM (tailVertex exampleSquare) = .ok [1, 2, 3, 4] :=
  cycle_is_tails exampleSquare _ (by decide +kernel)

/-! ### orphan removal -/

theorem orphans_removed (m : Mesh) : ∀ p ∈ m.orphanRemoval.vertices, p.2.ownCells ≠ [] := by
  intro p hp hempty
  have h1 : (p.1, p.2.ownCells) ∈ vsig m.orphanRemoval := List.mem_map.mpr ⟨p, hp, rfl⟩
  rw [vsig_orphanRemoval, List.mem_filter] at h1
  obtain ⟨hin, hnot⟩ := h1
  obtain ⟨p0, hp0, heq⟩ := List.mem_map.mp hin
  simp only [Prod.mk.injEq] at heq
  obtain ⟨hk, hc⟩ := heq
  have : p.1 ∈ orphanIds m := by
    refine List.mem_map.mpr ⟨p0, List.mem_filter.mpr ⟨hp0, ?_⟩, hk⟩
    simp [hc, hempty]
  simp [this] at hnot

/-- the surviving vertices, with their cell lists, are exactly the ones whose key is not the key of a vertex without cells -/
theorem orphans_survivors (m : Mesh) :
    m.orphanRemoval.vertices.map (fun p => (p.1, p.2.ownCells))
      = (m.vertices.map fun p => (p.1, p.2.ownCells)).filter fun p => !(orphanIds m).contains p.1 :=
  vsig_orphanRemoval m

/-- the upstream rule (before repair 9a1abb9 of finding D23) deleted only the edges ending at a vertex without cells:
    in the unit square 1-2-3-4 with the diagonal 8 = (1, 3), which belongs to no face, the diagonal survived
    (replayed on the real code as corpus/C14/faceless_chord.json) -/
theorem upstream_faceless_edge_witness :
    ((Mesh.ofLists [(1, 0, 0), (2, 1, 0), (3, 1, 1), (4, 0, 1)] [(1, 1, 2), (2, 2, 3), (3, 3, 4), (4, 4, 1), (8, 1, 3)]
        [(1, [1, 2, 3, 4])]).orphanRemoval.edge? 8).isSome = true := by
  decide +kernel

example : ((dropFaceless [1, 2, 3, 4] (Mesh.ofLists [(1, 0, 0), (2, 1, 0), (3, 1, 1), (4, 0, 1)]
    [(1, 1, 2), (2, 2, 3), (3, 3, 4), (4, 4, 1), (8, 1, 3)] [(1, [1, 2, 3, 4])]).orphanRemoval).edge? 8).isSome = false := by
  decide +kernel

/-- the repaired clause: no mesh edge that no face references survives … -/
theorem faceless_edges_dropped (used : List Id) (m : Mesh) :
    ∀ q ∈ (dropFaceless used m).edges, q.1 ∈ used :=
  fun q hq => ((dropFaceless_edges used m q).mp hq).2

/-- … and every referenced edge that survived the orphan-vertex loop stays -/
theorem referenced_edges_kept (used : List Id) (m : Mesh) :
    ∀ q ∈ m.edges, q.1 ∈ used → q ∈ (dropFaceless used m).edges :=
  fun q hq hu => (dropFaceless_edges used m q).mpr ⟨hq, hu⟩

/-- no surviving mesh edge ends at a vertex that was removed for having no cell -/
theorem orphans_removed_edges (m : Mesh) (h : m.Consistent = true) :
    ∀ q ∈ m.orphanRemoval.edges, q.2.v1 ∉ orphanIds m ∧ q.2.v2 ∉ orphanIds m := by
  have hc := (consistent_iff _).mp (orphanRemoval_consistent m h)
  have key : ∀ k ∈ m.orphanRemoval.vertices.map (·.1), k ∉ orphanIds m := by
    intro k hk
    obtain ⟨p, hp, rfl⟩ := List.mem_map.mp hk
    have h1 : (p.1, p.2.ownCells) ∈ vsig m.orphanRemoval := List.mem_map.mpr ⟨p, hp, rfl⟩
    rw [vsig_orphanRemoval, List.mem_filter] at h1
    simpa using h1.2
  intro q hq
  obtain ⟨_, h1, h2⟩ := hc.2.2.2.1.1 q hq
  exact ⟨key _ h1, key _ h2⟩

/-- C09 for the parser: the mesh left by `create_lattice` is consistent, provided the faces reference every mesh
    edge that runs along their boundary (which is what a face's edge loop is) -/
theorem se_consistent (vs : List (Id × Rat × Rat)) (es : List (Id × Id × Id)) (cs : List (Id × List Id))
    (used : List Id) (h : WFInput vs es cs)
    (hused : ∀ q ∈ (ofLists vs es cs).orphanRemoval.edges,
      (∃ c ∈ (ofLists vs es cs).orphanRemoval.cells, ∃ ab ∈ cyclicPairs c.2.verts,
        (q.2.v1 = ab.1 ∧ q.2.v2 = ab.2) ∨ (q.2.v1 = ab.2 ∧ q.2.v2 = ab.1)) → q.1 ∈ used) :
    (dropFaceless used (ofLists vs es cs).orphanRemoval).Consistent = true := by
  rw [consistent_iff]
  exact dropFaceless_consP used _ ((consistent_iff _).mp (orphanRemoval_consistent _ (ofLists_consistent vs es cs h))) hused

/-! the hypotheses of `se_consistent` are satisfiable: the square with its diagonal and a dangling vertex 9 -/
example : WFInput [(1, 0, 0), (2, 1, 0), (3, 1, 1), (4, 0, 1), (9, 5, 5)]
    [(1, 1, 2), (2, 2, 3), (3, 3, 4), (4, 4, 1), (8, 1, 3), (21, 9, 1)] [(1, [1, 2, 3, 4])] := by
  constructor <;> decide
example : ∀ q ∈ (ofLists [(1, 0, 0), (2, 1, 0), (3, 1, 1), (4, 0, 1), (9, 5, 5)]
    [(1, 1, 2), (2, 2, 3), (3, 3, 4), (4, 4, 1), (8, 1, 3), (21, 9, 1)] [(1, [1, 2, 3, 4])]).orphanRemoval.edges,
      (∃ c ∈ (ofLists [(1, 0, 0), (2, 1, 0), (3, 1, 1), (4, 0, 1), (9, 5, 5)]
    [(1, 1, 2), (2, 2, 3), (3, 3, 4), (4, 4, 1), (8, 1, 3), (21, 9, 1)] [(1, [1, 2, 3, 4])]).orphanRemoval.cells, ∃ ab ∈ cyclicPairs c.2.verts,
        (q.2.v1 = ab.1 ∧ q.2.v2 = ab.2) ∨ (q.2.v1 = ab.2 ∧ q.2.v2 = ab.1)) → q.1 ∈ ([1, 2, 3, 4] : List Id) := by
  decide +kernel
example : (dropFaceless [1, 2, 3, 4] (ofLists [(1, 0, 0), (2, 1, 0), (3, 1, 1), (4, 0, 1), (9, 5, 5)]
    [(1, 1, 2), (2, 2, 3), (3, 3, 4), (4, 4, 1), (8, 1, 3), (21, 9, 1)] [(1, [1, 2, 3, 4])]).orphanRemoval).Consistent = true := by
  decide +kernel
example : ((dropFaceless [1, 2, 3, 4] (ofLists [(1, 0, 0), (2, 1, 0), (3, 1, 1), (4, 0, 1), (9, 5, 5)]
    [(1, 1, 2), (2, 2, 3), (3, 3, 4), (4, 4, 1), (8, 1, 3), (21, 9, 1)] [(1, [1, 2, 3, 4])]).orphanRemoval).edges.map (·.1))
      = [1, 2, 3, 4] := by
  decide +kernel

/-! ### Frame(gt=True) -/

theorem gt_mean (m : Mesh) (gt : List (Id × Rat)) (e eids : List Id) (gs : List Rat)
    (h1 : m.bigEdgeEdges e = eids.map some) (h2 : eids.map (fun k => alGet? k gt) = gs.map some) :
    gtMean m gt e = some (mean gs) := by
  unfold gtMean
  rw [h1, mapM_id_some]
  show (do let gts ← eids.mapM (fun k => alGet? k gt); pure (mean gts)) = _
  rw [mapM_eq_some_of_map _ _ _ h2]
  rfl

example : gtMean exampleSquare [(1, 3 / 2), (2, 1 / 2)] [1, 2, 3] = some 1 := by decide +kernel

/-- an interface whose mesh edges all carry the density `d` reports `d` -/
theorem mean_const (d : Rat) (n : Nat) : mean (List.replicate (n + 1) d) = d := by
  exact mean_replicate d n

/-! ### rounding (examples; `roundDec` is compared with Python's `round` on the float by the harness) -/
example : roundDec (180585743123679 / 1000000000000) 3 = 180586 / 1000 := by decide +kernel
example : roundDec (-1 / 2000) 3 = 0 := by decide +kernel          -- a tie: half-even
example : roundDec (3 / 2000) 3 = 2 / 1000 := by decide +kernel     -- a tie: half-even
example : roundDec (507162903316195 / 10000000000000000) 4 = 507 / 10000 := by decide +kernel

/-- C14, clause "coordinates are rounded to 3 decimals, forces and pressures to 4": the integer rounding used by
    `roundDec` returns an integer at distance at most 1/2 from its argument, for every rational -/
theorem roundHalfEven_nearest (q : Rat) : |((roundHalfEven q : Int) : Rat) - q| ≤ 1 / 2 :=
  roundHalfEven_nearest' q

/-- C14, rounding clause: integers are fixed points of the integer rounding -/
theorem roundHalfEven_int (z : Int) : roundHalfEven (z : Rat) = z :=
  roundHalfEven_int' z

/-- C14, rounding clause: an exact tie `z + 1/2` goes to the even neighbour (Python's `round`), for every integer `z` -/
theorem roundHalfEven_tie_even (z : Int) : roundHalfEven ((z : Rat) + 1 / 2) % 2 = 0 :=
  roundHalfEven_tie_even' z

/-- C14, rounding clause: `round(q, n)` is within half a unit of the `n`-th decimal place of `q`, for every rational
    `q` and every number of places `n` -/
theorem roundDec_nearest (q : Rat) (n : Nat) : |roundDec q n - q| ≤ 1 / (2 * (10 : Rat) ^ n) :=
  roundDec_nearest' q n

/-- C14, rounding clause: rounding to `n` places a value already rounded to `n` places changes nothing -/
theorem roundDec_idempotent (q : Rat) (n : Nat) : roundDec (roundDec q n) n = roundDec q n :=
  roundDec_idempotent' q n

example : roundHalfEven ((2 : Int) + 1 / 2 : Rat) = 2 ∧ roundHalfEven ((3 : Int) + 1 / 2 : Rat) = 4 := by decide +kernel

end Forsys
