/-
  Property C08, tissue level — the theorems of Props/C08.lean about ONE cell cycle (`cellPaths_ends`,
  `cellPaths_partition`, …) and about the de-duplication loop, lifted to the whole interface list
  `Mesh.bigEdgesList` of a mesh; what `own_big_edges` of a vertex and `Frame.get_big_edge_by_cells` select.
  Model: ForsysModel/Model/BigEdges.lean.  Nothing here assumes more about the mesh than is written in the statement.
-/
import ForsysModel.Model.BigEdges
import ForsysModel.Props.C08
import ForsysModel.Proofs.C08tissue

namespace Forsys

variable {α : Type}

/-! ### what the de-duplication loop keeps -/

/-- `if e[::-1] not in earr and e not in earr: earr += [e]` keeps exactly the candidates at whose position neither
    the candidate nor its reversal occurs earlier in the candidate list: the FIRST occurrence, in the direction of
    that first occurrence -/
theorem dedup_mem_iff [DecidableEq α] (ps : List (List α)) (p : List α) :
    p ∈ dedup ps ↔ ∃ i, ∃ h : i < ps.length, ps[i] = p ∧ p ∉ ps.take i ∧ p.reverse ∉ ps.take i :=
  dedup_mem_iff' ps p

/-- membership in the interface list of a tissue: `p` is an interface of the frame iff it is the candidate at some
    position `i` of the cell-by-cell candidate list (`Mesh.allPaths`: the paths of the first cell of the dictionary,
    then of the second, …) and neither `p` nor `p` reversed is a candidate at an earlier position -/
theorem bigEdgesList_mem_iff (m : Mesh) (p : List Id) :
    p ∈ m.bigEdgesList ↔
      ∃ i, ∃ h : i < m.allPaths.length, m.allPaths[i] = p ∧ p ∉ m.allPaths.take i ∧ p.reverse ∉ m.allPaths.take i :=
  dedup_mem_iff' m.allPaths p

/-- the candidates are the per-cell interfaces of the cells of the dictionary -/
theorem allPaths_mem_iff (m : Mesh) (p : List Id) :
    p ∈ m.allPaths ↔ ∃ c ∈ m.cells, p ∈ cellPaths m.isJunction c.2.verts :=
  m.mem_allPaths p

/-- every interface of the tissue is an interface of one of its cells (in the direction that cell walks it) -/
theorem bigEdgesList_sub_cells (m : Mesh) (p : List Id) (hp : p ∈ m.bigEdgesList) :
    ∃ c ∈ m.cells, p ∈ cellPaths m.isJunction c.2.verts :=
  (m.mem_allPaths p).1 (dedup_sub _ p hp)

/-- every interface of every cell is an interface of the tissue, in one of its two directions -/
theorem bigEdgesList_complete (m : Mesh) (c : Id × Cell) (hc : c ∈ m.cells) (p : List Id)
    (hp : p ∈ cellPaths m.isJunction c.2.verts) : p ∈ m.bigEdgesList ∨ p.reverse ∈ m.bigEdgesList :=
  dedup_complete _ p ((m.mem_allPaths p).2 ⟨c, hc, hp⟩)

/-! ### shape of the interfaces of a tissue -/

/-- every interface of the tissue starts and ends at a junction (three or more mesh edges) and no vertex in between
    is a junction -/
theorem bigEdgesList_ends_junction (m : Mesh) (p : List Id) (hp : p ∈ m.bigEdgesList) :
    ∃ a mid b, p = a :: (mid ++ [b]) ∧ m.isJunction a = true ∧ m.isJunction b = true ∧
      ∀ v ∈ mid, m.isJunction v = false := by
  obtain ⟨c, _, hc⟩ := bigEdgesList_sub_cells m p hp
  exact cellPaths_ends m.isJunction c.2.verts p hc

/-- the same, by position in the path: first and last vertex have at least three mesh edges, every other vertex has
    fewer; an interface has at least two vertices -/
theorem bigEdgesList_interior_nonjunction (m : Mesh) (p : List Id) (hp : p ∈ m.bigEdgesList) :
    2 ≤ p.length ∧ ∀ k, ∀ hk : k < p.length,
      (3 ≤ (m.ownEdges p[k]).length ↔ (k = 0 ∨ k = p.length - 1)) := by
  obtain ⟨a, mid, b, rfl, ha, hb, hmid⟩ := bigEdgesList_ends_junction m p hp
  simp only [Mesh.isJunction, decide_eq_true_eq, decide_eq_false_iff_not] at ha hb hmid
  refine ⟨by simp, ?_⟩
  intro k hk
  simp only [List.length_cons, List.length_append, List.length_nil] at hk ⊢
  rcases k with _ | k
  · simp; omega
  · simp only [List.getElem_cons_succ]
    by_cases hkm : k < mid.length
    · rw [List.getElem_append_left hkm]
      have := hmid _ (List.getElem_mem hkm)
      constructor
      · intro h; omega
      · intro h; omega
    · have hk' : k = mid.length := by omega
      subst hk'
      simp
      omega

/-- no two positions of the interface list hold the same path or mutually reversed paths -/
theorem bigEdgesList_no_reverse_dup (m : Mesh) (i j : Nat) (hi : i < m.bigEdgesList.length)
    (hj : j < m.bigEdgesList.length) (hij : i ≠ j) :
    m.bigEdgesList[i] ≠ m.bigEdgesList[j] ∧ m.bigEdgesList[i].reverse ≠ m.bigEdgesList[j] := by
  have hpw : m.bigEdgesList.Pairwise (fun a b => a ≠ b ∧ a.reverse ≠ b) := dedup_pairwise _
  rw [List.pairwise_iff_getElem] at hpw
  rcases Nat.lt_or_gt_of_ne hij with h | h
  · exact hpw i j hi hj h
  · have := hpw j i hj hi h
    refine ⟨fun e => this.1 e.symm, fun e => this.2 ?_⟩
    rw [← e, List.reverse_reverse]

/-! ### coverage: every mesh edge of a cell that has a junction lies in an interface of the tissue -/

/-- for every cell of the dictionary with a junction on its cycle and every cyclic consecutive pair `(a, b)` of the
    cycle (closing pair included), some interface of the tissue contains `a, b` consecutively, in one of the two
    directions -/
theorem bigEdgesList_covers_cell_edges (m : Mesh) (c : Id × Cell) (hc : c ∈ m.cells)
    (hj : ∃ v ∈ c.2.verts, m.isJunction v = true) (a b : Id) (hab : (a, b) ∈ cyclicPairs c.2.verts) :
    ∃ e ∈ m.bigEdgesList, [a, b] <:+: e ∨ [b, a] <:+: e := by
  have hperm := cellPaths_partition m.isJunction c.2.verts hj
  have hmem := hperm.mem_iff.2 hab
  simp only [List.mem_flatten, List.mem_map] at hmem
  obtain ⟨l, ⟨p, hp, rfl⟩, hin⟩ := hmem
  have hinf := infix_of_mem_zip_tail p a b hin
  rcases bigEdgesList_complete m c hc p hp with h | h
  · exact ⟨p, h, Or.inl hinf⟩
  · refine ⟨p.reverse, h, Or.inr ?_⟩
    have := List.reverse_infix.2 hinf
    simpa using this

/-- conversely every consecutive pair of an interface of the tissue is a mesh edge (cyclic consecutive pair) of a cell -/
theorem bigEdgesList_edges_in_cell (m : Mesh) (e : List Id) (he : e ∈ m.bigEdgesList) (a b : Id)
    (hab : [a, b] <:+: e) : ∃ c ∈ m.cells, (a, b) ∈ cyclicPairs c.2.verts := by
  obtain ⟨c, hc, hp⟩ := bigEdgesList_sub_cells m e he
  refine ⟨c, hc, ?_⟩
  have hj : ∃ v ∈ c.2.verts, m.isJunction v = true := by
    by_contra hno
    have : cellPaths m.isJunction c.2.verts = [] :=
      cellPaths_none _ _ (fun v hv => by
        cases hjv : m.isJunction v with
        | false => rfl
        | true => exact absurd ⟨v, hv, hjv⟩ hno)
    rw [this] at hp; simp at hp
  have hperm := cellPaths_partition m.isJunction c.2.verts hj
  apply hperm.mem_iff.1
  simp only [List.mem_flatten, List.mem_map]
  exact ⟨_, ⟨e, hp, rfl⟩, mem_zip_tail_of_infix e a b hab⟩

/-! ### `own_big_edges` of a vertex -/

/-- `own_big_edges` of `v` lists exactly the positions of the interfaces that contain `v` (anywhere, not only as
    an end), in increasing order -/
theorem ownBigEdges_spec (earr : List (List Id)) (v : Id) (i : Nat) :
    i ∈ Mesh.ownBigEdges earr v ↔ ∃ h : i < earr.length, v ∈ earr[i] := by
  unfold Mesh.ownBigEdges
  simp only [List.mem_filter, List.mem_range, List.contains_eq_mem, decide_eq_true_eq]
  constructor
  · rintro ⟨h, hv⟩
    refine ⟨h, ?_⟩
    simpa [List.getD_eq_getElem?_getD, h] using hv
  · rintro ⟨h, hv⟩
    refine ⟨h, ?_⟩
    simpa [List.getD_eq_getElem?_getD, h] using hv

theorem ownBigEdges_increasing (earr : List (List Id)) (v : Id) :
    (Mesh.ownBigEdges earr v).Pairwise (· < ·) := by
  unfold Mesh.ownBigEdges
  exact List.Pairwise.filter _ List.pairwise_lt_range

/-- on the interface list of a tissue the row of a junction sees exactly the interfaces that END there: a junction
    lies on an interface iff it is its first or its last vertex -/
theorem ownBigEdges_junction (m : Mesh) (v : Id) (hv : m.isJunction v = true) (i : Nat) :
    i ∈ Mesh.ownBigEdges m.bigEdgesList v ↔
      ∃ h : i < m.bigEdgesList.length, m.bigEdgesList[i].head? = some v ∨ m.bigEdgesList[i].getLast? = some v := by
  rw [ownBigEdges_spec]
  constructor
  · rintro ⟨h, hmem⟩
    refine ⟨h, ?_⟩
    obtain ⟨a, mid, b, hp, _, _, hmid⟩ := bigEdgesList_ends_junction m _ (List.getElem_mem h)
    rw [hp] at hmem ⊢
    simp only [List.mem_cons, List.mem_append, List.mem_nil_iff, or_false] at hmem
    rcases hmem with rfl | hm | rfl
    · left; simp
    · have := hmid v hm; rw [hv] at this; cases this
    · right
      rw [← List.cons_append, List.getLast?_concat]
  · rintro ⟨h, hends⟩
    refine ⟨h, ?_⟩
    rcases hends with h1 | h1
    · exact List.mem_of_mem_head? h1
    · exact List.mem_of_mem_getLast? h1

/-! ### `Frame.get_big_edge_by_cells` -/

/-- exactly what the lookup returns: the positions of the interfaces that contain a vertex with fewer than three mesh
    edges lying on the cycles of both cells (both ids must be keys of the cell dictionary) -/
theorem bigEdgeByCells_mem_iff (m : Mesh) (earr : List (List Id)) (c1 c2 : Id) (i : Nat) :
    i ∈ m.bigEdgeByCells earr c1 c2 ↔
      ∃ h : i < earr.length, ∃ cl1 cl2, m.cell? c1 = some cl1 ∧ m.cell? c2 = some cl2 ∧
        ∃ v ∈ earr[i], v ∈ cl1.verts ∧ v ∈ cl2.verts ∧ (m.ownEdges v).length < 3 := by
  unfold Mesh.bigEdgeByCells
  simp only [List.mem_eraseDups, List.mem_flatten, List.mem_map, listInter, List.mem_filter,
    List.contains_eq_mem, decide_eq_true_eq]
  constructor
  · rintro ⟨l, ⟨v, ⟨hv1, hv2⟩, rfl⟩, hi⟩
    obtain ⟨h, hmem⟩ := (ownBigEdges_spec earr v i).1 hi
    refine ⟨h, ?_⟩
    cases h1 : m.cell? c1 with
    | none => simp [h1] at hv1
    | some cl1 =>
      cases h2 : m.cell? c2 with
      | none => simp [h2] at hv2
      | some cl2 =>
        simp only [h1, h2, List.mem_filter, decide_eq_true_eq] at hv1 hv2
        exact ⟨cl1, cl2, rfl, rfl, v, hmem, hv1.1, hv2.1, hv1.2⟩
  · rintro ⟨h, cl1, cl2, h1, h2, v, hmem, hv1, hv2, hlt⟩
    refine ⟨_, ⟨v, ?_, rfl⟩, (ownBigEdges_spec earr v i).2 ⟨h, hmem⟩⟩
    simp only [h1, h2, List.mem_filter, decide_eq_true_eq]
    exact ⟨⟨hv1, hlt⟩, hv2, hlt⟩

/-- soundness: every position returned holds an interface with a non-junction vertex common to both cells.
    (The suggested form "all of whose vertices belong to both cells" is NOT what the code guarantees for an arbitrary
    interface list: only the one common non-junction vertex is examined.) -/
theorem bigEdgeByCells_sound (m : Mesh) (earr : List (List Id)) (c1 c2 : Id) (i : Nat)
    (hi : i ∈ m.bigEdgeByCells earr c1 c2) :
    ∃ h : i < earr.length, ∃ v ∈ earr[i], (∃ cl1, m.cell? c1 = some cl1 ∧ v ∈ cl1.verts) ∧
      (∃ cl2, m.cell? c2 = some cl2 ∧ v ∈ cl2.verts) ∧ m.isJunction v = false := by
  obtain ⟨h, cl1, cl2, h1, h2, v, hv, hv1, hv2, hlt⟩ := (bigEdgeByCells_mem_iff m earr c1 c2 i).1 hi
  refine ⟨h, v, hv, ⟨cl1, h1, hv1⟩, ⟨cl2, h2, hv2⟩, ?_⟩
  simp only [Mesh.isJunction, decide_eq_false_iff_not]; omega

theorem bigEdgeByCells_symm (m : Mesh) (earr : List (List Id)) (c1 c2 : Id) (i : Nat) :
    i ∈ m.bigEdgeByCells earr c1 c2 ↔ i ∈ m.bigEdgeByCells earr c2 c1 := by
  rw [bigEdgeByCells_mem_iff, bigEdgeByCells_mem_iff]
  constructor
  · rintro ⟨h, cl1, cl2, h1, h2, v, hv, hv1, hv2, hlt⟩
    exact ⟨h, cl2, cl1, h2, h1, v, hv, hv2, hv1, hlt⟩
  · rintro ⟨h, cl1, cl2, h1, h2, v, hv, hv1, hv2, hlt⟩
    exact ⟨h, cl2, cl1, h2, h1, v, hv, hv2, hv1, hlt⟩

/-- looking up an interface that has an interior point by its two cells returns it: in a consistent mesh, if the
    interface at position `i` has at least three vertices, its middle vertex (the one `own_cells` is read off) has
    fewer than three mesh edges, and `c1`, `c2` are among its `own_cells`, then `i` is returned for `(c1, c2)` and
    for `(c2, c1)` -/
theorem bigEdgeByCells_finds (m : Mesh) (hm : m.Consistent = true) (earr : List (List Id)) (i : Nat)
    (hi : i < earr.length) (hlen : 3 ≤ earr[i].length)
    (hmid : (m.ownEdges (earr[i][(earr[i].length - 1) / 2]'(by omega))).length < 3)
    (c1 c2 : Id) (h1 : c1 ∈ m.bigEdgeOwnCells earr[i]) (h2 : c2 ∈ m.bigEdgeOwnCells earr[i]) :
    i ∈ m.bigEdgeByCells earr c1 c2 ∧ i ∈ m.bigEdgeByCells earr c2 c1 := by
  have hk : (earr[i].length - 1) / 2 < earr[i].length := by omega
  have hE := m.bigEdgeOwnCells_mid earr[i] (by omega) hk
  rw [hE] at h1 h2
  obtain ⟨cl1, hc1, hv1⟩ := m.mem_verts_of_mem_ownCells hm _ c1 h1
  obtain ⟨cl2, hc2, hv2⟩ := m.mem_verts_of_mem_ownCells hm _ c2 h2
  have : i ∈ m.bigEdgeByCells earr c1 c2 :=
    (bigEdgeByCells_mem_iff m earr c1 c2 i).2
      ⟨hi, cl1, cl2, hc1, hc2, _, List.getElem_mem hk, hv1, hv2, hmid⟩
  exact ⟨this, (bigEdgeByCells_symm m earr c1 c2 i).1 this⟩

/-- on the interface list of the tissue itself the hypothesis `hmid` is automatic: the middle vertex of an interface
    with three or more vertices is an interior vertex, hence not a junction -/
theorem bigEdgeByCells_finds_tissue (m : Mesh) (hm : m.Consistent = true) (i : Nat)
    (hi : i < m.bigEdgesList.length) (hlen : 3 ≤ m.bigEdgesList[i].length)
    (c1 c2 : Id) (h1 : c1 ∈ m.bigEdgeOwnCells m.bigEdgesList[i]) (h2 : c2 ∈ m.bigEdgeOwnCells m.bigEdgesList[i]) :
    i ∈ m.bigEdgeByCells m.bigEdgesList c1 c2 ∧ i ∈ m.bigEdgeByCells m.bigEdgesList c2 c1 := by
  refine bigEdgeByCells_finds m hm m.bigEdgesList i hi hlen ?_ c1 c2 h1 h2
  have hk : (m.bigEdgesList[i].length - 1) / 2 < m.bigEdgesList[i].length := by omega
  have h := (bigEdgesList_interior_nonjunction m _ (List.getElem_mem hi)).2 _ hk
  by_contra hge
  have h3 : 3 ≤ (m.ownEdges (m.bigEdgesList[i][(m.bigEdgesList[i].length - 1) / 2])).length := by omega
  have := h.1 h3
  omega

/-! ### inside one cell: exactly one interface per mesh edge -/

/-- in a cell whose cycle repeats no vertex and has a junction, every mesh edge (cyclic consecutive pair, closing pair
    included) lies in exactly ONE of the cell's interfaces: there is a position holding it and no other position does -/
theorem cellPaths_unique_per_edge (isJ : α → Bool) (cyc : List α) (hn : cyc.Nodup)
    (hj : ∃ v ∈ cyc, isJ v = true) (a b : α) (hab : (a, b) ∈ cyclicPairs cyc) :
    ∃ i, ∃ h : i < (cellPaths isJ cyc).length, [a, b] <:+: (cellPaths isJ cyc)[i] ∧
      ∀ j, ∀ hj : j < (cellPaths isJ cyc).length, [a, b] <:+: (cellPaths isJ cyc)[j] → j = i := by
  have hperm := cellPaths_partition isJ cyc hj
  have hnd : (((cellPaths isJ cyc).map fun p => List.zip p p.tail).flatten).Nodup :=
    hperm.nodup_iff.2 (cyclicPairs_nodup cyc hn)
  rw [List.nodup_flatten] at hnd
  obtain ⟨_, hdis⟩ := hnd
  rw [List.pairwise_iff_getElem] at hdis
  have hmem := hperm.mem_iff.2 hab
  simp only [List.mem_flatten, List.mem_map] at hmem
  obtain ⟨l, ⟨p, hp, rfl⟩, hin⟩ := hmem
  obtain ⟨i, hi, rfl⟩ := List.getElem_of_mem hp
  refine ⟨i, hi, infix_of_mem_zip_tail _ a b hin, ?_⟩
  intro j hj hinf
  have hjn := mem_zip_tail_of_infix _ a b hinf
  by_contra hne
  rcases Nat.lt_or_gt_of_ne hne with h | h
  · have := hdis j i (by simpa using hj) (by simpa using hi) h
    simp only [List.getElem_map] at this
    exact this hjn hin
  · have := hdis i j (by simpa using hi) (by simpa using hj) h
    simp only [List.getElem_map] at this
    exact this hin hjn

/-- `hn`, `hj`, `hab` of `cellPaths_unique_per_edge`; the closing pair `(6, 1)` lies in the third interface only -/
example : ([1, 2, 10, 3, 4, 20, 5, 30, 6] : List Nat).Nodup ∧
    (∃ v ∈ [1, 2, 10, 3, 4, 20, 5, 30, 6], (fun v : Nat => decide (v ≥ 10)) v = true) ∧
    (6, 1) ∈ cyclicPairs [1, 2, 10, 3, 4, 20, 5, 30, 6] ∧
    (cellPaths (fun v => decide (v ≥ 10)) [1, 2, 10, 3, 4, 20, 5, 30, 6])[2]? = some [30, 6, 1, 2, 10] := by decide

/-- without `hn` uniqueness fails: the cycle `[10, 1, 20, 10, 1, 30]` walks the mesh edge `10 – 1` twice and both
    interfaces `[10, 1, 20]` and `[10, 1, 30]` contain it -/
theorem cellPaths_unique_per_edge_witness :
    cellPaths (fun v : Nat => decide (v ≥ 10)) [10, 1, 20, 10, 1, 30] = [[10, 1, 20], [20, 10], [10, 1, 30], [30, 10]] ∧
    ¬ ([10, 1, 20, 10, 1, 30] : List Nat).Nodup := by decide

/-! ### the tissue's own list discharges the `Nodup` hypothesis of the classification theorems -/

/-- tensions are tabulated for exactly the internal interfaces of the tissue, in the same order -/
theorem tensionRows_bigEdgesList (m : Mesh) : m.tensionRows m.bigEdgesList = m.internalIdx m.bigEdgesList :=
  tensionRows_eq_internal m _ (bigEdgesList_nodup m)

/-- interface `i` of the tissue is internal iff each of its vertices belongs to at least two cells and at least one end
    belongs to at least three -/
theorem internal_iff_bigEdgesList (m : Mesh) (i : Nat) (hi : i < m.bigEdgesList.length) :
    i ∈ m.internalIdx m.bigEdgesList ↔
      (∀ v ∈ m.bigEdgesList[i], 2 ≤ (m.ownCells v).length) ∧ m.endJunction3 m.bigEdgesList[i] = true := by
  have h := internal_iff m _ (bigEdgesList_nodup m) i hi
  have e : m.bigEdgesList.getD i [] = m.bigEdgesList[i] := by simp [List.getD_eq_getElem?_getD, hi]
  rw [e] at h; exact h

/-- a tissue none of whose cells has a junction on its cycle (a single cell, isolated cells) has no interface -/
theorem bigEdgesList_nil_of_no_junction (m : Mesh)
    (h : ∀ c ∈ m.cells, ∀ v ∈ c.2.verts, m.isJunction v = false) : m.bigEdgesList = [] := by
  apply List.eq_nil_iff_forall_not_mem.2
  intro p hp
  obtain ⟨c, hc, hpc⟩ := bigEdgesList_sub_cells m p hp
  rw [cellPaths_none _ _ (h c hc)] at hpc
  simp at hpc

/-- a tissue with a cell that has a junction on its cycle has at least one interface -/
theorem bigEdgesList_ne_nil (m : Mesh) (c : Id × Cell) (hc : c ∈ m.cells)
    (hj : ∃ v ∈ c.2.verts, m.isJunction v = true) : m.bigEdgesList ≠ [] := by
  have hne := cellPaths_ne_nil m.isJunction c.2.verts hj
  obtain ⟨p, hp⟩ := List.exists_mem_of_ne_nil _ hne
  rcases bigEdgesList_complete m c hc p hp with h | h
  · exact List.ne_nil_of_mem h
  · exact List.ne_nil_of_mem h

/-- a single square cell -/
def oneSquare : Mesh :=
  Mesh.ofLists [(0, 0, 0), (1, 1, 0), (2, 1, 1), (3, 0, 1)] [(0, 0, 1), (1, 1, 2), (2, 2, 3), (3, 3, 0)]
    [(0, [0, 1, 2, 3])]

/-- `h` of `bigEdgesList_nil_of_no_junction` -/
example : oneSquare.Consistent = true ∧
    (∀ c ∈ oneSquare.cells, ∀ v ∈ c.2.verts, oneSquare.isJunction v = false) ∧ oneSquare.bigEdgesList = [] := by
  decide +kernel

/-! ### the hypotheses are satisfiable (meshes `bentInterface`, `lensTissue`, `holeLattice` of Props/C08.lean) -/

/-- `dedup_mem_iff`: the second copy and the reversed copy are dropped, the first occurrence is kept in its direction -/
example : dedup [[1, 2, 3], [3, 2, 1], [4, 5], [1, 2, 3]] = [[1, 2, 3], [4, 5]] ∧
    ([3, 2, 1] : List Nat) ∉ dedup [[1, 2, 3], [3, 2, 1], [4, 5], [1, 2, 3]] := by decide

/-- the candidate list of the lens tissue holds the chord and the arc twice each (once per side, reversed) -/
example : lensTissue.allPaths = [[0, 2, 1], [1, 0], [3, 0], [0, 2, 1], [1, 4], [4, 5, 3], [3, 6, 4], [4, 1], [1, 0], [0, 3]] ∧
    lensTissue.bigEdgesList = [[0, 2, 1], [1, 0], [3, 0], [1, 4], [4, 5, 3], [3, 6, 4]] := by decide +kernel

/-- `hc`, `hj`, `hab` of `bigEdgesList_covers_cell_edges`: cell 2 of the lens tissue walks the chord as `1, 0`
    and the border as `0, 3`; the tissue lists `[1, 0]` and `[3, 0]` -/
example : ((2 : Id), ({ id := 2, verts := [3, 6, 4, 1, 0] } : Cell)).2.verts = [3, 6, 4, 1, 0] ∧
    (lensTissue.cells.map (fun c => (c.1, c.2.verts))) = [(0, [0, 2, 1]), (1, [3, 0, 2, 1, 4, 5]), (2, [3, 6, 4, 1, 0])] ∧
    lensTissue.isJunction 3 = true ∧ ((0 : Id), (3 : Id)) ∈ cyclicPairs ([3, 6, 4, 1, 0] : List Id) ∧
    [(3 : Id), 0] ∈ lensTissue.bigEdgesList := by decide +kernel

/-- `he`, `hab` of `bigEdgesList_edges_in_cell` and `hp` of `bigEdgesList_ends_junction` /
    `bigEdgesList_interior_nonjunction`: the arc `[0, 2, 1]` of the lens tissue, its mesh edge `0 – 2`; the ends 0 and 1
    have three mesh edges, the interior vertex 2 has two -/
example : ([0, 2, 1] : List Id) ∈ lensTissue.bigEdgesList ∧ [(0 : Id), 2] <:+: [0, 2, 1] ∧
    (lensTissue.ownEdges 0).length = 3 ∧ (lensTissue.ownEdges 2).length = 2 ∧ (lensTissue.ownEdges 1).length = 3 :=
  ⟨by decide +kernel, ⟨[], [1], rfl⟩, by decide +kernel, by decide +kernel, by decide +kernel⟩

/-- `hv` of `ownBigEdges_junction`: junction 1 of the lens tissue ends the interfaces 0, 1 and 3 -/
example : lensTissue.isJunction 1 = true ∧ Mesh.ownBigEdges lensTissue.bigEdgesList 1 = [0, 1, 3] := by decide +kernel

/-- the hypotheses of `bigEdgeByCells_finds(_tissue)`: interface 0 of `bentInterface` is `1 – 2 – 3`, its middle
    vertex 2 has two mesh edges, its own cells are 1 and 2, and the lookup returns position 0 both ways -/
example : bentInterface.Consistent = true ∧ bentInterface.bigEdgesList[0]? = some [1, 2, 3] ∧
    (bentInterface.ownEdges 2).length < 3 ∧ bentInterface.bigEdgeOwnCells [1, 2, 3] = [1, 2] ∧
    bentInterface.bigEdgeByCells bentInterface.bigEdgesList 1 2 = [0] ∧
    bentInterface.bigEdgeByCells bentInterface.bigEdgesList 2 1 = [0] := by decide +kernel

/-- a two-point interface is NOT found by its two cells (it has no non-junction vertex): the chord `[1, 0]` of the
    lens separates cells 0 and 2, `get_big_edge_by_cells(0, 2)` has nothing to return (Python: IndexError) -/
theorem bigEdgeByCells_two_point_witness :
    lensTissue.Consistent = true ∧ lensTissue.bigEdgesList[1]? = some [1, 0] ∧
    lensTissue.bigEdgeOwnCells [1, 0] = [0, 2] ∧
    lensTissue.bigEdgeByCells lensTissue.bigEdgesList 0 2 = [] := by decide +kernel

/-! ### exactly one interface per mesh edge, at the tissue level -/

/-- in a consistent mesh all of whose cells have at least three vertices, a mesh edge lies in exactly ONE interface of
    the tissue, whichever way it is walked: if `a, b` are consecutive in the interface at position `i` and `a, b` or
    `b, a` are consecutive in the interface at position `j`, then `i = j`.
    (Existence is `bigEdgesList_covers_cell_edges`.)  The reason: a vertex with fewer than three mesh edges has the same
    two neighbours on the cycle of every cell through it (`Mesh.cellAdj_det`), so a junction-to-junction path is
    determined by any one of its edges. -/
theorem bigEdgesList_unique_per_edge (m : Mesh) (hm : m.Consistent = true)
    (hlen : ∀ c ∈ m.cells, 3 ≤ c.2.verts.length) (i j : Nat) (hi : i < m.bigEdgesList.length)
    (hj : j < m.bigEdgesList.length) (a b : Id) (h1 : [a, b] <:+: m.bigEdgesList[i])
    (h2 : [a, b] <:+: m.bigEdgesList[j] ∨ [b, a] <:+: m.bigEdgesList[j]) : i = j := by
  by_contra hij
  obtain ⟨n1, n2⟩ := bigEdgesList_no_reverse_dup m i j hi hj hij
  have g1 := m.goodPath_of_mem hm hlen _ (List.getElem_mem hi)
  have g2 := m.goodPath_of_mem hm hlen _ (List.getElem_mem hj)
  rcases h2 with h2 | h2
  · exact n1 (GoodPath.unique m.cellAdj_symm (m.cellAdj_det hm) g1 g2 a b h1 h2)
  · have h2' : [a, b] <:+: m.bigEdgesList[j].reverse := by simpa using List.reverse_infix.2 h2
    have := GoodPath.unique m.cellAdj_symm (m.cellAdj_det hm) g1 (g2.reverse m.cellAdj_symm) a b h1 h2'
    exact n2 (by rw [this, List.reverse_reverse])

/-- an interface of the tissue is determined by any one of its mesh edges: two interfaces of a consistent mesh (cells
    with at least three vertices) that share a directed edge are equal -/
theorem bigEdgesList_eq_of_common_edge (m : Mesh) (hm : m.Consistent = true)
    (hlen : ∀ c ∈ m.cells, 3 ≤ c.2.verts.length) (e1 e2 : List Id) (he1 : e1 ∈ m.bigEdgesList)
    (he2 : e2 ∈ m.bigEdgesList) (a b : Id) (h1 : [a, b] <:+: e1) (h2 : [a, b] <:+: e2) : e1 = e2 :=
  GoodPath.unique m.cellAdj_symm (m.cellAdj_det hm) (m.goodPath_of_mem hm hlen e1 he1)
    (m.goodPath_of_mem hm hlen e2 he2) a b h1 h2

/-- `hm`, `hlen`, `h1`, `h2` of `bigEdgesList_unique_per_edge`: in the lens tissue every cell has at least three
    vertices; the mesh edge `2 – 1` is walked as `2, 1` by cell 0 and cell 1 (interface 0 = `[0, 2, 1]`) -/
example : lensTissue.Consistent = true ∧ (∀ c ∈ lensTissue.cells, 3 ≤ c.2.verts.length) ∧
    lensTissue.bigEdgesList[0]? = some [0, 2, 1] ∧ [(2 : Id), 1] <:+: [0, 2, 1] :=
  ⟨by decide +kernel, by decide +kernel, by decide +kernel, ⟨[0], [], rfl⟩⟩

end Forsys
