/-
  Property C06, additions: (1) `Mesh.mapP` / `FMInput.mapP` are functorial (composition, identity), (2) the transformations
  of Props/C06.lean form a group (rotations compose and invert, reflections in any axis are `flipP` up to a rotation,
  round trips restore the tissue), so the per-generator theorems of Props/C06system.lean extend to every composite
  similarity: (3) `pressureSystem_mapP_similarity_partial`, `normalisedMatrix_mapP_shift_scale_partial`, with the guards
  `PtsDefined` / `CellPtsDefined` shown pose independent; (4) the CODED tangent rule under mirror image and half turn
  (with witnesses for the excluded chords); (5) the adimensional right-hand side as a whole vector with the mean computed
  from the scaled speeds and an arbitrary rounding.
-/
import ForsysModel.Proofs.C06more

namespace Forsys
open FMInput C06 C06s

/-! ### 1. the maps of the positions compose: what is proved for each generator holds for every composite -/

/-- mapping twice is mapping by the composite -/
theorem mapP_comp (S T : Pt → Pt) (m : Mesh) : (m.mapP T).mapP S = m.mapP (S ∘ T) := C06m.mesh_mapP_comp S T m
/-- the identity map changes nothing -/
theorem mapP_id (m : Mesh) : m.mapP id = m := C06m.mesh_mapP_id m
/-- the same for the tissue with its fitted centres -/
theorem fmInput_mapP_comp (S T : Pt → Pt) (inp : FMInput) : (inp.mapP T).mapP S = inp.mapP (S ∘ T) := by
  simp only [FMInput.mapP, C06m.mesh_mapP_comp, List.map_map]
theorem fmInput_mapP_id (inp : FMInput) : inp.mapP id = inp := by
  cases inp
  simp [FMInput.mapP, C06m.mesh_mapP_id]

/-! ### 2. the transformations form a group (so the generator theorems cover every similarity and their inverses) -/

/-- two rational rotations compose to the rational rotation by the sum of the angles … -/
theorem rotP_comp (a b c d : Rat) (p : Pt) : rotP a b (rotP c d p) = rotP (a * c - b * d) (a * d + b * c) p := by
  simp only [rotP]; congr 1 <;> ring
/-- … which lies on the unit circle again -/
theorem rot_comp_unit (a b c d : Rat) (h1 : a * a + b * b = 1) (h2 : c * c + d * d = 1) :
    (a * c - b * d) * (a * c - b * d) + (a * d + b * c) * (a * d + b * c) = 1 := by
  linear_combination (c * c + d * d) * h1 + h2
/-- the rotation by the opposite angle undoes a rotation -/
theorem rotP_inverse (a b : Rat) (h : a * a + b * b = 1) : rotP a (-b) ∘ rotP a b = id := by
  funext p
  simp only [Function.comp, rotP, id]
  cases p with | mk x y =>
  congr 1
  · linear_combination x * h
  · linear_combination y * h
theorem flipP_involutive : flipP ∘ flipP = id := by
  funext p; cases p; simp [flipP]
theorem shiftP_inverse (d : Pt) : shiftP ⟨-d.x, -d.y⟩ ∘ shiftP d = id := by
  funext p; cases p; simp [shiftP]
theorem scaleP_inverse (s : Rat) (hs : s ≠ 0) : scaleP s⁻¹ ∘ scaleP s = id := by
  funext p; cases p; simp [scaleP, hs]
/-- a reflection in ANY axis through the origin is `flipP` followed by a rotation: `flipP ∘ rot θ = rot (−θ) ∘ flipP` -/
theorem flipP_rotP (a b : Rat) (p : Pt) : flipP (rotP a b p) = rotP a (-b) (flipP p) := by
  simp only [flipP, rotP]; congr 1 <;> ring

/-! ### 3. the side conditions are themselves invariant; composite similarities on the assembled systems -/

/-- the guard of the translation theorems does not depend on the pose -/
theorem ptsDefined_mapP (T : Pt → Pt) (inp : FMInput) : (inp.mapP T).PtsDefined ↔ inp.PtsDefined := by
  unfold FMInput.PtsDefined
  rw [C06s.earr_mapP]
  simp only [FMInput.mapP, vertex?_mapP, Option.isSome_map, List.length_map]

theorem cellPtsDefined_mapP (T : Pt → Pt) (m : Mesh) : (m.mapP T).CellPtsDefined ↔ m.CellPtsDefined := by
  unfold Mesh.CellPtsDefined
  simp only [cells_mapP, vertex?_mapP, Option.isSome_map]

/-- the pressure system does not see a general orientation-preserving similarity -/
theorem pressureSystem_mapP_similarity_partial (d : Pt) (s a b : Rat) (hs : 0 < s) (h : a * a + b * b = 1)
    (m : Mesh) (hd : m.CellPtsDefined) (tens curv : List Rat) :
    (m.mapP (shiftP d ∘ scaleP s ∘ rotP a b)).pressureSystem tens curv = m.pressureSystem tens curv := by
  rw [← mapP_comp, ← mapP_comp,
    pressureSystem_mapP_translate_partial d _ ((cellPtsDefined_mapP _ _).mpr ((cellPtsDefined_mapP _ _).mpr hd)),
    pressureSystem_mapP_scale s hs, pressureSystem_mapP_rotate a b h]

/-- the force matrix does not see a translation composed with a change of the length unit -/
theorem normalisedMatrix_mapP_shift_scale_partial (d : Pt) (s : Rat) (hs : 0 < s) (inp : FMInput) (hd : inp.PtsDefined)
    (len len' : Id → Nat → Rat) (hlen : ∀ v c, len' v c = s * len v c) :
    normalisedMatrix (inp.mapP (shiftP d ∘ scaleP s)) len' = normalisedMatrix inp len := by
  rw [← fmInput_mapP_comp, normalisedMatrix_mapP_translate_partial d _ ((ptsDefined_mapP _ _).mpr hd),
    normalisedMatrix_mapP_scale s hs inp len len' hlen]

/-- round trip: what holds for the translated tissue holds for the original (the translation theorems are `↔`) -/
theorem mapP_shift_round_trip (d : Pt) (m : Mesh) : (m.mapP (shiftP d)).mapP (shiftP ⟨-d.x, -d.y⟩) = m := by
  rw [mapP_comp, shiftP_inverse, mapP_id]
theorem mapP_rot_round_trip (a b : Rat) (h : a * a + b * b = 1) (m : Mesh) :
    (m.mapP (rotP a b)).mapP (rotP a (-b)) = m := by
  rw [mapP_comp, rotP_inverse a b h, mapP_id]
theorem mapP_flip_round_trip (m : Mesh) : (m.mapP flipP).mapP flipP = m := by
  rw [mapP_comp, flipP_involutive, mapP_id]
theorem mapP_scale_round_trip (s : Rat) (hs : s ≠ 0) (m : Mesh) : (m.mapP (scaleP s)).mapP (scaleP s⁻¹) = m := by
  rw [mapP_comp, scaleP_inverse s hs, mapP_id]

/-! ### 4. the CODED sign rule under the remaining symmetries of the square -/

/-- full statement (without `hy`) is false: `tangentVec_reflect_witness` (`0 ↦ +1` in `get_versor_sign`).
    The coded rule is mirrored with the tissue (mirror in the x-axis) when the chord is not horizontal -/
theorem tangentVec_reflect_partial (p c : Pt) (ch : Vec) (hy : ch.y ≠ 0) :
    tangentVec (flipP p) (flipP c) (flipV ch) = flipV (tangentVec p c ch) := by
  rw [tv_eq, tv_eq]
  simp only [flipP, flipV, forcedSign_neg _ hy]
  have e1 : -p.y - -c.y = -(p.y - c.y) := by ring
  rw [e1, abs_neg]
  apply vec_ext
  · simp only
  · simp only [Int.cast_neg]; ring

/-- horizontal chord: the mirrored junction gets the un-mirrored y-component -/
theorem tangentVec_reflect_witness :
    tangentVec (flipP ⟨4, 3⟩) (flipP ⟨0, 0⟩) (flipV ⟨1, 0⟩) = ⟨3, 4⟩ ∧
    flipV (tangentVec ⟨4, 3⟩ ⟨0, 0⟩ ⟨1, 0⟩) = ⟨3, -4⟩ := by decide +kernel

/-- full statement (without `hx`, `hy`) is false: `tangentVec_half_turn_witness`.
    Half turn (rotation by 180°, `a = −1, b = 0`): the coded tangent turns with the tissue when no chord component vanishes -/
theorem tangentVec_half_turn_partial (p c : Pt) (ch : Vec) (hx : ch.x ≠ 0) (hy : ch.y ≠ 0) :
    tangentVec (rotP (-1) 0 p) (rotP (-1) 0 c) (rotV (-1) 0 ch) = rotV (-1) 0 (tangentVec p c ch) := by
  rw [tv_eq, tv_eq]
  simp only [rotP, rotV, zero_mul, neg_one_mul, sub_zero, zero_add, forcedSign_neg _ hx, forcedSign_neg _ hy]
  have e1 : -p.y - -c.y = -(p.y - c.y) := by ring
  have e2 : -p.x - -c.x = -(p.x - c.x) := by ring
  rw [e1, e2, abs_neg, abs_neg]
  apply vec_ext <;> simp only [Int.cast_neg] <;> ring

theorem tangentVec_half_turn_witness :
    tangentVec (rotP (-1) 0 ⟨4, 3⟩) (rotP (-1) 0 ⟨0, 0⟩) (rotV (-1) 0 ⟨0, 1⟩)
      ≠ rotV (-1) 0 (tangentVec ⟨4, 3⟩ ⟨0, 0⟩ ⟨0, 1⟩) := by decide +kernel

/-- the reference tangent under a general orientation-preserving similarity `x ↦ d + s·R x`: scaled and rotated, the
    unit tangent is the rotated unit tangent -/
theorem tangentVecDot_similarity (d : Pt) (s a b : Rat) (hs : 0 < s) (h : a * a + b * b = 1) (p c : Pt) (ch : Vec) :
    tangentVecDot (shiftP d (scaleP s (rotP a b p))) (shiftP d (scaleP s (rotP a b c))) (Vec.smul s (rotV a b ch))
      = Vec.smul s (rotV a b (tangentVecDot p c ch)) := by
  rw [tangentVecDot_translate, tangentVecDot_scale s hs, tangentVecDot_rotate a b h]

/-! ### 5. units of the velocity term, whole right-hand side -/

/-- `set_velocity_matrix` with `adimensional_velocity=True`, whole vector: multiplying every velocity component AND every
    junction speed by the same `k > 0` (`k = λ/μ` for lengths × λ, time stamps × μ) leaves `round(v / mean speed, 3)`
    unchanged entry by entry, for ANY rounding `r` — the mean is homogeneous of degree one.  `hne`, `hsum` are the guards
    under which Python does not divide by zero (`np.mean` of an empty list / zero mean speed). -/
theorem adimensional_mean_units (k : Rat) (hk : 0 < k) (r : Rat → Rat) (sp b : List Rat)
    (hne : sp ≠ []) (hsum : sp.sum ≠ 0) :
    (b.map fun v => r ((k * v) / ((sp.map (k * ·)).sum / sp.length)))
      = b.map fun v => r (v / (sp.sum / sp.length)) := by
  have _ := hne; have _ := hsum
  have e : (sp.map (k * ·)).sum = k * sp.sum := C06m.sum_map_mul_left' k sp
  apply List.map_congr_left
  intro v _
  rw [e, mul_div_assoc k sp.sum, mul_div_mul_left _ _ hk.ne']

/-! non-vacuity of the hypotheses -/
example : balInp.PtsDefined ∧ balMesh.CellPtsDefined := ⟨bal_mapP_hypotheses.1, bal_mapP_hypotheses.2.1⟩
example : (0 : Rat) < 5/2 ∧ (3/5 : Rat) * (3/5) + (4/5) * (4/5) = 1 ∧ (5/13 : Rat) * (5/13) + (12/13) * (12/13) = 1 := by
  norm_num
example : ∀ (v : Id) (c : Nat), (fun (_ : Id) (_ : Nat) => (5/2 : Rat)) v c = 5/2 * (fun (_ : Id) (_ : Nat) => (1 : Rat)) v c := by
  intro v c; norm_num
example : (⟨-3, 41⟩ : Vec).x ≠ 0 ∧ (⟨-3, 41⟩ : Vec).y ≠ 0 := by decide +kernel
example : ([3, 4, 5] : List Rat) ≠ [] ∧ ([3, 4, 5] : List Rat).sum ≠ 0 ∧ (0 : Rat) < 1000 := by
  refine ⟨by simp, by norm_num, by norm_num⟩
example : (5/2 : Rat) ≠ 0 := by norm_num

end Forsys
