/-
  Umbrella of property C04: the turning estimate, single rows, the constrained least-squares solve and the zero
  re-insertion on abstract matrices (Props/C04.lean) and the ASSEMBLED pressure system of a mesh — shape, the
  Young–Laplace equation of every internal interface, linearity in the tensions, the removed columns, orientation of the
  stored cycles, vertex renumbering and dictionary order, kernel and uniqueness (Props/C04system.lean; model
  ForsysModel/Model/PressureSystem.lean, which the driver operation `pmatrix` calls).
  lean/props.json names this module for C04, so that `./check C04` builds and audits both.
-/
import ForsysModel.Props.C04
import ForsysModel.Props.C04system
import ForsysModel.Props.C04more
