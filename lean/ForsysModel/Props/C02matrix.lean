/-
  Property C02, matrix part — which vertices get a pair of equations, and which coefficient sits where.
  Model: ForsysModel/Model/FMatrix.lean (`FMInput.build` = ForceMatrix._build_matrix, `vertexEquation` =
  get_vertex_equation, `eidFromVertex` = virtual_edges.eid_from_vertex), tangents from Model/Tangent.lean.

  `eid_from_vertex` after the repair of finding D29 returns the first column holding the asked vertex list itself
  (before: the first column sharing two vertices with it, which confused the two interfaces of a lens).  With that
  rule the placement and row-rule theorems below need no hypothesis on the tissue: the interface list has no
  repetition (`earr_nodup`), so every used interface finds its own column (`eidFromVertex_self`) and an interface
  excluded by the angle limit finds none (`eidFromVertex_unused`).

  Vocabulary (defined in Proofs/C02matrix.lean, namespace `Forsys.FMInput`):
    `endsAt e v`            v is the first or the last vertex of interface `e`
    `usedIdx inp earr`      positions in `earr` of the used interfaces, in column order (`used_eq_usedIdx`)
    `coefAt inp earr used v c`   closed form of entry `c` of the row pair of `v`
    `isPlaced o`            `o` is a non-zero vector (what the row filter counts)
    `placedEnds inp earr used v` number of used non-external interfaces ending at `v` with non-vanishing tangent
    `endCount used v`       number of used interfaces ending at `v`
    `hasRow out v`          `v` gets a pair of equations: `∃ r ∈ out.rows, r.1 = v ∧ r.2.1 = true`
    `entryX o`, `entryY o`  components of an entry pair, `none ↦ 0`
  A matrix entry pair is the *un-normalised* vector (`none` = untouched zero); the stored coefficient is
  `v / ‖v‖` with `‖v‖² = distSq p c` for arcs (`tangentVec_normSq`, Props/C02.lean).
-/
import ForsysModel.Model.FMatrix
import ForsysModel.Model.Construct
import ForsysModel.Proofs.C02matrix
import ForsysModel.Props.C08

namespace Forsys
open FMInput

/-! ### `eid_from_vertex` -/

/-- `eid_from_vertex` returns the first position whose vertex list IS the asked list (same ids, same direction) … -/
theorem eidFromVertex_some_iff (earr : List (List Id)) (vbel : List Id) (c : Nat) :
    eidFromVertex earr vbel = some c ↔
      c < earr.length ∧ earr.getD c [] = vbel ∧ ∀ j < c, earr.getD j [] ≠ vbel := by
  exact eidFromVertex_some_iff' earr vbel c

/-- … and raises exactly when the asked list is not in the array -/
theorem eidFromVertex_none_iff (earr : List (List Id)) (vbel : List Id) :
    eidFromVertex earr vbel = none ↔ vbel ∉ earr := by
  exact eidFromVertex_none_iff_not_mem earr vbel

/-- column `c` is interface number `usedIdx[c]` of `big_edges_list` -/
theorem used_eq_usedIdx (inp : FMInput) (earr : List (List Id)) :
    inp.used earr = (inp.usedIdx earr).map fun i => earr.getD i [] := by
  exact used_eq_usedIdx' inp earr

/-- `create_edges_new` lists no interface twice … -/
theorem earr_nodup (inp : FMInput) : inp.earr.Nodup := by
  unfold FMInput.earr Mesh.bigEdgesList
  exact dedup_nodup _

/-- … hence every unknown belongs to a non-external interface (`BigEdge.external` is false) -/
theorem used_not_external (inp : FMInput) (c : Nat) (hc : c < inp.build.used.length) :
    inp.mesh.bigEdgeExternal (inp.build.used.getD c []) = false := by
  exact used_not_external_of_nodup inp inp.earr (earr_nodup inp) c hc

/-- no column is listed twice -/
theorem used_nodup (inp : FMInput) : inp.build.used.Nodup := by
  exact used_nodup' inp inp.earr (earr_nodup inp)

/-- the query `get_vertex_equation` makes for a used interface (its own vertex list; the query does not depend on
    the junction) returns the interface's own column -/
theorem eidFromVertex_self (inp : FMInput) (c : Nat) (hc : c < inp.build.used.length) :
    eidFromVertex inp.build.used (inp.build.used.getD c []) = some c := by
  exact eidFromVertex_self' inp inp.earr (earr_nodup inp) c hc

/-- the query made for an interface that is not used (internal with both ends angle-limited, or not internal at
    all) raises `BigEdgesBadlyCreated`: the interface is skipped -/
theorem eidFromVertex_unused (inp : FMInput) (i : Nat) (hi : i < inp.earr.length)
    (hnot : i ∉ inp.usedIdx inp.earr) :
    eidFromVertex inp.build.used (inp.earr.getD i []) = none := by
  exact eidFromVertex_unused' inp inp.earr (earr_nodup inp) i hi hnot

/-- without an angle limit every non-external interface is used: nothing is skipped -/
theorem used_of_not_external_no_limit (inp : FMInput) (h : inp.cosLimit = none) (i : Nat)
    (hi : i < inp.earr.length) (hext : inp.mesh.bigEdgeExternal (inp.earr.getD i []) = false) :
    i ∈ inp.usedIdx inp.earr := by
  exact mem_usedIdx_no_limit inp inp.earr h i hi hext

/-! ### coefficient placement -/

/-- every candidate vertex (kept or not), every column: the entry pair is `coefAt`, i.e. the model's vector
    `get_vector_from_vertex` of interface `c` at the vertex if the interface ends there, is non-external and the
    vertex lies in more than two cells, and the untouched zero otherwise -/
theorem coefficient_placement_all (inp : FMInput)
    (r : Id × Bool × List (Option Vec)) (hr : r ∈ inp.build.rows) (c : Nat) (hc : c < inp.build.used.length) :
    r.2.2[c]? = some (inp.coefAt inp.earr inp.build.used r.1 c) := by
  obtain ⟨_, _, h3⟩ := build_row inp r hr
  rw [h3]
  exact vertexEquation_getElem inp inp.earr r.1 c (earr_nodup inp) hc

/-- a junction that gets its two equations: in column `c` stands the (un-normalised) tangent of interface `c` at the
    junction — `vectorFromVertex` on the interface's vertex ids, points and fitted centre — when interface `c` ends
    at the junction (first or last vertex), and nothing otherwise.  (Used interfaces are non-external:
    `used_not_external`.) -/
theorem coefficient_placement (inp : FMInput)
    (r : Id × Bool × List (Option Vec)) (hr : r ∈ inp.build.rows) (hk : r.2.1 = true)
    (c : Nat) (hc : c < inp.build.used.length) :
    r.2.2[c]? = some (if endsAt (inp.build.used.getD c []) r.1 = true
      then vectorFromVertex (inp.build.used.getD c []) ((inp.build.used.getD c []).map inp.mesh.pt)
             (inp.centers.getD ((inp.usedIdx inp.earr).getD c 0) default) r.1
      else none) := by
  rw [coefficient_placement_all inp r hr c hc]
  obtain ⟨_, h2, _⟩ := build_row inp r hr
  have hcells : (inp.mesh.ownCells r.1).length > 2 := by
    by_contra hn
    rw [h2, not_kept_few_cells' inp _ _ r.1 _ (by omega)] at hk
    exact absurd hk (by simp)
  have hext := used_not_external inp c hc
  congr 1
  unfold coefAt
  rw [hext]
  simp only [hcells, decide_true, Bool.and_true, Bool.not_false]
  unfold vecAt
  simp only []
  rw [← used_getD inp inp.earr c hc]
  rfl

/-- the same, component by component: x-row and y-row entries -/
theorem coefficient_placement_xy (inp : FMInput)
    (r : Id × Bool × List (Option Vec)) (hr : r ∈ inp.build.rows) (hk : r.2.1 = true)
    (c : Nat) (hc : c < inp.build.used.length) :
    entryX (r.2.2.getD c none) = (if endsAt (inp.build.used.getD c []) r.1 = true
      then entryX (vectorFromVertex (inp.build.used.getD c []) ((inp.build.used.getD c []).map inp.mesh.pt)
             (inp.centers.getD ((inp.usedIdx inp.earr).getD c 0) default) r.1)
      else 0) ∧
    entryY (r.2.2.getD c none) = (if endsAt (inp.build.used.getD c []) r.1 = true
      then entryY (vectorFromVertex (inp.build.used.getD c []) ((inp.build.used.getD c []).map inp.mesh.pt)
             (inp.centers.getD ((inp.usedIdx inp.earr).getD c 0) default) r.1)
      else 0) := by
  have := coefficient_placement inp r hr hk c hc
  rw [List.getD_eq_getElem?_getD, this]
  simp only [Option.getD_some]
  split <;> exact ⟨rfl, rfl⟩

/-! ### which vertices get equations -/

/-- a vertex gets a pair of equations iff it is an end of a used interface, lies in at least three cells, and at
    least three (with `ignore_four`: exactly three) used non-external interfaces ending at it have a non-vanishing
    tangent there -/
theorem row_rule_spec (inp : FMInput) (v : Id) :
    hasRow inp.build v ↔
      v ∈ endsOf inp.build.used ∧ 3 ≤ (inp.mesh.ownCells v).length ∧
      3 ≤ inp.placedEnds inp.earr inp.build.used v ∧
      (inp.ignoreFour = true → inp.placedEnds inp.earr inp.build.used v < 4) := by
  rw [hasRow_iff, keepRow_vertexEquation inp inp.earr v inp.ignoreFour (earr_nodup inp)]
  rfl

/-- when the tangents at `v` do not vanish: iff `v` lies in at least three cells and at least three (with
    `ignore_four`: exactly three) used interfaces end at it -/
theorem row_rule_spec_nondegenerate (inp : FMInput) (v : Id)
    (hnz : ∀ c < inp.build.used.length, endsAt (inp.build.used.getD c []) v = true →
      isPlaced (inp.vecAt inp.earr ((inp.usedIdx inp.earr).getD c 0) v) = true) :
    hasRow inp.build v ↔
      v ∈ endsOf inp.build.used ∧ 3 ≤ (inp.mesh.ownCells v).length ∧
      3 ≤ endCount inp.build.used v ∧ (inp.ignoreFour = true → endCount inp.build.used v < 4) := by
  rw [row_rule_spec inp v, placedEnds_eq_endCount]
  intro c hc he
  exact ⟨used_not_external inp c hc, hnz c hc he⟩

/-- any other vertex gets none: not an end of a used interface, or in at most two cells -/
theorem no_row_otherwise (inp : FMInput) (v : Id)
    (h : v ∉ endsOf inp.build.used ∨ (inp.mesh.ownCells v).length ≤ 2) : ¬ hasRow inp.build v := by
  rw [hasRow_iff]
  rintro ⟨h1, h2⟩
  rcases h with h | h
  · exact h h1
  · rw [not_kept_few_cells' inp _ _ v _ h] at h2
    exact absurd h2 (by simp)

/-! ### the unknowns -/

/-- without an angle limit the unknowns are exactly the internal interfaces, in the order of `internalIdx`
    (`Frame.internal_big_edges`), and every row has one column per internal interface -/
theorem unknowns_spec (inp : FMInput) (h : inp.cosLimit = none) :
    inp.build.used = (inp.mesh.internalIdx inp.earr).map (fun i => inp.earr.getD i []) ∧
    ∀ r ∈ inp.build.rows, r.2.2.length = (inp.mesh.internalIdx inp.earr).length := by
  have hu : inp.build.used = (inp.mesh.internalIdx inp.earr).map (fun i => inp.earr.getD i []) :=
    used_no_limit' inp inp.earr h
  refine ⟨hu, ?_⟩
  intro r hr
  rw [build_rows_width' inp r hr, hu, List.length_map]

/-! ### the lens: two interfaces between the same pair of junctions -/

/-- a lens: junctions 0 and 1 joined by the two-point interface `[1,0]` and by the three-point interface `[0,2,1]`
    (cell 0 between them — a cell with exactly two neighbours —, cells 1 and 2 above and below) -/
def lensMesh : Mesh := Mesh.ofLists
  [(0,0,0),(1,4,0),(2,2,1),(3,-3,0),(4,7,0),(5,2,5),(6,2,-5)]
  [(0,0,2),(1,2,1),(2,0,1),(3,3,0),(4,1,4),(5,4,5),(6,5,3),(7,3,6),(8,6,4)]
  [(0,[0,2,1]),(1,[3,0,2,1,4,5]),(2,[3,6,4,1,0])]

def lensInp : FMInput :=
  { mesh := lensMesh, centers := [⟨2,-3/2⟩,⟨0,0⟩,⟨0,0⟩,⟨0,0⟩,⟨0,0⟩,⟨0,0⟩], cosLimit := none, ignoreFour := false }

/-- on the (consistent) lens mesh both interfaces between junctions 0 and 1 find their own column — `[0,2,1]`
    column 0, `[1,0]` column 1, although they share the vertices 0 and 1 (the rule before the repair of D29 sent
    `[1,0]` to column 0; the chord overwrote the arc tangent, only two entries were placed and both junctions lost
    their equations).  Junctions 0 and 1 (three cells, three used interfaces each) get their row pair: the arc tangent
    `(3/2,2)` / `(-3/2,2)` of `[0,2,1]` (fitted centre `(2,-3/2)`) in column 0, the chord `(4,0)` / `(-4,0)` of
    `[1,0]` in column 1, the outer spoke in column 2 resp. 3. -/
theorem lens_witness :
    lensMesh.Consistent = true ∧
    lensInp.build.used = [[0,2,1],[1,0],[3,0],[1,4]] ∧
    eidFromVertex lensInp.build.used [0,2,1] = some 0 ∧ eidFromVertex lensInp.build.used [1,0] = some 1 ∧
    lensInp.vecAt lensInp.earr 0 0 = some ⟨3/2, 2⟩ ∧ lensInp.vecAt lensInp.earr 1 0 = some ⟨4, 0⟩ ∧
    lensInp.vecAt lensInp.earr 0 1 = some ⟨-3/2, 2⟩ ∧ lensInp.vecAt lensInp.earr 1 1 = some ⟨-4, 0⟩ ∧
    (lensInp.mesh.ownCells 0).length = 3 ∧ endCount lensInp.build.used 0 = 3 ∧
    (lensInp.mesh.ownCells 1).length = 3 ∧ endCount lensInp.build.used 1 = 3 ∧
    lensInp.build.rows =
      [(0, true, [some ⟨3/2,2⟩, some ⟨4,0⟩, some ⟨-3,0⟩, none]),
       (1, true, [some ⟨-3/2,2⟩, some ⟨-4,0⟩, none, some ⟨3,0⟩]),
       (3, false, [none, none, none, none]),
       (4, false, [none, none, none, none])] := by
  decide +kernel

/-- the general theorems instantiated on the lens: junctions 0 and 1 get equations, 3 and 4 do not -/
example : hasRow lensInp.build 0 ∧ hasRow lensInp.build 1 ∧ ¬ hasRow lensInp.build 3 ∧ ¬ hasRow lensInp.build 4 := by
  refine ⟨?_, ?_, ?_, ?_⟩
  · rw [row_rule_spec lensInp 0]; decide +kernel
  · rw [row_rule_spec lensInp 1]; decide +kernel
  · rw [row_rule_spec lensInp 3]; decide +kernel
  · rw [row_rule_spec lensInp 4]; decide +kernel

/-! ### non-vacuity: three cells around junction 0, three-point interfaces -/

def triMesh : Mesh := Mesh.ofLists
  [(0,0,0),(1,3,1),(2,4,2),(3,-1,3),(4,-2,4),(5,1,-3),(6,2,-4),(7,1,6),(8,-5,0),(9,5,-2)]
  [(0,0,1),(1,1,2),(2,0,3),(3,3,4),(4,0,5),(5,5,6),(6,2,7),(7,7,4),(8,4,8),(9,8,6),(10,6,9),(11,9,2)]
  [(0,[0,1,2,7,4,3]),(1,[0,3,4,8,6,5]),(2,[0,5,6,9,2,1])]

def triInp : FMInput :=
  { mesh := triMesh, centers := [⟨0,5⟩,⟨0,0⟩,⟨-5,0⟩,⟨0,0⟩,⟨5,0⟩,⟨0,0⟩], cosLimit := none, ignoreFour := false }

/-- the model computes what the theorems say: unknowns = the three spokes, one row pair, at junction 0, holding
    the three tangents -/
example : triMesh.Consistent = true ∧
    triInp.build.used = [[0,1,2],[4,3,0],[6,5,0]] ∧
    triInp.build.rows = [(0, true, [some ⟨5,0⟩, some ⟨0,5⟩, some ⟨0,-5⟩]), (2, false, [none, none, none]),
      (4, false, [none, none, none]), (6, false, [none, none, none])] := by
  decide +kernel

/-- instantiated conclusions -/
example : hasRow triInp.build 0 ∧ ¬ hasRow triInp.build 2 := by
  constructor
  · rw [row_rule_spec triInp 0]; decide +kernel
  · rw [row_rule_spec triInp 2]; decide +kernel

example : ∀ r ∈ triInp.build.rows, r.2.1 = true → ∀ c < triInp.build.used.length,
    r.2.2[c]? = some (if endsAt (triInp.build.used.getD c []) r.1 = true
      then vectorFromVertex (triInp.build.used.getD c []) ((triInp.build.used.getD c []).map triInp.mesh.pt)
             (triInp.centers.getD ((triInp.usedIdx triInp.earr).getD c 0) default) r.1
      else none) :=
  fun r hr hk c hc => coefficient_placement triInp r hr hk c hc

/-- hypothesis of `row_rule_spec_nondegenerate` at junction 0 -/
example : ∀ c < triInp.build.used.length, endsAt (triInp.build.used.getD c []) 0 = true →
    isPlaced (triInp.vecAt triInp.earr ((triInp.usedIdx triInp.earr).getD c 0) 0) = true := by
  decide +kernel

example : triInp.cosLimit = none := rfl

end Forsys
