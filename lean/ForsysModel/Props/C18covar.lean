/-
  Property C18 (widening) — covariance of the coarse-grained stress tensor of one grid cell (`sigmaOf`):
  row order of the two tables, translations, scalings, rotations and reflections of the tissue; real principal
  stresses; additivity in the loads; the trace formula.
  Property theorems only (helper lemmas and the transformation vocabulary `CellRow.translate/scale/rotate/reflect`,
  `EdgeRow.scale/rotate/reflect`, `Pt.…`, `Mat2.conj/flip/mulVec/tr/det` live in ForsysModel/Proofs/C18covar.lean).
  Model: ForsysModel/Model/StressTensor.lean.
-/
import ForsysModel.Model.StressTensor
import ForsysModel.Proofs.C18covar

namespace Forsys

/-! ### row order never matters

  No `Nodup` hypothesis on the ids is needed: `selectEdges` only asks whether `cell1`/`cell2` occur among the
  selected ids (`isin`), and membership is invariant under permutation (and under duplicates). -/

/-- permuting the rows of `get_cells_df` and/or of `get_big_edges_df` leaves the tensor of every grid cell unchanged -/
theorem sigma_perm (cells cells' : List CellRow) (edges edges' : List EdgeRow) (c : Pt) (md2 : Rat)
    (h1 : cells.Perm cells') (h2 : edges.Perm edges') :
    sigmaOf cells edges c md2 = sigmaOf cells' edges' c md2 := by
  exact sigma_perm_pf cells cells' edges edges' c md2 h1 h2

/-! non-vacuity: a genuine transposition of two different rows -/
example : [({ id := 0, xcm := 0, ycm := 0, area := 1, pressure := 3 } : CellRow),
      { id := 1, xcm := 1, ycm := 0, area := 2, pressure := 5 }].Perm
    [{ id := 1, xcm := 1, ycm := 0, area := 2, pressure := 5 },
      { id := 0, xcm := 0, ycm := 0, area := 1, pressure := 3 }] := List.Perm.swap _ _ _

/-! ### translation -/

/-- translating every cell centre and the grid centre by the same vector leaves the tensor unchanged
    (interface vectors are differences of vertex positions and do not move) -/
theorem sigma_translate (cells : List CellRow) (edges : List EdgeRow) (c : Pt) (md2 dx dy : Rat) :
    sigmaOf (cells.map (CellRow.translate dx dy)) edges (c.translate dx dy) md2 = sigmaOf cells edges c md2 := by
  exact sigma_translate_pf cells edges c md2 dx dy

/-! ### scaling -/

/-- all lengths × s (centres, grid centre, vectors, norms × s; areas and the squared radius × s²), pressures kept,
    tensions × s: the tensor is unchanged.  (`s ≠ 0` suffices algebraically; a physical scaling has `s > 0`.) -/
theorem sigma_scale (cells : List CellRow) (edges : List EdgeRow) (c : Pt) (md2 s : Rat) (hs : s ≠ 0) :
    sigmaOf (cells.map (CellRow.scale s)) (edges.map (EdgeRow.scale s s)) (c.scale s) (s * s * md2)
      = sigmaOf cells edges c md2 := by
  exact sigma_scale_pf cells edges c md2 s hs

/-- the exact scaling law: all lengths × s and tensions × t is the same as the original geometry with tensions
    × t/s; pressures enter unchanged.  With t = 1 (tensions kept): the tension part of the tensor scales as 1/s. -/
theorem sigma_scale_law (cells : List CellRow) (edges : List EdgeRow) (c : Pt) (md2 s t : Rat) (hs : s ≠ 0) :
    sigmaOf (cells.map (CellRow.scale s)) (edges.map (EdgeRow.scale s t)) (c.scale s) (s * s * md2)
      = sigmaOf cells (edges.map fun e => e.setT (t / s * e.stress)) c md2 := by
  exact sigma_scale_law_pf cells edges c md2 s t hs

/-
  False without `s ≠ 0` — see `sigma_scale_witness`: for s = 0 every centre collapses onto the grid centre, all
  areas vanish and the tensor is the zero matrix.
    theorem sigma_scale_all (…) (s : Rat) : sigmaOf (cells.map (CellRow.scale s)) … = sigmaOf cells edges c md2
-/
theorem sigma_scale_witness :
    let cells : List CellRow := [{ id := 0, xcm := 0, ycm := 0, area := 1, pressure := 3 }]
    sigmaOf (cells.map (CellRow.scale 0)) [] (Pt.scale 0 ⟨0, 0⟩) (0 * 0 * 1) = Mat2.zero ∧
    sigmaOf cells [] ⟨0, 0⟩ 1 = Mat2.scalar (-3) := by
  decide +kernel

/-! ### rotation and reflection -/

/-- a rational rotation `R = [[a, -b], [b, a]]`, `a² + b² = 1`, applied to all centres, the grid centre and all
    interface vectors (norms kept): the new tensor is `R σ Rᵀ` -/
theorem sigma_rotate (cells : List CellRow) (edges : List EdgeRow) (c : Pt) (md2 a b : Rat)
    (hab : a * a + b * b = 1) :
    sigmaOf (cells.map (CellRow.rotate a b)) (edges.map (EdgeRow.rotate a b)) (c.rotate a b) md2
      = Mat2.conj a b (sigmaOf cells edges c md2) := by
  exact sigma_rotate_pf cells edges c md2 a b hab

/-! non-vacuity: the 3-4-5 rotation -/
example : (3/5 : Rat) * (3/5) + (4/5) * (4/5) = 1 := by norm_num

/-- `Mat2.conj` is what it is meant to be: for a symmetric tensor its entries are those of `R σ Rᵀ` -/
theorem conj_entries (a b : Rat) (m : Mat2) (h : m.xy = m.yx) :
    (Mat2.conj a b m).xx = a * a * m.xx - 2 * a * b * m.xy + b * b * m.yy ∧
    (Mat2.conj a b m).xy = a * b * (m.xx - m.yy) + (a * a - b * b) * m.xy ∧
    (Mat2.conj a b m).yx = (Mat2.conj a b m).xy ∧
    (Mat2.conj a b m).yy = b * b * m.xx + 2 * a * b * m.xy + a * a * m.yy := by
  obtain ⟨xx, xy, yx, yy⟩ := m
  simp only [Mat2.conj] at *
  subst h
  refine ⟨?_, ?_, ?_, ?_⟩ <;> ring

/-- trace and determinant (hence the principal stresses) are invariant under the rotation -/
theorem sigma_rotate_invariants (cells : List CellRow) (edges : List EdgeRow) (c : Pt) (md2 a b : Rat)
    (hab : a * a + b * b = 1) :
    (sigmaOf (cells.map (CellRow.rotate a b)) (edges.map (EdgeRow.rotate a b)) (c.rotate a b) md2).tr
        = (sigmaOf cells edges c md2).tr ∧
    (sigmaOf (cells.map (CellRow.rotate a b)) (edges.map (EdgeRow.rotate a b)) (c.rotate a b) md2).det
        = (sigmaOf cells edges c md2).det := by
  rw [sigma_rotate_pf cells edges c md2 a b hab]
  exact conj_tr_det_pf a b hab _

/-- reflection `(x, y) ↦ (x, −y)` of centres, grid centre and interface vectors: the off-diagonal entries change sign -/
theorem sigma_reflect (cells : List CellRow) (edges : List EdgeRow) (c : Pt) (md2 : Rat) :
    sigmaOf (cells.map CellRow.reflect) (edges.map EdgeRow.reflect) c.reflect md2
      = Mat2.flip (sigmaOf cells edges c md2) := by
  exact sigma_reflect_pf cells edges c md2

/-! ### real principal stresses -/

/-- the discriminant of the characteristic polynomial `λ² − tr·λ + det` of the tensor is
    `(σxx − σyy)² + 4 σxy²`, hence non-negative: `np.linalg.eig` returns real principal stresses -/
theorem sigma_real_principal (cells : List CellRow) (edges : List EdgeRow) (c : Pt) (md2 : Rat) :
    let m := sigmaOf cells edges c md2
    (m.xx - m.yy) * (m.xx - m.yy) + 4 * (m.xy * m.xy) = m.tr * m.tr - 4 * m.det
      ∧ 0 ≤ m.tr * m.tr - 4 * m.det := by
  exact c18_disc_pf _ (sigma_symm_pf cells edges c md2)

/-- symmetry is what makes them real: a non-symmetric 2×2 matrix can have a negative discriminant -/
theorem nonsymmetric_discriminant_witness :
    (Mat2.mk 0 1 (-1) 0).tr * (Mat2.mk 0 1 (-1) 0).tr - 4 * (Mat2.mk 0 1 (-1) 0).det < 0 := by
  decide +kernel

/-- under the hypotheses of `sigma_pure_pressure` every vector is an eigenvector with eigenvalue `−p` -/
theorem pure_pressure_every_direction (cells : List CellRow) (edges : List EdgeRow) (c : Pt) (md2 p ux uy : Rat)
    (hT : ∀ e ∈ edges, e.stress = 0) (hp : ∀ k ∈ cells, k.pressure = p)
    (hA : totalArea (selectCells cells c md2) ≠ 0) :
    (sigmaOf cells edges c md2).mulVec ux uy = (-p * ux, -p * uy) := by
  rw [sigma_pure_pressure_pf cells edges c md2 p hT hp hA]
  simp [Mat2.mulVec, Mat2.scalar]

/-! non-vacuity (one cell of area 1 inside the radius, one interface of zero tension) -/
example : (∀ e ∈ [({ stress := 0, vx := 1, vy := 0, norm := 1, cell1 := 0, cell2 := -1 } : EdgeRow)], e.stress = 0) ∧
    (∀ k ∈ [({ id := 0, xcm := 0, ycm := 0, area := 1, pressure := 3 } : CellRow)], k.pressure = 3) ∧
    totalArea (selectCells [({ id := 0, xcm := 0, ycm := 0, area := 1, pressure := 3 } : CellRow)] ⟨0, 0⟩ 1) ≠ 0 := by
  decide +kernel

/-! ### additivity in the loads (corollary of `sigma_bilinear` with a = b = 1) -/

theorem sigma_additive_loads (cs : List (CellRow × Rat × Rat)) (es : List (EdgeRow × Rat × Rat))
    (c : Pt) (md2 : Rat) :
    sigmaOf (cs.map fun t => t.1.setP (t.2.1 + t.2.2)) (es.map fun t => t.1.setT (t.2.1 + t.2.2)) c md2
      = Mat2.add (sigmaOf (cs.map fun t => t.1.setP t.2.1) (es.map fun t => t.1.setT t.2.1) c md2)
          (sigmaOf (cs.map fun t => t.1.setP t.2.2) (es.map fun t => t.1.setT t.2.2) c md2) := by
  exact sigma_additive_loads_pf cs es c md2

/-! ### trace -/

/-- `tr σ = (−2 Σ pA + Σ T·|v|²/norm) / A_total`; nothing is assumed about `norm` (it is an input of the model) -/
theorem trace_formula (cells : List CellRow) (edges : List EdgeRow) (c : Pt) (md2 : Rat)
    (hA : totalArea (selectCells cells c md2) ≠ 0) :
    (sigmaOf cells edges c md2).tr
      = (2 * pressureAreaTerm (selectCells cells c md2)
          + ((selectEdges edges ((selectCells cells c md2).map (·.id))).map
              fun e => e.stress * (e.vx * e.vx + e.vy * e.vy) / e.norm).sum)
        / totalArea (selectCells cells c md2) := by
  exact trace_formula_pf cells edges c md2 hA

/-- when `norm` is the euclidean norm of the vector (for every selected interface):
    `tr σ = (−2 Σ pA + Σ T·norm) / A_total`  (a zero vector with zero norm contributes 0 on both sides) -/
theorem trace_formula_norm (cells : List CellRow) (edges : List EdgeRow) (c : Pt) (md2 : Rat)
    (hA : totalArea (selectCells cells c md2) ≠ 0)
    (hn : ∀ e ∈ selectEdges edges ((selectCells cells c md2).map (·.id)),
      e.norm * e.norm = e.vx * e.vx + e.vy * e.vy) :
    (sigmaOf cells edges c md2).tr
      = (2 * pressureAreaTerm (selectCells cells c md2)
          + ((selectEdges edges ((selectCells cells c md2).map (·.id))).map fun e => e.stress * e.norm).sum)
        / totalArea (selectCells cells c md2) := by
  exact trace_formula_norm_pf cells edges c md2 hA hn

/-! non-vacuity: one cell, one selected interface with the 3-4-5 vector -/
example :
    let cells : List CellRow := [{ id := 0, xcm := 0, ycm := 0, area := 1, pressure := 3 }]
    let edges : List EdgeRow := [{ stress := 2, vx := 3, vy := 4, norm := 5, cell1 := 0, cell2 := -1 }]
    totalArea (selectCells cells ⟨0, 0⟩ 1) ≠ 0 ∧
    selectEdges edges ((selectCells cells ⟨0, 0⟩ 1).map (·.id)) = edges ∧
    ∀ e ∈ selectEdges edges ((selectCells cells ⟨0, 0⟩ 1).map (·.id)),
      e.norm * e.norm = e.vx * e.vx + e.vy * e.vy := by
  decide +kernel

/-- without the norm hypothesis the second form fails: vector (3, 4) with `norm = 1` -/
theorem trace_formula_norm_witness :
    let cells : List CellRow := [{ id := 0, xcm := 0, ycm := 0, area := 1, pressure := 0 }]
    let edges : List EdgeRow := [{ stress := 1, vx := 3, vy := 4, norm := 1, cell1 := 0, cell2 := -1 }]
    (sigmaOf cells edges ⟨0, 0⟩ 1).tr = 25 ∧
    (2 * pressureAreaTerm (selectCells cells ⟨0, 0⟩ 1)
        + ((selectEdges edges ((selectCells cells ⟨0, 0⟩ 1).map (·.id))).map fun e => e.stress * e.norm).sum)
      / totalArea (selectCells cells ⟨0, 0⟩ 1) = 1 := by
  decide +kernel

/-! ### the returned dictionary -/

/-- the whole dictionary `sigmas` does not depend on the row order of the two tables -/
theorem sigmas_perm (cells cells' : List CellRow) (edges edges' : List EdgeRow) (xb yb : List Rat) (md2 : Rat)
    (grid : Nat) (h1 : cells.Perm cells') (h2 : edges.Perm edges') :
    sigmasDict cells edges xb yb md2 grid = sigmasDict cells' edges' xb yb md2 grid := by
  exact sigmasDict_perm_pf cells cells' edges edges' xb yb md2 grid h1 h2

/-- numpy's bin edges move with the data: `binEdges (lo + d) (hi + d) = binEdges lo hi + d` -/
theorem binEdges_translate (lo hi d : Rat) (grid : Nat) :
    binEdges (lo + d) (hi + d) grid = (binEdges lo hi grid).map (· + d) := by
  exact binEdges_translate_pf lo hi d grid

/-- translating the tissue (cell centres and both lists of bin edges, each of the length grid+1 that
    `np.histogram` returns) leaves the whole dictionary unchanged.  The length guard matters: an index outside the
    list reads the default 0 of `getD`, which does not move (Python raises IndexError there). -/
theorem sigmas_translate (cells : List CellRow) (edges : List EdgeRow) (xb yb : List Rat) (md2 dx dy : Rat)
    (grid : Nat) (hx : xb.length = grid + 1) (hy : yb.length = grid + 1) :
    sigmasDict (cells.map (CellRow.translate dx dy)) edges (xb.map (· + dx)) (yb.map (· + dy)) md2 grid
      = sigmasDict cells edges xb yb md2 grid := by
  exact sigmasDict_translate_pf cells edges xb yb md2 dx dy grid hx hy

/-! non-vacuity: the bin edges of `np.histogram` have length grid+1 (`binEdges_length`) -/
example : (binEdges 0 3 2).length = 2 + 1 ∧ (binEdges 1 5 2).length = 2 + 1 := by decide +kernel

/-- the length guard of `sigmas_translate` is needed: with a bin-edge list that is too short the out-of-range
    read is the fixed default 0, and the translated input gives a different dictionary -/
theorem sigmas_translate_witness :
    let cells : List CellRow := [{ id := 0, xcm := 0, ycm := 0, area := 1, pressure := 1 }]
    sigmasDict (cells.map (CellRow.translate 10 0)) [] ([0].map (· + 10)) ([0].map (· + 0)) 1 1
      ≠ sigmasDict cells [] [0] [0] 1 1 := by
  decide +kernel

end Forsys
