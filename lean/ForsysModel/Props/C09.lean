/-
  Property C09 — every construction or editing path yields a consistent vertex–edge–cell mesh.
  `Mesh.Consistent` (ForsysModel/Model/Mesh.lean) is the property's statement clause by clause.
  Theorems: the constructor pattern used by every parser yields a consistent mesh; the editing
  primitives preserve the clauses they touch; the edge rebuild of generate_mesh restores clause (1).
-/
import ForsysModel.Model.Construct
import ForsysModel.Proofs.C09

namespace Forsys
open Mesh

/-- well-formed parser input: unique keys, edges join two different existing vertices, cells are
    duplicate-free cycles of existing vertices whose consecutive vertices are joined by a listed edge -/
structure WFInput (vs : List (Id × Rat × Rat)) (es : List (Id × Id × Id)) (cs : List (Id × List Id)) : Prop where
  vkeys : (vs.map (·.1)).Nodup
  ekeys : (es.map (·.1)).Nodup
  ckeys : (cs.map (·.1)).Nodup
  eends : ∀ e ∈ es, e.2.1 ≠ e.2.2 ∧ e.2.1 ∈ vs.map (·.1) ∧ e.2.2 ∈ vs.map (·.1)
  cverts : ∀ c ∈ cs, c.2.Nodup ∧ ∀ v ∈ c.2, v ∈ vs.map (·.1)
  cjoined : ∀ c ∈ cs, ∀ ab ∈ cyclicPairs c.2,
      ∃ e ∈ es, (e.2.1 = ab.1 ∧ e.2.2 = ab.2) ∨ (e.2.1 = ab.2 ∧ e.2.2 = ab.1)

theorem empty_consistent : Mesh.empty.Consistent = true := by
  decide

theorem WFInput.consP {vs : List (Id × Rat × Rat)} {es : List (Id × Id × Id)} {cs : List (Id × List Id)}
    (h : WFInput vs es cs) : ConsP (ofLists vs es cs) :=
  ofLists_consP vs es cs h.vkeys h.ekeys h.ckeys (fun e he => (h.eends e he).2) h.cverts h.cjoined

/-- (3) keys -/
theorem ofLists_keysOk (vs : List (Id × Rat × Rat)) (es : List (Id × Id × Id)) (cs : List (Id × List Id))
    (h : WFInput vs es cs) : (ofLists vs es cs).keysOk = true :=
  (keysOk_iff _).mpr h.consP.1

/-- (1) a vertex lists a mesh edge exactly when that edge ends at it -/
theorem ofLists_ownEdgesOk (vs : List (Id × Rat × Rat)) (es : List (Id × Id × Id)) (cs : List (Id × List Id))
    (h : WFInput vs es cs) : (ofLists vs es cs).ownEdgesOk = true :=
  (ownEdgesOk_iff _).mpr h.consP.2.1

/-- (2) a vertex lists a cell exactly when it occurs in that cell's cycle -/
theorem ofLists_ownCellsOk (vs : List (Id × Rat × Rat)) (es : List (Id × Id × Id)) (cs : List (Id × List Id))
    (h : WFInput vs es cs) : (ofLists vs es cs).ownCellsOk = true :=
  (ownCellsOk_iff _).mpr h.consP.2.2.1

theorem ofLists_refsOk (vs : List (Id × Rat × Rat)) (es : List (Id × Id × Id)) (cs : List (Id × List Id))
    (h : WFInput vs es cs) : (ofLists vs es cs).refsOk = true :=
  (refsOk_iff _).mpr h.consP.2.2.2.1

theorem ofLists_cellsNodup (vs : List (Id × Rat × Rat)) (es : List (Id × Id × Id)) (cs : List (Id × List Id))
    (h : WFInput vs es cs) : (ofLists vs es cs).cellsNodup = true :=
  (cellsNodup_iff _).mpr h.consP.2.2.2.2.1

theorem ofLists_cyclesJoined (vs : List (Id × Rat × Rat)) (es : List (Id × Id × Id)) (cs : List (Id × List Id))
    (h : WFInput vs es cs) : (ofLists vs es cs).cyclesJoined = true :=
  (cyclesJoined_iff _).mpr h.consP.2.2.2.2.2

/-- the parser pattern yields a consistent mesh for every well-formed input -/
theorem ofLists_consistent (vs : List (Id × Rat × Rat)) (es : List (Id × Id × Id)) (cs : List (Id × List Id))
    (h : WFInput vs es cs) : (ofLists vs es cs).Consistent = true :=
  (consistent_iff _).mpr h.consP

/-- deleting a mesh edge (with `__del__` unregistering it) keeps clause (1), keys and references -/
theorem delEdge_preserves (m : Mesh) (k : Id) (h1 : m.keysOk = true) (h2 : m.ownEdgesOk = true) :
    (m.delEdge k).keysOk = true ∧ (m.delEdge k).ownEdgesOk = true := by
  rw [keysOk_iff] at h1 ⊢
  rw [ownEdgesOk_iff] at h2 ⊢
  exact ⟨delEdge_keysP m k h1, delEdge_ownEdgesP m k h1.1 h1.2.1 h2⟩

/-- deleting a cell (with `__del__` unregistering it) keeps clause (2) and keys -/
theorem delCell_preserves (m : Mesh) (k : Id) (h1 : m.keysOk = true) (h2 : m.ownCellsOk = true)
    (h3 : m.cellsNodup = true) :
    (m.delCell k).keysOk = true ∧ (m.delCell k).ownCellsOk = true := by
  rw [keysOk_iff] at h1 ⊢
  rw [ownCellsOk_iff] at h2 ⊢
  rw [cellsNodup_iff] at h3
  exact ⟨delCell_keysP m k h1 h3, delCell_ownCellsP m k h1.1 h1.2.2.1 h2 h3⟩

/-- Surface Evolver's orphan removal keeps the mesh consistent -/
theorem orphanRemoval_consistent (m : Mesh) (h : m.Consistent = true) : m.orphanRemoval.Consistent = true := by
  rw [consistent_iff] at h ⊢
  exact orphanRemoval_consP m h

/-- after `generate_mesh` (no merging) clause (1) holds again: the rebuilt mesh edges are registered on
    exactly their end vertices, provided the input was consistent -/
theorem generateMesh_ownEdgesOk (m : Mesh) (ne : Nat) (hne : 0 < ne) (h : m.Consistent = true) :
    (m.generateMesh ne false).mesh.ownEdgesOk = true := by
  have _ := hne
  rw [consistent_iff] at h
  exact (ownEdgesOk_iff _).mpr (generateMesh_ownEdgesP m ne h.1 h.2.1)

/-! non-vacuity: two triangles sharing an edge -/
example : WFInput [(0, 0, 0), (1, 1, 0), (2, 0, 1), (3, 1, 1)]
    [(0, 0, 1), (1, 1, 2), (2, 2, 0), (3, 1, 3), (4, 3, 2)] [(0, [0, 1, 2]), (1, [1, 3, 2])] := by
  constructor <;> decide

example : (ofLists [(0, 0, 0), (1, 1, 0), (2, 0, 1), (3, 1, 1)]
    [(0, 0, 1), (1, 1, 2), (2, 2, 0), (3, 1, 3), (4, 3, 2)] [(0, [0, 1, 2]), (1, [1, 3, 2])]).Consistent = true := by
  decide +kernel

/-! non-vacuity of the editing theorems: the hypotheses of `delEdge_preserves` / `delCell_preserves` hold for
    that mesh, and a consistent mesh with an orphan vertex (4, hanging on mesh edge 5) exists, which
    `orphanRemoval` really removes -/
example : let m := (ofLists [(0, 0, 0), (1, 1, 0), (2, 0, 1), (3, 1, 1)]
      [(0, 0, 1), (1, 1, 2), (2, 2, 0), (3, 1, 3), (4, 3, 2)] [(0, [0, 1, 2]), (1, [1, 3, 2])]);
    m.keysOk = true ∧ m.ownEdgesOk = true ∧ m.ownCellsOk = true ∧ m.cellsNodup = true := by
  decide +kernel

example : let m := (ofLists [(0, 0, 0), (1, 1, 0), (2, 0, 1), (3, 1, 1), (4, 2, 2)]
      [(0, 0, 1), (1, 1, 2), (2, 2, 0), (3, 1, 3), (4, 3, 2), (5, 3, 4)] [(0, [0, 1, 2]), (1, [1, 3, 2])]);
    m.Consistent = true ∧ m.orphanRemoval.vertices.length = 4 ∧ m.orphanRemoval.edges.length = 5 := by
  decide +kernel

end Forsys
