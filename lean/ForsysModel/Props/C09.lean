/-
  Property C09 — every construction or editing path yields a consistent vertex–edge–cell mesh.
  `Mesh.Consistent` (ForsysModel/Model/Mesh.lean) is the property's statement clause by clause.
  Theorems: the constructor pattern used by every parser yields a consistent mesh; the editing
  primitives preserve the clauses they touch; the edge rebuild of generate_mesh restores clause (1).
-/
import ForsysModel.Model.Construct
import ForsysModel.Proofs.C09

namespace Forsys
open Mesh

/-- well-formed parser input: unique keys, edges join two different existing vertices, cells are
    duplicate-free cycles of existing vertices whose consecutive vertices are joined by a listed edge -/
structure WFInput (vs : List (Id × Rat × Rat)) (es : List (Id × Id × Id)) (cs : List (Id × List Id)) : Prop where
  vkeys : (vs.map (·.1)).Nodup
  ekeys : (es.map (·.1)).Nodup
  ckeys : (cs.map (·.1)).Nodup
  eends : ∀ e ∈ es, e.2.1 ≠ e.2.2 ∧ e.2.1 ∈ vs.map (·.1) ∧ e.2.2 ∈ vs.map (·.1)
  cverts : ∀ c ∈ cs, c.2.Nodup ∧ ∀ v ∈ c.2, v ∈ vs.map (·.1)
  cjoined : ∀ c ∈ cs, ∀ ab ∈ cyclicPairs c.2,
      ∃ e ∈ es, (e.2.1 = ab.1 ∧ e.2.2 = ab.2) ∨ (e.2.1 = ab.2 ∧ e.2.2 = ab.1)

theorem empty_consistent : Mesh.empty.Consistent = true := by
  sorry

/-- (3) keys -/
theorem ofLists_keysOk (vs : List (Id × Rat × Rat)) (es : List (Id × Id × Id)) (cs : List (Id × List Id))
    (h : WFInput vs es cs) : (ofLists vs es cs).keysOk = true := by
  sorry

/-- (1) a vertex lists a mesh edge exactly when that edge ends at it -/
theorem ofLists_ownEdgesOk (vs : List (Id × Rat × Rat)) (es : List (Id × Id × Id)) (cs : List (Id × List Id))
    (h : WFInput vs es cs) : (ofLists vs es cs).ownEdgesOk = true := by
  sorry

/-- (2) a vertex lists a cell exactly when it occurs in that cell's cycle -/
theorem ofLists_ownCellsOk (vs : List (Id × Rat × Rat)) (es : List (Id × Id × Id)) (cs : List (Id × List Id))
    (h : WFInput vs es cs) : (ofLists vs es cs).ownCellsOk = true := by
  sorry

theorem ofLists_refsOk (vs : List (Id × Rat × Rat)) (es : List (Id × Id × Id)) (cs : List (Id × List Id))
    (h : WFInput vs es cs) : (ofLists vs es cs).refsOk = true := by
  sorry

theorem ofLists_cellsNodup (vs : List (Id × Rat × Rat)) (es : List (Id × Id × Id)) (cs : List (Id × List Id))
    (h : WFInput vs es cs) : (ofLists vs es cs).cellsNodup = true := by
  sorry

theorem ofLists_cyclesJoined (vs : List (Id × Rat × Rat)) (es : List (Id × Id × Id)) (cs : List (Id × List Id))
    (h : WFInput vs es cs) : (ofLists vs es cs).cyclesJoined = true := by
  sorry

/-- the parser pattern yields a consistent mesh for every well-formed input -/
theorem ofLists_consistent (vs : List (Id × Rat × Rat)) (es : List (Id × Id × Id)) (cs : List (Id × List Id))
    (h : WFInput vs es cs) : (ofLists vs es cs).Consistent = true := by
  sorry

/-- deleting a mesh edge (with `__del__` unregistering it) keeps clause (1), keys and references -/
theorem delEdge_preserves (m : Mesh) (k : Id) (h1 : m.keysOk = true) (h2 : m.ownEdgesOk = true) :
    (m.delEdge k).keysOk = true ∧ (m.delEdge k).ownEdgesOk = true := by
  sorry

/-- deleting a cell (with `__del__` unregistering it) keeps clause (2) and keys -/
theorem delCell_preserves (m : Mesh) (k : Id) (h1 : m.keysOk = true) (h2 : m.ownCellsOk = true)
    (h3 : m.cellsNodup = true) :
    (m.delCell k).keysOk = true ∧ (m.delCell k).ownCellsOk = true := by
  sorry

/-- Surface Evolver's orphan removal keeps the mesh consistent -/
theorem orphanRemoval_consistent (m : Mesh) (h : m.Consistent = true) : m.orphanRemoval.Consistent = true := by
  sorry

/-- after `generate_mesh` (no merging) clause (1) holds again: the rebuilt mesh edges are registered on
    exactly their end vertices, provided the input was consistent -/
theorem generateMesh_ownEdgesOk (m : Mesh) (ne : Nat) (hne : 0 < ne) (h : m.Consistent = true) :
    (m.generateMesh ne false).mesh.ownEdgesOk = true := by
  sorry

/-! non-vacuity: two triangles sharing an edge -/
example : WFInput [(0, 0, 0), (1, 1, 0), (2, 0, 1), (3, 1, 1)]
    [(0, 0, 1), (1, 1, 2), (2, 2, 0), (3, 1, 3), (4, 3, 2)] [(0, [0, 1, 2]), (1, [1, 3, 2])] := by
  constructor <;> decide

example : (ofLists [(0, 0, 0), (1, 1, 0), (2, 0, 1), (3, 1, 1)]
    [(0, 0, 1), (1, 1, 2), (2, 2, 0), (3, 1, 3), (4, 3, 2)] [(0, [0, 1, 2]), (1, [1, 3, 2])]).Consistent = true := by
  decide +kernel

end Forsys
