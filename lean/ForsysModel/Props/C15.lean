/-
  Property C15 — skeleton images are parsed into the tissue's true topology.
  Model: ForsysModel/Model/Skeleton.lean (`Skeleton.create_lattice` *given the contour lists*: `cv2.findContours` is the
  trusted kernel, `Skeleton.contours` is the model's input).  Helper lemmas: ForsysModel/Proofs/C15.lean.
  What is proved here, for all contour lists: the first loop of `create_lattice` (interning by pixel position, mesh-edge
  de-duplication, cells) and the consistency of the mesh it builds.  The clean-up stages are compared per run (K).
-/
import ForsysModel.Model.Skeleton
import ForsysModel.Props.C09
import ForsysModel.Proofs.C15

namespace Forsys.Skel

/-- the contours the digital-topology argument (not proved: OpenCV's border following) delivers for a clean
    skeleton: every contour is a cycle of at least two distinct pixels -/
def GoodContours (cs : List (List Px)) : Prop := ∀ c ∈ cs, c.Nodup ∧ 2 ≤ c.length

/-! ### interning: one vertex per distinct pixel position, ids 0, 1, 2, … in first-occurrence order -/

/-- the id stored with the `i`-th position is `i` -/
theorem rawOf_key_ids (cs : List (List Px)) :
    (rawOf cs).keys.map (·.2) = (List.range (rawOf cs).keys.length).map (fun i => (i : Int)) := by
  sorry

/-- no position is stored twice: two contours that pass through the same pixel share the vertex -/
theorem rawOf_keys_nodup (cs : List (List Px)) : ((rawOf cs).keys.map (·.1)).Nodup := by
  sorry

/-- hence interning is injective: different ids ⇔ different positions -/
theorem rawOf_keys_injective (cs : List (List Px)) :
    ∀ a ∈ (rawOf cs).keys, ∀ b ∈ (rawOf cs).keys, (a.1 = b.1 ↔ a.2 = b.2) := by
  sorry

/-- every contour pixel is stored, and nothing else -/
theorem rawOf_keys_complete (cs : List (List Px)) (p : Px) :
    p ∈ (rawOf cs).keys.map (·.1) ↔ ∃ c ∈ cs, p ∈ c := by
  sorry

/-- positions are stored in the order of their first occurrence along the contours -/
theorem rawOf_keys_first_occurrence (cs : List (List Px)) :
    (rawOf cs).keys.map (·.1) = cs.flatten.eraseDups := by
  sorry

/-! ### cells: the contour's pixel sequence mapped through the interning -/

/-- one cell per contour -/
theorem rawOf_cells_length (cs : List (List Px)) : (rawOf cs).cells.length = cs.length := by
  sorry

/-- the vertex cycle of the `i`-th cell is the `i`-th contour's pixel sequence mapped through the final table -/
theorem rawOf_cells (cs : List (List Px)) :
    (rawOf cs).cells = cs.map fun c => c.map fun p => (lookup p (rawOf cs).keys).getD 0 := by
  sorry

/-! ### mesh edges: created once, in either direction; every step of every contour is joined -/

/-- no mesh edge is created twice, in either direction -/
theorem rawOf_edges_pairwise (cs : List (List Px)) :
    (rawOf cs).edgesAdded.Pairwise fun a b => a ≠ b ∧ a ≠ (b.2, b.1) := by
  sorry

/-- every step of every cell cycle, the closing step included, is joined by a stored mesh edge -/
theorem rawOf_edges_cover (cs : List (List Px)) :
    ∀ c ∈ (rawOf cs).cells, ∀ ab ∈ cyclicPairs c, ab ∈ (rawOf cs).edgesAdded ∨ (ab.2, ab.1) ∈ (rawOf cs).edgesAdded := by
  sorry

/-- and every stored mesh edge is a step of some cell cycle -/
theorem rawOf_edges_sound (cs : List (List Px)) :
    ∀ ab ∈ (rawOf cs).edgesAdded, ∃ c ∈ (rawOf cs).cells, ab ∈ cyclicPairs c := by
  sorry

/-! ### the first loop does not raise and yields a consistent mesh -/

theorem precheck_good (cs : List (List Px)) (h : GoodContours cs) : precheck cs = none := by
  sorry

/-- the three lists handed to the parser pattern are well-formed in the sense of C09 -/
theorem raw_wellformed (cs : List (List Px)) (h : GoodContours cs) :
    WFInput (rawVertices (rawOf cs)) (rawEdges (rawOf cs)) (rawCells (rawOf cs)) := by
  sorry

/-- the mesh after the first loop is consistent (through `ofLists_consistent` of C09) -/
theorem rawMesh_consistent (cs : List (List Px)) (h : GoodContours cs) : (rawMesh cs).Consistent = true :=
  ofLists_consistent _ _ _ (raw_wellformed cs h)

/-- `mirror_y` keeps the hypothesis: the mirrored contours are again cycles of distinct pixels -/
theorem mirror_good (cs : List (List Px)) (h : GoodContours cs) : GoodContours (mirror cs) := by
  sorry

theorem rawMesh_mirror_consistent (cs : List (List Px)) (h : GoodContours cs) :
    (rawMesh (mirror cs)).Consistent = true :=
  rawMesh_consistent _ (mirror_good cs h)

/-- non-vacuity: two unit squares side by side (they share the pixels (1,0) and (1,1)) -/
example : GoodContours [[(0, 0), (1, 0), (1, 1), (0, 1)], [(1, 0), (2, 0), (2, 1), (1, 1)]] := by
  intro c hc
  simp at hc
  rcases hc with rfl | rfl <;> exact ⟨by decide, by decide⟩

/-- … on which the shared step is one mesh edge: 6 vertices, 7 mesh edges, 2 cells -/
example : (rawOf [[(0, 0), (1, 0), (1, 1), (0, 1)], [(1, 0), (2, 0), (2, 1), (1, 1)]]).edgesAdded.length = 7
    ∧ (rawOf [[(0, 0), (1, 0), (1, 1), (0, 1)], [(1, 0), (2, 0), (2, 1), (1, 1)]]).keys.length = 6
    ∧ (rawOf [[(0, 0), (1, 0), (1, 1), (0, 1)], [(1, 0), (2, 0), (2, 1), (1, 1)]]).cells = [[0, 1, 2, 3], [1, 4, 5, 2]] := by
  decide +kernel

end Forsys.Skel
