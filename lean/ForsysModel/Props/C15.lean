/-
  Property C15 — skeleton images are parsed into the tissue's true topology.
  Model: ForsysModel/Model/Skeleton.lean (`Skeleton.create_lattice` *given the contour lists*: `cv2.findContours` is the
  trusted kernel, `Skeleton.contours` is the model's input).  Helper lemmas: ForsysModel/Proofs/C15.lean.
  What is proved here, for all contour lists: the first loop of `create_lattice` (interning by pixel position, mesh-edge
  de-duplication, cells) and the consistency of the mesh it builds.  The clean-up stages are compared per run (K).
-/
import ForsysModel.Model.Skeleton
import ForsysModel.Props.C09
import ForsysModel.Proofs.C15

namespace Forsys.Skel

-- `GoodContours` (every contour is a cycle of at least two distinct pixels) is defined in ForsysModel/Proofs/C15.lean:
-- def GoodContours (cs : List (List Px)) : Prop := ∀ c ∈ cs, c.Nodup ∧ 2 ≤ c.length

/-! ### interning: one vertex per distinct pixel position, ids 0, 1, 2, … in first-occurrence order -/

/-- the id stored with the `i`-th position is `i` -/
theorem rawOf_key_ids (cs : List (List Px)) :
    (rawOf cs).keys.map (·.2) = (List.range (rawOf cs).keys.length).map (fun (i : Nat) => (i : Int)) := by
  rw [(rawOf_inv cs).kinv.ids, castRange]

/-- no position is stored twice: two contours that pass through the same pixel share the vertex -/
theorem rawOf_keys_nodup (cs : List (List Px)) : ((rawOf cs).keys.map (·.1)).Nodup :=
  (rawOf_inv cs).kinv.nd

/-- hence interning is injective: different ids ⇔ different positions -/
theorem rawOf_keys_injective (cs : List (List Px)) :
    ∀ a ∈ (rawOf cs).keys, ∀ b ∈ (rawOf cs).keys, (a.1 = b.1 ↔ a.2 = b.2) :=
  (rawOf_inv cs).kinv.inj

/-- every contour pixel is stored, and nothing else -/
theorem rawOf_keys_complete (cs : List (List Px)) (p : Px) :
    p ∈ (rawOf cs).keys.map (·.1) ↔ ∃ c ∈ cs, p ∈ c :=
  (rawOf_inv cs).complete p

/-- positions are stored in the order of their first occurrence along the contours -/
theorem rawOf_keys_first_occurrence (cs : List (List Px)) :
    (rawOf cs).keys.map (·.1) = cs.flatten.eraseDups :=
  rawOf_fst cs

/-! ### cells: the contour's pixel sequence mapped through the interning -/

/-- one cell per contour -/
theorem rawOf_cells_length (cs : List (List Px)) : (rawOf cs).cells.length = cs.length := by
  rw [(rawOf_inv cs).cells, List.length_map]

/-- the vertex cycle of the `i`-th cell is the `i`-th contour's pixel sequence mapped through the final table -/
theorem rawOf_cells (cs : List (List Px)) :
    (rawOf cs).cells = cs.map fun c => c.map fun p => (lookup p (rawOf cs).keys).getD 0 :=
  (rawOf_inv cs).cells

/-! ### mesh edges: created once, in either direction; every step of every contour is joined -/

/-- no mesh edge is created twice, in either direction -/
theorem rawOf_edges_pairwise (cs : List (List Px)) :
    (rawOf cs).edgesAdded.Pairwise fun a b => a ≠ b ∧ a ≠ (b.2, b.1) :=
  (rawOf_inv cs).epw

/-- every step of every cell cycle, the closing step included, is joined by a stored mesh edge -/
theorem rawOf_edges_cover (cs : List (List Px)) :
    ∀ c ∈ (rawOf cs).cells, ∀ ab ∈ cyclicPairs c, ab ∈ (rawOf cs).edgesAdded ∨ (ab.2, ab.1) ∈ (rawOf cs).edgesAdded :=
  (rawOf_inv cs).cover

/-- and every stored mesh edge is a step of some cell cycle -/
theorem rawOf_edges_sound (cs : List (List Px)) :
    ∀ ab ∈ (rawOf cs).edgesAdded, ∃ c ∈ (rawOf cs).cells, ab ∈ cyclicPairs c :=
  (rawOf_inv cs).sound

/-! ### the first loop does not raise and yields a consistent mesh -/

theorem precheck_good (cs : List (List Px)) (h : GoodContours cs) : precheck cs = none :=
  precheck_good' cs h

/-- the three lists handed to the parser pattern are well-formed in the sense of C09 -/
theorem raw_wellformed (cs : List (List Px)) (h : GoodContours cs) :
    WFInput (rawVertices (rawOf cs)) (rawEdges (rawOf cs)) (rawCells (rawOf cs)) :=
  (rawOf_inv cs).wf h

/-- the mesh after the first loop is consistent (through `ofLists_consistent` of C09) -/
theorem rawMesh_consistent (cs : List (List Px)) (h : GoodContours cs) : (rawMesh cs).Consistent = true :=
  ofLists_consistent _ _ _ (raw_wellformed cs h)

/-- `mirror_y` keeps the hypothesis: the mirrored contours are again cycles of distinct pixels -/
theorem mirror_good (cs : List (List Px)) (h : GoodContours cs) : GoodContours (mirror cs) :=
  mirror_good' cs h

theorem rawMesh_mirror_consistent (cs : List (List Px)) (h : GoodContours cs) :
    (rawMesh (mirror cs)).Consistent = true :=
  rawMesh_consistent _ (mirror_good cs h)

/-- non-vacuity: two unit squares side by side (they share the pixels (1,0) and (1,1)) -/
example : GoodContours [[(0, 0), (1, 0), (1, 1), (0, 1)], [(1, 0), (2, 0), (2, 1), (1, 1)]] := by
  intro c hc
  simp at hc
  rcases hc with rfl | rfl <;> exact ⟨by decide, by decide⟩

/-- … on which the shared step is one mesh edge: 6 vertices, 7 mesh edges, 2 cells -/
example : (rawOf [[(0, 0), (1, 0), (1, 1), (0, 1)], [(1, 0), (2, 0), (2, 1), (1, 1)]]).edgesAdded.length = 7
    ∧ (rawOf [[(0, 0), (1, 0), (1, 1), (0, 1)], [(1, 0), (2, 0), (2, 1), (1, 1)]]).keys.length = 6
    ∧ (rawOf [[(0, 0), (1, 0), (1, 1), (0, 1)], [(1, 0), (2, 0), (2, 1), (1, 1)]]).cells = [[0, 1, 2, 3], [1, 4, 5, 2]] := by
  decide +kernel

/-! ### finding D16: the mesh edge the loop variable `e` keeps alive -/

/-- finding D16 (signature last-mesh-edge-inside-artefact): on these contour lists (OpenCV's output on the 14x10 image of
    corpus/C15/d16_last_edge_in_artefact.json) the mesh edge created last has both ends in one artefact group;
    `do_t3_transition` deletes it from the dict while `create_lattice`'s loop variable `e` keeps the object alive, so its
    id stays in `ownEdges` and the next artefact vertex raises KeyError -/
def d16Contours : List (List Px) := [[(2,10),(3,9),(4,10),(4,11),(3,12),(2,11)], [(5,9),(6,8),(7,9),(8,10),(8,11),(7,12),(6,12),(5,12),(4,11),(4,10)], [(6,6),(7,5),(8,6),(8,7),(7,8),(6,7)], [(1,3),(2,2),(3,3),(4,4),(4,5),(5,6),(6,7),(5,8),(5,9),(4,10),(3,9),(3,8),(3,7),(3,8),(3,9),(2,10),(1,9),(1,8),(1,7),(1,6),(1,5),(1,4)], [(2,2),(3,1),(4,1),(5,1),(6,1),(7,1),(8,2),(8,3),(8,4),(7,5),(6,6),(5,6),(4,5),(4,4),(3,3)]]

def isKeyError : Except Err Lattice → Bool | .error .keyError => true | _ => false

theorem d16_witness : isKeyError (createLattice d16Contours false).1 = true ∧ (createLattice d16Contours false).2 = true := by
  decide +kernel

/-- the mechanism: deleting the pinned mesh edge leaves the vertex objects untouched (the stale entries in `ownEdges`
    stay), the edge is gone from the dict and waits as `zombie` -/
theorem delEdge_pinned_keeps_ownEdges (st : St) (k : Id) (e : SEdge) (he : st.mesh.edge? k = some e)
    (hp : st.pinned = some k) :
    ∃ st', st.delEdge k = .ok st' ∧ st'.mesh.vertices = st.mesh.vertices ∧ st'.mesh.edge? k = none ∧
      st'.zombie = some e := by
  refine ⟨{ st with mesh := { st.mesh with edges := st.mesh.edges.filter fun p => p.1 != k }, zombie := some e },
    ?_, ?_, ?_, ?_⟩
  · simp only [St.delEdge, he, hp, if_true]
  · rfl
  · exact alGet?_filter_self k _
  · rfl

/-- deleting any other mesh edge runs `__del__` at once -/
theorem delEdge_unpinned (st : St) (k : Id) (e : SEdge) (he : st.mesh.edge? k = some e)
    (hp : st.pinned ≠ some k) : st.delEdge k = .ok { st with mesh := st.mesh.delEdge k } := by
  simp only [St.delEdge, he, if_neg hp]

/-! ### the inner-triangle loop (`for triangle_ends in inner_edge_triangles`) -/

/-- the loop raises nothing but KeyError / ValueError (`self.vertices[…]`, `self.cells[…]`, `del self.edges[…]`,
    `Cell.replace_vertex`): an empty `np.setdiff1d(edge_0, edge_1)` is skipped, there is no IndexError -/
theorem triangles_error_kinds (st : St) (bigs : List (List Id)) (e : Err) (h : triangles st bigs = .error e) :
    e = .keyError ∨ e = .valueError :=
  triangles_error h

theorem triangles_no_indexError (st : St) (bigs : List (List Id)) : triangles st bigs ≠ .error .indexError := by
  intro h
  rcases triangles_error h with h | h <;> cases h

/-- `max(same_ends, key=len)` / `min(same_ends, key=len)` are never taken of an empty list: every key the loop
    visits is matched by the interface it was read from -/
theorem sameEnds_nonempty (bigs : List (List Id)) (k : Id × Id) (h : k ∈ dupKeys (firstLast bigs)) :
    sameEnds bigs k ≠ [] ∧ (firstLongest (sameEnds bigs k)).isSome = true ∧
      (firstShortest (sameEnds bigs k)).isSome = true :=
  ⟨sameEnds_ne_nil h, firstLongest_isSome (sameEnds_ne_nil h), firstShortest_isSome (sameEnds_ne_nil h)⟩

/-- non-vacuity: two interfaces with the same ends (one of three, one of two vertices) and a third one -/
example : dupKeys (firstLast [[1, 5, 2], [2, 1], [2, 7, 8, 3]]) = [(1, 2), (2, 1)] ∧
    sameEnds [[1, 5, 2], [2, 1], [2, 7, 8, 3]] (1, 2) = [[1, 5, 2], [2, 1]] ∧
    firstLongest [[1, 5, 2], [2, 1]] = some [1, 5, 2] ∧ firstShortest [[1, 5, 2], [2, 1]] = some [2, 1] := by
  decide +kernel

/-! ### `create_lattice` = precheck, first loop, clean-up -/

theorem createLattice_unfold (cs : List (List Px)) (mir : Bool)
    (h : precheck (if mir then mirror cs else cs) = none) :
    createLattice cs mir = cleanup (rawMesh (if mir then mirror cs else cs)) := by
  simp only [createLattice, h]

theorem createLattice_unfold_error (cs : List (List Px)) (mir : Bool) (e : Err)
    (h : precheck (if mir then mirror cs else cs) = some e) :
    createLattice cs mir = (.error e, false) := by
  simp only [createLattice, h]

/-- `cleanup` with the reference held by the loop variable `e` as a parameter (verbatim copy of the body of
    `cleanup`; `cleanupFrom_pinned` below shows that the model's `cleanup` is this function at the last mesh edge) -/
def cleanupFrom (pin : Option Id) (m0 : Mesh) : Except Err Lattice × Bool :=
  let bigs := m0.bigEdgesList
  let border := borderCells m0
  let external := externalEdges m0
  let st0 : St := { mesh := m0, dead := [], pinned := pin, zombie := none, idReused := false }
  match triangles st0 bigs with
  | .error e => (.error e, false)
  | .ok st1 =>
    let triDel := st1.dead
    let arts := getArtifacts st1 external
    match groupArtifacts (arts.length + 1) st1 arts with
    | .error e => (.error e, st1.zombie.isSome)
    | .ok groups =>
      let d16 := d16Pred st1 groups
      match foldE t3 st1 groups with
      | .error e => (.error e, d16)
      | .ok st2 =>
        match foldE isolatedStep (st2, true, []) st2.mesh.cells with
        | .error e => (.error e, d16)
        | .ok (st3, _, iso) =>
          let st4 := st3.release
          let m := iso.foldl (fun m c => m.delCell c) st4.mesh
          let st5 := { st4 with mesh := m }
          (.ok { mesh := finalMesh st5, border := border.filter (fun c => !iso.contains c),
                 external := external.filter (fun k => (st5.mesh.edge? k).isSome),
                 bigEdges := bigs, artifacts := groups, triangleDeleted := triDel, isolated := iso,
                 zombieSeen := d16, idReused := st5.idReused }, d16)

theorem cleanupFrom_pinned (m0 : Mesh) : cleanupFrom (m0.edges.getLast?.map (·.1)) m0 = cleanup m0 := rfl

def isOk : Except Err Lattice → Bool | .ok _ => true | _ => false

/-- companion of `d16_witness`: without the pinned reference the same clean-up succeeds and the D16 predicate is false -/
theorem d16_unpinned_ok : isOk (cleanupFrom none (rawMesh d16Contours)).1 = true ∧
    (cleanupFrom none (rawMesh d16Contours)).2 = false := by
  decide +kernel


/-! ### the clean-up never creates a cell and loses one only by the isolated-cell rule -/

theorem cleanup_cell_keys (m0 : Mesh) (l : Lattice) (h : (cleanup m0).1 = .ok l) :
    l.mesh.cells.map (·.1) = (m0.cells.map (·.1)).filter (fun k => !l.isolated.contains k) :=
  cleanup_cell_keys' m0 l h

/-- hence: as many cells as contours when no cell was removed as isolated -/
theorem cells_eq_contours (cs : List (List Px)) (l : Lattice) (h : (createLattice cs false).1 = .ok l)
    (hi : l.isolated = []) : l.mesh.cells.length = cs.length :=
  cells_eq_contours' cs l h hi

end Forsys.Skel
