/-
  Umbrella of property C02: the tangent rule and the basic matrix facts (Props/C02.lean) and the matrix
  specification — unknowns, which vertices get equations, which coefficient sits where (Props/C02matrix.lean).
  lean/props.json names this module for C02, so that `./check C02` builds and audits both.
-/
import ForsysModel.Props.C02
import ForsysModel.Props.C02matrix
import ForsysModel.Props.C02more
