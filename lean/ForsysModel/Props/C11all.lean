/-
  Umbrella of property C11: the per-interface rule and the first mesh-level theorems (Props/C11.lean) and the
  preservation of mesh consistency by `generate_mesh` without merging (Props/C11mesh.lean) and with merging of
  pairwise vertex-disjoint pairs (Props/C11merge.lean).
  lean/props.json names this module for C11, so that `./check C11` builds and audits both.
-/
import ForsysModel.Props.C11
import ForsysModel.Props.C11mesh
import ForsysModel.Props.C11merge
import ForsysModel.Props.C11more
