/-
  C04 (pressure step) — additions to Props/C04.lean and Props/C04system.lean:
    shape and small-input behaviour of the turning ingredients, mirror images, the three-point closed form,
    the constant-shift freedom of the equations (why the zero-sum constraint is needed), whole-system invariance of the
    least-squares objective under per-equation sign flips, additivity of the bordered solve, and zero sum after the
    re-insertion of the dropped cells.
-/
import ForsysModel.Proofs.C04more
namespace Forsys
open C04s

/-! ### turning ingredients: shape, small inputs, mirror image -/

/-- every stored point gets a numerator and a speed, every segment a length (interfaces of two or more points) -/
theorem curvParts_lengths (pts : List Pt) (h : 2 ≤ pts.length) :
    (curvParts pts).num.length = pts.length ∧ (curvParts pts).speedSq.length = pts.length ∧
    (curvParts pts).segSq.length = pts.length - 1 :=
  curvParts_lengths' pts h

example : 2 ≤ ([⟨0, 0⟩, ⟨1, 1⟩, ⟨2, 0⟩] : List Pt).length := by decide

/-- empty and one-point inputs (numpy raises there): the model produces no ingredient at all, never a spurious value -/
theorem curvParts_short (pts : List Pt) (h : pts.length < 2) :
    (curvParts pts).num = [] ∧ (curvParts pts).speedSq = [] ∧ (curvParts pts).segSq = [] :=
  curvParts_short' pts h

/-- two-point interfaces are straight: both numerators vanish, for any two points -/
theorem curvParts_two_points (p q : Pt) : (curvParts [p, q]).num = [0, 0] :=
  curvParts_two_points' p q

/-- three-point interfaces: all three numerators equal minus half the cross product of the two segments -/
theorem curvParts_three_points (p q r : Pt) :
    (curvParts [p, q, r]).num
      = List.replicate 3 (-((q.x - p.x) * (r.y - q.y) - (q.y - p.y) * (r.x - q.x)) / 2) :=
  curvParts_three_points' p q r

/-- … hence the turning estimate of a three-point interface is zero exactly when the points are collinear
    (converse of `curvParts_collinear` for three points) -/
theorem curvParts_three_points_zero_iff (p q r : Pt) :
    (∀ v ∈ (curvParts [p, q, r]).num, v = 0) ↔ (q.x - p.x) * (r.y - q.y) = (q.y - p.y) * (r.x - q.x) :=
  curvParts_three_points_zero_iff' p q r

/-- a concrete bent four-point interface: all numerators are non-zero and of one sign (computed value) -/
theorem curvParts_four_points_witness :
    (curvParts [⟨0, 0⟩, ⟨1, 1⟩, ⟨2, 1⟩, ⟨3, 0⟩]).num = [1/2, 3/4, 3/4, 1/2] := by decide +kernel

/-- mirror image `x ↦ −x`: every numerator changes sign, speeds and segment lengths are kept — the turning of the
    mirrored interface is the negative -/
theorem c04_curvParts_reflect (pts : List Pt) :
    (curvParts (reflectPts pts)).num = (curvParts pts).num.map (- ·) ∧
    (curvParts (reflectPts pts)).speedSq = (curvParts pts).speedSq ∧
    (curvParts (reflectPts pts)).segSq = (curvParts pts).segSq :=
  curvParts_reflect' pts

/-! ### the equations fix pressures only up to a common constant -/

/-- the entries of a row sum to zero -/
theorem pressureRow_sum (n a b : Nat) (s : Int) (ha : a < n) (hb : b < n) (hab : a ≠ b) :
    (pressureRow n a b s).sum = 0 :=
  pressureRow_sum' n a b s ha hb hab

example : (2 : Nat) < 4 ∧ (0 : Nat) < 4 ∧ (2 : Nat) ≠ 0 := by decide

/-- `a ≠ b` is needed: a degenerate interface listing the same cell twice gives a row that does not sum to zero -/
theorem pressureRow_sum_witness : (pressureRow 3 1 1 1).sum ≠ 0 := by decide +kernel

/-- adding one constant to every pressure does not change the left-hand side of an equation -/
theorem pressureRow_dot_shift (n a b : Nat) (s : Int) (p : List Rat) (c : Rat) (hp : p.length = n)
    (ha : a < n) (hb : b < n) (hab : a ≠ b) :
    dot (pressureRow n a b s) (p.map (· + c)) = dot (pressureRow n a b s) p :=
  pressureRow_dot_shift' n a b s p c hp ha hb hab

/-- whole system: the least-squares objective is the same for `p` and `p + c·1`, whatever the right-hand side; the
    unconstrained minimiser is never unique, which is why the code borders the normal equations with the sum-zero row -/
theorem residSq_shift (n : Nat) (L : Mat) (r p : List Rat) (c : Rat) (hp : p.length = n)
    (hrows : ∀ row ∈ L, ∃ a b s, a < n ∧ b < n ∧ a ≠ b ∧ row = pressureRow n a b s) :
    residSq L r (p.map (· + c)) = residSq L r p :=
  residSq_shift' n L r p c hp hrows

example : ∀ row ∈ ([pressureRow 3 0 1 1, pressureRow 3 1 2 (-1)] : Mat),
    ∃ a b s, a < 3 ∧ b < 3 ∧ a ≠ b ∧ row = pressureRow 3 a b s := by
  intro row h
  simp only [List.mem_cons, List.not_mem_nil, or_false] at h
  rcases h with rfl | rfl
  · exact ⟨0, 1, 1, by decide, by decide, by decide, rfl⟩
  · exact ⟨1, 2, -1, by decide, by decide, by decide, rfl⟩

/-! ### storage direction, lifted to the whole system -/

/-- flipping the sign of any subset of equations (row and right-hand side together — what `row_joint_flip` and
    `row_swap_cells` do to one equation when an interface or a cell is stored the other way round) leaves the
    least-squares objective, hence its zero-sum minimiser, unchanged -/
theorem residSq_flipRows (sig : List Rat) (L : Mat) (r x : List Rat)
    (hsig : ∀ σ ∈ sig, σ = 1 ∨ σ = -1) (hL : L.length = sig.length) (hr : r.length = sig.length) :
    residSq (flipRows sig L) (List.zipWith (· * ·) sig r) x = residSq L r x :=
  residSq_flipRows' sig L r x hsig hL hr

example : ∀ σ ∈ ([1, -1] : List Rat), σ = 1 ∨ σ = -1 := by simp
example : flipRows [1, -1] [[1, -1, 0], [0, 1, -1]] = [[1, -1, 0], [0, -1, 1]] := by decide +kernel

/-! ### the bordered solve is additive (with `normal_eq_scale`: linear) in the right-hand side -/

theorem normal_eq_add (L : Mat) (r₁ r₂ p₁ p₂ : List Rat) (mu₁ mu₂ : Rat) (n : Nat) (hn : 0 < n)
    (hr : r₁.length = r₂.length) (hp₁ : p₁.length = n) (hp₂ : p₂.length = n)
    (h₁ : mulVec (addLagrange (gram L n) (tRhs L n r₁) 0).1 (p₁ ++ [mu₁]) = (addLagrange (gram L n) (tRhs L n r₁) 0).2)
    (h₂ : mulVec (addLagrange (gram L n) (tRhs L n r₂) 0).1 (p₂ ++ [mu₂]) = (addLagrange (gram L n) (tRhs L n r₂) 0).2) :
    mulVec (addLagrange (gram L n) (tRhs L n (vadd r₁ r₂)) 0).1 (vadd p₁ p₂ ++ [mu₁ + mu₂])
      = (addLagrange (gram L n) (tRhs L n (vadd r₁ r₂)) 0).2 :=
  normal_eq_add' L r₁ r₂ p₁ p₂ mu₁ mu₂ n hn hr hp₁ hp₂ h₁ h₂

example : mulVec (addLagrange (gram [[1, 1]] 2) (tRhs [[1, 1]] 2 [2]) 0).1 ([1, -1] ++ [2])
    = (addLagrange (gram [[1, 1]] 2) (tRhs [[1, 1]] 2 [2]) 0).2 := by decide +kernel

/-! ### re-insertion of the dropped cells -/

/-- no cell dropped: the solution is returned as it is (any length) -/
theorem reinsertZeros_nil (n : Nat) (sol : List Rat) : reinsertZeros n [] sol = sol :=
  reinsertZeros_nil' n sol

/-- the reported vector has the same sum as the reduced solution: zero-sum is kept by the re-insertion -/
theorem reinsertZeros_sum (n : Nat) (removed : List Nat) (sol : List Rat)
    (hr : ∀ i ∈ removed, i < n) (hnd : removed.Nodup) (hlen : sol.length + removed.length = n) :
    (reinsertZeros n removed sol).sum = sol.sum :=
  reinsertZeros_sum' n removed sol hr hnd hlen

example : (∀ i ∈ [1, 3], i < 5) ∧ [1, 3].Nodup ∧ ([7, 8, 9] : List Rat).length + [1, 3].length = 5 := by decide

/-! ### rotations and similarities of the tissue -/

/-- similarity `z ↦ (a + i b) z` (rotation by any angle with rational cosine/sine, times a scaling): numerators, squared
    speeds and squared segment lengths all pick up the factor `a² + b²`, so every term κ·ds of the turning is unchanged
    (generalises `curvParts_scale`, which is `b = 0`) -/
theorem curvParts_similarity (a b : Rat) (pts : List Pt) :
    (curvParts (simPts a b pts)).num = (curvParts pts).num.map ((a * a + b * b) * ·) ∧
    (curvParts (simPts a b pts)).speedSq = (curvParts pts).speedSq.map ((a * a + b * b) * ·) ∧
    (curvParts (simPts a b pts)).segSq = (curvParts pts).segSq.map ((a * a + b * b) * ·) :=
  curvParts_similarity' a b pts

/-- a rotation leaves all ingredients of the turning estimate exactly unchanged -/
theorem c04_curvParts_rotate (a b : Rat) (h : a * a + b * b = 1) (pts : List Pt) :
    curvParts (simPts a b pts) = curvParts pts :=
  curvParts_rotate' a b h pts

example : (3/5 : Rat) * (3/5) + (4/5) * (4/5) = 1 := by norm_num
example : (curvParts (simPts (3/5) (4/5) [⟨0, 0⟩, ⟨1, 1⟩, ⟨2, 0⟩])).num = [1, 1, 1] := by decide +kernel

/-! ### `np.gradient` is exact on uniformly sampled straight data -/

theorem gradient_affine (c d : Rat) (n : Nat) (h : 2 ≤ n) :
    gradient ((List.range n).map fun i : Nat => c + d * (i : Rat)) = List.replicate n d :=
  gradient_affine' c d n h

/-- one sample: numpy raises, the model returns no value (the guard `2 ≤ n` is needed) -/
theorem gradient_affine_witness : gradient ((List.range 1).map fun i : Nat => (5 : Rat) + 2 * (i : Rat)) = [] := by
  decide +kernel

/-! ### what the bordered normal equations determine -/

/-- a zero-sum vector whose gradient is constant and any other zero-sum vector that does at least as well have the
    same image under `L`: the fitted left-hand sides `L p` are unique even when `p` is not -/
theorem minimisers_same_image (L : Mat) (r p q : List Rat) (c : Rat) (m n : Nat) (hs : Shaped L r m n)
    (hp : p.length = n) (hq : q.length = n) (hp0 : p.sum = 0) (hq0 : q.sum = 0)
    (h : grad L r p = List.replicate n c) (hmin : residSq L r q ≤ residSq L r p) :
    mulVec L q = mulVec L p :=
  minimisers_same_image' L r p q c m n hs hp hq hp0 hq0 h hmin

example : grad [[1, -1]] [2] [1, -1] = List.replicate 2 0 := by decide +kernel

/-- two exact solutions of the bordered normal equations have the same image under `L` (this is the link the
    uniqueness theorem `pressureSystem_unique` asks for as its hypothesis `hL`) -/
theorem normal_eq_same_image (L : Mat) (r p q : List Rat) (mu nu : Rat) (m n : Nat) (hn : 0 < n) (hs : Shaped L r m n)
    (hp : p.length = n) (hq : q.length = n)
    (h₁ : mulVec (addLagrange (gram L n) (tRhs L n r) 0).1 (p ++ [mu]) = (addLagrange (gram L n) (tRhs L n r) 0).2)
    (h₂ : mulVec (addLagrange (gram L n) (tRhs L n r) 0).1 (q ++ [nu]) = (addLagrange (gram L n) (tRhs L n r) 0).2) :
    mulVec L q = mulVec L p :=
  normal_eq_same_image' L r p q mu nu m n hn hs hp hq h₁ h₂

/-- composition of the assembly and the solve: when all equations are genuine and the internal interfaces link all
    cells that have one, the bordered normal equations of the assembled system have at most one solution that
    vanishes on the dropped cells — the reported pressures are THE zero-sum least-squares solution -/
theorem pressureSystem_normal_eq_unique (m : Mesh) (tens curv : List Rat) (p q : List Rat) (mu nu : Rat)
    (hn : 0 < m.cells.length)
    (hp : p.length = m.cells.length) (hq : q.length = m.cells.length) (hok : ∀ k, k < m.nEq → m.EqOk k)
    (hconn : ∀ i j, i < m.cells.length → j < m.cells.length → i ∉ (m.pressureSystem tens curv).removed →
      j ∉ (m.pressureSystem tens curv).removed → Relation.ReflTransGen m.Linked i j)
    (hzp : ∀ j ∈ (m.pressureSystem tens curv).removed, p.getD j 0 = 0)
    (hzq : ∀ j ∈ (m.pressureSystem tens curv).removed, q.getD j 0 = 0)
    (h₁ : mulVec (addLagrange (gram (m.pressureSystem tens curv).lhs m.cells.length)
        (tRhs (m.pressureSystem tens curv).lhs m.cells.length (m.pressureSystem tens curv).rhs) 0).1 (p ++ [mu])
      = (addLagrange (gram (m.pressureSystem tens curv).lhs m.cells.length)
        (tRhs (m.pressureSystem tens curv).lhs m.cells.length (m.pressureSystem tens curv).rhs) 0).2)
    (h₂ : mulVec (addLagrange (gram (m.pressureSystem tens curv).lhs m.cells.length)
        (tRhs (m.pressureSystem tens curv).lhs m.cells.length (m.pressureSystem tens curv).rhs) 0).1 (q ++ [nu])
      = (addLagrange (gram (m.pressureSystem tens curv).lhs m.cells.length)
        (tRhs (m.pressureSystem tens curv).lhs m.cells.length (m.pressureSystem tens curv).rhs) 0).2) :
    p = q :=
  pressureSystem_normal_eq_unique' m tens curv p q mu nu hn hp hq hok hconn hzp hzq h₁ h₂

/-- the hypotheses hold together on the lens tissue `balMesh` (`hok`, `hconn`: `pressureSystem_balMesh_witness`,
    `balMesh_connected`; nothing is dropped): the bordered equations are solved by `(1/2, −2/5, −1/10)`, `μ = 0` -/
example :
    mulVec (addLagrange (gram (balMesh.pressureSystem [3, 7/5, 4, 4, 1, 1] [1/2, 0, 0, 0, 9, 9]).lhs balMesh.cells.length)
        (tRhs (balMesh.pressureSystem [3, 7/5, 4, 4, 1, 1] [1/2, 0, 0, 0, 9, 9]).lhs balMesh.cells.length
          (balMesh.pressureSystem [3, 7/5, 4, 4, 1, 1] [1/2, 0, 0, 0, 9, 9]).rhs) 0).1 ([1/2, -2/5, -1/10] ++ [0])
      = (addLagrange (gram (balMesh.pressureSystem [3, 7/5, 4, 4, 1, 1] [1/2, 0, 0, 0, 9, 9]).lhs balMesh.cells.length)
        (tRhs (balMesh.pressureSystem [3, 7/5, 4, 4, 1, 1] [1/2, 0, 0, 0, 9, 9]).lhs balMesh.cells.length
          (balMesh.pressureSystem [3, 7/5, 4, 4, 1, 1] [1/2, 0, 0, 0, 9, 9]).rhs) 0).2 := by
  decide +kernel

end Forsys
