/-
  Property C10 — results are a pure function of frame data and the last call's arguments: histories of ANY length.
  Model: ForsysModel/Model/Session.lean.  This file widens Props/C10.lean:
   * every operation acts frame by frame (`step_view_local`, `step_view_untouched`), hence operations that touch disjoint
     sets of frames commute on the WHOLE solver state (`step_commute`, `step_commute_frames`);
   * what the state holds about frame `t` after an arbitrary history equals what it holds after the sub-history of the
     operations that touch `t` (`run_erase_other_frames`), so two histories with the same sub-history on `t` agree on `t`
     (`run_perm_other_frames`);
   * repeating a solve is idempotent on the whole state (`solveStress_idempotent`, `solvePressure_idempotent`);
   * after any history from a fresh object the per-frame stores hold the frame's own results under its key
     (`run_store_eq_frame`); the frame itself is either as fresh or exactly what ONE solve writes onto an all-zero frame
     (`run_frame_closed_form`, `fresh_frame_closed_form`, `run_pressure_closed_form`); the tension table lists exactly
     the internal interfaces in order, each entry being −1 (excluded, interface at 0) or the value stored on the interface
     and on each of its mesh edges, external interfaces staying at zero (`run_report_table`);
   * two arbitrary histories — on the same or on different solver objects — whose last `solve_stress(t)` used the same
     options and found the same build options report the same for frame `t` (`run_report_depends_on_last`).
  All statements are for every kernel, every frame list and every history length.
-/
import ForsysModel.Props.C10
import ForsysModel.Proofs.C10hist

namespace Forsys

variable {B O P : Type}

/-- everything the solver object holds about frame `t`: the frame's state (build options, tensions on mesh edges and
    interfaces, reported forces, captured tensions, cell pressures) and the two result-store entries under key `t` -/
def frameView (st : SState B) (t : Nat) : Option (FState B) × Option (Option (List Rat)) × Option (Option (List Rat)) :=
  (st.frames[t]?, st.storeForces[t]?, st.storePress[t]?)

/-- does the operation touch frame `t`: it addresses `t`, or it is `get_system_velocity_per_frame` over a range containing `t` -/
def Op.touches (t : Nat) : Op B O P → Bool
  | .buildForce s _ => s == t
  | .solveStress s _ => s == t
  | .buildPressure s => s == t
  | .solvePressure s _ => s == t
  | .sysVelocity ts => ts.contains t

theorem frameView_eq (st : SState B) (t : Nat) : frameView st t = C10h.view st t := rfl
theorem Op.touches_eq (t : Nat) : (Op.touches t : Op B O P → Bool) = C10h.touches t := by
  funext op; cases op <;> rfl

/-- for single-frame operations `touches` is "addresses that frame" -/
theorem touches_of_frame (op : Op B O P) (s t : Nat) (hs : op.frame = some s) : op.touches t = (s == t) := by
  rw [Op.touches_eq]; exact C10h.touches_frame op s t hs

/-! ### frame locality, in full -/

/-- the new view of frame `t` is a function of the operation and of the old view of frame `t` only: two states that
    agree on frame `t` still agree on it after the same operation, whatever else they hold -/
theorem step_view_local (K : Kernels B O P) (frs : List SFrame) (st1 st2 : SState B) (op : Op B O P) (t : Nat)
    (h : frameView st1 t = frameView st2 t) : frameView (step K frs st1 op) t = frameView (step K frs st2 op) t :=
  C10h.step_view_congr K frs st1 st2 op t h

/-- an operation that does not touch frame `t` leaves everything held about `t` as it was
    (`step_other_frame` of Props/C10.lean, extended to the multi-frame operation) -/
theorem step_view_untouched (K : Kernels B O P) (frs : List SFrame) (st : SState B) (op : Op B O P) (t : Nat)
    (h : op.touches t = false) : frameView (step K frs st op) t = frameView st t := by
  rw [Op.touches_eq] at h
  exact C10h.step_view_untouched K frs st op t h

/-- a state is determined by its frame views -/
theorem frameView_ext (st1 st2 : SState B) (h : ∀ t, frameView st1 t = frameView st2 t) : st1 = st2 :=
  C10h.view_ext h

/-- two operations that touch no common frame commute — equality of the WHOLE solver state, from any state (no
    invariant, no well-formedness needed) -/
theorem step_commute (K : Kernels B O P) (frs : List SFrame) (st : SState B) (a b : Op B O P)
    (h : ∀ u, a.touches u = false ∨ b.touches u = false) :
    step K frs (step K frs st a) b = step K frs (step K frs st b) a := by
  simp only [Op.touches_eq] at h
  exact C10h.step_commute' K frs st a b h

/-- in particular two operations addressed to different frames commute -/
theorem step_commute_frames (K : Kernels B O P) (frs : List SFrame) (st : SState B) (a b : Op B O P) (s t : Nat)
    (ha : a.frame = some s) (hb : b.frame = some t) (hst : s ≠ t) :
    step K frs (step K frs st a) b = step K frs (step K frs st b) a := by
  apply step_commute
  intro u
  rw [touches_of_frame a s u ha, touches_of_frame b t u hb]
  by_cases hu : s = u
  · right; subst hu; simpa using Ne.symm hst
  · left; simpa using hu

/-- the hypotheses of `step_commute_frames` are satisfiable and both operations act: two frames, frame 0 and frame 1 each
    built and solved in either order give the same (non-initial) results -/
example : (step exKernels [exFrame, exFrame] (step exKernels [exFrame, exFrame]
        (run exKernels [exFrame, exFrame] (SState.init [exFrame, exFrame]) [.buildForce 0 (), .buildForce 1 ()])
        (.solveStress 0 ())) (.solveStress 1 ())).storeForces = [some [2, -1], some [2, -1]] ∧
    (Op.solveStress 0 () : Op Unit Unit Unit).frame = some 0 ∧ (Op.solveStress 1 () : Op Unit Unit Unit).frame = some 1 := by
  decide +kernel

/-! ### histories: operations that do not touch frame `t` can be erased -/

/-- what the state holds about frame `t` after ANY history equals what it holds after the sub-history of the operations
    that touch `t`: solving, building or re-solving other frames in between never matters -/
theorem run_erase_other_frames (K : Kernels B O P) (frs : List SFrame) (st : SState B) (ops : List (Op B O P)) (t : Nat) :
    frameView (run K frs st ops) t = frameView (run K frs st (ops.filter (Op.touches t))) t := by
  rw [Op.touches_eq]
  exact C10h.run_erase' K frs ops t st st rfl

/- The suggested form with `ops.filter (fun op => op.frame = some t)` is FALSE: `get_system_velocity_per_frame` has
   `Op.frame = none` but sets the build options of every frame in its range, so erasing it changes whether a later
   `solve_stress(t)` finds a matrix:
     theorem run_erase_other_frames_frameFilter (K) (frs) (st) (ops) (t) :
       frameView (run K frs st ops) t = frameView (run K frs st (ops.filter (fun op => op.frame = some t))) t
   Counterexample below; the true forms are `run_erase_other_frames` (filter by `touches`) and
   `run_erase_other_frames_partial` (filter by `frame`, histories whose multi-frame operations avoid `t`). -/
theorem run_erase_other_frames_witness :
    ((run exKernels [exFrame] (SState.init [exFrame]) [.sysVelocity [0], .solveStress 0 ()]).frames.map (fun f => f.forces),
     (run exKernels [exFrame] (SState.init [exFrame])
        (([.sysVelocity [0], .solveStress 0 ()] : List (Op Unit Unit Unit)).filter (fun op => op.frame = some 0))).frames.map
          (fun f => f.forces)) = ([some [2, -1]], [none]) := by
  decide +kernel

theorem run_erase_other_frames_partial (K : Kernels B O P) (frs : List SFrame) (st : SState B) (ops : List (Op B O P)) (t : Nat)
    (hsv : ∀ ts, Op.sysVelocity ts ∈ ops → t ∉ ts) :
    frameView (run K frs st ops) t = frameView (run K frs st (ops.filter (fun op => op.frame = some t))) t := by
  rw [run_erase_other_frames]
  congr 2
  apply List.filter_congr
  intro op hop
  cases op with
  | sysVelocity ts => simpa [Op.touches, Op.frame] using hsv ts hop
  | buildForce s b => simp only [Op.touches, Op.frame, Option.some.injEq]; exact beq_eq_decide s t
  | solveStress s o => simp only [Op.touches, Op.frame, Option.some.injEq]; exact beq_eq_decide s t
  | buildPressure s => simp only [Op.touches, Op.frame, Option.some.injEq]; exact beq_eq_decide s t
  | solvePressure s p => simp only [Op.touches, Op.frame, Option.some.injEq]; exact beq_eq_decide s t

/-- non-vacuity of `run_erase_other_frames_partial`: a history over two frames with a multi-frame operation avoiding frame 0 -/
example : (∀ ts, Op.sysVelocity ts ∈ ([.buildForce 0 (), .sysVelocity [1], .solveStress 1 (), .solveStress 0 ()] : List (Op Unit Unit Unit)) → 0 ∉ ts) := by
  intro ts h
  simp at h
  subst h
  decide

/-- two histories (of any lengths) whose sub-histories on frame `t` agree hold the same about frame `t` -/
theorem run_perm_other_frames (K : Kernels B O P) (frs : List SFrame) (st : SState B) (ops1 ops2 : List (Op B O P)) (t : Nat)
    (h : ops1.filter (Op.touches t) = ops2.filter (Op.touches t)) :
    frameView (run K frs st ops1) t = frameView (run K frs st ops2) t := by
  rw [run_erase_other_frames K frs st ops1 t, run_erase_other_frames K frs st ops2 t, h]

/-- … also when started from two different states that agree on frame `t` (e.g. a fresh object and a long-used one
    whose frame `t` was never touched) -/
theorem run_perm_other_frames_states (K : Kernels B O P) (frs : List SFrame) (st1 st2 : SState B) (ops1 ops2 : List (Op B O P))
    (t : Nat) (hst : frameView st1 t = frameView st2 t)
    (h : ops1.filter (Op.touches t) = ops2.filter (Op.touches t)) :
    frameView (run K frs st1 ops1) t = frameView (run K frs st2 ops2) t := by
  rw [run_erase_other_frames K frs st1 ops1 t, run_erase_other_frames K frs st2 ops2 t, h]
  exact C10h.run_view_congr K frs _ t st1 st2 hst

/-- the hypothesis of `run_perm_other_frames` is satisfiable by two genuinely different histories, and the common view is
    not the initial one -/
example :
    ([.buildForce 0 (), .buildForce 1 (), .solveStress 1 (), .solveStress 0 (), .buildPressure 1] : List (Op Unit Unit Unit)).filter (Op.touches 0)
      = ([.sysVelocity [1], .buildForce 0 (), .solveStress 0 (), .solveStress 1 ()] : List (Op Unit Unit Unit)).filter (Op.touches 0) ∧
    (run exKernels [exFrame, exFrame] (SState.init [exFrame, exFrame])
      [.buildForce 0 (), .buildForce 1 (), .solveStress 1 (), .solveStress 0 (), .buildPressure 1]).storeForces[0]? = some (some ([2, -1] : List Rat)) :=
  ⟨rfl, by decide +kernel⟩

/-! ### re-solving -/

/-- repeating the same `solve_stress` (same frame, same options; the build in force is unchanged in between) leaves the
    WHOLE state as after the first call -/
theorem solveStress_idempotent (K : Kernels B O P) (frs : List SFrame) (hw : ∀ fr ∈ frs, WFFrame fr) (hk : WFKernels K frs)
    (st : SState B) (hinv : SInv frs st) (t : Nat) (o : O) :
    step K frs (step K frs st (.solveStress t o)) (.solveStress t o) = step K frs st (.solveStress t o) :=
  C10h.solveStress_idem' K frs (fun fr hfr => (hw fr hfr).toC10) hk.toC10 st hinv.toC10 t o

/-- repeating the same `solve_pressure` leaves the whole state as after the first call (from any state) -/
theorem solvePressure_idempotent (K : Kernels B O P) (frs : List SFrame) (st : SState B) (t : Nat) (p : P) :
    step K frs (step K frs st (.solvePressure t p)) (.solvePressure t p) = step K frs st (.solvePressure t p) :=
  C10h.solvePressure_idem' K frs st t p

/-- the idempotence statements are about solves that act: on the example the solve changes the state -/
example : (step exKernels [exFrame] (run exKernels [exFrame] (SState.init [exFrame]) [.buildForce 0 ()]) (.solveStress 0 ())).storeForces
      = [some [2, -1]] ∧
    (run exKernels [exFrame] (SState.init [exFrame]) [.buildForce 0 ()]).storeForces = [none] ∧
    (step exKernels [exFrame] (run exKernels [exFrame] (SState.init [exFrame]) [.buildForce 0 (), .solveStress 0 (), .buildPressure 0])
      (.solvePressure 0 ())).storePress = [some [2, 0, 0]] := by
  decide +kernel

/-! ### what a frame holds after ANY history from a fresh object -/

/-- the solver object's per-frame result stores hold frame `t`'s own reported tensions and pressures under key `t`
    (`none` = never solved), after any history — no well-formedness needed -/
theorem run_store_eq_frame (K : Kernels B O P) (frs : List SFrame) (ops : List (Op B O P)) (t : Nat) (f : FState B)
    (hf : (run K frs (SState.init frs) ops).frames[t]? = some f) :
    (run K frs (SState.init frs) ops).storeForces[t]? = some f.forces ∧
    (run K frs (SState.init frs) ops).storePress[t]? = some f.cellP :=
  C10h.run_storeOK K frs ops _ (C10h.init_storeOK frs) t f hf

/-- closed form: after any history, frame `t` is either as fresh (never solved: no report, all tensions zero) or its
    report, mesh-edge tensions and interface tensions are exactly those of ONE solve — for some build options `b` and
    solve options `o` — written onto an all-zero frame.  Nothing else of the history survives. -/
theorem run_frame_closed_form (K : Kernels B O P) (frs : List SFrame) (hw : ∀ fr ∈ frs, WFFrame fr) (hk : WFKernels K frs)
    (ops : List (Op B O P)) (t : Nat) (fr : SFrame) (f : FState B) (hfr : frs[t]? = some fr)
    (hf : (run K frs (SState.init frs) ops).frames[t]? = some f) :
    (f.forces = none ∧ f.edgeT = List.replicate fr.nEdges 0 ∧ f.beT = List.replicate fr.edgesOf.length 0) ∨
    ∃ b o, f.forces = some (reportForces fr.internal (K.usedOf t b) (K.solveF t b o)) ∧
      f.edgeT = writeBack fr (K.usedOf t b) (K.solveF t b o) (List.replicate fr.nEdges 0) ∧
      f.beT = assignBig fr (writeBack fr (K.usedOf t b) (K.solveF t b o) (List.replicate fr.nEdges 0)) :=
  (C10h.run_shapeOK K frs (fun fr hfr => (hw fr hfr).toC10) hk.toC10 ops _ (C10.init_inv' frs) (C10h.init_shapeOK K frs)
    t fr f hfr hf).1

/-- … and that closed form is what a fresh object solved once holds -/
theorem fresh_frame_closed_form (K : Kernels B O P) (frs : List SFrame) (t : Nat) (fr : SFrame) (hfr : frs[t]? = some fr)
    (b : B) (o : O) :
    ∃ h, (run K frs (SState.init frs) [.buildForce t b, .solveStress t o]).frames[t]? = some h ∧
      h.forces = some (reportForces fr.internal (K.usedOf t b) (K.solveF t b o)) ∧
      h.edgeT = writeBack fr (K.usedOf t b) (K.solveF t b o) (List.replicate fr.nEdges 0) ∧
      h.beT = assignBig fr (writeBack fr (K.usedOf t b) (K.solveF t b o) (List.replicate fr.nEdges 0)) := by
  have hf0 : (step K frs (SState.init frs : SState B) (.buildForce t b)).frames[t]? =
      some { (FState.init fr : FState B) with build := some b } := by
    show (updFrame _ _ _).frames[t]? = _
    rw [C10.updFrame_frames_getElem?, if_pos rfl, C10.init_frames_getElem? frs t fr hfr]; rfl
  refine ⟨C10.solvedFrame K fr t b o (List.replicate fr.nEdges 0) { (FState.init fr : FState B) with build := some b },
    ?_, rfl, rfl, rfl⟩
  show (step K frs (step K frs (SState.init frs) (.buildForce t b)) (.solveStress t o)).frames[t]? = _
  rw [C10.step_solveStress_some K frs _ t o fr _ b hfr hf0 rfl, C10.solvedState_frames_self K fr _ t b o _ _ hf0]
  rfl

/-- pressures: whatever the history, the pressures a frame carries are `pressF` of interface tensions that are either all
    zero (pressure matrix built before any solve) or exactly those of one solve of a fresh frame -/
theorem run_pressure_closed_form (K : Kernels B O P) (frs : List SFrame) (hw : ∀ fr ∈ frs, WFFrame fr) (hk : WFKernels K frs)
    (ops : List (Op B O P)) (t : Nat) (fr : SFrame) (f : FState B) (pr : List Rat) (hfr : frs[t]? = some fr)
    (hf : (run K frs (SState.init frs) ops).frames[t]? = some f) (hp : f.cellP = some pr) :
    ∃ ts p, pr = K.pressF t ts p ∧
      (ts = List.replicate fr.edgesOf.length 0 ∨
       ∃ b o, ts = assignBig fr (writeBack fr (K.usedOf t b) (K.solveF t b o) (List.replicate fr.nEdges 0))) := by
  have hsh := C10h.run_shapeOK K frs (fun fr hfr => (hw fr hfr).toC10) hk.toC10 ops _ (C10.init_inv' frs)
    (C10h.init_shapeOK K frs) t fr f hfr hf
  rcases hsh.2.2 with h0 | ⟨ts, p, hT, hc⟩
  · rw [h0] at hp; simp at hp
  · rw [hc] at hp
    simp only [Option.some.injEq] at hp
    exact ⟨ts, p, hp.symm, hT⟩

/-- the tension table after any history: it lists exactly the internal interfaces in order; the n-th entry belongs to the
    n-th internal interface and is either −1 with the interface carrying 0 (excluded by the build) or the value stored on
    that interface and on each of its mesh edges; external interfaces and their mesh edges stay at zero.
    (Lengths are part of the conclusion, and `WFFrame.edges_lt` puts every listed mesh edge in range, so no `getD`
    default is ever used.) -/
theorem run_report_table (K : Kernels B O P) (frs : List SFrame) (hw : ∀ fr ∈ frs, WFFrame fr) (hk : WFKernels K frs)
    (ops : List (Op B O P)) (t : Nat) (fr : SFrame) (f : FState B) (l : List Rat) (hfr : frs[t]? = some fr)
    (hf : (run K frs (SState.init frs) ops).frames[t]? = some f) (hl : f.forces = some l) :
    l.length = fr.internal.length ∧ f.beT.length = fr.edgesOf.length ∧ f.edgeT.length = fr.nEdges ∧
    (∀ (n i : Nat), fr.internal[n]? = some i →
        (l[n]? = some (-1) ∧ f.beT.getD i 1 = 0) ∨
        (∃ v, l[n]? = some v ∧ f.beT.getD i 0 = v ∧ ∀ e ∈ fr.edgesOf.getD i [], f.edgeT.getD e 0 = v)) ∧
    (∀ i, i < fr.edgesOf.length → i ∉ fr.internal →
        f.beT.getD i 1 = 0 ∧ ∀ e ∈ fr.edgesOf.getD i [], f.edgeT.getD e 0 = 0) :=
  C10h.run_report_table' K frs (fun fr hfr => (hw fr hfr).toC10) hk.toC10 ops t fr f l hfr hf hl

/-- the hypotheses of the closed-form theorems are satisfiable (`WFFrame exFrame`, `WFKernels exKernels [exFrame]` are
    shown in Props/C10.lean) on a history with a re-build, a re-solve and pressure steps; the table has one value
    entry and one excluded entry, so both alternatives of `run_report_table` occur -/
example : ∃ f l pr, (run exKernels [exFrame] (SState.init [exFrame])
      [.buildForce 0 (), .solveStress 0 (), .buildPressure 0, .sysVelocity [0], .solveStress 0 (), .solvePressure 0 ()]).frames[0]? = some f ∧
    f.forces = some l ∧ f.cellP = some pr ∧ [exFrame][0]? = some exFrame :=
  ⟨_, _, _, rfl, rfl, rfl, rfl⟩

example : (run exKernels [exFrame] (SState.init [exFrame])
      [.buildForce 0 (), .solveStress 0 (), .buildPressure 0, .sysVelocity [0], .solveStress 0 (), .solvePressure 0 ()]).frames.map
        (fun f => (f.forces, f.beT, f.cellP)) = [(some [2, -1], [2, 0, 0], some [2, 0, 0])] := by
  decide +kernel

/-- two arbitrary histories (same frame data and kernels; the same or two different solver objects) whose last
    `solve_stress(t)` used the same options `o` and found the same build options `b` in force hold the same tensions on
    frame `t`, report the same table and store the same entry under key `t` — everything before that solve, and every
    later operation that is not a `solve_stress(t)`, is irrelevant -/
theorem run_report_depends_on_last (K : Kernels B O P) (frs : List SFrame) (hw : ∀ fr ∈ frs, WFFrame fr) (hk : WFKernels K frs)
    (pre1 post1 pre2 post2 : List (Op B O P)) (t : Nat) (o : O) (b : B) (fr : SFrame) (f1 f2 : FState B)
    (hfr : frs[t]? = some fr)
    (hf1 : (run K frs (SState.init frs) pre1).frames[t]? = some f1) (hb1 : f1.build = some b)
    (hf2 : (run K frs (SState.init frs) pre2).frames[t]? = some f2) (hb2 : f2.build = some b)
    (hpost1 : post1.all (noSolveStress t) = true) (hpost2 : post2.all (noSolveStress t) = true) :
    ∃ g1 g2, (run K frs (SState.init frs) (pre1 ++ [.solveStress t o] ++ post1)).frames[t]? = some g1 ∧
      (run K frs (SState.init frs) (pre2 ++ [.solveStress t o] ++ post2)).frames[t]? = some g2 ∧
      g1.edgeT = g2.edgeT ∧ g1.beT = g2.beT ∧ g1.forces = g2.forces ∧
      (run K frs (SState.init frs) (pre1 ++ [.solveStress t o] ++ post1)).storeForces[t]? =
        (run K frs (SState.init frs) (pre2 ++ [.solveStress t o] ++ post2)).storeForces[t]? := by
  obtain ⟨g1, h1, a1, a2, a3, a4, a5⟩ := run_fresh_equiv K frs hw hk pre1 post1 t o b fr f1 hfr hf1 hb1 hpost1
  obtain ⟨g2, h2, c1, c2, c3, c4, c5⟩ := run_fresh_equiv K frs hw hk pre2 post2 t o b fr f2 hfr hf2 hb2 hpost2
  rw [a2] at c2
  simp only [Option.some.injEq] at c2
  subst c2
  refine ⟨g1, g2, a1, c1, a3.trans c3.symm, a4.trans c4.symm, a5.trans c5.symm, ?_⟩
  rw [(run_store_eq_frame K frs _ t g1 a1).1, (run_store_eq_frame K frs _ t g2 c1).1, a5, c5]

/-- the hypotheses of `run_report_depends_on_last` are satisfiable by two different histories -/
example : ∃ f1 f2,
    (run exKernels [exFrame] (SState.init [exFrame]) [.buildForce 0 ()]).frames[0]? = some f1 ∧ f1.build = some () ∧
    (run exKernels [exFrame] (SState.init [exFrame]) [.buildForce 0 (), .solveStress 0 (), .buildPressure 0, .sysVelocity [0]]).frames[0]? = some f2 ∧
    f2.build = some () ∧
    ([.buildPressure 0, .solvePressure 0 ()] : List (Op Unit Unit Unit)).all (noSolveStress 0) = true ∧
    ([] : List (Op Unit Unit Unit)).all (noSolveStress 0) = true :=
  ⟨_, _, rfl, rfl, rfl, rfl, rfl, rfl⟩

end Forsys
